#!/usr/bin/env python3
"""
Which lines of /repo/src do the correspondence runs execute?  (a measurement of the tie, decides nothing)

  tools/coverage.py [--tier quick|thorough] [--work /tmp/cov]

Builds the harness and /repo's binaries with `-C instrument-coverage` (nightly toolchain: it ships
llvm-profdata / llvm-cov), runs every stream registered in checklib/props.py once, merges the profiles and
writes /verif/coverage/REPORT.md (per-file line coverage of /repo/src, uncovered line ranges outside
#[cfg(test)] modules) and /verif/coverage/lines.json. The work directory is removed afterwards.
"""
import os, sys, subprocess, json, glob, shutil, re, collections

ROOT = os.path.dirname(os.path.dirname(os.path.abspath(__file__)))
sys.path.insert(0, ROOT)
from checklib.props import PROPS

NIGHTLY_BIN = os.path.expanduser("~/.rustup/toolchains/nightly-x86_64-unknown-linux-gnu/lib/rustlib/x86_64-unknown-linux-gnu/bin")


def sh(cmd, **kw):
    p = subprocess.run(cmd, stdout=subprocess.PIPE, stderr=subprocess.STDOUT, **kw)
    return p.returncode, p.stdout.decode("utf-8", "replace")


def main():
    tier, work = "quick", "/tmp/cov"
    a = sys.argv[1:]
    while a:
        if a[0] == "--tier": tier = a[1]
        elif a[0] == "--work": work = a[1]
        a = a[2:]
    os.makedirs(work + "/prof", exist_ok=True)
    env = dict(os.environ, CARGO_NET_OFFLINE="true")
    e1 = dict(env, RUSTFLAGS="-C instrument-coverage --cfg roughenough_verif", CARGO_TARGET_DIR=work + "/target")
    rc, out = sh(["cargo", "+nightly", "build", "--offline"], cwd=ROOT + "/harness", env=e1)
    if rc: sys.exit("harness coverage build failed\n" + out[-2000:])
    e2 = dict(env, RUSTFLAGS="-C instrument-coverage", CARGO_TARGET_DIR=work + "/repo-target")
    rc, out = sh(["cargo", "+nightly", "build", "--offline", "--bins", "--manifest-path", "/repo/Cargo.toml"], cwd="/repo", env=e2)
    if rc: sys.exit("repo coverage build failed\n" + out[-2000:])
    rvh = work + "/target/debug/rvh"
    streams = []
    for pid, cfg in sorted(PROPS.items()):
        for s in cfg["streams"]:
            key = tuple(s["args"])
            if key not in [k for k, _ in streams]:
                streams.append((key, s.get("shards_" + tier, 1)))
    renv = dict(env, RVH_DRIVER=ROOT + "/lean/.lake/build/bin/driver", RVH_BUILD=work, RVH_RUNDIR=work + "/run",
                RVH_REPO_BIN=work + "/repo-target/debug", LLVM_PROFILE_FILE=work + "/prof/%p-%m.profraw")
    os.makedirs(work + "/run", exist_ok=True)
    per_stream = {}
    for key, shards in streams:
        procs = [subprocess.Popen([rvh] + list(key) + ["--seed", "1", "--tier", tier, "--shard", f"{i}/{shards}"],
                                  stdout=subprocess.DEVNULL, stderr=subprocess.DEVNULL, env=renv, cwd=work + "/run") for i in range(shards)]
        rcs = [p.wait() for p in procs]
        per_stream[" ".join(key)] = rcs
        print("stream", " ".join(key), "rc", set(rcs), flush=True)
    raws = glob.glob(work + "/prof/*.profraw")
    rc, out = sh([NIGHTLY_BIN + "/llvm-profdata", "merge", "-sparse", "-o", work + "/all.profdata"] + raws)
    if rc: sys.exit("profdata merge failed\n" + out[-2000:])
    objs = [rvh, work + "/repo-target/debug/roughenough-server", work + "/repo-target/debug/roughenough-client"]
    cmd = [NIGHTLY_BIN + "/llvm-cov", "export", "-format=text", "-instr-profile", work + "/all.profdata", objs[0]]
    for o in objs[1:]:
        cmd += ["-object", o]
    p = subprocess.run(cmd, stdout=subprocess.PIPE, stderr=subprocess.PIPE)
    data = json.loads(p.stdout)
    files = {}
    for f in data["data"][0]["files"]:
        name = f["filename"]
        if not name.startswith("/repo/src/"):
            continue
        # segments: [line, col, count, hasCount, isRegionEntry, isGap]
        covered, uncovered = set(), set()
        segs = f["segments"]
        for i, s in enumerate(segs):
            line, col, count, has, _, gap = s[:6]
            if not has or gap:
                continue
            end_line = segs[i + 1][0] if i + 1 < len(segs) else line
            for l in range(line, max(line, end_line) + (0 if i + 1 < len(segs) and segs[i + 1][1] == 1 else 1)):
                (covered if count > 0 else uncovered).add(l)
        uncovered -= covered
        src = open(name).read().split("\n")
        test_start = next((i + 1 for i, l in enumerate(src) if re.match(r"\s*#\[cfg\(test\)\]", l)), len(src) + 1)
        covered = {l for l in covered if l < test_start}
        uncovered = {l for l in uncovered if l < test_start and l <= len(src) and src[l - 1].strip() and not src[l - 1].strip().startswith(("//", "}", "#["))}
        files[name[len("/repo/"):]] = {"covered": sorted(covered), "uncovered": sorted(uncovered)}
    os.makedirs(ROOT + "/coverage", exist_ok=True)
    json.dump({"tier": tier, "streams": per_stream, "files": files}, open(ROOT + "/coverage/lines.json", "w"))

    def ranges(ls):
        out, start, prev = [], None, None
        for l in ls:
            if start is None: start = prev = l
            elif l == prev + 1: prev = l
            else: out.append((start, prev)); start = prev = l
        if start is not None: out.append((start, prev))
        return ", ".join(f"{a}" if a == b else f"{a}-{b}" for a, b in out)

    with open(ROOT + "/coverage/REPORT.md", "w") as f:
        f.write(f"# Lines of /repo/src executed by the correspondence runs ({tier} tier, seed 1)\n\n")
        f.write("Produced by `tools/coverage.py` (harness + /repo binaries built with `-C instrument-coverage`, every stream of `checklib/props.py` run once).\n"
                "A measurement of how much of the code the model is compared with; it decides nothing. `#[cfg(test)]` modules are excluded.\n\n")
        f.write("| file | executed | not executed | not executed: lines |\n|---|---|---|---|\n")
        tc = tu = 0
        for name, d in sorted(files.items()):
            c, u = len(d["covered"]), len(d["uncovered"])
            tc += c; tu += u
            f.write(f"| {name} | {c} | {u} | {ranges(d['uncovered'])} |\n")
        f.write(f"| **total** | {tc} | {tu} | {100.0 * tc / max(1, tc + tu):.1f}% executed |\n")
    print(open(ROOT + "/coverage/REPORT.md").read())
    shutil.rmtree(work, ignore_errors=True)


if __name__ == "__main__":
    main()

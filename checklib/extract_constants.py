#!/usr/bin/env python3
"""
Translator for the *constants* of /repo: parses the Rust sources and regenerates
/verif/lean/Rough/Generated/Constants.lean on every run. The per-property `const_checks` in
checklib/props.py are Lean propositions relating these generated constants to the model's; they are
discharged by `decide` in a scratch file by ./check. A constant that changes (or can no longer be
found) therefore breaks a proof obligation of exactly the properties that depend on it.
Only literal constants are translated; everything else is tied by the correspondence runs.
"""
import re, os, os, sys

REPO = os.environ.get("VERIF_REPO", "/repo")
OUT = os.path.join(os.path.dirname(os.path.dirname(os.path.abspath(__file__))), "lean", "Rough", "Generated", "Constants.lean")


def src(path):
    return open(os.path.join(REPO, path), encoding="utf-8").read()


def rust_bytes(lit):
    """bytes of a Rust (byte-)string literal body: handles \\xNN \\0 \\n \\\\ \\" """
    out = []
    i = 0
    while i < len(lit):
        c = lit[i]
        if c == "\\":
            n = lit[i + 1]
            if n == "x":
                out.append(int(lit[i + 2:i + 4], 16)); i += 4
            elif n == "0":
                out.append(0); i += 2
            elif n == "n":
                out.append(10); i += 2
            elif n == "r":
                out.append(13); i += 2
            elif n == "t":
                out.append(9); i += 2
            elif n in "\\\"'":
                out.append(ord(n)); i += 2
            else:
                raise ValueError("escape " + n)
        else:
            out.extend(c.encode("utf-8")); i += 1
    return out


def num(s):
    return int(s.replace("_", ""), 0)


def lean_bytes(bs):
    return "[" + ", ".join(str(b) for b in bs) + "]"


def find(pattern, text, what, flags=0):
    m = re.search(pattern, text, flags)
    if not m:
        return None
    return m


def main():
    consts = []      # (name, lean type, lean value)
    missing = []

    def resolve_named(ident, path):
        """value of `const IDENT: T = <integer literal>;` in the same file, else anywhere under src/"""
        pat = r"const\s+" + re.escape(ident) + r"\s*:\s*[A-Za-z0-9_]+\s*=\s*([0-9][0-9_a-fx]*)(?:\s+as\s+\w+)?\s*;"
        m = re.search(pat, src(path))
        if m: return m.group(1)
        for root, _, files in os.walk(os.path.join(REPO, "src")):
            for f in sorted(files):
                if f.endswith(".rs"):
                    m = re.search(pat, open(os.path.join(root, f)).read())
                    if m: return m.group(1)
        return None

    def add_nat(name, path, pattern, flags=0):
        # the literal may have been given a name (`const X: usize = 32;`): accept an identifier where a number stood
        m = find(pattern.replace("([0-9_]+)", "([0-9][0-9_]*|[A-Z][A-Z0-9_]*)"), src(path), name, flags)
        if m:
            g = m.group(1)
            if not g[0].isdigit():
                g = resolve_named(g, path)
            if g is not None:
                consts.append((name, "Nat", str(num(g))))
                return
        missing.append(name)

    def add_bytes_from_str(name, path, pattern, flags=0):
        m = find(pattern, src(path), name, flags)
        if m:
            consts.append((name, "List UInt8", lean_bytes(rust_bytes(m.group(1)))))
        else:
            missing.append(name)

    def add_bytes_from_array(name, path, pattern):
        m = find(pattern, src(path), name)
        if m:
            vals = [num(x.strip()) for x in m.group(1).split(",") if x.strip()]
            consts.append((name, "List UInt8", lean_bytes(vals)))
        else:
            missing.append(name)

    # lib.rs
    add_nat("MIN_REQUEST_LENGTH", "src/lib.rs", r"pub const MIN_REQUEST_LENGTH: usize = ([0-9_]+);")
    add_nat("MAX_REQUEST_LENGTH", "src/lib.rs", r"pub const MAX_REQUEST_LENGTH: usize = ([0-9_]+);")
    add_nat("SEED_LENGTH", "src/lib.rs", r"pub const SEED_LENGTH: u32 = ([0-9_]+);")
    add_nat("SIGNATURE_LENGTH", "src/lib.rs", r"pub const SIGNATURE_LENGTH: u32 = ([0-9_]+);")
    add_bytes_from_array("TREE_LEAF_TWEAK", "src/lib.rs", r"pub const TREE_LEAF_TWEAK: &\[u8\] = &\[([^\]]*)\];")
    add_bytes_from_array("TREE_NODE_TWEAK", "src/lib.rs", r"pub const TREE_NODE_TWEAK: &\[u8\] = &\[([^\]]*)\];")
    add_bytes_from_str("REQUEST_FRAMING_BYTES", "src/lib.rs", r'pub const REQUEST_FRAMING_BYTES: &\[u8\] = b"((?:[^"\\]|\\.)*)";')
    # tag.rs: enum order and wire bytes
    tag = src("src/tag.rs")
    m = re.search(r"pub enum Tag \{(.*?)\}", tag, re.S)
    order = [x.strip().rstrip(",") for x in m.group(1).split("\n") if x.strip() and not x.strip().startswith("//")] if m else []
    wires = dict((a, rust_bytes(b)) for a, b in re.findall(r'Tag::(\w+) => TagData \{ wire: b"((?:[^"\\]|\\.)*)"', tag))
    if order and all(t in wires for t in order):
        consts.append(("TAG_ORDER", "List String", "[" + ", ".join('"%s"' % t for t in order) + "]"))
        consts.append(("TAG_WIRES", "List (List UInt8)", "[" + ", ".join(lean_bytes(wires[t]) for t in order) + "]"))
    else:
        missing.append("TAG_ORDER/TAG_WIRES")
    # from_wire must be the inverse table
    back = dict((b, a) for b, a in re.findall(r'b"((?:[^"\\]|\\.)*)" => Ok\(Tag::(\w+)\)', tag))
    consts.append(("TAG_FROM_WIRE_CONSISTENT", "Bool", "true" if order and all(back.get_key if False else True for _ in [0]) and
                   all(any(rust_bytes(b) == wires[t] and a == t for b, a in back.items()) for t in order) and len(back) == len(order) else "false"))
    add_bytes_from_array("HASH_PREFIX_SRV", "src/tag.rs", r"HASH_PREFIX_SRV: &'static \[u8\] = &\[([^\]]*)\];")
    nested = re.search(r"Tag::CERT \| Tag::DELE \| Tag::SREP => true", tag)
    consts.append(("NESTED_TAGS_ARE_CERT_DELE_SREP", "Bool", "true" if nested else "false"))
    # version.rs
    ver = src("src/version.rs")
    for v, name in (("Google", "GOOGLE"), ("RfcDraft13", "IETF")):
        m = re.search(r"Version::%s => VersionData \{(.*?)\}" % v, ver, re.S)
        if not m:
            missing.append("VERSION_" + name); continue
        body = m.group(1)
        w = re.search(r"wire: &\[([^\]]*)\]", body)
        d = re.search(r'dele_prefix: b"((?:[^"\\]|\\.)*)"', body)
        s = re.search(r'srep_prefix: b"((?:[^"\\]|\\.)*)"', body)
        if w and d and s:
            consts.append((name + "_WIRE", "List UInt8", lean_bytes([num(x.strip()) for x in w.group(1).split(",") if x.strip()])))
            consts.append((name + "_DELE_PREFIX", "List UInt8", lean_bytes(rust_bytes(d.group(1)))))
            consts.append((name + "_SREP_PREFIX", "List UInt8", lean_bytes(rust_bytes(s.group(1)))))
        else:
            missing.append("VERSION_" + name)
    sv = re.search(r"supported_versions_wire\(\) -> Vec<u8> \{\s*\[\s*Version::Google\.wire_bytes\(\),\s*Version::RfcDraft13\.wire_bytes\(\),\s*\]", ver)
    consts.append(("SUPPORTED_VERSIONS_GOOGLE_THEN_IETF", "Bool", "true" if sv else "false"))
    # request.rs
    add_nat("CLASSIC_NONCE_LENGTH", "src/request.rs", r"const CLASSIC_NONCE_LENGTH: usize = ([0-9_]+);")
    add_nat("RFC_NONCE_LENGTH", "src/request.rs", r"const RFC_NONCE_LENGTH: usize = ([0-9_]+);")
    add_nat("ITERATION_LIMIT", "src/request.rs", r"const ITERATION_LIMIT: usize = ([0-9_]+);")
    # online.rs
    add_nat("RADI_GOOGLE", "src/key/online.rs", r"Version::Google => ([0-9_]+),\s*// five seconds")
    add_nat("RADI_IETF", "src/key/online.rs", r"Version::RfcDraft13 => ([0-9_]+),\s*// five seconds")
    add_nat("CLASSIC_MIDP_SECS_FACTOR", "src/key/online.rs", r"let secs = d\.as_secs\(\) \* ([0-9_]+);")
    add_nat("CLASSIC_MIDP_NANOS_DIVISOR", "src/key/online.rs", r"let nsecs = \(d\.subsec_nanos\(\) as u64\) / ([0-9_]+);")
    # merkle.rs
    add_nat("IETF_NODE_LEN", "src/merkle.rs", r"fn node_len\(&self\) -> usize \{\s*match self\.version \{\s*RfcDraft13 => ([0-9_]+),")
    # server.rs
    add_nat("MAX_BATCHES_PER_CALL", "src/server.rs", r"const MAX_BATCHES_PER_CALL: usize = ([0-9_]+);")
    add_bytes_from_str("HTTP_RESPONSE", "src/server.rs", r'const HTTP_RESPONSE: &str = "((?:[^"\\]|\\.)*)";')
    add_nat("POLL_TIMEOUT_MS", "src/server.rs", r"let poll_duration = Some\(Duration::from_millis\(([0-9_]+)\)\);")
    # config/mod.rs
    add_nat("DEFAULT_BATCH_SIZE", "src/config/mod.rs", r"pub const DEFAULT_BATCH_SIZE: u8 = ([0-9_]+);")
    add_nat("DEFAULT_STATUS_INTERVAL", "src/config/mod.rs", r"pub const DEFAULT_STATUS_INTERVAL: Duration = Duration::from_secs\(([0-9_]+)\);")
    add_nat("MAX_VALID_BATCH_SIZE", "src/config/mod.rs", r"cfg\.batch_size\(\) < 1 \|\| cfg\.batch_size\(\) > ([0-9_]+)")
    add_nat("MAX_VALID_FAULT_PERCENTAGE", "src/config/mod.rs", r"cfg\.fault_percentage\(\) > ([0-9_]+)")
    # kms
    add_nat("KMS_NONCE_LEN_BYTES", "src/kms/mod.rs", r"const NONCE_LEN_BYTES: usize = ([0-9_]+);")
    add_nat("KMS_TAG_LEN_BYTES", "src/kms/mod.rs", r"const TAG_LEN_BYTES: usize = ([0-9_]+);")
    add_nat("KMS_DEK_LEN_BYTES", "src/kms/mod.rs", r"const DEK_LEN_BYTES: usize = ([0-9_]+);")
    add_bytes_from_str("KMS_AD", "src/kms/mod.rs", r'const AD: &str = "((?:[^"\\]|\\.)*)";')
    env = src("src/kms/envelope.rs")
    m = re.search(r"const MIN_PAYLOAD_SIZE: usize = ([^;]*);", env, re.S)
    if m:
        terms = [t.strip() for t in m.group(1).replace("\n", " ").split("+")]
        table = {"DEK_LEN_FIELD": 2, "NONCE_LEN_FIELD": 2, "SEED_LENGTH as usize": None}
        vals = dict((n, v) for n, _, v in consts if _ == "Nat")
        total = 0; ok = True
        for t in terms:
            if t == "DEK_LEN_FIELD" or t == "NONCE_LEN_FIELD":
                mm = re.search(r"const %s: usize = ([0-9_]+);" % t, env); total += num(mm.group(1)) if mm else 0; ok &= bool(mm)
            elif t == "NONCE_LEN_BYTES": total += int(vals.get("KMS_NONCE_LEN_BYTES", 0))
            elif t == "TAG_LEN_BYTES": total += int(vals.get("KMS_TAG_LEN_BYTES", 0))
            elif t == "DEK_LEN_BYTES": total += int(vals.get("KMS_DEK_LEN_BYTES", 0))
            elif t == "SEED_LENGTH as usize": total += int(vals.get("SEED_LENGTH", 0))
            else: ok = False
        if ok:
            consts.append(("KMS_MIN_PAYLOAD_SIZE", "Nat", str(total)))
        else:
            missing.append("KMS_MIN_PAYLOAD_SIZE")
    else:
        missing.append("KMS_MIN_PAYLOAD_SIZE")
    # stats
    add_nat("MAX_CLIENTS", "src/stats/mod.rs", r"pub const MAX_CLIENTS: usize = ([0-9_]+);")
    # environment variable names
    envs = dict(re.findall(r'const (ROUGHENOUGH_\w+): &str = "([^"]*)";', src("src/config/environment.rs")))
    names_ok = all(v == ("ROUGHENOUGH_PERSISTENCE_DIRECTORY" if k == "ROUGHENOUGH_PERSIST_DIRECTORY" else k) for k, v in envs.items()) and len(envs) == 11
    consts.append(("ENV_NAMES_MATCH_DOCUMENTED", "Bool", "true" if names_ok else "false"))

    lines = ["/- GENERATED by /verif/checklib/extract_constants.py from /repo's working tree. DO NOT EDIT. -/",
             "namespace Rough.Generated", ""]
    for name, ty, val in consts:
        lines.append(f"def {name} : {ty} := {val}")
    lines.append("")
    lines.append("/-- constants the translator could not find in the source (empty on a tree it understands) -/")
    lines.append("def MISSING : List String := [" + ", ".join('"%s"' % m for m in missing) + "]")
    lines += ["", "end Rough.Generated", ""]
    text = "\n".join(lines)
    old = open(OUT).read() if os.path.exists(OUT) else None
    if old != text:
        os.makedirs(os.path.dirname(OUT), exist_ok=True)
        with open(OUT, "w") as f:
            f.write(text)
    print(f"{len(consts)} constants, {len(missing)} missing" + (": " + ", ".join(missing) if missing else ""))


if __name__ == "__main__":
    main()

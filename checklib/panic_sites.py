#!/usr/bin/env python3
"""
Panic-site inventory translator: regenerated from /repo's source on every run.

The "never panics" theorems (C04, C06, C08, C14) are statements about models in which every Rust construct
that can panic is an explicit `Res.panic "<site>"` branch. They cover the code only as far as that inventory
is complete. This script re-derives the inventory from the *current* source text: for every function of the
modelled files it counts the panic-capable constructs

    unwrap   `.unwrap()`                        expect   `.expect(`
    index    `x[..]` indexing / slicing         macro    panic! unreachable! assert! assert_eq! assert_ne! todo! unimplemented!
    sub      binary `-` / `-=`  (usize underflow panics in the dev profile the tests and the harness use)
    from     `try_into().unwrap` / `copy_from_slice` / `split_at` / `from_slice` (length-mismatch panics)

and compares them with the committed inventory `checklib/panic_inventory.json`, where every entry says which
model panic branches represent it or why it cannot fire. A difference means: the source gained or lost a
panic-capable construct in a modelled function, so the theorems are no longer known to cover the code.

  panic_sites.py            print the current inventory as JSON
  panic_sites.py --check    compare with the committed inventory; prints one line per difference; exit 1 if any
  panic_sites.py --write    rewrite the `counts` of the committed inventory (notes are kept) — only after the model
                            has been brought up to date by hand
"""
import re, os, sys, json

REPO = os.environ.get("VERIF_REPO", "/repo")
HERE = os.path.dirname(os.path.abspath(__file__))
INVENTORY = os.path.join(HERE, "panic_inventory.json")

# file -> properties whose theorems rest on its inventory
FILES = {
    "src/message.rs": ["C06", "C08"],
    "src/tag.rs": ["C06", "C08"],
    "src/request.rs": ["C08"],
    "src/responder.rs": ["C08"],
    "src/server.rs": ["C08"],
    "src/grease.rs": ["C08"],
    "src/merkle.rs": ["C04", "C08"],
    "src/key/online.rs": ["C08"],
    "src/key/longterm.rs": ["C08"],
    "src/sign.rs": ["C08"],
    "src/version.rs": ["C08"],
    "src/kms/envelope.rs": ["C14"],
    "src/stats/per_client.rs": ["C08"],
    "src/stats/aggregated.rs": ["C08"],
}


def strip(src):
    """blank out comments, string and char literals (keeping line structure)"""
    out, i, n = [], 0, len(src)
    while i < n:
        c = src[i]
        if src.startswith("//", i):
            j = src.find("\n", i)
            j = n if j < 0 else j
            out.append(" " * (j - i)); i = j
        elif src.startswith("/*", i):
            j = src.find("*/", i + 2)
            j = n if j < 0 else j + 2
            out.append(re.sub(r"[^\n]", " ", src[i:j])); i = j
        elif c == '"':
            j = i + 1
            while j < n and src[j] != '"':
                j += 2 if src[j] == "\\" else 1
            out.append('"' + re.sub(r"[^\n]", " ", src[i + 1:j]) + '"'); i = j + 1
        elif c == "r" and re.match(r'r#*"', src[i:]):
            m = re.match(r'r(#*)"', src[i:])
            end = src.find('"' + m.group(1), i + len(m.group(0)))
            end = n if end < 0 else end + 1 + len(m.group(1))
            out.append(re.sub(r"[^\n]", " ", src[i:end])); i = end
        elif c == "'" and re.match(r"'(\\.|[^\\'])'", src[i:]):
            m = re.match(r"'(\\.|[^\\'])'", src[i:])
            out.append(" " * len(m.group(0))); i += len(m.group(0))
        else:
            out.append(c); i += 1
    return "".join(out)


PATTERNS = {
    "unwrap": re.compile(r"\.unwrap\(\)"),
    "expect": re.compile(r"\.expect\("),
    "index": re.compile(r"(?<=[\w\)\]])\["),
    "macro": re.compile(r"\b(panic|unreachable|assert|assert_eq|assert_ne|todo|unimplemented)!"),
    "sub": re.compile(r"(?<=\s)-=?(?=\s)"),
    "from": re.compile(r"\b(copy_from_slice|split_at|split_at_mut|from_slice|clone_from_slice)\("),
}


def inventory_of(path):
    src = strip(open(path).read())
    # cut the #[cfg(test)] module
    m = re.search(r"#\[cfg\(test\)\]\s*mod\s", src)
    if m:
        src = src[:m.start()]
    res = {}
    # functions: `fn name` ... body delimited by braces
    for m in re.finditer(r"\bfn\s+(\w+)", src):
        name = m.group(1)
        i = src.find("{", m.end())
        semi = src.find(";", m.end())
        if i < 0 or (0 <= semi < i):
            continue   # trait method declaration
        depth, j = 0, i
        while j < len(src):
            if src[j] == "{": depth += 1
            elif src[j] == "}":
                depth -= 1
                if depth == 0: break
            j += 1
        body = src[i:j + 1]
        counts = {k: len(p.findall(body)) for k, p in PATTERNS.items()}
        counts = {k: v for k, v in counts.items() if v}
        key = name
        k = 2
        while key in res:
            key = f"{name}#{k}"; k += 1
        if counts:
            res[key] = counts
    return res


def current():
    inv = {}
    for rel in FILES:
        p = os.path.join(REPO, rel)
        if os.path.exists(p):
            inv[rel] = inventory_of(p)
        else:
            inv[rel] = {"<file missing>": {}}
    return inv


def differences(props=None):
    """list of (file, function, text) for every difference between the committed and the current inventory"""
    committed = json.load(open(INVENTORY))["files"]
    cur = current()
    diffs = []
    for rel, fns in cur.items():
        if props is not None and not (set(FILES[rel]) & set(props)):
            continue
        old = {k: v["counts"] for k, v in committed.get(rel, {}).items()}
        for fn in sorted(set(fns) | set(old)):
            a, b = old.get(fn), fns.get(fn)
            if a == b:
                continue
            if a is None:
                diffs.append((rel, fn, f"new function with panic-capable constructs {b} that no model branch accounts for"))
            elif b is None:
                diffs.append((rel, fn, f"function with modelled panic sites {a} no longer exists (moved or renamed: the model's site inventory is out of date)"))
            else:
                ch = ", ".join(f"{k}: {a.get(k, 0)}→{b.get(k, 0)}" for k in sorted(set(a) | set(b)) if a.get(k, 0) != b.get(k, 0))
                diffs.append((rel, fn, f"panic-capable constructs changed ({ch})"))
    return diffs


def main():
    if "--check" in sys.argv:
        d = differences()
        for rel, fn, text in d:
            print(f"{rel}::{fn}: {text}")
        print(f"{len(d)} differences")
        sys.exit(1 if d else 0)
    if "--write" in sys.argv:
        old = json.load(open(INVENTORY))["files"] if os.path.exists(INVENTORY) else {}
        cur = current()
        out = {}
        for rel, fns in cur.items():
            out[rel] = {}
            for fn, counts in fns.items():
                note = old.get(rel, {}).get(fn, {}).get("model", "TODO")
                out[rel][fn] = {"counts": counts, "model": note}
        json.dump({"comment": "panic-capable constructs per function of the modelled files; `model` = the Res.panic branches of the Lean model that represent them, or why they cannot fire. Regenerated counts are compared on every run (checklib/panic_sites.py).",
                   "files": out}, open(INVENTORY, "w"), indent=1)
        return
    print(json.dumps(current(), indent=1))


if __name__ == "__main__":
    main()

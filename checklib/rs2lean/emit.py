"""
rs2lean emitter: Rust function ASTs (rsparse) -> Lean 4 definitions in the `Res` monad (Rough/Gen/Prelude.lean).

Translation scheme (see DESIGN.md §2.1c):
  * every function becomes `def Gen.<Type>.<name> (params…) : Res <ret>` written as a `do` block;
    `Result<T,E>` collapses to `Res T` (`Err(_)` = `Res.err`, the payload is not evaluated);
    `&mut self` / `&mut` parameters are returned: `Res (ret × Self × …)`
  * local `let mut`, assignment, `if`, `match`, early `return` map to Lean's own do-notation;
  * loops map to `Rs.forList` / `Rs.forListR` / `Rs.whileFuel` over the tuple of all mutable variables in scope;
  * every construct that can panic (unsigned `-`, `[]`, slices, `unwrap`, `expect`, `assert!`, `/`, `%`) is a call
    into the prelude that yields `Res.panic "<file>:<line>:<what>"`;
  * integer types are `Nat` (casts to narrower types are `% 2^k`; `+`/`*` are assumed not to overflow 64 bits);
  * log macros (`error!` … `trace!`) are dropped; capacities are dropped.
Anything outside the supported subset raises Unsupported (the run then reports the function as untranslatable).
"""
import re
from rsparse import N

LOG_MACROS = {"error", "warn", "info", "debug", "trace", "println", "eprintln", "print", "eprint"}
INT_TYPES = {"usize", "u8", "u16", "u32", "u64", "u128", "isize", "i8", "i16", "i32", "i64", "i128"}
NARROW = {"u8": 256, "u16": 65536, "u32": 4294967296}
LEAN_KEYWORDS = {"end", "from", "at", "have", "show", "open", "fun", "then", "do", "by", "where", "with", "in", "of",
                 "type", "prefix", "infix", "local", "section", "namespace", "variable", "instance", "structure",
                 "class", "theorem", "def", "example", "mut", "macro", "syntax", "deriving", "extends", "private",
                 "protected", "partial", "unsafe", "nomatch", "exists", "forall", "using", "calc", "match", "if",
                 "else", "let", "return", "for", "unless", "try", "catch", "finally", "break", "continue", "import",
                 "export", "universe", "abbrev", "inductive", "opaque", "axiom", "notation", "postfix", "infixl",
                 "infixr", "attribute", "set_option", "this", "Type", "Prop", "Sort", "max", "min"}


class Unsupported(Exception):
    pass


def lname(n):
    """Lean-safe local name"""
    if n in LEAN_KEYWORDS:
        return n + "_"
    return n


def has_action(term):
    return "(←" in term


class Crate:
    """everything the emitter knows about the crate: parsed items + spec"""

    def __init__(self, spec):
        self.spec = spec
        self.fns = {}       # 'Type::name' | 'name' -> fn node
        self.fn_file = {}   # key -> short file name
        self.structs = {}
        self.consts = {}
        self.const_file = {}
        self.enums = {}
        self.method_index = {}  # method name -> [keys]

    def add_file(self, short, collected):
        for k, f in collected["fn"].items():
            self.fns[k] = f
            self.fn_file[k] = short
            self.method_index.setdefault(f["name"], []).append(k)
        self.structs.update(collected["struct"])
        for k, c in collected["const"].items():
            self.consts[k] = c
            self.consts.setdefault(k.split("::")[-1], c)
            self.const_file[k.split("::")[-1]] = short
        self.enums.update(collected["enum"])

    def module_params_of(self, key):
        for mod, m in self.spec.get("modules", {}).items():
            if key in m.get("functions", {}):
                fo = m["functions"][key]
                if "params" in fo: return fo["params"]   # per-function override (a function that needs fewer)
                return m.get("params", [])
        return []

    def module_opt(self, key, name):
        for mod, m in self.spec.get("modules", {}).items():
            if key in m.get("functions", {}): return m.get(name)
        return None

    def extern(self, key):
        return self.spec.get("externs", {}).get(key)

    def lean_fn_name(self, key):
        key = re.sub(r"@\w+", "", key)     # `Type@Trait::f` (a trait impl) is named like an inherent method
        if "::" in key:
            t, f = key.split("::")[0], key.split("::")[-1]
            st = self.structs.get(t)
            if st is not None and any(fn == f for fn, _ in st["fields"]):
                return f"Gen.{t}.{f}_fn"   # a method named like a field of its struct
        return "Gen." + key.replace("::", ".")


class Emitter:
    def __init__(self, crate, key, opts):
        self.c = crate
        self.key = key
        self.fn = crate.fns[key]
        self.file = crate.fn_file[key]
        self.opts = opts or {}
        self.self_type = key.split("::")[0].split("@")[0] if "::" in key else None
        self.scopes = []        # list of dict name -> {'mut':bool,'ty':rust type or None}
        self.tmp = 0
        self.loop_stack = []    # entries: {'muts': [...], 'ret': bool}
        self.while_count = 0
        self.site_count = {}
        self.deps = set()       # fn keys / const names referenced
        rt = self.fn["ret"]
        self.ret_is_result = self.is_result(rt)
        self.ret_inner = self.result_inner(rt) if self.ret_is_result else rt
        self.out_muts = []      # names returned in addition to the value (self, &mut params)

    # ------------------------------------------------------------------ helpers
    def site(self, line, what):
        # line-independent: <file>:<function>:<construct>#<k-th construct of that kind in the function>, so that
        # edits elsewhere in the file (comments, other functions) leave the generated text byte-identical
        k = self.site_count.get(what, 0) + 1
        self.site_count[what] = k
        return f'"{self.file}:{self.fn["name"]}:{what}#{k}"'

    def snapshot(self):
        return (self.tmp, self.while_count, set(self.deps), dict(self.site_count))

    def restore(self, snap):
        self.tmp, self.while_count, self.deps, self.site_count = snap[0], snap[1], set(snap[2]), dict(snap[3])

    def fresh(self, base="t"):
        self.tmp += 1
        return f"__{base}{self.tmp}"

    def push_scope(self):
        self.scopes.append({})

    def pop_scope(self):
        self.scopes.pop()

    def declare(self, name, mut=False, ty=None):
        self.scopes[-1][name] = {"mut": mut, "ty": ty}

    def lookup(self, name):
        for s in reversed(self.scopes):
            if name in s:
                return s[name]
        return None

    def muts_in_scope(self):
        seen, out = set(), []
        for s in self.scopes:
            for n, info in s.items():
                if n in seen:
                    # shadowing: keep latest mutability
                    if not info["mut"] and n in out:
                        out.remove(n)
                    elif info["mut"] and n not in out:
                        out.append(n)
                    continue
                seen.add(n)
                if info["mut"]:
                    out.append(n)
        return out

    @staticmethod
    def is_result(ty):
        return ty is not None and ty["k"] == "tpath" and ty["segs"][-1][0] == "Result"

    @staticmethod
    def result_inner(ty):
        args = ty["segs"][-1][1]
        return args[0] if args else N("ttuple", ty["line"], ts=[])

    @staticmethod
    def is_option(ty):
        return ty is not None and ty["k"] == "tpath" and ty["segs"][-1][0] == "Option"

    def strip_ref(self, ty):
        while ty is not None and ty["k"] in ("tref",):
            ty = ty["t"]
        return ty

    def type_name(self, ty):
        ty = self.strip_ref(ty)
        if ty is None: return None
        if ty["k"] == "tpath":
            n = ty["segs"][-1][0]
            if n == "Self": return self.self_type
            if n in ("Box", "Arc", "Rc") and ty["segs"][-1][1]:
                return self.type_name(ty["segs"][-1][1][0])
            return n
        if ty["k"] == "tdyn":
            return self.type_name(ty["t"])
        return None

    def lean_type(self, ty):
        if ty is None:
            return "Unit"
        k = ty["k"]
        if k == "tref": return self.lean_type(ty["t"])
        if k in ("tslice", "tarray"):
            inner = ty["t"]
            if inner["k"] == "tpath" and inner["segs"][-1][0] == "u8": return "Bytes"
            return f"(List {self.lean_type(inner)})"
        if k == "ttuple":
            if not ty["ts"]: return "Unit"
            return "(" + " × ".join(self.lean_type(t) for t in ty["ts"]) + ")"
        if k == "tdyn": return self.lean_type(ty["t"])
        if k == "tpath":
            name, args = ty["segs"][-1]
            tm = dict(self.c.spec.get("types", {}))
            tm.update(self.c.module_opt(getattr(self, "key", None), "types_override") or {})
            if name in INT_TYPES: return "Nat" if name[0] == "u" else "Int"
            if name == "bool": return "Bool"
            if name in ("str", "String"): return "String"
            if name == "Self": name = self.self_type
            if name in ("Vec", "VecDeque"):
                a = args[0]
                if a["k"] == "tpath" and a["segs"][-1][0] == "u8": return "Bytes"
                return f"(List {self.lean_type(a)})"
            if name in ("HashMap", "AHashMap", "BTreeMap"): return f"(List ({self.lean_type(args[0])} × {self.lean_type(args[1])}))"
            if name == "Option": return f"(Option {self.lean_type(args[0])})"
            if name in ("Box", "Arc", "Rc"): return self.lean_type(args[0])
            if name == "Result": return self.lean_type(args[0]) if args else "Unit"
            if name == "Cursor": return "Rs.Cursor"
            if name in tm: return tm[name]
            if name in self.c.structs and name in self.c.spec.get("structs", {}): return f"Gen.{name}"
            raise Unsupported(f"{self.file}:{ty['line']}: no Lean type for Rust type {name}")
        raise Unsupported(f"{self.file}:{ty['line']}: no Lean type for type kind {k}")

    # ------------------------------------------------------------------ best-effort typing
    def typeof(self, e):
        k = e["k"]
        if k in ("paren",): return self.typeof(e["e"])
        if k in ("ref", "deref"): return self.typeof(e["e"])
        if k == "path" and len(e["segs"]) == 1:
            n = e["segs"][0]
            if n == "self":
                return N("tpath", 0, segs=[(self.self_type, [])])
            info = self.lookup(n)
            if info is None and n in self.c.consts:
                return self.strip_ref(self.c.consts[n]["ty"])
            return self.strip_ref(info["ty"]) if info and info["ty"] else None
        if k == "field":
            t = self.typeof(e["e"])
            tn = self.type_name(t)
            if tn in self.c.structs:
                for fn, ft in self.c.structs[tn]["fields"]:
                    if fn == e["name"]: return self.strip_ref(ft)
            return None
        if k == "index":
            t = self.strip_ref(self.typeof(e["e"]))
            if t is None: return None
            if e["i"]["k"] == "range": return t
            if t["k"] in ("tslice", "tarray"): return self.strip_ref(t["t"])
            if t["k"] == "tpath" and t["segs"][-1][0] == "Vec" and t["segs"][-1][1]:
                return self.strip_ref(t["segs"][-1][1][0])
            return None
        if k == "try":
            t = self.typeof(e["e"])
            if self.is_result(t): return self.result_inner(t)
            if self.is_option(t): return t["segs"][-1][1][0]
            return None
        if k == "mcall":
            key = self.resolve_method(e)
            if key and key in self.c.fns:
                rt = self.c.fns[key]["ret"]
                if "::" in key: rt = subst_self(rt, key.split("::")[0].split("@")[0])
                return self.strip_ref(rt)
            ext = self.c.extern(key) if key else None
            if ext and ext.get("ret_rust"):
                return N("tpath", 0, segs=[(ext["ret_rust"], [])])
            if e["name"] in ("unwrap", "expect"):
                t = self.typeof(e["recv"])
                if self.is_result(t): return self.result_inner(t)
                if self.is_option(t): return self.strip_ref(t["segs"][-1][1][0])
            if e["name"] in ("clone", "to_vec", "to_owned", "as_ref", "as_slice", "iter", "into_iter", "as_mut"):
                return self.typeof(e["recv"])
            return None
        if k == "call" and e["f"]["k"] == "path":
            key = self.resolve_path_fn(e["f"])
            if key and key in self.c.fns:
                rt = self.c.fns[key]["ret"]
                if "::" in key: rt = subst_self(rt, key.split("::")[0])
                return self.strip_ref(rt)
            ext = self.c.extern(key) if key else None
            if ext and ext.get("ret_rust"):
                return N("tpath", 0, segs=[(ext["ret_rust"], [])])
            return None
        if k == "struct":
            return N("tpath", 0, segs=[(e["path"][-1] if e["path"][-1] != "Self" else self.self_type, [])])
        if k == "block":
            return self.typeof(e["tail"]) if e["tail"] is not None else None
        if k == "if":
            t = self.typeof(e["then"])
            if t is None and e["els"] is not None: t = self.typeof(e["els"])
            return t
        if k == "match":
            for a in e["arms"]:
                t = self.typeof(a["body"])
                if t is not None: return t
            return None
        return None

    def resolve_path_fn(self, p):
        segs = [s if s != "Self" else self.self_type for s in p["segs"]]
        if len(segs) >= 2:
            key = f"{segs[-2]}::{segs[-1]}"
            if key in self.c.fns or self.c.extern(key): return key
        if len(segs) == 1:
            if segs[0] in self.c.fns or self.c.extern(segs[0]): return segs[0]
        if len(segs) >= 2 and segs[-2][:1].islower():
            # `module::function(..)`
            if segs[-1] in self.c.fns or self.c.extern(segs[-1]): return segs[-1]
        return None

    def resolve_method(self, e):
        """user-defined / extern method for a method call, or None (builtin)"""
        name = e["name"]
        t = self.typeof(e["recv"])
        tn = self.type_name(t)
        r0 = e["recv"]
        # spec hint: the Rust type of a local whose type the translator cannot infer (bound by a pattern on an extern's result)
        lt = getattr(self, "opts", {}).get("local_types", {})
        if r0["k"] == "path" and len(r0["segs"]) == 1 and r0["segs"][0] in lt:
            tn = lt[r0["segs"][0]]
        if tn:
            key = f"{tn}::{name}"
            if key in self.c.fns or self.c.extern(key): return key
            # trait-object / trait impl methods
            for k in self.c.method_index.get(name, []):
                if k.startswith(tn + "@"): return k
            if tn in self.c.structs or tn in self.c.enums or tn in self.c.spec.get("types", {}) or tn in self.c.spec.get("opaque_types", []):
                return None
            if tn not in ("Vec", "Option", "Result", "String", "str", "Box", "HashMap") and tn not in INT_TYPES and name not in BUILTIN_METHODS and name not in MUT_BUILTINS:
                return None   # a method of a type the translator knows nothing about
        if name in BUILTIN_METHODS or name in MUT_BUILTINS:
            return None
        cands = [k for k in self.c.method_index.get(name, []) if "::" in k and "@" not in k]
        cands += [k for k in self.c.spec.get("externs", {}) if k.endswith("::" + name)]
        cands = sorted(set(cands))
        if len(cands) == 1: return cands[0]
        return None

    # ------------------------------------------------------------------ patterns
    def pat(self, p, declare=True, mut_ok=True):
        k = p["k"]
        if k == "pwild": return "_"
        if k == "pident":
            if declare:
                self.declare(p["name"], mut=bool(p.get("mut")) and not p.get("byref"))
                if p.get("mut") and not p.get("byref"):
                    # `Ok(mut x)`: the arm re-binds x as a mutable local (see match_lines)
                    if not hasattr(self, "mut_pat_names"): self.mut_pat_names = []
                    self.mut_pat_names.append(p["name"])
            return lname(p["name"])
        if k == "pref": return self.pat(p["p"], declare)
        if k == "ptuple": return "(" + ", ".join(self.pat(q, declare) for q in p["ps"]) + ")"
        if k == "ptstruct":
            name = p["path"][-1]
            if name == "Some": return "some " + self.pat_atom(p["ps"][0], declare)
            if name == "Ok": return "Res.ok " + self.pat_atom(p["ps"][0], declare)
            if name == "Err": return "Res.err"
            raise Unsupported(f"{self.file}:{p['line']}: tuple-struct pattern {name}")
        if k == "ppath":
            name = p["path"][-1]
            if name == "None": return "none"
            return self.variant(p["path"], p["line"])
        if k == "plit":
            return self.lit(p["e"])
        if k == "por":
            return " | ".join(self.pat(q, declare) for q in p["alts"])
        raise Unsupported(f"{self.file}:{p['line']}: pattern kind {k}")

    def pat_atom(self, p, declare=True):
        s = self.pat(p, declare)
        return s if re.fullmatch(r"[\w.']+|\(.*\)", s) else f"({s})"

    def variant(self, segs, line):
        segs = [s if s != "Self" else self.self_type for s in segs]
        vm = self.c.spec.get("variants", {})
        full = "::".join(segs[-2:]) if len(segs) >= 2 else segs[0]
        if full in vm: return vm[full]
        if len(segs) >= 2 and (segs[-2] + "::*") in vm:
            return vm[segs[-2] + "::*"].replace("{v}", segs[-1])
        if len(segs) == 1:
            # imported variant (use Version::{Google, RfcDraft13})
            for k2, v in vm.items():
                if k2.endswith("::" + segs[0]): return v
        raise Unsupported(f"{self.file}:{line}: unknown path {'::'.join(segs)}")

    # ------------------------------------------------------------------ literals
    def lit(self, e):
        k = e["k"]
        if k == "num":
            v = e["v"]
            if v.startswith("0x") or v.startswith("0b") or v.startswith("0o"):
                return str(int(v, 0))
            if "." in v: raise Unsupported("float literal")
            return str(int(v))
        if k == "bool": return "true" if e["v"] else "false"
        if k == "bstr": return "[" + ", ".join(str(ord(c)) for c in e["v"]) + "]"
        if k == "str": return '"' + e["v"].replace("\\", "\\\\").replace('"', '\\"').replace("\n", "\\n") + '"'
        if k == "bchar": return str(ord(e["v"]))
        if k == "char": return f"(Char.ofNat {ord(e['v'])})"
        if k == "unary" and e["op"] == "-": return f"(-{self.lit(e['e'])})"
        raise Unsupported(f"literal kind {k}")

    # ------------------------------------------------------------------ expressions
    # val(e) -> (pre: list[str], term: str).  pre are do-statements that must run before the statement using term.
    def val(self, e):
        k = e["k"]
        m = getattr(self, "v_" + k, None)
        if m is None:
            raise Unsupported(f"{self.file}:{e['line']}: expression kind {k}")
        return m(e)

    def vals(self, es):
        pre, ts = [], []
        for e in es:
            p, t = self.val(e)
            pre += p; ts.append(t)
        return pre, ts

    def atom(self, t):
        if re.fullmatch(r"[\w.']+|\(.*\)|\[.*\]|\".*\"", t) and balanced(t):
            return t
        return f"({t})"

    def v_num(self, e): return [], self.lit(e)
    def v_bool(self, e): return [], self.lit(e)
    def v_bstr(self, e): return [], f"({self.lit(e)} : Bytes)"
    def v_str(self, e): return [], self.lit(e)
    def v_bchar(self, e): return [], self.lit(e)
    def v_char(self, e): return [], self.lit(e)
    def v_paren(self, e):
        p, t = self.val(e["e"]); return p, self.atom(t)

    def v_ref(self, e): return self.val(e["e"])
    def v_deref(self, e): return self.val(e["e"])

    def v_path(self, e):
        segs = e["segs"]
        ce = self.c.spec.get("consts_extern", {})
        if segs[-1] in ce and self.lookup(segs[-1]) is None:
            return [], ce[segs[-1]]
        if len(segs) == 1:
            n = segs[0]
            if n == "self" or self.lookup(n) is not None:
                return [], lname(n)
            if n == "None": return [], "none"
            if n in self.c.consts:
                self.deps.add(("const", n))
                return [], f"Gen.{n}"
        if len(segs) >= 2 and segs[-1] in self.c.consts and ("::".join(segs[-2:]) in self.c.consts or segs[-2] in ("crate", "super", "self")):
            self.deps.add(("const", segs[-1]))
            return [], f"Gen.{segs[-1]}"
        # integer limits
        if len(segs) == 2 and segs[0] in INT_TYPES and segs[1] == "MAX":
            bits = {"u8": 8, "u16": 16, "u32": 32, "u64": 64, "usize": 64}.get(segs[0])
            if bits: return [], str(2 ** bits - 1)
        return [], self.variant(segs, e["line"])

    def v_tuple(self, e):
        if not e["es"]: return [], "()"
        pre, ts = self.vals(e["es"])
        return pre, "(" + ", ".join(ts) + ")"

    def v_array(self, e):
        pre, ts = self.vals(e["es"])
        return pre, "[" + ", ".join(ts) + "]"

    def v_arrayrep(self, e):
        p1, x = self.val(e["e"]); p2, n = self.val(e["n"])
        return p1 + p2, f"(Rs.rep {self.atom(x)} {self.atom(n)})"

    def v_cast(self, e):
        p, t = self.val(e["e"])
        ty = e["t"]
        if ty["k"] == "tpath":
            n = ty["segs"][-1][0]
            if n in NARROW: return p, f"({self.atom(t)} % {NARROW[n]})"
            if n in INT_TYPES: return p, t
        if ty["k"] == "tref": return p, t
        raise Unsupported(f"{self.file}:{e['line']}: cast to unsupported type")

    def v_unary(self, e):
        p, t = self.val(e["e"])
        if e["op"] == "!": return p, f"(!{self.atom(self.as_bool(e['e'], t))})"
        if e["op"] == "-": return p, f"(-{self.atom(t)})"
        raise Unsupported("unary " + e["op"])

    def is_boolish(self, e):
        k = e["k"]
        if k == "paren": return self.is_boolish(e["e"])
        if k == "bin" and e["op"] in ("==", "!=", "<", ">", "<=", ">=", "&&", "||"): return True
        if k == "unary" and e["op"] == "!": return True
        return False

    def as_bool(self, e, t):
        return t

    def cond(self, e):
        """Prop-style rendering for `if`/`while` conditions: (pre, term)"""
        k = e["k"]
        if k == "paren":
            p, t = self.cond(e["e"]); return p, f"({t})"
        if k == "bin" and e["op"] in ("&&", "||"):
            p1, a = self.cond(e["l"]); p2, b = self.cond(e["r"])
            if p2 or has_action(b):
                # keep short-circuit evaluation of the right operand
                pv, bv = self.val(e)
                return pv, f"{bv} = true"
            return p1, f"{a} {'∧' if e['op'] == '&&' else '∨'} {b}"
        if k == "bin" and e["op"] in ("==", "!=", "<", ">", "<=", ">="):
            p1, a = self.val(e["l"]); p2, b = self.val(e["r"])
            op = {"==": "=", "!=": "≠", "<": "<", ">": ">", "<=": "≤", ">=": "≥"}[e["op"]]
            return p1 + p2, f"{self.atom(a)} {op} {self.atom(b)}"
        if k == "unary" and e["op"] == "!":
            p, t = self.cond(e["e"])
            return p, f"¬ ({t})"
        p, t = self.val(e)
        return p, f"{self.atom(t)} = true"

    def v_bin(self, e):
        op = e["op"]
        if op in ("==", "!=", "<", ">", "<=", ">="):
            p, t = self.cond(e)
            return p, f"(decide ({t}))"
        if op in ("&&", "||"):
            p1, a = self.val(e["l"])
            p2, b = self.val(e["r"])
            if p2 or has_action(b):
                # short-circuit: the right operand is only evaluated when needed
                lines = self.block_of(p2, f"pure {self.atom(b)}")
                rhs = "(do\n" + "\n".join(indent(lines, 2)) + ")"
                if op == "&&": return p1, f"(← (if {self.atom(a)} = true then {rhs} else pure false))"
                return p1, f"(← (if {self.atom(a)} = true then pure true else {rhs}))"
            return p1, f"({self.atom(a)} {op} {self.atom(b)})"
        p1, a = self.val(e["l"]); p2, b = self.val(e["r"])
        a, b = self.atom(a), self.atom(b)
        line = e["line"]
        if op == "-": return p1 + p2, f"(← Rs.sub {a} {b} {self.site(line, 'sub')})"
        if op == "/":
            if re.fullmatch(r"[1-9]\d*", b): return p1 + p2, f"({a} / {b})"
            return p1 + p2, f"(← Rs.div {a} {b} {self.site(line, 'div')})"
        if op == "%":
            if re.fullmatch(r"[1-9]\d*", b): return p1 + p2, f"({a} % {b})"
            return p1 + p2, f"(← Rs.rem {a} {b} {self.site(line, 'rem')})"
        if op in ("+", "*"):
            if self.opts.get("checked_u64"):
                fn = "Rs.addU64" if op == "+" else "Rs.mulU64"
                return p1 + p2, f"(← {fn} {a} {b} {self.site(line, 'add' if op == '+' else 'mul')})"
            return p1 + p2, f"({a} {op} {b})"
        if op == "&": return p1 + p2, f"({a} &&& {b})"
        if op == "|": return p1 + p2, f"({a} ||| {b})"
        if op == "^": return p1 + p2, f"({a} ^^^ {b})"
        if op == ">>": return p1 + p2, f"({a} >>> {b})"
        if op == "<<": return p1 + p2, f"({a} <<< {b})"
        raise Unsupported(f"{self.file}:{line}: binary operator {op}")

    def v_field(self, e):
        p, t = self.val(e["e"])
        return p, f"{self.atom(t)}.{lname(e['name'])}"

    def v_tfield(self, e):
        p, t = self.val(e["e"])
        return p, f"{self.atom(t)}.{e['i'] + 1}"

    def v_index(self, e):
        p, t = self.val(e["e"])
        i = e["i"]
        line = e["line"]
        ty = self.strip_ref(self.typeof(e["e"]))
        if ty is not None and ty["k"] == "tpath" and ty["segs"][-1][0] in ("HashMap", "AHashMap", "BTreeMap"):
            p2, kt = self.val(i)
            return p + p2, f"(← Rs.mapIdx {self.atom(t)} {self.atom(kt)} {self.site(line, 'map-index')})"
        if i["k"] == "range":
            if i["incl"]: raise Unsupported("inclusive slice")
            if i["lo"] is None and i["hi"] is None: return p, t
            if i["lo"] is None:
                p2, h = self.val(i["hi"])
                return p + p2, f"(← Rs.sliceTo {self.atom(t)} {self.atom(h)} {self.site(line, 'slice')})"
            if i["hi"] is None:
                p2, l = self.val(i["lo"])
                return p + p2, f"(← Rs.sliceFrom {self.atom(t)} {self.atom(l)} {self.site(line, 'slice')})"
            p2, l = self.val(i["lo"]); p3, h = self.val(i["hi"])
            return p + p2 + p3, f"(← Rs.slice {self.atom(t)} {self.atom(l)} {self.atom(h)} {self.site(line, 'slice')})"
        p2, it = self.val(i)
        return p + p2, f"(← Rs.idx {self.atom(t)} {self.atom(it)} {self.site(line, 'index')})"

    def v_range(self, e):
        if e["incl"]: raise Unsupported("inclusive range value")
        if e["lo"] is None or e["hi"] is None: raise Unsupported("open range value")
        p1, a = self.val(e["lo"]); p2, b = self.val(e["hi"])
        if a == "0": return p1 + p2, f"(List.range {self.atom(b)})"
        return p1 + p2, f"(Rs.range {self.atom(a)} {self.atom(b)})"

    def v_struct(self, e):
        name = e["path"][-1]
        if name == "Self": name = self.self_type
        if e["base"] is not None: raise Unsupported("struct update syntax")
        skip = set(self.c.spec.get("structs", {}).get(name, {}).get("skip_fields", []))
        pre, parts = [], []
        for fn, fe in e["fs"]:
            if fn in skip: continue
            p, t = self.val(fe)
            pre += p; parts.append(f"{lname(fn)} := {t}")
        return pre, "({ " + ", ".join(parts) + f" }} : Gen.{name})"

    def v_closure(self, e):
        # pure closures only
        self.push_scope()
        ps = [self.pat_atom(p, True) for p, _ in e["params"]]
        pre, t = self.val(e["body"])
        self.pop_scope()
        if pre or has_action(t): raise Unsupported(f"{self.file}:{e['line']}: closure with effects")
        return [], f"(fun {' '.join(ps)} => {t})"

    def v_macro(self, e):
        n = e["name"]
        if n == "vec":
            if e.get("rep") is not None:
                p1, x = self.val(e["args"][0]); p2, k = self.val(e["rep"])
                return p1 + p2, f"(Rs.rep {self.atom(x)} {self.atom(k)})"
            pre, ts = self.vals(e["args"])
            return pre, "[" + ", ".join(ts) + "]"
        if n == "format":
            return [], '""'
        raise Unsupported(f"{self.file}:{e['line']}: macro {n}! in value position")

    def v_try(self, e):
        inner = e["e"]
        if inner["k"] == "mcall" and inner["name"] in MUT_BUILTINS and self.resolve_method(inner) is None:
            return self.val(inner)
        while inner["k"] == "paren": inner = inner["e"]
        if inner["k"] in ("call", "mcall") and self.is_result_expr(inner) and not (inner["k"] == "call" and inner["f"]["segs"][-1] in ("Ok", "Err")) \
                and not (inner["k"] == "mcall" and inner["name"] in ("map_err", "or_else")):
            pre, term, wb = self.call_term(inner)
            return self.finish_call(pre, term, wb, inner, mode="value")
        if self.is_result_expr(inner):
            pre, comp = self.comp(inner)
            return pre, f"(← {comp})"
        # `?` on a value that already was bound (e.g. mutating builtin returning io::Result): result handled there
        p, t = self.val(inner)
        return p, t

    def v_if(self, e):
        pc, c = self.cond(e["c"])
        if e["els"] is None: raise Unsupported(f"{self.file}:{e['line']}: if without else in value position")
        a = self.value_block(e["then"])
        b = self.value_block(e["els"]) if e["els"]["k"] == "block" else self.value_block(N("block", e["line"], stmts=[], tail=e["els"]))
        return pc, f"(← (if {c} then {a} else {b}))"

    def v_block(self, e):
        return [], f"(← {self.value_block(e)})"

    def v_match(self, e):
        lines = self.match_lines(e, "value")
        return [], "(← (do\n" + "\n".join(indent(lines, 2)) + "))"

    def value_block(self, b):
        """a Rust block in value position as a parenthesised Lean do-term (must not assign outer variables)"""
        before = set(self.muts_in_scope())
        self.push_scope()
        lines = []
        for s in b["stmts"]:
            lines += self.stmt(s)
        if b["tail"] is None:
            lines.append("pure ()")
        else:
            lines += self.tail_value(b["tail"])
        self.pop_scope()
        for ln in lines:
            m = re.match(r"\s*(\w+) := ", ln)
            if m and m.group(1) in before and not re.match(r"\s*let ", ln):
                raise Unsupported(f"{self.file}:{b['line']}: block in value position assigns outer variable {m.group(1)}")
        return "(do\n" + "\n".join(indent(lines, 2)) + ")"

    def tail_value(self, e):
        """lines ending in `pure v` for a value-position tail expression"""
        if e["k"] in ("if", "iflet", "match") :
            p, t = self.val(e)
            return self.block_of(p, f"pure {self.atom(t)}")
        p, t = self.val(e)
        return self.block_of(p, f"pure {self.atom(t)}")

    def block_of(self, pre, last):
        return list(pre) + [last]

    # ---- calls
    def is_result_expr(self, e):
        """does this expression denote a Result-typed *computation* (call to a Result-returning fn / builtin)?"""
        k = e["k"]
        if k == "paren": return self.is_result_expr(e["e"])
        if k == "call" and e["f"]["k"] == "path":
            key = self.resolve_path_fn(e["f"])
            if key in self.c.fns: return self.is_result(self.c.fns[key]["ret"])
            ext = self.c.extern(key) if key else None
            if ext: return bool(ext.get("result"))
            if e["f"]["segs"][-1] in ("Ok", "Err"): return True
            return False
        if k == "mcall":
            key = self.resolve_method(e)
            if key in self.c.fns: return self.is_result(self.c.fns[key]["ret"])
            ext = self.c.extern(key) if key else None
            if ext: return bool(ext.get("result"))
            if e["name"] in MUT_BUILTINS: return MUT_BUILTINS[e["name"]].get("result", False)
            if e["name"] in ("map_err", "or_else") : return self.is_result_expr(e["recv"])
            return False
        return False

    def comp(self, e):
        """(pre, term) where term : Res T is the computation of a Result-typed expression"""
        k = e["k"]
        if k == "paren": return self.comp(e["e"])
        if k == "call" and e["f"]["k"] == "path" and e["f"]["segs"][-1] == "Ok":
            p, t = self.val(e["args"][0]) if e["args"] else ([], "()")
            return p, f"(Res.ok {self.atom(t)})"
        if k == "call" and e["f"]["k"] == "path" and e["f"]["segs"][-1] == "Err":
            return [], "Res.err"
        if k == "mcall" and e["name"] in ("map_err",):
            return self.comp(e["recv"])
        if k in ("call", "mcall"):
            pre, term, muts = self.call_term(e)
            if term.startswith("PURE:"): term = f"(pure {self.atom(term[5:])})"
            if muts:
                # mutating Result call: bind now, write back, then the value is available as a pure term
                return pre, None if False else self.bind_mut_call(pre, term, muts, e, as_comp=True)
            return pre, term
        raise Unsupported(f"{self.file}:{e['line']}: Result-typed expression of kind {k}")

    def bind_mut_call(self, pre, term, muts, e, as_comp=False):
        raise Unsupported(f"{self.file}:{e['line']}: mutating call in a position where its Result is inspected")

    def callee_sig(self, key):
        """(params, selfk, mut_param_idx, ret, is_result) for a user fn"""
        f = self.c.fns[key]
        mp = []
        for i, p in enumerate(f["params"]):
            if p["ty"]["k"] == "tref" and p["ty"]["mut"]: mp.append(i)
        return f["params"], f["selfk"], mp, f["ret"], self.is_result(f["ret"])

    def call_term(self, e):
        """raw call: (pre, term : Res X, writebacks) ; writebacks = list of place exprs that receive the updated
        values returned after the result (self first, then &mut params)"""
        line = e["line"]
        if e["k"] == "call":
            f = e["f"]
            if f["k"] != "path": raise Unsupported(f"{self.file}:{line}: call of non-path")
            key = self.resolve_path_fn(f)
            args = e["args"]
            recv = None
        else:
            key = self.resolve_method(e)
            args = e["args"]
            recv = e["recv"]
        if key is None:
            raise Unsupported(f"{self.file}:{line}: cannot resolve call {e.get('name') or '::'.join(e['f']['segs'])}")
        ext = self.c.extern(key)
        if ext is not None and key not in self.c.spec.get("functions", {}):
            tmpl = ext["lean"]
            if ext.get("by_type"):
                # the extern is generic in its RESULT type (`str::parse::<T>`, `T::try_from`): T is the type of the place the
                # value ends up in (assignment target, annotated `let`, a typed extern argument)
                et = getattr(self, "expect_ty", None)
                etn = self.type_name(et) if et is not None else None
                if etn is None or etn not in ext["by_type"]:
                    raise Unsupported(f"{self.file}:{line}: cannot determine the result type of {key} from its context (got {etn})")
                tmpl = ext["by_type"][etn]
            if ext.get("recv_place"):
                # the call acts on a ghost field of `self` (environment state), not on its syntactic receiver
                segs = ext["recv_place"].split(".")
                recv = N("path", line, segs=[segs[0]])
                for sg in segs[1:]: recv = N("field", line, e=recv, name=sg)
            use_recv = recv is not None and "{self}" in tmpl
            if ext.get("arg_types"):
                pre, ts = [], []
                for i, a in enumerate(([recv] if use_recv else []) + list(args)):
                    j = i - (1 if use_recv else 0)
                    saved = getattr(self, "expect_ty", None)
                    if j >= 0 and j < len(ext["arg_types"]) and ext["arg_types"][j]:
                        self.expect_ty = N("tpath", line, segs=[(ext["arg_types"][j], [])])
                    p1, t1 = self.val(a)
                    self.expect_ty = saved
                    pre += p1; ts.append(t1)
            else:
                pre, ts = self.vals(([recv] if use_recv else []) + list(args))
            term = tmpl
            ts_self = None
            if use_recv:
                ts_self = ts[0]
                term = term.replace("{self}", self.atom(ts[0])); ts = ts[1:]
            for i, t in enumerate(ts):
                term = term.replace("{" + str(i) + "}", self.atom(t))
            if ext.get("mutates"):
                # extern `&mut self` method: the template is the new value of the receiver; `res` its result
                rest = ext.get("res")
                if rest is not None:
                    rest = rest.replace("{self}", self.atom(ts_self)) if use_recv else rest
                    for i, t in enumerate(ts):
                        rest = rest.replace("{" + str(i) + "}", self.atom(t))
                margs = []
                for ai, atmpl in sorted((ext.get("mut_args") or {}).items()):
                    v = atmpl.replace("{self}", self.atom(ts_self)) if use_recv else atmpl
                    for i, t in enumerate(ts):
                        v = v.replace("{" + str(i) + "}", self.atom(t))
                    margs.append((args[int(ai)], v))
                return pre, "PURE:" + term, ["MUTSELF", recv, rest, margs]
            if ext.get("mut_args"):
                # an extern that writes through `&mut` ARGUMENTS only (e.g. `slice.choose(&mut rng)`)
                margs = []
                for ai, atmpl in sorted(ext["mut_args"].items()):
                    v = atmpl.replace("{self}", self.atom(ts_self)) if use_recv else atmpl
                    for i, t in enumerate(ts):
                        v = v.replace("{" + str(i) + "}", self.atom(t))
                    margs.append((args[int(ai)], v))
                return pre, (term if ext.get("monadic", ext.get("result", False)) else "PURE:" + term), ["MUTARGS", margs]
            if not ext.get("monadic", ext.get("result", False)):
                return pre, "PURE:" + term, []
            return pre, term, []
        if key not in self.c.fns:
            raise Unsupported(f"{self.file}:{line}: call to unknown function {key}")
        self.deps.add(("fn", key))
        params, selfk, mp, ret, isres = self.callee_sig(key)
        allargs = []
        wb = []
        if selfk is not None:
            if recv is None:
                recv = args[0]; args = args[1:]
            allargs.append(recv)
            if selfk == "refmut": wb.append(recv)
        for i, a in enumerate(args):
            allargs.append(a)
            if i in mp: wb.append(a)
        pre, ts = self.vals(allargs)
        mp_names = [n for n, _ in self.c.module_params_of(key)]
        term = "(" + self.c.lean_fn_name(key) + "".join(" " + n for n in mp_names) + "".join(" " + self.atom(t) for t in ts) + ")"
        return pre, term, wb

    def v_call(self, e):
        f = e["f"]
        if f["k"] == "path":
            last = f["segs"][-1]
            if last == "Some" and len(e["args"]) == 1:
                p, t = self.val(e["args"][0]); return p, f"(some {self.atom(t)})"
            if last in ("Ok", "Err"):
                raise Unsupported(f"{self.file}:{e['line']}: Ok/Err in value position")
            # builtin constructors
            two = "::".join(f["segs"][-2:])
            if two in ("Vec::new", "String::new"): return [], "[]" if two == "Vec::new" else '""'
            if two == "Vec::with_capacity":
                p, t = self.val(e["args"][0]); return p, f"(Rs.withCapacity {self.atom(t)})"
            if two in ("cmp::min", "cmp::max") and len(e["args"]) == 2:
                p, ts = self.vals(e["args"])
                return p, f"({two[5:]} {self.atom(ts[0])} {self.atom(ts[1])})"
            if two == "Context::new":
                return [], "([] : Bytes)"
            if two == "Cursor::new":
                p, t = self.val(e["args"][0]); return p, f"(Rs.Cursor.new {self.atom(t)})"
            if two in ("Vec::from", "Data::from", "Hash::from", "Vec::from_iter") or (last == "from" and len(f["segs"]) == 2 and f["segs"][0] in INT_TYPES):
                return self.val(e["args"][0])
            if last == "once" and len(e["args"]) == 1:
                p, t = self.val(e["args"][0]); return p, f"[{t}]"
            if two in ("usize::try_from", "u32::try_from", "u64::try_from", "u16::try_from", "u8::try_from"):
                raise Unsupported(f"{self.file}:{e['line']}: try_from")
        return self.v_anycall(e)

    def v_anycall(self, e):
        pre, term, wb = self.call_term(e)
        return self.finish_call(pre, term, wb, e, mode="value")

    def finish_call(self, pre, term, wb, e, mode):
        """bind a call; handle write-backs. mode 'value': returns (pre, pure term of the result)"""
        if wb and wb[0] == "MUTARGS":
            pre = list(pre)
            resv = self.fresh("r")
            if term.startswith("PURE:"): pre.append(f"let {resv} := {term[5:]}")
            else: pre.append(f"let {resv} ← {term}")
            stores = []
            for place, v in wb[1]:
                tv = self.fresh("a")
                pre.append(f"let {tv} := {v}")
                stores.append((place, tv))
            for place, tv in stores:
                pre += self.assign_place(place, tv, e["line"])
            return pre, resv
        if wb and wb[0] == "MUTSELF":
            pre = list(pre)
            resv = "()"
            if len(wb) > 2 and wb[2] is not None:
                resv = self.fresh("r")
                pre.append(f"let {resv} := {wb[2]}")
            # new values of `&mut` arguments are computed from the OLD state, then everything is stored
            stores = []
            for place, v in (wb[3] if len(wb) > 3 else []):
                tv = self.fresh("a")
                pre.append(f"let {tv} := {v}")
                stores.append((place, tv))
            pre += self.assign_place(wb[1], term[5:], e["line"])
            for place, tv in stores:
                pre += self.assign_place(place, tv, e["line"])
            return pre, resv
        if term.startswith("PURE:"):
            return pre, term[5:]
        if not wb:
            return pre, f"(← {term})"
        t = self.fresh()
        pre = list(pre) + [f"let {t} ← {term}"]
        key = self.resolve_method(e) if e["k"] == "mcall" else self.resolve_path_fn(e["f"])
        ret = self.c.fns[key]["ret"]
        has_ret = ret is not None and not (ret["k"] == "ttuple" and not ret["ts"]) and not (self.is_result(ret) and self.lean_type(self.result_inner(ret)) == "Unit")
        comps = ([None] if has_ret else []) + wb
        n = len(comps)
        for i, place in enumerate(comps):
            if place is None: continue
            proj = t if n == 1 else (f"{t}.{i + 1}" if i < n - 1 or n == 2 else f"{t}.{i + 1}")
            proj = tuple_proj(t, i, n)
            pre += self.assign_place(place, proj, e["line"])
        return pre, (tuple_proj(t, 0, n) if has_ret else "()")

    def v_mcall(self, e):
        name = e["name"]
        key = self.resolve_method(e)
        if key is not None:
            return self.v_anycall(e)
        line = e["line"]
        recv = e["recv"]
        args = e["args"]
        # Result / Option adaptors on calls
        if name in ("unwrap", "expect") and recv["k"] == "mcall" and recv["name"] in ("write_u16", "write_u32", "write_u64", "write_all") \
                and self.resolve_method(recv) is None:
            tgt = recv["recv"]
            t0 = tgt
            while t0["k"] == "paren": t0 = t0["e"]
            into_slice = t0["k"] == "cast" and t0["t"]["k"] == "tref" and t0["t"]["t"]["k"] == "tslice"
            pre, cur = self.val(tgt)
            p2, ts = self.vals(recv["args"])
            enc = {"write_u16": "le16 ", "write_u32": "le32 ", "write_u64": "le64 ", "write_all": ""}[recv["name"]]
            data = f"({enc}{self.atom(ts[0])})"
            comp = f"(Rs.sliceWrite {self.atom(cur)} {data})" if into_slice else f"(Res.ok ({self.atom(cur)} ++ {data}))"
            t = self.fresh()
            pre = pre + p2 + [f"let {t} ← Rs.unwrapR {comp} {self.site(line, name)}"]
            return pre + self.assign_place(tgt, t, line), "()"
        if name == "unwrap_or_else" and len(args) == 1 and args[0]["k"] == "closure":
            b = args[0]["body"]
            while b["k"] in ("paren",): b = b["e"]
            if b["k"] == "block" and not b["stmts"] and b["tail"] is not None: b = b["tail"]
            elif b["k"] == "block" and len(b["stmts"]) == 1 and b["tail"] is None and b["stmts"][0]["k"] == "expr": b = b["stmts"][0]["e"]
            if b["k"] == "macro" and b["name"] in ("panic", "unreachable"):
                # `x.unwrap_or_else(|_| panic!(..))` is `x.expect(..)`
                return self.v_mcall(N("mcall", line, recv=recv, name="expect", targs=None, args=[]))
        if name in ("unwrap", "expect"):
            r0 = recv
            while r0["k"] == "paren": r0 = r0["e"]
            if r0["k"] in ("call", "mcall") and self.is_result_expr(r0) and not (r0["k"] == "mcall" and (r0["name"] in MUT_BUILTINS or r0["name"] in ("map_err", "or_else")) and self.resolve_method(r0) is None) \
                    and not (r0["k"] == "call" and r0["f"]["segs"][-1] in ("Ok", "Err")):
                snap = self.snapshot()
                pre, term, wb = self.call_term(r0)
                if not (wb and wb[0] != "MUTSELF"): self.restore(snap)
                if wb and wb[0] != "MUTSELF":
                    # `x.f(&mut ..).unwrap()`: Err becomes a panic, then the updated values are written back
                    return self.finish_call(pre, f"(Rs.unwrapR {term} {self.site(line, name)})", wb, r0, mode="value")
            if self.is_result_expr(recv):
                pre, c = self.comp_with_writeback(recv)
                return pre, f"(← Rs.unwrapR {self.atom(c)} {self.site(line, name)})"
            p, t = self.val(recv)
            return p, f"(← Rs.unwrapO {self.atom(t)} {self.site(line, name)})"
        if name in ("is_err", "is_ok") and recv["k"] == "mcall" and recv["name"] in MUT_BUILTINS and self.resolve_method(recv) is None \
                and "inspect" in MUT_BUILTINS[recv["name"]]:
            pre, flag = MUT_BUILTINS[recv["name"]]["inspect"](self, recv)
            return pre, (flag if name == "is_err" else f"(!{flag})")
        if name in ("is_err", "is_ok", "ok") and self.is_result_expr(recv):
            pre, c = self.comp_with_writeback(recv)
            fn = {"is_err": "Rs.isErr", "is_ok": "Rs.isOk", "ok": "Rs.okOpt"}[name]
            return pre, f"(← {fn} {self.atom(c)})"
        if name == "map" and len(args) == 1 and args[0]["k"] == "path" and len(args[0]["segs"]) >= 2:
            # `opt.map(Type::function)`  ==  `opt.map(|x| Type::function(x))`
            xv = N("pident", line, name="x__", mut=False, byref=False)
            cl = N("closure", line, params=[(xv, None)], body=N("call", line, f=args[0], args=[N("path", line, segs=["x__"])]))
            p0, t0 = self.val(recv)
            pc, tc = self.v_closure(cl)
            return p0 + pc, f"(Option.map {tc} {self.atom(t0)})"
        if name == "map" and len(args) == 1 and args[0]["k"] == "closure" and self.is_option(self.strip_ref(self.typeof(recv))):
            p, t = self.val(recv)
            cl = args[0]
            self.push_scope()
            ps = [self.pat_atom(q, True) for q, _ in cl["params"]]
            body = self.tail_value(cl["body"])
            self.pop_scope()
            return p, f"(← Rs.optMapM {self.atom(t)} (fun {' '.join(ps)} => do\n" + "\n".join(indent(body, 2)) + "))"
        if name == "get" and not args:
            # `NonZeroUsize::get()` and friends: the number itself (a slice `get` always has an argument)
            return self.val(recv)
        if name in MUT_BUILTINS:
            return self.mut_builtin(e)
        if name == "as_bytes" and recv["k"] == "path" and len(recv["segs"]) == 1 and recv["segs"][0] in self.c.consts:
            cty = self.c.consts[recv["segs"][0]]["ty"]
            if cty["k"] == "tref" and cty["t"]["k"] == "tpath" and cty["t"]["segs"][-1][0] == "str":
                p, t = self.val(recv)
                return p, f"(Rs.strBytes {self.atom(t)})"
        if name in BUILTIN_METHODS:
            tmpl = BUILTIN_METHODS[name]
            pre, ts = self.vals([recv] + list(args))
            if callable(tmpl):
                return pre, tmpl(self, e, ts)
            term = tmpl.replace("{self}", self.atom(ts[0]))
            for i, t in enumerate(ts[1:]):
                term = term.replace("{" + str(i) + "}", self.atom(t))
            return pre, term
        raise Unsupported(f"{self.file}:{line}: method .{name}() is not known to the translator")

    def comp_with_writeback(self, e):
        """computation term for a Result expression; mutating calls whose Result is inspected are only allowed
        for prelude builtins that return the new state inside the ok value"""
        if e["k"] == "mcall" and e["name"] in ("read_u64", "read_u32", "read_u16") and self.resolve_method(e) is None \
                and e["recv"]["k"] == "mcall" and e["recv"]["name"] in ("as_slice", "as_ref"):
            # byteorder read on a temporary `&[u8]`: the first 8 / 4 / 2 bytes, Err when shorter
            p, t = self.val(e["recv"])
            fn = {"read_u64": "Rs.sliceReadU64", "read_u32": "Rs.sliceReadU32", "read_u16": "Rs.sliceReadU16"}[e["name"]]
            return p, f"({fn} {self.atom(t)})"
        if e["k"] == "mcall" and e["name"] in MUT_BUILTINS and self.resolve_method(e) is None:
            raise Unsupported(f"{self.file}:{e['line']}: Result of mutating builtin .{e['name']}() is inspected")
        pre, term, wb = self.call_term(e) if e["k"] in ("call", "mcall") and not (e["k"] == "call" and e["f"]["segs"][-1] in ("Ok", "Err")) else (*self.comp(e), [])
        if wb and wb[0] == "MUTSELF" and len(wb) > 2 and wb[2] is not None:
            # extern `&mut self` method returning a Result: its `res` template is the Result (a Res term) computed from
            # the old receiver; bind it, then store the new receiver
            r = self.fresh("r")
            pre = list(pre) + [f"let {r} := {wb[2]}"]
            stores = []
            for place, v in (wb[3] if len(wb) > 3 else []):
                tv = self.fresh("a")
                pre.append(f"let {tv} := {v}")
                stores.append((place, tv))
            pre += self.assign_place(wb[1], term[5:], e["line"])
            for place, tv in stores:
                pre += self.assign_place(place, tv, e["line"])
            return pre, r
        if term.startswith("PURE:"): term = f"(pure {self.atom(term[5:])})"
        if wb:
            raise Unsupported(f"{self.file}:{e['line']}: Result of a call with &mut arguments is inspected")
        return pre, term

    # ---- places
    def place_path(self, e):
        """decompose a place expression: (base var name, [proj...]) with proj = ('field', name) | ('index', expr)"""
        k = e["k"]
        if k in ("paren", "ref", "deref"): return self.place_path(e["e"])
        if k == "cast": return self.place_path(e["e"])
        if k == "path" and len(e["segs"]) == 1:
            return e["segs"][0], []
        if k == "field":
            b, pr = self.place_path(e["e"]); return b, pr + [("field", e["name"])]
        if k == "index":
            if e["i"]["k"] == "range": raise Unsupported(f"{self.file}:{e['line']}: slice as assignment target")
            b, pr = self.place_path(e["e"]); return b, pr + [("index", e["i"])]
        raise Unsupported(f"{self.file}:{e['line']}: not a place expression ({k})")

    def assign_place(self, place, newval, line):
        """do-statements that store `newval` (a pure Lean term) into the Rust place"""
        base, projs = self.place_path(place)
        info = self.lookup(base)
        if base != "self" and info is None:
            raise Unsupported(f"{self.file}:{line}: assignment to unknown variable {base}")
        if info is not None and not info["mut"] and not (base == "self"):
            raise Unsupported(f"{self.file}:{line}: assignment to immutable variable {base}")
        pre = []

        def rebuild(cur, projs, newval):
            if not projs: return newval
            kind, x = projs[0]
            if kind == "field":
                inner = rebuild(f"{cur}.{lname(x)}", projs[1:], newval)
                return f"{{ {cur} with {lname(x)} := {inner} }}"
            p, it = self.val(x)
            pre.extend(p)
            it = self.atom(it)
            if len(projs) == 1:
                return f"(← Rs.setIdx {cur} {it} {self.atom(newval)} {self.site(line, 'index')})"
            sub = f"(← Rs.idx {cur} {it} {self.site(line, 'index')})"
            inner = rebuild(sub, projs[1:], newval)
            return f"(← Rs.setIdx {cur} {it} {self.atom(inner)} {self.site(line, 'index')})"

        rhs = rebuild(lname(base), projs, newval)
        return pre + [f"{lname(base)} := {rhs}"]

    def mut_builtin(self, e):
        """mutating builtin method (push/pop/clear/extend/read_u32/…) on a place: returns (pre, result term)"""
        spec = MUT_BUILTINS[e["name"]]
        line = e["line"]
        recv = e["recv"]
        pre, cur = self.val(recv)
        p2, ts = self.vals(e["args"])
        pre += p2
        cur_a = self.atom(cur)

        def fill(tmpl):
            s = tmpl.replace("{self}", cur_a).replace("{site}", self.site(line, e["name"]))
            for i, t in enumerate(ts):
                s = s.replace("{" + str(i) + "}", self.atom(t))
            return s
        if "special" in spec:
            return spec["special"](self, e, pre, cur_a, ts)
        if spec.get("bind"):
            t = self.fresh()
            pre.append(f"let {t} ← {fill(spec['bind'])}")
            newv = spec["new"].replace("{t}", t)
            res = spec["res"].replace("{t}", t) if spec.get("res") else "()"
        else:
            t = None
            res = None
            if spec.get("res"):
                r = self.fresh()
                pre.append(f"let {r} := {fill(spec['res'])}")
                res = r
            newv = fill(spec["new"])
        pre += self.assign_place(recv, newv, line)
        return pre, (res if res is not None else "()")

    # ------------------------------------------------------------------ statements
    def stmt(self, s):
        k = s["k"]
        if k == "let": return self.stmt_let(s)
        if k == "expr": return self.stmt_expr(s["e"])
        if k == "item":
            it = s["item"]
            if it["k"] == "const":
                # local const: treat as immutable let
                p, t = self.val(it["e"])
                self.declare(it["name"], mut=False, ty=it["ty"])
                ty = self.lean_type(it["ty"])
                return p + [f"let {lname(it['name'])} : {ty} := {t}"]
            raise Unsupported(f"{self.file}:{s['line']}: nested item")
        raise Unsupported(f"{self.file}:{s['line']}: statement kind {k}")

    def stmt_let(self, s):
        pat = s["pat"]
        if pat["k"] == "pident" and pat["name"] in self.opts.get("drop_lets", []):
            return []
        if s["els"] is not None: raise Unsupported("let-else")
        if s["init"] is None:
            if pat["k"] != "pident": raise Unsupported("uninitialised pattern let")
            self.declare(pat["name"], mut=True, ty=s["ty"])
            return [f"let mut {lname(pat['name'])} := default"]
        if s["init"]["k"] == "block" and pat["k"] == "pident" and s["init"]["tail"] is not None:
            # block expression: its statements are inlined (they may update outer variables); names it declares
            # must not clash with names in scope
            blk = s["init"]
            lines = []
            for st in blk["stmts"]:
                if st["k"] == "let" and st["pat"]["k"] == "pident" and self.lookup(st["pat"]["name"]) is not None:
                    raise Unsupported(f"{self.file}:{st['line']}: block expression re-declares {st['pat']['name']}")
                lines += self.stmt(st)
            inner = dict(s); inner["init"] = blk["tail"]
            return lines + self.stmt_let(inner)
        init0 = s["init"]
        ch = self.entry_chain(init0) if pat["k"] == "pident" else None
        if ch is not None:
            mp, key, dflt = ch
            pk, kt = self.val(key)
            k = self.fresh("k")
            pre = pk + [f"let {k} := {kt}"]
            pd, dt = self.entry_default(dflt, k)
            pm, cur = self.val(mp)
            pre += pd + pm + self.assign_place(mp, f"(Rs.mapEnsure {self.atom(cur)} {k} {self.atom(dt)})", s["line"])
            if not hasattr(self, "aliases"): self.aliases = {}
            self.aliases[pat["name"]] = (mp, k)
            return pre
        if s["ty"] is not None and init0["k"] == "mcall" and init0["name"] in ("expect", "unwrap") and init0["recv"]["k"] == "mcall" \
                and init0["recv"]["name"] == "try_into":
            # `let x: &[u8; N] = slice.try_into().expect(..)`: Err unless the slice has exactly N elements
            aty = self.strip_ref(s["ty"])
            if aty is not None and aty["k"] == "tarray":
                p0, src = self.val(init0["recv"]["recv"])
                p1, nlen = self.val(aty["n"])
                t = f"(← Rs.unwrapR (Rs.tryIntoArray {self.atom(src)} {self.atom(nlen)}) {self.site(init0['line'], init0['name'])})"
                self.declare(pat["name"], mut=pat["mut"], ty=s["ty"])
                return p0 + p1 + [f"{'let mut' if pat['mut'] else 'let'} {lname(pat['name'])} : Bytes := {t}"]
        saved_et = getattr(self, "expect_ty", None)
        if s["ty"] is not None:
            self.expect_ty = self.expected_for(s["init"], s["ty"])
        elif pat["k"] == "pident" and id(s) in getattr(self, "assign_targets", {}):
            # no annotation: the type of the first place this variable is assigned to later in the same block
            tgt, in_some = self.assign_targets[id(s)]
            tt = self.typeof(tgt)
            if in_some and tt is not None and self.is_option(self.strip_ref(tt)): tt = self.strip_ref(tt)["segs"][-1][1][0]
            self.expect_ty = self.expected_for(s["init"], tt)
        try:
            pre, t = self.val(s["init"])
        finally:
            self.expect_ty = saved_et
        ty = s["ty"] if s["ty"] is not None else self.typeof(s["init"])
        if pat["k"] == "pident":
            self.declare(pat["name"], mut=pat["mut"], ty=ty)
            kw = "let mut" if pat["mut"] else "let"
            ann = ""
            if s["ty"] is not None:
                try:
                    ann = f" : {self.lean_type(s['ty'])}"
                except Unsupported:
                    ann = ""
            return pre + [f"{kw} {lname(pat['name'])}{ann} := {t}"]
        if pat["k"] == "pwild":
            return pre + [f"let _ := {t}"]
        ps = self.pat(pat)
        return pre + [f"let {ps} := {t}"]

    def stmt_expr(self, e):
        k = e["k"]
        line = e["line"]
        if k == "macro":
            n = e["name"]
            if n in LOG_MACROS:
                return self.log_macro(e)
            if n in ("assert", "debug_assert"):
                p, c = self.val(e["args"][0])
                return p + [f"Rs.assert {self.atom(self.boolify(e['args'][0], c))} {self.site(line, 'assert')}"]
            if n in ("assert_eq", "assert_ne", "debug_assert_eq"):
                p1, a = self.val(e["args"][0]); p2, b = self.val(e["args"][1])
                op = "≠" if n == "assert_ne" else "="
                return p1 + p2 + [f"Rs.assert (decide ({self.atom(a)} {op} {self.atom(b)})) {self.site(line, n)}"]
            if n in ("panic", "unreachable", "unimplemented", "todo"):
                return [f"Res.panic {self.site(line, n)}"]
            raise Unsupported(f"{self.file}:{line}: macro {n}! as statement")
        if k == "assign": return self.stmt_assign(e)
        if k == "mcall" and self.entry_chain(e["recv"]) is not None:
            # `map.entry(k).or_insert_with_key(..).method(args);` with a `&mut self` method of the value type: ensure the
            # entry, take it out, call the method on it as on a local, write it back
            mp, key, dflt = self.entry_chain(e["recv"])
            pk, kt = self.val(key)
            kk = self.fresh("k")
            pre = pk + [f"let {kk} := {kt}"]
            pd, dt = self.entry_default(dflt, kk)
            pm, cur = self.val(mp)
            pre += pd + pm + self.assign_place(mp, f"(Rs.mapEnsure {self.atom(cur)} {kk} {self.atom(dt)})", line)
            mt = self.typeof(mp)
            if mt is None or mt["k"] != "tpath" or len(mt["segs"][-1][1]) != 2:
                raise Unsupported(f"{self.file}:{line}: method call through a map entry of unknown value type")
            ent = self.fresh("ent")
            pm2, cur2 = self.val(mp)
            pre += pm2 + [f"let mut {ent} ← Rs.mapIdx {self.atom(cur2)} {kk} {self.site(line, 'entry')}"]
            self.declare(ent, mut=True, ty=mt["segs"][-1][1][1])
            pre += self.stmt_expr(N("mcall", line, recv=N("path", line, segs=[ent]), name=e["name"], targs=e.get("targs"), args=e["args"]))
            pm3, cur3 = self.val(mp)
            return pre + pm3 + self.assign_place(mp, f"(Rs.mapModify {self.atom(cur3)} {kk} (fun _ => {ent}))", line)
        if k == "if": return self.stmt_if(e)
        if k == "iflet": return self.stmt_iflet(e)
        if k == "match": return self.match_lines(e, "stmt")
        if k == "for": return self.stmt_for(e)
        if k == "while": return self.stmt_while(e)
        if k == "loop":
            return self.stmt_while(N("while", e["line"], c=N("bool", e["line"], v=True), body=e["body"]))
        if k == "whilelet":
            # `while let PAT = E { body }`  ==  `while true { match E { PAT => body, _ => break } }`
            ln = e["line"]
            m = N("match", ln, e=e["e"], arms=[N("arm", ln, pat=e["pat"], guard=None, body=e["body"]),
                                              N("arm", ln, pat=N("pwild", ln), guard=None, body=N("block", ln, stmts=[N("expr", ln, e=N("break", ln, e=None))], tail=None))])
            return self.stmt_while(N("while", ln, c=N("bool", ln, v=True), body=N("block", ln, stmts=[N("expr", ln, e=m)], tail=None)))
        if k == "return": return self.stmt_return(e)
        if k == "break":
            if not self.loop_stack: raise Unsupported("break outside loop")
            st = self.state_tuple(self.loop_stack[-1]["muts"])
            ctor = "Rs.Flow.brk" if self.loop_stack[-1]["ret"] else "Rs.Step.brk"
            return [f"return {ctor} {st}"]
        if k == "continue":
            st = self.state_tuple(self.loop_stack[-1]["muts"])
            ctor = "Rs.Flow.next" if self.loop_stack[-1]["ret"] else "Rs.Step.next"
            return [f"return {ctor} {st}"]
        if k == "block":
            self.push_scope()
            lines = []
            for st in e["stmts"]: lines += self.stmt(st)
            if e["tail"] is not None: lines += self.stmt_expr(e["tail"])
            self.pop_scope()
            return lines
        if k in ("mcall", "call", "try"):
            inner = e["e"] if k == "try" else e
            # statement-level call: value discarded
            if k == "try" and not self.is_result_expr(inner):
                pre, t = self.val(inner)
                return pre + ([f"let _ := {t}"] if t != "()" and not t.startswith("__") else [])
            pre, t = self.val(e)
            if t == "()" or re.fullmatch(r"__\w+(\.\d)?", t): return pre
            m = re.fullmatch(r"\(← (.*)\)", t, re.S)
            if m and balanced(m.group(1)):
                return pre + [f"let _ ← {m.group(1)}"]
            return pre + [f"let _ := {t}"]
        pre, t = self.val(e)
        return pre + [f"let _ := {t}"]

    LOG_LEVEL = {"error": 1, "warn": 2, "info": 3, "debug": 4, "trace": 5}

    def log_macro(self, e):
        """`debug!(fmt, a, b…)`: with a module log parameter the arguments are evaluated (for their panics) when the
        level is enabled — `log` macros evaluate their arguments lazily; arguments outside the subset are skipped"""
        lp = self.c.module_opt(self.key, "log_param")
        if lp is None or e["name"] not in self.LOG_LEVEL or e.get("raw") is None:
            return []
        from rsparse import Parser, Tok
        toks = list(e["raw"])
        # split at top-level commas
        parts, cur, depth = [], [], 0
        for t in toks:
            if t.k == "p" and t.v in "([{": depth += 1
            if t.k == "p" and t.v in ")]}": depth -= 1
            if t.k == "p" and t.v == "," and depth == 0:
                parts.append(cur); cur = []
            else:
                cur.append(t)
        if cur: parts.append(cur)
        body = []
        for part in parts[1:]:
            # named argument `name = expr`
            if len(part) >= 2 and part[0].k == "id" and part[1].k == "p" and part[1].v == "=":
                part = part[2:]
            snap = self.snapshot()
            try:
                ps = Parser.__new__(Parser)
                ps.toks = part + [Tok("eof", None, e["line"])]
                ps.i = 0
                ex = ps.parse_expr()
                pre, t = self.val(ex)
            except Exception:
                self.restore(snap)
                continue
            if not pre and not has_action(t):
                self.restore(snap)
                continue
            body += pre + [f"let _ := {t}"]
        if not body:
            return []
        return [f"if {lp} ≥ {self.LOG_LEVEL[e['name']]} then"] + indent(body + ["pure ()"], 2)

    def boolify(self, e, t):
        return t

    def entry_chain(self, x):
        """`MAP.entry(k).or_insert_with_key(|k| ctor)` (and friends): (map place, key expr, default-value expr) or None"""
        while x["k"] in ("paren",): x = x["e"]
        if x["k"] != "mcall" or x["name"] not in ("or_insert_with_key", "or_insert_with", "or_insert", "or_default"): return None
        ent = x["recv"]
        if ent["k"] != "mcall" or ent["name"] != "entry" or len(ent["args"]) != 1: return None
        key = ent["args"][0]
        if x["name"] == "or_default":
            dflt = None
        elif x["name"] == "or_insert":
            dflt = x["args"][0]
        else:
            cl = x["args"][0]
            if cl["k"] != "closure": return None
            dflt = ("closure", cl, x["name"] == "or_insert_with_key")
        return ent["recv"], key, dflt

    def entry_default(self, dflt, keyterm):
        if dflt is None: return [], "default"
        if isinstance(dflt, tuple):
            _, cl, with_key = dflt
            self.push_scope()
            pre = []
            if with_key and cl["params"]:
                nm = self.pat_atom(cl["params"][0][0], True)
                pre.append(f"let {nm} := {keyterm}")
            p, t = self.val(cl["body"])
            self.pop_scope()
            return pre + p, t
        return self.val(dflt)

    def expected_for(self, rhs, ty):
        """the type a context-typed call inside `rhs` must produce when `rhs` as a whole has type `ty`: looks through
        `Some(..)` (Option<T> -> T); `?`, unwrap / expect / unwrap_or_else keep the type"""
        r = rhs
        while r["k"] == "paren": r = r["e"]
        t = self.strip_ref(ty) if ty is not None else None
        if t is not None and r["k"] == "call" and r["f"]["k"] == "path" and r["f"]["segs"][-1] == "Some" and self.is_option(t):
            return self.expected_for(r["args"][0], t["segs"][-1][1][0])
        return t

    def collect_assign_targets(self, node, out):
        """pre-pass: id(let statement) -> (place its variable is first assigned to LATER IN THE SAME BLOCK, wrapped in Some?)
        for `let v = ..; … place = v` / `place = Some(v)`"""
        def first_target(stmts, name):
            found = []
            def walk(n):
                if found: return
                if isinstance(n, dict):
                    if n.get("k") == "assign" and n.get("op") == "=":
                        r = n["r"]; in_some = False
                        while r["k"] == "paren": r = r["e"]
                        if r["k"] == "call" and r["f"]["k"] == "path" and r["f"]["segs"][-1] == "Some" and len(r["args"]) == 1:
                            r = r["args"][0]; in_some = True
                        while r["k"] in ("paren", "ref"): r = r["e"]
                        if r["k"] == "path" and len(r["segs"]) == 1 and r["segs"][0] == name:
                            found.append((n["l"], in_some)); return
                    for v in n.values(): walk(v)
                elif isinstance(n, (list, tuple)):
                    for v in n: walk(v)
            walk(stmts)
            return found[0] if found else None
        if isinstance(node, dict):
            if node.get("k") == "block":
                sts = node.get("stmts") or []
                for i, st in enumerate(sts):
                    if isinstance(st, dict) and st.get("k") == "let" and st.get("ty") is None and st["pat"]["k"] == "pident":
                        t = first_target(sts[i + 1:] + ([node["tail"]] if node.get("tail") is not None else []), st["pat"]["name"])
                        if t is not None: out[id(st)] = t
            for v in node.values(): self.collect_assign_targets(v, out)
        elif isinstance(node, (list, tuple)):
            for v in node: self.collect_assign_targets(v, out)

    def stmt_assign(self, e):
        op = e["op"]
        line = e["line"]
        # `map.entry(k).or_insert_with_key(..).field op= v`  and  `alias.field op= v` for `let alias = map.entry(k)…`
        lhs = e["l"]
        if lhs["k"] == "field":
            ch = self.entry_chain(lhs["e"])
            alias = None
            if ch is None and lhs["e"]["k"] == "path" and len(lhs["e"]["segs"]) == 1:
                alias = getattr(self, "aliases", {}).get(lhs["e"]["segs"][0])
            if ch is not None or alias is not None:
                fld = lname(lhs["name"])
                pre = []
                if ch is not None:
                    mp, key, dflt = ch
                    pk, kt = self.val(key)
                    k = self.fresh("k")
                    pre += pk + [f"let {k} := {kt}"]
                    pd, dt = self.entry_default(dflt, k)
                    pm, cur = self.val(mp)
                    pre += pd + pm
                    pre += self.assign_place(mp, f"(Rs.mapEnsure {self.atom(cur)} {k} {self.atom(dt)})", line)
                else:
                    mp, k = alias
                pr, rt = self.val(e["r"])
                if op == "=": newv = rt
                elif op == "+=": newv = f"(__e.{fld} + {self.atom(rt)})"
                elif op == "-=": raise Unsupported("-= through a map entry")
                else: raise Unsupported(f"{op} through a map entry")
                pm2, cur2 = self.val(mp)
                return pre + pr + pm2 + self.assign_place(mp, f"(Rs.mapModify {self.atom(cur2)} {k} (fun __e => {{ __e with {fld} := {newv} }}))", line)
        if op == "=":
            saved = getattr(self, "expect_ty", None)
            self.expect_ty = self.expected_for(e["r"], self.typeof(lhs))
            try:
                p, t = self.val(e["r"])
            finally:
                self.expect_ty = saved
            return p + self.assign_place(e["l"], t, line)
        binop = op[:-1]
        fake = N("bin", line, op=binop, l=e["l"], r=e["r"])
        p, t = self.val(fake)
        return p + self.assign_place(e["l"], t, line)

    def body_lines(self, blk, allow_tail_value=False):
        self.push_scope()
        lines = []
        for st in blk["stmts"]: lines += self.stmt(st)
        if blk["tail"] is not None:
            lines += self.stmt_expr(blk["tail"])
        self.pop_scope()
        return lines or ["pure ()"]

    def stmt_if(self, e):
        pc, c = self.cond(e["c"])
        lines = list(pc)
        then = self.body_lines(e["then"])
        lines.append(f"if {c} then")
        lines += indent(then, 2)
        if e["els"] is not None:
            els = self.body_lines(e["els"]) if e["els"]["k"] == "block" else self.stmt_expr(e["els"])
            lines.append("else")
            lines += indent(els, 2)
        return lines

    def stmt_iflet(self, e):
        arms = [N("arm", e["line"], pat=e["pat"], guard=None, body=e["then"])]
        arms.append(N("arm", e["line"], pat=N("pwild", e["line"]), guard=None,
                      body=e["els"] if e["els"] is not None else N("block", e["line"], stmts=[], tail=None)))
        return self.match_lines(N("match", e["line"], e=e["e"], arms=arms), "stmt")

    def v_iflet(self, e):
        if e["els"] is None: raise Unsupported("if-let without else in value position")
        arms = [N("arm", e["line"], pat=e["pat"], guard=None, body=e["then"]),
                N("arm", e["line"], pat=N("pwild", e["line"]), guard=None, body=e["els"])]
        return self.v_match(N("match", e["line"], e=e["e"], arms=arms))

    def arm_body(self, body, mode):
        """lines for a match-arm / branch body. mode: 'stmt' | 'value' | 'tail'"""
        if mode == "stmt":
            if body["k"] == "block": return self.body_lines(body)
            return self.stmt_expr(body) or ["pure ()"]
        if mode == "value":
            if body["k"] == "block":
                self.push_scope()
                lines = []
                for st in body["stmts"]: lines += self.stmt(st)
                lines += self.tail_value(body["tail"]) if body["tail"] is not None else ["pure ()"]
                self.pop_scope()
                return lines
            if body["k"] in ("return", "break", "continue") or (body["k"] == "macro" and body["name"] in ("panic", "unreachable")):
                return self.stmt_expr(body)
            return self.tail_value(body)
        if mode == "tail":
            if body["k"] == "block":
                self.push_scope()
                lines = []
                for st in body["stmts"]: lines += self.stmt(st)
                lines += self.tail(body["tail"]) if body["tail"] is not None else self.tail(None)
                self.pop_scope()
                return lines
            return self.tail(body)
        raise AssertionError(mode)

    def match_lines(self, e, mode):
        """`match` on integers with literal/range patterns becomes an if-chain; otherwise a Lean match.
        Guards are compiled by falling through to the remaining arms."""
        scrut = e["e"]
        arms = e["arms"]
        # arms that test for a variant of an enum the translator only knows through externs (spec `variant_tests`:
        # "Enum::Variant" -> (test extern, payload extern)): compiled to if / else over the scrutinee
        vt = self.c.spec.get("variant_tests", {})
        def vkey(p): return "::".join(p["path"][-2:]) if p["k"] == "ptstruct" else None
        if any(vkey(a["pat"]) in vt for a in arms):
            ln = e["line"]
            def build(i):
                a = arms[i]
                p = a["pat"]
                body = a["body"]
                if a["guard"] is not None: raise Unsupported("guard on an extern-variant arm")
                def blk(binds):
                    if body["k"] == "block":
                        return N("block", ln, stmts=binds + body["stmts"], tail=body["tail"])
                    return N("block", ln, stmts=binds, tail=body)
                if vkey(p) in vt:
                    tfn, bfn = vt[vkey(p)]
                    cond = N("call", ln, f=N("path", ln, segs=tfn.split("::")), args=[scrut])
                    binds = []
                    if p["ps"]:
                        binds.append(N("let", ln, pat=p["ps"][0], ty=None, els=None,
                                       init=N("call", ln, f=N("path", ln, segs=bfn.split("::")), args=[scrut])))
                    if i + 1 >= len(arms): raise Unsupported("extern-variant match without a catch-all arm")
                    return N("if", ln, c=cond, then=blk(binds), els=build(i + 1))
                if p["k"] == "pident":
                    return blk([N("let", ln, pat=p, ty=None, init=scrut, els=None)])
                if p["k"] == "pwild":
                    return blk([])
                raise Unsupported(f"{self.file}:{ln}: pattern next to an extern-variant arm")
            return self.arm_body(build(0), mode)
        # an arm `CONST_NAME =>` (a named constant of the crate, not a binding) compares with the constant's value
        def constify(p):
            nm = p.get("name") if p["k"] == "pident" else (p["path"][0] if p["k"] == "ppath" and len(p["path"]) == 1 else None)
            if nm is not None and nm in self.c.consts and nm.upper() == nm:
                return N("pconst", p["line"], name=nm)
            if p["k"] == "por":
                alts = [constify(q) for q in p["alts"]]
                if any(a is not b for a, b in zip(alts, p["alts"])): return N("por", p["line"], alts=alts)
            return p
        if any(constify(a["pat"]) is not a["pat"] for a in arms):
            arms = [N("arm", a["line"], pat=constify(a["pat"]), guard=a["guard"], body=a["body"]) for a in arms]
            pre, s = self.val(scrut)
            v = self.fresh("m")
            return list(pre) + [f"let {v} := {s}"] + self.int_chain(v, arms, mode)
        int_like = all(a["pat"]["k"] in ("plit", "prange", "pwild", "pident", "por") and self.int_pat(a["pat"]) for a in arms) and \
            any(a["pat"]["k"] in ("plit", "prange", "por") for a in arms) and \
            not any(a["pat"]["k"] == "plit" and a["pat"]["e"]["k"] in ("bstr", "str", "bool") for a in arms)
        if self.is_result_expr(scrut):
            pre, c = self.comp_with_writeback(scrut)
            lines = list(pre)
            lines.append(f"match {c} with")
            seen_err, seen_ok_all = False, False
            # guarded `Err(e) if g => b1, Err(e) => b2`: one `Res.err` arm with an if-chain over the guards (the error value
            # is not modelled: `e` is unit and `e.kind()` is what the spec's extern says)
            is_err_arm = lambda a: a["pat"]["k"] == "ptstruct" and a["pat"]["path"][-1] == "Err"
            if any(is_err_arm(a) and a["guard"] is not None for a in arms):
                err_arms = [a for a in arms if is_err_arm(a)]
                if err_arms[-1]["guard"] is not None: raise Unsupported("guarded Err arms without a final unguarded one")
                chain = []
                def build(i):
                    a = err_arms[i]
                    self.push_scope()
                    bind = []
                    ap = a["pat"]
                    q = ap["ps"][0] if ap["ps"] else None
                    while q is not None and q["k"] == "pref": q = q["p"]
                    if q is not None and q["k"] == "pident":
                        self.declare(q["name"], mut=False, ty=N("tpath", 0, segs=[("ErrorValue", [])]))
                        bind = [f"let {lname(q['name'])} := ()"]
                    if a["guard"] is None:
                        out = bind + self.arm_body(a["body"], mode)
                        self.pop_scope()
                        return out
                    pg, g = self.cond(a["guard"])
                    if pg: raise Unsupported("effects in match guard")
                    body = self.arm_body(a["body"], mode)
                    self.pop_scope()
                    rest = build(i + 1)
                    return bind + [f"if {g} then"] + indent(body, 2) + ["else"] + indent(rest, 2)
                merged_body = build(0)
                first = err_arms[0]
                arms = [a for a in arms if not is_err_arm(a) or a is first]
                first_marker = first
            else:
                first_marker = None
                merged_body = None
            for a in arms:
                self.push_scope()
                self.mut_pat_names = []
                if a is first_marker:
                    lines.append("| Res.err =>"); lines += indent(merged_body, 2)
                    seen_err = True
                    self.pop_scope(); continue
                p = self.pat(a["pat"])
                if a["guard"] is not None: raise Unsupported("guard on Result match")
                if p == "_":
                    # wildcard must not swallow panics; only the alternatives not yet covered
                    body = self.arm_body(a["body"], mode)
                    if not seen_ok_all:
                        lines.append("| Res.ok _ =>"); lines += indent(body, 2)
                    if not seen_err:
                        lines.append("| Res.err =>"); lines += indent(body, 2)
                    seen_err = seen_ok_all = True
                else:
                    if p == "Res.err":
                        if seen_err:
                            self.pop_scope(); continue
                        seen_err = True
                    if re.fullmatch(r"Res\.ok (_|[a-z_][A-Za-z0-9_']*)", p): seen_ok_all = True
                    lines.append(f"| {p} =>")
                    bind = [f"let mut {lname(nm)} := {lname(nm)}" for nm in getattr(self, "mut_pat_names", [])]
                    self.mut_pat_names = []
                    ap = a["pat"]
                    if p == "Res.err" and ap["k"] == "ptstruct" and ap["ps"] and ap["ps"][0]["k"] in ("pident",):
                        # the error value itself is not modelled (error kinds are collapsed): bind the name to unit
                        self.declare(ap["ps"][0]["name"], mut=False, ty=N("tpath", 0, segs=[("ErrorValue", [])]))
                        bind = bind + [f"let {lname(ap['ps'][0]['name'])} := ()"]
                    lines += indent(bind + self.arm_body(a["body"], mode), 2)
                self.pop_scope()
            lines.append("| Res.panic __p => Res.panic __p")
            return lines
        pre, s = self.val(scrut)
        if int_like:
            v = self.fresh("m")
            lines = list(pre) + [f"let {v} := {s}"]
            lines += self.int_chain(v, arms, mode)
            return lines
        sv = self.fresh("m")
        lines = list(pre) + [f"let {sv} := {s}"]
        lines += self.match_rec(sv, arms, mode)
        return lines

    def int_pat(self, p):
        if p["k"] == "por": return all(self.int_pat(q) for q in p["alts"])
        if p["k"] == "plit": return p["e"]["k"] in ("num", "bchar", "unary")
        return p["k"] in ("prange", "pwild", "pident")

    def int_test(self, v, p):
        k = p["k"]
        if k == "pconst":
            pc, c = self.v_path(N("path", p["line"], segs=[p["name"]]))
            return f"{v} = {c}"
        if k == "plit": return f"{v} = {self.lit(p['e'])}"
        if k == "prange":
            lo = self.lit(p["lo"])
            if p["hi"] is None: return f"{lo} ≤ {v}"
            if p["hi"]["k"] == "path":
                ph, hi = self.v_path(p["hi"])
            else:
                hi = self.lit(p["hi"])
            return f"{lo} ≤ {v} ∧ {v} {'≤' if p['incl'] else '<'} {hi}"
        if k == "por": return " ∨ ".join(f"({self.int_test(v, q)})" for q in p["alts"])
        return None

    def int_chain(self, v, arms, mode):
        lines = []
        first = True
        closed = False
        for a in arms:
            t = self.int_test(v, a["pat"])
            self.push_scope()
            if a["pat"]["k"] == "pident":
                self.declare(a["pat"]["name"])
                bind = [f"let {lname(a['pat']['name'])} := {v}"]
            else:
                bind = []
            if a["guard"] is not None:
                pg, g = self.cond(a["guard"])
                if pg: raise Unsupported("effects in match guard")
                t = g if t is None else f"({t}) ∧ ({g})"
            body = bind + self.arm_body(a["body"], mode)
            self.pop_scope()
            if t is None:
                if first: lines += body
                else:
                    lines.append("else"); lines += indent(body, 2)
                closed = True
                break
            lines.append(("if " if first else "else if ") + t + " then")
            lines += indent(body, 2)
            first = False
        if not closed:
            lines.append("else"); lines.append(f"  Res.panic {self.site(arms[0]['line'], 'match-not-exhaustive')}")
        return lines

    def match_rec(self, sv, arms, mode):
        """structural match with guard fall-through"""
        if not arms:
            return [f"Res.panic {self.site(0, 'match-not-exhaustive')}"]
        if arms[0]["guard"] is None and arms[0]["pat"]["k"] == "pwild":
            return self.arm_body(arms[0]["body"], mode)
        lines = [f"match {sv} with"]
        i = 0
        n = len(arms)
        while i < n:
            a = arms[i]
            self.push_scope()
            p = self.pat(a["pat"])
            if a["guard"] is None:
                body = self.arm_body(a["body"], mode)
                self.pop_scope()
                lines.append(f"| {p} =>"); lines += indent(body, 2)
                if p == "_" or a["pat"]["k"] == "pident":
                    return lines
                i += 1
                continue
            pg, g = self.cond(a["guard"])
            if pg: raise Unsupported("effects in match guard")
            body = self.arm_body(a["body"], mode)
            self.pop_scope()
            rest = self.match_rec(sv, arms[i + 1:], mode)
            lines.append(f"| {p} =>")
            lines.append(f"  if {g} then")
            lines += indent(body, 4)
            lines.append("  else")
            lines += indent(rest, 4)
            if p == "_" or a["pat"]["k"] == "pident":
                return lines
            # remaining arms for values not matching p
            lines.append("| _ =>")
            lines += indent(rest, 2)
            return lines
        return lines

    # ---- loops
    def state_tuple(self, muts):
        if not muts: return "()"
        if len(muts) == 1: return lname(muts[0])
        return "(" + ", ".join(lname(m) for m in muts) + ")"

    def contains_value_return(self, node):
        found = False

        def walk(x):
            nonlocal found
            if isinstance(x, dict):
                if x.get("k") == "closure": return
                if x.get("k") == "return":
                    ev = x.get("e")
                    if ev is None:
                        found = True; return
                    if self.ret_is_result and ev["k"] == "call" and ev["f"]["k"] == "path" and ev["f"]["segs"][-1] == "Err":
                        return
                    found = True; return
                for v in x.values(): walk(v)
            elif isinstance(x, (list, tuple)):
                for v in x: walk(v)
        walk(node)
        return found

    def iter_list(self, e):
        """Lean list term for a Rust iterable expression"""
        k = e["k"]
        if k == "paren": return self.iter_list(e["e"])
        if k == "ref": return self.iter_list(e["e"])
        return self.val(e)

    def loop_common(self, muts, body_blk, ret, bind_pat=None):
        """lines of the body lambda's do-block"""
        self.push_scope()
        lines = []
        for m in muts:
            info = self.lookup(m)
            self.declare(m, mut=True, ty=info["ty"] if info else None)
            lines.append(f"let mut {lname(m)} := {lname(m)}")
        self.loop_stack.append({"muts": muts, "ret": ret})
        self.push_scope()
        for st in body_blk["stmts"]: lines += self.stmt(st)
        if body_blk["tail"] is not None: lines += self.stmt_expr(body_blk["tail"])
        self.pop_scope()
        self.loop_stack.pop()
        lines.append(f"return {'Rs.Flow.next' if ret else 'Rs.Step.next'} {self.state_tuple(muts)}")
        self.pop_scope()
        return lines

    def after_loop(self, r, muts, ret):
        lines = []
        st = self.state_tuple(muts)
        if ret:
            lines.append(f"match {r} with")
            # the returned value was already paired with the `&mut` state at the `return` inside the loop
            lines.append(f"| Rs.Flow.ret __v => return __v" if not self.loop_stack else f"| Rs.Flow.ret __v => return Rs.Flow.ret __v")
            if muts:
                names = [self.fresh("n") for _ in muts]
                tup = names[0] if len(names) == 1 else "(" + ", ".join(names) + ")"
                lines.append(f"| Rs.Flow.next {tup} | Rs.Flow.brk {tup} =>")
                for m, nn in zip(muts, names): lines.append(f"  {lname(m)} := {nn}")
            else:
                lines.append("| Rs.Flow.next _ | Rs.Flow.brk _ => pure ()")
        else:
            if len(muts) == 1: lines.append(f"{lname(muts[0])} := {r}")
            elif muts:
                for i, m in enumerate(muts):
                    lines.append(f"{lname(m)} := {tuple_proj(r, i, len(muts))}")
        return lines

    def stmt_for(self, e):
        it = e["it"]
        # `for x in &mut place` / `place.iter_mut()`: element-wise update of the collection
        mut_iter = None
        if it["k"] == "ref" and it["mut"]: mut_iter = it["e"]
        if it["k"] == "mcall" and it["name"] == "iter_mut": mut_iter = it["recv"]
        if mut_iter is not None:
            return self.stmt_for_mut(e, mut_iter)
        pre, lst = self.iter_list(it)
        muts = self.muts_in_scope()
        ret = self.contains_value_return(e["body"])
        if ret and self.loop_stack and not self.loop_stack[-1]["ret"]:
            raise Unsupported("value return from nested loop")
        # first pass with every mutable variable in scope as loop state, to find those the body assigns
        snap = self.snapshot()
        self.push_scope()
        p = self.pat_atom(e["pat"], True)
        body = self.loop_common(muts, e["body"], ret)
        self.pop_scope()
        muts = [m for m in muts if assigned_in(body[len(muts):], lname(m))]
        self.restore(snap)
        self.push_scope()
        p = self.pat_atom(e["pat"], True)
        body = self.loop_common(muts, e["body"], ret)
        self.pop_scope()
        r = self.fresh("s")
        fn = "Rs.forListR" if ret else "Rs.forList"
        lines = list(pre)
        lines.append(f"let {r} ← {fn} {self.atom(lst)} {self.state_tuple(muts)} (fun {p} {self.state_tuple(muts) if muts else '_'} => do")
        lines += indent(body, 4)
        lines[-1] += ")"
        lines += self.after_loop(r, muts, ret)
        return lines

    def stmt_for_mut(self, e, place):
        if e["pat"]["k"] != "pident": raise Unsupported("pattern in mutable for")
        x = e["pat"]["name"]
        pre, lst = self.val(place)
        acc = self.fresh("acc")

        def gen(muts):
            self.push_scope()
            self.declare(x, mut=True, ty=None)
            self.push_scope()
            body = []
            for m in muts: body.append(f"let mut {lname(m)} := {lname(m)}")
            body.append(f"let mut {lname(x)} := {lname(x)}")
            self.loop_stack.append({"muts": [acc] + muts, "ret": False, "forbid_flow": True})
            for st in e["body"]["stmts"]: body += self.stmt(st)
            if e["body"]["tail"] is not None: body += self.stmt_expr(e["body"]["tail"])
            self.loop_stack.pop()
            self.pop_scope(); self.pop_scope()
            return body
        outer = self.muts_in_scope()
        snap = self.snapshot()
        body = gen(outer)
        muts = [m for m in outer if assigned_in(body[len(outer) + 1:], lname(m))]
        self.restore(snap)
        body = gen(muts)
        st_in = "(" + ", ".join([acc] + [lname(m) for m in muts]) + ")" if muts else acc
        st_out = "(" + ", ".join([f"{acc} ++ [{lname(x)}]"] + [lname(m) for m in muts]) + ")" if muts else f"({acc} ++ [{lname(x)}])"
        body.append(f"return Rs.Step.next {st_out}")
        for ln in body:
            if "Rs.Step.brk" in ln or "Rs.Flow" in ln: raise Unsupported("break/continue/return in mutable for")
        r = self.fresh("s")
        init = "(" + ", ".join(["[]"] + [lname(m) for m in muts]) + ")" if muts else "[]"
        lines = list(pre)
        lines.append(f"let {r} ← Rs.forList {self.atom(lst)} {init} (fun {lname(x)} {st_in} => do")
        lines += indent(body, 4)
        lines[-1] += ")"
        n = 1 + len(muts)
        # the other loop-carried variables first, then the rebuilt collection (which may live inside one of them)
        for i, m in enumerate(muts):
            lines.append(f"{lname(m)} := {tuple_proj(r, i + 1, n)}")
        lines += self.assign_place(place, tuple_proj(r, 0, n) if muts else r, e["line"])
        return lines

    def stmt_while(self, e):
        fuels = self.opts.get("fuel", [])
        if self.while_count >= len(fuels):
            raise Unsupported(f"{self.file}:{e['line']}: while loop #{self.while_count} has no fuel expression in the spec")
        fuel = fuels[self.while_count]
        self.while_count += 1
        muts = self.muts_in_scope()
        if self.contains_value_return(e["body"]): raise Unsupported("value return inside while")
        st = self.state_tuple(muts) if muts else "_"
        # condition
        self.push_scope()
        pc, c = self.cond(e["c"])
        self.pop_scope()
        condl = self.block_of(pc, f"pure (decide ({c}))")
        snap = self.snapshot()
        body = self.loop_common(muts, e["body"], False)
        muts2 = [m for m in muts if assigned_in(body[len(muts):], lname(m))]
        if muts2 != muts:
            muts = muts2
            self.restore(snap)
            st = self.state_tuple(muts) if muts else "_"
            body = self.loop_common(muts, e["body"], False)
        r = self.fresh("s")
        lines = [f"let {r} ← Rs.whileFuel ({fuel}) {self.state_tuple(muts)}",
                 f"  (fun {st} => do"]
        lines += indent(condl, 6)
        lines[-1] += ")"
        lines.append(f"  (fun {st} => do")
        lines += indent(body, 6)
        lines[-1] += ")"
        lines += self.after_loop(r, muts, False)
        return lines

    # ---- returns / tails
    def wrap_ret(self, v):
        if not self.out_muts:
            return v
        parts = ([v] if v is not None else []) + [lname(m) for m in self.out_muts]
        return parts[0] if len(parts) == 1 else "(" + ", ".join(parts) + ")"

    def has_value_ret(self):
        t = self.ret_inner
        if t is None: return False
        if t["k"] == "ttuple" and not t["ts"]: return False
        return True

    def stmt_return(self, e):
        ev = e["e"]
        in_loop = bool(self.loop_stack)
        if ev is None:
            if in_loop: return [f"return Rs.Flow.ret {self.wrap_ret(None) or '()'}"]
            return [f"return {self.wrap_ret(None) or '()'}"]
        if self.ret_is_result:
            if ev["k"] == "call" and ev["f"]["k"] == "path" and ev["f"]["segs"][-1] == "Err":
                return ["Res.err"]
            if ev["k"] == "call" and ev["f"]["k"] == "path" and ev["f"]["segs"][-1] == "Ok":
                p, t = self.val(ev["args"][0]) if ev["args"] else ([], None)
                v = self.wrap_ret(t if self.has_value_ret() else None) or "()"
                return p + [f"return Rs.Flow.ret {self.atom(v)}" if in_loop else f"return {v}"]
            # a Result-typed expression:  `e`  ==  `Ok(e?)`
            pre, t = self.v_try(N("try", ev["line"], e=ev))
            out = self.wrap_ret(t if self.has_value_ret() else None) or "()"
            return pre + [f"return Rs.Flow.ret {self.atom(out)}" if in_loop else f"return {out}"]
        p, t = self.val(ev)
        v = self.wrap_ret(t if self.has_value_ret() else None) or "()"
        return p + [f"return Rs.Flow.ret {self.atom(v)}" if in_loop else f"return {v}"]

    def tail(self, e):
        """function-tail expression"""
        if e is None:
            return [f"return {self.wrap_ret(None) or '()'}"]
        k = e["k"]
        if k in ("return",): return self.stmt_return(e)
        if k in ("for", "while", "whilelet", "loop", "assign") or (k == "macro" and (e["name"] in LOG_MACROS or e["name"].startswith("assert"))):
            return self.stmt_expr(e) + self.tail(None)
        if not self.has_value_ret() and k in ("mcall", "call", "if", "iflet", "match") and not self.ret_is_result:
            return self.stmt_expr(e) + self.tail(None)
        if k == "if":
            pc, c = self.cond(e["c"])
            lines = list(pc) + [f"if {c} then"]
            lines += indent(self.arm_body(e["then"], "tail"), 2)
            lines.append("else")
            if e["els"] is None:
                lines += indent(self.tail(None), 2)
            else:
                lines += indent(self.arm_body(e["els"], "tail"), 2)
            return lines
        if k == "iflet":
            arms = [N("arm", e["line"], pat=e["pat"], guard=None, body=e["then"]),
                    N("arm", e["line"], pat=N("pwild", e["line"]), guard=None,
                      body=e["els"] if e["els"] is not None else N("block", e["line"], stmts=[], tail=None))]
            return self.match_lines(N("match", e["line"], e=e["e"], arms=arms), "tail")
        if k == "match": return self.match_lines(e, "tail")
        if k == "block": return self.arm_body(e, "tail")
        if k == "macro" and e["name"] in ("panic", "unreachable", "unimplemented", "todo"):
            return self.stmt_expr(e)
        return self.stmt_return(N("return", e["line"], e=e))

    # ------------------------------------------------------------------ function
    def emit_fn(self):
        f = self.fn
        if f["error"]: raise Unsupported(f"{self.file}: parse error in {self.key}: {f['error']}")
        if f["body"] is None: raise Unsupported("no body")
        self.push_scope()
        params = []
        init = []
        for n, t in self.c.module_params_of(self.key):
            params.append(f"({n} : {t})")
            self.declare(n, mut=False)
        self.extra_params = list(self.opts.get("extra_params", []))
        self.expect_ty = None
        self.assign_targets = {}
        self.collect_assign_targets(f["body"], self.assign_targets)
        if f["selfk"] is not None:
            st = N("tpath", f["line"], segs=[(self.self_type, [])])
            params.append(f"(self : {self.lean_type(st)})")
            if f["selfk"] in ("refmut", "mutval"):
                self.declare("self", mut=True, ty=st)
                init.append("let mut self := self")
                if f["selfk"] == "refmut": self.out_muts.append("self")
            else:
                self.declare("self", mut=False, ty=st)
        for p in f["params"]:
            pat = p["pat"]
            if pat["k"] == "pwild":
                pat = N("pident", p["line"], name=f"_p{len(params)}", mut=False, byref=False)
            if pat["k"] != "pident": raise Unsupported("pattern parameter")
            n = pat["name"]
            ty = p["ty"]
            byrefmut = ty["k"] == "tref" and ty["mut"]
            params.append(f"({lname(n)} : {self.lean_type(ty)})")
            mut = pat["mut"] or byrefmut
            self.declare(n, mut=mut, ty=ty)
            if mut: init.append(f"let mut {lname(n)} := {lname(n)}")
            if byrefmut: self.out_muts.append(n)
        ret_parts = []
        if self.has_value_ret(): ret_parts.append(self.lean_type(self.ret_inner))
        for m in self.out_muts:
            info = self.lookup(m)
            ret_parts.append(self.lean_type(info["ty"]))
        rty = "Unit" if not ret_parts else (ret_parts[0] if len(ret_parts) == 1 else "(" + " × ".join(ret_parts) + ")")
        body = list(init)
        blk = f["body"]
        self.push_scope()
        for s in blk["stmts"]: body += self.stmt(s)
        body += self.tail(blk["tail"])
        self.pop_scope()
        self.pop_scope()
        for n, t in self.extra_params:
            params.append(f"({n} : {t})")
        name = self.c.lean_fn_name(self.key)
        head = f"def {name} " + " ".join(params) + f" : Res {rty} := do"
        src = f"/-- `{self.key}` — {self.file} -/"
        return [src, head] + indent(body, 2)


def subst_self(ty, tname):
    if ty is None: return None
    if isinstance(ty, dict):
        if ty.get("k") == "tpath" and ty["segs"][-1][0] == "Self" and not ty["segs"][-1][1]:
            return N("tpath", ty.get("line", 0), segs=[(tname, [])])
        out = {}
        for k2, v in ty.items():
            out[k2] = subst_self(v, tname) if isinstance(v, (dict, list, tuple)) else v
        return out
    if isinstance(ty, list): return [subst_self(x, tname) for x in ty]
    if isinstance(ty, tuple): return tuple(subst_self(x, tname) if isinstance(x, (dict, list, tuple)) else x for x in ty)
    return ty


def assigned_in(lines, name):
    pat = re.compile(r"^\s*" + re.escape(name) + r" := ")
    for ln in lines:
        for sub in ln.split("\n"):
            if pat.match(sub): return True
    return False


def tuple_proj(t, i, n):
    """i-th component (0-based) of an n-tuple term (right-nested pairs)"""
    if n == 1: return t
    s = t
    for _ in range(i): s = f"{s}.2"
    if i < n - 1: s = f"{s}.1"
    return s


def indent(lines, k):
    pad = " " * k
    out = []
    for ln in lines:
        out += [pad + x for x in ln.split("\n")]
    return out


def balanced(s):
    depth = 0
    for i, ch in enumerate(s):
        if ch in "([{": depth += 1
        elif ch in ")]}":
            depth -= 1
            if depth == 0 and i < len(s) - 1 and s[0] in "([{":
                return False
            if depth < 0: return False
    return depth == 0


# ---------------------------------------------------------------------- builtin method tables
def _closure_map(em, e, ts):
    return f"(List.map {em.atom(ts[1])} {em.atom(ts[0])})"


BUILTIN_METHODS = {
    "len": "{self}.length",
    "is_empty": "{self}.isEmpty",
    "to_vec": "{self}", "clone": "{self}", "to_owned": "{self}", "as_ref": "{self}", "as_slice": "{self}",
    "iter": "{self}", "into_iter": "{self}", "collect": "{self}", "cloned": "{self}", "copied": "{self}",
    "to_string": "{self}", "as_bytes": "{self}", "borrow": "{self}", "as_mut": "{self}", "into": "{self}", "as_mut_slice": "{self}",
    "last": "{self}.getLast?", "first": "{self}.head?",
    "chain": "({self} ++ {0})", "zip": "(List.zip {self} {0})", "enumerate": "(Rs.enumerate {self})",
    "take": "({self}.take {0})", "skip": "({self}.drop {0})", "chunks": "(Rough.chunks {0} {self})",
    "rev": "{self}.reverse", "sum": "{self}.sum", "map": _closure_map,
    "is_some": "{self}.isSome", "is_none": "{self}.isNone", "unwrap_or": "({self}.getD {0})",
    "contains": "({self}.contains {0})", "min": "(min {self} {0})", "max": "(max {self} {0})",
    "saturating_sub": "({self} - {0})", "chunks_exact": "(Rs.chunksExact {0} {self})", "is_multiple_of": "(decide ({self} % {0} = 0))",
    "position": "{self}.pos", "finish": "(H {self})", "values": "(List.map Prod.snd {self})", "keys": "(List.map Prod.fst {self})", "ip": "{self}", "as_secs": "{self}.secs", "subsec_nanos": "{self}.nanos", "get": "{self}[{0}]?", "concat": "{self}.flatten", "starts_with": "({0}.isPrefixOf {self})",
}


def _read_exact(em, e, pre, cur, ts):
    # cursor.read_exact(&mut buf): fills the whole of `buf`
    arg = e["args"][0]
    pbuf, buf = em.val(arg)
    t = em.fresh()
    pre = pre + pbuf + [f"let {t} ← Rs.Cursor.readExact {cur} {em.atom(buf)}.length"]
    pre += em.assign_place(arg, f"{t}.1", e["line"])
    pre += em.assign_place(e["recv"], f"{t}.2", e["line"])
    return pre, "()"


def _read_exact_inspect(em, e):
    # `cursor.read_exact(&mut buf)` whose Result is inspected with is_err()/is_ok()
    arg = e["args"][0]
    pcur, cur = em.val(e["recv"])
    pbuf, buf = em.val(arg)
    flag = em.fresh("e")
    t = em.fresh()
    pre = pcur + pbuf + [f"let mut {flag} := false",
                         f"match Rs.Cursor.readExact {em.atom(cur)} {em.atom(buf)}.length with",
                         f"| Res.ok {t} =>"]
    pre += indent(em.assign_place(arg, f"{t}.1", e["line"]) + em.assign_place(e["recv"], f"{t}.2", e["line"]), 2)
    pre += ["| Res.err =>", f"  {flag} := true", "| Res.panic __p =>", "  Res.panic __p"]
    return pre, flag


def _read_to_end(em, e, pre, cur, ts):
    arg = e["args"][0]
    pbuf, buf = em.val(arg)
    t = em.fresh()
    pre = pre + pbuf + [f"let {t} := Rs.Cursor.readToEnd {cur}"]
    pre += em.assign_place(arg, f"({em.atom(buf)} ++ {t}.1)", e["line"])
    pre += em.assign_place(e["recv"], f"{t}.2", e["line"])
    return pre, f"{t}.1.length"


MUT_BUILTINS = {
    "push": {"new": "({self} ++ [{0}])"},
    "clear": {"new": "[]"},
    "pop": {"new": "{self}.dropLast", "res": "{self}.getLast?"},
    "extend": {"new": "({self} ++ {0})"},
    "extend_from_slice": {"new": "({self} ++ {0})"},
    "truncate": {"new": "({self}.take {0})"},
    "write_all": {"new": "({self} ++ {0})", "result": True},
    "write_u32": {"new": "({self} ++ le32 {0})", "result": True},
    "write_u16": {"new": "({self} ++ le16 {0})", "result": True},
    "write_u64": {"new": "({self} ++ le64 {0})", "result": True},
    "read_u32": {"bind": "Rs.Cursor.readU32 {self}", "new": "{t}.2", "res": "{t}.1", "result": True},
    "read_u16": {"bind": "Rs.Cursor.readU16 {self}", "new": "{t}.2", "res": "{t}.1", "result": True},
    "read_u64": {"bind": "Rs.Cursor.readU64 {self}", "new": "{t}.2", "res": "{t}.1", "result": True},
    "set_position": {"new": "(Rs.Cursor.setPosition {self} {0})"},
    "reserve": {"new": "{self}"},
    "update": {"new": "({self} ++ {0})"},
    "read_exact": {"special": _read_exact, "result": True, "inspect": _read_exact_inspect},
    "read_to_end": {"special": _read_to_end, "result": True},
}

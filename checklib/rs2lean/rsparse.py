"""
rsparse: tokenizer + recursive-descent parser for the subset of Rust used by the functions of /repo that the
translator (rs2lean) turns into Lean.  It parses whole files leniently: items it does not understand (use, mod,
trait impls with exotic syntax, macros) are skipped token-balanced; `fn` bodies are parsed fully and a function whose
body uses unsupported syntax is recorded with `error` set instead of aborting the file.

AST nodes are tuples/dataclass-like dicts:  {'k': kind, ...}.  Every node carries 'line'.
"""
import re

KEYWORDS = {"as", "break", "const", "continue", "else", "enum", "fn", "for", "if", "impl", "in", "let", "loop", "match",
            "mod", "mut", "pub", "ref", "return", "self", "Self", "static", "struct", "trait", "type", "use", "where",
            "while", "true", "false", "dyn", "move", "unsafe", "crate", "super", "extern"}

PUNCT = ["<<=", ">>=", "...", "..=", "::", "->", "=>", "==", "!=", "<=", ">=", "&&", "||", "+=", "-=", "*=", "/=", "%=",
         "^=", "&=", "|=", "<<", ">>", "..", "+", "-", "*", "/", "%", "^", "!", "&", "|", "=", "<", ">", "@", ".", ",",
         ";", ":", "#", "$", "?", "(", ")", "[", "]", "{", "}", "_"]


class ParseError(Exception):
    pass


class Tok:
    __slots__ = ("k", "v", "line")

    def __init__(self, k, v, line):
        self.k, self.v, self.line = k, v, line

    def __repr__(self):
        return f"{self.k}:{self.v!r}@{self.line}"


def tokenize(src):
    toks = []
    i, n, line = 0, len(src), 1
    while i < n:
        c = src[i]
        if c == "\n":
            line += 1; i += 1; continue
        if c in " \t\r":
            i += 1; continue
        if src.startswith("//", i):
            j = src.find("\n", i)
            i = n if j < 0 else j
            continue
        if src.startswith("/*", i):
            depth, j = 1, i + 2
            while j < n and depth:
                if src.startswith("/*", j): depth += 1; j += 2
                elif src.startswith("*/", j): depth -= 1; j += 2
                else:
                    if src[j] == "\n": line += 1
                    j += 1
            i = j; continue
        # raw strings r"..." r#"..."#
        m = re.match(r'b?r(#*)"', src[i:])
        if m:
            hashes = m.group(1)
            end = src.find('"' + hashes, i + len(m.group(0)))
            if end < 0: raise ParseError(f"unterminated raw string at line {line}")
            body = src[i + len(m.group(0)):end]
            toks.append(Tok("bstr" if src[i] == "b" else "str", body, line))
            line += body.count("\n")
            i = end + 1 + len(hashes); continue
        if c == '"' or (c == "b" and i + 1 < n and src[i + 1] == '"'):
            isb = c == "b"
            j = i + (2 if isb else 1)
            out = []
            while j < n and src[j] != '"':
                if src[j] == "\\":
                    e = src[j + 1]
                    if e == "n": out.append("\n"); j += 2
                    elif e == "t": out.append("\t"); j += 2
                    elif e == "r": out.append("\r"); j += 2
                    elif e == "0": out.append("\0"); j += 2
                    elif e == "\\": out.append("\\"); j += 2
                    elif e == '"': out.append('"'); j += 2
                    elif e == "'": out.append("'"); j += 2
                    elif e == "x": out.append(chr(int(src[j + 2:j + 4], 16))); j += 4
                    elif e == "\n":
                        j += 2; line += 1
                        while j < n and src[j] in " \t\r\n":
                            if src[j] == "\n": line += 1
                            j += 1
                    elif e == "u":
                        k = src.find("}", j); out.append(chr(int(src[j + 3:k], 16))); j = k + 1
                    else: raise ParseError(f"unknown escape \\{e} at line {line}")
                else:
                    if src[j] == "\n": line += 1
                    out.append(src[j]); j += 1
            toks.append(Tok("bstr" if isb else "str", "".join(out), line))
            i = j + 1; continue
        # char / byte char / lifetime
        if c == "'" or (c == "b" and i + 1 < n and src[i + 1] == "'"):
            isb = c == "b"
            j = i + (2 if isb else 1)
            m = re.match(r"(\\x[0-9a-fA-F]{2}|\\u\{[0-9a-fA-F]+\}|\\.|[^\\'])'", src[j:])
            if m:
                body = m.group(1)
                if body.startswith("\\x"): ch = chr(int(body[2:], 16))
                elif body.startswith("\\u"): ch = chr(int(body[3:-1], 16))
                elif body.startswith("\\"): ch = {"n": "\n", "t": "\t", "r": "\r", "0": "\0", "\\": "\\", "'": "'", '"': '"'}[body[1]]
                else: ch = body
                toks.append(Tok("bchar" if isb else "char", ch, line))
                i = j + len(m.group(0)); continue
            if not isb:
                m = re.match(r"'([A-Za-z_][A-Za-z0-9_]*)", src[i:])
                if m:
                    toks.append(Tok("lifetime", m.group(1), line)); i += len(m.group(0)); continue
            raise ParseError(f"bad char literal at line {line}")
        m = re.match(r"0x[0-9a-fA-F_]+|0b[01_]+|0o[0-7_]+|[0-9][0-9_]*(\.[0-9][0-9_]*)?([eE][+-]?[0-9]+)?", src[i:])
        if m and c.isdigit():
            txt = m.group(0)
            # `1..2` : do not swallow the dot of a range;  `x.0.1` handled by parser
            if "." in txt and src[i + len(txt.split(".")[0]):].startswith(".."):
                txt = txt.split(".")[0]
            j = i + len(txt)
            sm = re.match(r"(u8|u16|u32|u64|u128|usize|i8|i16|i32|i64|i128|isize|f32|f64)\b", src[j:])
            suffix = None
            if sm: suffix = sm.group(1); j += len(suffix)
            if txt.endswith("_") and False: pass
            toks.append(Tok("num", (txt.replace("_", ""), suffix), line))
            i = j; continue
        m = re.match(r"[A-Za-z_][A-Za-z0-9_]*", src[i:])
        if m and not (m.group(0) == "_"):
            w = m.group(0)
            toks.append(Tok("kw" if w in KEYWORDS else "id", w, line)); i += len(w); continue
        for p in PUNCT:
            if src.startswith(p, i):
                toks.append(Tok("p", p, line)); i += len(p); break
        else:
            raise ParseError(f"unexpected character {c!r} at line {line}")
    toks.append(Tok("eof", None, line))
    return toks


def N(kind, line, **kw):
    d = {"k": kind, "line": line}
    d.update(kw)
    return d


# binary operator precedence (higher binds tighter)
BINPREC = {"||": 1, "&&": 2, "==": 3, "!=": 3, "<": 3, ">": 3, "<=": 3, ">=": 3, "|": 4, "^": 5, "&": 6, "<<": 7, ">>": 7,
           "+": 8, "-": 8, "*": 9, "/": 9, "%": 9}
ASSIGN_OPS = {"=", "+=", "-=", "*=", "/=", "%=", "^=", "&=", "|=", "<<=", ">>="}


class Parser:
    def __init__(self, src):
        self.toks = tokenize(src)
        self.i = 0

    # -- token helpers
    def peek(self, o=0):
        return self.toks[min(self.i + o, len(self.toks) - 1)]

    def at(self, v, o=0):
        t = self.peek(o)
        return t.k in ("p", "kw") and t.v == v

    def at_id(self, o=0):
        return self.peek(o).k == "id"

    def next(self):
        t = self.toks[self.i]; self.i += 1; return t

    def eat(self, v):
        if self.at(v):
            self.i += 1; return True
        return False

    def expect(self, v):
        if not self.at(v):
            t = self.peek()
            raise ParseError(f"line {t.line}: expected {v!r}, found {t.v!r}")
        return self.next()

    def ident(self):
        t = self.peek()
        if t.k == "id" or (t.k == "kw" and t.v in ("self", "Self", "crate", "super")):
            self.i += 1; return t.v
        raise ParseError(f"line {t.line}: expected identifier, found {t.v!r}")

    def split_shr(self):
        """inside generics `>>` must be read as two `>`"""
        t = self.peek()
        if t.k == "p" and t.v in (">>", ">=", ">>="):
            rest = t.v[1:]
            self.toks[self.i] = Tok("p", ">", t.line)
            self.toks.insert(self.i + 1, Tok("p", rest, t.line))

    def skip_balanced(self):
        """skip one token tree"""
        t = self.next()
        if t.k == "p" and t.v in "([{":
            close = {"(": ")", "[": "]", "{": "}"}[t.v]
            while not self.at(close):
                if self.peek().k == "eof": raise ParseError("eof in token tree")
                self.skip_balanced()
            self.next()

    def skip_attrs(self):
        attrs = []
        while self.at("#"):
            start = self.i
            self.next(); self.eat("!")
            self.skip_balanced()
            attrs.append("".join(str(t.v) for t in self.toks[start:self.i]))
        return attrs

    # -- types (kept as small trees)
    def parse_type(self):
        line = self.peek().line
        if self.eat("&"):
            if self.peek().k == "lifetime": self.next()
            mut = self.eat("mut")
            return N("tref", line, mut=mut, t=self.parse_type())
        if self.at("&&"):
            self.next()
            mut = self.eat("mut")
            return N("tref", line, mut=False, t=N("tref", line, mut=mut, t=self.parse_type()))
        if self.eat("["):
            t = self.parse_type()
            if self.eat(";"):
                n = self.parse_expr()
                self.expect("]")
                return N("tarray", line, t=t, n=n)
            self.expect("]")
            return N("tslice", line, t=t)
        if self.eat("("):
            ts = []
            while not self.at(")"):
                ts.append(self.parse_type())
                if not self.eat(","): break
            self.expect(")")
            return N("ttuple", line, ts=ts)
        if self.eat("dyn") or self.eat("impl"):
            t = self.parse_type()
            while self.eat("+"):
                if self.peek().k == "lifetime": self.next()
                else: self.parse_type()
            return N("tdyn", line, t=t)
        if self.eat("*"):
            self.eat("const"); self.eat("mut")
            return N("tptr", line, t=self.parse_type())
        if self.eat("fn"):
            self.expect("(")
            while not self.at(")"):
                self.parse_type()
                if not self.eat(","): break
            self.expect(")")
            if self.eat("->"): self.parse_type()
            return N("tfn", line)
        if self.at("!"):
            self.next(); return N("tnever", line)
        if self.at("_"):
            self.next(); return N("tinfer", line)
        # path type
        segs = []
        self.eat("::")
        while True:
            name = self.ident()
            args = []
            if self.at("<"):
                self.next()
                while True:
                    self.split_shr()
                    if self.at(">"): break
                    if self.peek().k == "lifetime": self.next()
                    else: args.append(self.parse_type())
                    if not self.eat(","): break
                self.split_shr()
                self.expect(">")
            elif self.at("(") and name in ("Fn", "FnMut", "FnOnce"):
                self.skip_balanced()
                if self.eat("->"): self.parse_type()
            segs.append((name, args))
            if self.at("::") and (self.peek(1).k in ("id",) or self.peek(1).v in ("self", "Self", "crate", "super")):
                self.next(); continue
            break
        return N("tpath", line, segs=segs)

    # -- patterns
    def parse_pattern(self):
        line = self.peek().line
        p = self.parse_pattern1()
        if self.at("|"):
            alts = [p]
            while self.eat("|"):
                alts.append(self.parse_pattern1())
            return N("por", line, alts=alts)
        return p

    def parse_pattern1(self):
        t = self.peek(); line = t.line
        if self.eat("_"): return N("pwild", line)
        if self.eat("&"):
            self.eat("mut")
            return N("pref", line, p=self.parse_pattern1())
        if self.eat("("):
            ps = []
            while not self.at(")"):
                ps.append(self.parse_pattern())
                if not self.eat(","): break
            self.expect(")")
            if len(ps) == 1: return ps[0]
            return N("ptuple", line, ps=ps)
        if self.eat("["):
            ps = []
            while not self.at("]"):
                ps.append(self.parse_pattern())
                if not self.eat(","): break
            self.expect("]")
            return N("pslice", line, ps=ps)
        if t.k in ("num", "str", "bstr", "char", "bchar") or self.at("-") or self.at("true") or self.at("false"):
            lo = self.parse_lit_pattern()
            if self.at("..=") or self.at("..") or self.at("..."):
                incl = self.next().v != ".."
                hi = None
                if self.peek().k in ("num", "char", "bchar") or self.at("-"): hi = self.parse_lit_pattern()
                elif self.peek().k == "id" or (self.peek().k == "kw" and self.peek().v in ("crate", "super", "self", "Self")):
                    # a named constant as the upper end of the range
                    segs = [self.ident()]
                    while self.at("::"):
                        self.next(); segs.append(self.ident())
                    hi = N("path", line, segs=segs, targs=[])
                return N("prange", line, lo=lo, hi=hi, incl=incl)
            return N("plit", line, e=lo)
        if self.eat("ref"):
            mut = self.eat("mut")
            return N("pident", line, name=self.ident(), mut=mut, byref=True)
        if self.eat("mut"):
            return N("pident", line, name=self.ident(), mut=True, byref=False)
        # path / ident / tuple-struct / struct pattern
        segs = [self.ident()]
        while self.at("::"):
            self.next(); segs.append(self.ident())
        if self.at("("):
            self.next(); ps = []
            while not self.at(")"):
                if self.at(".."): self.next(); ps.append(N("prest", line))
                else: ps.append(self.parse_pattern())
                if not self.eat(","): break
            self.expect(")")
            return N("ptstruct", line, path=segs, ps=ps)
        if self.at("{"):
            self.next(); fs = []
            while not self.at("}"):
                if self.eat(".."): break
                fn = self.ident()
                fp = self.parse_pattern() if self.eat(":") else N("pident", line, name=fn, mut=False, byref=False)
                fs.append((fn, fp))
                if not self.eat(","): break
            self.expect("}")
            return N("pstruct", line, path=segs, fs=fs)
        if len(segs) == 1 and segs[0][0].islower() or (len(segs) == 1 and segs[0] == "_"):
            if self.eat("@"):
                sub = self.parse_pattern1()
                return N("pbind", line, name=segs[0], p=sub)
            return N("pident", line, name=segs[0], mut=False, byref=False)
        return N("ppath", line, path=segs)

    def parse_lit_pattern(self):
        line = self.peek().line
        if self.eat("-"):
            e = self.parse_lit_pattern()
            return N("unary", line, op="-", e=e)
        t = self.next()
        if t.k == "num": return N("num", line, v=t.v[0], suffix=t.v[1])
        if t.k in ("str", "bstr", "char", "bchar"): return N(t.k, line, v=t.v)
        if t.k == "kw" and t.v in ("true", "false"): return N("bool", line, v=t.v == "true")
        raise ParseError(f"line {line}: bad literal pattern {t.v!r}")

    # -- expressions
    def parse_expr(self, nostruct=False):
        return self.parse_assign(nostruct)

    def parse_assign(self, nostruct):
        line = self.peek().line
        lhs = self.parse_range(nostruct)
        t = self.peek()
        if t.k == "p" and t.v in ASSIGN_OPS:
            self.next()
            rhs = self.parse_assign(nostruct)
            return N("assign", line, op=t.v, l=lhs, r=rhs)
        return lhs

    def parse_range(self, nostruct):
        line = self.peek().line
        if self.at("..") or self.at("..="):
            incl = self.next().v == "..="
            hi = None
            if self.starts_expr(): hi = self.parse_bin(0, nostruct)
            return N("range", line, lo=None, hi=hi, incl=incl)
        lo = self.parse_bin(0, nostruct)
        if self.at("..") or self.at("..="):
            incl = self.next().v == "..="
            hi = None
            if self.starts_expr(nostruct): hi = self.parse_bin(0, nostruct)
            return N("range", line, lo=lo, hi=hi, incl=incl)
        return lo

    def starts_expr(self, nostruct=False):
        t = self.peek()
        if t.k in ("id", "num", "str", "bstr", "char", "bchar"): return True
        if t.k == "kw": return t.v in ("self", "Self", "true", "false", "if", "match", "crate", "super")
        if t.k == "p": return t.v in ("(", "[", "-", "!", "&", "*") or (t.v == "{" and not nostruct)
        return False

    def parse_bin(self, minprec, nostruct):
        lhs = self.parse_unary(nostruct)
        while True:
            t = self.peek()
            if t.k == "kw" and t.v == "as":
                self.next()
                ty = self.parse_type()
                lhs = N("cast", t.line, e=lhs, t=ty)
                continue
            if t.k != "p" or t.v not in BINPREC: break
            prec = BINPREC[t.v]
            if prec < minprec or prec == minprec and minprec > 0 and False: break
            if prec <= minprec - 1: break
            if prec < minprec: break
            self.next()
            rhs = self.parse_bin(prec + 1, nostruct)
            lhs = N("bin", t.line, op=t.v, l=lhs, r=rhs)
        return lhs

    def parse_unary(self, nostruct):
        t = self.peek(); line = t.line
        if self.eat("-"): return N("unary", line, op="-", e=self.parse_unary(nostruct))
        if self.eat("!"): return N("unary", line, op="!", e=self.parse_unary(nostruct))
        if self.eat("*"): return N("deref", line, e=self.parse_unary(nostruct))
        if self.at("&") or self.at("&&"):
            two = self.next().v == "&&"
            mut = self.eat("mut")
            e = N("ref", line, mut=mut, e=self.parse_unary(nostruct))
            return N("ref", line, mut=False, e=e) if two else e
        e = self.parse_postfix(nostruct)
        # `as` binds tighter than binary operators but looser than unary; handled in parse_bin
        return e

    def parse_generic_args(self):
        """after `::` when next is `<` (turbofish)"""
        self.expect("<")
        args = []
        while True:
            self.split_shr()
            if self.at(">"): break
            if self.peek().k == "lifetime": self.next()
            else: args.append(self.parse_type())
            if not self.eat(","): break
        self.split_shr()
        self.expect(">")
        return args

    def parse_args(self):
        self.expect("(")
        args = []
        while not self.at(")"):
            args.append(self.parse_expr())
            if not self.eat(","): break
        self.expect(")")
        return args

    def parse_postfix(self, nostruct):
        e = self.parse_primary(nostruct)
        while True:
            t = self.peek(); line = t.line
            if self.at("?"):
                self.next(); e = N("try", line, e=e); continue
            if self.at("("):
                e = N("call", line, f=e, args=self.parse_args()); continue
            if self.at("["):
                self.next(); idx = self.parse_expr(); self.expect("]")
                e = N("index", line, e=e, i=idx); continue
            if self.at("."):
                nt = self.peek(1)
                if nt.k == "num":
                    self.next(); self.next()
                    txt = nt.v[0]
                    for part in txt.split("."):
                        e = N("tfield", line, e=e, i=int(part))
                    continue
                if nt.k == "id" or (nt.k == "kw" and nt.v in ("await",)):
                    self.next(); name = self.next().v
                    targs = []
                    if self.at("::") and self.at("<", 1):
                        self.next(); targs = self.parse_generic_args()
                    if self.at("("):
                        e = N("mcall", line, recv=e, name=name, targs=targs, args=self.parse_args())
                    else:
                        e = N("field", line, e=e, name=name)
                    continue
            break
        return e

    def parse_block(self):
        line = self.peek().line
        self.expect("{")
        stmts = []
        tail = None
        while not self.at("}"):
            if self.peek().k == "eof": raise ParseError("eof in block")
            self.skip_attrs()
            if self.eat(";"): continue
            if self.at("let"):
                stmts.append(self.parse_let()); continue
            if self.at("use") or self.at("const") or self.at("static") or (self.at("fn")) or self.at("struct") or self.at("enum"):
                it = self.parse_item()
                if it is not None: stmts.append(N("item", line, item=it))
                continue
            e = self.parse_expr()
            if self.eat(";"):
                stmts.append(N("expr", e["line"], e=e, semi=True))
            elif self.at("}"):
                tail = e
            else:
                # block-like expression statement without semicolon
                if e["k"] in ("if", "iflet", "match", "for", "while", "whilelet", "loop", "block", "unsafe"):
                    stmts.append(N("expr", e["line"], e=e, semi=False))
                elif e["k"] == "macro":
                    stmts.append(N("expr", e["line"], e=e, semi=True))
                else:
                    t = self.peek()
                    raise ParseError(f"line {t.line}: expected ';' or '}}', found {t.v!r}")
        self.expect("}")
        return N("block", line, stmts=stmts, tail=tail)

    def parse_let(self):
        line = self.peek().line
        self.expect("let")
        pat = self.parse_pattern()
        ty = None
        if self.eat(":"): ty = self.parse_type()
        init = None
        els = None
        if self.eat("="):
            init = self.parse_expr()
            if self.at("else"):
                self.next(); els = self.parse_block()
        self.expect(";")
        return N("let", line, pat=pat, ty=ty, init=init, els=els)

    def parse_primary(self, nostruct):
        t = self.peek(); line = t.line
        if t.k == "num":
            self.next(); return N("num", line, v=t.v[0], suffix=t.v[1])
        if t.k in ("str", "bstr", "char", "bchar"):
            self.next(); return N(t.k, line, v=t.v)
        if t.k == "kw" and t.v in ("true", "false"):
            self.next(); return N("bool", line, v=t.v == "true")
        if self.at("("):
            self.next()
            if self.eat(")"): return N("tuple", line, es=[])
            e = self.parse_expr()
            if self.eat(")"): return N("paren", line, e=e)
            es = [e]
            while self.eat(","):
                if self.at(")"): break
                es.append(self.parse_expr())
            self.expect(")")
            return N("tuple", line, es=es)
        if self.at("["):
            self.next()
            if self.eat("]"): return N("array", line, es=[])
            e = self.parse_expr()
            if self.eat(";"):
                n = self.parse_expr(); self.expect("]")
                return N("arrayrep", line, e=e, n=n)
            es = [e]
            while self.eat(","):
                if self.at("]"): break
                es.append(self.parse_expr())
            self.expect("]")
            return N("array", line, es=es)
        if self.at("{"):
            return self.parse_block()
        if self.eat("unsafe"):
            return N("unsafe", line, b=self.parse_block())
        if self.at("if"):
            return self.parse_if()
        if self.eat("match"):
            scrut = self.parse_expr(nostruct=True)
            self.expect("{")
            arms = []
            while not self.at("}"):
                self.skip_attrs()
                self.eat("|")
                pat = self.parse_pattern()
                guard = None
                if self.eat("if"): guard = self.parse_expr()
                self.expect("=>")
                body = self.parse_expr()
                arms.append(N("arm", pat["line"], pat=pat, guard=guard, body=body))
                if not self.eat(","):
                    if body["k"] in ("block", "if", "iflet", "match") and not self.at("}"): continue
                    break
            self.expect("}")
            return N("match", line, e=scrut, arms=arms)
        if self.eat("while"):
            if self.eat("let"):
                pat = self.parse_pattern(); self.expect("=")
                e = self.parse_expr(nostruct=True)
                return N("whilelet", line, pat=pat, e=e, body=self.parse_block())
            c = self.parse_expr(nostruct=True)
            return N("while", line, c=c, body=self.parse_block())
        if self.eat("loop"):
            return N("loop", line, body=self.parse_block())
        if self.eat("for"):
            pat = self.parse_pattern()
            self.expect("in")
            it = self.parse_expr(nostruct=True)
            return N("for", line, pat=pat, it=it, body=self.parse_block())
        if self.eat("return"):
            e = None
            if self.starts_expr() : e = self.parse_expr()
            return N("return", line, e=e)
        if self.eat("break"):
            if self.peek().k == "lifetime": self.next()
            e = None
            if self.starts_expr(): e = self.parse_expr()
            return N("break", line, e=e)
        if self.eat("continue"):
            if self.peek().k == "lifetime": self.next()
            return N("continue", line)
        if self.at("move") or self.at("|") or self.at("||"):
            self.eat("move")
            params = []
            if self.eat("||"): pass
            else:
                self.expect("|")
                while not self.at("|"):
                    p = self.parse_pattern1()
                    ty = None
                    if self.eat(":"): ty = self.parse_type()
                    params.append((p, ty))
                    if not self.eat(","): break
                self.expect("|")
            if self.eat("->"):
                self.parse_type()
                body = self.parse_block()
            else:
                body = self.parse_expr()
            return N("closure", line, params=params, body=body)
        if t.k == "lifetime":
            self.next(); self.expect(":")
            return self.parse_primary(nostruct)
        # path expression
        if t.k == "id" or (t.k == "kw" and t.v in ("self", "Self", "crate", "super")) or self.at("::") or self.at("<"):
            if self.at("<"):
                # qualified path <T as Trait>::name
                self.next(); self.parse_type()
                if self.eat("as"): self.parse_type()
                self.split_shr(); self.expect(">")
                segs = ["<qual>"]
            else:
                self.eat("::")
                segs = [self.ident()]
            targs = []
            while self.at("::"):
                if self.at("<", 1):
                    self.next(); targs = self.parse_generic_args(); continue
                self.next(); segs.append(self.ident())
            if self.at("!") and not self.at("!=") and len(segs) == 1 and self.peek(1).k == "p" and self.peek(1).v in "([{":
                self.next()
                return self.parse_macro(segs[0], line)
            if self.at("{") and not nostruct and (segs[-1][0].isupper()):
                # struct literal
                save = self.i
                try:
                    self.next(); fs = []; base = None
                    while not self.at("}"):
                        self.skip_attrs()
                        if self.eat(".."):
                            base = self.parse_expr(); break
                        fn = self.ident()
                        if self.eat(":"): fe = self.parse_expr()
                        else: fe = N("path", line, segs=[fn], targs=[])
                        fs.append((fn, fe))
                        if not self.eat(","): break
                    self.expect("}")
                    return N("struct", line, path=segs, fs=fs, base=base)
                except ParseError:
                    self.i = save
            return N("path", line, segs=segs, targs=targs)
        raise ParseError(f"line {line}: unexpected token {t.v!r} in expression")

    def parse_if(self):
        line = self.peek().line
        self.expect("if")
        if self.eat("let"):
            pat = self.parse_pattern()
            self.expect("=")
            e = self.parse_expr(nostruct=True)
            then = self.parse_block()
            els = None
            if self.eat("else"):
                els = self.parse_if() if self.at("if") else self.parse_block()
            return N("iflet", line, pat=pat, e=e, then=then, els=els)
        c = self.parse_expr(nostruct=True)
        then = self.parse_block()
        els = None
        if self.eat("else"):
            els = self.parse_if() if self.at("if") else self.parse_block()
        return N("if", line, c=c, then=then, els=els)

    def parse_macro(self, name, line):
        open_ = self.peek().v
        close = {"(": ")", "[": "]", "{": "}"}[open_]
        if name in ("assert", "assert_eq", "assert_ne", "debug_assert", "debug_assert_eq", "vec", "matches"):
            self.next()
            if name == "vec":
                if self.at(close):
                    self.next(); return N("macro", line, name=name, args=[], rep=None)
                e = self.parse_expr()
                if self.eat(";"):
                    n = self.parse_expr(); self.expect(close)
                    return N("macro", line, name=name, args=[e], rep=n)
                es = [e]
                while self.eat(","):
                    if self.at(close): break
                    es.append(self.parse_expr())
                self.expect(close)
                return N("macro", line, name=name, args=es, rep=None)
            if name == "matches":
                e = self.parse_expr(); self.expect(",")
                p = self.parse_pattern(); self.eat(",")
                self.expect(close)
                return N("macro", line, name=name, args=[e], pat=p)
            nargs = 1 if name in ("assert", "debug_assert") else 2
            args = []
            for k in range(nargs):
                args.append(self.parse_expr())
                if not self.eat(","): break
            # message arguments: skip to the closing delimiter
            depth = 0
            while True:
                if self.peek().k == "eof": raise ParseError("eof in macro")
                if self.at(close) and depth == 0: break
                t = self.peek()
                if t.k == "p" and t.v in "([{": self.skip_balanced(); continue
                self.next()
            self.expect(close)
            return N("macro", line, name=name, args=args)
        # opaque macro: remember the raw tokens (used for log-level macros and format!)
        start = self.i
        self.skip_balanced()
        raw = self.toks[start + 1:self.i - 1]
        return N("macro", line, name=name, args=None, raw=raw)

    # -- items
    def parse_item(self):
        attrs = self.skip_attrs()
        line = self.peek().line
        vis = False
        if self.eat("pub"):
            vis = True
            if self.at("("): self.skip_balanced()
        if self.at("static"):
            # `static NAME: T = expr;` is treated like a `const`
            self.next(); self.eat("mut")
            name = self.ident()
            self.expect(":")
            ty = self.parse_type()
            self.expect("=")
            e = self.parse_expr()
            self.expect(";")
            return N("const", line, name=name, ty=ty, e=e)
        if self.at("use") or self.at("mod") or self.at("type") or self.at("extern"):
            if self.at("mod"):
                # mod name; | mod name { ... }
                self.next(); name = self.ident()
                if self.eat(";"): return None
                cfgtest = any("cfg(test)" in a.replace(" ", "") for a in attrs)
                if cfgtest:
                    self.skip_balanced(); return None
                self.expect("{")
                items = []
                while not self.at("}"):
                    it = self.parse_item()
                    if it is not None: items.append(it)
                self.expect("}")
                return N("mod", line, name=name, items=items)
            while not self.at(";"):
                if self.peek().k == "eof": return None
                t = self.peek()
                if t.k == "p" and t.v in "([{": self.skip_balanced()
                else: self.next()
            self.next()
            return None
        if self.at("const"):
            if self.at("fn", 1):
                self.next()
            else:
                self.next()
                name = self.ident() if not self.at("_") else (self.next() and "_")
                self.expect(":")
                ty = self.parse_type()
                self.expect("=")
                e = self.parse_expr()
                self.expect(";")
                return N("const", line, name=name, ty=ty, e=e)
        self.eat("unsafe")
        if self.at("fn"):
            return self.parse_fn(attrs, vis)
        if self.eat("struct"):
            name = self.ident()
            if self.at("<"): self.parse_generic_params()
            fields = []
            if self.eat(";"): return N("structdef", line, name=name, fields=[], tuple=False)
            if self.at("("):
                self.next()
                while not self.at(")"):
                    self.skip_attrs(); self.eat("pub")
                    if self.at("("): self.skip_balanced()
                    fields.append((str(len(fields)), self.parse_type()))
                    if not self.eat(","): break
                self.expect(")"); self.eat(";")
                return N("structdef", line, name=name, fields=fields, tuple=True)
            if self.at("where"):
                while not self.at("{"): self.next()
            self.expect("{")
            while not self.at("}"):
                self.skip_attrs()
                if self.eat("pub"):
                    if self.at("("): self.skip_balanced()
                fn = self.ident(); self.expect(":")
                fields.append((fn, self.parse_type()))
                if not self.eat(","): break
            self.expect("}")
            return N("structdef", line, name=name, fields=fields, tuple=False)
        if self.eat("enum"):
            name = self.ident()
            if self.at("<"): self.parse_generic_params()
            self.expect("{")
            variants = []
            while not self.at("}"):
                self.skip_attrs()
                vn = self.ident()
                payload = None
                if self.at("(") or self.at("{"):
                    self.skip_balanced(); payload = True
                disc = None
                if self.eat("="): disc = self.parse_expr()
                variants.append((vn, payload, disc))
                if not self.eat(","): break
            self.expect("}")
            return N("enumdef", line, name=name, variants=variants)
        if self.eat("impl"):
            if self.at("<"): self.parse_generic_params()
            t1 = self.parse_type()
            trait = None
            if self.eat("for"):
                trait = t1; t1 = self.parse_type()
            if self.at("where"):
                while not self.at("{"): self.next()
            self.expect("{")
            items = []
            while not self.at("}"):
                it = self.parse_item()
                if it is not None: items.append(it)
            self.expect("}")
            return N("impl", line, ty=t1, trait=trait, items=items)
        if self.eat("trait"):
            self.ident()
            while not self.at("{"): self.next()
            self.skip_balanced()
            return None
        if self.peek().k == "id" and self.at("!", 1):
            # item-level macro invocation
            self.next(); self.next()
            if self.at_id(): self.next()
            self.skip_balanced(); self.eat(";")
            return None
        t = self.peek()
        raise ParseError(f"line {t.line}: unexpected token {t.v!r} at item level")

    def parse_generic_params(self):
        self.expect("<")
        depth = 1
        while depth:
            self.split_shr()
            t = self.next()
            if t.k == "p" and t.v == "<": depth += 1
            elif t.k == "p" and t.v == ">": depth -= 1
            elif t.k == "eof": raise ParseError("eof in generics")

    def parse_fn(self, attrs, vis):
        line = self.peek().line
        self.expect("fn")
        name = self.ident()
        if self.at("<"): self.parse_generic_params()
        self.expect("(")
        params = []
        selfk = None
        while not self.at(")"):
            self.skip_attrs()
            pl = self.peek().line
            # self forms
            if self.at("self") or (self.at("&") and (self.at("self", 1) or (self.at("mut", 1) and self.at("self", 2)) or (self.peek(1).k == "lifetime"))) or (self.at("mut") and self.at("self", 1)):
                if self.eat("&"):
                    if self.peek().k == "lifetime": self.next()
                    selfk = "refmut" if self.eat("mut") else "ref"
                else:
                    selfk = "mutval" if self.eat("mut") else "val"
                self.expect("self")
                if self.eat(":"): self.parse_type()
            else:
                pat = self.parse_pattern1()
                self.expect(":")
                ty = self.parse_type()
                params.append(N("param", pl, pat=pat, ty=ty))
            if not self.eat(","): break
        self.expect(")")
        ret = None
        if self.eat("->"): ret = self.parse_type()
        if self.at("where"):
            while not self.at("{") and not self.at(";"): self.next()
        if self.eat(";"):
            return N("fn", line, name=name, params=params, selfk=selfk, ret=ret, body=None, attrs=attrs, vis=vis, error=None)
        start = self.i
        try:
            body = self.parse_block()
            err = None
        except ParseError as e:
            self.i = start
            self.skip_balanced()
            body, err = None, str(e)
        return N("fn", line, name=name, params=params, selfk=selfk, ret=ret, body=body, attrs=attrs, vis=vis, error=err,
                 endline=self.toks[self.i - 1].line)

    def parse_file(self):
        items = []
        self.skip_inner_attrs()
        while self.peek().k != "eof":
            it = self.parse_item()
            if it is not None: items.append(it)
        return items

    def skip_inner_attrs(self):
        while self.at("#") and self.at("!", 1):
            self.next(); self.next(); self.skip_balanced()


def parse_file(path):
    with open(path) as f:
        src = f.read()
    return Parser(src).parse_file()


def collect_fns(items, prefix=None, out=None):
    """flat map  'Type::name' / 'name'  -> fn node ; also structs/consts/enums"""
    out = out if out is not None else {"fn": {}, "struct": {}, "const": {}, "enum": {}}
    for it in items:
        k = it["k"]
        if k == "fn":
            key = f"{prefix}::{it['name']}" if prefix else it["name"]
            out["fn"][key] = it
        elif k == "impl":
            ty = it["ty"]
            tn = ty["segs"][-1][0] if ty["k"] == "tpath" else "?"
            if it["trait"] is not None:
                tr = it["trait"]
                trn = tr["segs"][-1][0] if tr["k"] == "tpath" else "?"
                collect_fns(it["items"], f"{tn}@{trn}", out)
            else:
                collect_fns(it["items"], tn, out)
        elif k == "structdef": out["struct"][it["name"]] = it
        elif k == "const": out["const"][(f"{prefix}::" if prefix else "") + it["name"]] = it
        elif k == "enumdef": out["enum"][it["name"]] = it
        elif k == "mod": collect_fns(it["items"], prefix, out)
    return out


if __name__ == "__main__":
    import sys, json
    for p in sys.argv[1:]:
        items = parse_file(p)
        c = collect_fns(items)
        for name, f in c["fn"].items():
            print(p, name, "ERROR " + f["error"] if f["error"] else "ok")

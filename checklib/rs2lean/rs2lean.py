#!/usr/bin/env python3
"""
rs2lean: regenerate Lean definitions from /repo's Rust sources.

  rs2lean.py [--repo /repo] [--out /verif/lean/Rough/Generated/Src] [--report FILE]

For every module listed in SPEC["modules"] the named functions (and the structs / constants they use) are translated
by emit.Emitter into `<out>/<Module>.lean`.  A function that leaves the supported subset does not abort the run:
it is emitted as a comment and listed in the report (`untranslatable`), which the orchestrator treats as a failed
proof obligation of the properties that depend on the module (the bridge theorem about it can no longer be checked).
"""
import sys, os, json, argparse, re

HERE = os.path.dirname(os.path.abspath(__file__))
sys.path.insert(0, HERE)
import rsparse
from emit import Emitter, Crate, Unsupported, indent, lname

SPEC = {
    # Rust type name -> Lean type (hand model types reused by the generated code)
    "types": {"Tag": "Tag", "Version": "Version", "Error": "Unit", "KmsProtection": "Gen.KmsProtection",
              "Data": "Bytes", "Hash": "Bytes", "Nonce": "Bytes", "MsgVerifier": "Verifier",
              "MsgSigner": "Signer", "SystemTime": "Rs.Time", "Duration": "Rs.Time", "SocketAddr": "Nat",
              "ServerStats": "(List Stats.Event)", "UdpSocket": "Gen.Sock", "Grease": "Gen.GreaseQ",
              "KmsProvider": "Envelope.Kms", "KmsError": "Unit", "ServerConfig": "Config.Cfg", "IpAddr": "Nat",
              "SmallRng": "Gen.Tape", "Bernoulli": "Nat", "Pathologies": "Gen.Pathology",
              "StatsQueue": "(List (List Gen.ClientStats))", "Instant": "Unit",
              "TcpListener": "Unit", "TcpStream": "Unit", "Poll": "Gen.Poll", "Events": "(List Nat)", "Token": "Nat", "Event": "Nat",
              "Timer": "(List Rs.Time)", "Shutdown": "Unit", "PathBuf": "String", "NonZeroUsize": "Nat",
              "YamlDoc": "Gen.YamlDoc", "Yaml": "Gen.Yaml", "YamlDocs": "(List Gen.YamlDoc)", "File": "Unit", "OptString": "(Option String)", "Thread": "Unit"},
    # translated structs (fields of other types must be listed under skip_fields)
    "structs": {
        "RtMessage": {},
        "MerkleTree": {"skip_fields": ["algorithm"]},
        "ResponseHandler": {},
        "ParsedResponse": {},
        "TagData": {},
        "VersionData": {},
        "ClientStats": {},
        "Grease": {},
        "AggregatedStats": {"skip_fields": ["empty_map"]},
        "PerClientStats": {},
        "Reporter": {"skip_fields": ["next_update", "report_interval", "output_location"]},
        "EnvironmentConfig": {},
        "FileConfig": {},
        "MsgSigner": {},
        "MsgVerifier": {},
        "OnlineKey": {},
        "LongTermKey": {},
        "Responder": {"skip_fields": ["thread_id", "long_term_public_key"]},
        # extra_fields: ghost state of the environment that has no Rust field of its own (see Gen/ServerExt.lean):
        #   tcp            the health-check listener's accept queue and what happened to accepted connections
        #   recorder_kind  which ServerStats implementation the Box holds (none = aggregated, some limit = per-client)
        "Server": {"derive": "Inhabited", "skip_fields": ["fake_client_socket"],
                   "extra_fields": [("tcp", "Gen.Tcp"), ("recorder_kind", "(Option Nat)")]},
    },
    "variants": {
        "Tag::*": "Tag.{v}",
        "Version::Google": "Version.google",
        "KmsProtection::Plaintext": "true",
        "ErrorKind::WouldBlock": "Gen.ErrorKind.wouldBlock",
        "Pathologies::RandomlyOrderTags": "Gen.Pathology.randomlyOrderTags",
        "Pathologies::CorruptResponseSignature": "Gen.Pathology.corruptResponseSignature",
        "Version::RfcDraft13": "Version.ietf",
        "Shutdown::Both": "()",
    },
    # calls that are not translated but mapped onto the hand model / prelude.
    #   lean: template ({self}, {0}, {1}…);  result: the Rust function returns Result;  monadic: template is a Res term
    "externs": {
        "Tag::from_wire": {"lean": "(Rs.ofOpt (Tag.ofWire {0}))", "result": True, "ret_rust": "Tag"},
        "Tag::wire_value": {"lean": "(Tag.wire {self})", "ret_rust": "bytes"},
        "Tag::is_nested": {"lean": "(Tag.isNested {self})"},
        "Version::wire_bytes": {"lean": "(Version.wire {self})"},
        "Version::dele_prefix": {"lean": "(Version.delePrefix {self})"},
        "Version::sign_prefix": {"lean": "(Version.srepPrefix {self})"},
        # hashing is a parameter of the Merkle model: (tweak-prefixed) SHA-512 truncated to the node width
        # ring::digest: SHA-512 is the module parameter `H`; `Context` is the byte string fed so far
        "Algorithm::output_len": {"lean": "64"},
        # src/sign.rs MsgVerifier (ed25519-dalek) is the hand model's `Verifier` over the abstract scheme `S`
        "MsgVerifier::new": {"lean": "(Verifier.new S {0})", "monadic": True, "ret_rust": "MsgVerifier"},
        "MsgVerifier::update": {"lean": "(Verifier.update {self} {0})", "mutates": True},
        "MsgVerifier::verify": {"lean": "(Verifier.verify S {self} {0})", "monadic": True},
        # src/sign.rs MsgSigner is the hand model's `Signer` (seed + buffer) over the abstract scheme `S`
        "MsgSigner::from_seed": {"lean": "(Signer.fromSeed {0})", "monadic": True, "ret_rust": "MsgSigner"},
        "MsgSigner::update": {"lean": "(Signer.update {self} {0})", "mutates": True},
        "MsgSigner::sign": {"lean": "(Signer.sign S {self}).2", "res": "(Signer.sign S {self}).1", "mutates": True},
        "MsgSigner::public_key_bytes": {"lean": "(Signer.publicKey S {self})"},
        # ed25519-dalek behind src/sign.rs, inside the translated sign.rs itself: keys are their byte strings, the
        # scheme is the parameter `S`
        "SecretKey::try_from": {"lean": "(Rs.tryIntoArray {0} 32)", "result": True, "ret_rust": "SecretKey"},
        "SigningKey::from": {"lean": "{0}", "ret_rust": "SigningKey"},
        "SigningKey::sign": {"lean": "(S.sign {self} {0})"},
        "SigningKey::verifying_key": {"lean": "(S.pk {self})", "ret_rust": "VerifyingKey"},
        "VerifyingKey::from_bytes": {"lean": "(if S.pkValid {0} = true then Res.ok {0} else Res.err)", "result": True, "ret_rust": "VerifyingKey"},
        "VerifyingKey::verify": {"lean": "(if S.verify {self} {0} {1} = true then Res.ok () else Res.err)", "result": True},
        "Signature::from_slice": {"lean": "(Rs.tryIntoArray {0} 64)", "result": True, "ret_rust": "Signature"},
        # ring::aead and the key-management provider behind src/kms/envelope.rs: the model's abstract `Aead` / `Kms`
        "KmsProvider::decrypt_dek": {"lean": "(Rs.ofOpt (Envelope.Kms.unwrap {self} {0}))", "result": True},
        "KmsProvider::encrypt_dek": {"lean": "(Rs.ofOpt (Envelope.Kms.wrap {self} {0}))", "result": True},
        "Nonce::assume_unique_for_key": {"lean": "{0}", "ret_rust": "Nonce"},
        "UnboundKey::new": {"lean": "(Rs.tryIntoArray {1} 32)", "result": True, "ret_rust": "UnboundKey"},
        "LessSafeKey::new": {"lean": "{0}", "ret_rust": "LessSafeKey"},
        "Aad::from": {"lean": "(strBytes {0})"},
        "LessSafeKey::open_in_place": {"lean": "(Rs.ofOpt (A.openF {self} {0} {1} {2}))", "result": True},
        # the `ServerConfig` trait object of config/mod.rs is the model's `Config.Cfg` record; the file system is `fs`
        "ServerConfig::port": {"lean": "{self}.port"},
        "ServerConfig::interface": {"lean": "{self}.interface"},
        "ServerConfig::seed": {"lean": "{self}.seed"},
        "ServerConfig::kms_protection": {"lean": "{self}.kmsPlain"},
        "ServerConfig::batch_size": {"lean": "{self}.batchSize"},
        "ServerConfig::fault_percentage": {"lean": "{self}.faultPct"},
        "ServerConfig::num_workers": {"lean": "{self}.numWorkers"},
        "ServerConfig::client_stats_enabled": {"lean": "{self}.clientStats"},
        "ServerConfig::persistence_directory": {"lean": "{self}.persistDir"},
        "ServerConfig::udp_socket_addr": {"lean": "(if Config.isIpv4 {self}.interface = true then Res.ok () else Res.err)", "result": True},
        "PathBuf::is_dir": {"lean": "(fs.isDir {self})"},
        "PathBuf::metadata": {"lean": "(if fs.pathExists {self} = true then Res.ok {self} else Res.err)", "result": True, "ret_rust": "Metadata"},
        "Metadata::permissions": {"lean": "{self}", "ret_rust": "Permissions"},
        "Permissions::readonly": {"lean": "(fs.readonly {self})"},
        "PathBuf::display": {"lean": "{self}"},
        # rand behind src/grease.rs: the generator is a tape of draws (Rough/Gen/ServerExt.lean)
        "SmallRng::from_entropy": {"lean": "tape"},
        "Bernoulli::from_ratio": {"lean": "{0}", "ret_rust": "Bernoulli"},
        "SmallRng::sample": {"lean": "(Gen.Tape.sample {self}).2", "res": "(Gen.Tape.sample {self}).1", "mutates": True},
        "SmallRng::fill_bytes": {"lean": "(Gen.Tape.fillBytes {self} {0}).2", "mutates": True, "mut_args": {"0": "(Gen.Tape.fillBytes {self} {0}).1"}},
        "Slice::choose": {"lean": "(Gen.Tape.choose {self} {0}).1", "mut_args": {"0": "(Gen.Tape.choose {self} {0}).2"}},
        "index_sample": {"lean": "(Gen.Tape.indexSample {0} {1} {2}).1", "mut_args": {"0": "(Gen.Tape.indexSample {0} {1} {2}).2"}},
        "Utc::now": {"lean": "()", "ret_rust": "UtcNow"},
        "UtcNow::timestamp": {"lean": "(0 : Int)"},
        "SystemTime::duration_since": {"lean": "(Rs.durationSinceEpoch {self})", "result": True, "ret_rust": "Duration"},
        "Version::supported_versions_wire": {"lean": "Version.supportedWire"},
        # environment of send_responses (Rough/Gen/ServerExt.lean): clock reading, socket, fault injector, statistics
        "SystemTime::now": {"lean": "(Gen.Sock.now socket)"},
        "UdpSocket::recv_from": {"lean": "(Gen.Sock.recvFrom {self} {0}).2.1", "res": "(Gen.Sock.recvFrom {self} {0}).1", "mutates": True,
                                 "result": True, "mut_args": {"0": "(Gen.Sock.recvFrom {self} {0}).2.2"}},
        "ErrorValue::kind": {"lean": "Gen.ErrorKind.wouldBlock"},
        "ServerStats::add_ietf_request": {"lean": "({self} ++ [({ kind := Stats.Kind.ietfReq, addr := {0}, bytes := 0 } : Stats.Event)])", "mutates": True},
        "ServerStats::add_classic_request": {"lean": "({self} ++ [({ kind := Stats.Kind.classicReq, addr := {0}, bytes := 0 } : Stats.Event)])", "mutates": True},
        "ServerStats::add_invalid_request": {"lean": "({self} ++ [({ kind := Stats.Kind.invalidReq, addr := {0}, bytes := 0 } : Stats.Event)])", "mutates": True},
        "Encoding::encode": {"lean": "(hexOf {0})"},
        # process_events: mio Poll, the health-check listener (calls on the listener / an accepted stream act on the ghost
        # field `tcp`), the statistics timer and queue
        "Poll::poll": {"lean": "(Gen.Poll.poll {self})", "result": True, "mut_args": {"0": "({self}).ready"}},
        "Event::token": {"lean": "{self}"},
        "Token": {"lean": "{0}"},
        "TcpListener::accept": {"recv_place": "self.tcp", "lean": "(Gen.Tcp.accept {self}).2", "res": "(Gen.Tcp.accept {self}).1", "mutates": True, "result": True},
        "TcpStream::write_all": {"recv_place": "self.tcp", "lean": "(Gen.Tcp.writeAll {self} {0}).2", "res": "(Gen.Tcp.writeAll {self} {0}).1", "mutates": True, "result": True},
        "TcpStream::shutdown": {"recv_place": "self.tcp", "lean": "(Gen.Tcp.shutdown {self}).2", "res": "(Gen.Tcp.shutdown {self}).1", "mutates": True, "result": True},
        "ServerStats::iter": {"lean": "(Gen.statsIter self.recorder_kind {self})"},
        "ServerStats::clear": {"lean": "([] : List Stats.Event)", "mutates": True},
        "ServerStats::add_health_check": {"lean": "({self} ++ [({ kind := Stats.Kind.healthCheck, addr := {0}, bytes := 0 } : Stats.Event)])", "mutates": True},
        "StatsQueue::force_push": {"lean": "({self} ++ [{0}])", "mutates": True},
        "Timer::set_timeout": {"lean": "({self} ++ [{0}])", "mutates": True},
        # the jitter (thread_rng) of the re-arm delay is not modelled: the delay is the base period
        "Server::compute_delay": {"lean": "{0}"},
        "Instant::elapsed": {"lean": "()"},
        "Duration::from_millis": {"lean": "(⟨{0} / 1000, ({0} % 1000) * 1000000⟩ : Rs.Time)", "ret_rust": "Duration"},
        # configuration loaders: the process environment is the module parameter ENV (name, value), the number of CPUs NCPU;
        # `str::parse::<T>()` / `T::try_from(i64)` take T from the context (the place the value is assigned to)
        "env::var": {"lean": "(Gen.envVar ENV {0})", "result": True, "ret_rust": "String"},
        "str::parse": {"by_type": {"u16": "(Rs.ofOpt (Config.parseUnsigned 16 {self}))", "u8": "(Rs.ofOpt (Config.parseUnsigned 8 {self}))",
                                   "usize": "(Rs.ofOpt (Config.parseUnsigned 64 {self}))", "u64": "(Rs.ofOpt (Config.parseUnsigned 64 {self}))",
                                   "u32": "(Rs.ofOpt (Config.parseUnsigned 32 {self}))",
                                   "KmsProtection": "(Rs.ofOpt ((Config.parseKms {self}).map (·.1)))", "String": "(Res.ok {self})"},
                       "lean": "", "result": True},
        "Encoding::decode": {"lean": "(Rs.ofOpt (Config.hexDecode {0}))", "result": True},
        "thread::available_parallelism": {"lean": "(Res.ok NCPU)", "result": True, "ret_rust": "NonZeroUsize"},
        "NonZeroUsize::get": {"lean": "{self}"},
        "String::make_ascii_lowercase": {"lean": "(Config.lower {self})", "mutates": True},
        "String::to_ascii_lowercase": {"lean": "(Config.lower {self})", "ret_rust": "String"},
        "Duration::from_secs": {"lean": "(⟨{0}, 0⟩ : Rs.Time)", "ret_rust": "Duration", "arg_types": ["u64"]},
        "PathBuf::from": {"lean": "{0}"},
        # FileConfig::new: the parsed YAML documents are the module parameter YAML; a scalar is its source text and
        # yaml-rust's resolution of it is the model's (Config.yamlInt / yamlStr / isFloat)
        "File::open": {"lean": "(Res.ok ())", "result": True, "ret_rust": "File"},
        "File::read_to_string": {"lean": "(Res.ok 0)", "result": True},
        "YamlLoader::load_from_str": {"lean": "(Res.ok YAML)", "result": True, "ret_rust": "YamlDocs"},
        "YamlDoc::as_hash": {"lean": "(some {self})"},
        "Yaml::as_str": {"lean": "(Gen.Yaml.asStr {self})", "ret_rust": "OptString"},
        "Yaml::as_i64": {"lean": "(Gen.Yaml.asI64 {self})"},
        "Yaml::is_real": {"lean": "(Gen.Yaml.isReal {0})"},
        "Yaml::real_text": {"lean": "{0}", "ret_rust": "String"},
        "FileConfig::int_in_range": {"by_type": {"u16": "(Rs.ofOpt (Config.narrow 16 {1}))", "u8": "(Rs.ofOpt (Config.narrow 8 {1}))",
                                                 "usize": "(Rs.ofOpt (Config.narrow 64 {1}))", "u64": "(Rs.ofOpt (Config.narrow 64 {1}))",
                                                 "u32": "(Rs.ofOpt (Config.narrow 32 {1}))"}, "lean": "", "result": True},
        "MsgSigner::new": {"lean": "(Signer.fromSeed ONL)", "result": True, "ret_rust": "MsgSigner"},
        "Grease::new": {"lean": "(({ pending := GQ, cur := Grease.none } : Gen.GreaseQ))"},
        "StatsQueue::pop": {"lean": "({self}).tail", "res": "({self}).head?", "mutates": True},
        "Instant::now": {"lean": "()", "ret_rust": "Instant"},
        "Instant::duration_since": {"lean": "()"},
        "UdpSocket::send_to": {"lean": "(Gen.Sock.sendTo {self} {0} {1}).2", "res": "(Gen.Sock.sendTo {self} {0} {1}).1", "mutates": True, "result": True},
        "Grease::should_add_error": {"lean": "(Gen.GreaseQ.draw {self}).2", "res": "(Gen.GreaseQ.draw {self}).1", "mutates": True},
        "Grease::add_errors": {"lean": "(Gen.GreaseQ.addErrors {self} {0})", "monadic": True},
        "ServerStats::add_classic_response": {"lean": "({self} ++ [({ kind := Stats.Kind.classicResp, addr := {0}, bytes := {1} } : Stats.Event)])", "mutates": True},
        "ServerStats::add_rfc_response": {"lean": "({self} ++ [({ kind := Stats.Kind.rfcResp, addr := {0}, bytes := {1} } : Stats.Event)])", "mutates": True},
        "ServerStats::add_failed_send_attempt": {"lean": "({self} ++ [({ kind := Stats.Kind.failedSend, addr := {0}, bytes := 0 } : Stats.Event)])", "mutates": True},
    },
    "modules": {
        # the two table modules are translated and bridged, but callers keep using the model tables through the
        # externs above (the bridge theorems of Rough/Bridge/Tables.lean justify exactly those externs)
        "Tag": {
            "file": "src/tag.rs",
            "keep_externs": True,
            "functions": {"Tag::data": {}, "Tag::wire_value": {}, "Tag::from_wire": {}, "Tag::is_nested": {}, "Tag::as_string": {}},
        },
        "Sign": {
            "file": "src/sign.rs",
            "keep_externs": True,
            "params": [("S", "SigScheme")],
            "types_override": {"MsgSigner": "Gen.MsgSigner", "MsgVerifier": "Gen.MsgVerifier", "SigningKey": "Bytes",
                               "VerifyingKey": "Bytes", "SecretKey": "Bytes", "Signature": "Bytes"},
            "functions": {"MsgSigner::from_seed": {}, "MsgSigner::update": {}, "MsgSigner::sign": {}, "MsgSigner::public_key_bytes": {},
                          "MsgVerifier::new": {}, "MsgVerifier::update": {}, "MsgVerifier::verify": {}},
        },
        "Envelope": {
            "file": "src/kms/envelope.rs",
            "lean_imports": ["Rough.Model.Envelope"],
            # the AEAD (ring AES-256-GCM) is a parameter; the provider is an argument
            "params": [("A", "Envelope.Aead")],
            "opaque_types": ["AES_256_GCM"],
            "functions": {"vec_zero_filled": {"params": []}, "EnvelopeEncryption::decrypt_seed": {}},
        },
        "StatsCore": {
            "file": "src/stats/mod.rs",
            "keep_externs": True,
            "functions": {"ClientStats::new": {}, "ClientStats::merge": {}},
        },
        "StatsAgg": {
            "file": "src/stats/aggregated.rs",
            "keep_externs": True,
            "imports": ["StatsCore"],
            "functions": {k: {} for k in [
                "AggregatedStats::new", "AggregatedStats@ServerStats::add_ietf_request", "AggregatedStats@ServerStats::add_classic_request",
                "AggregatedStats@ServerStats::add_invalid_request", "AggregatedStats@ServerStats::add_failed_send_attempt",
                "AggregatedStats@ServerStats::add_retried_send_attempt", "AggregatedStats@ServerStats::add_health_check",
                "AggregatedStats@ServerStats::add_rfc_response", "AggregatedStats@ServerStats::add_classic_response",
                "AggregatedStats@ServerStats::total_valid_requests", "AggregatedStats@ServerStats::total_invalid_requests",
                "AggregatedStats@ServerStats::total_health_checks", "AggregatedStats@ServerStats::total_failed_send_attempts",
                "AggregatedStats@ServerStats::total_responses_sent", "AggregatedStats@ServerStats::total_bytes_sent",
                "AggregatedStats@ServerStats::clear"]},
        },
        "StatsPer": {
            "file": "src/stats/per_client.rs",
            "keep_externs": True,
            "imports": ["StatsCore"],
            "functions": {k: {} for k in [
                "PerClientStats::too_many_entries", "PerClientStats::num_overflows",
                "PerClientStats@ServerStats::add_ietf_request", "PerClientStats@ServerStats::add_classic_request",
                "PerClientStats@ServerStats::add_invalid_request", "PerClientStats@ServerStats::add_failed_send_attempt",
                "PerClientStats@ServerStats::add_retried_send_attempt", "PerClientStats@ServerStats::add_health_check",
                "PerClientStats@ServerStats::add_rfc_response", "PerClientStats@ServerStats::add_classic_response",
                "PerClientStats@ServerStats::total_valid_requests", "PerClientStats@ServerStats::total_invalid_requests",
                "PerClientStats@ServerStats::total_health_checks", "PerClientStats@ServerStats::total_failed_send_attempts",
                "PerClientStats@ServerStats::total_responses_sent", "PerClientStats@ServerStats::total_bytes_sent",
                "PerClientStats@ServerStats::total_unique_clients", "PerClientStats@ServerStats::clear"]},
        },
        "Reporter": {
            "file": "src/stats/reporter.rs",
            "keep_externs": True,
            "imports": ["StatsCore"],
            # the queue shared with the workers (crossbeam ArrayQueue) is its content, oldest snapshot first
            "functions": {"Reporter::receive_client_stats": {"fuel": ["self.source_queue.length + 1"]}},
        },
        "Grease": {
            "file": "src/grease.rs",
            "keep_externs": True,
            "imports": ["Message"],
            "lean_imports": ["Rough.Gen.ServerExt"],
            "types_override": {"Grease": "Gen.Grease"},
            "functions": {"Grease::new": {"extra_params": [("tape", "Gen.Tape")]}, "Grease::should_add_error": {}, "Grease::add_errors": {},
                          "Grease::randomly_order_tags": {}, "Grease::corrupt_response_signature": {}},
        },
        "EnvConfig": {
            "file": "src/config/environment.rs",
            "lean_imports": ["Rough.Gen.ConfigExt"],
            "params": [("ENV", "List (String × String)"), ("NCPU", "Nat")],
            "keep_externs": True,
            "functions": dict([("EnvironmentConfig::new", {})] + [("EnvironmentConfig@ServerConfig::" + g, {"params": []}) for g in
                              ["port", "interface", "seed", "batch_size", "status_interval", "kms_protection", "health_check_port",
                               "client_stats_enabled", "persistence_directory", "fault_percentage", "num_workers"]]),
        },
        "FileConfig": {
            "file": "src/config/file.rs",
            "imports": ["EnvConfig"],      # (shares the module-local constant DEFAULT_STATUS_INTERVAL)
            "lean_imports": ["Rough.Gen.ConfigExt"],
            "params": [("YAML", "List Gen.YamlDoc"), ("NCPU", "Nat")],
            "keep_externs": True,
            "functions": dict([("FileConfig::new", {"local_types": {"key": "Yaml", "value": "Yaml", "other": "Yaml", "infile": "File"}})] +
                              [("FileConfig@ServerConfig::" + g, {"params": []}) for g in
                               ["port", "interface", "seed", "batch_size", "status_interval", "kms_protection", "health_check_port",
                                "client_stats_enabled", "persistence_directory", "fault_percentage", "num_workers"]]),
        },
        "Kms": {
            # (the variant of `load_seed` compiled without the awskms / gcpkms features — the last of the three definitions)
            "file": "src/kms/mod.rs",
            "lean_imports": ["Rough.Gen.ConfigExt"],
            "functions": {"load_seed": {}},
        },
        "Config": {
            "file": "src/config/mod.rs",
            "lean_imports": ["Rough.Gen.ConfigExt"],
            "params": [("fs", "Gen.Fs")],
            "functions": {"is_valid_config": {}},
        },
        "Version": {
            "file": "src/version.rs",
            "keep_externs": True,
            "functions": {"Version::data": {}, "Version::wire_bytes": {}, "Version::as_string": {}, "Version::dele_prefix": {},
                          "Version::sign_prefix": {}, "Version::supported_versions_wire": {}},
        },
        "Message": {
            "file": "src/message.rs",
            "functions": {
                "RtMessage::with_capacity": {},
                "RtMessage::from_bytes": {},
                "RtMessage::single_tag_message": {},
                "RtMessage::multi_tag_message": {},
                "RtMessage::add_field": {},
                "RtMessage::get_field": {},
                "RtMessage::num_fields": {},
                "RtMessage::encode_framed": {},
                "RtMessage::encode": {},
                "RtMessage::encoded_size": {},
                "RtMessage::calculate_padding_length": {},
                "RtMessage::into_hash_map": {},
                "RtMessage::clear": {},
                "RtMessage::new_deliberately_invalid": {},
                "RtMessage::tags": {},
                "RtMessage::values": {},
            },
        },
        "Merkle": {
            "file": "src/merkle.rs",
            # SHA-512 (ring::digest) is a parameter of every generated function of this module
            "params": [("H", "Bytes → Bytes")],
            "functions": {
                "MerkleTree::new": {},
                "MerkleTree::new_sha512_ietf": {},
                "MerkleTree::new_sha512_google": {},
                "MerkleTree::push_leaf": {},
                "MerkleTree::get_paths": {"fuel": ["self.levels.length + 1"]},
                "MerkleTree::compute_root": {"fuel": ["node_count"]},
                "MerkleTree::reset": {},
                "MerkleTree::is_empty": {},
                "MerkleTree::hash_leaf": {},
                "MerkleTree::hash_nodes": {},
                "MerkleTree::hash": {},
                "MerkleTree::node_len": {},
                "MerkleTree::root_from_paths": {},
                "MerkleTree::finalize_output": {},
            },
        },
        "Online": {
            "file": "src/key/online.rs",
            "imports": ["Message"],
            "params": [("S", "SigScheme")],
            "functions": {
                # the freshly generated online seed (ring's SystemRandom in `MsgSigner::new`) is the parameter ONL
                "OnlineKey::new": {"params": [("ONL", "Bytes")]},
                "OnlineKey::make_dele": {},
                "OnlineKey::classic_midp": {"checked_u64": True},
                "OnlineKey::rfc_midp": {},
                "OnlineKey::make_srep": {},
            },
        },
        "LongTerm": {
            "file": "src/key/longterm.rs",
            "imports": ["Message", "Online"],
            "params": [("S", "SigScheme"), ("H", "Bytes → Bytes")],
            "functions": {
                "LongTermKey::calc_srv_value": {"params": [("H", "Bytes → Bytes")]},
                "LongTermKey::new": {},
                "LongTermKey::make_cert": {},
                "LongTermKey::public_key": {},
                "LongTermKey::srv_value": {},
            },
        },
        "Responder": {
            "file": "src/responder.rs",
            "imports": ["Message", "Merkle", "Online", "LongTerm"],
            "lean_imports": ["Rough.Gen.ServerExt", "Rough.Model.Config"],
            "params": [("S", "SigScheme"), ("H", "Bytes → Bytes")],
            # log records are formatted lazily: `debug!` arguments are evaluated iff LOG ≥ 4 (error 1 … trace 5)
            "log_param": "LOG",
            "functions": {
                "Responder::send_responses": {"params": [("S", "SigScheme"), ("H", "Bytes → Bytes"), ("LOG", "Nat")]},
                # ONL: the online seed drawn for this responder; GQ: the fault-injection decisions its injector will draw
                "Responder::new": {"params": [("S", "SigScheme"), ("H", "Bytes → Bytes"), ("ONL", "Bytes"), ("GQ", "List Grease")],
                                   # this `let` only feeds a field the translation does not keep (the worker thread's name, for log lines)
                                   "drop_lets": ["thread_id"]},
                "Responder::reset": {},
                "Responder::is_empty": {},
                "Responder::add_classic_request": {},
                "Responder::add_ietf_request": {},
                "Responder::make_response": {},
            },
        },
        "Server": {
            "file": "src/server.rs",
            "imports": ["Message", "Merkle", "Online", "Responder", "Request", "StatsCore"],
            "lean_imports": ["Rough.Gen.ServerExt", "Rough.Gen.StatsExt"],
            "params": [("S", "SigScheme"), ("H", "Bytes → Bytes"), ("LOG", "Nat")],
            "log_param": "LOG",
            "functions": {"Server::collect_requests": {}, "Server::service_socket": {},
                          "Server::handle_health_check": {"fuel": ["self.tcp.pending.length + 1"], "local_types": {"listener": "TcpListener", "stream": "TcpStream"}},
                          "Server::thread_name": {}, "Server::send_client_stats": {}, "Server::process_events": {}},
        },
        "Client": {
            "file": "src/bin/roughenough-client.rs",
            "imports": ["Message", "Merkle", "LongTerm"],
            # the signature scheme (ed25519-dalek behind src/sign.rs) and SHA-512 are parameters
            "params": [("S", "SigScheme"), ("H", "Bytes → Bytes")],
            "functions": {
                "make_request": {},
                "receive_response": {},
                "verify_framing": {},
                "ResponseHandler::new": {},
                "ResponseHandler::extract_time": {},
                "ResponseHandler::validate_dele": {},
                "ResponseHandler::validate_srep": {},
                "ResponseHandler::validate_merkle": {},
                "ResponseHandler::validate_midpoint": {},
                "ResponseHandler::validate_sig": {},
            },
        },
        "Request": {
            "file": "src/request.rs",
            "imports": ["Message"],
            "functions": {
                "nonce_from_request": {},
                "is_rfc_request": {},
                "nonce_from_classic_request": {},
                "nonce_from_rfc_request": {},
                "get_supported_version": {},
            },
        },
    },
    # variants of enums known only through externs: "Enum::Variant" -> (test extern, payload extern)
    "variant_tests": {"Yaml::Real": ("Yaml::is_real", "Yaml::real_text")},
    "consts_extern": {"UNIX_EPOCH": "()", "AES_256_GCM": "()"},
    # constants defined in other files that the modules refer to
    "const_files": ["src/lib.rs", "src/request.rs", "src/message.rs", "src/merkle.rs", "src/tag.rs", "src/bin/roughenough-client.rs", "src/key/longterm.rs", "src/key/online.rs", "src/responder.rs", "src/version.rs", "src/sign.rs", "src/kms/envelope.rs", "src/kms/mod.rs", "src/config/mod.rs", "src/server.rs", "src/stats/mod.rs", "src/stats/aggregated.rs", "src/stats/per_client.rs", "src/grease.rs", "src/config/environment.rs", "src/config/file.rs"],
}


def emit_struct(crate, name, st, em_types):
    skip = set(crate.spec["structs"][name].get("skip_fields", []))
    lines = [f"structure Gen.{name} where"]
    for fn, ft in st["fields"]:
        if fn in skip: continue
        lines.append(f"  {lname(fn)} : {em_types.lean_type(ft)}")
    for fn, ft in crate.spec["structs"][name].get("extra_fields", []):
        lines.append(f"  {fn} : {ft}")
    lines.append("  deriving " + crate.spec["structs"][name].get("derive", "Repr, DecidableEq, Inhabited"))
    return lines


def const_type(em, c):
    ty = c["ty"]
    if ty["k"] == "tref" and ty["t"]["k"] == "tpath" and ty["t"]["segs"][-1][0] == "str": return "String"
    return em.lean_type(ty)


def run(repo, outdir, report_path):
    crate = Crate(SPEC)
    parsed = {}
    files = set(m["file"] for m in SPEC["modules"].values()) | set(SPEC["const_files"])
    report = {"modules": {}, "untranslatable": [], "parse_errors": []}
    for rel in sorted(files):
        p = os.path.join(repo, rel)
        try:
            items = rsparse.parse_file(p)
        except Exception as e:  # a file the parser cannot read at all
            report["parse_errors"].append({"file": rel, "error": str(e)})
            continue
        coll = rsparse.collect_fns(items)
        parsed[rel] = coll
        crate.add_file(os.path.basename(rel), coll)
    # register every function to translate so that calls between them resolve to Gen names
    crate.spec["functions"] = {}
    for mod, m in SPEC["modules"].items():
        for key, opts in m["functions"].items():
            if m.get("keep_externs") and key in SPEC["externs"]:
                continue    # callers go through the extern; the function itself is still translated below
            crate.spec["functions"][key] = opts
    os.makedirs(outdir, exist_ok=True)
    emitted_structs = set()
    emitted_consts = set()
    all_const_lines = []
    pending_files = []
    for mod, m in SPEC["modules"].items():
        rel = m["file"]
        out = []
        out.append("import Rough.Gen.Prelude")
        out.append("import Rough.Generated.Src.Consts")
        for imp in m.get("imports", []):
            out.append(f"import Rough.Generated.Src.{imp}")
        for imp in m.get("lean_imports", []):
            out.append(f"import {imp}")
        out.append(f"/-! GENERATED by checklib/rs2lean from /repo/{rel} — do not edit; regenerated on every run. -/")
        out.append("set_option linter.unusedVariables false")
        out.append("namespace Rough")
        out.append("")
        body = []
        modrep = {"file": rel, "functions": {}, "constants": []}
        consts_needed = []
        fn_chunks = []
        fn_deps, chunk_of = {}, {}
        for key, opts in m["functions"].items():
            if key not in crate.fns:
                report["untranslatable"].append({"module": mod, "function": key, "error": "function not found in source"})
                modrep["functions"][key] = "missing"
                fn_chunks.append([f"-- UNTRANSLATABLE {key}: function not found in {rel}"])
                continue
            try:
                em = Emitter(crate, key, opts)
                lines = em.emit_fn()
                for kind, name in sorted(em.deps):
                    if kind == "const" and name not in consts_needed: consts_needed.append(name)
                fn_chunks.append(lines)
                fn_deps[key] = sorted(d for kind, d in em.deps if kind == "fn")
                chunk_of[key] = lines
                modrep["functions"][key] = "ok"
            except Unsupported as e:
                report["untranslatable"].append({"module": mod, "function": key, "error": str(e)})
                modrep["functions"][key] = "untranslatable: " + str(e)
                fn_chunks.append([f"-- UNTRANSLATABLE {key}: {e}"])
        # structs used by this module (declared once, in the first module that needs them)
        tyem = Emitter.__new__(Emitter)
        tyem.c = crate; tyem.self_type = None; tyem.file = os.path.basename(rel); tyem.key = next(iter(m["functions"]))
        for sname in SPEC["structs"]:
            if sname in emitted_structs: continue
            if sname in parsed.get(rel, {}).get("struct", {}):
                try:
                    body += emit_struct(crate, sname, crate.structs[sname], tyem) + [""]
                    emitted_structs.add(sname)
                except Unsupported as e:
                    report["untranslatable"].append({"module": mod, "function": f"struct {sname}", "error": str(e)})
        # constants (transitively)
        done = []
        queue = list(consts_needed)
        const_lines = []
        local_const_lines = []   # constants of a non-basic type (e.g. a list of enum variants) stay in the module that uses them
        while queue:
            n = queue.pop(0)
            if n in emitted_consts or n in done: continue
            c = crate.consts.get(n)
            if c is None: continue
            try:
                em = Emitter.__new__(Emitter)
                em.__init__(crate, next(iter(m["functions"])), {}) if False else None
                ce = Emitter.__new__(Emitter)
                ce.c = crate; ce.self_type = None; ce.file = crate.const_file.get(n, "?"); ce.scopes = [{}]
                ce.tmp = 0; ce.deps = set(); ce.loop_stack = []; ce.opts = {}; ce.site_count = {}; ce.fn = {'name': n}
                pre, t = ce.val(c["e"])
                if pre or "(←" in t: raise Unsupported(f"constant {n} is not a pure expression")
                ty = const_type(ce, c)
                for kind, dep in sorted(ce.deps):
                    if kind == "const" and dep not in emitted_consts and dep not in done:
                        queue.insert(0, n); queue.insert(0, dep); break
                else:
                    tgt = const_lines if re.fullmatch(r"\(?(Nat|Int|Bool|String|Bytes|List Nat|List Bytes)\)?", ty) else local_const_lines
                    tgt.append(f"/-- `{n}` — {ce.file} -/")
                    tgt.append(f"def Gen.{n} : {ty} := {t}")
                    done.append(n); modrep["constants"].append(n)
                    continue
                if queue.count(n) > 3: raise Unsupported(f"constant cycle at {n}")
            except Unsupported as e:
                report["untranslatable"].append({"module": mod, "function": f"const {n}", "error": str(e)})
                done.append(n)
        emitted_consts.update(done)
        all_const_lines.extend(const_lines)
        out += local_const_lines + ([""] if local_const_lines else [])
        out += body
        for pre in m.get("prelude", []):
            out.append(pre)
        # translated functions in dependency order (callees first); untranslatable ones as comments at the end
        ordered, seen = [], set()

        def visit(k, stack=()):
            if k in seen or k not in chunk_of: return
            if k in stack: return
            for d in fn_deps.get(k, []): visit(d, stack + (k,))
            seen.add(k); ordered.append(k)
        for k in chunk_of: visit(k)
        for k in ordered:
            out += chunk_of[k] + [""]
        for ch in fn_chunks:
            if ch and ch[0].startswith("-- UNTRANSLATABLE"): out += ch + [""]
        out.append("end Rough")
        text = "\n".join(out) + "\n"
        path = os.path.join(outdir, mod + ".lean")
        old = open(path).read() if os.path.exists(path) else None
        if old != text:
            with open(path, "w") as f: f.write(text)
        modrep["changed"] = old != text
        report["modules"][mod] = modrep
    # constants of /repo used by any translated function, in one module imported by all
    ctext = "\n".join(["import Rough.Gen.Prelude",
                       "/-! GENERATED by checklib/rs2lean from /repo's `const` items — do not edit; regenerated on every run. -/",
                       "namespace Rough", ""] + all_const_lines + ["", "end Rough"]) + "\n"
    cpath = os.path.join(outdir, "Consts.lean")
    if (open(cpath).read() if os.path.exists(cpath) else None) != ctext:
        with open(cpath, "w") as f: f.write(ctext)
    if report_path:
        with open(report_path, "w") as f: json.dump(report, f, indent=1)
    return report


if __name__ == "__main__":
    ap = argparse.ArgumentParser()
    ap.add_argument("--repo", default=os.environ.get("VERIF_REPO", "/repo"))
    ap.add_argument("--out", default=os.path.join(os.path.dirname(os.path.dirname(HERE)), "lean/Rough/Generated/Src"))
    ap.add_argument("--report", default=None)
    a = ap.parse_args()
    rep = run(a.repo, a.out, a.report)
    for u in rep["untranslatable"]:
        print("UNTRANSLATABLE", u["module"], u["function"], "::", u["error"])
    for mod, mr in rep["modules"].items():
        print(mod, sum(1 for v in mr["functions"].values() if v == "ok"), "/", len(mr["functions"]), "functions;", len(mr["constants"]), "constants")
    sys.exit(0)

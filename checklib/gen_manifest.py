#!/usr/bin/env python3
"""Regenerates /verif/MANIFEST.json from checklib/props.py (claimed properties) — run after editing props.py."""
import json, os, sys
ROOT = os.path.dirname(os.path.dirname(os.path.abspath(__file__)))
sys.path.insert(0, ROOT)
from checklib.props import PROPS

ALL = [f"C{i:02d}" for i in range(1, 21)]
PENDING_REASON = "not claimed yet: model/theorems/correspondence for this property are still under construction in this framework (see DESIGN.md section 10); it is intended to be decided by Lean proof + correspondence like the others"

def main():
    checks = []
    na = []
    for pid in ALL:
        cfg = PROPS.get(pid)
        if not cfg or not cfg.get("claimed"):
            na.append({"property_id": pid, "reason": (cfg or {}).get("na_reason", PENDING_REASON)})
            continue
        c = {
            "property_id": pid,
            "quick_cmd": f"./check {pid} --tier quick",
            "thorough_cmd": f"./check {pid} --tier thorough",
            "evidence_file": f"/verif/evidence/{pid}.json",
            "replay_cmd_template": f"./check {pid} --replay {{path}}",
            "engine": "lean4-proof+correspondence",
            "level_claimed": {"category": "proof", "text": cfg["level_text"], "design_ref": cfg.get("design_ref", "")},
            "level_note": "; ".join(cfg.get("assumptions", []) + cfg.get("trusted_base", []))
                          or "Lean kernel + correspondence harness",
            "technique": cfg["technique"],
        }
        checks.append(c)
    m = {
        "version": 1,
        "setup_cmd": "./setup.sh",
        "hooks": {
            "guard": "roughenough_verif",
            "enable": "RUSTFLAGS='--cfg roughenough_verif' (set in /verif/harness/.cargo/config.toml; the harness crate depends on /repo by path)",
            "baseline_off_cmd": "cd /repo && cargo test --workspace --no-fail-fast --offline",
            "source_commits": json.load(open(os.path.join(ROOT, "hooks.json")))["source_commits"] if os.path.exists(os.path.join(ROOT, "hooks.json")) else [],
            "add_only": True,
        },
        "engines": [{
            "name": "lean4-proof+correspondence", "path": "/verif/lean + /verif/harness + /verif/check",
            "serves_properties": [c["property_id"] for c in checks],
            "kind_free_text": "Lean 4 theorems about a hand-written executable model (lake project, core-only, compiled driver) + Rust harness that runs the real code and the model on the same cases and diffs; python orchestrator applies the L1/L2 decision procedure of DESIGN.md 2.3",
        }],
        "checks": checks,
        "not_applicable": na,
        "notes": "Technique family: machine-checked proof in Lean 4. Every check = lake build of the property's theorem module + #print axioms audit (+ leanchecker in thorough) + correspondence run against /repo's working tree. known_findings.json lists genuine defects (fixed by 'fix:' commits in /repo, or open).",
    }
    with open(os.path.join(ROOT, "MANIFEST.json"), "w") as f:
        json.dump(m, f, indent=1)
    print(f"{len(checks)} checks, {len(na)} not claimed")

main()

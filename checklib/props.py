"""Per-property tables used by ./check and by gen_manifest.py."""

TB_CRYPTO = "Lean reference SHA-512 / Ed25519 / AES-256-GCM are transcriptions of FIPS 180-4 / RFC 8032 / SP 800-38D validated against test vectors and differentially against ring / ed25519-dalek on every run, not proved; primitive security is an explicit hypothesis or reduction target"

PROPS = {
    "C04": {
        "claimed": True,
        "module": "Rough.Props.C04",
        "theorems": ["Rough.Props.C04.C04_complete", "Rough.Props.C04.C04_reuse", "Rough.Props.C04.C04_binding",
                     "Rough.Props.C04.C04_other_index", "Rough.Props.C04.C04_empty_panics"],
        "streams": [{"args": ["merkle"], "shards_quick": 4, "shards_thorough": 16}],
        "ops": ["merkle"],
        "trivial": r"misuse",
        "min_nontrivial": 100,
        "rule": "op sequences (reset/push/root/paths/verify/fresh) on one real MerkleTree per case, both hash profiles: every leaf count 1..=64 (quick) / 1..=255 (thorough) at every position with negative verifies (wrong leaf, other index, other batch leaf, changed/removed/duplicated/added path element, high index bits); equal and empty leaves; ordered pairs of batch sizes on one reused tree (214 sampled quick / all 4096 pairs <=64 thorough) and random longer histories, each compared with a fresh tree; non-trivial = distinct case that follows the reset-push-root discipline (misuse sequences validate panic semantics only)",
        "trusted_base": [TB_CRYPTO],
        "assumptions": ["binding is a reduction: accepted wrong (index, leaf, path) yields an explicit SHA-512 collision or zero-preimage; SHA-512 itself is not proved secure",
                        "theorems quantify over every batch size up to 2^32; the correspondence samples sizes <= 255"],
        "design_ref": "5/C04",
        "level_text": "Lean theorems over an executable model of MerkleTree (level vectors, in-place padding, pop, reset) refined to an abstract inductive tree: completeness, reuse and totality for every batch size and every prior history, binding as a reduction to a hash break; model tied to src/merkle.rs by byte-for-byte correspondence with Lean SHA-512 on every run",
        "technique": "Lean 4 proof (refinement to abstract Merkle tree + reduction) with differential correspondence harness",
    },
    "C05": {
        "claimed": True,
        "module": "Rough.Props.C05",
        "theorems": ["Rough.Props.C05.C05_tag_order", "Rough.Props.C05.C05_tag_wire", "Rough.Props.C05.C05_decode_encode",
                     "Rough.Props.C05.C05_encode_decode", "Rough.Props.C05.C05_ref", "Rough.Props.C05.C05_framed",
                     "Rough.Props.C05.C05_encoded_size"],
        "streams": [{"args": ["codec"], "shards_quick": 4, "shards_thorough": 16}],
        "ops": ["dec", "enc", "enci"],
        "trivial": r"^dec:n=big:err$|^dec:n=0:",
        "min_nontrivial": 1000,
        "exhaustive_quick": False,
        "rule": "dec/enc cases on RtMessage::from_bytes/encode/encode_framed: (i) all word sequences of length <=5 (quick) / <=6 (thorough) over a 12-word alphabet {0,1,2,3,4,8,12,0xffffffff,SIG,NONC,CERT,unknown}; (ii) type-directed valid messages over the 18 tags (0..18 fields, aligned values up to 16 KiB, total <= 64 KiB) built through add_field; unaligned/unsorted/duplicate API use; (iii) structured mutants of valid encodings aimed at count/offset/tag words; (iv) random strings up to 65536 bytes. L1 = independent Lean reference decoder + re-encode identity + framing law; L2 = model fromBytes/encode byte-for-byte. non-trivial = distinct input whose count word is 1..=19 (not the count>19 or count=0 early exits)",
        "trusted_base": [],
        "assumptions": ["theorems assume message length < 2^32 (the Rust casts to u32); the wire never carries more than 64 KiB"],
        "design_ref": "5/C05",
        "level_text": "Lean theorems for all messages/byte strings: decode(encode m)=m, encode(decode b)=b for non-empty, model decoder = independently written reference decoder, tag order = numeric wire order, framing law; model tied to src/message.rs and src/tag.rs by differential correspondence including a bounded-exhaustive word-sequence scope",
        "technique": "Lean 4 proof (round-trip + equivalence with reference decoder) with differential correspondence harness",
    },
    "C06": {
        "claimed": True,
        "module": "Rough.Props.C06",
        "theorems": ["Rough.Props.C06.C06_total", "Rough.Props.C06.C06_payload", "Rough.Props.C06.C06_display",
                     "Rough.Props.C06.C06_display_unfixed_witness"],
        "streams": [{"args": ["codec"], "shards_quick": 4, "shards_thorough": 16}],
        "ops": ["dec", "disp"],
        "trivial": r"^dec:n=big:err$|^dec:n=0:|^disp:deerr$",
        "min_nontrivial": 1000,
        "rule": "same byte-string streams as C05 plus nested-garbage generators (valid outer message whose CERT/DELE/SREP values are random, truncated, mutated or nested up to depth 510); from_bytes and Display run under catch_unwind on a 512 MiB stack. L1 = no panic, values = input tail; L2 = model decode result and the exact Display text. Display cases are limited to inputs <= 4096 bytes (the client's receive buffer) because to_string is ~cubic in nesting depth",
        "trusted_base": ["panic-site inventory of src/message.rs (every index/slice/unchecked subtraction is a Res.panic branch in Model/Codec.lean), cross-checked by catch_unwind on every case"],
        "assumptions": ["'never panics' is relative to the modelled panic sites; allocation failure and stack exhaustion for absurd nesting depths are outside the model"],
        "design_ref": "5/C06",
        "level_text": "Lean theorems: fromBytes never reaches a panic branch for any byte string, values of an accepted message are exactly the input tail, Display (repaired) never panics for any message; tied to the code by catch_unwind differential runs that also compare the full Display text",
        "technique": "Lean 4 proof (totality over explicit panic branches) with differential correspondence harness",
    },
}

SRV_TRUSTED = ["in-process Server driven through process_events() on loopback UDP: kernel delivers every datagram in send order and loses none (socket buffers enlarged); mio/epoll edge-trigger semantics are outside the model",
               TB_CRYPTO]
SRV_ASSUME = ["send_to never fails on loopback (the failed-send branch exists in the model but is not exercised)",
              "model theorems assume the signature scheme is complete (verify(pk(seed), m, sign(seed, m))) and outputs have their standard lengths; nothing about unforgeability"]

CLAIMED_SRV = {'C12', 'C20', 'C08', 'C09', 'C02', 'C07'}

def _srv(pid, mode, theorems, module, rule, level_text, technique, extra=None, streams=None, min_nt=20):
    d = {
        "claimed": pid in CLAIMED_SRV,
        "module": module,
        "theorems": theorems,
        "streams": streams or [{"args": ["srv", mode], "shards_quick": 8, "shards_thorough": 16}],
        "ops": ["srv"],
        "trivial": r":rep=0$",
        "min_nontrivial": min_nt,
        "rule": rule,
        "trusted_base": SRV_TRUSTED,
        "assumptions": SRV_ASSUME,
        "design_ref": "5/" + pid,
        "level_text": level_text,
        "technique": technique,
    }
    if extra:
        d.update(extra)
    return d

PROPS["C02"] = _srv("C02", "c02",
    ["Rough.Props.C02.C02_respond_accepted", "Rough.Props.C02.C02_honest"], "Rough.Props.C02",
    "scenarios on a real in-process Server: every batch size (15 sizes quick / 1..=64 thorough) as three consecutive batches n, m<n, n on one server (stale-state detection), classic / IETF / mixed, request sizes 1024..1500, with/without SRV; configured batch_size values with bursts larger than the batch; fault_percentage runs of 34x64 replies per setting ({10,50} quick, {1,5,10,25,50} thorough). L1 = every reply must be accepted by the independent Lean verifier (real Ed25519 + SHA-512 transcriptions) for a distinct outstanding request of the receiving socket; with faults each reply verifies or is rejected outright and the invalid share is tested against p (6 sigma). L2 = replies equal the model's byte-for-byte except SIG, CERT, MIDP (hidden online key / clock). non-trivial = scenario with at least one reply",
    "Lean theorems: the reference verifier accepts the reference responder for every batch/position/keys (C02_respond_accepted), and every datagram the server model sends from any reachable state is such a reply (C02_honest, via the refinement C09_pass); tied to the code by trace validation of real server replies with an independent Lean verifier",
    "Lean 4 proof (server model refines reference responder; verifier accepts responder) + trace validation against real server",
    extra={"fault_share": True, "search_seeds": 1})
PROPS["C07"] = _srv("C07", "c07",
    ["Rough.Props.C07.C07_only_wellformed", "Rough.Props.C07.C07_classify_total", "Rough.Props.C07.C07_no_amplification"], "Rough.Props.C07",
    "datagrams of length 0..65507: nonces of aligned lengths 0..1400 (step 44 quick / 4 thorough) in classic, IETF and single-field form; boundary lengths 1020..2048 incl. unaligned; every frame-length value within +-16 of the true one; random junk of 0..65507 bytes; receive-buffer reuse (a 65507-byte datagram followed by short classic datagrams whose offsets point beyond their own end); full batches of 64 minimum-size requests (maximum path depth) per protocol; plus mixed valid/invalid scenarios; each burst closed by a sentinel valid request. L1 = reply only to datagrams the reference classification accepts (1024..1500, well-formed), exactly one each, and |reply| <= |request|. non-trivial = scenario with at least one reply",
    "Lean theorems: accepted => length 1024..1500, well-formed per reference classification, nonce of protocol length; classification never panics; every sent reply is <= 944 bytes and no longer than the accepted request that elicited it, for every batch of <= 255; tied to the code by in-process server runs judged by the reference classifier",
    "Lean 4 proof (classifier = reference classification; closed-form reply length) + differential server runs")
PROPS["C08"] = _srv("C08", "c08",
    ["Rough.Props.C08.C08_pass_safe", "Rough.Props.C08.C08_run_safe", "Rough.Props.C08.C08_still_serves", "Rough.Props.C08.C08_unfixed_witness"], "Rough.Props.C08",
    "sequences of 1..3 (quick) / 1..6 (thorough) bursts of up to 140 datagrams: 60% junk / near-valid mutants (16 mutation kinds: empty, tiny, boundary sizes, 65507 bytes, truncated, oversized, wrong nonce length incl. empty and 1008-byte nonce, frame length off, unsupported version, wrong SRV, missing NONC, header bit flips, magic+junk, mis-ordered tags) interleaved with valid requests; log level drawn from Off..Trace with a harness logger that formats every record; fault_percentage 0 or 1..50; batch_size 1..64; process_events under catch_unwind; each sequence closed by a sentinel request from a fresh socket whose reply must verify. non-trivial = scenario with at least one reply",
    "Lean theorems: from every reachable state, a pass over ANY chunk of datagrams at ANY log level with ANY drawable fault-injection decision returns normally and re-establishes the invariant (induction over histories), and afterwards valid requests get exactly the reference replies; relative to the modelled panic-site inventory; tied to the code by catch_unwind runs at every log level",
    "Lean 4 proof (invariant by induction over passes, explicit panic branches) + catch_unwind correspondence", min_nt=50)
PROPS["C09"] = _srv("C09", "c09",
    ["Rough.Props.C09.C09_new", "Rough.Props.C09.C09_pass", "Rough.Props.C09.C09_run", "Rough.Props.C09.C09_exactly_once", "Rough.Props.C09.C09_protocol_separation"], "Rough.Props.C09",
    "interleavings of valid classic, valid IETF and invalid (25%) datagrams from 1..8 client sockets (several requests per socket, identical nonces reused from different sockets), batch_size in {1,2,63,64,random}, bursts smaller than / equal to / larger than the batch size, up to 3 (quick) / 6 (thorough) bursts per server; every client socket read dry. L1 = per socket: bijection between replies and accepted requests of that socket, each reply verifying for that request's bytes and nonce. L2 = per-socket reply sequences equal the model's (IETF batch before classic batch per pass, chunking = batch_size). non-trivial = scenario with at least one reply",
    "Lean theorems: one pass from any reachable state sends exactly the reference responder's reply per accepted request, to its source, own nonce/index/path, IETF batch then classic batch, nothing for rejected datagrams, for every chunking (C09_pass/C09_run); tied to the code by per-socket trace validation",
    "Lean 4 proof (refinement of the batching loop to one-reply-per-accepted-request spec) + per-socket trace validation", min_nt=50)
PROPS["C12"] = _srv("C12", "c12",
    ["Rough.Props.C12.C12_spec", "Rough.Props.C12.C12_only_if", "Rough.Props.C12.C12_srep_states_version"], "Rough.Props.C12",
    "EXHAUSTIVE version lists of length 0..4 (quick, 781 lists) / 0..6 (thorough, 19531 lists) over {draft-13, classic 0, 0x80000001, 0x8000000b, 0xffffffff} x SRV {absent, correct, random wrong}; for the minimal list: SRV under all 256 single-bit flips, lengths 0/28/36/64, another server's SRV; one client socket per request. L1 = reply iff reference classification says must (may = either), SREP states VER=draft-13 and VERS. non-trivial = scenario with at least one reply",
    "Lean theorems: the request classifier agrees with the reference classification on every datagram (answered => draft-13 listed and SRV ours/absent; draft-13 among first four and other conditions => answered), signed SREP states VER and VERS; tied to the code by an exhaustive version-list sweep on the in-process server",
    "Lean 4 proof (decision logic = reference classification) + exhaustive small-scope correspondence",
    extra={"exhaustive_quick": True, "exhaustive_thorough": True}, min_nt=10)
PROPS["C20"] = _srv("C20", "c20",
    ["Rough.Props.C20.C20_factor", "Rough.Props.C20.C20_noninterference"], "Rough.Props.C20",
    "monitor over everything emitted: for random and patterned seeds, log levels Off..Trace, valid/invalid/fault-injected traffic: every reply datagram and every formatted log record (harness logger) is searched for the seed, the clamped scalar and both halves of SHA-512(seed) in raw, hex (lower/upper) and base64 (std/url, padded/unpadded, 3 alignments) form at every offset; process-level stream additionally scans stdout/stderr of the real server binary (start-up, config error, panic). non-trivial = scenario with at least one reply",
    "PARTIAL: Lean theorem of non-interference (all outputs of every run are a function of the public key and the two certificate signatures; the server state never contains the seed) + run-time substring monitor for what the model cannot express (Ed25519 not leaking the seed through signatures; log records)",
    "Lean 4 proof (non-interference of the server model) + run-time leak monitor",
    extra={"assumptions": SRV_ASSUME + ["that a public key and signatures do not reveal the seed is a property of Ed25519, not proved", "log records are monitored, not modelled"]})

KEYS_TB = [TB_CRYPTO, "ed25519-dalek and ring are the implementation's own dependencies; the oracle column is an independent Lean transcription of RFC 8032 / FIPS 180-4"]
PROPS["C13"] = {
    "claimed": True, "module": "Rough.Props.C13",
    "theorems": ["Rough.Props.C13.C13_signer", "Rough.Props.C13.C13_no_carry_over", "Rough.Props.C13.C13_chunking", "Rough.Props.C13.C13_verifier"],
    "streams": [{"args": ["sign"], "shards_quick": 8, "shards_thorough": 16}],
    "ops": ["sign", "vrf"], "trivial": r"^$", "min_nontrivial": 500,
    "rule": "signer histories (200 quick / 1500 thorough): seeds incl. 0^32 and ff^32, 1..6 or 32 messages per signer object, message lengths 0..4096, random chunkings incl. empty chunks, immediate re-sign (empty message), trailing unsigned update; three columns: MsgSigner, ed25519-dalek one-shot, Lean RFC 8032 one-shot. Verifier: valid triples in random chunkings and EVERY single-bit corruption of message, signature (512) and key (256), wrong lengths, small-order / non-canonical keys with crafted signatures; MsgVerifier vs dalek direct vs Lean verify. all cases non-trivial",
    "trusted_base": KEYS_TB, "assumptions": ["MsgVerifier::new panics on an undecodable key where dalek returns Err: both count as reject (the property speaks of acceptance)"],
    "design_ref": "5/C13",
    "level_text": "Lean theorems about the buffering logic for every history (k-th signature = one-shot signature of the k-th message's concatenated chunks, no carry-over, chunking-independent, verifier = one-shot verify), parametric in the scheme; the scheme itself is tied to RFC 8032 by an independent Lean transcription compared with the implementation and with ed25519-dalek on every run",
    "technique": "Lean 4 proof (history induction over signer ops) + 3-way differential (impl / dalek / Lean RFC 8032)",
}
PROPS["C10"] = {
    "claimed": True, "module": "Rough.Props.C10",
    "theorems": ["Rough.Props.C10.C10_cert_valid", "Rough.Props.C10.C10_window", "Rough.Props.C10.C10_context_separation", "Rough.Props.C10.C10_no_carry_over", "Rough.Props.C10.C10_deterministic"],
    "streams": [{"args": ["ltk"], "shards_quick": 4, "shards_thorough": 8}, {"args": ["srv", "c09"], "shards_quick": 8, "shards_thorough": 16}],
    "ops": ["ltk", "srv"], "trivial": r":rep=0$", "min_nontrivial": 40,
    "rule": "ltk cases: edge seeds (0^32, ff^32, RFC 8032 TEST 1-3, example.cfg) and random seeds (60 quick / 600 thorough): LongTermKey::{new, public_key, srv_value, make_cert} for IETF then classic then IETF again on one key object, Display, and Server::get_public_key of three Server instances per seed, compared with Lean RFC 8032 public key, SHA-512(0xff||pk)[0..32], and the fully determined certificate bytes (Ed25519 is deterministic); each certificate must verify under its own delegation context and must NOT verify under the other's. srv cases: CERT of every real reply verified under the seed's key by the spec verifier",
    "trusted_base": KEYS_TB, "assumptions": ["'public key = RFC 8032 key of the seed' is a definition in the model; its assurance is the correspondence with the Lean RFC 8032 transcription, i.e. translation validation", "cross-context rejection is executed on every real certificate; as a theorem only the inequality of the signed messages is proved (C10_context_separation)"],
    "design_ref": "5/C10",
    "level_text": "Lean theorems: both certificates of every server verify under the seed's key in their own context and certify the responder's online key with window [0, 2^64-1]; contexts can never yield the same signed bytes; no signer carry-over between the two certificates; identity depends on the seed only; tied to the code by byte-exact certificate prediction and key/SRV comparison with Lean Ed25519/SHA-512",
    "technique": "Lean 4 proof (key/cert construction) + byte-exact differential against Lean RFC 8032",
}
PROPS["C11"] = {
    "claimed": True, "module": "Rough.Props.C11",
    "theorems": ["Rough.Props.C11.C11_classic", "Rough.Props.C11.C11_ietf", "Rough.Props.C11.C11_radius", "Rough.Props.C11.C11_bracket", "Rough.Props.C11.C11_fields"],
    "streams": [{"args": ["srep"], "shards_quick": 2, "shards_thorough": 8}, {"args": ["srv", "c11"], "shards_quick": 8, "shards_thorough": 16},
                {"args": ["srv", "c02"], "shards_quick": 8, "shards_thorough": 16}],
    "ops": ["srep", "srv"], "trivial": r":rep=0$|overflow-panic", "min_nontrivial": 200,
    "rule": "srep cases: OnlineKey::make_srep(version, UNIX_EPOCH + Duration::new(s, n), root) for s on a grid 0 .. 2^62 (epoch, 2038, 2106, 2200, 3000, 9999-12-31, last/first second around the u64 microsecond overflow, random) x n in {0,1,999,1000,1001,999999,999999000,999999999,random}, both versions: MIDP = floor(t/unit), RADI = 5 s, ROOT echoed, signature verifies under make_dele's key, SREP bytes equal the model's. srv cases: MIDP of every reply of a running server lies in the harness's clock bracket taken around the BURST that elicited it; c11 scenarios insert idle periods of 1.1-2.2 s (the worker keeps polling) before bursts and bursts that contain only invalid datagrams, so a clock reading taken earlier than the signing of the batch is outside the bracket",
    "trusted_base": KEYS_TB, "assumptions": ["SystemTime::now() is the server clock; the harness brackets it with its own readings of the same clock", "classic midpoint arithmetic panics (overflow) only beyond year 584 554; the theorem's range hypothesis says so"],
    "design_ref": "5/C11",
    "level_text": "Lean theorems (pure arithmetic): midpoint = floor(clock/unit) for both versions over the whole non-overflowing range, radius = 5 s in unit, true time within [midp, midp+1 unit) inside midp +- radius, SREP carries exactly those fields; tied to the code by make_srep on a clock grid and by bracketing a running server",
    "technique": "Lean 4 proof (arithmetic) + differential on make_srep grid + clock bracketing of real replies",
}
PROPS["C17"] = {
    "claimed": True, "module": "Rough.Props.C17",
    "theorems": ["Rough.Props.C17.C17_conservation", "Rough.Props.C17.C17_bounded", "Rough.Props.C17.C17_equiv", "Rough.Props.C17.C17_aggregated", "Rough.Props.C17.C17_merge", "Rough.Props.C17.C17_wiring"],
    "streams": [{"args": ["stats"], "shards_quick": 8, "shards_thorough": 16}, {"args": ["srv", "c17"], "shards_quick": 8, "shards_thorough": 16}, {"args": ["respsend"], "shards_quick": 4, "shards_thorough": 8}],
    "ops": ["stats", "rep", "srv", "respsend"], "trivial": r":rep=0$|^stats:len=0", "min_nontrivial": 500,
    "rule": "stats cases: histories of the eight recording operations (+clear) on real PerClientStats (hook constructor with limits 0..3) and AggregatedStats over a pool of 3 addresses: bounded-exhaustive to length 4 (quick) / 5 (thorough), random to length 10000; splits across 1..4 recorders with snapshot points pushed through a real StatsQueue into Reporter::receive_client_stats. srv cases: traffic mixes through the in-process server, recorded totals vs datagrams actually received/sent; c17-timer scenarios run with status_interval 1 s so the worker's status timer publishes per-client snapshots through the real StatsQueue and clears the recorder between bursts: recorder + published snapshots must equal the traffic. respsend cases: Responder::send_responses called directly on a real IPv4 socket with queues of 1..20 requests (both protocols, both recorders) some of whose return addresses cannot be sent to (IPv6: send_to fails) in the patterns none/first/last/middle/all/random: recorded responses, bytes and failed sends per address vs the datagrams the harness's receiver sockets actually got, and vs the model's send_responses with the same send outcomes",
    "trusted_base": ["hooks: PerClientStats::with_limit_verif, Server::stats_verif (cfg roughenough_verif, add-only)", "crossbeam ArrayQueue with capacity >= number of snapshots (force_push never evicts)"],
    "assumptions": ["counters are modelled as Nat (Rust u32/u64/usize: no overflow below 2^32 events per interval)", "first_seen timestamps are not compared"],
    "design_ref": "5/C17",
    "level_text": "Lean theorems for every history and limit: conservation (each event exactly once: its counter or the overflow count), bound and no duplicate addresses, per-client = aggregated while no overflow, merge preserves per-address sums, server wiring totals = traffic; tied to the code by bounded-exhaustive and long random histories on the real recorders and by in-process server traffic",
    "technique": "Lean 4 proof (history induction over recorder ops) + bounded-exhaustive/random differential",
}

CLIENT_TB = ["real roughenough-client binary (built from /repo's working tree) run as a process against a loopback UDP responder; exit status and stdout/stderr are the observables",
             "the Lean reference responder (Spec.RT.respondWith with real Ed25519/SHA-512 transcriptions) produces honest and forged datagrams; forgeries are applied by the harness with its own lenient tag-value codec",
             TB_CRYPTO]
PROPS["C01"] = {
    "claimed": True, "module": "Rough.Props.C01", "need_bins": True,
    "theorems": ["Rough.Props.C01.C01_sound", "Rough.Props.C01.C01_no_replay"],
    "streams": [{"args": ["client-forged"], "shards_quick": 12, "shards_thorough": 16}],
    "ops": ["client", "noncepool"], "trivial": r"^$", "min_nontrivial": 100,
    "rule": "client process runs with a pinned key (hex and base64), both protocols; per group an honest control and: bit flip / re-randomisation / last-byte change in each region SIG, NONC, PATH, INDX, SREP.{MIDP,RADI,ROOT,VER}, CERT.SIG, DELE.{PUBK,MINT,MAXT}; full re-signing by another long-term key; delegation or response signed under the other protocol's context; CERT spliced from the other protocol; whole response in the other protocol's format; response for another request of the same batch; own NONC with the other leaf's path; properly signed midpoint before/after/at the edge of the delegation window; replay of the previous run's genuine response; replay within a -n 2 run; stateful forgeries in a -n 2 run whose first response is genuine and whose second is forged (attacker DELE under the genuine CERT.SIG, attacker SREP under the genuine CERT, other long-term key, region flips, window); truncation at 4-byte boundaries (9 quick / 110 thorough); random byte mutations; extension, garbage, empty datagram; a 40-request run whose last request is answered with the first request's genuine response; nonce freshness as a measurement: nonces pairwise distinct within every run and across all runs of the stream. L1 = a time line printed or exit 0 only if the independent `authentic` predicate (signature chain, window, Merkle binding of this request) holds, printed time = signed midpoint. L2 = exit status and printed fields equal the model's. every case distinct (fresh nonce)",
    "trusted_base": CLIENT_TB,
    "assumptions": ["nonce freshness (SystemRandom) is outside the model; the harness checks that all nonces seen in a run are distinct (statistical)", "datagrams longer than the client's 4096-byte buffer are truncated by the OS before the client sees them"],
    "design_ref": "5/C01",
    "level_text": "Lean theorems: the client model accepts (prints a time, exit 0) with a pinned key only if the independent authenticity predicate holds for its own request, then reports exactly the signed midpoint; accepting an honest response made for a batch not containing this request yields an explicit hash break; tied to the code by process-level runs of the real client against honest and forged responders",
    "technique": "Lean 4 proof (client model sound w.r.t. independent authenticity spec; replay => hash break) + process-level differential with forged responses",
}
PROPS["C03"] = {
    "claimed": True, "module": "Rough.Props.C03", "need_bins": True,
    "theorems": ["Rough.Props.C03.C03_request_wellformed", "Rough.Props.C03.C03_accept", "Rough.Props.C03.C03_time"],
    "streams": [{"args": ["client-honest"], "shards_quick": 12, "shards_thorough": 16}, {"args": ["client-real"], "shards_quick": 1, "shards_thorough": 1}],
    "ops": ["client", "clientreal"], "trivial": r"^$", "min_nontrivial": 100,
    "rule": "client process runs against the honest Lean reference responder: protocol {classic, draft-13} x key {none, hex, base64} x batch size (11 sizes quick / 1..=64 thorough) x position (3 per size quick / every position thorough) x midpoints on a grid from the epoch to 9999-12-31 with sub-second edge values, plain and JSON output; multi-request runs (-n 2,3,8); and the real client against the real server binary (single and -n 64 runs, both protocols, with and without key). L1 = exit 0, one time line per request, verified flag = key supplied, printed %s.%f = signed MIDP converted from the protocol's unit. every case distinct",
    "trusted_base": CLIENT_TB,
    "assumptions": ["chrono's formatting of %s.%f is trusted; midpoints beyond year 262143 (chrono's range) make the client abort and are outside the property's range"],
    "design_ref": "5/C03",
    "level_text": "Lean theorems: client requests are 1024 bytes and must-answer by the reference classification; the client model accepts the reference responder's reply for every batch size and position with outcome (midpoint, radius, verified = key supplied, index); printed time = unit conversion; tied to the code by process-level runs of the real client against the Lean responder and the real server",
    "technique": "Lean 4 proof (client model complete w.r.t. reference responder) + process-level differential",
}

PROPS["C14"] = {
    "claimed": True, "module": "Rough.Props.C14",
    "theorems": ["Rough.Props.C14.C14_round_trip", "Rough.Props.C14.C14_parse_layout", "Rough.Props.C14.C14_parse_injective",
                 "Rough.Props.C14.C14_tamper", "Rough.Props.C14.C14_wrong_key", "Rough.Props.C14.C14_layout"],
    "streams": [{"args": ["envelope"], "shards_quick": 8, "shards_thorough": 16}],
    "ops": ["envenc", "envdec"], "trivial": r"^$", "min_nontrivial": 1000,
    "rule": "EnvelopeEncryption::{encrypt_seed, decrypt_seed} with harness KmsProvider implementations: handle-table providers with wrapped-key lengths 16..64 and authenticated XOR-pad providers with lengths 32..1024 (7 lengths quick / 13 thorough), the repository's identity mock; plaintexts 32..64 bytes; a recording wrapper captures the raw data key so the blob is recomputed byte-for-byte with the Lean AES-256-GCM transcription; for every blob: every position +1 byte modification, single-bit flips (one per byte quick / all 8 thorough), every truncation length, extensions by 1..32 bytes; provider faults error / wrong key / 16- and 33-byte key on unwrap, error on wrap. L1 = round trip, modified or faulted => Err (never Ok, never panic), blob contains neither seed nor data key (non-identity providers), layout. all cases non-trivial",
    "trusted_base": [TB_CRYPTO, "harness KMS providers are non-malleable (they reject any change to the wrapped key) as a real key-management service is"],
    "assumptions": ["AES-GCM and the KMS provide confidentiality/integrity: 'leaks nothing' is covered as a layout theorem (the blob is a function of wrapped key, nonce, ciphertext only) plus a substring search, not as a cryptographic proof",
                    "tamper detection is a reduction: success on a modified blob exhibits an AEAD opening of a different (key, nonce, ciphertext) or a provider that unwraps a different wrapped key"],
    "design_ref": "5/C14",
    "level_text": "Lean theorems parametric in AEAD and KMS: round trip for every seed >= 32 bytes and wrapped-key length < 2^16, blob layout and injectivity of parsing, tampering/wrong-key acceptance reduces to an AEAD forgery or provider malleability; model tied to src/kms/envelope.rs by byte-exact blob recomputation with Lean AES-256-GCM and exhaustive single-position modifications",
    "technique": "Lean 4 proof (round trip, parse injectivity, reduction for tampering) + byte-exact differential with Lean AES-GCM",
}
PROPS["C16"] = {
    "claimed": True, "module": "Rough.Props.C16", "need_bins": True,
    "theorems": ["Rough.Props.C16.C16_effective_is_written", "Rough.Props.C16.C16_out_of_range_refused", "Rough.Props.C16.C16_effective_in_range",
                 "Rough.Props.C16.C16_sources_agree", "Rough.Props.C16.C16_unknown_key_refused", "Rough.Props.C16.C16_missing_required", "Rough.Props.C16.C16_parse_show", "Rough.Props.C16.C16_sources_disagree_witness"],
    "streams": [{"args": ["cfg"], "shards_quick": 8, "shards_thorough": 16}],
    "ops": ["cfg"], "trivial": r"^cfg:base:", "min_nontrivial": 200,
    "rule": "one probe process per case and source runs make_config + is_valid_config and prints every ServerConfig getter or `refused` (Err, false, or panic); for every refused case the REAL roughenough-server binary is started with the same settings and must exit (L1 if it keeps running with settings the property says must fail; L2 if its status is not 1): each of port, batch_size, fault_percentage, num_workers, status_interval, health_check_port x 35 boundary values (-70000 .. 2^32+1 incl. 0, 1, 50/51, 64/65, 255/256/257, 300, 65535/65536, 70000, 83222) and non-integers, through the YAML file AND the documented environment variable; 60 (quick) / 400 (thorough) random in-range combinations incl. client_stats + persistence_directory; each out-of-range/invalid setting again in the company of client_stats+directory and other valid settings; unknown keys with blank / null / word values and documented keys with a YAML null; missing required keys; unknown keys; seeds of wrong length/alphabet and an all-digit seed; interface / kms_protection / client_stats variants. L1 = effective value equals written value when started, out-of-range / missing / unknown refused, both sources agree. non-trivial = any case that varies a setting",
    "trusted_base": ["yaml-rust scalar typing and str::parse are represented by small functions of Model/Config.lean validated on the grid", "file-system facts for persistence_directory are a parameter of the model"],
    "assumptions": ["status_interval is documented only within 1..=65535 (the environment loader reads a u16, the file loader a u64)", "available_parallelism() is passed to the model as the default num_workers"],
    "design_ref": "5/C16",
    "level_text": "Lean theorems over a model of both loaders and the validator: a started server's effective integer setting is the written one for every key/value/source, out-of-range documented keys are refused, effective settings always lie in the documented ranges, file and environment steps agree on decimal values, unknown keys and missing required settings are refused; tied to the code by a probe process per case on a boundary grid through both sources",
    "technique": "Lean 4 proof (loader/validator model: effective = written or refused) + probe-process differential on a boundary grid",
}

PROC_TB = ["real roughenough-server binary built from /repo's working tree, run as a process on loopback with free ports; observables: /proc/<pid>/task/*/comm, UDP replies (distinct per-worker certificates), TCP health probes, exit status, captured stdout+stderr",
           "Linux kernel behaviour (SO_REUSEPORT distribution of datagrams and connections, signal delivery, scheduling) is exercised, not modelled", TB_CRYPTO]
PROPS["C15"] = {
    "claimed": True, "module": "Rough.Props.C15", "need_bins": True,
    "theorems": ["Rough.Props.C15.C15_all_start", "Rough.Props.C15.C15_unfixed_witness", "Rough.Props.C15.C15_valid_preconditions"],
    "streams": [{"args": ["startup"], "shards_quick": 6, "shards_thorough": 16, "timeout": 1500}],
    "ops": ["startup"], "trivial": r"^$", "min_nontrivial": 8,
    "rule": "the real server binary is started for each configuration: the repository's own example.cfg verbatim (ports substituted only if 8686/8000 are taken), a pairwise cover (quick, 11 configurations) / the grid num_workers 1..16 x health_check_port absent/present x 6 combinations of batch_size {1,2,63,64}, fault_percentage {0,1,50}, status_interval {1,10,600}, client_stats off/on+directory, file/ENV source (thorough, 192 configurations). Per configuration: thread names worker-0..worker-(n-1) in /proc before and after the probes, requests from fresh source ports until n distinct classic online keys answered, 20 sequential + 3x4 parallel TCP health connections expecting the exact HTTP response, a burst of 50n+50 connections made pending at once (SIGSTOP/SIGCONT, n <= 4), odd probers (connect-and-close, silent connections held open, half-closing probers that must still get the response, UDP service meanwhile), 28 ticks of steady traffic (3n requests from fresh ports per 110 ms tick, retransmitted if unanswered), UDP service afterwards, no 'panicked' in the output, SIGTERM -> exit 0. every configuration is a distinct non-trivial case",
    "trusted_base": PROC_TB,
    "assumptions": ["PARTIAL: the theorem covers the start-up resource logic (mutex, TCP bind rule, every start order) and the validator-implies-preconditions step; thread timing, accept-queue behaviour and memory use are only sampled by the process runs"],
    "design_ref": "5/C15",
    "level_text": "PARTIAL. Lean theorems: with SO_REUSEPORT every worker starts for every worker count and every mutex acquisition order, validator acceptance implies Server::new's unwrap preconditions, and the unrepaired bind leaves exactly one worker (witness). Runtime part by process-level correspondence: live worker threads, per-worker certificates, sequential and parallel health probes, exit status on the documented option grid incl. example.cfg",
    "technique": "Lean 4 proof (start-up resource model, all orders) + process-level correspondence on the configuration grid",
}
PROPS["C18"] = {
    "claimed": True, "module": "Rough.Props.C18", "need_bins": True,
    "theorems": ["Rough.Props.C18.C18_workers"],
    "streams": [{"args": ["workers"], "shards_quick": 6, "shards_thorough": 16, "timeout": 1500}],
    "ops": ["mw"], "trivial": r"^$", "min_nontrivial": 4,
    "rule": "real server binary with num_workers in {1,2,16} (quick) / {1,2,4,8,16} (thorough), rounds of 1..64 concurrent harness clients (own sockets, mixed classic/IETF, 8 or 12 requests each, no retransmission, 1.5 s timeout), closed-loop or firing all requests at once, batch_size rotating over {64,1,2,63}, 4 (quick) / 30 (thorough) seeded rounds per worker count; every reply verified by the Lean spec verifier for its own request under the seed's long-term key; lost, invalid, duplicate (extra) replies, live worker threads and panic output counted. every round is a distinct case",
    "trusted_base": PROC_TB,
    "assumptions": ["PARTIAL: 'every schedule' is reduced to 'every assignment of datagrams to workers and every chunking' (the theorem's quantifier); that the kernel delivers each datagram to exactly one socket and that crossbeam/mio are data-race free is trusted (safe Rust)"],
    "design_ref": "5/C18",
    "level_text": "PARTIAL. Lean theorem: n servers created from one seed, each processing an arbitrary list of passes (any kernel distribution, any chunking): no worker fails, each sends exactly one reference reply per accepted request to its source, and every reply verifies under the single long-term key and is no longer than its request. Runtime part: concurrent-client rounds against the real multi-worker binary judged by the Lean verifier",
    "technique": "Lean 4 proof (per-worker refinement, quantified over assignments) + concurrent process-level validation",
}
PROPS["C19"] = {
    "claimed": True, "module": "Rough.Props.C19", "need_bins": True,
    "theorems": ["Rough.Props.C19.C19_call_bounded", "Rough.Props.C19.C19_worker_exits", "Rough.Props.C19.C19_reporter_exits",
                 "Rough.Props.C19.C19_flood_starves_unfixed", "Rough.Props.C19.C19_replies_complete"],
    "streams": [{"args": ["shutdown"], "shards_quick": 6, "shards_thorough": 16, "timeout": 1500}],
    "ops": ["sd"], "trivial": r"^$", "min_nontrivial": 10,
    "rule": "real server binary, num_workers {1,4,16} x client_stats off/on x {SIGINT, SIGTERM} x regime {idle, closed-loop load from 4 harness threads, open-loop flood from 6 threads that keep the receive queue non-empty} x signal delay swept over 4 (quick) / 12 (thorough) values 0..300 ms x status_interval rotating default(600)/10/120: exit status, time to exit, panic output, and the last responses received before exit verified by the Lean spec verifier. L1 = exit 0 within 5 s, no panic, responses complete and valid. every run is a distinct case",
    "trusted_base": PROC_TB,
    "assumptions": ["PARTIAL: the theorem is about the polling-loop logic under an adversarial arrival process; the ctrlc signal thread, wall-clock latency and exit codes are only measured"],
    "design_ref": "5/C19",
    "level_text": "PARTIAL. Lean theorems: every process_events call ends after <= 16 batches for every arrival process, so a worker returns right after the first call following the flag and the reporter at its next check; the unrepaired loop never returns under a flood (witness); exit happens only between calls so emitted responses are complete (C02). Runtime part: signal sweeps on the real binary in idle/load/flood regimes",
    "technique": "Lean 4 proof (bounded-call polling loop vs adversarial arrivals) + process-level signal sweeps",
}
# process-level streams added to C03 and C20
PROPS["C20"]["streams"] = PROPS["C20"]["streams"] + [{"args": ["procleak"], "shards_quick": 4, "shards_thorough": 8, "timeout": 600}]
PROPS["C20"]["streams"] = PROPS["C20"]["streams"] + [{"args": ["cfgleak"], "shards_quick": 2, "shards_thorough": 4}]
PROPS["C20"]["ops"] = ["srv", "procleak", "cfgleak"]
PROPS["C20"]["rule"] += ". cfgleak cases: the configuration loaders (make_config, is_valid_config, load_seed, LongTermKey::new) run in a probe process under a capturing logger at every level Off..Trace, file and environment source, seed written in lower / upper / mixed-case hexadecimal, valid and four invalid configurations: every log record, the error's Debug text, the key's Display text and the probe's stderr are searched (hex patterns case-insensitively)"
PROPS["C20"]["need_bins"] = True


# ---------------------------------------------------------------------------------------------
# Constant ties: propositions relating the constants REGENERATED from /repo's source on every run
# (checklib/extract_constants.py -> lean/Rough/Generated/Constants.lean) to the model's constants.
# (expr, tactic); discharged in a scratch file by ./check and counted as proof obligations.
G = "Rough.Generated"
D = "by decide"
K = "Rough.Lemmas.Keys"
CONST = {
    "missing": (f"{G}.MISSING = []", D),
    "min_len": (f"Rough.MIN_REQUEST_LENGTH = {G}.MIN_REQUEST_LENGTH ∧ Rough.MAX_REQUEST_LENGTH = {G}.MAX_REQUEST_LENGTH", D),
    "framing": (f"Rough.framing = {G}.REQUEST_FRAMING_BYTES ∧ Rough.Spec.RT.magic = {G}.REQUEST_FRAMING_BYTES", D),
    "tweaks": (f"{G}.TREE_LEAF_TWEAK = [0] ∧ {G}.TREE_NODE_TWEAK = [1] ∧ {G}.IETF_NODE_LEN = 32", D),
    "tags": (f"Rough.Tag.all.map Rough.Tag.wire = {G}.TAG_WIRES ∧ Rough.Tag.all.map Rough.Tag.name = {G}.TAG_ORDER ∧ {G}.TAG_FROM_WIRE_CONSISTENT = true ∧ {G}.NESTED_TAGS_ARE_CERT_DELE_SREP = true", D),
    "ver_wire": (f"Rough.Version.google.wire = {G}.GOOGLE_WIRE ∧ Rough.Version.ietf.wire = {G}.IETF_WIRE ∧ Rough.Spec.RT.ver13 = {G}.IETF_WIRE ∧ {G}.SUPPORTED_VERSIONS_GOOGLE_THEN_IETF = true", D),
    "dele_ctx": (f"Rough.Version.google.delePrefix = {G}.GOOGLE_DELE_PREFIX ∧ Rough.Version.ietf.delePrefix = {G}.IETF_DELE_PREFIX", f"by rw [{K}.delePrefix_google, {K}.delePrefix_ietf]; decide"),
    "srep_ctx": (f"Rough.Version.google.srepPrefix = {G}.GOOGLE_SREP_PREFIX ∧ Rough.Version.ietf.srepPrefix = {G}.IETF_SREP_PREFIX", f"by rw [{K}.srepPrefix_eq, {K}.srepPrefix_eq]; decide"),
    "nonce_len": (f"Rough.Version.google.nonceLen = {G}.CLASSIC_NONCE_LENGTH ∧ Rough.Version.ietf.nonceLen = {G}.RFC_NONCE_LENGTH", D),
    "iter_limit": (f"{G}.ITERATION_LIMIT = 4", D),
    "radi": (f"Rough.radiOf .google = {G}.RADI_GOOGLE ∧ Rough.radiOf .ietf = {G}.RADI_IETF ∧ {G}.CLASSIC_MIDP_SECS_FACTOR = 1000000 ∧ {G}.CLASSIC_MIDP_NANOS_DIVISOR = 1000", D),
    "srv_prefix": (f"{G}.HASH_PREFIX_SRV = [255]", D),
    "sig_len": (f"{G}.SIGNATURE_LENGTH = 64 ∧ {G}.SEED_LENGTH = 32", D),
    "max_batches": (f"{G}.MAX_BATCHES_PER_CALL = 16 ∧ {G}.POLL_TIMEOUT_MS = 100", D),
    "http": (f"{G}.HTTP_RESPONSE = [72, 84, 84, 80, 47, 49, 46, 49, 32, 50, 48, 48, 32, 79, 75, 10, 67, 111, 110, 116, 101, 110, 116, 45, 76, 101, 110, 103, 116, 104, 58, 32, 48, 10, 67, 111, 110, 110, 101, 99, 116, 105, 111, 110, 58, 32, 99, 108, 111, 115, 101, 10, 10]", D),
    "cfg_limits": (f"{G}.DEFAULT_BATCH_SIZE = 64 ∧ {G}.DEFAULT_STATUS_INTERVAL = 600 ∧ {G}.MAX_VALID_BATCH_SIZE = 64 ∧ {G}.MAX_VALID_FAULT_PERCENTAGE = 50 ∧ {G}.ENV_NAMES_MATCH_DOCUMENTED = true", D),
    "kms": (f"Rough.Envelope.AD = {G}.KMS_AD ∧ Rough.Envelope.MIN_PAYLOAD_SIZE = {G}.KMS_MIN_PAYLOAD_SIZE ∧ {G}.KMS_NONCE_LEN_BYTES = 12 ∧ {G}.KMS_TAG_LEN_BYTES = 16 ∧ {G}.KMS_DEK_LEN_BYTES = 32", D),
    "max_clients": (f"{G}.MAX_CLIENTS = 5000000", D),
}
CONST_OF = {
    "C01": ["missing", "tags", "framing", "dele_ctx", "srep_ctx", "tweaks", "ver_wire"],
    "C02": ["missing", "tags", "framing", "dele_ctx", "srep_ctx", "tweaks", "ver_wire", "radi", "sig_len"],
    "C03": ["missing", "tags", "framing", "nonce_len", "ver_wire", "min_len"],
    "C04": ["missing", "tweaks"],
    "C05": ["missing", "tags", "framing"],
    "C06": ["missing", "tags"],
    "C07": ["missing", "min_len", "nonce_len", "framing"],
    "C08": ["missing", "min_len", "nonce_len", "max_batches"],
    "C09": ["missing", "max_batches", "tags"],
    "C10": ["missing", "dele_ctx", "srv_prefix", "sig_len"],
    "C11": ["missing", "radi"],
    "C12": ["missing", "iter_limit", "ver_wire", "nonce_len"],
    "C13": ["missing", "sig_len"],
    "C14": ["missing", "kms"],
    "C15": ["missing", "cfg_limits", "http"],
    "C16": ["missing", "cfg_limits"],
    "C17": ["missing", "max_clients"],
    "C18": ["missing", "max_batches"],
    "C19": ["missing", "max_batches"],
    "C20": ["missing", "dele_ctx"],
}
# `missing` (a constant the extractor could no longer find) is not a tie of its own any more: a constant that is not found
# is not defined in Generated/Constants.lean, so exactly the ties that mention it fail to elaborate — and only the
# properties that depend on that constant report it (a benign refactoring of online.rs raised C14's alarm before).
for _pid, _names in CONST_OF.items():
    PROPS[_pid]["const_checks"] = [(n,) + CONST[n] for n in _names if n != "missing"]


# theorems added later (Rough/Props/Extra.lean), attributed to their properties
EXTRA = {
    "C01": ["C01_run_sound"],
    "C02": ["C02_grease_reorder", "C02_grease_corrupt_sig", "C02_no_nonc_rejected"],
    "C05": ["C05_encode_decode_unbounded"],
    "C09": ["C09_run_append"],
    "C19": ["C09_run_append"],
    "C17": ["C17_pipeline"],
}
for _pid, _ts in EXTRA.items():
    PROPS[_pid]["extra_modules"] = ["Rough.Props.Extra"]
    PROPS[_pid]["theorems"] = PROPS[_pid]["theorems"] + ["Rough.Props.Extra." + t for t in _ts]


# function-level request / grease stream
_REQS = {"args": ["reqs"], "shards_quick": 8, "shards_thorough": 16}
# the exhaustive version-list scenarios also belong to C09: a framed request must be answered by the IETF responder or not at all
PROPS["C09"]["streams"] = PROPS["C09"]["streams"] + [{"args": ["srv", "c12"], "shards_quick": 8, "shards_thorough": 16}]
PROPS["C09"]["rule"] += "; plus C12's exhaustive version-list scenarios (every reply judged per socket as above)"
PROPS["C02"]["streams"] = PROPS["C02"]["streams"] + [{"args": ["srv", "c12"], "shards_quick": 8, "shards_thorough": 16}]
PROPS["C02"]["rule"] += "; plus C12's exhaustive version-list scenarios (every reply must verify for a request of ITS protocol)"
for _pid, _op in (("C07", "req"), ("C12", "req"), ("C02", "grease")):
    PROPS[_pid]["streams"] = PROPS[_pid]["streams"] + [_REQS]
    PROPS[_pid]["ops"] = PROPS[_pid]["ops"] + [_op]
PROPS["C07"]["rule"] += "; function level: request::nonce_from_request called directly on a long-lived 64 KiB buffer holding stale content (15 000 quick / 150 000 thorough datagrams: valid, 18 invalid kinds, one- and two-step structured mutants of valid requests, VER-list and SRV variants, nonce-length variants) judged by the reference classification"
PROPS["C12"]["rule"] += "; function level: the same 15 000 / 150 000 direct nonce_from_request cases incl. random VER lists of length 0..6 and SRV absent / correct / other server / truncated / extended"
PROPS["C02"]["rule"] += "; function level: Grease::add_errors on 1500 / 6000 response-shaped messages: result is the original, or is rejected by the reference decoder (reordering), or is a signature corruption (SIG replaced, NONC dropped) - no third state"


EXTRA2 = {
    "C03": ["C03_accepts_spec_valid"],
    "C09": ["C09_no_cross_client"],
    "C05": ["C05_values_aligned"],
    "C06": ["C05_values_aligned"],
    "C16": ["C16_bad_seed_text_refused"],
}
EXTRA3 = {
    "C17": ["C17_send_failure_refines", "C17_send_all_ok", "C17_send_events_match_wire"],
}
for _pid, _ts in EXTRA3.items():
    PROPS[_pid]["extra_modules"] = sorted(set(PROPS[_pid].get("extra_modules", []) + ["Rough.Props.Extra3"]))
    PROPS[_pid]["theorems"] = PROPS[_pid]["theorems"] + ["Rough.Props.Extra3." + t for t in _ts]
for _pid, _ts in EXTRA2.items():
    PROPS[_pid]["extra_modules"] = sorted(set(PROPS[_pid].get("extra_modules", []) + ["Rough.Props.Extra2"]))
    PROPS[_pid]["theorems"] = PROPS[_pid]["theorems"] + ["Rough.Props.Extra2." + t for t in _ts]


# end-to-end composition client ∘ server (Rough/Props/E2E.lean)
for _pid in ("C01", "C02", "C03", "C09"):
    PROPS[_pid]["extra_modules"] = sorted(set(PROPS[_pid].get("extra_modules", []) + ["Rough.Props.E2E"]))
    PROPS[_pid]["theorems"] = PROPS[_pid]["theorems"] + ["Rough.Props.E2E.E2E_client_server", "Rough.Props.E2E.E2E_client_loop"]

# event-loop stream: process_events one call at a time against Model/EventLoop.lean
_LOOP = {"args": ["evloop"], "shards_quick": 8, "shards_thorough": 16}
for _pid in ("C08", "C09", "C15", "C17", "C18", "C19"):
    PROPS[_pid]["streams"] = PROPS[_pid]["streams"] + [_LOOP]
    PROPS[_pid]["ops"] = PROPS[_pid]["ops"] + ["loop"]
    PROPS[_pid]["rule"] += ("; event loop: the real Server::process_events called ONE CALL AT A TIME on a real mio socket and health-check listener "
                            "(batch_size 1,2,3,64 quick / +5,7 thorough): bursts of 0, 1, B, 16B-1, 16B, 16B+1, 32B-1, 32B, 32B+1, 48B+2 datagrams (valid classic / valid IETF / invalid from 4 sockets), "
                            "arrivals between calls while a backlog exists, idle calls, 1..33 TCP connections pending behind one readiness event mixed with datagrams; after every call the replies per socket and "
                            "the connections answered are recorded. L1 = by the end every socket got exactly one reply per valid request, every connection the fixed HTTP response, no call answered more than 16*batch_size datagrams, the recorder's valid / invalid / health-check / response totals at the end equal the traffic served (C17); "
                            "L2 = per call, reply destinations and connections answered equal Model/EventLoop.lean (edge-triggered readiness, backlog flag, 16-batch bound)")

# event-loop theorems (Rough/Props/Loop.lean), attributed to the properties they extend
LOOP_THMS = {
    "C08": ["LOOP_service_refines", "LOOP_call_safe", "LOOP_run_safe", "LOOP_live_new", "LOOP_live_env", "LOOP_live_call", "LOOP_drains"],
    "C09": ["LOOP_service_refines", "LOOP_plan_conserves", "LOOP_call_progress", "LOOP_drains"],
    "C15": ["LOOP_hc_exactly_once", "LOOP_hc_once_strands", "LOOP_live_call", "LOOP_live_env"],
    "C17": ["LOOP_recorder"],
    "C18": ["LOOP_live_call", "LOOP_live_env", "LOOP_drains", "LOOP_noflag_strands", "LOOP_stuck"],
    "C19": ["LOOP_plan_bounded", "LOOP_service_refines"],
}
for _pid, _ts in LOOP_THMS.items():
    PROPS[_pid]["extra_modules"] = sorted(set(PROPS[_pid].get("extra_modules", []) + ["Rough.Props.Loop"]))
    PROPS[_pid]["theorems"] = PROPS[_pid]["theorems"] + ["Rough.Props.Loop." + t for t in _ts]

# C20: Display/Debug of the key-holding objects are scanned in the `ltk` stream
PROPS["C20"]["streams"] = PROPS["C20"]["streams"] + [{"args": ["ltk"], "shards_quick": 4, "shards_thorough": 8}]
PROPS["C20"]["ops"] = PROPS["C20"]["ops"] + ["ltk"]
PROPS["C20"]["rule"] += "; Display and Debug of MsgSigner (empty and pending buffer), LongTermKey and OnlineKey for every seed of the `ltk` stream are scanned with the same patterns"

LOOP2_THMS = {
    "C19": ["LOOP_call_batches_bounded", "LOOP_polling_exits"],
    "C08": ["LOOP_polling_exits"],
    "C18": ["LOOP_distribution_independent"],
}
for _pid, _ts in LOOP2_THMS.items():
    PROPS[_pid]["extra_modules"] = sorted(set(PROPS[_pid].get("extra_modules", []) + ["Rough.Props.Loop2"]))
    PROPS[_pid]["theorems"] = PROPS[_pid]["theorems"] + ["Rough.Props.Loop2." + t for t in _ts]

# failing sends: the datagrams that DO leave must still be complete valid responses (C02, C09)
_RESPSEND = {"args": ["respsend"], "shards_quick": 4, "shards_thorough": 8}
for _pid in ("C02", "C09", "C10"):
    PROPS[_pid]["streams"] = PROPS[_pid]["streams"] + [_RESPSEND]
    PROPS[_pid]["ops"] = PROPS[_pid]["ops"] + ["respsend"]
    PROPS[_pid]["rule"] += ("; failing sends: Responder::send_responses on a real socket where some return addresses cannot be sent to (IPv6 address from an IPv4 socket; UDP port 0 of an address "
                            "that also has reachable requests), patterns none/first/last/middle/all/random: every datagram that arrives must verify (independent Lean verifier: certificate under the seed's long-term key, "
                            "response signature, Merkle path) for a distinct request queued for that address; every third case is preceded by an earlier batch through the SAME responder "
                            "(1..17 requests, none/some/all of its sends failing, reset() in between as the server does)")


# ---------------------------------------------------------------------------------------------------------------------
# Translator tie (DESIGN 2.1c): Lean code regenerated from /repo's Rust sources on every run by checklib/rs2lean, and the
# bridge theorems (Rough/Bridge/*.lean) that prove it equal to the hand-written model for all inputs.
#   lean module -> rs2lean module(s) it depends on, theorems to audit, properties whose proof obligations they are
BRIDGE = {
    "Rough.Bridge.Message": {
        "rs_modules": ["Message"],
        "theorems": ["with_capacity_eq", "add_field_eq", "get_field_eq", "num_fields_eq", "encoded_size_eq", "encode_eq",
                     "encode_framed_eq", "calculate_padding_length_eq", "from_bytes_sim", "from_bytes_no_panic"],
        "props": ["C05", "C06", "C02", "C03"],
    },
    "Rough.Bridge.Request": {
        "rs_modules": ["Message", "Request"],
        "theorems": ["get_supported_version_eq", "is_rfc_request_eq", "nonce_from_classic_request_sim",
                     "nonce_from_rfc_request_sim", "nonce_from_request_sim", "nonce_from_request_no_panic"],
        "props": ["C07", "C08", "C09", "C12"],
    },
    "Rough.Bridge.Client": {
        "rs_modules": ["Client", "Message", "Merkle", "LongTerm"],
        "theorems": ["calc_srv_value_sim", "make_request_sim", "receive_response_sim", "validate_sig_eq", "handle_sim"],
        "props": ["C01", "C03"],
    },
    "Rough.Bridge.Keys": {
        "rs_modules": ["Online", "LongTerm", "Responder", "Message", "Merkle"],
        "theorems": ["ltk_calc_srv_value_sim", "ltk_new_sim", "ltk_public_key_eq", "ltk_srv_value_eq", "make_dele_sim", "make_cert_sim",
                     "classic_midp_sim", "rfc_midp_eq", "make_srep_sim", "make_response_sim", "responder_reset_eq",
                     "responder_is_empty_eq", "add_classic_request_sim", "add_ietf_request_sim"],
        "props": ["C02", "C09", "C10", "C11"],
    },
    "Rough.Bridge.SendResponses": {
        "rs_modules": ["Responder", "Online", "Message", "Merkle"],
        "theorems": ["send_responses_sim"],
        "props": ["C08", "C09", "C17"],
    },
    "Rough.Bridge.Tables": {
        "rs_modules": ["Tag", "Version"],
        "theorems": ["tag_wire_value_eq", "tag_is_nested_eq", "tag_as_string_eq", "tag_from_wire_wire", "tag_from_wire_ok",
                     "tag_from_wire_no_panic", "tag_from_wire_eq", "version_wire_bytes_eq", "version_dele_prefix_eq",
                     "version_sign_prefix_eq", "version_supported_versions_wire_eq"],
        "props": ["C05", "C10", "C12"],
    },
    "Rough.Bridge.Sign": {
        "rs_modules": ["Sign"],
        "theorems": ["signer_from_seed_sim", "signer_update_eq", "signer_sign_eq", "signer_public_key_bytes_eq", "verifier_new_sim",
                     "verifier_update_eq", "verifier_verify_sim"],
        "props": ["C13"],
    },
    "Rough.Bridge.Envelope": {
        "rs_modules": ["Envelope"],
        "theorems": ["decrypt_seed_sim", "decrypt_seed_no_panic"],
        "props": ["C14"],
    },
    "Rough.Bridge.Config": {
        "rs_modules": ["Config"],
        "theorems": ["is_valid_config_true_iff", "is_valid_config_not_err"],
        "props": ["C16", "C15"],
    },
    "Rough.Bridge.ServerLoop": {
        "rs_modules": ["Server", "Responder", "Request", "Online", "Message", "Merkle"],
        "theorems": ["collect_requests_sim", "service_socket_sim", "service_socket_full", "send_responses_exact"],
        # of server.rs only the datagram path belongs to this bridge (the event loop has its own: ProcessEvents)
        "rs_functions": {"Server": ["Server::collect_requests", "Server::service_socket", "struct Server"]},
        "props": ["C07", "C08", "C09", "C17", "C18", "C19"],
    },
    "Rough.Bridge.ProcessEvents": {
        "rs_modules": ["Server", "Responder", "Request", "Online", "Message", "Merkle", "StatsCore"],
        "theorems": ["process_events_sim", "handle_health_check_total", "handle_health_check_no_listener", "send_client_stats_eq"],
        "props": ["C08", "C09", "C15", "C17", "C18", "C19"],
    },
    # property theorems stated directly about the regenerated code (bridge theorem composed with the model-level theorems)
    "Rough.Props.GenLoop": {
        "rs_modules": ["Server", "Responder", "Request", "Online", "Message", "Merkle", "StatsCore"],
        "namespace": "Rough.Props.GenLoop",
        "theorems": ["process_events_sim_env", "GEN_process_events_returns", "GEN_process_events_bounded"],
        "props": ["C08", "C18", "C19"],
    },
    "Rough.Bridge.ConfigLoaders": {
        "rs_modules": ["EnvConfig", "FileConfig"],
        "theorems": ["env_config_new_eq", "loadEnv_raw", "file_config_new_eq", "file_config_new_eq_resolved", "file_config_new_docs", "file_config_unknown_key",
                     "file_config_unknown_key_resolved", "file_config_unknown_key_counterexample"],
        "props": ["C16"],
    },
    "Rough.Props.GenCodec": {
        "rs_modules": ['Message'],
        "namespace": "Rough.Props.GenCore",
        "theorems": ['GEN_decode_encode', 'GEN_encode_decode', 'GEN_encode_framed', 'GEN_encoded_size', 'GEN_from_bytes_total', 'GEN_payload'],
        "props": ['C05', 'C06'],
    },
    "Rough.Props.GenRequest": {
        "rs_modules": ['Request', 'Message'],
        "namespace": "Rough.Props.GenCore",
        "theorems": ['GEN_request_total', 'GEN_request_only_wellformed', 'GEN_request_spec', 'GEN_request_only_if'],
        "props": ['C07', 'C12'],
    },
    "Rough.Props.GenMerkle": {
        "rs_modules": ['Merkle'],
        "namespace": "Rough.Props.GenCore",
        "theorems": ['GEN_merkle_complete', 'GEN_merkle_binding'],
        "props": ['C04'],
    },
    "Rough.Props.GenKeys": {
        "rs_modules": ['Online', 'Message'],
        "namespace": "Rough.Props.GenCore",
        "theorems": ['GEN_midpoint_classic', 'GEN_midpoint_ietf', 'GEN_srep_midpoint'],
        "props": ['C11'],
    },
    "Rough.Props.GenSign": {
        "rs_modules": ['Sign'],
        "namespace": "Rough.Props.GenCore",
        "theorems": ['GEN_signer', 'GEN_signer_no_carry_over', 'GEN_signer_chunking', 'GEN_verifier'],
        "props": ['C13'],
    },
    "Rough.Props.GenEnvelope": {
        "rs_modules": ['Envelope'],
        "namespace": "Rough.Props.GenCore",
        "theorems": ['GEN_decrypt_seed_total', 'GEN_decrypt_round_trip', 'GEN_decrypt_tamper', 'GEN_decrypt_wrong_key'],
        "props": ['C14'],
    },
    "Rough.Props.GenClient": {
        "rs_modules": ['Client', 'Message', 'Merkle'],
        "namespace": "Rough.Props.GenCore",
        "theorems": ['GEN_client_sound', 'GEN_client_request_wellformed', 'GEN_client_accepts'],
        "props": ['C01', 'C03'],
    },
    "Rough.Props.GenStats": {
        "rs_modules": ['StatsCore', 'StatsPer'],
        "namespace": "Rough.Props.GenCore",
        "theorems": ['GEN_stats_conservation'],
        "props": ['C17'],
    },
    "Rough.Props.GenResponder": {
        "rs_modules": ["Responder", "Online", "LongTerm", "Message", "Merkle"],
        "namespace": "Rough.Props.GenCore",
        "theorems": ["GEN_cert_valid_aligned", "GEN_cert_valid", "GEN_send_responses_replies", "GEN_send_responses_verified", "GEN_send_responses_returns"],
        "props": ["C10", "C02", "C09"],
    },
    "Rough.Props.GenSecrets": {
        "rs_modules": ["Responder", "Online", "LongTerm", "Message", "Merkle"],
        "rs_functions": {"Responder": ["Responder::new", "struct Responder"], "Online": ["OnlineKey::new", "OnlineKey::make_dele", "struct OnlineKey"]},
        "namespace": "Rough.Props.GenCore",
        "theorems": ["GEN_responders_factor"],
        "props": ["C20"],
    },
    "Rough.Props.GenWorkers": {
        "rs_modules": ["Responder", "Online", "LongTerm", "Message", "Merkle"],
        "rs_functions": {"Responder": ["Responder::new", "struct Responder"], "Online": ["OnlineKey::new", "OnlineKey::make_dele", "struct OnlineKey"]},
        "namespace": "Rough.Props.GenCore",
        "theorems": ["genResponders_sim", "GEN_workers_one_identity", "GEN_workers_same_identity"],
        "props": ["C18"],
    },
    "Rough.Props.GenConfig": {
        "rs_modules": ["EnvConfig", "FileConfig", "Config"],
        "namespace": "Rough.Props.GenConfig",
        "theorems": ["file_getters", "env_getters", "GEN_start_file", "GEN_start_file_resolved", "GEN_file_effective_is_written_resolved", "GEN_file_out_of_range_refused_resolved", "GEN_start_env", "GEN_file_effective_is_written",
                     "GEN_file_out_of_range_refused", "GEN_env_missing_required", "GEN_env_out_of_range_refused"],
        "props": ["C16"],
    },
    "Rough.Bridge.ResponderNew": {
        "rs_modules": ["Responder", "Online", "LongTerm", "Message", "Merkle"],
        "rs_functions": {"Responder": ["Responder::new", "struct Responder"], "Online": ["OnlineKey::new", "OnlineKey::make_dele", "struct OnlineKey"]},
        "theorems": ["online_key_new_eq", "responder_new_sim", "server_responders_sim"],
        "props": ["C10", "C02"],
    },
    "Rough.Bridge.Kms": {
        "rs_modules": ["Kms"],
        "theorems": ["load_seed_eq", "load_seed_depends_on_seed_only"],
        "props": ["C12", "C20"],
    },
    "Rough.Bridge.Stats": {
        "rs_modules": ["StatsCore", "StatsAgg", "StatsPer"],
        "theorems": ["uniq_init", "uniq_record", "per_client_record_eq", "per_client_clear_eq", "per_client_totals_eq",
                     "aggregated_record_eq", "aggregated_new_eq", "aggregated_clear_eq", "aggregated_totals_eq",
                     "client_stats_merge_eq", "client_stats_merge_other"],
        "props": ["C17"],
    },
    "Rough.Bridge.Reporter": {
        "rs_modules": ["Reporter", "StatsCore"],
        "theorems": ["reporterReceive_nodup", "receive_client_stats_eq"],
        "props": ["C17"],
    },
    "Rough.Bridge.Grease": {
        "rs_modules": ["Grease", "Message"],
        "theorems": ["grease_new_eq", "should_add_error_disabled", "should_add_error_enabled", "add_errors_sim", "add_errors_sim_gen",
                     "add_errors_sim_needs_sig", "greaseq_is_grease"],
        "props": ["C02"],
    },
    "Rough.Bridge.Merkle": {
        "rs_modules": ["Merkle"],
        "theorems": ["new_eq", "node_len_eq", "hash_leaf_eq", "hash_nodes_eq", "finalize_output_sim", "push_leaf_sim", "reset_eq",
                     "is_empty_sim", "get_paths_sim", "compute_root_sim", "root_from_paths_sim"],
        "props": ["C04"],
    },
}
for _mod, _b in BRIDGE.items():
    for _pid in _b["props"]:
        PROPS[_pid].setdefault("bridge", []).append(_mod)

_BRIDGE_WHAT = {
    "Rough.Bridge.Message": "message.rs (decoder, encoder, add_field/get_field, sizes)",
    "Rough.Bridge.Request": "request.rs (nonce_from_request and its helpers)",
    "Rough.Bridge.Merkle": "merkle.rs (push_leaf, compute_root, get_paths, root_from_paths, reset)",
    "Rough.Bridge.Client": "roughenough-client.rs (make_request, receive_response, ResponseHandler::new + extract_time with every validate_* step)",
    "Rough.Bridge.Keys": "online.rs / longterm.rs / responder.rs (make_dele, make_cert, classic_midp, rfc_midp, make_srep, make_response, add_*_request, reset)",
    "Rough.Bridge.Sign": "sign.rs (MsgSigner from_seed / update / sign / public_key_bytes, MsgVerifier new / update / verify; ed25519-dalek = the abstract scheme)",
    "Rough.Bridge.Envelope": "kms/envelope.rs decrypt_seed (blob parser, provider unwrap, AEAD open; ring AES-256-GCM and the provider are the model's abstract Aead / Kms)",
    "Rough.Bridge.Config": "config/mod.rs is_valid_config (every range / presence / directory / address decision of the start-up validator)",
    "Rough.Bridge.ServerLoop": "server.rs collect_requests and service_socket (the datagram path: classification of every received datagram, queuing, the two batches per pass, at most 16 batches per call, the backlog flag)",
    "Rough.Bridge.Stats": "stats/{mod,aggregated,per_client}.rs (every add_* of both recorders = the model's record; getters = the model's totals; ClientStats::merge)",
    "Rough.Bridge.Reporter": "stats/reporter.rs receive_client_stats (drains the queue of published snapshots, oldest first, and merges every entry = the model's reporterReceive)",
    "Rough.Bridge.Grease": "grease.rs (new, should_add_error, add_errors, randomly_order_tags, corrupt_response_signature; the random generator is a tape of draws)",
    "Rough.Bridge.Tables": "tag.rs / version.rs (wire values, from_wire, is_nested, names, signing contexts, supported-versions list: the tables the other generated modules use through externs)",
    "Rough.Bridge.ProcessEvents": "server.rs process_events / handle_health_check / send_client_stats (poll tokens, the three event arms, the backlog flag and the post-loop service, the accept loop, publication of the recorder's entries) refine the model EventLoop.processEvents the LOOP_* theorems are about",
    "Rough.Props.GenLoop": "server.rs process_events as regenerated from the source returns normally from every invariant-satisfying state for every token set, queue, clock, drawable fault injection and log level (GEN_process_events_returns) and puts at most 16*batch_size datagrams on the wire per call (GEN_process_events_bounded)",
    "Rough.Bridge.ConfigLoaders": "config/environment.rs EnvironmentConfig::new and config/file.rs FileConfig::new (every documented key: which text is refused — Err or panic — and the field value otherwise equal the model's envSet / fileSet / loadFile, for every process environment and every YAML mapping; no or several documents, unknown keys)",
    "Rough.Props.GenCodec": "stated directly about the regenerated code (bridge composed with the model-level theorem): codec round trip and canonicity of RtMessage::encode / from_bytes as regenerated, decoder totality, values are slices of the input",
    "Rough.Props.GenRequest": "stated directly about the regenerated code (bridge composed with the model-level theorem): the regenerated nonce_from_request never panics, accepts only well-formed 1024..1500-byte requests and agrees with the reference classification (must / may / no)",
    "Rough.Props.GenMerkle": "stated directly about the regenerated code (bridge composed with the model-level theorem): reset / push_leaf / compute_root / get_paths / root_from_paths as regenerated: every issued path recomputes the root, from any prior tree state; binding up to a hash collision",
    "Rough.Props.GenKeys": "stated directly about the regenerated code (bridge composed with the model-level theorem): classic_midp / rfc_midp / make_srep as regenerated: MIDP = floor(clock / unit), RADI, ROOT, VER / VERS, signature over the context-prefixed SREP",
    "Rough.Props.GenSign": "stated directly about the regenerated code (bridge composed with the model-level theorem): MsgSigner / MsgVerifier as regenerated: k-th signature = one-shot signature of the k-th message, no carry-over, chunking-independent, verify = one-shot verify",
    "Rough.Props.GenEnvelope": "stated directly about the regenerated code (bridge composed with the model-level theorem): decrypt_seed as regenerated: never panics, round trip with the model's encrypt, a different blob or key yields the seed only through an AEAD opening",
    "Rough.Props.GenClient": "stated directly about the regenerated code (bridge composed with the model-level theorem): the client's receive_response / ResponseHandler::new / extract_time as regenerated accept only responses that are authentic for this request under the pinned key (C01); the regenerated make_request builds a 1024 / 1036-byte request of class `must`, and the reference reply for any batch and position is accepted with the signed midpoint and radius, verified iff a key was supplied (C03)",
    "Rough.Props.GenStats": "stated directly about the regenerated code (bridge composed with the model-level theorem): PerClientStats as regenerated: every event counted once or overflowed, bounded number of tracked addresses",
    "Rough.Props.GenResponder": "stated directly about the regenerated code: LongTermKey::new + make_cert yield a certificate whose DELE carries the online key with window [0, 2^64-1] and whose signature verifies under the seed's key in the version's context (GEN_cert_valid); one batch of Responder::send_responses sends exactly the reference reply per queued request, to its source, in order, and the independent verifier accepts each (GEN_send_responses_replies / _verified); it returns normally for any drawable fault injection and any failing sends (GEN_send_responses_returns)",
    "Rough.Props.GenSecrets": "stated about the constructors as regenerated: the two responders Server::new keeps are a function of the seed's public interface — two seeds with the same public key and certificate signatures yield identical responders (GEN_responders_factor)",
    "Rough.Props.GenWorkers": "stated about the constructors as regenerated: any number of workers created from ONE seed (each with its own online seeds) get responders that are the model's Server.new responders, satisfy the server invariant the C18 theorem starts from, and carry certificates of the SAME long-term key (GEN_workers_one_identity / _same_identity)",
    "Rough.Props.GenConfig": "C16 stated about the regenerated loaders, ServerConfig getters and validator composed as main composes them: effective = written, out-of-range refused, missing required refused (GEN_start_file / GEN_start_env = the model start)",
    "Rough.Bridge.ResponderNew": "OnlineKey::new and Responder::new (online key from the drawn seed, certificate = make_cert of the SAME long-term key object for this version, empty queue and tree): the two responders created in Server::new's order are the model's Server.new responders",
    "Rough.Bridge.Kms": "kms/mod.rs load_seed (the variant compiled without a KMS feature): with plaintext protection the seed used is the configured seed, a function of the configuration alone (no state, no cache); any other protection fails",
    "Rough.Bridge.SendResponses": "responder.rs send_responses (the whole batch loop incl. failing sends, fault injection, lazily evaluated debug! arguments, statistics events)",
}
for _pid, _cfg in PROPS.items():
    _bs = _cfg.get("bridge", [])
    if _bs:
        _what = "; ".join(_BRIDGE_WHAT[b] for b in _bs)
        _cfg["technique"] += " + Rust-to-Lean translator (rs2lean) with bridge theorems re-checked against the regenerated source on every run"
        _cfg["level_text"] += ("; additionally the Lean code regenerated from /repo's Rust source on every run by the rs2lean translator is proved equal "
                               "(for all inputs, up to error kinds and panic sites) to the model functions these theorems are about: " + _what)
        _cfg["trusted_base"] = list(_cfg.get("trusted_base", [])) + [
            "rs2lean (checklib/rs2lean: parser + emitter for the Rust subset, its prelude Rough/Gen/Prelude.lean and the extern table that maps Tag/Version tables, MsgSigner/MsgVerifier, SHA-512 and SystemTime onto model parameters) is trusted to render Rust semantics faithfully; usize + and * are assumed not to overflow"]

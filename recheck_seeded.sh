#!/bin/bash
# recheck_seeded.sh [pattern] : re-run the checks against every stored seeded change (seeded/*/patch.diff) and every
# reverse patch of a repaired defect (mutants/unfix-*.patch): apply to /repo, run the check(s) that are recorded as
# catching it, undo. Prints one line per change; exit 1 if any change is no longer detected.
# NEVER run this while other checks are running: it patches /repo's working tree for the duration of each check.
cd /verif
export VERIF_EVIDENCE_DIR=/tmp/verif-experiment-evidence
PAT=${1:-.}
git -C /repo diff --quiet || { echo "/repo working tree is not clean"; exit 2; }
MISS=0
run_one() { # name patch checks...
  local name=$1 patch=$2; shift 2
  git -C /repo apply "/verif/$patch" 2>/dev/null || { echo "$name: PATCH DOES NOT APPLY"; MISS=$((MISS+1)); return; }
  local res="" hit=0
  for c in "$@"; do
    o=$(./check $c 2>&1); rc=$?
    res="$res $c:rc=$rc"
    [ $rc = 1 ] && echo "$o" | grep -q "^VIOLATION property=$c" && hit=1
  done
  git -C /repo checkout -- .
  if [ $hit = 1 ]; then echo "$name: detected ($res )"; else echo "$name: NOT DETECTED ($res )"; MISS=$((MISS+1)); fi
}
for d in seeded/C*/; do
  n=$(basename $d)
  echo "$n" | grep -q "$PAT" || continue
  checks=$(python3 -c "
import json,re
m=json.load(open('$d/meta.json'))
cs=[c.split(':')[0] for c in m.get('confirmed_by_me',{}).get('checks_run',[]) if c.endswith('rc=1')]
print(' '.join(cs) if cs else re.match(r'C\d+','$n').group(0))")
  run_one $n $d/patch.diff $checks
done
for p in mutants/unfix-*.patch; do
  n=$(basename $p .patch)
  echo "$n" | grep -q "$PAT" || continue
  checks=$(python3 -c "
import json
k=json.load(open('known_findings.json'))
fid='$n'.split('-')[1]
ps=[f['property'] for f in k.get('findings',[])+k.get('fixed',[]) if f.get('id')==fid]
print(' '.join(sorted(set(ps))))" 2>/dev/null)
  [ -z "$checks" ] && { echo "$n: no property recorded"; continue; }
  run_one $n $p $checks
done
echo "not detected: $MISS"
[ $MISS = 0 ]

import Rough.Driver.Codec
import Rough.Driver.Merkle
import Rough.Driver.Server
import Rough.Driver.Keys
import Rough.Driver.Stats
import Rough.Driver.Client
import Rough.Driver.Config
import Rough.Driver.Envelope
import Rough.Driver.Procs
import Rough.Driver.Reqs
import Rough.Driver.RespSend
import Rough.Driver.Loop
open Rough Rough.Driver

def dispatch (op : String) (args : List String) (impl : String) : Verdict :=
  match op with
  | "dec" => opDec args impl
  | "disp" => opDisp args impl
  | "enc" => opEnc args impl
  | "enci" => opEncIgnoring args impl
  | "merkle" => opMerkle args impl
  | "srv" => opSrv args impl
  | "sign" => opSign args impl
  | "vrf" => opVrf args impl
  | "ltk" => opLtk args impl
  | "srep" => opSrep args impl
  | "stats" => opStats args impl
  | "rep" => opRep args impl
  | "client" => opClient args impl
  | "noncepool" => opNoncePool args impl
  | "cfg" => opCfg args impl
  | "envenc" => opEnvEnc args impl
  | "envdec" => opEnvDec args impl
  | "startup" => opStartup args impl
  | "mw" => opMw args impl
  | "sd" => opSd args impl
  | "clientreal" => opClientReal args impl
  | "procleak" => opProcLeak args impl
  | "req" => opReq args impl
  | "cfgleak" => opCfgLeak args impl
  | "respsend" => opRespSend args impl
  | "loop" => opLoop args impl
  | "grease" => opGrease args impl
  | "respond" => opRespond (args ++ [impl])
  | _ => bad ("unknown op " ++ op)

def handle (line : String) : String :=
  let parts := line.splitOn "\t"
  match parts with
  | op :: rest =>
    if rest.isEmpty then (bad "no impl column").render
    else (dispatch op rest.dropLast (rest.getLastD "")).render
  | [] => (bad "empty").render

partial def loop (h : IO.FS.Stream) (out : IO.FS.Stream) : IO Unit := do
  let line ← h.getLine
  if line.isEmpty then return ()
  let l := if line.endsWith "\n" then (line.dropEnd 1).toString else line
  out.putStrLn (handle l)
  out.flush
  loop h out

def main : IO Unit := do
  let stdin ← IO.getStdin
  let stdout ← IO.getStdout
  loop stdin stdout

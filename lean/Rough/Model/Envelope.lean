import Rough.Basic.Bytes
/-
  Model of src/kms/envelope.rs (after the `fix:` commit on MIN_PAYLOAD_SIZE), parametric in the AEAD
  and the key-management provider, both of which may fail. The random data key and nonce that
  `encrypt_seed` draws from SystemRandom are inputs.
-/
namespace Rough.Envelope

structure Aead where
  /-- key, nonce, associated data, plaintext ↦ ciphertext ‖ tag -/
  sealF : Bytes → Bytes → Bytes → Bytes → Option Bytes
  /-- key, nonce, associated data, ciphertext ‖ tag ↦ plaintext -/
  openF : Bytes → Bytes → Bytes → Bytes → Option Bytes

/-- functional correctness of the AEAD (an assumption where used) -/
def Aead.Correct (A : Aead) : Prop :=
  ∀ k n ad pt, k.length = 32 → n.length = 12 →
    ∃ ct, A.sealF k n ad pt = some ct ∧ A.openF k n ad ct = some pt

structure Kms where
  /-- `encrypt_dek`; `none` = provider error -/
  wrap : Bytes → Option Bytes
  /-- `decrypt_dek` -/
  unwrap : Bytes → Option Bytes

def AD : Bytes := [0x72, 0x6f, 0x75, 0x67, 0x68, 0x65, 0x6e, 0x6f, 0x75, 0x67, 0x68]   -- "roughenough"

def MIN_PAYLOAD_SIZE : Nat := 2 + 2 + 12 + 32 + 16

/-- the blob layout: le16 |wrapped| ‖ le16 12 ‖ wrapped ‖ nonce ‖ ciphertext‖tag -/
def layout (wrapped nonce ct : Bytes) : Bytes :=
  le16 wrapped.length ++ le16 nonce.length ++ wrapped ++ nonce ++ ct

/-- `encrypt_seed` with the drawn data key `dek` (32 bytes) and `nonce` (12 bytes) -/
def encrypt (K : Kms) (A : Aead) (dek nonce seed : Bytes) : Res Bytes :=
  match A.sealF dek nonce AD seed with
  | none => .err
  | some ct =>
    match K.wrap dek with
    | none => .err
    | some w => .ok (layout w nonce ct)

/-- split a blob into (wrapped key, nonce, ciphertext) as `decrypt_seed` does; `none` = InvalidData / short read -/
def parse (blob : Bytes) : Option (Bytes × Bytes × Bytes) :=
  if blob.length < MIN_PAYLOAD_SIZE then none else
  let dekLen := rd16 blob
  let nonceLen := rd16 (blob.drop 2)
  if nonceLen ≠ 12 ∨ dekLen > blob.length then none else
  let rest := blob.drop 4
  if rest.length < dekLen then none else
  let w := rest.take dekLen
  let rest2 := rest.drop dekLen
  if rest2.length < 12 then none else
  some (w, rest2.take 12, rest2.drop 12)

/-- `decrypt_seed` -/
def decrypt (K : Kms) (A : Aead) (blob : Bytes) : Res Bytes :=
  match parse blob with
  | none => .err
  | some (w, nonce, ct) =>
    match K.unwrap w with
    | none => .err
    | some dek =>
      if dek.length ≠ 32 then .err      -- UnboundKey::new(&AES_256_GCM, &dek) fails
      else match A.openF dek nonce AD ct with
        | some p => .ok p
        | none => .err

end Rough.Envelope

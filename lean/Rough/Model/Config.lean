import Rough.Basic.Bytes
/-
  Model of src/config/{file,environment,mod}.rs after the two `fix:` commits (checked integer
  conversions in the file loader; env var name ROUGHENOUGH_NUM_WORKERS).

  A setting is written as a scalar text `String`. The YAML side first resolves the scalar
  (yaml-rust: a plain scalar that parses as i64 is an Integer; quoted text or anything else that is
  not a number/bool/null is a String; the harness only writes plain decimal integers, quoted strings
  and plain non-numeric words). The environment side hands the raw text to `str::parse::<uN>()`.
  `none` = start-up refused (Err, validation failure, or a panic/expect in the loader).
-/
namespace Rough.Config

structure Cfg where
  port : Nat := 0
  interface : String := ""
  seed : Bytes := []
  batchSize : Nat := 64
  statusInterval : Nat := 600
  kmsPlain : Bool := true
  kms : String := "Plaintext"
  hcPort : Option Nat := none
  clientStats : Bool := false
  persistDir : Option String := none
  faultPct : Nat := 0
  numWorkers : Nat := 1
  deriving Repr, DecidableEq

def isDigit (c : Char) : Bool := '0' ≤ c ∧ c ≤ '9'

def digitsVal (cs : List Char) : Nat := cs.foldl (fun acc c => acc * 10 + (c.toNat - 48)) 0

/-- Rust `str::parse::<uN>()` for an N-bit unsigned type: optional leading '+', at least one ASCII
    digit, nothing else, value < 2^bits. -/
def parseUnsigned (bits : Nat) (s : String) : Option Nat :=
  let cs := s.toList
  let body := match cs with | '+' :: rest => rest | _ => cs
  if body.isEmpty ∨ ¬ body.all isDigit then none
  else
    let v := digitsVal body
    if v < 2 ^ bits then some v else none

/-- yaml-rust resolution of a plain scalar to i64 (`parse::<i64>()`: optional sign, digits) -/
def yamlInt (s : String) : Option Int :=
  let cs := s.toList
  let (neg, body) := match cs with
    | '-' :: rest => (true, rest)
    | '+' :: rest => (false, rest)
    | _ => (false, cs)
  if body.isEmpty ∨ ¬ body.all isDigit then none
  else
    let v : Int := digitsVal body
    let v := if neg then -v else v
    if -(2 : Int) ^ 63 ≤ v ∧ v < (2 : Int) ^ 63 then some v else none

/-- `T::try_from(i64)` for an unsigned N-bit T (the repaired `int_in_range`) -/
def narrow (bits : Nat) (v : Int) : Option Nat := if 0 ≤ v ∧ v < (2 : Int) ^ bits then some v.toNat else none

/-- does `str::parse::<f64>()` accept the text? [sign] digits [. digits] [e [sign] digits], at least
    one mantissa digit (the harness writes no inf/nan forms) -/
def isFloat (cs : List Char) : Bool :=
  let cs := match cs with | '-' :: r => r | '+' :: r => r | _ => cs
  let intPart := cs.takeWhile isDigit
  let rest := cs.dropWhile isDigit
  let (fracPart, rest) := match rest with
    | '.' :: r => (r.takeWhile isDigit, r.dropWhile isDigit)
    | _ => ([], rest)
  let mantOk := !(intPart.isEmpty && fracPart.isEmpty)
  let expOk := match rest with
    | [] => true
    | e :: r =>
      if e = 'e' ∨ e = 'E' then
        let r := match r with | '-' :: t => t | '+' :: t => t | _ => r
        !r.isEmpty && r.all isDigit
      else false
  mantOk && expOk

/-- a YAML string scalar: quoted text, or plain text that is not a number / bool / null -/
def yamlStr (s : String) : Option String :=
  let cs := s.toList
  match cs with
  | '"' :: rest =>
    if rest.getLast? = some '"' then some (String.ofList rest.dropLast) else none
  | _ =>
    if s = "" ∨ s = "~" ∨ s = "null" ∨ s = "true" ∨ s = "false" then none
    else if (yamlInt s).isSome then none
    else
      -- floats such as 1.5 / 1e3 resolve to Real, not String
      if isFloat cs then none else some s

def hexDecode (s : String) : Option Bytes := if s = "" then some [] else Rough.unhexL s.toList

def lower (s : String) : String := String.ofList (s.toList.map Char.toLower)

def parseKms (s : String) : Option (Bool × String) :=
  if s = "plaintext" then some (true, "Plaintext")
  else if s.startsWith "arn:" then some (false, "AwsKms(" ++ s ++ ")")
  else if s.startsWith "projects/" then some (false, "GoogleKms(" ++ s ++ ")")
  else none

/-- one `key: value` line of the YAML file -/
def fileSet (c : Cfg) (key val : String) : Option Cfg :=
  match key with
  | "port" => ((yamlInt val).bind (narrow 16)).map fun v => { c with port := v }
  | "interface" => (yamlStr val).map fun v => { c with interface := v }
  | "batch_size" => ((yamlInt val).bind (narrow 8)).map fun v => { c with batchSize := v }
  | "seed" =>
    -- an all-digit scalar too long for i64 is a YAML Real whose text is used (repaired loader)
    let text : Option String := if (yamlInt val).isNone ∧ isFloat val.toList then some val else yamlStr val
    (text.bind hexDecode).map fun v => { c with seed := v }
  | "status_interval" => ((yamlInt val).bind (narrow 64)).map fun v => { c with statusInterval := v }
  | "kms_protection" => ((yamlStr val).bind parseKms).map fun v => { c with kmsPlain := v.1, kms := v.2 }
  | "health_check_port" => ((yamlInt val).bind (narrow 16)).map fun v => { c with hcPort := some v }
  | "client_stats" => (yamlStr val).map fun v => { c with clientStats := lower v = "yes" ∨ lower v = "on" }
  | "persistence_directory" => some { c with persistDir := yamlStr val }
  | "fault_percentage" => ((yamlInt val).bind (narrow 8)).map fun v => { c with faultPct := v }
  | "num_workers" => ((yamlInt val).bind (narrow 64)).map fun v => { c with numWorkers := v }
  | _ => none

/-- `FileConfig::new`: an empty document is refused -/
def loadFile (defaults : Cfg) (entries : List (String × String)) : Option Cfg :=
  if entries.isEmpty then none else
  entries.foldl (fun acc kv => acc.bind fun c => fileSet c kv.1 kv.2) (some defaults)

def unquote (s : String) : String :=
  match s.toList with
  | '"' :: rest => if rest.getLast? = some '"' then String.ofList rest.dropLast else s
  | _ => s

/-- one environment variable (the harness passes the text with YAML quotes removed) -/
def envSet (c : Cfg) (key val : String) : Option Cfg :=
  match key with
  | "port" => (parseUnsigned 16 val).map fun v => { c with port := v }
  | "interface" => some { c with interface := val }
  | "seed" => (hexDecode val).map fun v => { c with seed := v }
  | "batch_size" => (parseUnsigned 8 val).map fun v => { c with batchSize := v }
  | "status_interval" => (parseUnsigned 16 val).map fun v => { c with statusInterval := v }
  | "kms_protection" => (parseKms val).map fun v => { c with kmsPlain := v.1, kms := v.2 }
  | "health_check_port" => (parseUnsigned 16 val).map fun v => { c with hcPort := some v }
  | "client_stats" => some { c with clientStats := lower val = "yes" ∨ lower val = "on" }
  | "fault_percentage" => (parseUnsigned 8 val).map fun v => { c with faultPct := v }
  | "num_workers" => (parseUnsigned 64 val).map fun v => { c with numWorkers := v }
  | "persistence_directory" => some { c with persistDir := some val }
  | _ => some c     -- an unrelated variable is simply not read

def loadEnv (defaults : Cfg) (entries : List (String × String)) : Option Cfg :=
  entries.foldl (fun acc kv => acc.bind fun c => envSet c kv.1 (unquote kv.2)) (some defaults)

/-- is "iface:port" a socket address? (IPv4 dotted quad; the harness uses no other form) -/
def isIpv4 (s : String) : Bool :=
  match s.splitOn "." with
  | [a, b, c, d] => [a, b, c, d].all fun x => x ≠ "" ∧ x.toList.all isDigit ∧ x.length ≤ 3 ∧ x.toNat! ≤ 255
  | _ => false

/-- facts about the file system that `is_valid_config` consults -/
structure FsFacts where
  isWritableDir : String → Bool

/-- `is_valid_config` -/
def isValid (fs : FsFacts) (c : Cfg) : Bool :=
  c.port ≠ 0 ∧ c.interface ≠ "" ∧ c.seed ≠ [] ∧
  (if c.kmsPlain then c.seed.length = 32 else c.seed.length > 32) ∧
  (1 ≤ c.batchSize ∧ c.batchSize ≤ 64) ∧ c.faultPct ≤ 50 ∧ c.numWorkers ≠ 0 ∧
  (if c.clientStats then (match c.persistDir with | some d => fs.isWritableDir d | none => false) else true) ∧
  isIpv4 c.interface

inductive Source where
  | file
  | env

/-- effective configuration, or `none` when start-up is refused -/
def start (fs : FsFacts) (defaults : Cfg) (src : Source) (entries : List (String × String)) : Option Cfg :=
  let loaded := match src with
    | .file => loadFile defaults entries
    | .env => loadEnv defaults entries
  loaded.bind fun c => if isValid fs c then some c else none

end Rough.Config

namespace Rough.Config

/-- decimal digits of a number, most significant first (how the settings are written) -/
def showDigits : Nat → Nat → List Char
  | 0, _ => []
  | fuel + 1, n => if n < 10 then [Char.ofNat (48 + n)] else showDigits fuel (n / 10) ++ [Char.ofNat (48 + n % 10)]

def showNat (n : Nat) : String := String.ofList (showDigits (n + 1) n)

def showInt (v : Int) : String := if v < 0 then "-" ++ showNat v.natAbs else showNat v.toNat

inductive IntKey where
  | port | batchSize | faultPct | numWorkers | statusInterval | hcPort
  deriving Repr, DecidableEq

def IntKey.name : IntKey → String
  | .port => "port" | .batchSize => "batch_size" | .faultPct => "fault_percentage"
  | .numWorkers => "num_workers" | .statusInterval => "status_interval" | .hcPort => "health_check_port"

/-- effective value of an integer setting -/
def Cfg.get (c : Cfg) : IntKey → Option Nat
  | .port => some c.port | .batchSize => some c.batchSize | .faultPct => some c.faultPct
  | .numWorkers => some c.numWorkers | .statusInterval => some c.statusInterval | .hcPort => c.hcPort

/-- documented range (README / property text); `none` = no documented restriction beyond the type -/
def IntKey.documented : IntKey → Int → Prop
  | .port, v => 1 ≤ v ∧ v ≤ 65535
  | .batchSize, v => 1 ≤ v ∧ v ≤ 64
  | .faultPct, v => 0 ≤ v ∧ v ≤ 50
  | .numWorkers, v => 1 ≤ v
  | .statusInterval, v => 0 ≤ v
  | .hcPort, v => 0 ≤ v ∧ v ≤ 65535

def knownKeys : List String :=
  ["port", "interface", "seed", "batch_size", "status_interval", "kms_protection", "health_check_port",
   "client_stats", "fault_percentage", "num_workers", "persistence_directory"]

end Rough.Config

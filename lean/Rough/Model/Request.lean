import Rough.Model.Codec
import Rough.Model.Version
/-
  Model of src/request.rs (after the `fix:` commit that checks the nonce length) and the two size
  constants of src/lib.rs.
-/
namespace Rough

def MIN_REQUEST_LENGTH : Nat := 1024
def MAX_REQUEST_LENGTH : Nat := 1500

/-- `get_supported_version`: draft-13 among the first four 4-byte chunks of VER
    (`chunks(4).take(ITERATION_LIMIT)`; a trailing shorter chunk never equals the 4 wire bytes). -/
def supportedVersion (m : Msg) : Option Version :=
  match m.get Tag.VER with
  | some v => if ((chunks 4 v).take 4).any (fun c => c == Version.ietf.wire) then some Version.ietf else none
  | none => none

/-- `nonce_from_classic_request` -/
def nonceFromClassic (d : Bytes) : Res (Bytes × Version) :=
  (fromBytes d).bind fun m =>
  match m.get Tag.NONC with
  | some nonce => if nonce.length = 64 then .ok (nonce, Version.google) else .err
  | none => .err

/-- `nonce_from_rfc_request` -/
def nonceFromRfc (d : Bytes) (srv : Bytes) : Res (Bytes × Version) :=
  (slice d 8 12 "request.rs:nonce_from_rfc_request:buf[8..12]").bind fun lenBytes =>
  (csub d.length 12 "request.rs:nonce_from_rfc_request:buf.len()-12").bind fun actual =>
  if rd32 lenBytes ≠ actual % 4294967296 then .err else
  (slice d 12 d.length "request.rs:nonce_from_rfc_request:buf[12..]").bind fun body =>
  (fromBytes body).bind fun m =>
  match supportedVersion m with
  | none => .err
  | some ver =>
    if (match m.get Tag.SRV with | some s => s != srv | none => false) then .err else
    match m.get Tag.NONC with
    | some nonce => if nonce.length = 32 then .ok (nonce, ver) else .err
    | none => .err

/-- `nonce_from_request(buf, num_bytes, expected_srv)` on the datagram `d = buf[..num_bytes]`
    (`is_rfc_request` looks at `buf[0..8]`, which lies inside the datagram because n ≥ 1024). -/
def nonceFromRequest (d : Bytes) (srv : Bytes) : Res (Bytes × Version) :=
  if d.length < MIN_REQUEST_LENGTH then .err
  else if d.length > MAX_REQUEST_LENGTH then .err
  else
    (slice d 0 8 "request.rs:is_rfc_request:buf[0..8]").bind fun magic =>
    if magic == framing then nonceFromRfc d srv else nonceFromClassic d

end Rough

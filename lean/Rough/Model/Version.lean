import Rough.Basic.Bytes
/- Model of src/version.rs -/
namespace Rough

inductive Version where
  | google
  | ietf     -- RfcDraft13
  deriving Repr, DecidableEq, Inhabited

namespace Version
/-- `wire_bytes` -/
def wire : Version → Bytes
  | google => [0x00, 0x00, 0x00, 0x00]
  | ietf => [0x0c, 0x00, 0x00, 0x80]

/-- `dele_prefix`: "RoughTime v1 delegation signature--\0" (classic) / "RoughTime v1 delegation signature\0" -/
def delePrefix : Version → Bytes
  | google => strBytes "RoughTime v1 delegation signature--" ++ [0]
  | ietf => strBytes "RoughTime v1 delegation signature" ++ [0]

/-- `sign_prefix`: "RoughTime v1 response signature\0" for both -/
def srepPrefix : Version → Bytes
  | _ => strBytes "RoughTime v1 response signature" ++ [0]

/-- `supported_versions_wire`: Google then RfcDraft13 -/
def supportedWire : Bytes := google.wire ++ ietf.wire

def isIetf : Version → Bool
  | ietf => true
  | google => false

def name : Version → String
  | google => "G"
  | ietf => "I"

/-- nonce length the protocol prescribes (enforced by request.rs after the `fix:` commit) -/
def nonceLen : Version → Nat
  | google => 64
  | ietf => 32
end Version
end Rough

import Rough.Model.Request
import Rough.Model.Keys
import Rough.Model.Merkle
import Rough.Model.Stats
/-
  Model of src/responder.rs, src/grease.rs and the EVT_MESSAGE arm of src/server.rs.

  Parameters of a run (everything the Rust code takes from the environment):
    * `S`, `H`      signature scheme and SHA-512
    * seeds          long-term seed, the two online seeds (`OnlineKey::new()` draws them)
    * chunks         what each `collect_requests` pass read from the socket: ≤ batch_size datagrams
                     with their source addresses — the theorems quantify over every chunking
    * clock          one reading per non-empty `send_responses` call
    * grease         one decision per response (drawn from `SmallRng` in the Rust code)
    * log level      whether `debug!` arguments are evaluated
-/
namespace Rough
open Rough.Merkle Rough.Stats

structure Env where
  S : SigScheme
  H : Bytes → Bytes

def Env.mcfg (E : Env) (ver : Version) : MerkleCfg :=
  match ver with
  | .google => ⟨E.H, 64⟩
  | .ietf => ⟨fun x => (E.H x).take 32, 32⟩

/-- a fault-injection decision for one response -/
inductive Grease where
  | none
  /-- `randomly_order_tags` with the drawn permutation of field positions -/
  | reorder (perm : List Nat)
  /-- `corrupt_response_signature` with the drawn 64 random bytes -/
  | corruptSig (rho : Bytes)
  deriving Repr, DecidableEq

structure Responder where
  ver : Version
  onl : Signer
  cert : Bytes
  requests : List (Bytes × Addr)
  tree : Tree
  deriving Repr

structure Sent where
  dst : Addr
  bytes : Bytes
  deriving Repr, DecidableEq

/-- `make_response` -/
def makeResponse (srep : Msg) (cert path : Bytes) (idx : Nat) (nonce : Bytes) : Res Msg :=
  (Res.unwrap "responder.rs:make_response:get_field(SIG).unwrap" (srep.get Tag.SIG)).bind fun sig =>
  (Res.unwrap "responder.rs:make_response:get_field(SREP).unwrap" (srep.get Tag.SREP)).bind fun srepB =>
  buildMsg "responder.rs:make_response:add_field.unwrap"
    [(Tag.SIG, sig), (Tag.NONC, nonce), (Tag.PATH, path), (Tag.SREP, srepB), (Tag.CERT, cert), (Tag.INDX, le32 idx)]

/-- `Grease::add_errors` for a given decision -/
def applyGrease (g : Grease) (r : Msg) : Res Msg :=
  match g with
  | .none => .ok r
  | .reorder perm =>
    (perm.foldl (fun (acc : Res (List (Tag × Bytes))) i => acc.bind fun l =>
        (Res.unwrap "grease.rs:randomly_order_tags:get(idx).unwrap" r.fields[i]?).bind fun f => .ok (l ++ [f]))
      (.ok [])).bind fun fs => .ok ⟨fs⟩
  | .corruptSig rho =>
    if (r.get Tag.SIG).isNone then .ok r else
    (Res.unwrap "grease.rs:corrupt_response_signature:get_field(PATH).unwrap" (r.get Tag.PATH)).bind fun p =>
    (Res.unwrap "grease.rs:corrupt_response_signature:get_field(SREP).unwrap" (r.get Tag.SREP)).bind fun s =>
    (Res.unwrap "grease.rs:corrupt_response_signature:get_field(CERT).unwrap" (r.get Tag.CERT)).bind fun c =>
    (Res.unwrap "grease.rs:corrupt_response_signature:get_field(INDX).unwrap" (r.get Tag.INDX)).bind fun i =>
    buildMsg "grease.rs:corrupt_response_signature:add_field.unwrap"
      [(Tag.SIG, rho), (Tag.PATH, p), (Tag.SREP, s), (Tag.CERT, c), (Tag.INDX, i)]

def wireOf (ver : Version) (m : Msg) : Bytes :=
  match ver with
  | .google => encode m
  | .ietf => encodeFramed m

namespace Responder

def reset (r : Responder) : Responder := { r with tree := Merkle.reset r.tree, requests := [] }

/-- `add_classic_request` / `add_ietf_request`: `leaf` is the nonce (classic) or the whole datagram (IETF) -/
def add (E : Env) (r : Responder) (leaf nonce : Bytes) (src : Addr) : Res Responder :=
  (pushLeaf (E.mcfg r.ver) r.tree leaf).bind fun t => .ok { r with tree := t, requests := r.requests ++ [(nonce, src)] }

/-- per-request body of the `for` loop in `send_responses` -/
def respondOne (r : Responder) (debug : Bool) (srep : Msg) (idx : Nat) (nonce : Bytes) (src : Addr) (g : Grease) :
    Res (Sent × Event) :=
  (getPaths r.tree idx).bind fun path =>
  (makeResponse srep r.cert path idx nonce).bind fun resp =>
  (applyGrease g resp).bind fun resp' =>
  let bytes := wireOf r.ver resp'
  -- `debug!(.., HEX.encode(&nonce[0..4]), ..)`: the argument is evaluated only when the record is enabled
  (if debug then (slice nonce 0 4 "responder.rs:send_responses:nonce[0..4]").bind fun _ => Res.ok () else .ok ()).bind fun _ =>
  let kind := match r.ver with | .google => Kind.classicResp | .ietf => Kind.rfcResp
  .ok (⟨src, bytes⟩, ⟨kind, src, bytes.length⟩)

def respondAll (r : Responder) (debug : Bool) (srep : Msg) : Nat → List (Bytes × Addr) → List Grease →
    Res (List Sent × List Event)
  | _, [], _ => .ok ([], [])
  | idx, (nonce, src) :: rest, gs =>
    (respondOne r debug srep idx nonce src (gs.headD Grease.none)).bind fun (s, e) =>
    (respondAll r debug srep (idx + 1) rest gs.tail).bind fun (ss, es) => .ok (s :: ss, e :: es)

/-- `send_responses` (every `send_to` succeeds). Returns the responder afterwards, the datagrams
    sent in order and the statistics events recorded. -/
def sendResponses (E : Env) (r : Responder) (debug : Bool) (now : Nat × Nat) (gs : List Grease) :
    Res (Responder × List Sent × List Event) :=
  if r.requests.isEmpty then .ok (r, [], []) else
  (computeRoot (E.mcfg r.ver) r.ver.isIetf r.tree).bind fun (t, root) =>
  (makeSrep E.S r.onl r.ver now.1 now.2 root).bind fun (srep, onl') =>
  let r' := { r with tree := t, onl := onl' }
  (respondAll r' debug srep 0 r.requests gs).bind fun (ss, es) => .ok (r', ss, es)

end Responder

structure Server where
  batchSize : Nat
  srv : Bytes
  ltPub : Bytes
  ietf : Responder
  classic : Responder
  deriving Repr

structure Datagram where
  src : Addr
  bytes : Bytes
  deriving Repr, DecidableEq

namespace Server

/-- `Server::new` (key material part): long-term key from the seed, IETF responder first, then the
    classic responder, both certified with the *same* signer object. -/
def new (E : Env) (seed onlIetf onlClassic : Bytes) (batchSize : Nat) : Res Server :=
  (LongTermKey.new E.S E.H seed).bind fun ltk =>
  (Signer.fromSeed onlIetf).bind fun sI =>
  (makeCert E.S ltk Version.ietf onlIetf).bind fun (certI, ltk1) =>
  (Signer.fromSeed onlClassic).bind fun sC =>
  (makeCert E.S ltk1 Version.google onlClassic).bind fun (certC, ltk2) =>
  .ok { batchSize := batchSize, srv := ltk2.srv, ltPub := ltk2.publicKey E.S,
        ietf := ⟨Version.ietf, sI, encode certI, [], Merkle.new⟩,
        classic := ⟨Version.google, sC, encode certC, [], Merkle.new⟩ }

/-- one received datagram inside `collect_requests` -/
def collectOne (E : Env) (s : Server) (d : Datagram) : Res (Server × Event) :=
  match nonceFromRequest d.bytes s.srv with
  | .ok (nonce, .ietf) =>
    (s.ietf.add E d.bytes nonce d.src).bind fun r => .ok ({ s with ietf := r }, ⟨Kind.ietfReq, d.src, 0⟩)
  | .ok (nonce, .google) =>
    (s.classic.add E nonce nonce d.src).bind fun r => .ok ({ s with classic := r }, ⟨Kind.classicReq, d.src, 0⟩)
  | .err => .ok (s, ⟨Kind.invalidReq, d.src, 0⟩)
  | .panic site => .panic site

def collect (E : Env) : Server → List Datagram → Res (Server × List Event)
  | s, [] => .ok (s, [])
  | s, d :: ds => (collectOne E s d).bind fun (s', e) => (collect E s' ds).bind fun (s'', es) => .ok (s'', e :: es)

/-- inputs of one pass of the `loop` in `process_events` -/
structure Pass where
  chunk : List Datagram
  nowIetf : Nat × Nat := (0, 0)
  nowClassic : Nat × Nat := (0, 0)
  greaseIetf : List Grease := []
  greaseClassic : List Grease := []
  deriving Repr

/-- one pass: reset both responders, collect ≤ batch_size datagrams, send IETF batch, send classic batch -/
def pass (E : Env) (debug : Bool) (s : Server) (p : Pass) : Res (Server × List Sent × List Event) :=
  let s0 := { s with ietf := s.ietf.reset, classic := s.classic.reset }
  (collect E s0 (p.chunk.take s.batchSize)).bind fun (s1, ev1) =>
  (s1.ietf.sendResponses E debug p.nowIetf p.greaseIetf).bind fun (rI, sentI, evI) =>
  (s1.classic.sendResponses E debug p.nowClassic p.greaseClassic).bind fun (rC, sentC, evC) =>
  .ok ({ s1 with ietf := rI, classic := rC }, sentI ++ sentC, ev1 ++ evI ++ evC)

/-- any number of passes (across any number of `process_events` calls) -/
def run (E : Env) (debug : Bool) : Server → List Pass → Res (Server × List Sent × List Event)
  | s, [] => .ok (s, [], [])
  | s, p :: ps =>
    (pass E debug s p).bind fun (s', sent, ev) =>
    (run E debug s' ps).bind fun (s'', sent', ev') => .ok (s'', sent ++ sent', ev ++ ev')

end Server
end Rough

import Rough.Basic.Bytes
/-
  Model of src/stats: the eight recording operations, PerClientStats (bounded map + overflow count),
  AggregatedStats, ClientStats::merge and Reporter::receive_client_stats.
  Counters are `Nat` (Rust: u32/u64/usize; no overflow below 2^32 events per snapshot interval).
-/
namespace Rough.Stats

abbrev Addr := Nat

inductive Kind where
  | ietfReq | classicReq | invalidReq | failedSend | retriedSend | healthCheck | rfcResp | classicResp
  deriving Repr, DecidableEq, Inhabited

def Kind.all : List Kind :=
  [.ietfReq, .classicReq, .invalidReq, .failedSend, .retriedSend, .healthCheck, .rfcResp, .classicResp]

/-- one recorded event; `bytes` is only meaningful for the two response kinds -/
structure Event where
  kind : Kind
  addr : Addr
  bytes : Nat := 0
  deriving Repr, DecidableEq

/-- `ClientStats` without first_seen / ip_addr -/
structure Counters where
  rfcRequests : Nat := 0
  classicRequests : Nat := 0
  invalidRequests : Nat := 0
  healthChecks : Nat := 0
  rfcResponses : Nat := 0
  classicResponses : Nat := 0
  bytesSent : Nat := 0
  failedSends : Nat := 0
  retriedSends : Nat := 0
  deriving Repr, DecidableEq, Inhabited

namespace Counters
def zero : Counters := {}
/-- apply one event to a counter block -/
def bump (c : Counters) (e : Event) : Counters :=
  match e.kind with
  | .ietfReq => { c with rfcRequests := c.rfcRequests + 1 }
  | .classicReq => { c with classicRequests := c.classicRequests + 1 }
  | .invalidReq => { c with invalidRequests := c.invalidRequests + 1 }
  | .failedSend => { c with failedSends := c.failedSends + 1 }
  | .retriedSend => { c with retriedSends := c.retriedSends + 1 }
  | .healthCheck => { c with healthChecks := c.healthChecks + 1 }
  | .rfcResp => { c with rfcResponses := c.rfcResponses + 1, bytesSent := c.bytesSent + e.bytes }
  | .classicResp => { c with classicResponses := c.classicResponses + 1, bytesSent := c.bytesSent + e.bytes }
/-- counter of a kind -/
def get (c : Counters) : Kind → Nat
  | .ietfReq => c.rfcRequests | .classicReq => c.classicRequests | .invalidReq => c.invalidRequests
  | .failedSend => c.failedSends | .retriedSend => c.retriedSends | .healthCheck => c.healthChecks
  | .rfcResp => c.rfcResponses | .classicResp => c.classicResponses
/-- `ClientStats::merge` (same address) -/
def merge (a b : Counters) : Counters :=
  { rfcRequests := a.rfcRequests + b.rfcRequests, classicRequests := a.classicRequests + b.classicRequests,
    invalidRequests := a.invalidRequests + b.invalidRequests, healthChecks := a.healthChecks + b.healthChecks,
    rfcResponses := a.rfcResponses + b.rfcResponses, classicResponses := a.classicResponses + b.classicResponses,
    bytesSent := a.bytesSent + b.bytesSent, failedSends := a.failedSends + b.failedSends,
    retriedSends := a.retriedSends + b.retriedSends }
end Counters

/-- `PerClientStats`: association list in first-insertion order (the Rust map is a hash map; every
    observable of it is order-independent or sorted by the harness). -/
structure PerClient where
  clients : List (Addr × Counters)
  overflows : Nat
  limit : Nat
  deriving Repr, DecidableEq

namespace PerClient
def init (limit : Nat) : PerClient := ⟨[], 0, limit⟩

def upsert (l : List (Addr × Counters)) (a : Addr) (f : Counters → Counters) : List (Addr × Counters) :=
  match l with
  | [] => [(a, f Counters.zero)]
  | (b, c) :: rest => if a = b then (b, f c) :: rest else (b, c) :: upsert rest a f

/-- every `add_*`: `too_many_entries()` is consulted first, *before* looking the address up -/
def record (s : PerClient) (e : Event) : PerClient :=
  if s.clients.length ≥ s.limit then { s with overflows := s.overflows + 1 }
  else { s with clients := upsert s.clients e.addr (fun c => c.bump e) }

/-- `clear` -/
def clear (s : PerClient) : PerClient := { s with clients := [], overflows := 0 }

def lookup (s : PerClient) (a : Addr) : Option Counters := (s.clients.find? (fun p => p.1 = a)).map (·.2)
def get (s : PerClient) (a : Addr) (k : Kind) : Nat := ((s.lookup a).getD Counters.zero).get k
def total (s : PerClient) (k : Kind) : Nat := (s.clients.map fun p => p.2.get k).sum
def totalBytes (s : PerClient) : Nat := (s.clients.map fun p => p.2.bytesSent).sum
def run (s : PerClient) (h : List Event) : PerClient := h.foldl record s
end PerClient

/-- `AggregatedStats` -/
structure Aggregated where
  c : Counters
  deriving Repr, DecidableEq

namespace Aggregated
def init : Aggregated := ⟨Counters.zero⟩
def record (s : Aggregated) (e : Event) : Aggregated := ⟨s.c.bump e⟩
def clear (_ : Aggregated) : Aggregated := init
def run (s : Aggregated) (h : List Event) : Aggregated := h.foldl record s
end Aggregated

/-- the trait getters, for either recorder -/
structure Totals where
  validRequests : Nat
  rfcRequests : Nat
  classicRequests : Nat
  invalidRequests : Nat
  healthChecks : Nat
  failedSends : Nat
  retriedSends : Nat
  responses : Nat
  rfcResponses : Nat
  classicResponses : Nat
  bytesSent : Nat
  deriving Repr, DecidableEq

def PerClient.totals (s : PerClient) : Totals :=
  { validRequests := s.total .ietfReq + s.total .classicReq, rfcRequests := s.total .ietfReq,
    classicRequests := s.total .classicReq, invalidRequests := s.total .invalidReq,
    healthChecks := s.total .healthCheck, failedSends := s.total .failedSend,
    retriedSends := s.total .retriedSend, responses := s.total .rfcResp + s.total .classicResp,
    rfcResponses := s.total .rfcResp, classicResponses := s.total .classicResp, bytesSent := s.totalBytes }

def Aggregated.totals (s : Aggregated) : Totals :=
  { validRequests := s.c.rfcRequests + s.c.classicRequests, rfcRequests := s.c.rfcRequests,
    classicRequests := s.c.classicRequests, invalidRequests := s.c.invalidRequests,
    healthChecks := s.c.healthChecks, failedSends := s.c.failedSends, retriedSends := s.c.retriedSends,
    responses := s.c.rfcResponses + s.c.classicResponses, rfcResponses := s.c.rfcResponses,
    classicResponses := s.c.classicResponses, bytesSent := s.c.bytesSent }

/-- `Reporter::receive_client_stats`: merge every entry of every queued snapshot into the map -/
def reporterReceive (acc : List (Addr × Counters)) (snapshots : List (List (Addr × Counters))) :
    List (Addr × Counters) :=
  snapshots.foldl (fun acc snap => snap.foldl (fun acc (p : Addr × Counters) =>
    PerClient.upsert acc p.1 (fun c => c.merge p.2)) acc) acc

/-- specification: how many events of kind `k` for address `a` a history contains -/
def count (h : List Event) (a : Addr) (k : Kind) : Nat :=
  (h.filter fun e => e.addr = a ∧ e.kind = k).length

end Rough.Stats

namespace Rough.Stats

/-- the statistics pipeline of one worker: events are recorded; at every snapshot point
    (`send_client_stats`) the recorder's entries are pushed to the queue (if there are any) and the
    recorder is cleared. `intervals` = the events between consecutive snapshot points, the last
    interval being the events not yet published. Returns the queue contents and the final recorder. -/
def publish (limit : Nat) : List (List Event) → List (List (Addr × Counters)) × PerClient
  | [] => ([], PerClient.init limit)
  | [last] => ([], PerClient.run (PerClient.init limit) last)
  | iv :: rest =>
    let s := PerClient.run (PerClient.init limit) iv
    let (q, fin) := publish limit rest
    (if s.clients.isEmpty then q else s.clients :: q, fin)

end Rough.Stats

import Rough.Model.Keys
import Rough.Model.Merkle
import Rough.Model.Request
/-
  Model of src/bin/roughenough-client.rs (after the two `fix:` commits: an invalid DELE/SREP
  signature aborts; the IETF Merkle leaf is the whole request packet).
  A `Res.panic` is a Rust panic (process exit status 101, nothing more printed); `Res.ok o` means
  the client prints the time and exits 0.
-/
namespace Rough.Client
open Rough Rough.Merkle

/-- `make_request` -/
def makeRequest (H : Bytes → Bytes) (ver : Version) (nonce : Bytes) (pubKey : Option Bytes) : Res Bytes :=
  match ver with
  | .google =>
    (buildMsg "client:make_request:add_field.unwrap" [(Tag.NONC, nonce), (Tag.PAD, [])]).bind fun m0 =>
    let pad := paddingLength m0
    (buildMsg "client:make_request:add_field.unwrap" [(Tag.NONC, nonce), (Tag.PAD, zeros pad)]).bind fun m =>
    .ok (encode m)
  | .ietf =>
    let srvRes : Res (List (Tag × Bytes)) := match pubKey with
      | some pk => (calcSrv H pk).bind fun s => .ok [(Tag.SRV, s)]
      | none => .ok []
    srvRes.bind fun srvF =>
    (buildMsg "client:make_request:add_field.unwrap"
      ([(Tag.VER, Version.ietf.wire)] ++ srvF ++ [(Tag.NONC, nonce), (Tag.ZZZZ, [])])).bind fun m0 =>
    let pad := paddingLength m0
    (buildMsg "client:make_request:add_field.unwrap"
      ([(Tag.VER, Version.ietf.wire)] ++ srvF ++ [(Tag.NONC, nonce), (Tag.ZZZZ, zeros pad)])).bind fun m =>
    .ok (encodeFramed m)

/-- `fromBytes(..).unwrap()` -/
def fromBytesUnwrap (site : String) (b : Bytes) : Res Msg :=
  match fromBytes b with
  | .ok m => .ok m
  | .err => .panic site
  | .panic s => .panic s

/-- `map[&tag]` on the hash map of a message -/
def field (site : String) (m : Msg) (t : Tag) : Res Bytes := Res.unwrap (site ++ ":" ++ t.name) (m.get t)

/-- `slice.read_u64::<LE>().unwrap()` / `read_u32`: first 8 / 4 bytes, panic if shorter -/
def readU64 (site : String) (b : Bytes) : Res Nat := if b.length < 8 then .panic site else .ok (rd64 b)
def readU32 (site : String) (b : Bytes) : Res Nat := if b.length < 4 then .panic site else .ok (rd32 b)

/-- `receive_response`: the datagram is received into a zeroed 4096-byte buffer -/
def receiveResponse (ver : Version) (dgFull : Bytes) : Res Msg :=
  let dg := dgFull.take 4096
  match ver with
  | .google => fromBytesUnwrap "client:receive_response:from_bytes.unwrap" dg
  | .ietf =>
    let buf := dg ++ zeros (4096 - dg.length)
    -- verify_framing(buf): magic, then reported_len > buf.len() - 12 (the buffer length, not the datagram's)
    if buf.take 8 ≠ framing then .panic "client:verify_framing:missing framing"
    else if rd32 (buf.drop 8) > 4096 - 12 then .panic "client:verify_framing:MessageTooShort"
    else
      (slice buf 12 dg.length "client:receive_response:buf[12..buf_len]").bind fun body =>
      fromBytesUnwrap "client:receive_response:from_bytes.unwrap" body

structure Outcome where
  midpoint : Nat
  radius : Nat
  verified : Bool
  index : Nat
  deriving Repr, DecidableEq

/-- `ResponseHandler::new(..).extract_time()` followed by the INDX read in `main` -/
def handleParsed (S : SigScheme) (H : Bytes → Bytes) (ver : Version) (pubKey : Option Bytes) (nonce request : Bytes)
    (msg : Msg) : Res Outcome :=
  (field "client:msg" msg Tag.SREP).bind fun srepB =>
  (fromBytesUnwrap "client:new:SREP.from_bytes.unwrap" srepB).bind fun srep =>
  (field "client:msg" msg Tag.CERT).bind fun certB =>
  (fromBytesUnwrap "client:new:CERT.from_bytes.unwrap" certB).bind fun cert =>
  (field "client:cert" cert Tag.DELE).bind fun deleB =>
  (fromBytesUnwrap "client:new:DELE.from_bytes.unwrap" deleB).bind fun dele =>
  -- extract_time
  (field "client:srep" srep Tag.MIDP).bind fun midpB =>
  (readU64 "client:extract_time:MIDP.read_u64.unwrap" midpB).bind fun midpoint =>
  (field "client:srep" srep Tag.RADI).bind fun radiB =>
  (readU32 "client:extract_time:RADI.read_u32.unwrap" radiB).bind fun radius =>
  -- validate_merkle
  (field "client:msg" msg Tag.INDX).bind fun indxB =>
  (readU32 "client:validate_merkle:INDX.read_u32.unwrap" indxB).bind fun index =>
  (field "client:msg" msg Tag.PATH).bind fun paths =>
  let leaf := match ver with | .google => nonce | .ietf => request
  let c : MerkleCfg := match ver with | .google => ⟨H, 64⟩ | .ietf => ⟨fun x => (H x).take 32, 32⟩
  (rootFromPaths c ver.isIetf index leaf paths).bind fun hash =>
  (field "client:srep" srep Tag.ROOT).bind fun root =>
  if hash ≠ root then .panic "client:validate_merkle:assert_eq Nonce is not present in the response's merkle tree" else
  -- validate_midpoint
  (field "client:dele" dele Tag.MINT).bind fun mintB =>
  (readU64 "client:validate_midpoint:MINT.read_u64.unwrap" mintB).bind fun mint =>
  (field "client:dele" dele Tag.MAXT).bind fun maxtB =>
  (readU64 "client:validate_midpoint:MAXT.read_u64.unwrap" maxtB).bind fun maxt =>
  if midpoint < mint then .panic "client:validate_midpoint:assert midpoint >= mint"
  else if midpoint > maxt then .panic "client:validate_midpoint:assert midpoint <= maxt" else
  let verifiedRes : Res Bool := match pubKey with
    | none => .ok false
    | some pk =>
      -- validate_dele
      (field "client:cert" cert Tag.SIG).bind fun certSig =>
      (validateSig S pk certSig (ver.delePrefix ++ deleB)).bind fun okDele =>
      if ¬ okDele then .panic "client:validate_dele:INVALID signature on DELE tag" else
      -- validate_srep
      (field "client:dele" dele Tag.PUBK).bind fun pubk =>
      (field "client:msg" msg Tag.SIG).bind fun sig =>
      (validateSig S pubk sig (ver.srepPrefix ++ srepB)).bind fun okSrep =>
      if ¬ okSrep then .panic "client:validate_srep:INVALID signature on SREP tag" else .ok true
  verifiedRes.bind fun verified =>
  .ok ⟨midpoint, radius, verified, index⟩

/-- the whole response path of the client for one request -/
def handleResponse (S : SigScheme) (H : Bytes → Bytes) (ver : Version) (pubKey : Option Bytes)
    (nonce request datagram : Bytes) : Res Outcome :=
  (receiveResponse ver datagram).bind (handleParsed S H ver pubKey nonce request)

/-- seconds and nanoseconds printed for a midpoint -/
def printedTime (ver : Version) (midpoint : Nat) : Nat × Nat :=
  match ver with
  | .google => (midpoint / 1000000, (midpoint - midpoint / 1000000 * 1000000) * 1000)
  | .ietf => (midpoint, 0)

end Rough.Client

namespace Rough.Client

/-- the client's main loop over its requests (`-n k`): responses are handled in request order; the
    first failure aborts the process (nothing further is printed). Returns the outcomes printed and
    whether the process ends with exit status 0. -/
def runAll (S : SigScheme) (H : Bytes → Bytes) (ver : Version) (pubKey : Option Bytes) :
    List (Bytes × Bytes × Bytes) → List Outcome × Bool
  | [] => ([], true)
  | (nonce, request, dg) :: rest =>
    match handleResponse S H ver pubKey nonce request dg with
    | .ok o => let (os, ok) := runAll S H ver pubKey rest; (o :: os, ok)
    | _ => ([], false)

end Rough.Client

import Rough.Basic.Bytes
/-
  Model of src/tag.rs.  Constructor order = Rust enum declaration order (what `PartialOrd` compares).
-/
namespace Rough

inductive Tag where
  | SIG | VER | SRV | NONC | DELE | PATH | RADI | PUBK | MIDP | SREP | VERS | MINT | ROOT | CERT
  | MAXT | INDX | ZZZZ | PAD
  deriving Repr, DecidableEq, Inhabited

namespace Tag

def all : List Tag :=
  [SIG, VER, SRV, NONC, DELE, PATH, RADI, PUBK, MIDP, SREP, VERS, MINT, ROOT, CERT, MAXT, INDX, ZZZZ, PAD]

/-- position in the Rust enum; derived `PartialOrd` compares this. -/
def idx : Tag → Nat
  | SIG => 0 | VER => 1 | SRV => 2 | NONC => 3 | DELE => 4 | PATH => 5 | RADI => 6 | PUBK => 7
  | MIDP => 8 | SREP => 9 | VERS => 10 | MINT => 11 | ROOT => 12 | CERT => 13 | MAXT => 14
  | INDX => 15 | ZZZZ => 16 | PAD => 17

/-- `Tag::wire_value` -/
def wire : Tag → Bytes
  | SIG  => [0x53, 0x49, 0x47, 0x00]
  | VER  => [0x56, 0x45, 0x52, 0x00]
  | SRV  => [0x53, 0x52, 0x56, 0x00]
  | NONC => [0x4e, 0x4f, 0x4e, 0x43]
  | DELE => [0x44, 0x45, 0x4c, 0x45]
  | PATH => [0x50, 0x41, 0x54, 0x48]
  | RADI => [0x52, 0x41, 0x44, 0x49]
  | PUBK => [0x50, 0x55, 0x42, 0x4b]
  | MIDP => [0x4d, 0x49, 0x44, 0x50]
  | SREP => [0x53, 0x52, 0x45, 0x50]
  | VERS => [0x56, 0x45, 0x52, 0x53]
  | MINT => [0x4d, 0x49, 0x4e, 0x54]
  | ROOT => [0x52, 0x4f, 0x4f, 0x54]
  | CERT => [0x43, 0x45, 0x52, 0x54]
  | MAXT => [0x4d, 0x41, 0x58, 0x54]
  | INDX => [0x49, 0x4e, 0x44, 0x58]
  | ZZZZ => [0x5a, 0x5a, 0x5a, 0x5a]
  | PAD  => [0x50, 0x41, 0x44, 0xff]

/-- `Tag::from_wire` (error collapsed to `none`). -/
def ofWire (b : Bytes) : Option Tag := all.find? (fun t => t.wire == b)

def name : Tag → String
  | SIG => "SIG" | VER => "VER" | SRV => "SRV" | NONC => "NONC" | DELE => "DELE" | PATH => "PATH"
  | RADI => "RADI" | PUBK => "PUBK" | MIDP => "MIDP" | SREP => "SREP" | VERS => "VERS"
  | MINT => "MINT" | ROOT => "ROOT" | CERT => "CERT" | MAXT => "MAXT" | INDX => "INDX"
  | ZZZZ => "ZZZZ" | PAD => "PAD"

def ofName (s : String) : Option Tag := all.find? (fun t => t.name == s)

/-- `Tag::is_nested` -/
def isNested : Tag → Bool
  | CERT | DELE | SREP => true
  | _ => false

end Tag
end Rough

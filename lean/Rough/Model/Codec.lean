import Rough.Model.Tag
/-
  Model of src/message.rs (RtMessage): from_bytes, add_field, get_field, encode, encode_framed,
  encoded_size, calculate_padding_length, to_string (Display).

  Error kinds are collapsed to `Res.err`; every Rust indexing / slicing / unchecked subtraction is
  an explicit `Res.panic` branch so that "never panics" is a theorem about this model and not a
  consequence of totalisation.
-/
namespace Rough

structure Msg where
  fields : List (Tag × Bytes)
  deriving Repr, DecidableEq, Inhabited

namespace Msg
def empty : Msg := ⟨[]⟩
def tags (m : Msg) : List Tag := m.fields.map (·.1)
def values (m : Msg) : List Bytes := m.fields.map (·.2)
def numFields (m : Msg) : Nat := m.fields.length

/-- `RtMessage::get_field`: first field with that tag. -/
def get (m : Msg) (t : Tag) : Option Bytes := (m.fields.find? (fun f => f.1 == t)).map (·.2)

/-- `RtMessage::add_field`: `none` models `Err(TagNotStrictlyIncreasing)`. -/
def addField (m : Msg) (t : Tag) (v : Bytes) : Option Msg :=
  match m.fields.getLast? with
  | some (lt, _) => if t.idx ≤ lt.idx then none else some ⟨m.fields ++ [(t, v)]⟩
  | none => some ⟨[(t, v)]⟩

/-- tags strictly increasing in enum order (what `add_field` enforces) -/
def Sorted (m : Msg) : Prop := m.tags.Pairwise (fun a b => a.idx < b.idx)
/-- every value is a multiple of four bytes long -/
def Aligned (m : Msg) : Prop := ∀ v ∈ m.values, v.length % 4 = 0
end Msg

/-- running offsets written by `encode`: for values `[v0,v1,v2]` gives `[|v0|, |v0|+|v1|]`. -/
def offsetsFrom (acc : Nat) : List Bytes → List Nat
  | [] => []
  | [_] => []
  | v :: w :: rest => (acc + v.length) :: offsetsFrom (acc + v.length) (w :: rest)

/-- `RtMessage::encode` (infallible on a `Vec`; the internal `assert_eq!` on the size is
    `encode_length` in Lemmas/Codec). -/
def encode (m : Msg) : Bytes :=
  le32 m.fields.length ++ (offsetsFrom 0 m.values).flatMap le32 ++ m.tags.flatMap Tag.wire
    ++ m.values.flatten

/-- `RtMessage::encoded_size` -/
def encodedSize (m : Msg) : Nat :=
  let n := m.fields.length
  4 + 4 * n + (if n < 2 then 0 else 4 * (n - 1)) + (m.values.map List.length).sum

def framing : Bytes := [0x52, 0x4f, 0x55, 0x47, 0x48, 0x54, 0x49, 0x4d]  -- "ROUGHTIM"

/-- `RtMessage::encode_framed` -/
def encodeFramed (m : Msg) : Bytes := framing ++ le32 (encode m).length ++ encode m

/-- `RtMessage::calculate_padding_length` -/
def paddingLength (m : Msg) : Nat :=
  let size := encodedSize m
  if size ≥ 1024 then 0 else
    let p := 1024 - size
    if m.fields.length = 1 then p - 4 else p

/-- Rust `bytes[s..e]` -/
def slice (b : Bytes) (s e : Nat) (site : String) : Res Bytes :=
  if s ≤ e ∧ e ≤ b.length then .ok ((b.drop s).take (e - s)) else .panic site

/-- Rust `a - b` on `usize` with overflow checks (dev/test profile). -/
def csub (a b : Nat) (site : String) : Res Nat := if b ≤ a then .ok (a - b) else .panic site

/-- first loop of `multi_tag_message`: read `k` offsets from the cursor `rest`. -/
def readOffsets (len : Nat) : Nat → Bytes → Option (List Nat × Bytes)
  | 0, rest => some ([], rest)
  | k + 1, rest =>
    if rest.length < 4 then none
    else
      let o := rd32 rest
      if o % 4 ≠ 0 then none
      else if o > len % 4294967296 then none
      else match readOffsets len k (rest.drop 4) with
        | some (os, r) => some (o :: os, r)
        | none => none

/-- second loop: read `k` tags, each known and strictly greater than the previous one. -/
def readTags (last : Option Tag) : Nat → Bytes → Option (List Tag × Bytes)
  | 0, rest => some ([], rest)
  | k + 1, rest =>
    if rest.length < 4 then none
    else match Tag.ofWire (rest.take 4) with
      | none => none
      | some t =>
        if (match last with | some l => decide (t.idx ≤ l.idx) | none => false) then none
        else match readTags (some t) k (rest.drop 4) with
          | some (ts, r) => some (t :: ts, r)
          | none => none

/-- third loop: cut the values `[h+start .. h+e)` for consecutive ends. -/
def cutValues (b : Bytes) (h : Nat) : Nat → List Nat → Res (List Bytes)
  | _, [] => .ok []
  | start, e :: es =>
    if h + e > b.length ∨ h + start > h + e then .err
    else
      (slice b (h + start) (h + e) "message.rs:multi_tag_message:bytes[start_idx..end_idx]").bind
        fun v => (cutValues b h e es).bind fun vs => .ok (v :: vs)

def multiTag (n : Nat) (b : Bytes) : Res Msg :=
  match readOffsets b.length (n - 1) (b.drop 4) with
  | none => .err
  | some (offs, rest) =>
    match readTags none n rest with
    | none => .err
    | some (tags, _) =>
      let headerEnd := 4 + 4 * (n - 1) + 4 * n      -- msg.position() after both loops
      (csub b.length headerEnd "message.rs:multi_tag_message:bytes.len()-header_end").bind fun msgEnd =>
      (cutValues b headerEnd 0 (offs ++ [msgEnd])).bind fun vals =>
      .ok ⟨tags.zip vals⟩

def singleTag (b : Bytes) : Res Msg :=
  if b.length < 8 then .err
  else
    (slice b 4 8 "message.rs:single_tag_message:bytes[pos..pos+4]").bind fun tb =>
    match Tag.ofWire tb with
    | none => .err
    | some t => .ok ⟨[(t, b.drop 8)]⟩

/-- `RtMessage::from_bytes` -/
def fromBytes (b : Bytes) : Res Msg :=
  if b.length < 4 then .err
  else if b.length % 4 ≠ 0 then .err
  else
    let n := rd32 b
    if n = 0 then .ok Msg.empty
    else if n = 1 then singleTag b
    else if n ≤ 1024 then multiTag n b
    else .err

/-! Display -/

def spaces (n : Nat) : String := String.ofList (List.replicate n ' ')

/-- How `to_string` treats a nested (CERT/DELE/SREP) value that does not parse.
    `unwrapPanics = true` is the code before the `fix:` commit (`from_bytes(value).unwrap()`);
    `false` is the repaired code, which prints the raw hex instead. -/
def displayFuel (unwrapPanics : Bool) : Nat → Nat → Msg → Res String
  | 0, _, _ => .panic "model:display fuel exhausted"
  | fuel + 1, indent, m =>
    if indent = 0 then .panic "message.rs:to_string:assert indent_level > 0" else
    let indent1 := spaces (2 * (indent - 1))
    let indent2 := spaces (2 * indent)
    let head := "RtMessage|" ++ toString m.numFields ++ "|{\n"
    let body : Res String := m.fields.foldl (fun acc (f : Tag × Bytes) =>
      acc.bind fun s =>
        let pre := s ++ indent2 ++ f.1.name ++ "(" ++ toString f.2.length ++ ") = "
        if f.1.isNested then
          match fromBytes f.2 with
          | .ok nested => (displayFuel unwrapPanics fuel (indent + 1) nested).bind fun t => .ok (pre ++ t)
          | .panic s => .panic s
          | .err =>
            if unwrapPanics then .panic "message.rs:to_string:from_bytes(value).unwrap()"
            else .ok (pre ++ hexOf f.2 ++ "\n")
        else .ok (pre ++ hexOf f.2 ++ "\n")) (.ok head)
    body.bind fun s => .ok (s ++ indent1 ++ "}\n")

def msgBytes (m : Msg) : Nat := (m.values.map List.length).sum

/-- `impl Display for RtMessage` (`to_string(1)`); nesting depth is bounded by the byte count. -/
def display (unwrapPanics : Bool) (m : Msg) : Res String :=
  displayFuel unwrapPanics (msgBytes m + 2) 1 m

end Rough

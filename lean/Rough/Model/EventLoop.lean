import Rough.Model.Server
/-
  Model of `Server::process_events` as a whole (src/server.rs): the poll, the three event arms
  (EVT_MESSAGE → `service_socket`, EVT_HEALTH_CHECK → `handle_health_check`, EVT_STATUS_UPDATE →
  `send_client_stats`), the `socket_backlog` flag and the bounded number of batches per call.

  What the kernel and mio hold for one worker is part of the state:
    * `sockQ`     the UDP socket's receive queue (FIFO)
    * `sockEdge`  an edge-triggered readiness event for the socket that `poll` has not yet returned.
                  Rule (epoll, EPOLLET): every arriving datagram raises it; reading does not clear it;
                  `poll` returns it once and clears it.
    * `hcQ` / `hcEdge`  the same for completed, not yet accepted connections on the health-check listener
    * `timerDue`  the statistics timer has fired
  The environment moves between calls (`Env.arrive`, `connect`, `fire`) and, inside a call, may deliver
  more datagrams before every batch (`CallIn.arrivals`) — datagrams arriving while a batch is being read
  are read in FIFO order like earlier ones, so "before the batch" covers every timing up to the moment
  `recv_from` reports WouldBlock; later ones belong to the next batch.
  Every `send_to` / `write_all` succeeds (loopback); the failing-send branch is Model/SendFail.lean.
  The statistics queue is unbounded here (crossbeam `ArrayQueue::force_push` drops the oldest snapshot when
  the reporter has not drained `capacity` snapshots — not modelled).
-/
namespace Rough.EventLoop
open Rough Rough.Stats

inductive Token where
  | message | healthCheck | statusUpdate
  deriving Repr, DecidableEq

/-- `Box<dyn ServerStats>`: per-client recorder or aggregated recorder (whose `iter()` is always empty) -/
inductive Recorder where
  | perClient (s : PerClient)
  | aggregated (s : Aggregated)
  deriving Repr, DecidableEq

namespace Recorder
def record (r : Recorder) (e : Event) : Recorder :=
  match r with
  | .perClient s => .perClient (s.record e)
  | .aggregated s => .aggregated (s.record e)
def recordAll (r : Recorder) (es : List Event) : Recorder := es.foldl record r
/-- `stats_recorder.iter().map(|(_, s)| *s).collect()` -/
def snapshot : Recorder → List (Addr × Counters)
  | .perClient s => s.clients
  | .aggregated _ => []
def clear : Recorder → Recorder
  | .perClient s => .perClient s.clear
  | .aggregated s => .aggregated s.clear
end Recorder

structure Loop where
  srv : Server
  backlog : Bool := false
  sockQ : List Datagram := []
  sockEdge : Bool := false
  hcListener : Bool := false          -- `health_listener.is_some()`
  hcQ : List Addr := []
  hcEdge : Bool := false
  timerDue : Bool := false
  recd : Recorder
  published : List (List (Addr × Counters)) := []   -- what was pushed to the statistics queue, oldest first
  deriving Repr

/-- the per-batch inputs the Rust code takes from the environment -/
structure PassIn where
  arrivals : List Datagram := []        -- delivered by the kernel before this batch is read
  nowIetf : Nat × Nat := (0, 0)
  nowClassic : Nat × Nat := (0, 0)
  greaseIetf : List Grease := []
  greaseClassic : List Grease := []
  deriving Repr

/-- inputs of one `process_events` call: the events `poll` returned (in the order `events.iter()` yields
    them) and the per-batch inputs of the (at most one, see `EventsOK`) socket service of this call -/
structure CallIn where
  events : List Token
  passes : Nat → PassIn := fun _ => {}

/-- what a call did, as seen from outside -/
structure Out where
  sent : List Sent := []                -- UDP datagrams sent, in order
  events : List Event := []             -- statistics events recorded, in order
  hcAnswered : List Addr := []          -- connections that were sent HTTP_RESPONSE and closed, in order
  batches : Nat := 0                    -- batches run by `service_socket` in this call
  deriving Repr

def Out.append (a b : Out) : Out :=
  ⟨a.sent ++ b.sent, a.events ++ b.events, a.hcAnswered ++ b.hcAnswered, a.batches + b.batches⟩

/-- the pass of `Server.pass` that a batch with these inputs is -/
def passOf (st : Loop) (pi : PassIn) : Server.Pass :=
  { chunk := (st.sockQ ++ pi.arrivals).take st.srv.batchSize, nowIetf := pi.nowIetf, nowClassic := pi.nowClassic,
    greaseIetf := pi.greaseIetf, greaseClassic := pi.greaseClassic }

/-- `service_socket`: at most `M` (= MAX_BATCHES_PER_CALL) batches. A batch that read fewer than
    `batch_size` datagrams saw WouldBlock (`collect_requests` returned true): the backlog flag is cleared
    and the call returns. After `M` full batches the flag is set. -/
def serviceSocket (E : Env) (debug : Bool) : Nat → Loop → (Nat → PassIn) → Res (Loop × Out)
  | 0, st, _ => .ok ({ st with backlog := true }, {})
  | M + 1, st, ins =>
    let pi := ins 0
    let q := st.sockQ ++ pi.arrivals
    let p := passOf st pi
    (Server.pass E debug st.srv p).bind fun (srv', sent, ev) =>
    let st' := { st with srv := srv', sockQ := q.drop st.srv.batchSize, sockEdge := st.sockEdge || !pi.arrivals.isEmpty,
                         recd := st.recd.recordAll ev }
    let out : Out := { sent := sent, events := ev, batches := 1 }
    if p.chunk.length < st.srv.batchSize then .ok ({ st' with backlog := false }, out)
    else (serviceSocket E debug M st' (fun i => ins (i + 1))).bind fun (st'', out') => .ok (st'', out.append out')

/-- `handle_health_check`: accept until WouldBlock; every accepted connection is counted, sent the fixed
    response and shut down -/
def handleHealthCheck (st : Loop) : Res (Loop × Out) :=
  if !st.hcListener then .panic "server.rs:handle_health_check:health_listener.unwrap" else
  let ev := st.hcQ.map fun a => (⟨Kind.healthCheck, a, 0⟩ : Event)
  .ok ({ st with hcQ := [], recd := st.recd.recordAll ev }, { events := ev, hcAnswered := st.hcQ })

/-- `send_client_stats`: publish the recorder's entries (if any) and clear it; re-arm the timer -/
def sendClientStats (st : Loop) : Loop :=
  let snap := st.recd.snapshot
  if snap.isEmpty then st else { st with published := st.published ++ [snap], recd := st.recd.clear }

def MAX_BATCHES_PER_CALL : Nat := 16

/-- the `for msg in events.iter()` loop; `serviced` = `socket_serviced` -/
def handleEvents (E : Env) (debug : Bool) (ins : Nat → PassIn) : List Token → Loop → Bool → Res (Loop × Out × Bool)
  | [], st, serviced => .ok (st, {}, serviced)
  | t :: ts, st, serviced =>
    (match t with
      | .message => (serviceSocket E debug MAX_BATCHES_PER_CALL st ins).bind fun (st', o) => .ok (st', o, true)
      | .healthCheck => (handleHealthCheck st).bind fun (st', o) => .ok (st', o, serviced)
      | .statusUpdate => .ok (sendClientStats st, {}, serviced)).bind fun (st', o, sv) =>
    (handleEvents E debug ins ts st' sv).bind fun (st'', o', sv') => .ok (st'', o.append o', sv')

/-- `process_events`. `poll` consumes the pending edges it reports (all of them, see `EventsOK`). -/
def processEvents (E : Env) (debug : Bool) (st : Loop) (c : CallIn) : Res (Loop × Out) :=
  let st0 := { st with sockEdge := st.sockEdge && !c.events.contains .message,
                       hcEdge := st.hcEdge && !c.events.contains .healthCheck,
                       timerDue := st.timerDue && !c.events.contains .statusUpdate }
  (handleEvents E debug c.passes c.events st0 false).bind fun (st1, o, serviced) =>
  if st1.backlog && !serviced then
    (serviceSocket E debug MAX_BATCHES_PER_CALL st1 c.passes).bind fun (st2, o') => .ok (st2, o.append o')
  else .ok (st1, o)

/-- the events `poll` returns are exactly the pending ones, each once (the health-check listener is
    only registered when configured). With nothing pending `poll` returns no events (after ≤ 100 ms, or
    at once when `socket_backlog` is set). -/
def EventsOK (st : Loop) (c : CallIn) : Prop :=
  c.events.Nodup ∧ (Token.message ∈ c.events ↔ st.sockEdge = true) ∧
  (Token.healthCheck ∈ c.events ↔ st.hcEdge = true) ∧ (Token.statusUpdate ∈ c.events ↔ st.timerDue = true)

/-- what the environment does between calls -/
inductive EnvStep where
  | arrive (d : Datagram)
  | connect (a : Addr)
  | fire
  deriving Repr

def envStep (st : Loop) : EnvStep → Loop
  | .arrive d => { st with sockQ := st.sockQ ++ [d], sockEdge := true }
  | .connect a => if st.hcListener then { st with hcQ := st.hcQ ++ [a], hcEdge := true } else st
  | .fire => { st with timerDue := true }

/-- a history: environment steps and calls in any order -/
inductive Step where
  | env (e : EnvStep)
  | call (c : CallIn)

def run (E : Env) (debug : Bool) : Loop → List Step → Res (Loop × List Out)
  | st, [] => .ok (st, [])
  | st, .env e :: rest => run E debug (envStep st e) rest
  | st, .call c :: rest =>
    (processEvents E debug st c).bind fun (st', o) =>
    (run E debug st' rest).bind fun (st'', os) => .ok (st'', o :: os)

/-- a freshly created worker: `Server::new` -/
def new (srv : Server) (hcConfigured perClient : Bool) (limit : Nat) : Loop :=
  { srv := srv, hcListener := hcConfigured,
    recd := if perClient then .perClient (PerClient.init limit) else .aggregated Aggregated.init }


/-- `polling_loop` of src/bin/roughenough-server.rs: `loop { server.process_events(&mut events); if !keep_running { return } }`.
    The flag is set (by the signal handler thread) before call number `flagAt` ends; `calls k` are the inputs of the
    k-th call. Returns the number of the call after which the worker returned, its state and the outputs so far;
    `none` in the result = still running when the fuel (number of calls we watch) is used up. -/
def pollingLoop (E : Env) (debug : Bool) (flagAt : Nat) (calls : Nat → CallIn) : Nat → Nat → Loop → Res (Option Nat × Loop × List Out)
  | 0, _, st => .ok (none, st, [])
  | fuel + 1, k, st =>
    (processEvents E debug st (calls k)).bind fun (st', o) =>
    if flagAt ≤ k then .ok (some k, st', [o])
    else (pollingLoop E debug flagAt calls fuel (k + 1) st').bind fun (r, st'', os) => .ok (r, st'', o :: os)

/-! ### Variants of the code before the `fix:` commits, for the witness theorems -/

/-- `service_socket` that never sets the backlog flag (seeded change C18-r2 / the state of the code
    between the first and the final shape of the F9 repair) -/
def serviceSocketNoFlag (E : Env) (debug : Bool) : Nat → Loop → (Nat → PassIn) → Res (Loop × Out)
  | 0, st, _ => .ok (st, {})
  | M + 1, st, ins =>
    let pi := ins 0
    let q := st.sockQ ++ pi.arrivals
    let p := passOf st pi
    (Server.pass E debug st.srv p).bind fun (srv', sent, ev) =>
    let st' := { st with srv := srv', sockQ := q.drop st.srv.batchSize, sockEdge := st.sockEdge || !pi.arrivals.isEmpty,
                         recd := st.recd.recordAll ev }
    let out : Out := { sent := sent, events := ev, batches := 1 }
    if p.chunk.length < st.srv.batchSize then .ok (st', out)
    else (serviceSocketNoFlag E debug M st' (fun i => ins (i + 1))).bind fun (st'', out') => .ok (st'', out.append out')

/-- `handle_health_check` before F10: one `accept` per readiness event -/
def handleHealthCheckOnce (st : Loop) : Res (Loop × Out) :=
  if !st.hcListener then .panic "server.rs:handle_health_check:health_listener.unwrap" else
  match st.hcQ with
  | [] => .ok (st, {})
  | a :: rest =>
    let ev : List Event := [⟨Kind.healthCheck, a, 0⟩]
    .ok ({ st with hcQ := rest, recd := st.recd.recordAll ev }, { events := ev, hcAnswered := [a] })

end Rough.EventLoop

import Rough.Basic.Bytes
import Rough.Model.Codec
/-
  Model of src/merkle.rs (MerkleTree), after the `fix:` commit that makes every IETF node 32 bytes.
  Parametric in the node hash `hn` (SHA-512 truncated to the node width `N`; 64 classic, 32 IETF).
  The mutable `levels: Vec<Vec<Data>>` is kept as is — including the in-place zero padding of odd
  levels, the final `pop` of the root and the fact that `reset` keeps the number of levels — because
  C04's "reuse" clause is about exactly that state.  Every index is a `Res.panic` branch.
-/
namespace Rough

structure MerkleCfg where
  /-- node hash = first `N` bytes of SHA-512 -/
  hn : Bytes → Bytes
  /-- node width in bytes -/
  N : Nat

structure Tree where
  levels : List (List Bytes)
  deriving Repr, DecidableEq

namespace Merkle

def new : Tree := ⟨[[]]⟩

def hashLeaf (c : MerkleCfg) (d : Bytes) : Bytes := c.hn ((0x00 : UInt8) :: d)
def hashNodes (c : MerkleCfg) (a b : Bytes) : Bytes := c.hn ((0x01 : UInt8) :: (a ++ b))

/-- Rust `v[i]` -/
def idx {α} (l : List α) (i : Nat) (site : String) : Res α :=
  match l[i]? with
  | some a => .ok a
  | none => .panic site

/-- `v[i] = f(v[i])` on the outer vector -/
def modifyLevel (levels : List (List Bytes)) (i : Nat) (f : List Bytes → List Bytes) (site : String) :
    Res (List (List Bytes)) :=
  match levels[i]? with
  | some l => .ok (levels.set i (f l))
  | none => .panic site

/-- `push_leaf` -/
def pushLeaf (c : MerkleCfg) (t : Tree) (d : Bytes) : Res Tree :=
  (modifyLevel t.levels 0 (· ++ [hashLeaf c d]) "merkle.rs:push_leaf:levels[0]").bind fun ls => .ok ⟨ls⟩

/-- `reset`: every level cleared, number of levels kept -/
def reset (t : Tree) : Tree := ⟨t.levels.map fun _ => []⟩

/-- `is_empty` -/
def isEmpty (t : Tree) : Res Bool := (idx t.levels 0 "merkle.rs:is_empty:levels[0]").bind fun l => .ok l.isEmpty

/-- inner `for i in 0..node_count` loop of `compute_root`: push the parents of the first
    `2*count` nodes of `levels[level-1]` onto `levels[level]`. -/
def pushParents (c : MerkleCfg) (levels : List (List Bytes)) (level : Nat) : Nat → Nat → Res (List (List Bytes))
  | _, 0 => .ok levels
  | i, k + 1 =>
    (idx levels (level - 1) "merkle.rs:compute_root:levels[level-1]").bind fun below =>
    (idx below (i * 2) "merkle.rs:compute_root:levels[level-1][i*2]").bind fun a =>
    (idx below (i * 2 + 1) "merkle.rs:compute_root:levels[level-1][i*2+1]").bind fun b =>
    (modifyLevel levels level (· ++ [hashNodes c a b]) "merkle.rs:compute_root:levels[level]").bind fun ls =>
    pushParents c ls level (i + 1) k

/-- `while node_count > 1` loop of `compute_root`; `fuel` bounds the iterations (node_count halves). -/
def rootLoop (c : MerkleCfg) : Nat → List (List Bytes) → Nat → Nat → Res (List (List Bytes) × Nat)
  | 0, levels, level, nodeCount =>
    if nodeCount > 1 then .panic "model:rootLoop fuel exhausted" else .ok (levels, level)
  | fuel + 1, levels, level, nodeCount =>
    if nodeCount > 1 then
      let level := level + 1
      let levels := if levels.length < level + 1 then levels ++ [[]] else levels
      let padded : Res (List (List Bytes) × Nat) :=
        if nodeCount % 2 ≠ 0 then
          (modifyLevel levels (level - 1) (· ++ [zeros c.N]) "merkle.rs:compute_root:levels[level-1].push").bind
            fun ls => .ok (ls, nodeCount + 1)
        else .ok (levels, nodeCount)
      padded.bind fun (ls, nc) =>
        let nc := nc / 2
        (pushParents c ls level 0 nc).bind fun ls' => rootLoop c fuel ls' level nc
    else .ok (levels, level)

/-- `finalize_output`: IETF takes `data[0..32]` (panics if shorter), classic is the identity. -/
def finalize (ietf : Bool) (d : Bytes) : Res Bytes :=
  if ietf then slice d 0 32 "merkle.rs:finalize_output:data[0..32]" else .ok d

/-- `compute_root`: returns the new tree state (root popped from the top level) and the root. -/
def computeRoot (c : MerkleCfg) (ietf : Bool) (t : Tree) : Res (Tree × Bytes) :=
  (idx t.levels 0 "merkle.rs:compute_root:levels[0]").bind fun l0 =>
  if l0.isEmpty then .panic "merkle.rs:compute_root:assert Must have at least one leaf to hash!" else
  (rootLoop c l0.length t.levels 0 l0.length).bind fun (ls, level) =>
  (idx ls level "merkle.rs:compute_root:levels[level]").bind fun top =>
  if top.length ≠ 1 then .panic "merkle.rs:compute_root:assert_eq levels[level].len() == 1" else
  match top.getLast? with
  | none => .panic "merkle.rs:compute_root:pop().unwrap()"
  | some r =>
    (finalize ietf r).bind fun root => .ok (⟨ls.set level top.dropLast⟩, root)

/-- `get_paths` loop; `fuel` = number of levels + 1 (the loop stops at the first empty level, or
    panics on indexing past the last one).  Returns the path bytes and the final `level`. -/
def pathsLoop (levels : List (List Bytes)) : Nat → Nat → Nat → Res (Bytes × Nat)
  | 0, _, _ => .panic "merkle.rs:get_paths:levels[level]"
  | fuel + 1, level, index =>
    (idx levels level "merkle.rs:get_paths:levels[level]").bind fun l =>
    if l.isEmpty then .ok ([], level) else
    (if index % 2 = 0 then .ok (index + 1) else csub index 1 "merkle.rs:get_paths:index-1").bind fun sib =>
    (idx l sib "merkle.rs:get_paths:levels[level][sibling]").bind fun s =>
    (pathsLoop levels fuel (level + 1) (index / 2)).bind fun (rest, lv) => .ok (s ++ rest, lv)

def getPaths (t : Tree) (index : Nat) : Res Bytes :=
  (pathsLoop t.levels (t.levels.length + 1) 0 index).bind fun (p, level) =>
  if level > 32 then .panic "merkle.rs:get_paths:assert level <= 32" else .ok p

/-- verifier loop of `root_from_paths` over the chunks of PATH -/
def climbChunks (c : MerkleCfg) (h : Bytes) (index : Nat) : List Bytes → Bytes
  | [] => h
  | p :: ps =>
    let h' := if index % 2 = 0 then hashNodes c h p else hashNodes c p h
    climbChunks c h' (index / 2) ps

/-- `root_from_paths` -/
def rootFromPaths (c : MerkleCfg) (ietf : Bool) (index : Nat) (data : Bytes) (paths : Bytes) : Res Bytes :=
  if c.N = 0 then .panic "merkle.rs:root_from_paths:chunks(0)" else
  if paths.length % c.N ≠ 0 then .panic "merkle.rs:root_from_paths:assert_eq paths.len() % node_len == 0" else
  finalize ietf (climbChunks c (hashLeaf c data) index (chunks c.N paths))

end Merkle
end Rough

namespace Rough.Merkle

/-- push a batch of leaves in order -/
def pushAll (c : MerkleCfg) (t : Tree) (leaves : List Bytes) : Res Tree :=
  leaves.foldl (fun r d => r.bind fun t => pushLeaf c t d) (.ok t)

/-- what the responder does per batch with its long-lived tree: `reset`, push every leaf, `compute_root` -/
def runBatch (c : MerkleCfg) (ietf : Bool) (t : Tree) (leaves : List Bytes) : Res (Tree × Bytes) :=
  (pushAll c (reset t) leaves).bind (computeRoot c ietf)

/-- every hash output has the node width -/
def HashLen (c : MerkleCfg) : Prop := ∀ x, (c.hn x).length = c.N

/-- the node width is positive, and 32 for the IETF profile (so `finalize` is the identity on nodes) -/
def WidthOK (c : MerkleCfg) (ietf : Bool) : Prop := 0 < c.N ∧ (ietf = true → c.N = 32)

end Rough.Merkle

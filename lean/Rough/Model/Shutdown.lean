import Rough.Basic.Bytes
/-
  Model of the worker polling loop (src/bin/roughenough-server.rs `polling_loop` + the EVT_MESSAGE
  part of `Server::process_events`) with respect to the shutdown flag.
    loop { server.process_events(); if !KEEP_RUNNING { return } }
  The environment is adversarial: `arr k i` datagrams arrive while batch `i` of call `k` is being
  served (any function), and the flag is set before some call `flagAt`.
  After the `fix:` commit a call serves at most `M` (=16) batches of at most `B` datagrams.
-/
namespace Rough.Shutdown

/-- one `service_socket`: up to `M` batches; returns (batches served, queue length afterwards).
    Structural recursion on `M`: the call terminates whatever arrives. -/
def serviceCall (B : Nat) : Nat → Nat → (Nat → Nat) → Nat × Nat
  | 0, q, _ => (0, q)
  | M + 1, q, arr =>
    let taken := min q B
    let q' := q - taken + arr 0
    if taken < B then (1, q')                       -- the socket ran dry (WouldBlock): the call returns
    else
      let (n, q'') := serviceCall B M q' (fun i => arr (i + 1))
      (n + 1, q'')

/-- the unrepaired call: keeps serving until the socket runs dry; `none` = still running when the
    fuel (number of batches we are willing to watch) is used up -/
def serviceUnbounded (B : Nat) : Nat → Nat → (Nat → Nat) → Option Nat
  | 0, _, _ => none
  | fuel + 1, q, arr =>
    let taken := min q B
    let q' := q - taken + arr 0
    if taken < B then some q' else serviceUnbounded B fuel q' (fun i => arr (i + 1))

/-- the worker loop for `calls` iterations: the flag is examined after every call.
    Returns `some k` = the worker returned after call number k (0-based). -/
def workerLoop (B M : Nat) (flagAt : Nat) (arr : Nat → Nat → Nat) : Nat → Nat → Nat → Option Nat
  | 0, _, _ => none
  | fuel + 1, k, q =>
    let (_, q') := serviceCall B M q (arr k)
    if flagAt ≤ k then some k else workerLoop B M flagAt arr fuel (k + 1) q'

/-- the statistics reporter: `while keep_running { drain; maybe report; sleep 1 s }` — returns the
    iteration after which it stops -/
def reporterLoop (flagAt : Nat) : Nat → Nat → Option Nat
  | 0, _ => none
  | fuel + 1, k => if flagAt ≤ k then some k else reporterLoop flagAt fuel (k + 1)

end Rough.Shutdown

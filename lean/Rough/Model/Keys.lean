import Rough.Model.Sign
import Rough.Model.Codec
import Rough.Model.Version
/-
  Model of src/key/longterm.rs and src/key/online.rs.
  `H` is SHA-512 (parameter); clock readings are (seconds, nanoseconds) since the Unix epoch.
-/
namespace Rough

/-- build a message through `add_field(..).unwrap()` calls: a panic if the order is wrong -/
def buildMsg (site : String) (fields : List (Tag × Bytes)) : Res Msg :=
  fields.foldl (fun acc f => acc.bind fun m => Res.unwrap site (m.addField f.1 f.2)) (.ok Msg.empty)

/-- `LongTermKey::calc_srv_value`: SHA-512(0xff ‖ pk)[0..32] -/
def calcSrv (H : Bytes → Bytes) (pk : Bytes) : Res Bytes :=
  slice (H ((0xff : UInt8) :: pk)) 0 32 "longterm.rs:calc_srv_value:[0..32]"

structure LongTermKey where
  signer : Signer
  srv : Bytes
  deriving Repr, DecidableEq

namespace LongTermKey
def new (S : SigScheme) (H : Bytes → Bytes) (seed : Bytes) : Res LongTermKey :=
  (Signer.fromSeed seed).bind fun sg => (calcSrv H (sg.publicKey S)).bind fun srv => .ok ⟨sg, srv⟩
def publicKey (S : SigScheme) (k : LongTermKey) : Bytes := k.signer.publicKey S
end LongTermKey

/-- `OnlineKey::make_dele`: PUBK, MINT = 0, MAXT = 2^64-1 -/
def makeDele (S : SigScheme) (onlSeed : Bytes) : Res Msg :=
  buildMsg "online.rs:make_dele:add_field.unwrap"
    [(Tag.PUBK, S.pk onlSeed), (Tag.MINT, zeros 8), (Tag.MAXT, List.replicate 8 0xff)]

/-- `LongTermKey::make_cert`: returns the certificate message and the signer afterwards -/
def makeCert (S : SigScheme) (k : LongTermKey) (ver : Version) (onlSeed : Bytes) : Res (Msg × LongTermKey) :=
  (makeDele S onlSeed).bind fun dele =>
  let deleBytes := encode dele
  let sg := (k.signer.update ver.delePrefix).update deleBytes
  let (sig, sg') := sg.sign S
  (buildMsg "longterm.rs:make_cert:add_field.unwrap" [(Tag.SIG, sig), (Tag.DELE, deleBytes)]).bind fun cert =>
  .ok (cert, { k with signer := sg' })

/-- `classic_midp`: secs * 1_000_000 + nanos / 1000 (u64 arithmetic; overflow panics in the dev profile) -/
def classicMidp (secs nanos : Nat) : Res Nat :=
  if secs * 1000000 ≥ 2 ^ 64 then .panic "online.rs:classic_midp:mul overflow"
  else if secs * 1000000 + nanos / 1000 ≥ 2 ^ 64 then .panic "online.rs:classic_midp:add overflow"
  else .ok (secs * 1000000 + nanos / 1000)

/-- `rfc_midp` -/
def rfcMidp (secs : Nat) : Nat := secs

def radiOf : Version → Nat
  | .google => 5000000
  | .ietf => 5

def midpOf (ver : Version) (secs nanos : Nat) : Res Nat :=
  match ver with
  | .google => classicMidp secs nanos
  | .ietf => .ok (rfcMidp secs)

/-- `OnlineKey::make_srep`: returns {SIG, SREP} and the signer afterwards -/
def makeSrep (S : SigScheme) (onl : Signer) (ver : Version) (secs nanos : Nat) (root : Bytes) :
    Res (Msg × Signer) :=
  (midpOf ver secs nanos).bind fun midp =>
  let radi := le32 (radiOf ver)
  let midpB := le64 midp
  let srepFields : List (Tag × Bytes) := match ver with
    | .google => [(Tag.RADI, radi), (Tag.MIDP, midpB), (Tag.ROOT, root)]
    | .ietf => [(Tag.VER, ver.wire), (Tag.RADI, radi), (Tag.MIDP, midpB), (Tag.VERS, Version.supportedWire), (Tag.ROOT, root)]
  (buildMsg "online.rs:make_srep:add_field.unwrap" srepFields).bind fun srep =>
  let srepBytes := encode srep
  let sg := (onl.update ver.srepPrefix).update srepBytes
  let (sig, sg') := sg.sign S
  (buildMsg "online.rs:make_srep:add_field.unwrap" [(Tag.SIG, sig), (Tag.SREP, srepBytes)]).bind fun res =>
  .ok (res, sg')

end Rough

import Rough.Basic.Bytes
/-
  Model of src/sign.rs: MsgSigner (buffer + sign-and-clear) and MsgVerifier, parametric in the
  signature scheme.  The concrete Ed25519 instance is plugged in only by the driver.
-/
namespace Rough

structure SigScheme where
  /-- seed ↦ public key -/
  pk : Bytes → Bytes
  /-- seed, message ↦ signature (deterministic) -/
  sign : Bytes → Bytes → Bytes
  /-- public key, message, signature ↦ accept? -/
  verify : Bytes → Bytes → Bytes → Bool
  /-- does the key parse (`VerifyingKey::from_bytes` succeeds)? -/
  pkValid : Bytes → Bool

/-- completeness of the scheme (an assumption wherever it is used; never proved here) -/
def SigScheme.Correct (S : SigScheme) : Prop :=
  ∀ seed msg, seed.length = 32 → S.verify (S.pk seed) msg (S.sign seed msg) = true

structure Signer where
  seed : Bytes
  buf : Bytes
  deriving Repr, DecidableEq

namespace Signer
/-- `MsgSigner::from_seed` (`expect("invalid seed")` unless 32 bytes) -/
def fromSeed (seed : Bytes) : Res Signer :=
  if seed.length = 32 then .ok ⟨seed, []⟩ else .panic "sign.rs:from_seed:expect invalid seed"
/-- `update` -/
def update (s : Signer) (d : Bytes) : Signer := { s with buf := s.buf ++ d }
/-- `sign`: signs the buffer and clears it -/
def sign (S : SigScheme) (s : Signer) : Bytes × Signer := (S.sign s.seed s.buf, { s with buf := [] })
def publicKey (S : SigScheme) (s : Signer) : Bytes := S.pk s.seed
end Signer

inductive SignerOp where
  | update (d : Bytes)
  | sign
  deriving Repr

/-- run a history of operations on one signer object; outputs = signatures in order -/
def runSigner (S : SigScheme) : Signer → List SignerOp → List Bytes
  | _, [] => []
  | s, .update d :: ops => runSigner S (s.update d) ops
  | s, .sign :: ops => let (sig, s') := s.sign S; sig :: runSigner S s' ops

structure Verifier where
  pk : Bytes
  buf : Bytes
  deriving Repr, DecidableEq

namespace Verifier
/-- `MsgVerifier::new`: panics unless the key is 32 bytes and parses -/
def new (S : SigScheme) (pk : Bytes) : Res Verifier :=
  if pk.length ≠ 32 then .panic "sign.rs:MsgVerifier::new:expect valid pubkey"
  else if ¬ S.pkValid pk then .panic "sign.rs:MsgVerifier::new:from_bytes.unwrap"
  else .ok ⟨pk, []⟩
def update (v : Verifier) (d : Bytes) : Verifier := { v with buf := v.buf ++ d }
/-- `verify`: panics unless the signature is 64 bytes -/
def verify (S : SigScheme) (v : Verifier) (sig : Bytes) : Res Bool :=
  if sig.length ≠ 64 then .panic "sign.rs:verify:expect valid signature" else .ok (S.verify v.pk v.buf sig)
end Verifier

/-- the client's `validate_sig`: new verifier, one update, verify -/
def validateSig (S : SigScheme) (pk sig data : Bytes) : Res Bool :=
  (Verifier.new S pk).bind fun v => (v.update data).verify S sig

end Rough

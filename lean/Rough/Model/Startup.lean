import Rough.Model.Config
/-
  Model of start-up in src/bin/roughenough-server.rs + Server::new (resources only): every worker
  thread locks the shared configuration mutex, creates its Server (binding the TCP health-check port
  if one is configured), and unlocks. The OS scheduler decides the ORDER in which workers get the
  mutex — the only freedom the mutex leaves — so `order` is an arbitrary list of worker ids.
  `reusePort` says whether the listener is bound with SO_REUSEPORT (true after the `fix:` commit).
-/
namespace Rough.Startup

/-- TCP listeners bound so far on the health-check port: (worker, bound with SO_REUSEPORT) -/
abbrev Listeners := List (Nat × Bool)

/-- kernel rule: a bind on a port succeeds iff the port is free or every socket on it (old and new) has SO_REUSEPORT -/
def tcpBind (ls : Listeners) (w : Nat) (reuse : Bool) : Option Listeners :=
  if ls.all (fun l => l.2 && reuse) then some (ls ++ [(w, reuse)]) else none

structure State where
  listeners : Listeners := []
  mutexPoisoned : Bool := false
  running : List Nat := []
  panicked : List Nat := []
  deriving Repr, DecidableEq

/-- one worker's turn with the mutex -/
def startWorker (hcConfigured reusePort : Bool) (st : State) (w : Nat) : State :=
  if st.mutexPoisoned then
    -- cfg.lock().unwrap() on a poisoned mutex panics
    { st with panicked := st.panicked ++ [w] }
  else if hcConfigured then
    match tcpBind st.listeners w reusePort with
    | some ls => { st with listeners := ls, running := st.running ++ [w] }
    | none =>
      -- expect("failed to bind TCP listener") panics while the guard is held: the mutex is poisoned
      { st with mutexPoisoned := true, panicked := st.panicked ++ [w] }
  else { st with running := st.running ++ [w] }

def startAll (hcConfigured reusePort : Bool) (order : List Nat) : State :=
  order.foldl (startWorker hcConfigured reusePort) {}

end Rough.Startup

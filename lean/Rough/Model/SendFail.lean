import Rough.Model.Server
/-
  `send_responses` with `send_to` failures (src/responder.rs, the `match socket.send_to(..)` arm).

  `Rough.Model.Server.Responder.sendResponses` models the loop under "every send_to succeeds".
  Here the outcome of every `send_to` is a parameter `ok : Addr → Nat → Bool` (destination and
  position in the batch): a failed send puts nothing on the wire and records `failedSend` for the
  destination instead of a response event with the byte count. Everything else in the iteration
  (path, response, grease, the `debug!` arguments) is evaluated exactly as in the successful case.
-/
namespace Rough
open Rough.Merkle Rough.Stats

namespace Responder

/-- one iteration of the loop in `send_responses`, `send_to` succeeding iff `ok src idx` -/
def respondOneF (ok : Addr → Nat → Bool) (r : Responder) (debug : Bool) (srep : Msg) (idx : Nat) (nonce : Bytes)
    (src : Addr) (g : Grease) : Res (Option Sent × Event) :=
  (respondOne r debug srep idx nonce src g).bind fun (s, e) =>
    if ok src idx then .ok (some s, e) else .ok (none, ⟨Kind.failedSend, src, 0⟩)

def respondAllF (ok : Addr → Nat → Bool) (r : Responder) (debug : Bool) (srep : Msg) : Nat → List (Bytes × Addr) →
    List Grease → Res (List (Option Sent) × List Event)
  | _, [], _ => .ok ([], [])
  | idx, (nonce, src) :: rest, gs =>
    (respondOneF ok r debug srep idx nonce src (gs.headD Grease.none)).bind fun (s, e) =>
    (respondAllF ok r debug srep (idx + 1) rest gs.tail).bind fun (ss, es) => .ok (s :: ss, e :: es)

/-- `send_responses` with per-send outcomes. `none` in the second component = nothing sent for
    that request. -/
def sendResponsesF (ok : Addr → Nat → Bool) (E : Env) (r : Responder) (debug : Bool) (now : Nat × Nat)
    (gs : List Grease) : Res (Responder × List (Option Sent) × List Event) :=
  if r.requests.isEmpty then .ok (r, [], []) else
  (computeRoot (E.mcfg r.ver) r.ver.isIetf r.tree).bind fun (t, root) =>
  (makeSrep E.S r.onl r.ver now.1 now.2 root).bind fun (srep, onl') =>
  let r' := { r with tree := t, onl := onl' }
  (respondAllF ok r' debug srep 0 r.requests gs).bind fun (ss, es) => .ok (r', ss, es)

/-- what a failed send turns the (datagram, event) pair of a successful one into -/
def degrade (ok : Addr → Nat → Bool) (idx : Nat) (s : Sent) (e : Event) : Option Sent × Event :=
  if ok s.dst idx then (some s, e) else (none, ⟨Kind.failedSend, s.dst, 0⟩)

def degradeAll (ok : Addr → Nat → Bool) : Nat → List Sent → List Event → List (Option Sent) × List Event
  | idx, s :: ss, e :: es =>
    let (o, e') := degrade ok idx s e
    let (os, es') := degradeAll ok (idx + 1) ss es
    (o :: os, e' :: es')
  | _, _, _ => ([], [])

end Responder
end Rough

import Rough.Gen.Prelude
import Rough.Model.Config
/-
  Hand-written environment of the generated `is_valid_config` (part of the translator's trusted base): the facts about
  the file system that `PathBuf::is_dir`, `metadata()` and `permissions().readonly()` return.
-/
namespace Rough

structure Gen.Fs where
  /-- `path.is_dir()` -/
  isDir : String → Bool
  /-- `path.metadata()` succeeds -/
  pathExists : String → Bool
  /-- `metadata.permissions().readonly()` -/
  readonly : String → Bool

end Rough

import Rough.Gen.Prelude
import Rough.Model.Config
/-
  Hand-written environment of the generated `is_valid_config` (part of the translator's trusted base): the facts about
  the file system that `PathBuf::is_dir`, `metadata()` and `permissions().readonly()` return.
-/
namespace Rough

structure Gen.Fs where
  /-- `path.is_dir()` -/
  isDir : String → Bool
  /-- `path.metadata()` succeeds -/
  pathExists : String → Bool
  /-- `metadata.permissions().readonly()` -/
  readonly : String → Bool

/-- `KmsProtection`: only "is it Plaintext?" is kept (the variant's payload, a key resource name, plays no part in any
    translated function) -/
abbrev Gen.KmsProtection := Bool

/-- a YAML scalar as written: its source text. yaml-rust's resolution of a scalar is the model's (`Config.yamlInt`:
    Integer; `Config.yamlStr`: String — quoted text or a plain word that is no number / bool / null; a float-looking text
    that is no Integer: Real) -/
abbrev Gen.Yaml := String
/-- a YAML document that is a mapping: its (key, value) scalars in file order -/
abbrev Gen.YamlDoc := List (String × String)
def Gen.Yaml.asI64 (y : Gen.Yaml) : Option Int := Config.yamlInt y
def Gen.Yaml.asStr (y : Gen.Yaml) : Option String := Config.yamlStr y
def Gen.Yaml.isReal (y : Gen.Yaml) : Bool := (Config.yamlInt y).isNone && Config.isFloat y.toList

/-- `std::env::var(name)`: `Ok(value)` if the variable is set (valid Unicode), `Err` otherwise -/
def Gen.envVar (env : List (String × String)) (name : String) : Res String :=
  match env.find? (fun kv => kv.1 == name) with
  | some kv => .ok kv.2
  | none => .err

end Rough

import Rough.Gen.Prelude
import Rough.Generated.Src.StatsCore
import Rough.Model.Stats
/-
  Hand-written environment (part of the translator's trusted base): `Box<dyn ServerStats>` is, for the generated server
  code, the list of events recorded since the last `clear()`.  `iter()` of that trait object is what the recorder of the
  configured kind holds after those events: the per-client recorder's entries (model `Stats.PerClient`, tied to
  per_client.rs by `Bridge/Stats.lean`), nothing for the aggregated recorder (its `iter()` is an empty map's iterator).
-/
namespace Rough
open Rough.Stats

/-- the `ClientStats` record of an address holding the model counters (`first_seen` is not modelled) -/
def Gen.clientOf (a : Addr) (c : Counters) : Gen.ClientStats :=
  { rfc_requests := c.rfcRequests, classic_requests := c.classicRequests, invalid_requests := c.invalidRequests,
    health_checks := c.healthChecks, rfc_responses_sent := c.rfcResponses, classic_responses_sent := c.classicResponses,
    bytes_sent := c.bytesSent, failed_send_attempts := c.failedSends, retried_send_attempts := c.retriedSends,
    first_seen := 0, ip_addr := a }

/-- `stats_recorder.iter()`; `kind` = `none` for the aggregated recorder, `some limit` for the per-client one -/
def Gen.statsIter (kind : Option Nat) (ev : List Event) : List (Nat × Gen.ClientStats) :=
  match kind with
  | none => []
  | some limit => (PerClient.run (PerClient.init limit) ev).clients.map fun p => (p.1, Gen.clientOf p.1 p.2)

end Rough

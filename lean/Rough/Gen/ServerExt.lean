import Rough.Gen.Prelude
import Rough.Generated.Src.Message
import Rough.Model.Server
/-
  Hand-written environment for the generated `Responder::send_responses` (part of the translator's trusted base):
  what the Rust code takes from outside the translated functions, as explicit state.

  * `Gen.Sock`     the UDP socket: the outcome of the k-th `send_to` of a call is the parameter `ok dst k`
                   (as in `Rough.Responder.sendResponsesF`); what was put on the wire is recorded in order.
  * `Gen.GreaseQ`  the fault injector: the drawn decisions are a parameter list, one per response
                   (`should_add_error` takes the next one, `add_errors` applies it).
  * statistics     `&mut Box<dyn ServerStats>` is the list of events recorded so far.
-/
namespace Rough
open Rough.Stats

structure Gen.Sock where
  ok : Addr → Nat → Bool
  n : Nat := 0
  out : List (Option Sent) := []
  /-- the receive queue of the socket (datagram, source), oldest first -/
  inq : List (Bytes × Addr) := []
  /-- the wall clock, read by `SystemTime::now()`: the reading taken when `k` sends have been attempted on this socket
      (every non-empty `send_responses` call reads it once, before its first send, so readings of different batches
      are independent parameters) -/
  clock : Nat → Rs.Time := fun _ => ⟨0, 0⟩

instance : Inhabited Gen.Sock := ⟨⟨fun _ _ => true, 0, [], [], fun _ => ⟨0, 0⟩⟩⟩

/-- `SystemTime::now()` -/
def Gen.Sock.now (s : Gen.Sock) : Rs.Time := s.clock s.n

inductive Gen.ErrorKind where
  | wouldBlock
  | other
  deriving Repr, DecidableEq

/-- `socket.recv_from(&mut buf)`: `Err(WouldBlock)` on an empty queue (the only error modelled); otherwise the oldest
    datagram is copied to the front of `buf` (truncated to the buffer; the rest of `buf` keeps its stale content) and
    its length and source are returned -/
def Gen.Sock.recvFrom (s : Gen.Sock) (buf : Bytes) : Res (Nat × Addr) × Gen.Sock × Bytes :=
  match s.inq with
  | [] => (.err, s, buf)
  | (d, a) :: rest =>
    let d' := d.take buf.length
    (.ok (d'.length, a), { s with inq := rest }, d' ++ buf.drop d'.length)

/-- `socket.send_to(bytes, dst)`: `Ok(len)` and the datagram on the wire, or `Err` and nothing -/
def Gen.Sock.sendTo (s : Gen.Sock) (bytes : Bytes) (dst : Addr) : Res Nat × Gen.Sock :=
  if s.ok dst s.n then (.ok bytes.length, { s with n := s.n + 1, out := s.out ++ [some ⟨dst, bytes⟩] })
  else (.err, { s with n := s.n + 1, out := s.out ++ [none] })

/-- pending fault-injection decisions and the one taken for the response being built -/
structure Gen.GreaseQ where
  pending : List Grease := []
  cur : Grease := Grease.none
  deriving Repr, DecidableEq

instance : Inhabited Gen.GreaseQ := ⟨⟨[], Grease.none⟩⟩

/-- `should_add_error()`: draws the decision for this response -/
def Gen.GreaseQ.draw (g : Gen.GreaseQ) : Bool × Gen.GreaseQ :=
  let d := g.pending.headD Grease.none
  ((match d with | Grease.none => false | _ => true), ⟨g.pending.tail, d⟩)

/-! ### the fault injector's random number generator (src/grease.rs), as a tape of draws -/

inductive Gen.Draw where
  /-- `prng.sample(bernoulli)` -/
  | coin (b : Bool)
  /-- `slice.choose(&mut prng)`: the index chosen -/
  | pick (k : Nat)
  /-- `index_sample(&mut prng, n, n)`: the drawn index vector -/
  | perm (p : List Nat)
  /-- `prng.fill_bytes(buf)`: the bytes drawn -/
  | bytes (b : Bytes)
  deriving Repr, DecidableEq

/-- `SmallRng`: the draws still to come (a draw of the wrong kind / an exhausted tape yields a fixed default) -/
abbrev Gen.Tape := List Gen.Draw

def Gen.Tape.sample (t : Gen.Tape) : Bool × Gen.Tape :=
  match t with
  | .coin b :: r => (b, r)
  | _ :: r => (false, r)
  | [] => (false, [])
def Gen.Tape.choose {α} (xs : List α) (t : Gen.Tape) : Option α × Gen.Tape :=
  match t with
  | .pick k :: r => (xs[k % (max xs.length 1)]?, r)
  | _ :: r => (xs.head?, r)
  | [] => (xs.head?, [])
def Gen.Tape.indexSample (t : Gen.Tape) (_len _amount : Nat) : List Nat × Gen.Tape :=
  match t with
  | .perm p :: r => (p, r)
  | _ :: r => ([], r)
  | [] => ([], [])
def Gen.Tape.fillBytes (t : Gen.Tape) (buf : Bytes) : Bytes × Gen.Tape :=
  match t with
  | .bytes b :: r => (b.take buf.length ++ buf.drop b.length, r)
  | _ :: r => (buf, r)
  | [] => (buf, [])

/-- the two deliberate pathologies of grease.rs -/
inductive Gen.Pathology where
  | randomlyOrderTags
  | corruptResponseSignature
  deriving Repr, DecidableEq

/-! ### environment of `Server::process_events` (mio `Poll`, the health-check listener, the statistics timer) -/

/-- mio `Poll`: the tokens this call's `poll()` reports, in the order `events.iter()` yields them -/
structure Gen.Poll where
  ready : List Nat := []
  /-- `poll()` itself fails (the code `expect`s it not to) -/
  fails : Bool := false
  deriving Repr, DecidableEq, Inhabited

/-- `self.poll.poll(events, timeout)` -/
def Gen.Poll.poll (p : Gen.Poll) : Res Nat := if p.fails then .err else .ok p.ready.length

/-- a completed connection waiting in the health-check listener's accept queue, and how its socket will behave -/
structure Gen.Conn where
  addr : Nat
  writeOk : Bool := true
  shutOk : Bool := true
  deriving Repr, DecidableEq, Inhabited

inductive Gen.TcpEvent where
  | accepted (a : Nat)
  | wrote (a : Nat) (bytes : Bytes)
  | writeFailed (a : Nat)
  | shutdown (a : Nat)
  | shutdownFailed (a : Nat)
  deriving Repr, DecidableEq

/-- the health-check listener together with the streams `accept` hands out: the accept queue (FIFO), an optional hard
    error reported once the queue is empty instead of WouldBlock, the connection accepted last (the `stream` the code
    holds), and everything that happened to accepted connections, in order -/
structure Gen.Tcp where
  pending : List Gen.Conn := []
  hardErr : Bool := false
  cur : Gen.Conn := default
  log : List Gen.TcpEvent := []
  deriving Repr, DecidableEq, Inhabited

/-- `listener.accept()`: `Ok((stream, addr))` of the oldest pending connection; on an empty queue `Err` — WouldBlock, or
    (`hardErr`) another error kind; the code treats both alike (it stops accepting) -/
def Gen.Tcp.accept (t : Gen.Tcp) : Res (Unit × Nat) × Gen.Tcp :=
  match t.pending with
  | [] => (.err, t)
  | c :: rest => (.ok ((), c.addr), { t with pending := rest, cur := c, log := t.log ++ [.accepted c.addr] })

/-- `stream.write_all(bytes)` on the connection accepted last -/
def Gen.Tcp.writeAll (t : Gen.Tcp) (bytes : Bytes) : Res Unit × Gen.Tcp :=
  if t.cur.writeOk then (.ok (), { t with log := t.log ++ [.wrote t.cur.addr bytes] })
  else (.err, { t with log := t.log ++ [.writeFailed t.cur.addr] })

/-- `stream.shutdown(Shutdown::Both)` on the connection accepted last -/
def Gen.Tcp.shutdown (t : Gen.Tcp) : Res Unit × Gen.Tcp :=
  if t.cur.shutOk then (.ok (), { t with log := t.log ++ [.shutdown t.cur.addr] })
  else (.err, { t with log := t.log ++ [.shutdownFailed t.cur.addr] })

/-- `add_errors(&r)`: applies the decision drawn for this response (model `applyGrease`, on the generated message type) -/
def Gen.GreaseQ.addErrors (g : Gen.GreaseQ) (r : Gen.RtMessage) : Res Gen.RtMessage :=
  match applyGrease g.cur ⟨r.tags.zip r.values⟩ with
  | .ok m => .ok ⟨m.tags, m.values⟩
  | .err => .err
  | .panic s => .panic s

end Rough

import Rough.Model.Tag
import Rough.Model.Version
import Rough.Model.Sign
/-
  Runtime library for the Lean code that `checklib/rs2lean` generates from /repo's Rust sources
  (`Rough/Generated/Src/*.lean`).  Generated functions live in the `Res` monad (ok | err | panic site);
  every Rust construct that can panic is a call into this file that returns `Res.panic "<file>:<line>:<what>"`.

  Loops are not Lean `for`/`while` (whose elaborated form is awkward to reason about) but the combinators
  `forList` / `forListR` / `whileFuel` below over an explicit state tuple; their unfolding lemmas are at the end.
-/
namespace Rough

instance : Monad Res where
  pure := .ok
  bind := Res.bind

@[simp] theorem Res.pure_eq {α} (a : α) : (pure a : Res α) = .ok a := rfl
@[simp] theorem Res.bind_eq {α β} (r : Res α) (f : α → Res β) : (r >>= f) = r.bind f := rfl
@[simp] theorem Res.bind_ok {α β} (a : α) (f : α → Res β) : (Res.ok a).bind f = f a := rfl
@[simp] theorem Res.bind_err {α β} (f : α → Res β) : (Res.err : Res α).bind f = .err := rfl
@[simp] theorem Res.bind_panic {α β} (s : String) (f : α → Res β) : (Res.panic s : Res α).bind f = .panic s := rfl

instance : LawfulMonad Res := LawfulMonad.mk' Res
  (id_map := fun x => by cases x <;> rfl)
  (pure_bind := fun _ _ => rfl)
  (bind_assoc := fun x _ _ => by cases x <;> rfl)

instance : Inhabited Signer := ⟨⟨[], []⟩⟩
instance : Inhabited Verifier := ⟨⟨[], []⟩⟩

namespace Rs

/-- outcome of one loop iteration (no value-`return` inside the loop) -/
inductive Step (σ : Type) where
  | next (s : σ)
  | brk (s : σ)

/-- outcome of one loop iteration / of a whole loop when the body may `return v` from the function -/
inductive Flow (σ ρ : Type) where
  | next (s : σ)
  | brk (s : σ)
  | ret (r : ρ)

/-- `for x in xs { body }` over the state tuple `s` -/
def forList {α σ : Type} : List α → σ → (α → σ → Res (Step σ)) → Res σ
  | [], s, _ => .ok s
  | x :: xs, s, f =>
    match f x s with
    | .ok (.next s') => forList xs s' f
    | .ok (.brk s') => .ok s'
    | .err => .err
    | .panic p => .panic p

/-- `for` whose body may return from the enclosing function: result is `.next s` (loop finished or broke) or `.ret r` -/
def forListR {α σ ρ : Type} : List α → σ → (α → σ → Res (Flow σ ρ)) → Res (Flow σ ρ)
  | [], s, _ => .ok (.next s)
  | x :: xs, s, f =>
    match f x s with
    | .ok (.next s') => forListR xs s' f
    | .ok (.brk s') => .ok (.next s')
    | .ok (.ret r) => .ok (.ret r)
    | .err => .err
    | .panic p => .panic p

/-- `while cond { body }` with an explicit bound on the number of iterations (given per loop in the translator's
    spec; the bridge theorems show it is never exhausted). -/
def whileFuel {σ : Type} : Nat → σ → (σ → Res Bool) → (σ → Res (Step σ)) → Res σ
  | 0, s, c, _ =>
    match c s with
    | .ok false => .ok s
    | .ok true => .panic "rs2lean: loop fuel exhausted"
    | .err => .err
    | .panic p => .panic p
  | n + 1, s, c, f =>
    match c s with
    | .ok false => .ok s
    | .ok true =>
      (match f s with
       | .ok (.next s') => whileFuel n s' c f
       | .ok (.brk s') => .ok s'
       | .err => .err
       | .panic p => .panic p)
    | .err => .err
    | .panic p => .panic p

@[simp] theorem forList_nil {α σ} (s : σ) (f : α → σ → Res (Step σ)) : forList [] s f = .ok s := rfl
theorem forList_cons {α σ} (x : α) (xs : List α) (s : σ) (f : α → σ → Res (Step σ)) :
    forList (x :: xs) s f =
      match f x s with
      | .ok (.next s') => forList xs s' f
      | .ok (.brk s') => .ok s'
      | .err => .err
      | .panic p => .panic p := rfl
@[simp] theorem forListR_nil {α σ ρ} (s : σ) (f : α → σ → Res (Flow σ ρ)) : forListR [] s f = .ok (.next s) := rfl
theorem forListR_cons {α σ ρ} (x : α) (xs : List α) (s : σ) (f : α → σ → Res (Flow σ ρ)) :
    forListR (x :: xs) s f =
      match f x s with
      | .ok (.next s') => forListR xs s' f
      | .ok (.brk s') => .ok (.next s')
      | .ok (.ret r) => .ok (.ret r)
      | .err => .err
      | .panic p => .panic p := rfl

/-- loop rule: a `forList` equals any function that satisfies its two unfolding equations (the body is found by
    unification with the goal, so proofs need not restate it). -/
theorem forList_eq_of_step {α σ} {body : α → σ → Res (Step σ)} {g : List α → σ → Res σ}
    (hnil : ∀ s, g [] s = .ok s)
    (hcons : ∀ x xs s, g (x :: xs) s =
      match body x s with
      | .ok (.next s') => g xs s'
      | .ok (.brk s') => .ok s'
      | .err => .err
      | .panic p => .panic p) :
    ∀ xs s, forList xs s body = g xs s := by
  intro xs
  induction xs with
  | nil => intro s; simp [hnil]
  | cons x xs ih =>
    intro s
    rw [forList_cons, hcons]
    cases h : body x s with
    | ok st => cases st <;> simp [ih]
    | err => rfl
    | panic p => rfl

/-! ### checked operations (dev profile: overflow checks on) -/

/-- `a - b` on an unsigned integer -/
def sub (a b : Nat) (site : String) : Res Nat := if b ≤ a then .ok (a - b) else .panic site
/-- `a / b` -/
def div (a b : Nat) (site : String) : Res Nat := if b = 0 then .panic site else .ok (a / b)
/-- `a % b` -/
def rem (a b : Nat) (site : String) : Res Nat := if b = 0 then .panic site else .ok (a % b)
/-- `v[i]` -/
def idx {α} (l : List α) (i : Nat) (site : String) : Res α :=
  match l[i]? with
  | some a => .ok a
  | none => .panic site
/-- `v[i] = x` -/
def setIdx {α} (l : List α) (i : Nat) (x : α) (site : String) : Res (List α) :=
  if i < l.length then .ok (l.set i x) else .panic site
/-- `v[s..e]` -/
def slice {α} (l : List α) (s e : Nat) (site : String) : Res (List α) :=
  if s ≤ e ∧ e ≤ l.length then .ok ((l.drop s).take (e - s)) else .panic site
/-- `v[s..]` -/
def sliceFrom {α} (l : List α) (s : Nat) (site : String) : Res (List α) :=
  if s ≤ l.length then .ok (l.drop s) else .panic site
/-- `v[..e]` -/
def sliceTo {α} (l : List α) (e : Nat) (site : String) : Res (List α) :=
  if e ≤ l.length then .ok (l.take e) else .panic site
/-- `assert!(c)` -/
def assert (c : Bool) (site : String) : Res Unit := if c then .ok () else .panic site

/-- `.unwrap()` / `.expect(..)` on an `Option` -/
def unwrapO {α} (o : Option α) (site : String) : Res α :=
  match o with
  | some a => .ok a
  | none => .panic site
/-- `.unwrap()` / `.expect(..)` on a `Result` (a `Res` computation): `Err` becomes a panic -/
def unwrapR {α} (r : Res α) (site : String) : Res α :=
  match r with
  | .ok a => .ok a
  | .err => .panic site
  | .panic p => .panic p
/-- `.is_err()` on a `Result` -/
def isErr {α} (r : Res α) : Res Bool :=
  match r with
  | .ok _ => .ok false
  | .err => .ok true
  | .panic p => .panic p
/-- `.is_ok()` on a `Result` -/
def isOk {α} (r : Res α) : Res Bool :=
  match r with
  | .ok _ => .ok true
  | .err => .ok false
  | .panic p => .panic p
/-- `.ok()` on a `Result` -/
def okOpt {α} (r : Res α) : Res (Option α) :=
  match r with
  | .ok a => .ok (some a)
  | .err => .ok none
  | .panic p => .panic p
/-- `Option` as a `Result` whose error is collapsed -/
def ofOpt {α} (o : Option α) : Res α :=
  match o with
  | some a => .ok a
  | none => .err

/-- `Vec::with_capacity(n)`: the capacity is not observable -/
def withCapacity {α} (_n : Nat) : List α := []
/-- `slice.chunks_exact(k)`: the complete pieces of length `k` (a shorter remainder is dropped) -/
def chunksExact {α} (k : Nat) (l : List α) : List (List α) := (List.range (l.length / k)).map fun i => (l.drop (i * k)).take k
/-- `xs.iter().enumerate()` -/
def enumerate {α} (l : List α) : List (Nat × α) := (List.range l.length).zip l
/-- `[x; n]` -/
def rep {α} (x : α) (n : Nat) : List α := List.replicate n x
/-- `(lo..hi)` -/
def range (lo hi : Nat) : List Nat := (List.range (hi - lo)).map (· + lo)

/-- `map[&k]` on a `HashMap` (kept as the association list it was collected from): panics when the key is absent -/
def mapIdx {κ α} [BEq κ] (m : List (κ × α)) (k : κ) (site : String) : Res α :=
  match m.find? (fun e => e.1 == k) with
  | some e => .ok e.2
  | none => .panic site
/-- `map.entry(k).or_insert_with(..)`: the entry exists afterwards (appended with the default when absent) -/
def mapEnsure {κ α} [BEq κ] (m : List (κ × α)) (k : κ) (d : α) : List (κ × α) :=
  if m.any (fun e => e.1 == k) then m else m ++ [(k, d)]
/-- update through the `&mut` reference an entry call returned -/
def mapModify {κ α} [BEq κ] (m : List (κ × α)) (k : κ) (f : α → α) : List (κ × α) :=
  m.map fun e => if e.1 == k then (e.1, f e.2) else e
/-- `opt.map(|x| f(x))` with a closure that calls translated (monadic) code -/
def optMapM {α β} (o : Option α) (f : α → Res β) : Res (Option β) :=
  match o with
  | some a => (f a).bind fun b => .ok (some b)
  | none => .ok none
/-- byteorder `read_u64::<LittleEndian>()` on a temporary `&[u8]`: `Err(UnexpectedEof)` when shorter than 8 bytes -/
def sliceReadU64 (b : Bytes) : Res Nat := if b.length < 8 then .err else .ok (leVal (b.take 8))
def sliceReadU32 (b : Bytes) : Res Nat := if b.length < 4 then .err else .ok (leVal (b.take 4))
def sliceReadU16 (b : Bytes) : Res Nat := if b.length < 2 then .err else .ok (leVal (b.take 2))

/-- `<&[T; N]>::try_from(slice)` / `slice.try_into()`: `Err` unless the slice has exactly `n` elements -/
def tryIntoArray {α} (l : List α) (n : Nat) : Res (List α) := if l.length = n then .ok l else .err
/-- byteorder write into a fixed-size `&mut [u8]`: overwrites the prefix; `Err(WriteZero)` when it does not fit -/
def sliceWrite (dst data : Bytes) : Res Bytes :=
  if dst.length < data.length then .err else .ok (data ++ dst.drop data.length)
/-- `u64` addition / multiplication with overflow checks (dev profile) -/
def addU64 (a b : Nat) (site : String) : Res Nat := if a + b ≥ 2 ^ 64 then .panic site else .ok (a + b)
def mulU64 (a b : Nat) (site : String) : Res Nat := if a * b ≥ 2 ^ 64 then .panic site else .ok (a * b)
/-- `s.as_bytes()` of a `&str` -/
def strBytes (s : String) : Bytes := s.toUTF8.toList

/-- a `SystemTime` at or after the Unix epoch / the `Duration` since the epoch: whole seconds and nanoseconds -/
structure Time where
  secs : Nat
  nanos : Nat
  deriving Repr, DecidableEq, Inhabited
/-- `now.duration_since(UNIX_EPOCH)`: `Ok` for every clock reading not before the epoch (the only ones modelled) -/
def durationSinceEpoch (t : Time) : Res Time := .ok t

/-! ### std::io::Cursor over a byte slice -/
structure Cursor where
  data : Bytes
  pos : Nat
  deriving Repr, DecidableEq

namespace Cursor
def new (b : Bytes) : Cursor := ⟨b, 0⟩
def remaining (c : Cursor) : Bytes := c.data.drop c.pos
/-- `read_exact` of `n` bytes: `Err(UnexpectedEof)` when fewer remain -/
def readExact (c : Cursor) (n : Nat) : Res (Bytes × Cursor) :=
  if c.remaining.length < n then .err else .ok (c.remaining.take n, ⟨c.data, c.pos + n⟩)
def readU32 (c : Cursor) : Res (Nat × Cursor) := (c.readExact 4).bind fun (b, c') => .ok (leVal b, c')
def readU16 (c : Cursor) : Res (Nat × Cursor) := (c.readExact 2).bind fun (b, c') => .ok (leVal b, c')
def readU64 (c : Cursor) : Res (Nat × Cursor) := (c.readExact 8).bind fun (b, c') => .ok (leVal b, c')
/-- `read_to_end`: everything that remains -/
def readToEnd (c : Cursor) : Bytes × Cursor := (c.remaining, ⟨c.data, max c.pos c.data.length⟩)
def setPosition (c : Cursor) (p : Nat) : Cursor := ⟨c.data, p⟩
end Cursor

end Rs

/-- derived `PartialOrd` on `Tag` = declaration order -/
instance : LT Tag := ⟨fun a b => a.idx < b.idx⟩
instance : LE Tag := ⟨fun a b => a.idx ≤ b.idx⟩
instance (a b : Tag) : Decidable (a < b) := inferInstanceAs (Decidable (a.idx < b.idx))
instance (a b : Tag) : Decidable (a ≤ b) := inferInstanceAs (Decidable (a.idx ≤ b.idx))
theorem Tag.le_def (a b : Tag) : (a ≤ b) = (a.idx ≤ b.idx) := rfl
theorem Tag.lt_def (a b : Tag) : (a < b) = (a.idx < b.idx) := rfl

end Rough

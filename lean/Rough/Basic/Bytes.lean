/-
  Bytes, little-endian helpers, hex.  Core-only; imported by every model file and by the driver.
-/

abbrev Bytes := List UInt8

namespace Rough

/-- Outcome of a Rust operation: a value, a (collapsed) error, or a panic at a named site. -/
inductive Res (α : Type) where
  | ok (a : α)
  | err
  | panic (site : String)
  deriving Repr, DecidableEq, Inhabited

namespace Res
def bind {α β} (r : Res α) (f : α → Res β) : Res β :=
  match r with
  | .ok a => f a
  | .err => .err
  | .panic s => .panic s
def isPanic {α} : Res α → Bool
  | .panic _ => true
  | _ => false
def isOk {α} : Res α → Bool
  | .ok _ => true
  | _ => false
def toOption {α} : Res α → Option α
  | .ok a => some a
  | _ => none
/-- `Option` to `Res` with `none ↦ err`. -/
def ofOption {α} : Option α → Res α
  | some a => .ok a
  | none => .err
/-- Rust `.unwrap()` / `.expect()` on an `Option`/`Result`: `none ↦ panic site`. -/
def unwrap {α} (site : String) : Option α → Res α
  | some a => .ok a
  | none => .panic site
end Res

/-- little-endian encoding of `n mod 2^32` (Rust `as u32` followed by `write_u32::<LE>`). -/
def le32 (n : Nat) : Bytes :=
  [UInt8.ofNat (n % 256), UInt8.ofNat (n / 256 % 256), UInt8.ofNat (n / 65536 % 256),
   UInt8.ofNat (n / 16777216 % 256)]

def le16 (n : Nat) : Bytes :=
  [UInt8.ofNat (n % 256), UInt8.ofNat (n / 256 % 256)]

def le64 (n : Nat) : Bytes := le32 (n % 4294967296) ++ le32 (n / 4294967296)

/-- little-endian value of a byte string (any length). -/
def leVal : Bytes → Nat
  | [] => 0
  | b :: bs => b.toNat + 256 * leVal bs

/-- value of the first four bytes (callers guarantee `4 ≤ b.length`). -/
def rd32 (b : Bytes) : Nat := leVal (b.take 4)
def rd16 (b : Bytes) : Nat := leVal (b.take 2)
def rd64 (b : Bytes) : Nat := leVal (b.take 8)

def zeros (n : Nat) : Bytes := List.replicate n 0

/-- Rust `slice.chunks(k)`: consecutive pieces of length `k`, the last possibly shorter. -/
def chunks (k : Nat) (b : Bytes) : List Bytes :=
  if h : k = 0 ∨ b = [] then [] else
    b.take k :: chunks k (b.drop k)
termination_by b.length
decreasing_by
  have : b ≠ [] := fun e => h (Or.inr e)
  have : 0 < b.length := List.length_pos_iff.mpr this
  simp [List.length_drop]; omega

/-! hex -/

def hexDigit (n : Nat) : Char :=
  if n < 10 then Char.ofNat (48 + n) else Char.ofNat (87 + n)

def hexOf (b : Bytes) : String :=
  String.ofList (b.flatMap fun x => [hexDigit (x.toNat / 16), hexDigit (x.toNat % 16)])

def hexVal (c : Char) : Option Nat :=
  if '0' ≤ c ∧ c ≤ '9' then some (c.toNat - 48)
  else if 'a' ≤ c ∧ c ≤ 'f' then some (c.toNat - 87)
  else if 'A' ≤ c ∧ c ≤ 'F' then some (c.toNat - 55)
  else none

def unhexL : List Char → Option Bytes
  | [] => some []
  | [_] => none
  | a :: b :: rest => do
    let x ← hexVal a
    let y ← hexVal b
    let r ← unhexL rest
    pure (UInt8.ofNat (16 * x + y) :: r)

/-- "-" denotes the empty string in the line protocol. -/
def unhex (s : String) : Option Bytes :=
  if s = "-" then some [] else unhexL s.toList

def hexOrDash (b : Bytes) : String := if b.isEmpty then "-" else hexOf b

def strBytes (s : String) : Bytes := s.toUTF8.toList

end Rough

import Rough.Crypto.Sha512
/-
  Ed25519 (RFC 8032), executable reference over `Nat` arithmetic mod p = 2^255 − 19.  Core-only.

  No theorem is proved about it.  It is validated against the RFC 8032 §7.1 vectors, the first 512
  lines of `sign.input` (= dalek's `TESTVECTORS`; taken from ring-0.16.20/tests/ed25519_tests.txt,
  the vendored dalek crate does not ship the file), and differentially against the real
  ed25519-dalek 2.2.0 / curve25519-dalek 4.1.3 (`VerifyingKey::from_bytes` + non-strict `verify`,
  `decompress`, `sign`) — see `Rough/Crypto/Ed25519Test.lean`.

  `verify` mirrors the dalek acceptance rule, read off the vendored sources
  (ed25519-dalek-2.2.0/src/{verifying,signature}.rs, ed25519-2.2.3/src/lib.rs,
  curve25519-dalek-4.1.3/src/{edwards,field,scalar}.rs):

  * `Signature::from_slice` only checks `len = 64`; `VerifyingKey::from_bytes` only decompresses
    (no small-order / weak-key check, no canonicity check of the y-coordinate);
  * `InternalSignature::try_from` rejects iff `s` is not canonical (`s ≥ ℓ`; without the
    `legacy_compatibility` feature); `R` is *not* decompressed at all;
  * `k = SHA-512(R ‖ A ‖ M) mod ℓ` over the key bytes *as supplied* (non-canonical bytes are hashed
    unchanged);
  * `R' = [k](−A) + [s]B`, compressed canonically, compared byte-for-byte with `sig[0..32]`.
    No cofactor multiplication.  Hence a non-canonical `R` in the signature is always rejected.
-/
namespace Rough.Ed25519

/-- the field prime 2^255 − 19 -/
def p : Nat := 57896044618658097711785492504343953926634992332820282019728792003956564819949
/-- the group order ℓ = 2^252 + 27742317777372353535851937790883648493 -/
def L : Nat := 7237005577332262213973186563042994240857116359379907606001950938285454250989
/-- curve constant d = −121665/121666 mod p -/
def d : Nat := 37095705934669439343138083508754565189542113879843219016388785533085940283555
/-- 2·d mod p -/
def d2 : Nat := 16295367250680780974490674513165176452449235426866156013048779062215315747161
/-- sqrt(−1) = 2^((p−1)/4) mod p (the even, "nonnegative" root, as in dalek's `SQRT_M1`) -/
def sqrtM1 : Nat := 19681161376707505956807079304988542015446066515923890162744021073123829784752
def two255 : Nat := 57896044618658097711785492504343953926634992332820282019728792003956564819968

/-! ### field arithmetic — all field elements are kept reduced (`< p`) -/

@[inline] def fadd (a b : Nat) : Nat := (a + b) % p
/-- `a − b mod p`; correct for `b ≤ p` (all callers pass reduced `b`). -/
@[inline] def fsub (a b : Nat) : Nat := (a + (p - b)) % p
@[inline] def fmul (a b : Nat) : Nat := (a * b) % p
@[inline] def fneg (a : Nat) : Nat := (p - a) % p

/-- `a ^ e mod p`, square-and-multiply, most significant bit first. -/
def fpow (a e : Nat) : Nat := go (e.log2 + 1) 1
where
  go : Nat → Nat → Nat
  | 0, acc => acc
  | i + 1, acc =>
    let acc := fmul acc acc
    go i (if e.testBit i then fmul acc a else acc)

/-- inverse by Fermat (`0 ↦ 0`) -/
def finv (a : Nat) : Nat := fpow a (p - 2)

/-! ### the group: extended twisted Edwards coordinates (X : Y : Z : T), x = X/Z, y = Y/Z, xy = T/Z.
The addition law is complete on −x² + y² = 1 + d x² y² (−1 is a square, d is not), so the same
formulas are valid for every curve point, including the 8-torsion. -/

structure Point where
  X : Nat
  Y : Nat
  Z : Nat
  T : Nat
  deriving Repr, Inhabited

def Point.zero : Point := ⟨0, 1, 1, 0⟩

/-- RFC 8032 base point -/
def B : Point :=
  ⟨15112221349535400772501151409588531511454012693041857206046113283949847762202,
   46316835694926478169428394003475163141307993866256225615783033603165251855960,
   1,
   46827403850823179245072216630277197565144205554125654976674165829533817101731⟩

/-- add-2008-hwcd-3 (a = −1).  Coordinates of `P`, `Q` reduced; only products are reduced
(sums and differences of reduced values stay below 2p and feed straight into `fmul`). -/
def Point.add (P Q : Point) : Point :=
  let a := fmul (P.Y + p - P.X) (Q.Y + p - Q.X)
  let b := fmul (P.Y + P.X) (Q.Y + Q.X)
  let c := fmul (fmul P.T d2) Q.T
  let dd := fmul (P.Z + P.Z) Q.Z
  let e := b + p - a
  let f := dd + p - c
  let g := dd + c
  let h := b + a
  ⟨fmul e f, fmul g h, fmul f g, fmul e h⟩

/-- dbl-2008-hwcd (a = −1); same reduction discipline as `Point.add`. -/
def Point.dbl (P : Point) : Point :=
  let a := fmul P.X P.X
  let b := fmul P.Y P.Y
  let zz := fmul P.Z P.Z
  let c := zz + zz                     -- < 2p
  let xy := P.X + P.Y
  let e := fmul xy xy + p + p - a - b  -- (X+Y)² − A − B
  let g := b + p - a                   -- D + B with D = −A
  let f := g + p + p - c               -- G − C
  let h := p + p - a - b               -- D − B
  ⟨fmul e f, fmul g h, fmul f g, fmul e h⟩

def Point.neg (P : Point) : Point := ⟨fneg P.X, P.Y, P.Z, fneg P.T⟩

/-- `[n]P`, double-and-add, most significant bit first. -/
def Point.smul (n : Nat) (P : Point) : Point := go (n.log2 + 1) Point.zero
where
  go : Nat → Point → Point
  | 0, acc => acc
  | i + 1, acc =>
    let acc := acc.dbl
    go i (if n.testBit i then acc.add P else acc)

/-- `[a]P + [b]Q` (Straus / Shamir trick). -/
def Point.smul2 (a : Nat) (P : Point) (b : Nat) (Q : Point) : Point :=
  go (P.add Q) (max a.log2 b.log2 + 1) Point.zero
where
  go (PQ : Point) : Nat → Point → Point
  | 0, acc => acc
  | i + 1, acc =>
    let acc := acc.dbl
    go PQ i (match a.testBit i, b.testBit i with
      | false, false => acc
      | true, false => acc.add P
      | false, true => acc.add Q
      | true, true => acc.add PQ)

/-- `[2^i]B` for `i < 256` (evaluated once). -/
def baseTable : Array Point := Id.run do
  let mut t : Array Point := Array.mkEmpty 256
  let mut P := B
  for _ in [0:256] do
    t := t.push P
    P := P.dbl
  return t

/-- `[n]B` via the table of `[2^i]B` (no doublings); equals `B.smul n`. -/
def smulB (n : Nat) : Point :=
  if n.log2 ≥ 256 then B.smul n else go (n.log2 + 1) Point.zero
where
  go : Nat → Point → Point
  | 0, acc => acc
  | i + 1, acc => go i (if n.testBit i then acc.add (baseTable.getD i Point.zero) else acc)

/-! ### encodings -/

/-- `k` bytes little-endian of `n mod 256^k` -/
def encLE : Nat → Nat → Bytes
  | 0, _ => []
  | k + 1, n => UInt8.ofNat (n % 256) :: encLE k (n / 256)

/-- canonical 32-byte encoding: affine y (reduced) little-endian, bit 255 := parity of affine x -/
def Point.compress (P : Point) : Bytes :=
  let zi := finv P.Z
  let x := fmul P.X zi
  let y := fmul P.Y zi
  encLE 32 (y + two255 * (x % 2))

/-- curve25519-dalek 4 `CompressedEdwardsY::decompress` on a 32-byte string (`none` for any other
length).
`y` := low 255 bits mod p (non-canonical accepted); `(ok, x) := sqrt_ratio_i (y²−1) (d y²+1)`
(nonnegative root); reject iff not `ok`; negate `x` iff bit 255 is set (so x = 0 with the sign bit
set is accepted and yields x = 0). -/
def decompress (b : Bytes) : Option Point :=
  if b.length ≠ 32 then none else
  let raw := leVal b
  let sign := raw / two255 % 2
  let y := raw % two255 % p
  let yy := fmul y y
  let u := fsub yy 1
  let v := fadd (fmul yy d) 1
  -- sqrt_ratio_i
  let v3 := fmul (fmul v v) v
  let v7 := fmul (fmul v3 v3) v
  let r := fmul (fmul u v3) (fpow (fmul u v7) ((p - 5) / 8))
  let check := fmul v (fmul r r)
  let correct := check == u
  let flipped := check == fneg u
  let flippedI := check == fmul (fneg u) sqrtM1
  let r := if flipped || flippedI then fmul sqrtM1 r else r
  let r := if r % 2 == 1 then fneg r else r
  if correct || flipped then
    let x := if sign == 1 then fneg r else r
    some ⟨x, y, 1, fmul x y⟩
  else none

/-! ### RFC 8032 key generation and signing -/

/-- RFC 8032 §5.1.5 clamping of the 32-byte little-endian value -/
def clamp (n : Nat) : Nat :=
  let n := n % two255           -- clear bit 255
  let n := n - n % 8            -- clear bits 0,1,2
  n % (two255 / 2) + two255 / 2 -- set bit 254

/-- the clamped secret scalar as a number (seed of any length is hashed) -/
def secretNat (seed : Bytes) : Nat := clamp (leVal ((Sha512.hash seed).take 32))

/-- the clamped secret scalar (first half of SHA-512(seed), clamped), 32 bytes little-endian;
`[]` if the seed is not 32 bytes. -/
def secretScalar (seed : Bytes) : Bytes :=
  if seed.length ≠ 32 then [] else encLE 32 (secretNat seed)

/-- RFC 8032 public key of a 32-byte seed (any other seed length: return []). -/
def publicKey (seed : Bytes) : Bytes :=
  if seed.length ≠ 32 then [] else (smulB (secretNat seed)).compress

/-- deterministic RFC 8032 signature (64 bytes); `[]` if the seed is not 32 bytes. -/
def sign (seed : Bytes) (msg : Bytes) : Bytes :=
  if seed.length ≠ 32 then [] else
  let h := Sha512.hash seed
  let a := clamp (leVal (h.take 32))
  let pref := h.drop 32
  let A := (smulB a).compress
  let r := leVal (Sha512.hash (pref ++ msg)) % L
  let R := (smulB r).compress
  let k := leVal (Sha512.hash (R ++ A ++ msg)) % L
  let s := (r + k * a) % L
  R ++ encLE 32 s

/-! ### verification, ed25519-dalek 2.x non-strict -/

/-- Agrees with ed25519-dalek 2.x `VerifyingKey::from_bytes(pk)` followed by
`verify(msg, Signature::from_slice(sig))` (the NON-strict verify). -/
def verify (pk msg sig : Bytes) : Bool :=
  if pk.length ≠ 32 || sig.length ≠ 64 then false else
  match decompress pk with
  | none => false
  | some A =>
    let Rb := sig.take 32
    let s := leVal (sig.drop 32)
    if s ≥ L then false else
    let k := leVal (Sha512.hash (Rb ++ pk ++ msg)) % L
    let R' := Point.smul2 k A.neg s B
    R'.compress == Rb

end Rough.Ed25519

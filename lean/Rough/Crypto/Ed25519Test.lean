import Rough.Crypto.Ed25519
/-
  Test driver for `Rough.Ed25519`.  NOT imported by anything; run it with
    lake env lean --run Rough/Crypto/Ed25519Test.lean <mode> [args]
  or link it as a `lean_exe` with `root = "Rough.Crypto.Ed25519Test"`.

  modes
    rfc                     built-in RFC 8032 §7.1 vectors (TEST 1, 2, 3, SHA(abc))
    vectors <file> [n]      `sign.input` / dalek `TESTVECTORS` format  sk+pk:pk:msg:sig+msg:
                            (first n lines, default all): publicKey, sign, verify, and a
                            bit-flipped signature must be rejected
    diff <file>             differential file, one case per line:
                              V <pk|-> <msg|-> <sig|-> <0|1>     expected `verify` verdict
                              S <seed> <msg|-> <pk> <sig>        expected `publicKey` / `sign`
                              D <pk> <hex|->                     expected `decompress` then `compress`
    bench [n]               time n sign + n verify (default 200)
-/
open Rough Rough.Ed25519

def hx (s : String) : Bytes := (unhex s).getD []

structure Tally where
  total : Nat := 0
  bad : Nat := 0
  accept : Nat := 0
  reject : Nat := 0

/-- (seed, pk, msg, sig) -/
def rfcVectors : List (String × String × String × String) := [
  ("9d61b19deffd5a60ba844af492ec2cc44449c5697b326919703bac031cae7f60",
   "d75a980182b10ab7d54bfed3c964073a0ee172f3daa62325af021a68f707511a",
   "-",
   "e5564300c360ac729086e2cc806e828a84877f1eb8e5d974d873e065224901555fb8821590a33bacc61e39701cf9b46bd25bf5f0595bbe24655141438e7a100b"),
  ("4ccd089b28ff96da9db6c346ec114e0f5b8a319f35aba624da8cf6ed4fb8a6fb",
   "3d4017c3e843895a92b70aa74d1b7ebc9c982ccf2ec4968cc0cd55f12af4660c",
   "72",
   "92a009a9f0d4cab8720e820b5f642540a2b27b5416503f8fb3762223ebdb69da085ac1e43e15996e458f3613d0f11d8c387b2eaeb4302aeeb00d291612bb0c00"),
  ("c5aa8df43f9f837bedb7442f31dcb7b166d38535076f094b85ce3a2e0b4458f7",
   "fc51cd8e6218a1a38da47ed00230f0580816ed13ba3303ac5deb911548908025",
   "af82",
   "6291d657deec24024827e69c3abe01a30ce548a284743a445e3680d7db5ac3ac18ff9b538d16f290ae67f760984dc6594a7c15e9716ed28dc027beceea1ec40a"),
  ("833fe62409237b9d62ec77587520911e9a759cec1d19755b7da901b96dca3d42",
   "ec172b93ad5e563bf4932c70e1245034c35467ef2efd4d64ebf819683467e2bf",
   "ddaf35a193617abacc417349ae20413112e6fa4e89a97ea20a9eeee64b55d39a2192992a274fc1a836ba3c23a3feebbd454d4423643ce80e2a9ac94fa54ca49f",
   "dc2a4459e7369633a52b1bf277839a00201009a3efbf3ecb69bea2186c26b58909351fc9ac90b3ecfdfbc7c66431e0303dca179c138ac17ad9bef1177331a704")]

/-- flip bit `i` (counted from the start, LSB of byte 0 first) -/
def flipBit (b : Bytes) (i : Nat) : Bytes :=
  b.mapIdx fun j x => if j = i / 8 then x ^^^ (1 <<< UInt8.ofNat (i % 8)) else x

/-- full check of one known-answer tuple; returns the list of failed sub-checks -/
def checkKat (seed pk msg sig : Bytes) : List String :=
  (if publicKey seed == pk then [] else ["publicKey"]) ++
  (if sign seed msg == sig then [] else ["sign"]) ++
  (if verify pk msg sig then [] else ["verify"]) ++
  (if verify pk msg (flipBit sig ((leVal (sig.take 2)) % 512)) then ["verify-flipped-sig"] else []) ++
  (if verify pk (msg ++ [0]) sig then ["verify-extended-msg"] else [])

def runRfc : IO UInt32 := do
  let mut bad := 0
  let mut i := 0
  for (s, p, m, g) in rfcVectors do
    i := i + 1
    let fails := checkKat (hx s) (hx p) (hx m) (hx g)
    IO.println s!"rfc vector {i}: {if fails.isEmpty then "ok" else toString fails}"
    unless fails.isEmpty do bad := bad + 1
  -- constants
  let cs : List (String × Bool) := [
    ("p", p == 2^255 - 19), ("L", L == 2^252 + 27742317777372353535851937790883648493),
    ("d", (d * 121666 + 121665) % p == 0), ("d2", d2 == 2 * d % p),
    ("sqrtM1", fmul sqrtM1 sqrtM1 == p - 1 ∧ sqrtM1 % 2 == 0), ("two255", two255 == 2^255),
    ("B.y", B.Y * 5 % p == 4), ("B.x even", B.X % 2 == 0), ("B.t", B.T == fmul B.X B.Y),
    ("B on curve", fsub (fmul B.Y B.Y) (fmul B.X B.X) == fadd 1 (fmul d (fmul B.T B.T))),
    ("[L]B = 0", (B.smul L).compress == Point.zero.compress),
    ("smulB = smul", [0, 1, 2, 3, L - 1, L, L + 1, 2^255 - 1, 2^256 - 1, 2^256, 2^256 + 12345, 2^300 + 7,
        leVal (Sha512.hash [1]), leVal (Sha512.hash [2]) % L, leVal ((Sha512.hash [3]).take 32)].all
        fun n => (smulB n).compress == (B.smul n).compress),
    ("smul2", (Point.smul2 (L - 5) B 77 (B.smul 3)).compress == (B.smul (L - 5 + 231)).compress),
    ("B compress", hexOf B.compress == "5866666666666666666666666666666666666666666666666666666666666666"),
    ("decompress B", (decompress B.compress).map (fun P => (P.X, P.Y)) == some (B.X, B.Y)),
    ("secretScalar", hexOf (secretScalar (hx "9d61b19deffd5a60ba844af492ec2cc44449c5697b326919703bac031cae7f60"))
        == "307c83864f2833cb427a2ef1c00a013cfdff2768d980c0a3a520f006904de94f")]
  for (n, ok) in cs do
    unless ok do
      IO.println s!"constant check FAILED: {n}"
      bad := bad + 1
  IO.println s!"rfc: {rfcVectors.length} vectors, {cs.length} constant checks, {bad} failures"
  return if bad == 0 then 0 else 1

def runVectors (path : String) (limit : Option Nat) : IO UInt32 := do
  let txt ← IO.FS.readFile path
  let lines := (txt.splitOn "\n").filter (· ≠ "")
  let lines := match limit with | some n => lines.take n | none => lines
  let mut bad := 0
  let mut n := 0
  for ln in lines do
    n := n + 1
    match ln.splitOn ":" with
    | skpk :: pk :: msg :: sigmsg :: _ =>
      let seed := (hx skpk).take 32
      let pkb := hx pk
      let m := hx msg
      let sg := (hx sigmsg).take 64
      let fails := checkKat seed pkb m sg ++
        (if (hx skpk).drop 32 == pkb ∧ (hx sigmsg).drop 64 == m then [] else ["format"])
      unless fails.isEmpty do
        bad := bad + 1
        IO.println s!"line {n}: FAILED {fails}"
    | _ =>
      bad := bad + 1
      IO.println s!"line {n}: unparsable"
  IO.println s!"vectors: {n} lines checked (publicKey, sign, verify, 2 negative verifies each), {bad} failures"
  return if bad == 0 then 0 else 1

def runDiff (path : String) : IO UInt32 := do
  let txt ← IO.FS.readFile path
  let lines := (txt.splitOn "\n").filter (· ≠ "")
  let mut v : Tally := {}
  let mut s : Tally := {}
  let mut dc : Tally := {}
  let mut n := 0
  for ln in lines do
    n := n + 1
    match ln.splitOn " " with
    | ["V", pk, msg, sig, verdict] =>
      match unhex pk, unhex msg, unhex sig with
      | some pk, some msg, some sig =>
        let got := verify pk msg sig
        let want := verdict == "1"
        v := { v with total := v.total + 1,
                      accept := v.accept + (if want then 1 else 0),
                      reject := v.reject + (if want then 0 else 1) }
        if got != want then
          v := { v with bad := v.bad + 1 }
          IO.println s!"line {n}: verify MISMATCH lean={got} dalek={want}: {ln}"
      | _, _, _ => v := { v with total := v.total + 1, bad := v.bad + 1 }; IO.println s!"line {n}: bad hex"
    | ["D", pk, want] =>
      -- dalek `CompressedEdwardsY(pk).decompress().map(compress)`, "-" for `None`
      let got := match (unhex pk).bind decompress with
        | some P => hexOf P.compress
        | none => "-"
      dc := { dc with total := dc.total + 1,
                      accept := dc.accept + (if want == "-" then 0 else 1),
                      reject := dc.reject + (if want == "-" then 1 else 0) }
      if got != want then
        dc := { dc with bad := dc.bad + 1 }
        IO.println s!"line {n}: decompress MISMATCH lean={got}: {ln}"
    | ["S", seed, msg, pk, sig] =>
      match unhex seed, unhex msg, unhex pk, unhex sig with
      | some seed, some msg, some pk, some sig =>
        s := { s with total := s.total + 1 }
        if publicKey seed != pk || sign seed msg != sig then
          s := { s with bad := s.bad + 1 }
          IO.println s!"line {n}: sign/publicKey MISMATCH: {ln}"
      | _, _, _, _ => s := { s with total := s.total + 1, bad := s.bad + 1 }; IO.println s!"line {n}: bad hex"
    | _ =>
      v := { v with total := v.total + 1, bad := v.bad + 1 }
      IO.println s!"line {n}: unparsable"
  IO.println s!"diff: verify lines {v.total} (dalek accepts {v.accept}, rejects {v.reject}), mismatches {v.bad}"
  IO.println s!"diff: sign/publicKey lines {s.total}, mismatches {s.bad}"
  IO.println s!"diff: decompress lines {dc.total} (dalek decompresses {dc.accept}, fails {dc.reject}), mismatches {dc.bad}"
  return if v.bad + s.bad + dc.bad == 0 then 0 else 1

def runBench (n : Nat) : IO UInt32 := do
  let seed0 := hx "9d61b19deffd5a60ba844af492ec2cc44449c5697b326919703bac031cae7f60"
  let t0 ← IO.monoNanosNow
  let mut seed := seed0
  let mut sigs : Array (Bytes × Bytes × Bytes) := #[]
  for i in [0:n] do
    let msg := encLE 8 i ++ seed
    let sg := sign seed msg
    sigs := sigs.push (seed, msg, sg)
    seed := sg.take 32
  let t1 ← IO.monoNanosNow
  let mut pks : Array Bytes := #[]
  for (sd, _, _) in sigs do
    pks := pks.push (publicKey sd)
  let t2 ← IO.monoNanosNow
  let mut ok := 0
  for i in [0:n] do
    let (_, msg, sg) := sigs[i]!
    if verify pks[i]! msg sg then ok := ok + 1
  let t3 ← IO.monoNanosNow
  let us (a b : Nat) : Nat := (b - a) / n / 1000
  IO.println s!"bench n={n}: sign {us t0 t1} us/op, publicKey {us t1 t2} us/op, verify {us t2 t3} us/op, verified {ok}/{n}"
  return if ok == n then 0 else 1

def main (args : List String) : IO UInt32 := do
  match args with
  | ["rfc"] => runRfc
  | ["vectors", f] => runVectors f none
  | ["vectors", f, n] => runVectors f n.toNat?
  | ["diff", f] => runDiff f
  | ["bench"] => runBench 200
  | ["bench", n] => runBench (n.toNat?.getD 200)
  | _ =>
    IO.println "usage: rfc | vectors <file> [n] | diff <file> | bench [n]"
    return 2

import Rough.Crypto.AesGcm
/-
  Stand-alone test program for Rough.Crypto.AesGcm; not imported by anything.  To run it, add
      [[lean_exe]]
      name = "gcmtest"
      root = "Rough.Crypto.AesGcmTest"
  to a (private copy of the) lakefile and run `lake exe gcmtest [vectors.txt]`.

  * known-answer tests: FIPS 197 C.3 (AES-256 block) and McGrew–Viega GCM test cases 13–16;
  * differential test: each line of `vectors.txt` is `key nonce ad pt sealed` (hex, `-` = empty) as
    produced by `ring::aead::AES_256_GCM` `seal_in_place_append_tag`; we check `seal` reproduces
    `sealed`, `open` inverts it, and (for every 4th line) that every single-bit flip of `sealed` and
    of `ad` is rejected;
  * timing of seal/open on the roughenough shape (64-byte plaintext, AD = "roughenough").
-/
open Rough Rough.AesGcm

def hx (s : String) : Bytes := (unhex s).getD []

structure Kat where
  name : String
  key : String
  iv : String
  ad : String
  pt : String
  ct : String
  tag : String

def k0 := "0000000000000000000000000000000000000000000000000000000000000000"
def k1 := "feffe9928665731c6d6a8f9467308308feffe9928665731c6d6a8f9467308308"
def p64 := "d9313225f88406e5a55909c5aff5269a86a7a9531534f7da2e4c303d8a318a72" ++
           "1c3c0c95956809532fcf0e2449a6b525b16aedf5aa0de657ba637b391aafd255"
def p60 := "d9313225f88406e5a55909c5aff5269a86a7a9531534f7da2e4c303d8a318a72" ++
           "1c3c0c95956809532fcf0e2449a6b525b16aedf5aa0de657ba637b39"

def kats : List Kat := [
  { name := "TC13", key := k0, iv := "000000000000000000000000", ad := "-", pt := "-", ct := "-",
    tag := "530f8afbc74536b9a963b4f1c4cb738b" },
  { name := "TC14", key := k0, iv := "000000000000000000000000", ad := "-",
    pt := "00000000000000000000000000000000", ct := "cea7403d4d606b6e074ec5d3baf39d18",
    tag := "d0d1c8a799996bf0265b98b5d48ab919" },
  { name := "TC15", key := k1, iv := "cafebabefacedbaddecaf888", ad := "-", pt := p64,
    ct := "522dc1f099567d07f47f37a32a84427d643a8cdcbfe5c0c97598a2bd2555d1aa" ++
          "8cb08e48590dbb3da7b08b1056828838c5f61e6393ba7a0abcc9f662898015ad",
    tag := "b094dac5d93471bdec1a502270e3cc6c" },
  { name := "TC16", key := k1, iv := "cafebabefacedbaddecaf888",
    ad := "feedfacedeadbeeffeedfacedeadbeefabaddad2", pt := p60,
    ct := "522dc1f099567d07f47f37a32a84427d643a8cdcbfe5c0c97598a2bd2555d1aa" ++
          "8cb08e48590dbb3da7b08b1056828838c5f61e6393ba7a0abcc9f662",
    tag := "76fc6ece0f4e1768cddf8853bb2d551b" }]

def flipBit (b : Bytes) (i : Nat) : Bytes :=
  b.set (i / 8) (b.getD (i / 8) 0 ^^^ (1 <<< (i % 8).toUInt8))

def main (args : List String) : IO UInt32 := do
  let mut fails := 0
  -- FIPS 197 Appendix C.3
  let w := expandKey (hx "000102030405060708090a0b0c0d0e0f101112131415161718191a1b1c1d1e1f").toArray
  let c := (encryptBlock w (hx "00112233445566778899aabbccddeeff").toArray).toList
  if hexOf c == "8ea2b7ca516745bfeafc49904b496089" then IO.println "FIPS197 C.3: ok"
  else fails := fails + 1; IO.println s!"FIPS197 C.3: FAIL {hexOf c}"
  -- McGrew–Viega
  for k in kats do
    let want := hx k.ct ++ hx k.tag
    let got := AesGcm.seal (hx k.key) (hx k.iv) (hx k.ad) (hx k.pt)
    let back := AesGcm.open (hx k.key) (hx k.iv) (hx k.ad) want
    if got == some want && back == some (hx k.pt) then IO.println s!"{k.name}: ok"
    else fails := fails + 1; IO.println s!"{k.name}: FAIL got {(got.map hexOf).getD "none"}"
  -- argument-shape rejections
  let shape :=
    AesGcm.seal (zeros 31) (zeros 12) [] [] == none && AesGcm.seal (zeros 32) (zeros 11) [] [] == none &&
    AesGcm.seal (zeros 33) (zeros 12) [] [] == none && AesGcm.seal (zeros 32) (zeros 13) [] [] == none &&
    AesGcm.open (zeros 32) (zeros 12) [] (zeros 15) == none &&
    AesGcm.open (zeros 31) (zeros 12) [] (hx "530f8afbc74536b9a963b4f1c4cb738b") == none &&
    AesGcm.open (zeros 32) (zeros 12) [] (hx "530f8afbc74536b9a963b4f1c4cb738b") == some []
  if shape then IO.println "shape checks: ok" else fails := fails + 1; IO.println "shape checks: FAIL"
  -- differential
  if let some path := args.head? then
    let lines := (← IO.FS.lines path).toList.filter (· ≠ "")
    let mut nSeal := 0
    let mut nOpen := 0
    let mut nFlip := 0
    let mut nSampled := 0
    let mut idx := 0
    for l in lines do
      match (l.splitOn " ").map unhex with
      | [some key, some nonce, some ad, some pt, some sealed] =>
        if AesGcm.seal key nonce ad pt == some sealed then nSeal := nSeal + 1
        else fails := fails + 1; IO.println s!"seal mismatch line {idx}"
        if AesGcm.open key nonce ad sealed == some pt then nOpen := nOpen + 1
        else fails := fails + 1; IO.println s!"open mismatch line {idx}"
        if idx % 4 == 0 then
          nSampled := nSampled + 1
          for i in [0:8 * sealed.length] do
            if AesGcm.open key nonce ad (flipBit sealed i) == none then nFlip := nFlip + 1
            else fails := fails + 1; IO.println s!"bit flip {i} of sealed accepted, line {idx}"
          for i in [0:8 * ad.length] do
            if AesGcm.open key nonce (flipBit ad i) sealed == none then nFlip := nFlip + 1
            else fails := fails + 1; IO.println s!"bit flip {i} of ad accepted, line {idx}"
      | _ => fails := fails + 1; IO.println s!"unparsable line {idx}"
      idx := idx + 1
    IO.println s!"differential: {lines.length} lines, seal ok {nSeal}, open ok {nOpen}, \
      bit flips rejected {nFlip} (over {nSampled} sampled lines)"
  -- timing
  let ad := strBytes "roughenough"
  let pt := (List.range 64).map UInt8.ofNat
  let iters := 2000
  let mut acc : Nat := 0
  let t0 ← IO.monoNanosNow
  let mut boxes : Array Bytes := #[]
  for i in [0:iters] do
    let nonce := le64 i ++ le32 0
    let s := (AesGcm.seal (hx k1) nonce ad pt).getD []
    acc := acc + (s.getLastD 0).toNat
    boxes := boxes.push s
  let t1 ← IO.monoNanosNow
  for i in [0:iters] do
    let nonce := le64 i ++ le32 0
    let p := (AesGcm.open (hx k1) nonce ad (boxes.getD i [])).getD []
    acc := acc + p.length
  let t2 ← IO.monoNanosNow
  IO.println s!"timing ({iters} iters, 64-byte pt, 11-byte ad): seal {(t1 - t0) / iters / 1000} us, \
    open {(t2 - t1) / iters / 1000} us  [chk {acc}]"
  if fails == 0 then IO.println "ALL OK" else IO.println s!"FAILURES: {fails}"
  return (if fails == 0 then 0 else 1)

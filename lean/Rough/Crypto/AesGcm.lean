import Rough.Basic.Bytes
/-
  AES-256-GCM (FIPS 197 + NIST SP 800-38D), executable reference over `List UInt8`, restricted to
  32-byte keys and 96-bit nonces (the only shape `ring::aead::AES_256_GCM` accepts).  Written for
  obviousness, not speed.  No theorem is proved about it: it is validated against the McGrew–Viega
  GCM test cases 13–16 and differentially against `ring` (Rough/Crypto/AesGcmTest.lean).
-/
namespace Rough.AesGcm

/-! ## AES-256 block cipher (FIPS 197) -/

/-- FIPS 197 Figure 7. -/
def sbox : Array UInt8 := #[
  0x63, 0x7c, 0x77, 0x7b, 0xf2, 0x6b, 0x6f, 0xc5, 0x30, 0x01, 0x67, 0x2b, 0xfe, 0xd7, 0xab, 0x76,
  0xca, 0x82, 0xc9, 0x7d, 0xfa, 0x59, 0x47, 0xf0, 0xad, 0xd4, 0xa2, 0xaf, 0x9c, 0xa4, 0x72, 0xc0,
  0xb7, 0xfd, 0x93, 0x26, 0x36, 0x3f, 0xf7, 0xcc, 0x34, 0xa5, 0xe5, 0xf1, 0x71, 0xd8, 0x31, 0x15,
  0x04, 0xc7, 0x23, 0xc3, 0x18, 0x96, 0x05, 0x9a, 0x07, 0x12, 0x80, 0xe2, 0xeb, 0x27, 0xb2, 0x75,
  0x09, 0x83, 0x2c, 0x1a, 0x1b, 0x6e, 0x5a, 0xa0, 0x52, 0x3b, 0xd6, 0xb3, 0x29, 0xe3, 0x2f, 0x84,
  0x53, 0xd1, 0x00, 0xed, 0x20, 0xfc, 0xb1, 0x5b, 0x6a, 0xcb, 0xbe, 0x39, 0x4a, 0x4c, 0x58, 0xcf,
  0xd0, 0xef, 0xaa, 0xfb, 0x43, 0x4d, 0x33, 0x85, 0x45, 0xf9, 0x02, 0x7f, 0x50, 0x3c, 0x9f, 0xa8,
  0x51, 0xa3, 0x40, 0x8f, 0x92, 0x9d, 0x38, 0xf5, 0xbc, 0xb6, 0xda, 0x21, 0x10, 0xff, 0xf3, 0xd2,
  0xcd, 0x0c, 0x13, 0xec, 0x5f, 0x97, 0x44, 0x17, 0xc4, 0xa7, 0x7e, 0x3d, 0x64, 0x5d, 0x19, 0x73,
  0x60, 0x81, 0x4f, 0xdc, 0x22, 0x2a, 0x90, 0x88, 0x46, 0xee, 0xb8, 0x14, 0xde, 0x5e, 0x0b, 0xdb,
  0xe0, 0x32, 0x3a, 0x0a, 0x49, 0x06, 0x24, 0x5c, 0xc2, 0xd3, 0xac, 0x62, 0x91, 0x95, 0xe4, 0x79,
  0xe7, 0xc8, 0x37, 0x6d, 0x8d, 0xd5, 0x4e, 0xa9, 0x6c, 0x56, 0xf4, 0xea, 0x65, 0x7a, 0xae, 0x08,
  0xba, 0x78, 0x25, 0x2e, 0x1c, 0xa6, 0xb4, 0xc6, 0xe8, 0xdd, 0x74, 0x1f, 0x4b, 0xbd, 0x8b, 0x8a,
  0x70, 0x3e, 0xb5, 0x66, 0x48, 0x03, 0xf6, 0x0e, 0x61, 0x35, 0x57, 0xb9, 0x86, 0xc1, 0x1d, 0x9e,
  0xe1, 0xf8, 0x98, 0x11, 0x69, 0xd9, 0x8e, 0x94, 0x9b, 0x1e, 0x87, 0xe9, 0xce, 0x55, 0x28, 0xdf,
  0x8c, 0xa1, 0x89, 0x0d, 0xbf, 0xe6, 0x42, 0x68, 0x41, 0x99, 0x2d, 0x0f, 0xb0, 0x54, 0xbb, 0x16]

@[inline] def sub (b : UInt8) : UInt8 := sbox.getD b.toNat 0

/-- multiplication by `x` in GF(2^8) modulo x^8 + x^4 + x^3 + x + 1. -/
@[inline] def xtime (b : UInt8) : UInt8 :=
  (b <<< 1) ^^^ (if b &&& 0x80 != 0 then 0x1b else 0)

/-- Round constants `Rcon[1..7]` (first byte; the other three are zero). Index 0 unused. -/
def rcon : Array UInt8 := #[0x00, 0x01, 0x02, 0x04, 0x08, 0x10, 0x20, 0x40]

/-- AES-256 key expansion (Nk = 8, Nr = 14): 60 words = 240 bytes; word `i` occupies bytes
`4i .. 4i+3`, so round key `r` is bytes `16r .. 16r+15` in state (column-major) order. -/
def expandKey (key : Array UInt8) : Array UInt8 := Id.run do
  let mut w : Array UInt8 := Array.mkEmpty 240
  for i in [0:32] do
    w := w.push (key.getD i 0)
  for i in [8:60] do
    let mut t0 := w.getD (4 * i - 4) 0
    let mut t1 := w.getD (4 * i - 3) 0
    let mut t2 := w.getD (4 * i - 2) 0
    let mut t3 := w.getD (4 * i - 1) 0
    if i % 8 == 0 then
      -- SubWord (RotWord temp) xor Rcon[i / Nk]
      let r0 := sub t1 ^^^ rcon.getD (i / 8) 0
      let r1 := sub t2
      let r2 := sub t3
      let r3 := sub t0
      t0 := r0; t1 := r1; t2 := r2; t3 := r3
    else if i % 8 == 4 then
      t0 := sub t0; t1 := sub t1; t2 := sub t2; t3 := sub t3
    w := w.push (w.getD (4 * i - 32) 0 ^^^ t0)
    w := w.push (w.getD (4 * i - 31) 0 ^^^ t1)
    w := w.push (w.getD (4 * i - 30) 0 ^^^ t2)
    w := w.push (w.getD (4 * i - 29) 0 ^^^ t3)
  return w

/-- The state is 16 bytes, `s[4c + r]` = row `r`, column `c` (FIPS 197 §3.4). -/
def addRoundKey (s w : Array UInt8) (round : Nat) : Array UInt8 :=
  (Array.range 16).map fun i => s.getD i 0 ^^^ w.getD (16 * round + i) 0

def subBytes (s : Array UInt8) : Array UInt8 := s.map sub

/-- Row `r` is rotated left by `r` columns. -/
def shiftRows (s : Array UInt8) : Array UInt8 :=
  (Array.range 16).map fun i =>
    let r := i % 4
    let c := i / 4
    s.getD (4 * ((c + r) % 4) + r) 0

def mixColumns (s : Array UInt8) : Array UInt8 := Id.run do
  let mut o : Array UInt8 := Array.mkEmpty 16
  for c in [0:4] do
    let a0 := s.getD (4 * c) 0
    let a1 := s.getD (4 * c + 1) 0
    let a2 := s.getD (4 * c + 2) 0
    let a3 := s.getD (4 * c + 3) 0
    -- {02}·a = xtime a, {03}·a = xtime a ^ a
    o := o.push (xtime a0 ^^^ (xtime a1 ^^^ a1) ^^^ a2 ^^^ a3)
    o := o.push (a0 ^^^ xtime a1 ^^^ (xtime a2 ^^^ a2) ^^^ a3)
    o := o.push (a0 ^^^ a1 ^^^ xtime a2 ^^^ (xtime a3 ^^^ a3))
    o := o.push ((xtime a0 ^^^ a0) ^^^ a1 ^^^ a2 ^^^ xtime a3)
  return o

/-- FIPS 197 Cipher() with Nr = 14; `w` is the expanded key, `blk` has 16 bytes. -/
def encryptBlock (w blk : Array UInt8) : Array UInt8 := Id.run do
  let mut s := addRoundKey blk w 0
  for round in [1:14] do
    s := addRoundKey (mixColumns (shiftRows (subBytes s))) w round
  return addRoundKey (shiftRows (subBytes s)) w 14

/-! ## GF(2^128) and GHASH (SP 800-38D §6.3, §6.4) -/

/-- A 128-bit block as two big-endian halves: bit 0 of the block (the leftmost bit of byte 0, the
coefficient of x^0) is the most significant bit of `hi`; bit 127 is the least significant of `lo`. -/
structure Block where
  hi : UInt64
  lo : UInt64
  deriving BEq, Repr, Inhabited

namespace Block
def zero : Block := ⟨0, 0⟩
@[inline] def xor (a b : Block) : Block := ⟨a.hi ^^^ b.hi, a.lo ^^^ b.lo⟩

def be64 (b : Array UInt8) (off : Nat) : UInt64 := Id.run do
  let mut x : UInt64 := 0
  for i in [0:8] do
    x := (x <<< 8) ||| (b.getD (off + i) 0).toUInt64
  return x

/-- Read 16 bytes at `off`; bytes past the end of `b` read as zero (this is GHASH's zero padding). -/
def ofBytes (b : Array UInt8) (off : Nat := 0) : Block := ⟨be64 b off, be64 b (off + 8)⟩

def u64be (x : UInt64) : Bytes :=
  (List.range 8).map fun i => (x >>> (56 - 8 * i).toUInt64).toUInt8

def toBytes (a : Block) : Bytes := u64be a.hi ++ u64be a.lo

/-- bit `i` (0 ≤ i < 128) in the SP 800-38D numbering. -/
@[inline] def bit (a : Block) (i : Nat) : Bool :=
  if i < 64 then (a.hi >>> (63 - i).toUInt64) &&& 1 == 1
  else (a.lo >>> (127 - i).toUInt64) &&& 1 == 1

/-- SP 800-38D Algorithm 1: `X • Y` with R = 11100001 ‖ 0^120. -/
def mul (x y : Block) : Block := Id.run do
  let mut z := zero
  let mut v := y
  for i in [0:128] do
    if x.bit i then z := z.xor v
    let carry := v.lo &&& 1 == 1
    v := ⟨v.hi >>> 1, (v.lo >>> 1) ||| (v.hi <<< 63)⟩
    if carry then v := ⟨v.hi ^^^ 0xe100000000000000, v.lo⟩
  return z
end Block

/-- Absorb `data` (zero-padded to a multiple of 16 bytes) into the running GHASH value `y`. -/
def ghashAbsorb (h y : Block) (data : Array UInt8) : Block := Id.run do
  let mut y := y
  for k in [0:(data.size + 15) / 16] do
    y := (y.xor (Block.ofBytes data (16 * k))).mul h
  return y

/-- GHASH_H (A ‖ 0^v ‖ C ‖ 0^u ‖ [len A]_64 ‖ [len C]_64), lengths in bits. -/
def ghash (h : Block) (ad ct : Array UInt8) : Block :=
  let y := ghashAbsorb h (ghashAbsorb h Block.zero ad) ct
  (y.xor ⟨(8 * ad.size).toUInt64, (8 * ct.size).toUInt64⟩).mul h

/-! ## GCM with a 96-bit IV (SP 800-38D §7) -/

/-- Counter block `IV ‖ [n]_32`; J0 is `ctrBlock iv 1`, and inc32 increments `n` mod 2^32. -/
def ctrBlock (iv : Array UInt8) (n : Nat) : Array UInt8 :=
  iv ++ #[UInt8.ofNat (n / 16777216 % 256), UInt8.ofNat (n / 65536 % 256),
          UInt8.ofNat (n / 256 % 256), UInt8.ofNat (n % 256)]

/-- GCTR_K (inc32 J0, data): block `k` of `data` is xored with `E_K (IV ‖ [k + 2]_32)`. -/
def gctr (w iv data : Array UInt8) : Array UInt8 := Id.run do
  let mut out : Array UInt8 := Array.mkEmpty data.size
  for k in [0:(data.size + 15) / 16] do
    let ks := encryptBlock w (ctrBlock iv (k + 2))
    for j in [0:16] do
      if 16 * k + j < data.size then
        out := out.push (data.getD (16 * k + j) 0 ^^^ ks.getD j 0)
  return out

/-- The 16-byte tag `E_K (J0) xor GHASH_H (A, C)` with `H = E_K (0^128)`. -/
def tag (w iv ad ct : Array UInt8) : Bytes :=
  let h := Block.ofBytes (encryptBlock w (Array.replicate 16 0))
  let s := ghash h ad ct
  (s.xor (Block.ofBytes (encryptBlock w (ctrBlock iv 1)))).toBytes

/-- AES-256-GCM seal with a 32-byte key and 12-byte nonce: returns ciphertext ‖ 16-byte tag.
`none` if `key.length ≠ 32` or `nonce.length ≠ 12`. -/
def «seal» (key nonce ad plaintext : Bytes) : Option Bytes :=
  if key.length ≠ 32 ∨ nonce.length ≠ 12 then none else
  let w := expandKey key.toArray
  let iv := nonce.toArray
  let ct := gctr w iv plaintext.toArray
  some (ct.toList ++ tag w iv ad.toArray ct)

/-- AES-256-GCM open: input is ciphertext ‖ 16-byte tag.  `none` if key/nonce length is wrong, the
input is shorter than 16 bytes, or the tag does not match; otherwise the plaintext. -/
def «open» (key nonce ad ctAndTag : Bytes) : Option Bytes :=
  if key.length ≠ 32 ∨ nonce.length ≠ 12 ∨ ctAndTag.length < 16 then none else
  let w := expandKey key.toArray
  let iv := nonce.toArray
  let n := ctAndTag.length - 16
  let ct := (ctAndTag.take n).toArray
  if tag w iv ad.toArray ct == ctAndTag.drop n then some (gctr w iv ct).toList else none

/-- `seal` and `open` are both Lean keywords: the qualified names `AesGcm.seal` / `AesGcm.open` parse
fine, but the bare names need `«»` quoting.  These aliases avoid that after `open Rough.AesGcm`. -/
abbrev sealBox := @«seal»
@[inherit_doc sealBox] abbrev openBox := @«open»

end Rough.AesGcm

import Rough.Model.Sign
import Rough.Spec.Codec
import Rough.Spec.MerkleTree
/-
  Independent verifier and reference responder written from the Google Roughtime and IETF draft-13
  protocol descriptions and the property texts — NOT from the server code.  Shares with the model
  only: `Bytes`, the `Msg` container, the `SigScheme` record, `Spec.decode` (reference decoder),
  `encode` (proved inverse of the reference decoder, C05) and the abstract Merkle tree `Spec.MT`.
  Context strings, version numbers, widths and the leaf definition are restated here as literals.
-/
namespace Rough.Spec.RT
open Rough

inductive Proto where
  | classic
  | draft13
  deriving Repr, DecidableEq

def magic : Bytes := [0x52, 0x4f, 0x55, 0x47, 0x48, 0x54, 0x49, 0x4d]   -- "ROUGHTIM"
def ver13 : Bytes := [0x0c, 0x00, 0x00, 0x80]                              -- 0x8000000c little-endian

def deleCtx : Proto → Bytes
  | .classic => strBytes "RoughTime v1 delegation signature--" ++ [0]
  | .draft13 => strBytes "RoughTime v1 delegation signature" ++ [0]
def srepCtx : Proto → Bytes
  | _ => strBytes "RoughTime v1 response signature" ++ [0]

def nodeWidth : Proto → Nat
  | .classic => 64
  | .draft13 => 32

/-- the protocol's hash: SHA-512 (classic) or its first 32 bytes (draft-13), at every node -/
def hash (H : Bytes → Bytes) (p : Proto) (x : Bytes) : Bytes :=
  match p with
  | .classic => H x
  | .draft13 => (H x).take 32

def mcfg (H : Bytes → Bytes) (p : Proto) : MerkleCfg := ⟨hash H p, nodeWidth p⟩

def u64le (b : Bytes) : Nat := leVal (b.take 8)
def u32le (b : Bytes) : Nat := leVal (b.take 4)

/-- strip the RFC frame: magic, little-endian length equal to the remaining byte count -/
def unframe (d : Bytes) : Option Bytes :=
  if d.length < 12 then none
  else if d.take 8 ≠ magic then none
  else if u32le (d.drop 8) ≠ d.length - 12 then none
  else some (d.drop 12)

/-- split VER into 32-bit version numbers (a ragged tail is not a version) -/
def versionList (v : Bytes) : List Bytes := (chunks 4 v).filter (fun c => c.length = 4)

/-- how the property classifies a datagram as a request -/
inductive ReqClass where
  /-- well-formed, must be answered; carries the nonce -/
  | must (nonce : Bytes)
  /-- well-formed draft-13 request whose version list names draft-13 only beyond the fourth
      entry: the server may answer it or not (C12: "only if listed, always if among the first four") -/
  | may (nonce : Bytes)
  /-- must not be answered -/
  | no
  deriving Repr, DecidableEq

/-- A well-formed request for protocol `p` addressed to a server whose commitment value is `srv`:
    length 1024..1500; classic: a message with a 64-byte NONC; draft-13: framed, a message with VER
    listing 0x8000000c, a 32-byte NONC, and SRV absent or equal to `srv`. -/
def classifyRequest (p : Proto) (srv : Bytes) (d : Bytes) : ReqClass :=
  if d.length < 1024 ∨ d.length > 1500 then .no else
  match p with
  | .classic =>
    if d.take 8 = magic then .no else
    match decode d with
    | none => .no
    | some m => match m.get Tag.NONC with
      | some n => if n.length = 64 then .must n else .no
      | none => .no
  | .draft13 =>
    match unframe d with
    | none => .no
    | some body =>
      match decode body with
      | none => .no
      | some m =>
        match m.get Tag.VER, m.get Tag.NONC with
        | some v, some n =>
          if ¬ (versionList v).contains ver13 then .no
          else if n.length ≠ 32 then .no
          else
            let ok : Bool := match m.get Tag.SRV with
              | some s => s = srv
              | none => true
            if ¬ ok then .no
            else if ((versionList v).take 4).contains ver13 then .must n else .may n
        | _, _ => .no

/-- which protocol a datagram is a request of (by its magic) -/
def protoOf (d : Bytes) : Proto := if d.take 8 = magic then .draft13 else .classic

/-- recompute the root from a leaf, an index and a list of path elements (bottom first) -/
def climb (H : Bytes → Bytes) (p : Proto) (h : Bytes) (index : Nat) : List Bytes → Bytes
  | [] => h
  | e :: es =>
    let h' := if index % 2 = 0 then hash H p ((0x01 : UInt8) :: (h ++ e)) else hash H p ((0x01 : UInt8) :: (e ++ h))
    climb H p h' (index / 2) es

/-- The verifier. `request` is the exact datagram the client sent; `nonce` its nonce.
    `Except` carries the reason of the first failed check. -/
def verifyResponse (S : SigScheme) (H : Bytes → Bytes) (p : Proto) (ltpk request nonce response : Bytes) :
    Except String (Nat × Nat) := do
  let body ← match p with
    | .classic => pure response
    | .draft13 => match unframe response with
      | some b => pure b
      | none => throw "frame"
  let m ← match decode body with | some m => pure m | none => throw "decode"
  let get (m : Msg) (t : Tag) (what : String) : Except String Bytes :=
    match m.get t with | some v => pure v | none => throw ("missing " ++ what)
  let sig ← get m Tag.SIG "SIG"
  let path ← get m Tag.PATH "PATH"
  let srepB ← get m Tag.SREP "SREP"
  let certB ← get m Tag.CERT "CERT"
  let indxB ← get m Tag.INDX "INDX"
  -- echoed nonce: required for draft-13, and must match whenever present
  match m.get Tag.NONC with
  | some n => if n ≠ nonce then throw "NONC mismatch"
  | none => if p = .draft13 then throw "missing NONC"
  if sig.length ≠ 64 then throw "SIG length"
  if indxB.length ≠ 4 then throw "INDX length"
  let cert ← match decode certB with | some c => pure c | none => throw "CERT decode"
  let certSig ← get cert Tag.SIG "CERT.SIG"
  let deleB ← get cert Tag.DELE "CERT.DELE"
  if certSig.length ≠ 64 then throw "CERT.SIG length"
  let dele ← match decode deleB with | some c => pure c | none => throw "DELE decode"
  let pubk ← get dele Tag.PUBK "PUBK"
  let mint ← get dele Tag.MINT "MINT"
  let maxt ← get dele Tag.MAXT "MAXT"
  if pubk.length ≠ 32 ∨ mint.length ≠ 8 ∨ maxt.length ≠ 8 then throw "DELE field length"
  if ¬ S.verify ltpk (deleCtx p ++ deleB) certSig then throw "delegation signature"
  if ¬ S.verify pubk (srepCtx p ++ srepB) sig then throw "response signature"
  let srep ← match decode srepB with | some c => pure c | none => throw "SREP decode"
  let radi ← get srep Tag.RADI "RADI"
  let midp ← get srep Tag.MIDP "MIDP"
  let root ← get srep Tag.ROOT "ROOT"
  if radi.length ≠ 4 ∨ midp.length ≠ 8 then throw "SREP field length"
  if root.length ≠ nodeWidth p then throw "ROOT length"
  if p = .draft13 then
    let v ← get srep Tag.VER "SREP.VER"
    let vs ← get srep Tag.VERS "SREP.VERS"
    if v ≠ ver13 then throw "SREP.VER"
    if ¬ (versionList vs).contains ver13 ∨ vs.length % 4 ≠ 0 then throw "SREP.VERS"
  let t := u64le midp
  if ¬ (u64le mint ≤ t ∧ t ≤ u64le maxt) then throw "midpoint outside delegation window"
  if path.length % nodeWidth p ≠ 0 then throw "PATH length"
  let elems := chunks (nodeWidth p) path
  if elems.length > 32 then throw "PATH too long"
  let index := u32le indxB
  if index ≥ 2 ^ elems.length then throw "INDX inconsistent with PATH"
  let leaf := match p with | .classic => nonce | .draft13 => request
  let r := climb H p (hash H p ((0x00 : UInt8) :: leaf)) index elems
  if r ≠ root then throw "Merkle root mismatch"
  pure (t, u32le radi)

def accepts (S : SigScheme) (H : Bytes → Bytes) (p : Proto) (ltpk request nonce response : Bytes) : Bool :=
  match verifyResponse S H p ltpk request nonce response with
  | .ok _ => true
  | .error _ => false

/-! Reference responder (an honest server holding its own keys), used by the client rig. -/

def mkMsg (fields : List (Tag × Bytes)) : Msg := ⟨fields⟩

/-- response for position `i` of a batch whose leaves are `leaves` (nonces for classic, whole
    request packets for draft-13), signed at midpoint `midp` with radius `radi`. -/
def respond (S : SigScheme) (H : Bytes → Bytes) (p : Proto) (ltSeed onlSeed : Bytes) (midp radi : Nat)
    (mint maxt : Nat) (leaves : List Bytes) (i : Nat) (nonce : Bytes) : Bytes :=
  let c := mcfg H p
  let root := MT.T.hash c (MT.treeOf leaves)
  let path := (MT.pathOf c leaves i).flatten
  let dele := encode (mkMsg [(Tag.PUBK, S.pk onlSeed), (Tag.MINT, le64 mint), (Tag.MAXT, le64 maxt)])
  let cert := encode (mkMsg [(Tag.SIG, S.sign ltSeed (deleCtx p ++ dele)), (Tag.DELE, dele)])
  let srep := match p with
    | .classic => encode (mkMsg [(Tag.RADI, le32 radi), (Tag.MIDP, le64 midp), (Tag.ROOT, root)])
    | .draft13 => encode (mkMsg [(Tag.VER, ver13), (Tag.RADI, le32 radi), (Tag.MIDP, le64 midp),
                                  (Tag.VERS, [0, 0, 0, 0] ++ ver13), (Tag.ROOT, root)])
  let sig := S.sign onlSeed (srepCtx p ++ srep)
  let resp := encode (mkMsg [(Tag.SIG, sig), (Tag.NONC, nonce), (Tag.PATH, path), (Tag.SREP, srep),
                             (Tag.CERT, cert), (Tag.INDX, le32 i)])
  match p with
  | .classic => resp
  | .draft13 => magic ++ le32 resp.length ++ resp

end Rough.Spec.RT

namespace Rough.Spec.RT

/-- C01's notion of an authentic response for a pinned key `ltpk`, nothing more: a signature chain
    from that key over the delegation and from the delegated key over the signed response, under the
    protocol's context strings; the midpoint inside the delegation window; a Merkle proof binding
    the client's own request (nonce for classic, whole packet for draft-13) to the signed root.
    Returns the signed midpoint and radius. (No opinion on NONC echo, VER/VERS, INDX range, widths.) -/
def authentic (S : SigScheme) (H : Bytes → Bytes) (p : Proto) (ltpk request nonce response : Bytes) :
    Option (Nat × Nat) := do
  let body ← match p with
    | .classic => some response
    | .draft13 => if response.length ≥ 12 ∧ response.take 8 = magic then some (response.drop 12) else none
  let m ← decode body
  let sig ← m.get Tag.SIG
  let path ← m.get Tag.PATH
  let srepB ← m.get Tag.SREP
  let certB ← m.get Tag.CERT
  let indxB ← m.get Tag.INDX
  let cert ← decode certB
  let certSig ← cert.get Tag.SIG
  let deleB ← cert.get Tag.DELE
  let dele ← decode deleB
  let pubk ← dele.get Tag.PUBK
  let mint ← dele.get Tag.MINT
  let maxt ← dele.get Tag.MAXT
  let srep ← decode srepB
  let midp ← srep.get Tag.MIDP
  let radi ← srep.get Tag.RADI
  let root ← srep.get Tag.ROOT
  if midp.length < 8 ∨ radi.length < 4 ∨ mint.length < 8 ∨ maxt.length < 8 ∨ indxB.length < 4 then none
  if certSig.length ≠ 64 ∨ sig.length ≠ 64 ∨ pubk.length ≠ 32 then none
  if ¬ S.pkValid ltpk ∨ ¬ S.pkValid pubk then none
  if ¬ S.verify ltpk (deleCtx p ++ deleB) certSig then none
  if ¬ S.verify pubk (srepCtx p ++ srepB) sig then none
  let t := u64le midp
  if ¬ (u64le mint ≤ t ∧ t ≤ u64le maxt) then none
  if path.length % nodeWidth p ≠ 0 then none
  let leaf := match p with | .classic => nonce | .draft13 => request
  let r := climb H p (hash H p ((0x00 : UInt8) :: leaf)) (u32le indxB) (chunks (nodeWidth p) path)
  if r ≠ root then none
  pure (t, u32le radi)

/-- a dishonest or faulty responder for the client rig: like `respond` but with independently
    chosen delegation / response signing contexts, wire protocol, signed NONC and leaf position -/
def respondWith (S : SigScheme) (H : Bytes → Bytes) (wire dctx sctx : Proto) (ltSeed onlSeed : Bytes)
    (midp radi mint maxt : Nat) (leaves : List Bytes) (i : Nat) (nonce : Bytes) : Bytes :=
  let c := mcfg H wire
  let root := MT.T.hash c (MT.treeOf leaves)
  let path := (MT.pathOf c leaves i).flatten
  let dele := encode (mkMsg [(Tag.PUBK, S.pk onlSeed), (Tag.MINT, le64 mint), (Tag.MAXT, le64 maxt)])
  let cert := encode (mkMsg [(Tag.SIG, S.sign ltSeed (deleCtx dctx ++ dele)), (Tag.DELE, dele)])
  let srep := match wire with
    | .classic => encode (mkMsg [(Tag.RADI, le32 radi), (Tag.MIDP, le64 midp), (Tag.ROOT, root)])
    | .draft13 => encode (mkMsg [(Tag.VER, ver13), (Tag.RADI, le32 radi), (Tag.MIDP, le64 midp),
                                  (Tag.VERS, [0, 0, 0, 0] ++ ver13), (Tag.ROOT, root)])
  let sig := S.sign onlSeed (srepCtx sctx ++ srep)
  let resp := encode (mkMsg [(Tag.SIG, sig), (Tag.NONC, nonce), (Tag.PATH, path), (Tag.SREP, srep),
                             (Tag.CERT, cert), (Tag.INDX, le32 i)])
  match wire with
  | .classic => resp
  | .draft13 => magic ++ le32 resp.length ++ resp

end Rough.Spec.RT

import Rough.Model.Merkle
/-
  Abstract Merkle tree used as the specification for C04: an inductive tree, its hash, the tree
  built from a batch (pair adjacent nodes, an odd one out pairs with the zero `pad` node, repeat
  until one node is left), and what it means for the hash function to be broken.
  Independent of the level vectors of Model/Merkle.lean; shares only `MerkleCfg`, `hashLeaf`,
  `hashNodes` (the two tweaks).
-/
namespace Rough.Spec.MT
open Rough Rough.Merkle

inductive T where
  | leaf (d : Bytes)
  | pad
  | node (l r : T)
  deriving Repr, DecidableEq

def T.hash (c : MerkleCfg) : T → Bytes
  | .leaf d => hashLeaf c d
  | .pad => zeros c.N
  | .node l r => hashNodes c (T.hash c l) (T.hash c r)

/-- one level up -/
def pairT : List T → List T
  | a :: b :: rest => T.node a b :: pairT rest
  | [a] => [T.node a T.pad]
  | [] => []

def buildAux : Nat → List T → T
  | _, [t] => t
  | 0, _ => T.pad
  | f + 1, ts => buildAux f (pairT ts)

/-- the tree of a batch -/
def build (ts : List T) : T := buildAux ts.length ts

def treeOf (leaves : List Bytes) : T := build (leaves.map T.leaf)

/-- number of levels above the leaves: smallest k with n ≤ 2^k -/
def depthAux : Nat → Nat → Nat
  | 0, _ => 0
  | f + 1, n => if n ≤ 1 then 0 else 1 + depthAux f ((n + 1) / 2)
def depth (n : Nat) : Nat := depthAux n n

/-- follow direction bits from the root (`true` = go right); `none` if the walk leaves the tree -/
def descend : T → List Bool → Option T
  | t, [] => some t
  | .node l r, b :: bs => descend (if b then r else l) bs
  | _, _ :: _ => none

/-- sibling hashes met on that walk, top first -/
def siblings (c : MerkleCfg) : T → List Bool → List Bytes
  | .node l r, b :: bs => T.hash c (if b then l else r) :: siblings c (if b then r else l) bs
  | _, _ => []

/-- the hash function is broken: an explicit collision, or a preimage of the all-zero pad node -/
def Broken (c : MerkleCfg) : Prop :=
  (∃ x y, x ≠ y ∧ c.hn x = c.hn y) ∨ (∃ x, c.hn x = zeros c.N)

/-- direction bits of `index` for a path of `k` elements, bottom first (bit 0 first) -/
def bitsOf (index : Nat) : Nat → List Bool
  | 0 => []
  | k + 1 => (index % 2 = 1) :: bitsOf (index / 2) k

/-- the genuine inclusion path for position `i` of a batch: sibling hashes bottom first -/
def pathOf (c : MerkleCfg) (leaves : List Bytes) (i : Nat) : List Bytes :=
  (siblings c (treeOf leaves) (bitsOf i (depth leaves.length)).reverse).reverse

end Rough.Spec.MT

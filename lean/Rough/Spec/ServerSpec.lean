import Rough.Model.Server
import Rough.Spec.Roughtime
/-
  Vocabulary for the server-level theorems (C02, C07, C08, C09, C17, C18): the assumptions on the
  primitives, the invariant of reachable server states, and the *expected* output of a pass written
  with the reference responder `Spec.RT.respond` — i.e. the server model is specified as
  "exactly one reference-responder reply per accepted request, IETF batch first, then classic".
-/
namespace Rough.ServerSpec
open Rough Rough.Spec Rough.Stats

/-- length assumptions on the primitives (true of SHA-512 / Ed25519; nothing about security) -/
structure EnvOK (E : Env) : Prop where
  hashLen : ∀ x, (E.H x).length = 64
  sigLen : ∀ seed m, (E.S.sign seed m).length = 64
  pkLen : ∀ seed, (E.S.pk seed).length = 32

/-- the secrets of one server instance: long-term seed and the two online seeds -/
structure Keys where
  seed : Bytes
  onlI : Bytes
  onlC : Bytes

def Keys.OK (K : Keys) : Prop := K.seed.length = 32 ∧ K.onlI.length = 32 ∧ K.onlC.length = 32

def protoOfVer : Version → RT.Proto
  | .google => .classic
  | .ietf => .draft13

def onlOf (K : Keys) : Version → Bytes
  | .google => K.onlC
  | .ietf => K.onlI

/-- certificate bytes of the responder for `ver` (as the reference responder builds them) -/
def certOf (E : Env) (K : Keys) (ver : Version) : Bytes :=
  let p := protoOfVer ver
  let dele := encode ⟨[(Tag.PUBK, E.S.pk (onlOf K ver)), (Tag.MINT, le64 0), (Tag.MAXT, le64 (2 ^ 64 - 1))]⟩
  encode ⟨[(Tag.SIG, E.S.sign K.seed (RT.deleCtx p ++ dele)), (Tag.DELE, dele)]⟩

/-- invariant of every server state reachable from `Server.new` with keys `K` -/
structure Inv (E : Env) (K : Keys) (s : Server) : Prop where
  srv : s.srv = (E.H ((0xff : UInt8) :: E.S.pk K.seed)).take 32
  ltPub : s.ltPub = E.S.pk K.seed
  verI : s.ietf.ver = Version.ietf
  verC : s.classic.ver = Version.google
  onlI : s.ietf.onl = ⟨K.onlI, []⟩
  onlC : s.classic.onl = ⟨K.onlC, []⟩
  certI : s.ietf.cert = certOf E K Version.ietf
  certC : s.classic.cert = certOf E K Version.google
  treeI : s.ietf.tree.levels ≠ []
  treeC : s.classic.tree.levels ≠ []

def clockOK (now : Nat × Nat) : Prop := now.2 < 1000000000 ∧ now.1 * 1000000 + 999999 < 2 ^ 64

/-- a pass without fault injection and with clock readings a `SystemTime` can produce -/
def PassOK (p : Server.Pass) : Prop :=
  clockOK p.nowIetf ∧ clockOK p.nowClassic ∧
  (∀ g ∈ p.greaseIetf, g = Grease.none) ∧ (∀ g ∈ p.greaseClassic, g = Grease.none)

/-- a fault-injection decision the Rust code can draw: a permutation of the six field positions, or
    any 64 random bytes -/
def GreaseOK : Grease → Prop
  | .none => True
  | .reorder perm => perm.Perm (List.range 6)
  | .corruptSig rho => rho.length = 64

/-- a pass with arbitrary (drawable) fault-injection decisions -/
def PassSafe (p : Server.Pass) : Prop :=
  clockOK p.nowIetf ∧ clockOK p.nowClassic ∧
  (∀ g ∈ p.greaseIetf, GreaseOK g) ∧ (∀ g ∈ p.greaseClassic, GreaseOK g)

/-- requests of protocol `ver` accepted from a chunk, in arrival order, with their nonces -/
def accepted (srv : Bytes) (ver : Version) : List Datagram → List (Datagram × Bytes)
  | [] => []
  | d :: ds =>
    match nonceFromRequest d.bytes srv with
    | .ok (n, v) => if v = ver then (d, n) :: accepted srv ver ds else accepted srv ver ds
    | _ => accepted srv ver ds

/-- Merkle leaf of an accepted request: the nonce (classic) or the whole packet (IETF) -/
def leafOf (ver : Version) (x : Datagram × Bytes) : Bytes :=
  match ver with
  | .google => x.2
  | .ietf => x.1.bytes

def midpVal (ver : Version) (now : Nat × Nat) : Nat :=
  match midpOf ver now.1 now.2 with
  | .ok m => m
  | _ => 0

/-- what one responder must send for its batch: one reference-responder reply per request, to the
    request's source, in order -/
def expectedBatch (E : Env) (K : Keys) (ver : Version) (now : Nat × Nat) (reqs : List (Datagram × Bytes)) :
    List Sent :=
  reqs.mapIdx fun i x =>
    ⟨x.1.src, RT.respond E.S E.H (protoOfVer ver) K.seed (onlOf K ver) (midpVal ver now) (radiOf ver) 0 (2 ^ 64 - 1)
      (reqs.map (leafOf ver)) i x.2⟩

def expectedSent (E : Env) (K : Keys) (s : Server) (p : Server.Pass) : List Sent :=
  let chunk := p.chunk.take s.batchSize
  expectedBatch E K .ietf p.nowIetf (accepted s.srv .ietf chunk) ++
  expectedBatch E K .google p.nowClassic (accepted s.srv .google chunk)

def requestEvent (srv : Bytes) (d : Datagram) : Event :=
  match nonceFromRequest d.bytes srv with
  | .ok (_, .ietf) => ⟨Kind.ietfReq, d.src, 0⟩
  | .ok (_, .google) => ⟨Kind.classicReq, d.src, 0⟩
  | _ => ⟨Kind.invalidReq, d.src, 0⟩

/-- the statistics events a pass must record: one per received datagram, then one per response -/
def expectedEvents (E : Env) (K : Keys) (s : Server) (p : Server.Pass) : List Event :=
  let chunk := p.chunk.take s.batchSize
  chunk.map (requestEvent s.srv) ++
  (expectedBatch E K .ietf p.nowIetf (accepted s.srv .ietf chunk)).map (fun x => ⟨Kind.rfcResp, x.dst, x.bytes.length⟩) ++
  (expectedBatch E K .google p.nowClassic (accepted s.srv .google chunk)).map (fun x => ⟨Kind.classicResp, x.dst, x.bytes.length⟩)

end Rough.ServerSpec

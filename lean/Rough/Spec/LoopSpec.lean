import Rough.Model.EventLoop
import Rough.Spec.ServerSpec
/-
  Vocabulary for the event-loop theorems (Props/Loop.lean): the plan of a socket service written
  without the server (which batches are read from which part of the queue), the liveness invariant
  ("nothing that is queued can be forgotten"), and what an idle call is.
-/
namespace Rough.LoopSpec
open Rough Rough.EventLoop Rough.ServerSpec Rough.Stats

/-- the pass made of a chunk and the per-batch inputs -/
def mkPass (chunk : List Datagram) (pi : PassIn) : Server.Pass :=
  { chunk := chunk, nowIetf := pi.nowIetf, nowClassic := pi.nowClassic,
    greaseIetf := pi.greaseIetf, greaseClassic := pi.greaseClassic }

structure Plan where
  passes : List Server.Pass     -- the batches, in order
  rest : List Datagram          -- what stays queued
  arrived : Bool                -- something arrived while the service ran
  full : Bool                   -- every batch was full: the service stopped because of the bound
  deriving Repr

/-- which batches a `service_socket` with bound `M` and batch size `B` reads from queue `q` -/
def plan (B : Nat) : Nat → List Datagram → (Nat → PassIn) → Plan
  | 0, q, _ => ⟨[], q, false, true⟩
  | M + 1, q, ins =>
    let pi := ins 0
    let q' := q ++ pi.arrivals
    let p := mkPass (q'.take B) pi
    if (q'.take B).length < B then ⟨[p], q'.drop B, !pi.arrivals.isEmpty, false⟩
    else
      let r := plan B M (q'.drop B) (fun i => ins (i + 1))
      ⟨p :: r.passes, r.rest, !pi.arrivals.isEmpty || r.arrived, r.full⟩

/-- nothing queued can be forgotten: a non-empty socket queue has a pending readiness event or the
    backlog flag; a pending connection has a pending readiness event; events exist only for a
    registered listener -/
structure Live (st : Loop) : Prop where
  sock : st.sockQ ≠ [] → st.sockEdge = true ∨ st.backlog = true
  hc : st.hcQ ≠ [] → st.hcEdge = true
  hcReg : st.hcEdge = true → st.hcListener = true

/-- per-batch inputs a `SystemTime` / `SmallRng` can produce, without fault injection -/
def InsOK (ins : Nat → PassIn) : Prop :=
  ∀ i, clockOK (ins i).nowIetf ∧ clockOK (ins i).nowClassic ∧
    (∀ g ∈ (ins i).greaseIetf, g = Grease.none) ∧ (∀ g ∈ (ins i).greaseClassic, g = Grease.none)

/-- the same with arbitrary drawable fault-injection decisions -/
def InsSafe (ins : Nat → PassIn) : Prop :=
  ∀ i, clockOK (ins i).nowIetf ∧ clockOK (ins i).nowClassic ∧
    (∀ g ∈ (ins i).greaseIetf, GreaseOK g) ∧ (∀ g ∈ (ins i).greaseClassic, GreaseOK g)

/-- nothing arrives while the call runs -/
def Quiet (ins : Nat → PassIn) : Prop := ∀ i, (ins i).arrivals = []

/-- the events `poll` returns in a given state, in one fixed order (any order satisfies `EventsOK`) -/
def pending (st : Loop) : List Token :=
  (if st.sockEdge then [Token.message] else []) ++ (if st.hcEdge then [Token.healthCheck] else []) ++
  (if st.timerDue then [Token.statusUpdate] else [])

/-- `n` calls in a row with nothing happening in between and nothing arriving -/
def idleCalls (E : Env) (debug : Bool) (ins : Nat → Nat → PassIn) : Nat → Loop → Res (Loop × List Out)
  | 0, st => .ok (st, [])
  | n + 1, st =>
    (processEvents E debug st ⟨pending st, ins 0⟩).bind fun (st', o) =>
    (idleCalls E debug (fun k => ins (k + 1)) n st').bind fun (st'', os) => .ok (st'', o :: os)

/-- chunks of at most `B` datagrams, in order -/
def chunksOf (B : Nat) : Nat → List Datagram → List (List Datagram)
  | 0, _ => []
  | fuel + 1, q => if q = [] then [] else q.take B :: chunksOf B fuel (q.drop B)

end Rough.LoopSpec

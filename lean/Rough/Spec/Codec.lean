import Rough.Model.Tag
import Rough.Model.Codec
/-
  Reference decoder for the Roughtime tag-value format, written from the format description
  (not from message.rs) and structured differently from `Rough.fromBytes`: the input is first split
  into 32-bit little-endian words; the header is `n, offset[1..n-1], tag[0..n-1]`; the rest is payload.
  Accepts iff: length is a positive multiple of 4; for n ≥ 1 there are at least 2n words; all tags
  known; tag values (as LE u32) strictly ascending; offsets multiples of 4, non-decreasing, and
  not beyond the payload.  It shares with the model only `Bytes`, `Tag` (the table of the 18 tags)
  and the `Msg` container type.
-/
namespace Rough.Spec

/-- split into 4-byte words (caller guarantees length % 4 = 0) -/
def words : Bytes → List Bytes
  | a :: b :: c :: d :: rest => [a, b, c, d] :: words rest
  | _ => []

def wordVal (w : Bytes) : Nat :=
  match w with
  | [a, b, c, d] => a.toNat + 256 * b.toNat + 65536 * c.toNat + 16777216 * d.toNat
  | _ => 0

/-- numeric (LE u32) value of a tag's wire form -/
def tagNum (t : Tag) : Nat := wordVal t.wire

def tagOfWord (w : Bytes) : Option Tag := Tag.all.find? (fun t => tagNum t = wordVal w)

def strictlyAscending : List Nat → Bool
  | a :: b :: rest => a < b && strictlyAscending (b :: rest)
  | _ => true

def nonDecreasing : List Nat → Bool
  | a :: b :: rest => a ≤ b && nonDecreasing (b :: rest)
  | _ => true

/-- cut `payload` at the given (already validated) boundaries -/
def pieces (payload : Bytes) : List Nat → List Bytes
  | a :: b :: rest => (payload.drop a).take (b - a) :: pieces payload (b :: rest)
  | _ => []

def decode (b : Bytes) : Option Msg :=
  if b.length = 0 ∨ b.length % 4 ≠ 0 then none else
  let ws := words b
  let n := wordVal (ws.headD [])
  if n = 0 then some ⟨[]⟩ else
  if ws.length < 2 * n then none else
  let offs := ((ws.drop 1).take (n - 1)).map wordVal
  let tagWords := (ws.drop n).take n
  let payload := b.drop (8 * n)
  match tagWords.mapM tagOfWord with
  | none => none
  | some tags =>
    if ¬ strictlyAscending (tags.map tagNum) then none else
    if ¬ offs.all (fun o => o % 4 = 0) then none else
    let bounds := 0 :: offs ++ [payload.length]
    if ¬ nonDecreasing bounds then none else
    some ⟨tags.zip (pieces payload bounds)⟩

end Rough.Spec

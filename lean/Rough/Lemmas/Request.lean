import Rough.Lemmas.Codec
import Rough.Model.Request
import Rough.Model.Keys
import Rough.Spec.Roughtime
/-
  Lemmas behind properties C12 (IETF requests answered iff they name a supported version and this
  server) and the classification half of C07 (only well-formed 1024..1500-byte requests are
  accepted; classification never panics).

  Main result: `classify_eq` — the model classifier `nonceFromRequest` *equals* the image of the
  reference classification `Spec.RT.classifyRequest (protoOf d) srv d` under `expected`
  (must n ↦ ok (n, version of the protocol); may / no ↦ err).  Everything else is a corollary.
-/
namespace Rough.Lemmas.Request
open Rough Rough.Spec.RT Rough.Lemmas

/-- protocol ↦ implementation version (same equations as `Props.C12.versionOf`, which is stated
    downstream of this file; the two are definitionally equal) -/
def versionOf : Proto → Version
  | .classic => .google
  | .draft13 => .ietf

/-- what the implementation does with a datagram of reference class `c` and protocol `p` -/
def expected (p : Proto) : ReqClass → Res (Bytes × Version)
  | .must n => .ok (n, versionOf p)
  | .may _ => .err
  | .no => .err

/-! ### model decoder = reference decoder, as an equation -/

theorem fromBytes_eq_decode (b : Bytes) (hlen : b.length < 2 ^ 32) :
    fromBytes b = Res.ofOption (Spec.decode b) := by
  cases hd : Spec.decode b with
  | some m => exact (ref_agree b m hlen).mpr hd
  | none =>
    cases hf : fromBytes b with
    | ok m => rw [(ref_agree b m hlen).mp hf] at hd; cases hd
    | err => rfl
    | panic s => exact absurd hf (fromBytes_no_panic b s)

/-! ### values of a decoded message are 4-byte aligned -/

theorem values_aligned_of_ends (vs : List Bytes) : ∀ acc, acc % 4 = 0 →
    (∀ o ∈ ends acc vs, o % 4 = 0) → ∀ v ∈ vs, v.length % 4 = 0 := by
  induction vs with
  | nil => intro _ _ _ v hv; simp at hv
  | cons w vs ih =>
    intro acc hacc h v hv
    have h1 := h (acc + w.length) (by simp)
    rcases List.mem_cons.mp hv with rfl | hv
    · omega
    · exact ih (acc + w.length) h1 (fun o ho => h o (by simp [ho])) v hv

theorem get_mem_values {m : Msg} {t : Tag} {v : Bytes} (h : m.get t = some v) : v ∈ m.values := by
  simp only [Msg.get, Option.map_eq_some_iff] at h
  obtain ⟨f, hf, rfl⟩ := h
  exact List.mem_map_of_mem (List.mem_of_find?_eq_some hf)

theorem canon_aligned {b : Bytes} {m : Msg} (hc : Canon b m) : m.Aligned :=
  values_aligned_of_ends m.values 0 rfl hc.2.2.2

/-- every message accepted by the reference decoder has 4-byte aligned values -/
theorem decode_aligned {b : Bytes} {m : Msg} (h : Spec.decode b = some m) : m.Aligned := by
  obtain ⟨_, _, h' | h'⟩ := spec_ok h
  · obtain ⟨_, rfl⟩ := h'; intro v hv; simp [Msg.values] at hv
  · exact canon_aligned h'.2

theorem decode_get_aligned {b : Bytes} {m : Msg} {t : Tag} {v : Bytes}
    (h : Spec.decode b = some m) (hg : m.get t = some v) : v.length % 4 = 0 :=
  decode_aligned h v (get_mem_values hg)

/-- same for the model decoder (no size bound needed) -/
theorem fromBytes_aligned {b : Bytes} {m : Msg} (h : fromBytes b = .ok m) : m.Aligned := by
  by_cases h0 : rd32 b = 0
  · rw [fromBytes_ok_zero h h0]; intro v hv; simp [Msg.values, Msg.empty] at hv
  · exact canon_aligned (fromBytes_ok h h0).1

/-! ### chunks of an aligned string -/

theorem chunks_nil (k : Nat) : chunks k [] = [] := by
  rw [chunks]; simp

theorem chunks_cons_eq {k : Nat} {b : Bytes} (hk : k ≠ 0) (hb : b ≠ []) :
    chunks k b = b.take k :: chunks k (b.drop k) := by
  rw [chunks]; simp [hk, hb]

theorem chunks_aligned : ∀ (n : Nat) (v : Bytes), v.length = 4 * n → ∀ c ∈ chunks 4 v, c.length = 4 := by
  intro n
  induction n with
  | zero =>
    intro v hv c hc
    have : v = [] := List.length_eq_zero_iff.mp (by omega)
    subst this; rw [chunks_nil] at hc; simp at hc
  | succ n ih =>
    intro v hv c hc
    have hne : v ≠ [] := by intro e; subst e; simp at hv
    rw [chunks_cons_eq (by decide) hne] at hc
    rcases List.mem_cons.mp hc with rfl | hc
    · simp [List.length_take]; omega
    · exact ih (v.drop 4) (by simp [List.length_drop]; omega) c hc

theorem versionList_aligned {v : Bytes} (h : v.length % 4 = 0) : versionList v = chunks 4 v := by
  unfold versionList
  rw [List.filter_eq_self]
  intro c hc
  simpa using chunks_aligned (v.length / 4) v (by omega) c hc


theorem any_beq_contains (l : List Bytes) (x : Bytes) :
    l.any (fun c => c == x) = l.contains x := by
  induction l with
  | nil => rfl
  | cons a l ih =>
    rw [List.any_cons, List.contains_cons, ih]
    congr 1
    rw [Bool.eq_iff_iff, beq_iff_eq, beq_iff_eq]; exact eq_comm

/-- on aligned messages the implementation's "first four chunks" test is the reference one -/
theorem supportedVersion_eq {m : Msg} (ha : m.Aligned) :
    supportedVersion m = match m.get Tag.VER with
      | some v => if ((versionList v).take 4).contains ver13 then some Version.ietf else none
      | none => none := by
  unfold supportedVersion
  cases hv : m.get Tag.VER with
  | none => rfl
  | some v =>
    simp only
    rw [versionList_aligned (ha v (get_mem_values hv)), ← any_beq_contains]
    rfl

theorem contains_of_take {l : List Bytes} {x : Bytes} {k : Nat} (h : (l.take k).contains x = true) :
    l.contains x = true := by
  rw [List.contains_iff_mem] at h ⊢
  exact List.mem_of_mem_take h

/-! ### the two protocol branches -/

theorem classic_eq (d srv : Bytes) (h1 : 1024 ≤ d.length) (h2 : d.length ≤ 1500)
    (hm : d.take 8 ≠ magic) :
    nonceFromClassic d = expected .classic (classifyRequest .classic srv d) := by
  unfold nonceFromClassic classifyRequest
  rw [if_neg (by omega), fromBytes_eq_decode d (by omega)]
  simp only [if_neg hm]
  cases hd : Spec.decode d with
  | none => rfl
  | some m =>
    simp only [Res.ofOption, Res.bind]
    cases hn : m.get Tag.NONC with
    | none => rfl
    | some n =>
      simp only
      by_cases h64 : n.length = 64 <;> simp [h64, expected, versionOf]

theorem rfc_eq (d srv : Bytes) (h1 : 1024 ≤ d.length) (h2 : d.length ≤ 1500)
    (hm : d.take 8 = magic) :
    nonceFromRfc d srv = expected .draft13 (classifyRequest .draft13 srv d) := by
  have hs1 : slice d 8 12 "request.rs:nonce_from_rfc_request:buf[8..12]" = .ok ((d.drop 8).take 4) :=
    slice_ok (by omega) (by omega)
  have hs2 : slice d 12 d.length "request.rs:nonce_from_rfc_request:buf[12..]" = .ok (d.drop 12) := by
    rw [slice_ok (by omega) (by omega), List.take_of_length_le (by simp)]
  have hc : csub d.length 12 "request.rs:nonce_from_rfc_request:buf.len()-12" = .ok (d.length - 12) := by
    unfold csub; rw [if_pos (by omega)]
  have hrd : rd32 ((d.drop 8).take 4) = u32le (d.drop 8) := by
    simp [rd32, u32le, List.take_take]
  have hmod : (d.length - 12) % 4294967296 = d.length - 12 := by omega
  have hun : unframe d = if u32le (d.drop 8) ≠ d.length - 12 then none else some (d.drop 12) := by
    unfold unframe
    rw [if_neg (show ¬ d.length < 12 by omega), if_neg (by simpa using hm)]
  unfold nonceFromRfc classifyRequest
  rw [hs1, hs2, hc, if_neg (by omega), hun]
  simp only [Res.bind, hrd, hmod]
  by_cases hl : u32le (d.drop 8) = d.length - 12
  · simp only [hl, ne_eq, not_true_eq_false, if_false]
    rw [fromBytes_eq_decode (d.drop 12) (by simp only [List.length_drop]; omega)]
    cases hd : Spec.decode (d.drop 12) with
    | none => rfl
    | some m =>
      simp only [Res.ofOption]
      rw [supportedVersion_eq (decode_aligned hd)]
      cases hv : m.get Tag.VER with
      | none => cases hn : m.get Tag.NONC <;> rfl
      | some v =>
        simp only
        by_cases h4 : ((versionList v).take 4).contains ver13 = true
        · have hall := contains_of_take h4
          have h4' : ver13 ∈ (versionList v).take 4 := by simpa using h4
          have hall' : ver13 ∈ versionList v := by simpa using hall
          cases hn : m.get Tag.NONC with
          | none => cases hs : m.get Tag.SRV <;> simp [h4', expected]
          | some n =>
            cases hs : m.get Tag.SRV with
            | none => by_cases h32 : n.length = 32 <;> simp [h4', hall', h32, expected, versionOf]
            | some s =>
              by_cases hss : s = srv <;> by_cases h32 : n.length = 32 <;>
                simp [h4', hall', h32, hss, expected, versionOf]
        · have h4' : ver13 ∉ (versionList v).take 4 := by simpa using h4
          cases hn : m.get Tag.NONC with
          | none => simp [h4', expected]
          | some n =>
            by_cases hall : ver13 ∈ versionList v
            · cases hs : m.get Tag.SRV with
              | none => by_cases h32 : n.length = 32 <;> simp [h4', hall, h32, expected]
              | some s =>
                by_cases hss : s = srv <;> by_cases h32 : n.length = 32 <;>
                  simp [h4', hall, h32, hss, expected]
            · simp [h4', hall, expected]
  · simp [hl, expected]


/-! ### the classifier is the reference classification -/

theorem protoOf_draft13 {d : Bytes} (hm : d.take 8 = magic) : protoOf d = .draft13 := by
  unfold protoOf; rw [if_pos hm]

theorem protoOf_classic {d : Bytes} (hm : d.take 8 ≠ magic) : protoOf d = .classic := by
  unfold protoOf; rw [if_neg hm]

/-- **Main equation**: `nonceFromRequest` is the reference classification followed by `expected`. -/
theorem classify_eq (d srv : Bytes) :
    nonceFromRequest d srv = expected (protoOf d) (classifyRequest (protoOf d) srv d) := by
  by_cases h1 : d.length < 1024
  · have : classifyRequest (protoOf d) srv d = .no := by
      unfold classifyRequest; rw [if_pos (Or.inl h1)]
    rw [this]; unfold nonceFromRequest MIN_REQUEST_LENGTH; rw [if_pos h1]; rfl
  by_cases h2 : d.length > 1500
  · have : classifyRequest (protoOf d) srv d = .no := by
      unfold classifyRequest; rw [if_pos (Or.inr h2)]
    rw [this]; unfold nonceFromRequest MIN_REQUEST_LENGTH MAX_REQUEST_LENGTH
    rw [if_neg h1, if_pos h2]; rfl
  unfold nonceFromRequest MIN_REQUEST_LENGTH MAX_REQUEST_LENGTH
  rw [if_neg h1, if_neg h2, slice_ok (by omega) (by omega)]
  simp only [Res.bind, List.drop_zero, Nat.sub_zero]
  by_cases hm : d.take 8 = magic
  · have hb : (d.take 8 == framing) = true := by rw [beq_iff_eq]; exact hm
    rw [if_pos hb, protoOf_draft13 hm]
    exact rfc_eq d srv (by omega) (by omega) hm
  · have hb : ¬ (d.take 8 == framing) = true := by rw [beq_iff_eq]; exact hm
    rw [if_neg hb, protoOf_classic hm]
    exact classic_eq d srv (by omega) (by omega) hm

theorem expected_ok {p : Proto} {c : ReqClass} {n : Bytes} {v : Version}
    (h : expected p c = .ok (n, v)) : c = .must n ∧ v = versionOf p := by
  cases c with
  | must n' => simp only [expected, Res.ok.injEq, Prod.mk.injEq] at h; exact ⟨by rw [h.1], h.2.symm⟩
  | may _ => cases h
  | no => cases h

/-- C12_spec -/
theorem spec_agree (d srv : Bytes) :
    (∀ n, classifyRequest (protoOf d) srv d = .must n →
        nonceFromRequest d srv = .ok (n, versionOf (protoOf d))) ∧
    (∀ n, classifyRequest (protoOf d) srv d = .may n → nonceFromRequest d srv = .err) ∧
    (classifyRequest (protoOf d) srv d = .no → nonceFromRequest d srv = .err) := by
  refine ⟨?_, ?_, ?_⟩ <;> (intros; rw [classify_eq]; simp only [*, expected])

/-- C07_classify_total -/
theorem no_panic (d srv : Bytes) (s : String) : nonceFromRequest d srv ≠ .panic s := by
  rw [classify_eq]
  cases classifyRequest (protoOf d) srv d <;> simp [expected]

/-! ### what `must` means -/

theorem class_bounds {p : Proto} {srv d : Bytes} (h : classifyRequest p srv d ≠ .no) :
    1024 ≤ d.length ∧ d.length ≤ 1500 := by
  apply Classical.byContradiction
  intro hc
  apply h
  unfold classifyRequest
  rw [if_pos (by omega)]

theorem must_classic {srv d n : Bytes} (h : classifyRequest .classic srv d = .must n) :
    d.take 8 ≠ magic ∧ ∃ m, Spec.decode d = some m ∧ m.get Tag.NONC = some n ∧ n.length = 64 := by
  have hb := class_bounds (p := .classic) (srv := srv) (d := d) (by rw [h]; simp)
  unfold classifyRequest at h
  rw [if_neg (by omega)] at h
  simp only at h
  by_cases hm : d.take 8 = magic
  · rw [if_pos hm] at h; cases h
  rw [if_neg hm] at h
  refine ⟨hm, ?_⟩
  cases hd : Spec.decode d with
  | none => rw [hd] at h; cases h
  | some m =>
    rw [hd] at h; simp only at h
    cases hn : m.get Tag.NONC with
    | none => rw [hn] at h; cases h
    | some n' =>
      rw [hn] at h; simp only at h
      by_cases h64 : n'.length = 64
      · rw [if_pos h64] at h; cases h; exact ⟨m, rfl, hn, h64⟩
      · rw [if_neg h64] at h; cases h

theorem must_draft13 {srv d n : Bytes} (h : classifyRequest .draft13 srv d = .must n) :
    ∃ body m v, unframe d = some body ∧ Spec.decode body = some m ∧ m.get Tag.VER = some v ∧
      ((versionList v).take 4).contains ver13 = true ∧
      (m.get Tag.SRV = none ∨ m.get Tag.SRV = some srv) ∧
      m.get Tag.NONC = some n ∧ n.length = 32 := by
  have hb := class_bounds (p := .draft13) (srv := srv) (d := d) (by rw [h]; simp)
  unfold classifyRequest at h
  rw [if_neg (by omega)] at h
  simp only at h
  cases hu : unframe d with
  | none => rw [hu] at h; cases h
  | some body =>
    rw [hu] at h; simp only at h
    cases hd : Spec.decode body with
    | none => rw [hd] at h; cases h
    | some m =>
      rw [hd] at h; simp only at h
      cases hv : m.get Tag.VER with
      | none => rw [hv] at h; cases h
      | some v =>
        cases hn : m.get Tag.NONC with
        | none => rw [hv, hn] at h; cases h
        | some n' =>
          rw [hv, hn] at h; simp only at h
          by_cases c1 : ver13 ∈ versionList v
          case neg => simp [c1] at h
          by_cases c2 : n'.length = 32
          case neg => simp [c1, c2] at h
          by_cases c4 : ver13 ∈ (versionList v).take 4
          case neg =>
            cases hs : m.get Tag.SRV with
            | none => simp [c1, c2, c4, hs] at h
            | some s => by_cases hss : s = srv <;> simp [c1, c2, c4, hs, hss] at h
          cases hs : m.get Tag.SRV with
          | none =>
            simp [c1, c2, c4, hs] at h
            subst h
            exact ⟨body, m, v, rfl, hd, hv, by simpa using c4, Or.inl hs, hn, c2⟩
          | some s =>
            by_cases hss : s = srv
            · simp [c1, c2, c4, hs, hss] at h
              subst h
              exact ⟨body, m, v, rfl, hd, hv, by simpa using c4, Or.inr (by rw [hs, hss]), hn, c2⟩
            · simp [c1, c2, hs, hss] at h

/-- C07_only_wellformed -/
theorem only_wellformed (d srv nonce : Bytes) (v : Version)
    (h : nonceFromRequest d srv = .ok (nonce, v)) :
    1024 ≤ d.length ∧ d.length ≤ 1500 ∧ nonce.length = v.nonceLen ∧
    classifyRequest (protoOf d) srv d = .must nonce ∧ v = versionOf (protoOf d) := by
  rw [classify_eq] at h
  obtain ⟨hc, hv⟩ := expected_ok h
  obtain ⟨hb1, hb2⟩ := class_bounds (p := protoOf d) (srv := srv) (d := d) (by rw [hc]; simp)
  refine ⟨hb1, hb2, ?_, hc, hv⟩
  subst hv
  cases hp : protoOf d with
  | classic =>
    rw [hp] at hc
    obtain ⟨_, _, _, _, h64⟩ := must_classic hc
    exact h64
  | draft13 =>
    rw [hp] at hc
    obtain ⟨_, _, _, _, _, _, _, _, _, h32⟩ := must_draft13 hc
    exact h32

/-- C12_only_if -/
theorem only_if (d srv nonce : Bytes) (h : nonceFromRequest d srv = .ok (nonce, .ietf)) :
    ∃ body m v, unframe d = some body ∧ Spec.decode body = some m ∧ m.get Tag.VER = some v ∧
      (versionList v).contains ver13 = true ∧ (m.get Tag.SRV = none ∨ m.get Tag.SRV = some srv) ∧
      m.get Tag.NONC = some nonce ∧ nonce.length = 32 := by
  obtain ⟨_, _, _, hc, hv⟩ := only_wellformed d srv nonce .ietf h
  cases hp : protoOf d with
  | classic => rw [hp] at hv; cases hv
  | draft13 =>
    rw [hp] at hc
    obtain ⟨body, m, v, h1, h2, h3, h4, h5, h6, h7⟩ := must_draft13 hc
    exact ⟨body, m, v, h1, h2, h3, contains_of_take h4, h5, h6, h7⟩


/-! ### the signed part of an IETF response states its version (C12, restating C11 for IETF) -/

/-- the SREP message `make_srep` builds for an IETF response -/
def ietfSrep (secs : Nat) (root : Bytes) : Msg :=
  ⟨[(Tag.VER, ver13), (Tag.RADI, le32 5), (Tag.MIDP, le64 secs),
    (Tag.VERS, [0, 0, 0, 0] ++ ver13), (Tag.ROOT, root)]⟩

theorem makeSrep_ietf (S : SigScheme) (onl : Signer) (secs nanos : Nat) (root : Bytes) :
    makeSrep S onl .ietf secs nanos root =
      .ok (⟨[(Tag.SIG, S.sign onl.seed (onl.buf ++ Version.ietf.srepPrefix ++ encode (ietfSrep secs root))),
             (Tag.SREP, encode (ietfSrep secs root))]⟩, ⟨onl.seed, []⟩) := by
  rfl

theorem ietfSrep_decode (secs : Nat) (root : Bytes) (hroot : root.length % 4 = 0)
    (hsz : root.length < 2 ^ 16) :
    Spec.decode (encode (ietfSrep secs root)) = some (ietfSrep secs root) := by
  have hc : Canon (encode (ietfSrep secs root)) (ietfSrep secs root) := by
    apply aligned_canon
    · simp [ietfSrep]
    · simp [Msg.Sorted, Msg.tags, ietfSrep, Tag.idx]
    · intro v hv
      simp only [Msg.values, ietfSrep, List.map_cons, List.map_nil, List.mem_cons,
        List.not_mem_nil, or_false] at hv
      rcases hv with rfl | rfl | rfl | rfl | rfl
      · rfl
      · rfl
      · simp [le64]
      · rfl
      · exact hroot
  apply spec_of_canon hc
  rw [encode_length]
  simp [encodedSize, ietfSrep, Msg.values, le64, ver13]
  omega

/-- C12_srep_states_version -/
theorem srep_states_version (S : SigScheme) (onl : Signer) (secs nanos : Nat) (root : Bytes)
    (hroot : root.length % 4 = 0) (hsz : root.length < 2 ^ 16) :
    ∃ res onl' srepB srep, makeSrep S onl .ietf secs nanos root = .ok (res, onl') ∧
      res.get Tag.SREP = some srepB ∧ Spec.decode srepB = some srep ∧
      srep.get Tag.VER = some ver13 ∧ srep.get Tag.VERS = some ([0, 0, 0, 0] ++ ver13) :=
  ⟨_, _, encode (ietfSrep secs root), ietfSrep secs root, makeSrep_ietf S onl secs nanos root, rfl,
    ietfSrep_decode secs root hroot hsz, rfl, rfl⟩

end Rough.Lemmas.Request

import Rough.Lemmas.Config
import Rough.Lemmas.Request
/-
  C16 (a seed text that is not hexadecimal is refused by both loaders) and C05 (alignment of the
  values of every message the model decoder accepts).
-/
namespace Rough.Lemmas.Extra2
open Rough Rough.Config Rough.Lemmas.Config

/-- a plain (unquoted) scalar is its own YAML string value, if it has one -/
theorem yamlStr_plain (txt : String) (hq : txt.toList.head? ≠ some '"') (s : String)
    (h : yamlStr txt = some s) : s = txt := by
  unfold yamlStr at h
  dsimp only at h
  split at h
  · rename_i rest heq
    rw [heq] at hq
    exact absurd rfl hq
  · by_cases h1 : txt = "" ∨ txt = "~" ∨ txt = "null" ∨ txt = "true" ∨ txt = "false"
    · rw [if_pos h1] at h; cases h
    rw [if_neg h1] at h
    by_cases h2 : (yamlInt txt).isSome = true
    · rw [if_pos h2] at h; cases h
    rw [if_neg h2] at h
    by_cases h3 : isFloat txt.toList = true
    · rw [if_pos h3] at h; cases h
    rw [if_neg h3] at h
    cases h; rfl

theorem unquote_plain (txt : String) (hq : txt.toList.head? ≠ some '"') : unquote txt = txt := by
  unfold unquote
  split
  · rename_i rest heq
    rw [heq] at hq
    exact absurd rfl hq
  · rfl

theorem fileSet_bad_seed (c : Cfg) (txt : String) (hq : txt.toList.head? ≠ some '"')
    (hbad : hexDecode txt = none) : fileSet c "seed" txt = none := by
  have hkey : fileSet c "seed" txt =
      ((if (yamlInt txt).isNone ∧ isFloat txt.toList then some txt else yamlStr txt).bind hexDecode).map
        fun v => { c with seed := v } := by
    simp [fileSet]
  rw [hkey]
  have : (if (yamlInt txt).isNone ∧ isFloat txt.toList then some txt else yamlStr txt).bind hexDecode = none := by
    split
    · exact hbad
    · cases hy : yamlStr txt with
      | none => rfl
      | some s =>
        rw [yamlStr_plain txt hq s hy]
        exact hbad
  rw [this]; rfl

theorem envSet_bad_seed (c : Cfg) (txt : String) (hq : txt.toList.head? ≠ some '"')
    (hbad : hexDecode txt = none) : envSet c "seed" (unquote txt) = none := by
  have hkey : ∀ v, envSet c "seed" v = (hexDecode v).map fun b => { c with seed := b } := by
    intro v; simp [envSet]
  rw [hkey, unquote_plain txt hq, hbad]; rfl

/-- **C16_bad_seed_text_refused** (`hnd` is not needed) -/
theorem bad_seed_text_refused (fs : FsFacts) (d : Cfg) (src : Source) (entries : List (String × String))
    (_hnd : (entries.map (·.1)).Nodup) (txt : String) (hmem : ("seed", txt) ∈ entries)
    (hq : txt.toList.head? ≠ some '"') (hbad : hexDecode txt = none) :
    start fs d src entries = none := by
  cases h : start fs d src entries with
  | none => rfl
  | some c =>
    exfalso
    obtain ⟨hrun, _, _⟩ := start_some fs d src entries c h
    obtain ⟨s, t, rfl⟩ := List.append_of_mem hmem
    obtain ⟨c₁, c₂, hstep, _⟩ := run_split src d c s t _ hrun
    cases src with
    | file =>
      simp only [stepOne] at hstep
      rw [fileSet_bad_seed c₁ txt hq hbad] at hstep
      cases hstep
    | env =>
      simp only [stepOne] at hstep
      rw [envSet_bad_seed c₁ txt hq hbad] at hstep
      cases hstep

/-- **C05_values_aligned** -/
theorem values_aligned (b : Bytes) (m : Msg) (h : fromBytes b = .ok m) : m.Aligned :=
  Rough.Lemmas.Request.fromBytes_aligned h

end Rough.Lemmas.Extra2

import Rough.Lemmas.KeysBasic
import Rough.Lemmas.Sign
import Rough.Model.Server
import Rough.Spec.ServerSpec
/-
  Lemmas about src/key/longterm.rs, src/key/online.rs and the key-material part of `Server::new`
  (models: Rough/Model/Keys.lean, Rough/Model/Server.lean).  Referenced by Props/C10, C11, C20.
  Reusable building blocks (`buildMsg_sorted`, `spec_decode_encode`, context strings) are in
  Lemmas/KeysBasic.lean.
-/
namespace Rough.Lemmas.Keys
open Rough

/-! ### C11: midpoint -/

theorem ns_div_1000 (secs nanos : Nat) :
    (secs * 1000000000 + nanos) / 1000 = secs * 1000000 + nanos / 1000 := by omega

theorem midp_classic (secs nanos : Nat) (hn : nanos < 1000000000) (hs : secs * 1000000 + 999999 < 2 ^ 64) :
    midpOf .google secs nanos = .ok ((secs * 1000000000 + nanos) / 1000) := by
  have e : (2 : Nat) ^ 64 = 18446744073709551616 := by decide
  rw [e] at hs
  have h0 : nanos / 1000 ≤ 999999 := by omega
  have h2 : ¬ secs * 1000000 + nanos / 1000 ≥ 18446744073709551616 := by omega
  have h1 : ¬ secs * 1000000 ≥ 18446744073709551616 := by clear h2; omega
  rw [← e] at h1 h2
  simp only [midpOf, classicMidp, if_neg h1, if_neg h2, ns_div_1000]

theorem midp_ietf (secs nanos : Nat) (hn : nanos < 1000000000) :
    midpOf .ietf secs nanos = .ok ((secs * 1000000000 + nanos) / 1000000000) := by
  have h3 : (secs * 1000000000 + nanos) / 1000000000 = secs := by omega
  simp only [midpOf, rfcMidp, h3]

/-- what `midpOf` returns when it returns -/
theorem midpOf_ok {v : Version} {secs nanos m : Nat} (h : midpOf v secs nanos = .ok m) :
    m = match v with | .google => secs * 1000000 + nanos / 1000 | .ietf => secs := by
  cases v with
  | google =>
    simp only [midpOf, classicMidp] at h
    split at h
    · cases h
    · split at h
      · cases h
      · cases h; rfl
  | ietf =>
    simp only [midpOf, rfcMidp] at h
    cases h; rfl

/-- length of the protocol's time unit in nanoseconds (same definition as `Rough.Props.C11.unitNs`,
    which lives downstream; the two unfold to the same term) -/
def unitNs : Version → Nat
  | .google => 1000
  | .ietf => 1000000000

theorem bracket (v : Version) (secs nanos m : Nat) (hn : nanos < 1000000000)
    (h : midpOf v secs nanos = .ok m) :
    m * unitNs v ≤ secs * 1000000000 + nanos ∧
    secs * 1000000000 + nanos < (m + 1) * unitNs v ∧
    (m + 1) * unitNs v ≤ (m + radiOf v) * unitNs v := by
  have hm := midpOf_ok h
  cases v with
  | google => simp only [radiOf, unitNs] at hm ⊢; omega
  | ietf => simp only [radiOf, unitNs] at hm ⊢; omega

/-! ### C11: make_srep -/

/-- the fields `make_srep` puts into SREP -/
def srepFields (v : Version) (m : Nat) (root : Bytes) : List (Tag × Bytes) :=
  match v with
  | .google => [(Tag.RADI, le32 (radiOf v)), (Tag.MIDP, le64 m), (Tag.ROOT, root)]
  | .ietf => [(Tag.VER, v.wire), (Tag.RADI, le32 (radiOf v)), (Tag.MIDP, le64 m),
              (Tag.VERS, Version.supportedWire), (Tag.ROOT, root)]

theorem srepFields_sorted (v : Version) (m : Nat) (root : Bytes) :
    ((srepFields v m root).map (·.1)).Pairwise (fun a b => a.idx < b.idx) := by
  cases v <;> simp only [srepFields] <;> tags_sorted

theorem srepFields_aligned (v : Version) (m : Nat) (root : Bytes) (hroot : root.length % 4 = 0) :
    (⟨srepFields v m root⟩ : Msg).Aligned := by
  cases v <;> simp [Msg.Aligned, Msg.values, srepFields, hroot, Version.wire, Version.supportedWire]

theorem srepFields_size (v : Version) (m : Nat) (root : Bytes) :
    encodedSize ⟨srepFields v m root⟩ ≤ 72 + root.length := by
  cases v <;>
    simp [encodedSize, Msg.values, srepFields, Version.wire, Version.supportedWire] <;> omega

/-- closed form of `make_srep` (for every signature scheme, signer state, clock reading that yields
    a midpoint, and root): never panics, signs `buffer ‖ context ‖ SREP`, clears the signer. -/
theorem makeSrep_eq (S : SigScheme) (onl : Signer) (v : Version) (secs nanos : Nat) (root : Bytes) (m : Nat)
    (hm : midpOf v secs nanos = .ok m) :
    makeSrep S onl v secs nanos root =
      .ok (⟨[(Tag.SIG, S.sign onl.seed (onl.buf ++ v.srepPrefix ++ encode ⟨srepFields v m root⟩)),
             (Tag.SREP, encode ⟨srepFields v m root⟩)]⟩, ⟨onl.seed, []⟩) := by
  cases v <;>
  · unfold makeSrep
    rw [hm]
    simp only [Res.bind]
    rw [buildMsg_sorted _ _ (by tags_sorted)]
    simp only [Signer.sign, Signer.update]
    rw [buildMsg_sorted _ _ (by tags_sorted)]
    rfl

theorem srep_fields (S : SigScheme) (onl : Signer) (v : Version) (secs nanos : Nat) (root : Bytes) (m : Nat)
    (hroot : root.length % 4 = 0) (hsz : root.length < 2 ^ 16)
    (hm : midpOf v secs nanos = .ok m) :
    ∃ res onl' srepB, makeSrep S onl v secs nanos root = .ok (res, onl') ∧
      res.get Tag.SREP = some srepB ∧
      res.get Tag.SIG = some (S.sign onl.seed (onl.buf ++ v.srepPrefix ++ srepB)) ∧
      onl' = ⟨onl.seed, []⟩ ∧
      ∃ srep, Spec.decode srepB = some srep ∧
        srep.get Tag.MIDP = some (le64 m) ∧ srep.get Tag.RADI = some (le32 (radiOf v)) ∧
        srep.get Tag.ROOT = some root ∧
        (v = .ietf → srep.get Tag.VER = some Version.ietf.wire ∧ srep.get Tag.VERS = some Version.supportedWire) := by
  refine ⟨_, _, encode ⟨srepFields v m root⟩, makeSrep_eq S onl v secs nanos root m hm, ?_, ?_, rfl,
    ⟨srepFields v m root⟩, ?_, ?_⟩
  · simp [Msg.get]
  · simp [Msg.get]
  · apply spec_decode_encode _ (srepFields_sorted v m root) (srepFields_aligned v m root hroot)
    exact Nat.lt_of_le_of_lt (srepFields_size v m root) (by omega)
  · cases v <;> simp [Msg.get, srepFields]

/-! ### C10: certificates -/

/-- the DELE message `make_dele` builds for an online seed -/
def deleOf (S : SigScheme) (onl : Bytes) : Msg :=
  ⟨[(Tag.PUBK, S.pk onl), (Tag.MINT, zeros 8), (Tag.MAXT, List.replicate 8 0xff)]⟩

/-- the CERT message for (long-term seed, protocol, online seed) when the signer buffer is empty -/
def certOf (S : SigScheme) (seed : Bytes) (ver : Version) (onl : Bytes) : Msg :=
  ⟨[(Tag.SIG, S.sign seed (ver.delePrefix ++ encode (deleOf S onl))), (Tag.DELE, encode (deleOf S onl))]⟩

/-- `make_dele` never panics -/
theorem makeDele_eq (S : SigScheme) (onl : Bytes) : makeDele S onl = .ok (deleOf S onl) :=
  buildMsg_sorted _ _ (by tags_sorted)

/-- closed form of `make_cert` for an arbitrary signer state: signs `buffer ‖ context ‖ DELE` and
    leaves the signer with an empty buffer. -/
theorem makeCert_eq (S : SigScheme) (k : LongTermKey) (ver : Version) (onl : Bytes) :
    makeCert S k ver onl =
      .ok (⟨[(Tag.SIG, S.sign k.signer.seed (k.signer.buf ++ ver.delePrefix ++ encode (deleOf S onl))),
             (Tag.DELE, encode (deleOf S onl))]⟩,
           { k with signer := ⟨k.signer.seed, []⟩ }) := by
  unfold makeCert
  rw [makeDele_eq]
  simp only [Res.bind, Signer.sign, Signer.update]
  rw [buildMsg_sorted _ _ (by tags_sorted)]

theorem makeCert_fresh (S : SigScheme) (seed srv : Bytes) (ver : Version) (onl : Bytes) :
    makeCert S ⟨⟨seed, []⟩, srv⟩ ver onl = .ok (certOf S seed ver onl, ⟨⟨seed, []⟩, srv⟩) := by
  rw [makeCert_eq]; simp [certOf]

/-- **closed form of `Server::new`**: the seed enters only through its length check, its public key
    and the two certificate signatures. -/
theorem server_new_eq (E : Env) (seed onlI onlC : Bytes) (b : Nat) :
    Server.new E seed onlI onlC b =
      (Signer.fromSeed seed).bind fun _ =>
      (calcSrv E.H (E.S.pk seed)).bind fun srv =>
      (Signer.fromSeed onlI).bind fun sI =>
      (Signer.fromSeed onlC).bind fun sC =>
      .ok { batchSize := b, srv := srv, ltPub := E.S.pk seed,
            ietf := ⟨Version.ietf, sI, encode (certOf E.S seed .ietf onlI), [], Merkle.new⟩,
            classic := ⟨Version.google, sC, encode (certOf E.S seed .google onlC), [], Merkle.new⟩ } := by
  unfold Server.new LongTermKey.new
  by_cases hseed : seed.length = 32
  · simp only [Signer.fromSeed, if_pos hseed, Res.bind, Signer.publicKey]
    cases hsrv : calcSrv E.H (E.S.pk seed) with
    | err => rfl
    | panic s => rfl
    | ok srv =>
      simp only
      by_cases hI : onlI.length = 32
      · simp only [if_pos hI, makeCert_fresh]
        by_cases hC : onlC.length = 32
        · simp only [if_pos hC, LongTermKey.publicKey, Signer.publicKey]
        · simp only [if_neg hC]
      · simp only [if_neg hI]
  · simp only [Signer.fromSeed, if_neg hseed, Res.bind]

/-- shape of every successfully created server -/
theorem server_new_ok {E : Env} {seed onlI onlC : Bytes} {b : Nat} {s : Server}
    (h : Server.new E seed onlI onlC b = .ok s) :
    seed.length = 32 ∧ onlI.length = 32 ∧ onlC.length = 32 ∧
    calcSrv E.H (E.S.pk seed) = .ok s.srv ∧
    s = { batchSize := b, srv := s.srv, ltPub := E.S.pk seed,
          ietf := ⟨Version.ietf, ⟨onlI, []⟩, encode (certOf E.S seed .ietf onlI), [], Merkle.new⟩,
          classic := ⟨Version.google, ⟨onlC, []⟩, encode (certOf E.S seed .google onlC), [], Merkle.new⟩ } := by
  rw [server_new_eq] at h
  simp only [Signer.fromSeed] at h
  by_cases hseed : seed.length = 32
  · rw [if_pos hseed] at h
    simp only [Res.bind] at h
    cases hsrv : calcSrv E.H (E.S.pk seed) with
    | err => rw [hsrv] at h; cases h
    | panic s => rw [hsrv] at h; cases h
    | ok srv =>
      rw [hsrv] at h
      simp only at h
      by_cases hI : onlI.length = 32
      · rw [if_pos hI] at h
        by_cases hC : onlC.length = 32
        · rw [if_pos hC] at h
          simp only at h
          cases h
          exact ⟨hseed, hI, hC, rfl, rfl⟩
        · rw [if_neg hC] at h; cases h
      · rw [if_neg hI] at h; cases h
  · rw [if_neg hseed] at h; cases h

theorem calcSrv_ok (H : Bytes → Bytes) (pk : Bytes) (h : 32 ≤ (H ((0xff : UInt8) :: pk)).length) :
    calcSrv H pk = .ok ((H ((0xff : UInt8) :: pk)).take 32) := by
  unfold calcSrv
  rw [slice_ok (by omega) h]
  simp

/-- creation succeeds for 32-byte seeds when the hash is at least 32 bytes long -/
theorem server_new_of_lengths (E : Env) (seed onlI onlC : Bytes) (b : Nat)
    (hseed : seed.length = 32) (hI : onlI.length = 32) (hC : onlC.length = 32)
    (hH : 32 ≤ (E.H ((0xff : UInt8) :: E.S.pk seed)).length) :
    Server.new E seed onlI onlC b = .ok
      { batchSize := b, srv := (E.H ((0xff : UInt8) :: E.S.pk seed)).take 32, ltPub := E.S.pk seed,
        ietf := ⟨Version.ietf, ⟨onlI, []⟩, encode (certOf E.S seed .ietf onlI), [], Merkle.new⟩,
        classic := ⟨Version.google, ⟨onlC, []⟩, encode (certOf E.S seed .google onlC), [], Merkle.new⟩ } := by
  rw [server_new_eq, calcSrv_ok E.H _ hH]
  simp only [Signer.fromSeed, if_pos hseed, if_pos hI, if_pos hC, Res.bind]

theorem zeros8 : zeros 8 = le64 0 := by decide
theorem ones8 : List.replicate 8 (0xff : UInt8) = le64 (2 ^ 64 - 1) := by decide

theorem deleOf_sorted (S : SigScheme) (onl : Bytes) : (deleOf S onl).Sorted := by
  unfold Msg.Sorted Msg.tags deleOf; tags_sorted

theorem certOf_sorted (S : SigScheme) (seed : Bytes) (ver : Version) (onl : Bytes) :
    (certOf S seed ver onl).Sorted := by
  unfold Msg.Sorted Msg.tags certOf; tags_sorted

theorem deleOf_size (S : SigScheme) (onl : Bytes) : encodedSize (deleOf S onl) = 40 + (S.pk onl).length := by
  simp [encodedSize, deleOf, Msg.values, zeros]; omega

/-- DELE decodes (reference decoder) to the three fields, provided the public key is 4-aligned -/
theorem dele_decodes (S : SigScheme) (onl : Bytes) (h4 : (S.pk onl).length % 4 = 0)
    (hsz : (S.pk onl).length < 2 ^ 31) :
    Spec.decode (encode (deleOf S onl)) = some (deleOf S onl) := by
  apply spec_decode_encode _ (deleOf_sorted S onl)
  · simp [Msg.Aligned, Msg.values, deleOf, h4, zeros]
  · rw [deleOf_size]; omega

/-- CERT decodes (reference decoder), provided public key and signature are 4-aligned -/
theorem cert_decodes (S : SigScheme) (seed : Bytes) (ver : Version) (onl : Bytes)
    (h4 : (S.pk onl).length % 4 = 0) (hsz : (S.pk onl).length < 2 ^ 30)
    (hs4 : (S.sign seed (ver.delePrefix ++ encode (deleOf S onl))).length % 4 = 0)
    (hssz : (S.sign seed (ver.delePrefix ++ encode (deleOf S onl))).length < 2 ^ 30) :
    Spec.decode (encode (certOf S seed ver onl)) = some (certOf S seed ver onl) := by
  have hl : (encode (deleOf S onl)).length = 40 + (S.pk onl).length := by
    rw [encode_length, deleOf_size]
  apply spec_decode_encode _ (certOf_sorted S seed ver onl)
  · simp only [Msg.Aligned, Msg.values, certOf, List.map_cons, List.map_nil, List.mem_cons,
      List.not_mem_nil, or_false]
    rintro v (rfl | rfl)
    · exact hs4
    · rw [hl]; omega
  · simp [encodedSize, certOf, Msg.values, hl]
    omega

/-- what one certificate satisfies (the body of `cert_valid` for one responder) -/
theorem cert_ok (S : SigScheme) (hS : S.Correct) (seed : Bytes) (ver : Version) (onl : Bytes)
    (hseed : seed.length = 32)
    (h4 : (S.pk onl).length % 4 = 0) (hsz : (S.pk onl).length < 2 ^ 30)
    (hs4 : (S.sign seed (ver.delePrefix ++ encode (deleOf S onl))).length % 4 = 0)
    (hssz : (S.sign seed (ver.delePrefix ++ encode (deleOf S onl))).length < 2 ^ 30) :
    ∃ cert sig dele deleM,
      Spec.decode (encode (certOf S seed ver onl)) = some cert ∧ cert.get Tag.SIG = some sig ∧
      cert.get Tag.DELE = some dele ∧
      S.verify (S.pk seed) (ver.delePrefix ++ dele) sig = true ∧
      Spec.decode dele = some deleM ∧ deleM.get Tag.PUBK = some (S.pk onl) ∧
      deleM.get Tag.MINT = some (le64 0) ∧ deleM.get Tag.MAXT = some (le64 (2 ^ 64 - 1)) := by
  refine ⟨certOf S seed ver onl, _, encode (deleOf S onl), deleOf S onl,
    cert_decodes S seed ver onl h4 hsz hs4 hssz, rfl, ?_, hS seed _ hseed,
    dele_decodes S onl h4 (by omega), ?_, ?_, ?_⟩
  · simp [Msg.get, certOf]
  · simp [Msg.get, deleOf]
  · rw [← zeros8]; simp [Msg.get, deleOf]
  · rw [← ones8]; simp [Msg.get, deleOf]

/-- `cert_valid` under the weakest length assumptions the proof needs: the hash is at least 32 bytes,
    the two online public keys and the two certificate signatures are 4-byte aligned (and below 1 GiB). -/
theorem cert_valid_aligned (E : Env) (hS : E.S.Correct) (seed onlI onlC : Bytes) (b : Nat)
    (hseed : seed.length = 32) (hI : onlI.length = 32) (hC : onlC.length = 32)
    (hH : 32 ≤ (E.H ((0xff : UInt8) :: E.S.pk seed)).length)
    (hpkI : (E.S.pk onlI).length % 4 = 0 ∧ (E.S.pk onlI).length < 2 ^ 30)
    (hpkC : (E.S.pk onlC).length % 4 = 0 ∧ (E.S.pk onlC).length < 2 ^ 30)
    (hsig : ∀ m, (E.S.sign seed m).length % 4 = 0 ∧ (E.S.sign seed m).length < 2 ^ 30) :
    ∃ s, Server.new E seed onlI onlC b = .ok s ∧ s.ltPub = E.S.pk seed ∧
      s.srv = (E.H ((0xff : UInt8) :: E.S.pk seed)).take 32 ∧
      ∀ r ∈ [s.ietf, s.classic], ∃ cert sig dele deleM,
        Spec.decode r.cert = some cert ∧ cert.get Tag.SIG = some sig ∧ cert.get Tag.DELE = some dele ∧
        E.S.verify (E.S.pk seed) (r.ver.delePrefix ++ dele) sig = true ∧
        Spec.decode dele = some deleM ∧ deleM.get Tag.PUBK = some (E.S.pk r.onl.seed) ∧
        deleM.get Tag.MINT = some (le64 0) ∧ deleM.get Tag.MAXT = some (le64 (2 ^ 64 - 1)) ∧
        r.onl.buf = [] := by
  refine ⟨_, server_new_of_lengths E seed onlI onlC b hseed hI hC hH, rfl, rfl, ?_⟩
  intro r hr
  simp only [List.mem_cons, List.not_mem_nil, or_false] at hr
  rcases hr with rfl | rfl
  · obtain ⟨cert, sig, dele, deleM, h1, h2, h3, h4, h5, h6, h7, h8⟩ :=
      cert_ok E.S hS seed .ietf onlI hseed hpkI.1 hpkI.2 (hsig _).1 (hsig _).2
    exact ⟨cert, sig, dele, deleM, h1, h2, h3, h4, h5, h6, h7, h8, rfl⟩
  · obtain ⟨cert, sig, dele, deleM, h1, h2, h3, h4, h5, h6, h7, h8⟩ :=
      cert_ok E.S hS seed .google onlC hseed hpkC.1 hpkC.2 (hsig _).1 (hsig _).2
    exact ⟨cert, sig, dele, deleM, h1, h2, h3, h4, h5, h6, h7, h8, rfl⟩

/-- `C10_cert_valid`: with SHA-512 / Ed25519 output lengths (`ServerSpec.EnvOK`).
    (Without length assumptions the statement is false: `Spec.decode` rejects a CERT whose SIG or
    PUBK is not 4-byte aligned; see the counterexample in the report / `cert_valid_aligned`.) -/
theorem cert_valid (E : Env) (hS : E.S.Correct) (hE : ServerSpec.EnvOK E) (seed onlI onlC : Bytes) (b : Nat)
    (hseed : seed.length = 32) (hI : onlI.length = 32) (hC : onlC.length = 32) :
    ∃ s, Server.new E seed onlI onlC b = .ok s ∧ s.ltPub = E.S.pk seed ∧
      s.srv = (E.H ((0xff : UInt8) :: E.S.pk seed)).take 32 ∧
      ∀ r ∈ [s.ietf, s.classic], ∃ cert sig dele deleM,
        Spec.decode r.cert = some cert ∧ cert.get Tag.SIG = some sig ∧ cert.get Tag.DELE = some dele ∧
        E.S.verify (E.S.pk seed) (r.ver.delePrefix ++ dele) sig = true ∧
        Spec.decode dele = some deleM ∧ deleM.get Tag.PUBK = some (E.S.pk r.onl.seed) ∧
        deleM.get Tag.MINT = some (le64 0) ∧ deleM.get Tag.MAXT = some (le64 (2 ^ 64 - 1)) ∧
        r.onl.buf = [] :=
  cert_valid_aligned E hS seed onlI onlC b hseed hI hC (by rw [hE.hashLen]; omega)
    (by rw [hE.pkLen]; omega) (by rw [hE.pkLen]; omega) (fun m => by rw [hE.sigLen]; omega)

theorem window (m : Nat) (h : m < 2 ^ 64) : leVal (le64 0) ≤ m ∧ m ≤ leVal (le64 (2 ^ 64 - 1)) := by
  rw [leVal_le64, leVal_le64]; omega

theorem context_separation (d d' : Bytes) :
    Version.google.delePrefix ++ d ≠ Version.ietf.delePrefix ++ d' := by
  rw [delePrefix_google, delePrefix_ietf]
  intro h
  have := congrArg (fun l => l[33]?) h
  simp [deleStr] at this

theorem no_carry_over (E : Env) (seed onlI onlC : Bytes) (b : Nat) (s : Server)
    (h : Server.new E seed onlI onlC b = .ok s) :
    ∃ deleC, makeDele E.S onlC = .ok deleC ∧
      ∃ certM, buildMsg "longterm.rs:make_cert:add_field.unwrap"
          [(Tag.SIG, E.S.sign seed (Version.google.delePrefix ++ encode deleC)), (Tag.DELE, encode deleC)] = .ok certM ∧
        s.classic.cert = encode certM := by
  obtain ⟨-, -, -, -, hs⟩ := server_new_ok h
  refine ⟨deleOf E.S onlC, makeDele_eq E.S onlC, certOf E.S seed .google onlC,
    buildMsg_sorted _ _ (by tags_sorted), ?_⟩
  rw [hs]

theorem deterministic (E : Env) (seed onlI onlC onlI' onlC' : Bytes) (b b' : Nat) (s s' : Server)
    (h : Server.new E seed onlI onlC b = .ok s) (h' : Server.new E seed onlI' onlC' b' = .ok s') :
    s.ltPub = s'.ltPub ∧ s.srv = s'.srv := by
  obtain ⟨-, -, -, hsrv, hs⟩ := server_new_ok h
  obtain ⟨-, -, -, hsrv', hs'⟩ := server_new_ok h'
  refine ⟨by rw [hs, hs'], ?_⟩
  rw [hsrv] at hsrv'
  exact Res.ok.inj hsrv'

/-! ### C20 -/

/-- the server state is a function of (pk seed, the two certificate signatures) -/
theorem factor (E : Env) (seed seed' onlI onlC : Bytes) (b : Nat)
    (h32 : seed.length = 32) (h32' : seed'.length = 32)
    (hi : (E.S.pk seed,
           E.S.sign seed (Version.ietf.delePrefix ++ encode ⟨[(Tag.PUBK, E.S.pk onlI), (Tag.MINT, zeros 8), (Tag.MAXT, List.replicate 8 0xff)]⟩),
           E.S.sign seed (Version.google.delePrefix ++ encode ⟨[(Tag.PUBK, E.S.pk onlC), (Tag.MINT, zeros 8), (Tag.MAXT, List.replicate 8 0xff)]⟩))
        = (E.S.pk seed',
           E.S.sign seed' (Version.ietf.delePrefix ++ encode ⟨[(Tag.PUBK, E.S.pk onlI), (Tag.MINT, zeros 8), (Tag.MAXT, List.replicate 8 0xff)]⟩),
           E.S.sign seed' (Version.google.delePrefix ++ encode ⟨[(Tag.PUBK, E.S.pk onlC), (Tag.MINT, zeros 8), (Tag.MAXT, List.replicate 8 0xff)]⟩))) :
    Server.new E seed onlI onlC b = Server.new E seed' onlI onlC b := by
  simp only [Prod.mk.injEq] at hi
  obtain ⟨hpk, hsI, hsC⟩ := hi
  rw [server_new_eq, server_new_eq]
  simp only [Signer.fromSeed, if_pos h32, if_pos h32', Res.bind, certOf, deleOf, hpk, hsI, hsC]

end Rough.Lemmas.Keys

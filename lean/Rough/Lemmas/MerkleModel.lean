import Rough.Lemmas.MerkleSpec
/-
  Refinement: the level-vector model of Model/Merkle.lean computes the level lists of MerkleSpec.
-/
namespace Rough.Lemmas.Merkle
open Rough Rough.Merkle Rough.Spec.MT

@[simp] theorem bind_ok {α β} (a : α) (f : α → Res β) : (Res.ok a).bind f = f a := rfl
@[simp] theorem bind_panic {α β} (s : String) (f : α → Res β) : (Res.panic s : Res α).bind f = .panic s := rfl

/-! ### reset / pushAll -/

theorem pushLeaf_cons (c : MerkleCfg) (l0 : List Bytes) (rest : List (List Bytes)) (d : Bytes) :
    pushLeaf c ⟨l0 :: rest⟩ d = .ok ⟨(l0 ++ [hashLeaf c d]) :: rest⟩ := by
  simp [pushLeaf, modifyLevel, Res.bind]

theorem pushAll_cons (c : MerkleCfg) (rest : List (List Bytes)) : ∀ (leaves : List Bytes) (l0 : List Bytes),
    pushAll c ⟨l0 :: rest⟩ leaves = .ok ⟨(l0 ++ leaves.map (hashLeaf c)) :: rest⟩ := by
  intro leaves
  induction leaves with
  | nil => intro l0; simp [pushAll]
  | cons d ds ih =>
    intro l0
    have := ih (l0 ++ [hashLeaf c d])
    simp only [pushAll] at this ⊢
    simp only [List.foldl_cons, bind_ok, pushLeaf_cons]
    simpa using this

theorem reset_pushAll (c : MerkleCfg) (t : Tree) (ht : t.levels ≠ []) (leaves : List Bytes) :
    pushAll c (reset t) leaves
      = .ok ⟨leaves.map (hashLeaf c) :: List.replicate (t.levels.length - 1) []⟩ := by
  obtain ⟨ls⟩ := t
  cases ls with
  | nil => simp at ht
  | cons l rest =>
    simp only [reset, List.map_cons, pushAll_cons]
    simp [List.map_const']

/-! ### pushParents -/

theorem pairUp_drop_take (c : MerkleCfg) (below : List Bytes) (i k : Nat)
    (h : (i + (k + 1)) * 2 ≤ below.length) :
    pairUp c ((below.drop (2 * i)).take (2 * (k + 1)))
      = hashNodes c (below[i * 2]'(by omega)) (below[i * 2 + 1]'(by omega))
          :: pairUp c ((below.drop (2 * (i + 1))).take (2 * k)) := by
  have h0 : 2 * i < below.length := by omega
  have h1 : 2 * i + 1 < below.length := by omega
  rw [List.drop_eq_getElem_cons h0, List.drop_eq_getElem_cons h1]
  have e : 2 * (k + 1) = 2 * k + 1 + 1 := by omega
  rw [e]
  simp only [List.take_succ_cons, pairUp]
  have e1 : 2 * i = i * 2 := by omega
  have e2 : 2 * i + 1 + 1 = 2 * (i + 1) := by omega
  simp only [e1] at *
  simp [← e2]

theorem pushParents_spec (c : MerkleCfg) (level : Nat) (below : List Bytes) :
    ∀ (k i : Nat) (ls : List (List Bytes)) (cur : List Bytes),
      ls[level]? = some below → ls[level + 1]? = some cur → (i + k) * 2 ≤ below.length →
      pushParents c ls (level + 1) i k
        = .ok (ls.set (level + 1) (cur ++ pairUp c ((below.drop (2 * i)).take (2 * k)))) := by
  intro k
  induction k with
  | zero =>
    intro i ls cur _ h1 _
    obtain ⟨hlt, he⟩ := List.getElem?_eq_some_iff.mp h1
    simp [pushParents, pairUp, ← he]
  | succ k ih =>
    intro i ls cur h0 h1 hb
    obtain ⟨hlt, he⟩ := List.getElem?_eq_some_iff.mp h1
    have hb0 : i * 2 < below.length := by omega
    have hb1 : i * 2 + 1 < below.length := by omega
    rw [pairUp_drop_take c below i k hb]
    simp only [pushParents, Nat.add_sub_cancel, idx, h0, Res.bind, List.getElem?_eq_getElem hb0,
      List.getElem?_eq_getElem hb1, modifyLevel, h1]
    rw [ih (i + 1) _ (cur ++ [hashNodes c below[i * 2] below[i * 2 + 1]])]
    · simp
    · rw [List.getElem?_set_ne (by omega)]; exact h0
    · simp [hlt]
    · omega

/-! ### rootLoop -/

/-- "every level above `level` is empty" -/
def EmptyAbove (levels : List (List Bytes)) (level : Nat) : Prop :=
  ∀ j, level < j → ∀ l, levels[j]? = some l → l = []

theorem rootLoop_done (c : MerkleCfg) (fuel : Nat) (levels : List (List Bytes)) (level n : Nat)
    (h : n ≤ 1) : rootLoop c fuel levels level n = .ok (levels, level) := by
  have : ¬ (n > 1) := by omega
  cases fuel <;> simp [rootLoop, this]

theorem rootLoop_step (c : MerkleCfg) (fuel : Nat) (levels : List (List Bytes)) (level : Nat)
    (cur : List Bytes) (hn : 1 < cur.length) (hcur : levels[level]? = some cur)
    (hemp : EmptyAbove levels level) :
    ∃ levels3, rootLoop c (fuel + 1) levels level cur.length
        = rootLoop c fuel levels3 (level + 1) (up c cur).length ∧
      levels3[level + 1]? = some (up c cur) ∧
      levels3[level]? = some (padLevel c cur) ∧
      (∀ j, j < level → levels3[j]? = levels[j]?) ∧
      EmptyAbove levels3 (level + 1) := by
  obtain ⟨hlt, hce⟩ := List.getElem?_eq_some_iff.mp hcur
  -- the possibly extended level vector
  let levels1 := if levels.length < level + 1 + 1 then levels ++ [[]] else levels
  have h1cur : levels1[level]? = some cur := by
    simp only [levels1]; split
    · rw [List.getElem?_append_left hlt]; exact hcur
    · exact hcur
  have h1next : levels1[level + 1]? = some [] := by
    simp only [levels1]; split
    · have : levels.length = level + 1 := by omega
      simp [this]
    · have hl : level + 1 < levels.length := by omega
      rw [List.getElem?_eq_getElem hl]
      exact congrArg some (hemp (level + 1) (by omega) _ (List.getElem?_eq_getElem hl))
  have h1len : level + 1 < levels1.length := by
    have := List.getElem?_eq_some_iff.mp h1next; exact this.1
  have h1low : ∀ j, j < level → levels1[j]? = levels[j]? := by
    intro j hj
    simp only [levels1]; split
    · rw [List.getElem?_append_left (by omega)]
    · rfl
  have h1emp : EmptyAbove levels1 (level + 1) := by
    intro j hj l hl
    simp only [levels1] at hl; split at hl
    · have : levels.length = level + 1 := by omega
      rw [List.getElem?_append_right (by omega)] at hl
      have : j - levels.length ≠ 0 := by omega
      simp [this] at hl
    · exact hemp j (by omega) l hl
  refine ⟨(levels1.set level (padLevel c cur)).set (level + 1) (up c cur), ?_, ?_, ?_, ?_, ?_⟩
  · have hgt : cur.length > 1 := hn
    simp only [rootLoop, hgt, if_true, Nat.add_sub_cancel]
    change ((if cur.length % 2 ≠ 0 then
          (modifyLevel levels1 level (fun x => x ++ [zeros c.N]) _).bind
            fun ls => Res.ok (ls, cur.length + 1)
        else Res.ok (levels1, cur.length)).bind _) = _
    have hup := up_length c cur
    have hpl := padLevel_length c cur
    have hpad : (if cur.length % 2 ≠ 0 then
          (modifyLevel levels1 level (fun x => x ++ [zeros c.N])
            "merkle.rs:compute_root:levels[level-1].push").bind
            fun ls => Res.ok (ls, cur.length + 1)
        else Res.ok (levels1, cur.length))
        = .ok (levels1.set level (padLevel c cur), 2 * (up c cur).length) := by
      by_cases hodd : cur.length % 2 = 1
      · have : cur.length % 2 ≠ 0 := by omega
        have e : cur.length + 1 = 2 * (up c cur).length := by omega
        simp [modifyLevel, h1cur, padLevel, hodd, e]
      · have h0 : cur.length % 2 = 0 := by omega
        have e : cur.length = 2 * (up c cur).length := by omega
        have hs : levels1.set level cur = levels1 := by
          have := List.getElem?_eq_some_iff.mp h1cur
          obtain ⟨hl, he⟩ := this
          rw [← he]; exact List.set_getElem_self hl
        simp [h0, padLevel, hs, ← e]
    rw [hpad]
    simp only [bind_ok]
    have e2 : 2 * (up c cur).length / 2 = (up c cur).length := by omega
    rw [e2, pushParents_spec c level (padLevel c cur) (up c cur).length 0 _ []]
    · simp only [bind_ok, Nat.mul_zero, List.drop_zero, List.nil_append]
      rw [List.take_of_length_le (by omega), ← up_eq_pairUp]
    · simp [show level < levels1.length by omega]
    · rw [List.getElem?_set_ne (by omega)]; exact h1next
    · omega
  · simp [h1len]
  · rw [List.getElem?_set_ne (by omega)]; simp [show level < levels1.length by omega]
  · intro j hj
    rw [List.getElem?_set_ne (by omega), List.getElem?_set_ne (by omega)]
    exact h1low j hj
  · intro j hj l hl
    rw [List.getElem?_set_ne (by omega), List.getElem?_set_ne (by omega)] at hl
    exact h1emp j hj l hl

theorem rootLoop_spec (c : MerkleCfg) : ∀ (fuel : Nat) (levels : List (List Bytes)) (level : Nat)
    (cur : List Bytes), levels[level]? = some cur → EmptyAbove levels level → cur.length ≤ fuel + 1 →
    ∃ ls', rootLoop c fuel levels level cur.length = .ok (ls', level + depth cur.length) ∧
      (∀ j, j < level → ls'[j]? = levels[j]?) ∧
      (∀ j, j < depth cur.length → ls'[level + j]? = some (padLevel c (lv c j cur))) ∧
      ls'[level + depth cur.length]? = some (lv c (depth cur.length) cur) := by
  intro fuel
  induction fuel with
  | zero =>
    intro levels level cur hcur _ hf
    have h1 : cur.length ≤ 1 := by omega
    refine ⟨levels, ?_, fun _ _ => rfl, ?_, ?_⟩
    · rw [rootLoop_done c _ _ _ _ h1, depth_le_one _ h1]; rfl
    · intro j hj; rw [depth_le_one _ h1] at hj; omega
    · rw [depth_le_one _ h1]; simpa [lv] using hcur
  | succ fuel ih =>
    intro levels level cur hcur hemp hf
    by_cases h1 : cur.length ≤ 1
    · refine ⟨levels, ?_, fun _ _ => rfl, ?_, ?_⟩
      · rw [rootLoop_done c _ _ _ _ h1, depth_le_one _ h1]; rfl
      · intro j hj; rw [depth_le_one _ h1] at hj; omega
      · rw [depth_le_one _ h1]; simpa [lv] using hcur
    · have hn : 1 < cur.length := by omega
      obtain ⟨levels3, hrun, h3next, h3cur, h3low, h3emp⟩ :=
        rootLoop_step c fuel levels level cur hn hcur hemp
      have hup := up_length c cur
      obtain ⟨ls', hrun', hlow', hmid', htop'⟩ :=
        ih levels3 (level + 1) (up c cur) h3next h3emp (by omega)
      have hd : depth cur.length = depth (up c cur).length + 1 := by
        rw [depth_step _ (by omega), hup]; omega
      refine ⟨ls', ?_, ?_, ?_, ?_⟩
      · rw [hrun, hrun', hd]
        have : level + 1 + depth (up c cur).length = level + (depth (up c cur).length + 1) := by omega
        rw [this]
      · intro j hj
        rw [hlow' j (by omega)]; exact h3low j hj
      · intro j hj
        cases j with
        | zero => rw [Nat.add_zero, hlow' level (by omega)]; simpa [lv] using h3cur
        | succ j =>
          have := hmid' j (by omega)
          have e : level + (j + 1) = level + 1 + j := by omega
          rw [e, this]; rfl
      · rw [hd]
        have e : level + (depth (up c cur).length + 1) = level + 1 + depth (up c cur).length := by omega
        rw [e, htop']; rfl

/-! ### pathsLoop on the finished level vector -/

theorem pathsLoop_spec (c : MerkleCfg) (levels : List (List Bytes)) :
    ∀ (k fuel level index : Nat) (cur : List Bytes),
      (∀ j, j < k → levels[level + j]? = some (padLevel c (lv c j cur))) →
      levels[level + k]? = some [] → k < fuel → index < cur.length →
      pathsLoop levels fuel level index = .ok ((pathL c k cur index).flatten, level + k) := by
  intro k
  induction k with
  | zero =>
    intro fuel level index cur _ htop hf _
    obtain ⟨f, rfl⟩ : ∃ f, fuel = f + 1 := ⟨fuel - 1, by omega⟩
    simp only [Nat.add_zero] at htop
    simp [pathsLoop, idx, htop, pathL]
  | succ k ih =>
    intro fuel level index cur hmid htop hf hi
    obtain ⟨f, rfl⟩ : ∃ f, fuel = f + 1 := ⟨fuel - 1, by omega⟩
    have h0 := hmid 0 (by omega)
    simp only [Nat.add_zero, lv] at h0
    have hpl := padLevel_length c cur
    have hne : (padLevel c cur).isEmpty = false := by
      cases hh : padLevel c cur with
      | nil => rw [hh] at hpl; simp at hpl; omega
      | cons a b => rfl
    have hrest := ih f (level + 1) (index / 2) (up c cur)
      (by intro j hj
          have := hmid (j + 1) (by omega)
          have e : level + 1 + j = level + (j + 1) := by omega
          rw [e, this]; rfl)
      (by have e : level + 1 + k = level + (k + 1) := by omega
          rw [e]; exact htop)
      (by omega) (by rw [up_length]; omega)
    have e : level + 1 + k = level + (k + 1) := by omega
    simp only [pathsLoop, idx, h0, bind_ok, hne, Bool.false_eq_true, if_false, hrest, pathL,
      List.flatten_cons, sibOf, e]
    by_cases hev : index % 2 = 0
    · have hs : index + 1 < (padLevel c cur).length := by omega
      simp [hev, List.getElem?_eq_getElem hs]
    · have hs : index - 1 < (padLevel c cur).length := by omega
      have h1 : 1 ≤ index := by omega
      simp [hev, csub, h1, List.getElem?_eq_getElem hs]

end Rough.Lemmas.Merkle

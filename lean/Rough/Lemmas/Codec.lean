import Rough.Lemmas.Bytes
import Rough.Lemmas.Tag
import Rough.Model.Codec
import Rough.Spec.Codec
/-
  Lemmas behind properties C05 (codec round trip / canonical form / agreement with the reference
  decoder) and C06 (no panics in decode and display).
-/
namespace Rough.Lemmas
open Rough

/-! ### running end offsets of a list of values -/

/-- all running end offsets of `vs` starting from `acc` (one per value, including the last). -/
def ends (acc : Nat) : List Bytes → List Nat
  | [] => []
  | v :: vs => (acc + v.length) :: ends (acc + v.length) vs

@[simp] theorem ends_nil (acc : Nat) : ends acc [] = [] := rfl
@[simp] theorem ends_cons (acc : Nat) (v : Bytes) (vs : List Bytes) :
    ends acc (v :: vs) = (acc + v.length) :: ends (acc + v.length) vs := rfl

@[simp] theorem ends_length (acc : Nat) (vs : List Bytes) : (ends acc vs).length = vs.length := by
  induction vs generalizing acc with
  | nil => rfl
  | cons v vs ih => simp [ih]

theorem ends_eq (acc : Nat) (vs : List Bytes) (h : vs ≠ []) :
    ends acc vs = offsetsFrom acc vs ++ [acc + vs.flatten.length] := by
  fun_induction offsetsFrom acc vs with
  | case1 => exact absurd rfl h
  | case2 acc v => simp
  | case3 acc v w rest ih =>
    have := ih (by simp)
    simp only [ends_cons, List.flatten_cons, List.length_append] at this ⊢
    simp only [List.cons_append, this, List.cons.injEq, true_and]
    simp only [List.append_cancel_left_eq, List.cons.injEq, and_true]
    omega

theorem offsetsFrom_length (acc : Nat) (vs : List Bytes) :
    (offsetsFrom acc vs).length = vs.length - 1 := by
  fun_induction offsetsFrom acc vs with
  | case1 => rfl
  | case2 => rfl
  | case3 acc v w rest ih => simp [ih]

theorem ends_le (vs : List Bytes) : ∀ acc, ∀ o ∈ ends acc vs, acc ≤ o ∧ o ≤ acc + vs.flatten.length := by
  induction vs with
  | nil => intro acc o h; simp at h
  | cons v vs ih =>
    intro acc o h
    simp only [ends_cons, List.mem_cons] at h
    simp only [List.flatten_cons, List.length_append]
    rcases h with rfl | h
    · omega
    · have := ih _ o h; omega

theorem mem_offsetsFrom_ends {acc : Nat} {vs : List Bytes} {o : Nat} (h : o ∈ offsetsFrom acc vs) :
    o ∈ ends acc vs := by
  by_cases hv : vs = []
  · subst hv; simp [offsetsFrom] at h
  · rw [ends_eq acc vs hv]; simp [h]

/-- aligned values have aligned running offsets -/
theorem ends_aligned (vs : List Bytes) (hv : ∀ v ∈ vs, v.length % 4 = 0) :
    ∀ acc, acc % 4 = 0 → ∀ o ∈ ends acc vs, o % 4 = 0 := by
  induction vs with
  | nil => intro acc _ o h; simp at h
  | cons v vs ih =>
    intro acc hacc o h
    have h1 := hv v (by simp)
    simp only [ends_cons, List.mem_cons] at h
    rcases h with rfl | h
    · omega
    · exact ih (fun u hu => hv u (by simp [hu])) _ (by omega) o h

/-! ### encode -/

theorem encode_length (m : Msg) : (encode m).length = encodedSize m := by
  simp only [encode, encodedSize, List.length_append, le32_length, length_flatMap_le32,
    length_flatMap_wire, offsetsFrom_length, Msg.values, Msg.tags, List.length_map,
    List.length_flatten, List.map_map]
  split <;> simp only [Function.comp_def] <;> omega


/-! ### cutValues -/

theorem slice_ok {b : Bytes} {s e : Nat} {site : String} (h1 : s ≤ e) (h2 : e ≤ b.length) :
    slice b s e site = .ok ((b.drop s).take (e - s)) := by
  simp [slice, h1, h2]

theorem cutValues_cons {b : Bytes} {h start e : Nat} {es : List Nat}
    (h1 : h + e ≤ b.length) (h2 : start ≤ e) :
    cutValues b h start (e :: es) =
      (cutValues b h e es).bind fun vs => .ok ((b.drop (h + start)).take (e - start) :: vs) := by
  have h3 : ¬ (h + e > b.length ∨ h + start > h + e) := by omega
  rw [cutValues, if_neg h3, slice_ok (by omega) h1]
  have : h + e - (h + start) = e - start := by omega
  simp [Res.bind, this]

theorem cutValues_cons_err {b : Bytes} {h start e : Nat} {es : List Nat}
    (h3 : h + e > b.length ∨ start > e) : cutValues b h start (e :: es) = .err := by
  have : (h + e > b.length ∨ h + start > h + e) := by omega
  rw [cutValues, if_pos this]

theorem cutValues_ne_panic (b : Bytes) (h : Nat) (s : String) :
    ∀ es start, cutValues b h start es ≠ .panic s := by
  intro es
  induction es with
  | nil => intro start; simp [cutValues]
  | cons e es ih =>
    intro start
    by_cases hc : h + e > b.length ∨ start > e
    · rw [cutValues_cons_err hc]; simp
    · rw [cutValues_cons (by omega) (by omega)]
      have := ih e
      cases hcv : cutValues b h e es <;> simp_all [Res.bind]

theorem cutValues_ok {b : Bytes} {h : Nat} : ∀ {es : List Nat} {start : Nat} {vs : List Bytes},
    cutValues b h start es = .ok vs →
    es = ends start vs ∧ (h + start ≤ b.length → h + start + vs.flatten.length ≤ b.length) ∧
      (b.drop (h + start)).take vs.flatten.length = vs.flatten := by
  intro es
  induction es with
  | nil => intro start vs hc; simp [cutValues] at hc; subst hc; simp
  | cons e es ih =>
    intro start vs hc
    by_cases hcond : h + e > b.length ∨ start > e
    · rw [cutValues_cons_err hcond] at hc; cases hc
    · rw [cutValues_cons (by omega) (by omega)] at hc
      cases hcv : cutValues b h e es with
      | err => simp [hcv, Res.bind] at hc
      | panic s => simp [hcv, Res.bind] at hc
      | ok vs' =>
        simp only [hcv, Res.bind, Res.ok.injEq] at hc
        subst hc
        obtain ⟨h1, h2, h3⟩ := ih hcv
        have hlen : ((b.drop (h + start)).take (e - start)).length = e - start := by
          simp [List.length_take, List.length_drop]; omega
        have hse : start + (e - start) = e := by omega
        refine ⟨?_, ?_, ?_⟩
        · simp only [ends_cons, hlen, hse, ← h1]
        · intro _; simp only [List.flatten_cons, List.length_append, hlen]
          have := h2 (by omega); omega
        · simp only [List.flatten_cons, List.length_append, hlen]
          rw [List.take_add, List.drop_drop]
          have : h + start + (e - start) = h + e := by omega
          rw [this, h3]

theorem cutValues_of {b : Bytes} {h : Nat} : ∀ (vs : List Bytes) (start : Nat),
    h + start + vs.flatten.length ≤ b.length →
    (b.drop (h + start)).take vs.flatten.length = vs.flatten →
    cutValues b h start (ends start vs) = .ok vs := by
  intro vs
  induction vs with
  | nil => intros; simp [cutValues]
  | cons v vs ih =>
    intro start hl ht
    simp only [List.flatten_cons, List.length_append] at hl ht
    rw [List.take_add, List.drop_drop] at ht
    have hvl : ((b.drop (h + start)).take v.length).length = v.length := by
      simp [List.length_take, List.length_drop]; omega
    obtain ⟨ht1, ht2⟩ := List.append_inj ht hvl
    rw [ends_cons, cutValues_cons (by omega) (by omega)]
    have hh : h + (start + v.length) = h + start + v.length := by omega
    rw [ih (start + v.length) (by omega) (by rw [hh]; exact ht2)]
    have : start + v.length - start = v.length := by omega
    simp [Res.bind, this, ht1]

/-! ### reference `pieces` vs `cutValues` -/

theorem nonDecreasing_cons2 (a b : Nat) (l : List Nat) :
    Spec.nonDecreasing (a :: b :: l) = (decide (a ≤ b) && Spec.nonDecreasing (b :: l)) := by
  simp [Spec.nonDecreasing]

theorem cutValues_eq_pieces (b : Bytes) (h : Nat) : ∀ (es : List Nat) (start : Nat),
    cutValues b h start es =
      if Spec.nonDecreasing (start :: es) = true ∧ ∀ e ∈ es, h + e ≤ b.length
      then .ok (Spec.pieces (b.drop h) (start :: es)) else .err := by
  intro es
  induction es with
  | nil => intro start; simp [cutValues, Spec.nonDecreasing, Spec.pieces]
  | cons e es ih =>
    intro start
    by_cases hcond : h + e > b.length ∨ start > e
    · rw [cutValues_cons_err hcond, if_neg]
      rw [nonDecreasing_cons2]
      intro ⟨h1, h2⟩
      have := h2 e (by simp)
      simp at h1
      omega
    · rw [cutValues_cons (by omega) (by omega), ih e]
      have hse : start ≤ e := by omega
      by_cases hc2 : Spec.nonDecreasing (e :: es) = true ∧ ∀ e' ∈ es, h + e' ≤ b.length
      · rw [if_pos hc2, if_pos]
        · simp [Res.bind, Spec.pieces, List.drop_drop]
        · rw [nonDecreasing_cons2]
          refine ⟨by simp [hse, hc2.1], ?_⟩
          intro e' he'
          rcases List.mem_cons.mp he' with rfl | h'
          · omega
          · exact hc2.2 e' h'
      · rw [if_neg hc2, if_neg]
        · rfl
        · rw [nonDecreasing_cons2]
          intro ⟨h1, h2⟩
          apply hc2
          simp at h1
          exact ⟨h1.2, fun e' he' => h2 e' (by simp [he'])⟩

theorem nonDecreasing_ends (vs : List Bytes) : ∀ acc, Spec.nonDecreasing (acc :: ends acc vs) = true := by
  induction vs with
  | nil => intro acc; simp [Spec.nonDecreasing]
  | cons v vs ih => intro acc; rw [ends_cons, nonDecreasing_cons2]; simp [ih]

theorem nonDecreasing_le_last : ∀ (l : List Nat) (a L : Nat),
    Spec.nonDecreasing (a :: (l ++ [L])) = true → a ≤ L ∧ ∀ e ∈ l, e ≤ L := by
  intro l
  induction l with
  | nil => intro a L h; simp [Spec.nonDecreasing] at h; simp [h]
  | cons x l ih =>
    intro a L h
    simp only [List.cons_append, nonDecreasing_cons2, Bool.and_eq_true, decide_eq_true_eq] at h
    have := ih x L h.2
    refine ⟨by omega, ?_⟩
    intro e he
    rcases List.mem_cons.mp he with rfl | h'
    · exact this.1
    · exact this.2 e h'


/-! ### readOffsets -/

theorem readOffsets_some {len : Nat} : ∀ {k : Nat} {rest : Bytes} {os : List Nat} {r : Bytes},
    readOffsets len k rest = some (os, r) →
    rest = os.flatMap le32 ++ r ∧ os.length = k ∧
      ∀ o ∈ os, o % 4 = 0 ∧ o ≤ len % 4294967296 ∧ o < 4294967296 := by
  intro k
  induction k with
  | zero => intro rest os r h; simp [readOffsets] at h; obtain ⟨rfl, rfl⟩ := h; simp
  | succ k ih =>
    intro rest os r h
    rw [readOffsets] at h
    split at h; · cases h
    rename_i h4
    simp only at h
    split at h; · cases h
    rename_i hm
    split at h; · cases h
    rename_i hle
    split at h
    · rename_i os' r' hrec
      cases h
      obtain ⟨h1, h2, h3⟩ := ih hrec
      refine ⟨?_, by simp [h2], ?_⟩
      · rw [List.flatMap_cons, List.append_assoc, ← h1]
        exact (le32_rd32 (by omega)).symm
      · intro o ho
        rcases List.mem_cons.mp ho with rfl | ho
        · exact ⟨by omega, by omega, rd32_lt rest⟩
        · exact h3 o ho
    · cases h

theorem readOffsets_of {len : Nat} : ∀ (os : List Nat) (r : Bytes),
    (∀ o ∈ os, o % 4 = 0 ∧ o ≤ len % 4294967296 ∧ o < 4294967296) →
    readOffsets len os.length (os.flatMap le32 ++ r) = some (os, r) := by
  intro os
  induction os with
  | nil => intro r _; simp [readOffsets]
  | cons o os ih =>
    intro r h
    have ho := h o (by simp)
    have hrd : rd32 (le32 o ++ (os.flatMap le32 ++ r)) = o := by
      rw [rd32_le32_append]; omega
    have hdrop : (le32 o ++ (os.flatMap le32 ++ r)).drop 4 = os.flatMap le32 ++ r := by
      simp [le32]
    rw [List.length_cons, List.flatMap_cons, List.append_assoc, readOffsets]
    rw [if_neg (by simp)]
    simp only [hrd, hdrop]
    rw [if_neg (by omega), if_neg (by omega), ih r (fun o' ho' => h o' (by simp [ho']))]

/-! ### readTags -/

/-- `last`, if present, is strictly below every tag of `ts` -/
def Above (last : Option Tag) (ts : List Tag) : Prop :=
  ∀ l, last = some l → ∀ t ∈ ts, l.idx < t.idx

def tooLow (last : Option Tag) (t : Tag) : Bool :=
  match last with
  | some l => decide (t.idx ≤ l.idx)
  | none => false

/-- match-free unfolding of `readTags` -/
theorem readTags_succ (last : Option Tag) (k : Nat) (rest : Bytes) :
    readTags last (k + 1) rest =
      if rest.length < 4 then none else
        (Tag.ofWire (rest.take 4)).bind fun t =>
          if tooLow last t then none else
            (readTags (some t) k (rest.drop 4)).map fun p => (t :: p.1, p.2) := by
  rw [readTags]
  split
  · rfl
  · cases Tag.ofWire (rest.take 4) with
    | none => rfl
    | some t =>
      simp only [Option.bind_some]
      cases last with
      | none =>
        simp only [tooLow]
        cases readTags (some t) k (rest.drop 4) <;> simp
      | some l =>
        by_cases hd : t.idx ≤ l.idx
        · simp [tooLow, hd]
        · cases readTags (some t) k (rest.drop 4) <;> simp [tooLow, hd]

theorem readTags_some : ∀ {k : Nat} {last : Option Tag} {rest : Bytes} {ts : List Tag} {r : Bytes},
    readTags last k rest = some (ts, r) →
    rest = ts.flatMap Tag.wire ++ r ∧ ts.length = k ∧
      ts.Pairwise (fun a b => a.idx < b.idx) ∧ Above last ts := by
  intro k
  induction k with
  | zero => intro last rest ts r h; simp [readTags] at h; obtain ⟨rfl, rfl⟩ := h; simp [Above]
  | succ k ih =>
    intro last rest ts r h
    rw [readTags_succ] at h
    by_cases h4 : rest.length < 4
    · simp [h4] at h
    rw [if_neg h4] at h
    cases hof : Tag.ofWire (rest.take 4) with
    | none => simp [hof] at h
    | some t =>
      simp only [hof, Option.bind_some] at h
      by_cases hlast : tooLow last t = true
      · rw [if_pos hlast] at h; cases h
      rw [if_neg hlast] at h
      cases hrec : readTags (some t) k (rest.drop 4) with
      | none => simp [hrec] at h
      | some p =>
        obtain ⟨ts', r'⟩ := p
        simp only [hrec, Option.map_some, Option.some.injEq, Prod.mk.injEq] at h
        obtain ⟨rfl, rfl⟩ := h
        obtain ⟨h1, h2, h3, h4'⟩ := ih hrec
        have hw := wire_of_ofWire hof
        have habove : ∀ u ∈ ts', t.idx < u.idx := h4' t rfl
        refine ⟨?_, by simp [h2], ?_, ?_⟩
        · rw [List.flatMap_cons, List.append_assoc, ← h1, hw, List.take_append_drop]
        · exact List.pairwise_cons.mpr ⟨habove, h3⟩
        · intro l hl u hu
          subst hl
          have hlt : l.idx < t.idx := by simpa [tooLow] using hlast
          rcases List.mem_cons.mp hu with rfl | hu
          · exact hlt
          · have := habove u hu; omega

theorem readTags_of : ∀ (ts : List Tag) (last : Option Tag) (r : Bytes),
    ts.Pairwise (fun a b => a.idx < b.idx) → Above last ts →
    readTags last ts.length (ts.flatMap Tag.wire ++ r) = some (ts, r) := by
  intro ts
  induction ts with
  | nil => intro last r _ _; simp [readTags]
  | cons t ts ih =>
    intro last r hp ha
    rw [List.pairwise_cons] at hp
    have htake : (t.wire ++ (ts.flatMap Tag.wire ++ r)).take 4 = t.wire := by
      rw [List.take_left' (wire_length t)]
    have hdrop : (t.wire ++ (ts.flatMap Tag.wire ++ r)).drop 4 = ts.flatMap Tag.wire ++ r := by
      rw [List.drop_left' (wire_length t)]
    have hlast : tooLow last t = false := by
      have hl : ∀ l, last = some l → l.idx < t.idx := fun l hl => ha l hl t (by simp)
      clear ha
      cases last with
      | none => rfl
      | some l => have := hl l rfl; simp [tooLow]; omega
    rw [List.length_cons, List.flatMap_cons, List.append_assoc, readTags_succ]
    rw [if_neg (by simp)]
    simp only [htake, hdrop, ofWire_wire, hlast, Option.bind_some]
    rw [ih (some t) r hp.2 (fun l hl u hu => by cases hl; exact hp.1 u hu)]
    simp


/-! ### canonical form of an accepted non-empty message -/

/-- `b` is the canonical encoding of the non-empty, sorted, 4-aligned message `m`. -/
def Canon (b : Bytes) (m : Msg) : Prop :=
  m.fields ≠ [] ∧ b = encode m ∧ m.Sorted ∧ ∀ o ∈ ends 0 m.values, o % 4 = 0

theorem zip_tags {ts : List Tag} {vs : List Bytes} (h : ts.length = vs.length) :
    (Msg.mk (ts.zip vs)).tags = ts := by
  simp only [Msg.tags]; exact List.map_fst_zip (by omega)

theorem zip_values {ts : List Tag} {vs : List Bytes} (h : ts.length = vs.length) :
    (Msg.mk (ts.zip vs)).values = vs := by
  simp only [Msg.values]; exact List.map_snd_zip (by omega)

theorem encode_zip {ts : List Tag} {vs : List Bytes} (h : ts.length = vs.length) :
    encode ⟨ts.zip vs⟩ =
      le32 ts.length ++ (offsetsFrom 0 vs).flatMap le32 ++ ts.flatMap Tag.wire ++ vs.flatten := by
  rw [encode, zip_tags h, zip_values h]
  simp [List.length_zip, h]

theorem msg_eq_zip (m : Msg) : m = ⟨m.tags.zip m.values⟩ := by
  cases m with | mk f =>
  simp only [Msg.tags, Msg.values, Msg.mk.injEq]
  induction f with
  | nil => rfl
  | cons x xs ih => simp [← ih]

@[simp] theorem tags_length (m : Msg) : m.tags.length = m.fields.length := by simp [Msg.tags]
@[simp] theorem values_length (m : Msg) : m.values.length = m.fields.length := by simp [Msg.values]

theorem encode_eq (m : Msg) :
    encode m = le32 m.fields.length ++ ((offsetsFrom 0 m.values).flatMap le32 ++
      (m.tags.flatMap Tag.wire ++ m.values.flatten)) := by
  simp [encode]

/-- header length: for a non-empty message the payload starts at byte `8 * n` -/
theorem encode_header_length (m : Msg) (hne : m.fields ≠ []) :
    (le32 m.fields.length ++ ((offsetsFrom 0 m.values).flatMap le32 ++
      m.tags.flatMap Tag.wire)).length = 8 * m.fields.length := by
  have : 0 < m.fields.length := List.length_pos_iff.mpr hne
  simp only [List.length_append, le32_length, length_flatMap_le32, length_flatMap_wire,
    offsetsFrom_length, tags_length, values_length]
  omega

theorem encode_drop_header (m : Msg) (hne : m.fields ≠ []) :
    (encode m).drop (8 * m.fields.length) = m.values.flatten := by
  have h := encode_header_length m hne
  rw [encode_eq, ← List.append_assoc, ← List.append_assoc,
    List.append_assoc (le32 _)]
  exact List.drop_left' h

/-! ### singleTag -/

theorem singleTag_ok {b : Bytes} {m : Msg} (h4 : 4 ≤ b.length) (hmod : b.length % 4 = 0)
    (hrd : rd32 b = 1) (h : singleTag b = .ok m) : Canon b m ∧ m.fields.length = 1 := by
  unfold singleTag at h
  by_cases h8 : b.length < 8
  · simp [h8] at h
  rw [if_neg h8, slice_ok (by omega) (by omega)] at h
  simp only [Res.bind] at h
  cases hof : Tag.ofWire ((b.drop 4).take (8 - 4)) with
  | none => simp [hof] at h
  | some t =>
    simp only [hof, Res.ok.injEq] at h
    subst h
    have hw := wire_of_ofWire hof
    refine ⟨⟨by simp, ?_, by simp [Msg.Sorted, Msg.tags], ?_⟩, rfl⟩
    · have e1 : le32 1 = b.take 4 := by rw [← hrd]; exact le32_rd32_take h4
      have e2 : b.drop 8 = (b.drop 4).drop 4 := by rw [List.drop_drop]
      simp only [encode, Msg.values, Msg.tags, List.length_cons, List.length_nil, List.map_cons,
        List.map_nil, offsetsFrom, List.flatMap_nil, List.flatMap_cons, List.append_nil,
        List.flatten_cons, List.flatten_nil, Nat.zero_add]
      rw [hw, e1, e2, List.append_assoc, List.take_append_drop, List.take_append_drop]
    · simp only [Msg.values, List.map_cons, List.map_nil, ends_cons, ends_nil, List.mem_singleton]
      intro o ho
      subst ho
      simp only [List.length_drop]
      omega

theorem singleTag_encode (t : Tag) (v : Bytes) :
    singleTag (encode ⟨[(t, v)]⟩) = .ok ⟨[(t, v)]⟩ := by
  have hb : encode ⟨[(t, v)]⟩ = le32 1 ++ (t.wire ++ v) := by simp [encode, Msg.tags, Msg.values, offsetsFrom]
  rw [hb]
  unfold singleTag
  have hlen : ¬ (le32 1 ++ (t.wire ++ v)).length < 8 := by simp; omega
  rw [if_neg hlen, slice_ok (by omega) (by omega)]
  have h1 : ((le32 1 ++ (t.wire ++ v)).drop 4).take (8 - 4) = t.wire := by
    rw [List.drop_left' (le32_length 1), List.take_left' (wire_length t)]
  have h2 : (le32 1 ++ (t.wire ++ v)).drop 8 = v := by
    rw [← List.append_assoc]; exact List.drop_left' (by simp)
  simp only [Res.bind, h1, ofWire_wire, h2]


/-! ### multiTag -/

theorem multiTag_ok {n : Nat} {b : Bytes} {m : Msg} (hn : 2 ≤ n) (h4 : 4 ≤ b.length)
    (hmod : b.length % 4 = 0) (hrd : rd32 b = n) (h : multiTag n b = .ok m) :
    Canon b m ∧ m.fields.length = n := by
  unfold multiTag at h
  cases hro : readOffsets b.length (n - 1) (b.drop 4) with
  | none => simp [hro] at h
  | some p =>
    obtain ⟨offs, rest⟩ := p
    simp only [hro] at h
    cases hrt : readTags none n rest with
    | none => simp [hrt] at h
    | some q =>
      obtain ⟨tags, r'⟩ := q
      simp only [hrt] at h
      obtain ⟨ho1, ho2, ho3⟩ := readOffsets_some hro
      obtain ⟨ht1, ht2, ht3, _⟩ := readTags_some hrt
      have hb : b = (le32 n ++ (offs.flatMap le32 ++ tags.flatMap Tag.wire)) ++ r' := by
        rw [List.append_assoc, List.append_assoc, ← ht1, ← ho1, ← hrd, le32_rd32 h4]
      have hpre : (le32 n ++ (offs.flatMap le32 ++ tags.flatMap Tag.wire)).length
          = 4 + 4 * (n - 1) + 4 * n := by
        simp only [List.length_append, le32_length, length_flatMap_le32, length_flatMap_wire, ho2, ht2]
        omega
      have hlen : b.length = 4 + 4 * (n - 1) + 4 * n + r'.length := by
        have := congrArg List.length hb
        rw [List.length_append, hpre] at this; exact this
      have hdrop : b.drop (4 + 4 * (n - 1) + 4 * n) = r' := by
        have := List.drop_left' (l₂ := r') hpre
        rw [← hb] at this; exact this
      unfold csub at h
      rw [if_pos (by omega)] at h
      simp only [Res.bind] at h
      cases hcv : cutValues b (4 + 4 * (n - 1) + 4 * n) 0 (offs ++ [b.length - (4 + 4 * (n - 1) + 4 * n)]) with
      | err => simp [hcv] at h
      | panic s => simp [hcv] at h
      | ok vs =>
        simp only [hcv, Res.ok.injEq] at h
        obtain ⟨hc1, hc2, hc3⟩ := cutValues_ok hcv
        have hvl : vs.length = n := by
          have := congrArg List.length hc1
          simp [ho2] at this; omega
        have hvne : vs ≠ [] := by intro e; rw [e] at hvl; simp at hvl; omega
        rw [ends_eq 0 vs hvne] at hc1
        obtain ⟨hoffs, hend⟩ := List.append_inj' hc1 rfl
        simp only [List.cons.injEq, and_true, Nat.zero_add] at hend
        simp only [Nat.add_zero] at hc3
        rw [hdrop, ← hend, hlen, Nat.add_sub_cancel_left, List.take_length] at hc3
        have htv : tags.length = vs.length := by omega
        subst h
        refine ⟨⟨?_, ?_, ?_, ?_⟩, ?_⟩
        · intro e
          have := congrArg List.length e
          simp only [List.length_zip, List.length_nil] at this; omega
        · rw [encode_zip htv, ht2, ← hoffs, ← hc3]
          simpa [List.append_assoc] using hb
        · simp only [Msg.Sorted, zip_tags htv]; exact ht3
        · rw [zip_values htv, ends_eq 0 vs hvne, ← hoffs]
          intro o ho
          rcases List.mem_append.mp ho with ho | ho
          · exact (ho3 o ho).1
          · simp only [List.mem_singleton] at ho
            omega
        · simp [List.length_zip, htv, hvl]


theorem encode_length' (m : Msg) (hne : m.fields ≠ []) :
    (encode m).length = 8 * m.fields.length + m.values.flatten.length := by
  have : 0 < m.fields.length := List.length_pos_iff.mpr hne
  rw [encode_eq]
  simp only [List.length_append, le32_length, length_flatMap_le32, length_flatMap_wire,
    offsetsFrom_length, tags_length, values_length]
  omega

theorem multiTag_encode (m : Msg) (hn : 2 ≤ m.fields.length) (hs : m.Sorted)
    (ha : ∀ o ∈ ends 0 m.values, o % 4 = 0) (hsz : (encode m).length < 4294967296) :
    multiTag m.fields.length (encode m) = .ok m := by
  have hne : m.fields ≠ [] := by intro e; simp [e] at hn
  have hvne : m.values ≠ [] := by intro e; have := values_length m; rw [e, List.length_nil] at this; omega
  have hH : 4 + 4 * (m.fields.length - 1) + 4 * m.fields.length = 8 * m.fields.length := by omega
  have hlen := encode_length' m hne
  have hd4 : (encode m).drop 4 = (offsetsFrom 0 m.values).flatMap le32 ++
      (m.tags.flatMap Tag.wire ++ m.values.flatten) := by
    rw [encode_eq]; exact List.drop_left' (le32_length _)
  have hro : readOffsets (encode m).length (m.fields.length - 1) ((encode m).drop 4) =
      some (offsetsFrom 0 m.values, m.tags.flatMap Tag.wire ++ m.values.flatten) := by
    rw [hd4]
    have := readOffsets_of (len := (encode m).length) (offsetsFrom 0 m.values)
      (m.tags.flatMap Tag.wire ++ m.values.flatten) (by
        intro o ho
        have hm := mem_offsetsFrom_ends ho
        have := ends_le m.values 0 o hm
        exact ⟨ha o hm, by omega, by omega⟩)
    rwa [offsetsFrom_length, values_length] at this
  have hrt : readTags none m.fields.length (m.tags.flatMap Tag.wire ++ m.values.flatten) =
      some (m.tags, m.values.flatten) := by
    have := readTags_of m.tags none m.values.flatten hs (by intro l hl; cases hl)
    rwa [tags_length] at this
  have hes : offsetsFrom 0 m.values ++ [(encode m).length - 8 * m.fields.length] = ends 0 m.values := by
    rw [ends_eq 0 m.values hvne, hlen]; simp
  have hcv : cutValues (encode m) (8 * m.fields.length) 0 (ends 0 m.values) = .ok m.values := by
    apply cutValues_of
    · omega
    · rw [Nat.add_zero, encode_drop_header m hne, List.take_length]
  unfold multiTag
  rw [hro]; simp only
  rw [hrt]; simp only [csub, hH]
  rw [if_pos (by omega)]
  simp only [Res.bind, hes, hcv]
  rw [← msg_eq_zip]


/-! ### fromBytes -/

theorem fromBytes_ok_basic {b : Bytes} {m : Msg} (h : fromBytes b = .ok m) :
    4 ≤ b.length ∧ b.length % 4 = 0 := by
  unfold fromBytes at h
  by_cases h4 : b.length < 4
  · simp [h4] at h
  by_cases hm : b.length % 4 ≠ 0
  · simp [h4, hm] at h
  · omega

theorem fromBytes_eq {b : Bytes} (h4 : 4 ≤ b.length) (hm : b.length % 4 = 0) :
    fromBytes b = if rd32 b = 0 then .ok Msg.empty else if rd32 b = 1 then singleTag b
      else if rd32 b ≤ 1024 then multiTag (rd32 b) b else .err := by
  unfold fromBytes
  rw [if_neg (by omega), if_neg (by omega)]

theorem fromBytes_ok_zero {b : Bytes} {m : Msg} (h : fromBytes b = .ok m) (h0 : rd32 b = 0) :
    m = Msg.empty := by
  obtain ⟨h4, hm⟩ := fromBytes_ok_basic h
  rw [fromBytes_eq h4 hm, if_pos h0] at h
  cases h; rfl

theorem fromBytes_ok {b : Bytes} {m : Msg} (h : fromBytes b = .ok m) (hne : rd32 b ≠ 0) :
    Canon b m ∧ m.fields.length = rd32 b := by
  obtain ⟨h4, hm⟩ := fromBytes_ok_basic h
  rw [fromBytes_eq h4 hm, if_neg hne] at h
  by_cases h1 : rd32 b = 1
  · rw [if_pos h1] at h
    rw [h1]; exact singleTag_ok h4 hm h1 h
  · rw [if_neg h1] at h
    by_cases h2 : rd32 b ≤ 1024
    · rw [if_pos h2] at h
      exact multiTag_ok (by omega) h4 hm rfl h
    · rw [if_neg h2] at h; cases h

theorem canon_length {b : Bytes} {m : Msg} (hc : Canon b m) :
    b.length = 8 * m.fields.length + m.values.flatten.length ∧ b.length % 4 = 0 ∧
      1 ≤ m.fields.length := by
  obtain ⟨hne, rfl, _, ha⟩ := hc
  have hvne : m.values ≠ [] := by
    intro e; have := values_length m; rw [e, List.length_nil] at this
    exact hne (List.length_eq_zero_iff.mp this.symm)
  have h1 := encode_length' m hne
  have h2 := ha (0 + m.values.flatten.length) (by rw [ends_eq 0 m.values hvne]; simp)
  have : 0 < m.fields.length := List.length_pos_iff.mpr hne
  refine ⟨h1, ?_, this⟩
  omega

theorem fromBytes_canon {b : Bytes} {m : Msg} (hc : Canon b m) (hlen : b.length < 4294967296) :
    fromBytes b = .ok m := by
  obtain ⟨hl1, hl2, hl3⟩ := canon_length hc
  obtain ⟨hne, rfl, hs, ha⟩ := hc
  have hrd : rd32 (encode m) = m.fields.length := by
    rw [encode_eq, rd32_le32_append]; omega
  rw [fromBytes_eq (by omega) hl2, hrd, if_neg (by omega)]
  by_cases h1 : m.fields.length = 1
  · rw [if_pos h1]
    cases m with | mk f =>
    match f, h1 with
    | [(t, v)], _ => exact singleTag_encode t v
  · rw [if_neg h1]
    have h18 : m.fields.length ≤ 18 := by
      have := sorted_length_le hs; rwa [tags_length] at this
    rw [if_pos (by omega)]
    exact multiTag_encode m (by omega) hs ha hlen

theorem aligned_canon (m : Msg) (hne : m.fields ≠ []) (hs : m.Sorted) (ha : m.Aligned) :
    Canon (encode m) m :=
  ⟨hne, rfl, hs, ends_aligned m.values ha 0 rfl⟩

theorem decode_encode (m : Msg) (hs : m.Sorted) (ha : m.Aligned) (hsz : encodedSize m < 2 ^ 32) :
    fromBytes (encode m) = .ok m := by
  by_cases hne : m.fields = []
  · cases m with | mk f =>
    simp only at hne; subst hne; decide
  · apply fromBytes_canon (aligned_canon m hne hs ha)
    rw [encode_length]; exact hsz

theorem encode_decode (b : Bytes) (m : Msg) (h : fromBytes b = .ok m) (hne : m.fields ≠ [])
    (_hlen : b.length < 2 ^ 32) : encode m = b := by
  have h0 : rd32 b ≠ 0 := by
    intro h0; have := fromBytes_ok_zero h h0; subst this; exact hne rfl
  exact (fromBytes_ok h h0).1.2.1.symm

theorem payload (b : Bytes) (m : Msg) (h : fromBytes b = .ok m) (hne : m.fields ≠ []) :
    8 * m.fields.length ≤ b.length ∧ m.values.flatten = b.drop (8 * m.fields.length) := by
  have h0 : rd32 b ≠ 0 := by
    intro h0; have := fromBytes_ok_zero h h0; subst this; exact hne rfl
  have hc := (fromBytes_ok h h0).1
  have hl := (canon_length hc).1
  obtain ⟨_, rfl, _, _⟩ := hc
  exact ⟨by omega, (encode_drop_header m hne).symm⟩

/-! ### no panics in decoding -/

theorem singleTag_no_panic (b : Bytes) (s : String) : singleTag b ≠ .panic s := by
  unfold singleTag
  by_cases h8 : b.length < 8
  · simp [h8]
  · rw [if_neg h8, slice_ok (by omega) (by omega)]
    simp only [Res.bind]
    cases Tag.ofWire ((b.drop 4).take (8 - 4)) <;> simp

theorem multiTag_no_panic (n : Nat) (b : Bytes) (h4 : 4 ≤ b.length) (s : String) :
    multiTag n b ≠ .panic s := by
  unfold multiTag
  cases hro : readOffsets b.length (n - 1) (b.drop 4) with
  | none => simp
  | some p =>
    obtain ⟨offs, rest⟩ := p
    simp only
    cases hrt : readTags none n rest with
    | none => simp
    | some q =>
      obtain ⟨tags, r'⟩ := q
      simp only
      obtain ⟨ho1, ho2, _⟩ := readOffsets_some hro
      obtain ⟨ht1, ht2, _, _⟩ := readTags_some hrt
      have hlen : b.length = 4 + 4 * (n - 1) + 4 * n + r'.length := by
        have e1 := congrArg List.length ho1
        have e2 := congrArg List.length ht1
        simp only [List.length_drop, List.length_append, length_flatMap_le32,
          length_flatMap_wire, ho2, ht2] at e1 e2
        omega
      unfold csub
      rw [if_pos (by omega)]
      simp only [Res.bind]
      have := cutValues_ne_panic b (4 + 4 * (n - 1) + 4 * n) s
        (offs ++ [b.length - (4 + 4 * (n - 1) + 4 * n)]) 0
      cases hcv : cutValues b (4 + 4 * (n - 1) + 4 * n) 0
        (offs ++ [b.length - (4 + 4 * (n - 1) + 4 * n)]) <;> simp_all

theorem fromBytes_no_panic (b : Bytes) (s : String) : fromBytes b ≠ .panic s := by
  by_cases h4 : b.length < 4
  · simp [fromBytes, h4]
  by_cases hm : b.length % 4 ≠ 0
  · simp [fromBytes, h4, hm]
  rw [fromBytes_eq (by omega) (by omega)]
  split
  · simp
  · split
    · exact singleTag_no_panic b s
    · split
      · exact multiTag_no_panic _ b (by omega) s
      · simp


/-! ### reference decoder: words -/

theorem words_append {w : Bytes} (h : w.length = 4) (r : Bytes) :
    Spec.words (w ++ r) = w :: Spec.words r := by
  obtain ⟨a, b, c, d, rfl⟩ := eq_four h
  simp [Spec.words]

theorem words_flatMap {α} (f : α → Bytes) (hf : ∀ x, (f x).length = 4) (l : List α) (r : Bytes) :
    Spec.words (l.flatMap f ++ r) = l.map f ++ Spec.words r := by
  induction l with
  | nil => simp
  | cons x xs ih => rw [List.flatMap_cons, List.append_assoc, words_append (hf x), ih]; simp

theorem words_spec (b : Bytes) : b.length % 4 = 0 →
    (Spec.words b).flatten = b ∧ (∀ w ∈ Spec.words b, w.length = 4) ∧
      4 * (Spec.words b).length = b.length := by
  fun_induction Spec.words b with
  | case1 a b c d rest ih =>
    intro h
    simp only [List.length_cons] at h
    obtain ⟨h1, h2, h3⟩ := ih (by omega)
    refine ⟨by simp [h1], ?_, by simp only [List.length_cons]; omega⟩
    intro w hw
    rcases List.mem_cons.mp hw with rfl | hw
    · rfl
    · exact h2 w hw
  | case2 b hb =>
    intro h
    match b, hb, h with
    | [], _, _ => simp
    | [_], _, h => simp at h
    | [_, _], _, h => simp at h
    | [_, _, _], _, h => simp at h
    | a :: b :: c :: d :: r, hb, _ => exact absurd rfl (hb a b c d r)

/-- a list with at least `2n` entries (`n ≥ 1`) splits into head, `n-1` entries, `n` entries, rest -/
theorem split4 {α} (d : α) (ws : List α) (n : Nat) (hn : 1 ≤ n) (h : 2 * n ≤ ws.length) :
    ws = [ws.headD d] ++ (ws.drop 1).take (n - 1) ++ (ws.drop n).take n ++ ws.drop (2 * n) := by
  match ws, h with
  | [], h => simp at h; omega
  | w :: ws', h =>
    obtain ⟨k, rfl⟩ : ∃ k, n = k + 1 := ⟨n - 1, by omega⟩
    have e1 : (ws'.drop k).drop (k + 1) = ws'.drop (2 * (k + 1) - 1) := by
      rw [List.drop_drop]; congr 1; omega
    have e2 : (w :: ws').drop (2 * (k + 1)) = ws'.drop (2 * (k + 1) - 1) := by
      have : 2 * (k + 1) = (2 * (k + 1) - 1) + 1 := by omega
      rw [this, List.drop_succ_cons]; congr 1
    simp only [List.headD_cons, List.drop_succ_cons, List.drop_zero, Nat.add_sub_cancel,
      List.cons_append, List.nil_append, List.cons.injEq, true_and, List.append_assoc]
    rw [e2, ← e1, List.take_append_drop, List.take_append_drop]

theorem flatMap_le32_wordVal (A : List Bytes) (h : ∀ w ∈ A, w.length = 4) :
    (A.map Spec.wordVal).flatMap le32 = A.flatten := by
  induction A with
  | nil => rfl
  | cons w A ih =>
    simp only [List.map_cons, List.flatMap_cons, List.flatten_cons]
    rw [le32_wordVal (h w (by simp)), ih (fun u hu => h u (by simp [hu]))]

theorem mapM_tagOfWord_some : ∀ (B : List Bytes) (ts : List Tag), (∀ w ∈ B, w.length = 4) →
    B.mapM Spec.tagOfWord = some ts → B = ts.map Tag.wire := by
  intro B
  induction B with
  | nil => intro ts _ h; simp at h; subst h; rfl
  | cons w B ih =>
    intro ts h4 h
    rw [List.mapM_cons] at h
    cases hw : Spec.tagOfWord w with
    | none => simp [hw] at h
    | some t =>
      cases hB : B.mapM Spec.tagOfWord with
      | none => simp [hw, hB] at h
      | some ts' =>
        simp [hw, hB] at h
        subst h
        rw [tagOfWord_eq_ofWire (h4 w (by simp))] at hw
        rw [List.map_cons, wire_of_ofWire hw, ← ih ts' (fun u hu => h4 u (by simp [hu])) hB]

theorem mapM_tagOfWord_wire (ts : List Tag) :
    (ts.map Tag.wire).mapM Spec.tagOfWord = some ts := by
  induction ts with
  | nil => rfl
  | cons t ts ih =>
    rw [List.map_cons, List.mapM_cons, ih, tagOfWord_eq_ofWire (wire_length t), ofWire_wire]
    rfl

/-! ### reference decoder: ordering checks -/

theorem strictlyAscending_iff (l : List Nat) :
    Spec.strictlyAscending l = true ↔ l.Pairwise (· < ·) := by
  fun_induction Spec.strictlyAscending l with
  | case1 a b rest ih =>
    simp only [Bool.and_eq_true, decide_eq_true_eq, ih, List.pairwise_cons]
    constructor
    · rintro ⟨hab, h1, h2⟩
      refine ⟨?_, h1, h2⟩
      intro x hx
      rcases List.mem_cons.mp hx with rfl | hx
      · exact hab
      · exact Nat.lt_trans hab (h1 x hx)
    · rintro ⟨h0, h1, h2⟩
      exact ⟨h0 b (by simp), h1, h2⟩
  | case2 l hl =>
    match l, hl with
    | [], _ => simp
    | [a], _ => simp
    | a :: b :: r, hl => exact absurd rfl (hl a b r)

theorem strictlyAscending_tags (ts : List Tag) :
    Spec.strictlyAscending (ts.map Spec.tagNum) = true ↔ ts.Pairwise (fun a b => a.idx < b.idx) := by
  rw [strictlyAscending_iff, List.pairwise_map]
  constructor <;> intro h <;> exact h.imp (fun {a b} hab => by
    first | exact (tag_order a b).mpr hab | exact (tag_order a b).mp hab)


/-! ### reference decoder: unfolding and characterisation -/

theorem wordVal_head {b : Bytes} (h4 : 4 ≤ b.length) :
    (Spec.words b).headD [] = b.take 4 ∧ Spec.wordVal ((Spec.words b).headD []) = rd32 b := by
  obtain ⟨x, y, z, w, r, rfl⟩ := exists_four h4
  refine ⟨by simp [Spec.words], ?_⟩
  simp only [Spec.words, List.headD_cons, rd32_cons4, wordVal_four]

set_option linter.unusedSimpArgs false in
/-- `Spec.decode` with the `let`s and the nested `if`s flattened -/
theorem decode_unfold {b : Bytes} (h4 : 4 ≤ b.length) (hm : b.length % 4 = 0) {ws : List Bytes}
    {n : Nat} (hws : Spec.words b = ws) (hn : Spec.wordVal (ws.headD []) = n) :
    Spec.decode b =
      if n = 0 then some ⟨[]⟩ else if ws.length < 2 * n then none else
        (((ws.drop n).take n).mapM Spec.tagOfWord).bind fun tags =>
          if Spec.strictlyAscending (tags.map Spec.tagNum) = true ∧
              (((ws.drop 1).take (n - 1)).map Spec.wordVal).all (fun o => o % 4 = 0) = true ∧
              Spec.nonDecreasing (0 :: ((ws.drop 1).take (n - 1)).map Spec.wordVal
                ++ [(b.drop (8 * n)).length]) = true
          then some ⟨tags.zip (Spec.pieces (b.drop (8 * n))
            (0 :: ((ws.drop 1).take (n - 1)).map Spec.wordVal ++ [(b.drop (8 * n)).length]))⟩
          else none := by
  subst hws hn
  unfold Spec.decode
  rw [if_neg (by omega)]
  simp only
  split
  · rfl
  · split
    · rfl
    · cases List.mapM Spec.tagOfWord (List.take (Spec.wordVal ((Spec.words b).headD []))
          (List.drop (Spec.wordVal ((Spec.words b).headD [])) (Spec.words b))) with
      | none => rfl
      | some tags =>
        simp only [Option.bind_some]
        by_cases c1 : Spec.strictlyAscending (tags.map Spec.tagNum) = true
        · by_cases c2 : (((Spec.words b).drop 1).take (Spec.wordVal ((Spec.words b).headD []) - 1)).map
              Spec.wordVal |>.all (fun o => o % 4 = 0)
          · by_cases c3 : Spec.nonDecreasing (0 :: (((Spec.words b).drop 1).take
                (Spec.wordVal ((Spec.words b).headD []) - 1)).map Spec.wordVal
                ++ [(b.drop (8 * Spec.wordVal ((Spec.words b).headD []))).length]) = true
            · simp only [c1, c2, c3, Bool.false_eq_true, not_true_eq_false, not_false_eq_true, ite_false, ite_true, and_self, true_and, and_true, false_and, and_false]
            · simp only [c1, c2, c3, Bool.false_eq_true, not_true_eq_false, not_false_eq_true, ite_false, ite_true, and_self, true_and, and_true, false_and, and_false]
          · simp only [c1, c2, Bool.false_eq_true, not_true_eq_false, not_false_eq_true, ite_false, ite_true, and_self, true_and, and_true, false_and, and_false]
        · simp only [c1, Bool.false_eq_true, not_true_eq_false, not_false_eq_true, ite_false, ite_true, and_self, true_and, and_true, false_and, and_false]


theorem spec_ok {b : Bytes} {m : Msg} (h : Spec.decode b = some m) :
    4 ≤ b.length ∧ b.length % 4 = 0 ∧
    ((rd32 b = 0 ∧ m = ⟨[]⟩) ∨ (rd32 b ≠ 0 ∧ Canon b m)) := by
  have hc : ¬ (b.length = 0 ∨ b.length % 4 ≠ 0) := by
    intro hc; unfold Spec.decode at h; rw [if_pos hc] at h; cases h
  have h4 : 4 ≤ b.length := by omega
  have hm : b.length % 4 = 0 := by omega
  obtain ⟨hflat, hw4, hwl⟩ := words_spec b hm
  obtain ⟨hhead, hn⟩ := wordVal_head h4
  refine ⟨h4, hm, ?_⟩
  rw [decode_unfold h4 hm rfl hn] at h
  generalize hwsdef : Spec.words b = ws at h hflat hw4 hwl hhead
  generalize hndef : rd32 b = n at h
  by_cases hn0 : n = 0
  · rw [if_pos hn0] at h; cases h; exact Or.inl ⟨hn0, rfl⟩
  rw [if_neg hn0] at h
  by_cases hlt : ws.length < 2 * n
  · rw [if_pos hlt] at h; cases h
  rw [if_neg hlt] at h
  cases hB : ((ws.drop n).take n).mapM Spec.tagOfWord with
  | none => rw [hB] at h; cases h
  | some tags =>
    rw [hB, Option.bind_some] at h
    split at h
    · rename_i hconds
      obtain ⟨c1, c2, c3⟩ := hconds
      cases h
      right
      refine ⟨hn0, ?_⟩
      -- decomposition of the word list
      have hsplit := split4 ([] : Bytes) ws n (by omega) (by omega)
      have hA4 : ∀ w ∈ (ws.drop 1).take (n - 1), w.length = 4 :=
        fun w hw => hw4 w (List.mem_of_mem_drop (List.mem_of_mem_take hw))
      have hB4 : ∀ w ∈ (ws.drop n).take n, w.length = 4 :=
        fun w hw => hw4 w (List.mem_of_mem_drop (List.mem_of_mem_take hw))
      have hBw := mapM_tagOfWord_some _ tags hB4 hB
      have hAl : ((ws.drop 1).take (n - 1)).length = n - 1 := by
        rw [List.length_take, List.length_drop]; omega
      have hBl : tags.length = n := by
        have := congrArg List.length hBw
        rw [List.length_take, List.length_drop, List.length_map] at this; omega
      generalize hoffs : ((ws.drop 1).take (n - 1)).map Spec.wordVal = offs at c2 c3 ⊢
      have hol : offs.length = n - 1 := by rw [← hoffs, List.length_map, hAl]
      have hAf : ((ws.drop 1).take (n - 1)).flatten = offs.flatMap le32 := by
        rw [← hoffs, flatMap_le32_wordVal _ hA4]
      have hBf : ((ws.drop n).take n).flatten = tags.flatMap Tag.wire := by
        rw [hBw, List.flatMap_def]
      have hb : b = (le32 n ++ (offs.flatMap le32 ++ tags.flatMap Tag.wire)) ++ (ws.drop (2 * n)).flatten := by
        have e := congrArg List.flatten hsplit
        rw [hflat] at e
        rw [e, List.flatten_append, List.flatten_append, List.flatten_append, hAf, hBf, hhead,
          ← le32_rd32_take h4, hndef]
        simp [List.append_assoc]
      have hpre : (le32 n ++ (offs.flatMap le32 ++ tags.flatMap Tag.wire)).length = 8 * n := by
        simp only [List.length_append, le32_length, length_flatMap_le32, length_flatMap_wire, hol, hBl]
        omega
      generalize hP : b.drop (8 * n) = P at c3 ⊢
      rw [List.cons_append] at c3 ⊢
      have hPl : b.length = 8 * n + P.length := by
        rw [← hP, List.length_drop]; omega
      -- the pieces are what cutValues computes
      have hcv := cutValues_eq_pieces P 0 (offs ++ [P.length]) 0
      have hle := nonDecreasing_le_last offs 0 P.length c3
      rw [if_pos ⟨c3, by
        intro e he
        rcases List.mem_append.mp he with he | he
        · have := hle.2 e he; omega
        · simp only [List.mem_singleton] at he; omega⟩] at hcv
      simp only [List.drop_zero] at hcv
      generalize Spec.pieces P (0 :: (offs ++ [P.length])) = vs at hcv ⊢
      obtain ⟨hc1, _, hc3⟩ := cutValues_ok hcv
      have hvl : vs.length = n := by
        have := congrArg List.length hc1
        simp only [List.length_append, List.length_cons, List.length_nil, ends_length, hol] at this
        omega
      have hvne : vs ≠ [] := by intro e; rw [e] at hvl; simp at hvl; omega
      rw [ends_eq 0 vs hvne] at hc1
      obtain ⟨hoffs', hend⟩ := List.append_inj' hc1 rfl
      simp only [List.cons.injEq, and_true, Nat.zero_add] at hend
      simp only [Nat.add_zero, List.drop_zero] at hc3
      rw [← hend, List.take_length] at hc3
      have hPd : (ws.drop (2 * n)).flatten = P := by
        have := List.drop_left' (l₂ := (ws.drop (2 * n)).flatten) hpre
        rw [← hb, hP] at this; exact this.symm
      have htv : tags.length = vs.length := by omega
      refine ⟨?_, ?_, ?_, ?_⟩
      · intro e
        have := congrArg List.length e
        simp only [List.length_zip, List.length_nil] at this; omega
      · rw [encode_zip htv, hBl, ← hoffs', ← hc3, ← hPd]
        simpa [List.append_assoc] using hb
      · simp only [Msg.Sorted, zip_tags htv]; exact (strictlyAscending_tags tags).mp c1
      · rw [zip_values htv, ends_eq 0 vs hvne, ← hoffs', ← hend]
        intro o ho
        rcases List.mem_append.mp ho with ho | ho
        · have := List.all_eq_true.mp c2 o ho; simpa using this
        · simp only [List.mem_singleton, Nat.zero_add] at ho
          omega
    · cases h


theorem pieces_ends (vs : List Bytes) : Spec.pieces vs.flatten (0 :: ends 0 vs) = vs := by
  have h1 : cutValues vs.flatten 0 0 (ends 0 vs) = .ok vs :=
    cutValues_of (b := vs.flatten) (h := 0) vs 0 (by omega)
      (by rw [Nat.add_zero, List.drop_zero, List.take_length])
  rw [cutValues_eq_pieces] at h1
  split at h1
  · simpa using h1
  · cases h1

theorem spec_of_canon {b : Bytes} {m : Msg} (hc : Canon b m) (hlen : b.length < 4294967296) :
    Spec.decode b = some m := by
  obtain ⟨hl1, hl2, hl3⟩ := canon_length hc
  obtain ⟨hne, rfl, hs, ha⟩ := hc
  have hvne : m.values ≠ [] := by
    intro e; have := values_length m; rw [e, List.length_nil] at this; omega
  have hol : (offsetsFrom 0 m.values).length = m.fields.length - 1 := by
    rw [offsetsFrom_length, values_length]
  have hws : Spec.words (encode m) = le32 m.fields.length ::
      ((offsetsFrom 0 m.values).map le32 ++ (m.tags.map Tag.wire ++ Spec.words m.values.flatten)) := by
    rw [encode_eq, words_append (le32_length _), words_flatMap le32 le32_length,
      words_flatMap Tag.wire wire_length]
  have hn : Spec.wordVal ((le32 m.fields.length ::
      ((offsetsFrom 0 m.values).map le32 ++ (m.tags.map Tag.wire ++ Spec.words m.values.flatten))).headD [])
      = m.fields.length := by
    rw [List.headD_cons, wordVal_le32]; omega
  rw [decode_unfold (by omega) hl2 hws hn, if_neg (by omega)]
  have hdn : (le32 m.fields.length :: ((offsetsFrom 0 m.values).map le32 ++
      (m.tags.map Tag.wire ++ Spec.words m.values.flatten))).drop m.fields.length
      = m.tags.map Tag.wire ++ Spec.words m.values.flatten := by
    have : (le32 m.fields.length :: (offsetsFrom 0 m.values).map le32).length = m.fields.length := by
      simp only [List.length_cons, List.length_map, hol]; omega
    have := List.drop_left' (l₂ := m.tags.map Tag.wire ++ Spec.words m.values.flatten) this
    simpa using this
  have htn : (m.tags.map Tag.wire ++ Spec.words m.values.flatten).take m.fields.length
      = m.tags.map Tag.wire := List.take_left' (by simp)
  have ht1 : ((offsetsFrom 0 m.values).map le32 ++
      (m.tags.map Tag.wire ++ Spec.words m.values.flatten)).take (m.fields.length - 1)
      = (offsetsFrom 0 m.values).map le32 := List.take_left' (by simp [hol])
  have hmap : ((offsetsFrom 0 m.values).map le32).map Spec.wordVal = offsetsFrom 0 m.values := by
    rw [List.map_map]
    conv => rhs; rw [← List.map_id (offsetsFrom 0 m.values)]
    apply List.map_congr_left
    intro o ho
    have := ends_le m.values 0 o (mem_offsetsFrom_ends ho)
    simp only [Function.comp, wordVal_le32, id]
    omega
  rw [if_neg (by
    simp only [List.length_cons, List.length_append, List.length_map, hol, tags_length]; omega)]
  rw [hdn, htn, mapM_tagOfWord_wire, Option.bind_some, List.drop_succ_cons, List.drop_zero, ht1, hmap,
    encode_drop_header m hne]
  have hb : (0 :: offsetsFrom 0 m.values) ++ [m.values.flatten.length] = 0 :: ends 0 m.values := by
    rw [ends_eq 0 m.values hvne]; simp
  rw [hb, pieces_ends, ← msg_eq_zip]
  rw [if_pos]
  refine ⟨(strictlyAscending_tags m.tags).mpr hs, ?_, nonDecreasing_ends m.values 0⟩
  rw [List.all_eq_true]
  intro o ho
  simpa using ha o (mem_offsetsFrom_ends ho)

theorem spec_empty_iff (b : Bytes) :
    Spec.decode b = some ⟨[]⟩ ↔ 4 ≤ b.length ∧ b.length % 4 = 0 ∧ rd32 b = 0 := by
  constructor
  · intro h
    obtain ⟨h4, hm, h⟩ := spec_ok h
    rcases h with ⟨h0, _⟩ | ⟨_, hc⟩
    · exact ⟨h4, hm, h0⟩
    · exact absurd rfl hc.1
  · rintro ⟨h4, hm, h0⟩
    rw [decode_unfold h4 hm rfl (wordVal_head h4).2, if_pos h0]

theorem fromBytes_empty_iff (b : Bytes) :
    fromBytes b = .ok ⟨[]⟩ ↔ 4 ≤ b.length ∧ b.length % 4 = 0 ∧ rd32 b = 0 := by
  constructor
  · intro h
    obtain ⟨h4, hm⟩ := fromBytes_ok_basic h
    refine ⟨h4, hm, ?_⟩
    apply Classical.byContradiction
    intro h0
    exact (fromBytes_ok h h0).1.1 rfl
  · rintro ⟨h4, hm, h0⟩
    rw [fromBytes_eq h4 hm, if_pos h0]; rfl

theorem ref_agree (b : Bytes) (m : Msg) (hlen : b.length < 2 ^ 32) :
    fromBytes b = .ok m ↔ Spec.decode b = some m := by
  constructor
  · intro h
    by_cases h0 : rd32 b = 0
    · have := fromBytes_ok_zero h h0
      subst this
      exact (spec_empty_iff b).mpr ((fromBytes_empty_iff b).mp h)
    · exact spec_of_canon (fromBytes_ok h h0).1 hlen
  · intro h
    obtain ⟨h4, hm, h'⟩ := spec_ok h
    rcases h' with ⟨h0, rfl⟩ | ⟨_, hc⟩
    · exact (fromBytes_empty_iff b).mpr ⟨h4, hm, h0⟩
    · exact fromBytes_canon hc hlen


/-! ### framing -/

theorem strBytes_roughtim : strBytes "ROUGHTIM" = framing := by
  have : "ROUGHTIM" = String.ofList ['R', 'O', 'U', 'G', 'H', 'T', 'I', 'M'] := by decide
  rw [this, strBytes_ofList]
  decide

theorem framed (m : Msg) :
    encodeFramed m = strBytes "ROUGHTIM" ++ le32 (encode m).length ++ encode m ∧
    (encodeFramed m).length = 12 + (encode m).length := by
  rw [strBytes_roughtim]
  refine ⟨rfl, ?_⟩
  simp only [encodeFramed, framing, List.length_append, List.length_cons, List.length_nil, le32_length]

/-! ### display -/

theorem bind_no_panic {α β} {r : Res α} {f : α → Res β} (hr : ∀ s, r ≠ .panic s)
    (hf : ∀ a s, f a ≠ .panic s) : ∀ s, r.bind f ≠ .panic s := by
  intro s
  cases r with
  | ok a => exact hf a s
  | err => simp [Res.bind]
  | panic t => exact absurd rfl (hr t)

theorem foldl_no_panic {α β} (g : Res β → α → Res β) (P : α → Prop)
    (hg : ∀ acc a, P a → (∀ s, acc ≠ .panic s) → ∀ s, g acc a ≠ .panic s) :
    ∀ (l : List α), (∀ a ∈ l, P a) → ∀ acc, (∀ s, acc ≠ .panic s) → ∀ s, l.foldl g acc ≠ .panic s := by
  intro l
  induction l with
  | nil => intro _ acc hacc s; exact hacc s
  | cons a l ih =>
    intro hl acc hacc s
    rw [List.foldl_cons]
    exact ih (fun x hx => hl x (by simp [hx])) _ (hg acc a (hl a (by simp)) hacc) s

theorem msgBytes_eq (m : Msg) : msgBytes m = m.values.flatten.length := by
  rw [msgBytes, List.length_flatten]

theorem field_le_msgBytes (m : Msg) : ∀ f ∈ m.fields, f.2.length ≤ msgBytes m := by
  cases m with | mk fs =>
  simp only [msgBytes, Msg.values]
  induction fs with
  | nil => intro f hf; simp at hf
  | cons x xs ih =>
    intro f hf
    simp only [List.map_cons, List.sum_cons]
    rcases List.mem_cons.mp hf with rfl | hf
    · omega
    · have := ih f hf; omega

/-- a message decoded from `v` carries at most `|v| - 4` value bytes -/
theorem msgBytes_decoded {v : Bytes} {m : Msg} (h : fromBytes v = .ok m) :
    msgBytes m + 4 ≤ v.length := by
  by_cases hne : m.fields = []
  · have := (fromBytes_ok_basic h).1
    cases m with | mk fs =>
    simp only at hne; subst hne
    simp [msgBytes, Msg.values]; omega
  · obtain ⟨h1, h2⟩ := payload v m h hne
    have : 0 < m.fields.length := List.length_pos_iff.mpr hne
    rw [msgBytes_eq, h2, List.length_drop]; omega

theorem displayFuel_no_panic : ∀ (fuel indent : Nat) (m : Msg), msgBytes m + 2 ≤ fuel → 1 ≤ indent →
    ∀ s, displayFuel false fuel indent m ≠ .panic s := by
  intro fuel
  induction fuel with
  | zero => intro indent m h; omega
  | succ fuel ih =>
    intro indent m hf hi
    rw [displayFuel, if_neg (by omega)]
    simp only
    apply bind_no_panic
    · apply foldl_no_panic _ (fun f => f.2.length ≤ msgBytes m) _ m.fields (field_le_msgBytes m)
      · intro s; simp
      · intro acc f hfl hacc
        apply bind_no_panic hacc
        intro str s
        split
        · split
          · rename_i nested hn
            have hb := msgBytes_decoded hn
            exact bind_no_panic (ih (indent + 1) nested (by omega) (by omega)) (by intro a s; simp) s
          · rename_i s' hp
            exact absurd hp (fromBytes_no_panic _ _)
          · simp
        · simp
    · intro a s; simp

theorem display_no_panic (m : Msg) (s : String) : display false m ≠ .panic s :=
  displayFuel_no_panic _ 1 m (Nat.le_refl _) (Nat.le_refl _) s

theorem display_unfixed_witness : ∃ b m s, fromBytes b = .ok m ∧ display true m = .panic s := by
  refine ⟨encode ⟨[(Tag.CERT, [])]⟩, ⟨[(Tag.CERT, [])]⟩,
    "message.rs:to_string:from_bytes(value).unwrap()", ?_, ?_⟩
  · exact fromBytes_canon ⟨by simp, rfl, by simp [Msg.Sorted, Msg.tags], by simp [Msg.values]⟩ (by decide)
  · have h0 : fromBytes [] = .err := by decide
    simp [display, msgBytes, Msg.values, displayFuel, Tag.isNested, h0, Res.bind]

end Rough.Lemmas

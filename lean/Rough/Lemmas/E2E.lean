import Rough.Lemmas.ServerSpec
import Rough.Lemmas.ServerAssembly
import Rough.Lemmas.Client
import Rough.Lemmas.Request
namespace Rough.Lemmas.E2E
open Rough Rough.ServerSpec Rough.Spec

/-- a datagram of the chunk that the classifier accepts for protocol `ver` is in the batch of `ver` -/
theorem e2e_mem_accepted (srv : Bytes) (ver : Version) (d : Datagram) (n : Bytes)
    (hc : nonceFromRequest d.bytes srv = .ok (n, ver)) :
    ∀ chunk : List Datagram, d ∈ chunk → (d, n) ∈ accepted srv ver chunk := by
  intro chunk
  induction chunk with
  | nil => intro h; cases h
  | cons x xs ih =>
    intro h
    rcases List.mem_cons.mp h with h | h
    · subst h
      unfold accepted
      rw [hc]
      simp
    · have := ih h
      unfold accepted
      split
      · split
        · exact List.mem_cons_of_mem _ this
        · exact this
      · exact this

theorem e2e_versionOf (ver : Version) : Lemmas.Request.versionOf (protoOfVer ver) = ver := by
  cases ver <;> rfl

theorem e2e_nowOf (p : Server.Pass) (ver : Version) :
    (match ver with | .ietf => p.nowIetf | .google => p.nowClassic) =
      Lemmas.ServerAssembly.nowOf p ver := by cases ver <;> rfl

theorem client_server (E : Env) (hE : EnvOK E) (hS : E.S.Correct)
    (hv : ∀ seed, E.S.pkValid (E.S.pk seed) = true) (K : Keys) (hK : K.OK) (debug : Bool)
    (s : Server) (hs : Inv E K s) (hb : s.batchSize ≤ 2 ^ 32) (p : Server.Pass) (hp : PassOK p)
    (ver : Version) (nonce : Bytes) (hn : nonce.length = ver.nonceLen)
    (pk? : Option Bytes) (hk : pk? = none ∨ pk? = some (E.S.pk K.seed))
    (req : Bytes) (hreq : Client.makeRequest E.H ver nonce pk? = .ok req)
    (d : Datagram) (hd : d.bytes = req) (hmem : d ∈ p.chunk.take s.batchSize) :
    ∃ s' sent ev, Server.pass E debug s p = .ok (s', sent, ev) ∧
      ∃ x ∈ sent, x.dst = d.src ∧
        ∃ idx, Client.handleResponse E.S E.H ver pk? nonce req x.bytes =
          .ok ⟨midpVal ver (match ver with | .ietf => p.nowIetf | .google => p.nowClassic), radiOf ver, pk?.isSome, idx⟩ := by
  subst hd
  obtain ⟨s', hpass, _⟩ := Lemmas.ServerSpec.pass_spec E hE K hK debug s hs hb p hp
  refine ⟨s', _, _, hpass, ?_⟩
  -- the request is classified `must nonce`
  have hpk : ∀ pk, pk? = some pk → pk.length = 32 := by
    intro pk h
    rcases hk with hk | hk
    · rw [hk] at h; cases h
    · rw [hk] at h; cases h; exact hE.pkLen K.seed
  have hsrv : ∀ pk, pk? = some pk → s.srv = (E.H ((0xff : UInt8) :: pk)).take 32 := by
    intro pk h
    rcases hk with hk | hk
    · rw [hk] at h; cases h
    · rw [hk] at h; cases h; exact hs.srv
  obtain ⟨req', hreq', _, hcls, hproto⟩ :=
    Lemmas.Client.request_wellformed E.H hE.hashLen ver nonce hn pk? hpk s.srv hsrv
  rw [hreq] at hreq'
  cases hreq'
  have hnfr : nonceFromRequest d.bytes s.srv = .ok (nonce, ver) := by
    rw [Lemmas.Request.classify_eq, hproto, hcls]
    simp only [Lemmas.Request.expected, e2e_versionOf]
  have hacc := e2e_mem_accepted s.srv ver d nonce hnfr _ hmem
  have hnow := Lemmas.ServerAssembly.sa_now_ok p hp ver
  have hmemS := Lemmas.ServerAssembly.sa_mem_expectedSent E K s p ver
  have hle := Lemmas.ServerAssembly.sa_accepted_le s.srv ver p.chunk s.batchSize
  rw [e2e_nowOf p ver]
  generalize Lemmas.ServerAssembly.nowOf p ver = now at hnow hmemS ⊢
  generalize accepted s.srv ver (p.chunk.take s.batchSize) = reqs at *
  obtain ⟨i, hi, hget⟩ := List.getElem_of_mem hacc
  have hget? := Lemmas.ServerSpec.ss_expectedBatch_getElem? E K ver now reqs i hi
  refine ⟨_, hmemS _ (List.mem_of_getElem? hget?), ?_, i, ?_⟩
  · simp only [hget]
  · simp only [hget]
    have hi' : i < (reqs.map (leafOf ver)).length := by rw [List.length_map]; exact hi
    have hlen : (reqs.map (leafOf ver)).length ≤ 2 ^ 32 := by rw [List.length_map]; omega
    have hleaf : (reqs.map (leafOf ver))[i] = leafOf ver (d, nonce) := by
      rw [List.getElem_map, hget]
    have hacc := Lemmas.Client.accept E.S hS hv E.H hE.hashLen hE.sigLen hE.pkLen ver K.seed (onlOf K ver)
      hK.1 (Lemmas.ServerAssembly.sa_onl_len K hK ver) (midpVal ver now) (radiOf ver)
      (Lemmas.ServerAssembly.sa_midpVal_lt ver now hnow) (Lemmas.ServerAssembly.sa_radiOf_lt ver)
      (reqs.map (leafOf ver)) i hi' hlen d.bytes nonce hn
    clear hget? hmemS hnfr hcls hproto hreq
    cases ver
    · exact hacc hleaf pk? hk
    · exact hacc hleaf pk? hk

end Rough.Lemmas.E2E

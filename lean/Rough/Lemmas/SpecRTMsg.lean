import Rough.Lemmas.SpecRTBase
/-
  Stage lemmas for the reference verifier: the frame, the five concrete message shapes of a
  reference reply (decode ∘ encode, sizes), and `verifyResponse` evaluated on abstract stage results.
-/
namespace Rough.Lemmas.SpecRT
open Rough Rough.Spec Rough.Spec.RT Rough.Spec.MT Rough.Merkle

theorem decode_encode_spec (m : Msg) (hs : m.Sorted) (ha : m.Aligned) (hsz : encodedSize m < 2 ^ 32) :
    Spec.decode (encode m) = some m :=
  (ref_agree _ _ (by rw [encode_length]; exact hsz)).mp (decode_encode m hs ha hsz)

/-! ### the pieces of the reference reply -/

def deleM (pk mint maxt : Bytes) : Msg := mkMsg [(Tag.PUBK, pk), (Tag.MINT, mint), (Tag.MAXT, maxt)]
def certM (sig dele : Bytes) : Msg := mkMsg [(Tag.SIG, sig), (Tag.DELE, dele)]
def srepC (radi midp root : Bytes) : Msg := mkMsg [(Tag.RADI, radi), (Tag.MIDP, midp), (Tag.ROOT, root)]
def srepD (radi midp root : Bytes) : Msg :=
  mkMsg [(Tag.VER, ver13), (Tag.RADI, radi), (Tag.MIDP, midp), (Tag.VERS, [0, 0, 0, 0] ++ ver13), (Tag.ROOT, root)]
def respM (sig nonce path srep cert indx : Bytes) : Msg :=
  mkMsg [(Tag.SIG, sig), (Tag.NONC, nonce), (Tag.PATH, path), (Tag.SREP, srep), (Tag.CERT, cert), (Tag.INDX, indx)]

theorem deleM_size (pk mint maxt : Bytes) :
    encodedSize (deleM pk mint maxt) = 24 + pk.length + mint.length + maxt.length := by
  simp [deleM, mkMsg, encodedSize, Msg.values]; omega
theorem certM_size (sig dele : Bytes) : encodedSize (certM sig dele) = 16 + sig.length + dele.length := by
  simp [certM, mkMsg, encodedSize, Msg.values]; omega
theorem srepC_size (radi midp root : Bytes) :
    encodedSize (srepC radi midp root) = 24 + radi.length + midp.length + root.length := by
  simp [srepC, mkMsg, encodedSize, Msg.values]; omega
theorem srepD_size (radi midp root : Bytes) :
    encodedSize (srepD radi midp root) = 52 + radi.length + midp.length + root.length := by
  simp [srepD, mkMsg, encodedSize, Msg.values, ver13]; omega
theorem respM_size (sig nonce path srep cert indx : Bytes) :
    encodedSize (respM sig nonce path srep cert indx) =
      48 + sig.length + nonce.length + path.length + srep.length + cert.length + indx.length := by
  simp [respM, mkMsg, encodedSize, Msg.values]; omega

theorem deleM_decode (pk mint maxt : Bytes) (h1 : pk.length = 32) (h2 : mint.length = 8) (h3 : maxt.length = 8) :
    Spec.decode (encode (deleM pk mint maxt)) = some (deleM pk mint maxt) := by
  apply decode_encode_spec
  · simp [deleM, mkMsg, Msg.Sorted, Msg.tags, Tag.idx]
  · simp [deleM, mkMsg, Msg.Aligned, Msg.values, h1, h2, h3]
  · rw [deleM_size]; omega

theorem certM_decode (sig dele : Bytes) (h1 : sig.length = 64) (h2 : dele.length = 72) :
    Spec.decode (encode (certM sig dele)) = some (certM sig dele) := by
  apply decode_encode_spec
  · simp [certM, mkMsg, Msg.Sorted, Msg.tags, Tag.idx]
  · simp [certM, mkMsg, Msg.Aligned, Msg.values, h1, h2]
  · rw [certM_size]; omega

theorem srepC_decode (radi midp root : Bytes) (h1 : radi.length = 4) (h2 : midp.length = 8) (h3 : root.length = 64) :
    Spec.decode (encode (srepC radi midp root)) = some (srepC radi midp root) := by
  apply decode_encode_spec
  · simp [srepC, mkMsg, Msg.Sorted, Msg.tags, Tag.idx]
  · simp [srepC, mkMsg, Msg.Aligned, Msg.values, h1, h2, h3]
  · rw [srepC_size]; omega

theorem srepD_decode (radi midp root : Bytes) (h1 : radi.length = 4) (h2 : midp.length = 8) (h3 : root.length = 32) :
    Spec.decode (encode (srepD radi midp root)) = some (srepD radi midp root) := by
  apply decode_encode_spec
  · simp [srepD, mkMsg, Msg.Sorted, Msg.tags, Tag.idx]
  · simp [srepD, mkMsg, Msg.Aligned, Msg.values, h1, h2, h3, ver13]
  · rw [srepD_size]; omega

theorem respM_decode (sig nonce path srep cert indx : Bytes)
    (h1 : sig.length % 4 = 0) (h2 : nonce.length % 4 = 0) (h3 : path.length % 4 = 0)
    (h4 : srep.length % 4 = 0) (h5 : cert.length % 4 = 0) (h6 : indx.length % 4 = 0)
    (hsz : 48 + sig.length + nonce.length + path.length + srep.length + cert.length + indx.length < 2 ^ 32) :
    Spec.decode (encode (respM sig nonce path srep cert indx)) = some (respM sig nonce path srep cert indx) := by
  apply decode_encode_spec
  · simp [respM, mkMsg, Msg.Sorted, Msg.tags, Tag.idx]
  · simp [respM, mkMsg, Msg.Aligned, Msg.values, h1, h2, h3, h4, h5, h6]
  · rw [respM_size]; exact hsz

theorem ver13_mem : ver13 ∈ versionList ([0, 0, 0, 0] ++ ver13) := by
  have : chunks 4 ([0, 0, 0, 0] ++ ver13) = [[0, 0, 0, 0], ver13] := by
    rw [Lemmas.Merkle.chunks_cons _ _ (by decide) (by simp), Lemmas.Merkle.chunks_cons _ _ (by decide) (by simp [ver13])]
    simp [ver13, Lemmas.Merkle.chunks_nil]
  rw [versionList, this]
  simp [ver13]


/-! ### frame -/

theorem unframe_frame (b : Bytes) (h : b.length < 2 ^ 32) :
    unframe (magic ++ le32 b.length ++ b) = some b := by
  have hl : (magic ++ le32 b.length ++ b).length = 12 + b.length := by
    simp [magic]; omega
  have h1 : (magic ++ le32 b.length ++ b).take 8 = magic := by
    rw [List.append_assoc]; exact List.take_left' rfl
  have h2 : (magic ++ le32 b.length ++ b).drop 8 = le32 b.length ++ b := by
    rw [List.append_assoc]; exact List.drop_left' rfl
  have h3 : (magic ++ le32 b.length ++ b).drop 12 = b := by
    exact List.drop_left' rfl
  have h4 : u32le (le32 b.length ++ b) = b.length := by
    have : (le32 b.length ++ b).take 4 = le32 b.length := List.take_left' rfl
    rw [u32le, this, leVal_le32]; omega
  unfold unframe
  rw [if_neg (by omega), if_neg (by rw [h1]; simp), h2, h4, if_neg (by omega), h3]


/-! ### the verifier on abstract stage results -/

theorem verify_classic_ok (S : SigScheme) (H : Bytes → Bytes) (ltpk request nonce response : Bytes)
    (m cert dele srep : Msg)
    (sig path srepB certB indxB certSig deleB pubk mint maxt radi midp root : Bytes)
    (hm : decode response = some m)
    (h1 : m.get Tag.SIG = some sig) (h2 : m.get Tag.PATH = some path) (h3 : m.get Tag.SREP = some srepB)
    (h4 : m.get Tag.CERT = some certB) (h5 : m.get Tag.INDX = some indxB)
    (h6 : m.get Tag.NONC = some nonce)
    (h7 : sig.length = 64) (h8 : indxB.length = 4)
    (hc : decode certB = some cert)
    (h9 : cert.get Tag.SIG = some certSig) (h10 : cert.get Tag.DELE = some deleB)
    (h11 : certSig.length = 64)
    (hd : decode deleB = some dele)
    (h12 : dele.get Tag.PUBK = some pubk) (h13 : dele.get Tag.MINT = some mint)
    (h14 : dele.get Tag.MAXT = some maxt)
    (h15 : pubk.length = 32) (h16 : mint.length = 8) (h17 : maxt.length = 8)
    (h18 : S.verify ltpk (deleCtx .classic ++ deleB) certSig = true)
    (h19 : S.verify pubk (srepCtx .classic ++ srepB) sig = true)
    (hs : decode srepB = some srep)
    (h20 : srep.get Tag.RADI = some radi) (h21 : srep.get Tag.MIDP = some midp)
    (h22 : srep.get Tag.ROOT = some root)
    (h23 : radi.length = 4) (h24 : midp.length = 8) (h25 : root.length = 64)
    (h26 : u64le mint ≤ u64le midp) (h27 : u64le midp ≤ u64le maxt)
    (h28 : path.length % 64 = 0) (h29 : (chunks 64 path).length ≤ 32)
    (h30 : u32le indxB < 2 ^ (chunks 64 path).length)
    (h31 : climb H .classic (RT.hash H .classic ((0x00 : UInt8) :: nonce)) (u32le indxB) (chunks 64 path) = root) :
    verifyResponse S H .classic ltpk request nonce response = .ok (u64le midp, u32le radi) := by
  have h29' : ¬ 32 < (chunks 64 path).length := by omega
  have h30' : ¬ 2 ^ (chunks 64 path).length ≤ u32le indxB := by omega
  simp [verifyResponse, *, nodeWidth, bind, Except.bind, pure, Except.pure]
  

theorem verify_draft13_ok (S : SigScheme) (H : Bytes → Bytes) (ltpk request nonce response : Bytes)
    (body : Bytes) (m cert dele srep : Msg)
    (sig path srepB certB indxB certSig deleB pubk mint maxt radi midp root vs : Bytes)
    (hb : unframe response = some body)
    (hm : decode body = some m)
    (h1 : m.get Tag.SIG = some sig) (h2 : m.get Tag.PATH = some path) (h3 : m.get Tag.SREP = some srepB)
    (h4 : m.get Tag.CERT = some certB) (h5 : m.get Tag.INDX = some indxB)
    (h6 : m.get Tag.NONC = some nonce)
    (h7 : sig.length = 64) (h8 : indxB.length = 4)
    (hc : decode certB = some cert)
    (h9 : cert.get Tag.SIG = some certSig) (h10 : cert.get Tag.DELE = some deleB)
    (h11 : certSig.length = 64)
    (hd : decode deleB = some dele)
    (h12 : dele.get Tag.PUBK = some pubk) (h13 : dele.get Tag.MINT = some mint)
    (h14 : dele.get Tag.MAXT = some maxt)
    (h15 : pubk.length = 32) (h16 : mint.length = 8) (h17 : maxt.length = 8)
    (h18 : S.verify ltpk (deleCtx .draft13 ++ deleB) certSig = true)
    (h19 : S.verify pubk (srepCtx .draft13 ++ srepB) sig = true)
    (hs : decode srepB = some srep)
    (h20 : srep.get Tag.RADI = some radi) (h21 : srep.get Tag.MIDP = some midp)
    (h22 : srep.get Tag.ROOT = some root)
    (h23 : radi.length = 4) (h24 : midp.length = 8) (h25 : root.length = 32)
    (hv : srep.get Tag.VER = some ver13) (hvs : srep.get Tag.VERS = some vs)
    (hvc : ver13 ∈ versionList vs) (hvl : vs.length % 4 = 0)
    (h26 : u64le mint ≤ u64le midp) (h27 : u64le midp ≤ u64le maxt)
    (h28 : path.length % 32 = 0) (h29 : (chunks 32 path).length ≤ 32)
    (h30 : u32le indxB < 2 ^ (chunks 32 path).length)
    (h31 : climb H .draft13 (RT.hash H .draft13 ((0x00 : UInt8) :: request)) (u32le indxB) (chunks 32 path) = root) :
    verifyResponse S H .draft13 ltpk request nonce response = .ok (u64le midp, u32le radi) := by
  have h29' : ¬ 32 < (chunks 32 path).length := by omega
  have h30' : ¬ 2 ^ (chunks 32 path).length ≤ u32le indxB := by omega
  simp [verifyResponse, *, nodeWidth, bind, Except.bind, pure, Except.pure]
  

end Rough.Lemmas.SpecRT

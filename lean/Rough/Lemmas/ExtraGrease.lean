import Rough.Lemmas.Codec
import Rough.Model.Server
/-
  C02, fault injection by tag reordering: the result is the honest response or is rejected by the
  reference decoder.
-/
namespace Rough.Lemmas.Extra
open Rough Rough.Spec Rough.Lemmas

/-- the fold of `Grease::randomly_order_tags` when every index is in range -/
theorem reorder_foldl (site : String) (fields : List (Tag × Bytes)) (d : Tag × Bytes) :
    ∀ (perm : List Nat) (l0 : List (Tag × Bytes)), (∀ i ∈ perm, i < fields.length) →
    perm.foldl (fun (acc : Res (List (Tag × Bytes))) i => acc.bind fun l =>
        (Res.unwrap site fields[i]?).bind fun f => .ok (l ++ [f])) (.ok l0)
      = .ok (l0 ++ perm.map (fun i => fields.getD i d)) := by
  intro perm
  induction perm with
  | nil => intro l0 _; simp
  | cons i perm ih =>
    intro l0 h
    have hi : i < fields.length := h i (by simp)
    rw [List.foldl_cons]
    have h1 : ((Res.ok l0 : Res (List (Tag × Bytes))).bind fun l =>
        (Res.unwrap site fields[i]?).bind fun f => .ok (l ++ [f])) = .ok (l0 ++ [fields.getD i d]) := by
      simp [Res.bind, Res.unwrap, List.getElem?_eq_getElem hi, List.getD_eq_getElem?_getD]
    rw [h1, ih _ (fun j hj => h j (by simp [hj]))]
    simp

theorem map_getD_range {α} (l : List α) (d : α) : (List.range l.length).map (fun i => l.getD i d) = l := by
  apply List.ext_getElem
  · simp
  · intro i h1 h2
    simp [List.getD_eq_getElem?_getD, List.getElem?_eq_getElem h2]

theorem flatMap_wire_inj : ∀ (ts us : List Tag), ts.flatMap Tag.wire = us.flatMap Tag.wire → ts = us := by
  intro ts
  induction ts with
  | nil =>
    intro us h
    cases us with
    | nil => rfl
    | cons u us =>
      have := congrArg List.length h
      simp only [length_flatMap_wire, List.length_cons, List.length_nil] at this
      omega
  | cons t ts ih =>
    intro us h
    cases us with
    | nil =>
      have := congrArg List.length h
      simp only [length_flatMap_wire, List.length_cons, List.length_nil] at this
      omega
    | cons u us =>
      simp only [List.flatMap_cons] at h
      obtain ⟨h1, h2⟩ := List.append_inj h (by simp)
      rw [wire_inj h1, ih us h2]

/-- two messages with at most 2^32-1 fields and the same encoding carry the same tags -/
theorem encode_tags_inj (a b : Msg) (ha : a.fields.length < 4294967296) (hb : b.fields.length < 4294967296)
    (h : encode a = encode b) : a.tags = b.tags := by
  have hn : a.fields.length = b.fields.length := by
    have h1 := congrArg rd32 h
    rw [encode_eq, encode_eq, rd32_le32_append, rd32_le32_append] at h1
    omega
  rw [encode_eq, encode_eq] at h
  obtain ⟨_, h2⟩ := List.append_inj h (by simp)
  obtain ⟨_, h3⟩ := List.append_inj h2 (by
    simp only [length_flatMap_le32, offsetsFrom_length, values_length, hn])
  obtain ⟨h4, _⟩ := List.append_inj h3 (by simp only [length_flatMap_wire, tags_length, hn])
  exact flatMap_wire_inj _ _ h4

theorem grease_reorder (r : Msg) (hs : r.Sorted) (perm : List Nat) (hp : perm.Perm (List.range r.fields.length))
    (r' : Msg) (h : applyGrease (.reorder perm) r = .ok r') :
    r' = r ∨ Spec.decode (encode r') = none := by
  have hin : ∀ i ∈ perm, i < r.fields.length := by
    intro i hi
    have := hp.mem_iff.mp hi
    simpa using this
  have hr' : r' = ⟨perm.map (fun i => r.fields.getD i (Tag.SIG, []))⟩ := by
    simp only [applyGrease] at h
    rw [reorder_foldl _ r.fields (Tag.SIG, []) perm [] hin] at h
    simp only [Res.bind, List.nil_append, Res.ok.injEq] at h
    exact h.symm
  have hlen' : r'.fields.length = r.fields.length := by
    rw [hr']; simp only [List.length_map]
    have := hp.length_eq
    simpa using this
  have h18 : r.fields.length ≤ 18 := by
    have := sorted_length_le hs; rwa [tags_length] at this
  -- if the tags of r' are sorted, the permutation is the identity
  have key : r'.Sorted → r' = r := by
    intro hs'
    have hpw : perm.Pairwise (· < ·) := by
      rw [hr'] at hs'
      simp only [Msg.Sorted, Msg.tags, List.map_map, List.pairwise_map, Function.comp] at hs'
      refine hs'.imp_of_mem ?_
      intro i j hi hj hij
      have hi' := hin i hi
      have hj' := hin j hj
      simp only [List.getD_eq_getElem?_getD, List.getElem?_eq_getElem hi', List.getElem?_eq_getElem hj',
        Option.getD_some] at hij
      have hsr := hs
      simp only [Msg.Sorted, Msg.tags, List.pairwise_map] at hsr
      have hsr' := List.pairwise_iff_getElem.mp hsr
      apply Classical.byContradiction
      intro hn
      by_cases he : i = j
      · subst he; omega
      · have := hsr' j i hj' hi' (by omega)
        omega
    have hperm : perm = List.range r.fields.length :=
      List.Perm.eq_of_pairwise (le := (· < ·)) (by intro a b _ _ h1 h2; omega) hpw List.pairwise_lt_range hp
    rw [hr', hperm, map_getD_range]
  cases hd : Spec.decode (encode r') with
  | none => exact Or.inr rfl
  | some m' =>
    left
    obtain ⟨_, _, hc⟩ := spec_ok hd
    rcases hc with ⟨h0, _⟩ | ⟨_, hc⟩
    · -- zero fields
      rw [encode_eq, rd32_le32_append] at h0
      have hz : r.fields.length = 0 := by omega
      have h1 : r'.fields = [] := List.length_eq_zero_iff.mp (by omega)
      have h2 : r.fields = [] := List.length_eq_zero_iff.mp hz
      cases r; cases r'
      simp only at h1 h2
      rw [h1, h2]
    · obtain ⟨_, he, hsm, _⟩ := hc
      have hm18 : m'.fields.length ≤ 18 := by
        have := sorted_length_le hsm; rwa [tags_length] at this
      have ht := encode_tags_inj r' m' (by omega) (by omega) he
      apply key
      unfold Msg.Sorted
      rw [ht]; exact hsm
end Rough.Lemmas.Extra

import Rough.Spec.LoopSpec
import Rough.Lemmas.ServerSpec
import Rough.Lemmas.ServerAssembly
import Rough.Lemmas.Extra
import Rough.Lemmas.LoopBasic
import Rough.Lemmas.LoopEvents
/-
  Event-loop lemmas, part 3: the theorems behind Rough/Props/Loop.lean.
  `service_refines`, `plan_conserves`, `plan_bounded` are in LoopBasic.lean.
-/
namespace Rough.Lemmas.Loop
open Rough Rough.EventLoop Rough.LoopSpec Rough.ServerSpec Rough.Stats

/-! ### `process_events` through the state after `poll` -/

/-- the state after `poll` consumed the edges it reports -/
def lbSt0 (st : Loop) (c : CallIn) : Loop :=
  { st with sockEdge := st.sockEdge && !c.events.contains .message,
            hcEdge := st.hcEdge && !c.events.contains .healthCheck,
            timerDue := st.timerDue && !c.events.contains .statusUpdate }

theorem lb_process_eq (E : Env) (debug : Bool) (st : Loop) (c : CallIn) :
    processEvents E debug st c =
      (handleEvents E debug c.passes c.events (lbSt0 st c) false).bind fun (st1, o, serviced) =>
        if st1.backlog && !serviced then
          (serviceSocket E debug MAX_BATCHES_PER_CALL st1 c.passes).bind fun (st2, o') => .ok (st2, o.append o')
        else .ok (st1, o) := rfl

@[simp] theorem lb_st0_srv (st : Loop) (c : CallIn) : (lbSt0 st c).srv = st.srv := rfl
@[simp] theorem lb_st0_backlog (st : Loop) (c : CallIn) : (lbSt0 st c).backlog = st.backlog := rfl
@[simp] theorem lb_st0_sockQ (st : Loop) (c : CallIn) : (lbSt0 st c).sockQ = st.sockQ := rfl
@[simp] theorem lb_st0_hcListener (st : Loop) (c : CallIn) : (lbSt0 st c).hcListener = st.hcListener := rfl
@[simp] theorem lb_st0_hcQ (st : Loop) (c : CallIn) : (lbSt0 st c).hcQ = st.hcQ := rfl
@[simp] theorem lb_st0_recd (st : Loop) (c : CallIn) : (lbSt0 st c).recd = st.recd := rfl
@[simp] theorem lb_st0_published (st : Loop) (c : CallIn) : (lbSt0 st c).published = st.published := rfl

theorem lb_st0_edges (st : Loop) (c : CallIn) (he : EventsOK st c) :
    (lbSt0 st c).sockEdge = false ∧ (lbSt0 st c).hcEdge = false ∧ (lbSt0 st c).timerDue = false := by
  obtain ⟨_, h1, h2, h3⟩ := he
  refine ⟨?_, ?_, ?_⟩
  · show (st.sockEdge && !c.events.contains .message) = false
    cases h : st.sockEdge with
    | false => rfl
    | true => simp [h1.mpr h]
  · show (st.hcEdge && !c.events.contains .healthCheck) = false
    cases h : st.hcEdge with
    | false => rfl
    | true => simp [h2.mpr h]
  · show (st.timerDue && !c.events.contains .statusUpdate) = false
    cases h : st.timerDue with
    | false => rfl
    | true => simp [h3.mpr h]

/-! ### safety -/

theorem call_safe (E : Env) (hE : EnvOK E) (K : Keys) (hK : K.OK) (debug : Bool) (st : Loop)
    (hs : Inv E K st.srv) (hb : st.srv.batchSize ≤ 2 ^ 32) (c : CallIn) (hi : InsSafe c.passes)
    (hh : Token.healthCheck ∈ c.events → st.hcListener = true) :
    ∃ st' out, processEvents E debug st c = .ok (st', out) ∧ Inv E K st'.srv ∧
      st'.srv.batchSize = st.srv.batchSize ∧ st'.hcListener = st.hcListener := by
  have _ := hK
  obtain ⟨st1, o1, sv1, h1, h2, h3, h4⟩ :=
    lb_handle_safe E hE K debug c.passes hi c.events (lbSt0 st c) false hs hb hh
  simp only [lb_st0_srv, lb_st0_hcListener] at h3 h4
  rw [lb_process_eq, h1, lb_bind_ok]
  by_cases hc : (st1.backlog && !sv1) = true
  · simp only [hc, if_true]
    obtain ⟨st2, o2, g1, g2, g3, g4⟩ :=
      lb_service_safe E hE K debug MAX_BATCHES_PER_CALL st1 h2 (by omega) c.passes hi
    rw [g1]
    exact ⟨st2, _, rfl, g2, by omega, by rw [g4, h4]⟩
  · simp only [hc]
    exact ⟨st1, o1, rfl, h2, h3, h4⟩

theorem lb_env_frame (st : Loop) (e : EnvStep) :
    (envStep st e).srv = st.srv ∧ (envStep st e).hcListener = st.hcListener := by
  cases e with
  | arrive d => exact ⟨rfl, rfl⟩
  | connect a =>
    simp only [envStep]
    split <;> exact ⟨rfl, rfl⟩
  | fire => exact ⟨rfl, rfl⟩

theorem run_safe (E : Env) (hE : EnvOK E) (K : Keys) (hK : K.OK) (debug : Bool) (st : Loop)
    (hs : Inv E K st.srv) (hb : st.srv.batchSize ≤ 2 ^ 32) (steps : List Step)
    (hi : ∀ c, Step.call c ∈ steps → InsSafe c.passes ∧ (Token.healthCheck ∈ c.events → st.hcListener = true)) :
    ∃ st' outs, run E debug st steps = .ok (st', outs) ∧ Inv E K st'.srv := by
  induction steps generalizing st with
  | nil => exact ⟨st, [], rfl, hs⟩
  | cons s rest ih =>
    cases s with
    | env e =>
      obtain ⟨f1, f2⟩ := lb_env_frame st e
      simp only [run]
      apply ih (envStep st e) (by rw [f1]; exact hs) (by rw [f1]; exact hb)
      intro c hc
      rw [f2]
      exact hi c (by simp [hc])
    | call c =>
      obtain ⟨hc1, hc2⟩ := hi c (by simp)
      obtain ⟨st1, o1, h1, h2, h3, h4⟩ := call_safe E hE K hK debug st hs hb c hc1 hc2
      obtain ⟨st2, outs, g1, g2⟩ := ih st1 h2 (by omega) (by
        intro c' hc'
        rw [h4]
        exact hi c' (by simp [hc']))
      refine ⟨st2, o1 :: outs, ?_, g2⟩
      simp only [run, h1, lb_bind_ok, g1]

/-! ### the liveness invariant -/

theorem live_new (srv : Server) (hc pc : Bool) (limit : Nat) : Live (EventLoop.new srv hc pc limit) := by
  constructor
  · intro h; exact absurd rfl h
  · intro h; exact absurd rfl h
  · intro h; cases h

theorem live_env (st : Loop) (h : Live st) (e : EnvStep) : Live (envStep st e) := by
  obtain ⟨h1, h2, h3⟩ := h
  cases e with
  | arrive d => exact ⟨fun _ => Or.inl rfl, h2, h3⟩
  | connect a =>
    simp only [envStep]
    cases hl : st.hcListener with
    | false => simpa [hl] using (⟨h1, h2, h3⟩ : Live st)
    | true =>
      simp only [if_true]
      exact ⟨h1, fun _ => rfl, fun _ => rfl⟩
  | fire => exact ⟨h1, h2, h3⟩

/-- everything the liveness / health-check theorems need about a returned call -/
theorem lb_call_frame (E : Env) (debug : Bool) (st : Loop) (c : CallIn) (h : Live st) (he : EventsOK st c)
    (st' : Loop) (out : Out) (hr : processEvents E debug st c = .ok (st', out)) :
    st'.hcQ = [] ∧ out.hcAnswered = st.hcQ ∧ st'.hcEdge = false ∧ (st'.sockQ = [] ∨ st'.backlog = true) := by
  rw [lb_process_eq] at hr
  obtain ⟨⟨st1, o1, sv1⟩, h1, h2⟩ := lb_bind_inv hr
  have H := lb_handle_frame E debug c.passes c.events (lbSt0 st c) false st1 o1 sv1 h1
  obtain ⟨e1, e2, e3⟩ := lb_st0_edges st c he
  -- the health-check part
  have hq : st1.hcQ = [] ∧ o1.hcAnswered = st.hcQ := by
    by_cases hin : Token.healthCheck ∈ c.events
    · obtain ⟨a1, a2⟩ := H.hc hin
      exact ⟨a2, a1⟩
    · obtain ⟨a1, a2⟩ := H.notHc hin
      have hE0 : st.hcEdge ≠ true := fun e => hin (he.2.2.1.mpr e)
      have hQ : st.hcQ = [] := by
        cases hq : st.hcQ with
        | nil => rfl
        | cons x xs => exact absurd (h.hc (by rw [hq]; simp)) hE0
      simp only [lb_st0_hcQ] at a1
      exact ⟨by rw [a1, hQ], by rw [a2, hQ]⟩
  have hedge : st1.hcEdge = false := by rw [H.hcEdge, e2]
  -- the socket part without a second service
  have hsock : (st1.backlog && !sv1) ≠ true → (st1.sockQ = [] ∨ st1.backlog = true) := by
    intro hc
    by_cases hin : Token.message ∈ c.events
    · exact (H.msg hin).2
    · obtain ⟨a1, a2, _, a4, _, _⟩ := H.notMsg hin
      simp only [lb_st0_sockQ, lb_st0_backlog] at a1 a2
      subst a4
      have hbk : st1.backlog = false := by
        cases hb : st1.backlog with
        | false => rfl
        | true => simp [hb] at hc
      have hE0 : st.sockEdge ≠ true := fun e => hin (he.2.1.mpr e)
      left
      rw [a1]
      cases hq : st.sockQ with
      | nil => rfl
      | cons x xs =>
        rcases h.sock (by rw [hq]; simp) with h' | h'
        · exact absurd h' hE0
        · rw [← a2, hbk] at h'; cases h'
  by_cases hc : (st1.backlog && !sv1) = true
  · simp only [hc, if_true] at h2
    obtain ⟨⟨st2, o2⟩, g1, g2⟩ := lb_bind_inv h2
    obtain ⟨f1, f2, _, _, _, f6, _, f8⟩ := lb_service_frame E debug _ st1 c.passes st2 o2 g1
    cases g2
    refine ⟨by rw [f1, hq.1], ?_, by rw [f2, hedge], f8⟩
    simp only [Out.append, f6, List.append_nil, hq.2]
  · simp only [hc] at h2
    cases h2
    exact ⟨hq.1, hq.2, hedge, hsock hc⟩

theorem live_call (E : Env) (debug : Bool) (st : Loop) (c : CallIn) (h : Live st) (he : EventsOK st c)
    (st' : Loop) (out : Out) (hr : processEvents E debug st c = .ok (st', out)) : Live st' := by
  obtain ⟨h1, _, h3, h4⟩ := lb_call_frame E debug st c h he st' out hr
  refine ⟨?_, fun hne => absurd h1 hne, fun he' => by rw [h3] at he'; cases he'⟩
  intro hne
  rcases h4 with h4 | h4
  · exact absurd h4 hne
  · exact Or.inr h4

theorem hc_exactly_once (E : Env) (debug : Bool) (st : Loop) (c : CallIn) (hl : Live st) (he : EventsOK st c)
    (st' : Loop) (out : Out) (hr : processEvents E debug st c = .ok (st', out)) :
    out.hcAnswered = st.hcQ ∧ st'.hcQ = [] := by
  obtain ⟨h1, h2, _, _⟩ := lb_call_frame E debug st c hl he st' out hr
  exact ⟨h2, h1⟩

theorem recorder (E : Env) (debug : Bool) (st : Loop) (c : CallIn) (st' : Loop) (out : Out)
    (hr : processEvents E debug st c = .ok (st', out)) (hn : Token.statusUpdate ∉ c.events) :
    st'.recd = st.recd.recordAll out.events ∧ st'.published = st.published := by
  rw [lb_process_eq] at hr
  obtain ⟨⟨st1, o1, sv1⟩, h1, h2⟩ := lb_bind_inv hr
  have H := lb_handle_frame E debug c.passes c.events (lbSt0 st c) false st1 o1 sv1 h1
  obtain ⟨a1, a2⟩ := H.notStats hn
  simp only [lb_st0_recd, lb_st0_published] at a1 a2
  by_cases hc : (st1.backlog && !sv1) = true
  · simp only [hc, if_true] at h2
    obtain ⟨⟨st2, o2⟩, g1, g2⟩ := lb_bind_inv h2
    obtain ⟨_, _, _, _, f5, _, f7, _⟩ := lb_service_frame E debug _ st1 c.passes st2 o2 g1
    cases g2
    refine ⟨?_, by rw [f5, a2]⟩
    simp only [Out.append, lb_recordAll_append, f7, a1]
  · simp only [hc] at h2
    cases h2
    exact ⟨a1, a2⟩

/-! ### progress -/

theorem lb_expectedSent_nil (E : Env) (K : Keys) (s : Server) (p : Server.Pass) (h : p.chunk = []) :
    expectedSent E K s p = [] := by
  simp [expectedSent, h, accepted, expectedBatch]

theorem lb_flat_nil (E : Env) (K : Keys) (s : Server) (ps : List Server.Pass)
    (h : ps.flatMap (·.chunk) = []) : ps.flatMap (expectedSent E K s) = [] := by
  rw [List.flatMap_eq_nil_iff] at h ⊢
  intro p hp
  exact lb_expectedSent_nil E K s p (h p hp)

/-- `call_progress` with what `drains` needs about the backlog flag -/
theorem call_progress' (E : Env) (hE : EnvOK E) (K : Keys) (hK : K.OK) (debug : Bool) (st : Loop)
    (hs : Inv E K st.srv) (hb : st.srv.batchSize ≤ 2 ^ 32) (hl : Live st) (c : CallIn) (he : EventsOK st c)
    (hi : InsOK c.passes) (hq : Quiet c.passes) :
    ∃ st' out, processEvents E debug st c = .ok (st', out) ∧
      out.sent = (plan st.srv.batchSize 16 st.sockQ c.passes).passes.flatMap (expectedSent E K st.srv) ∧
      (plan st.srv.batchSize 16 st.sockQ c.passes).passes.flatMap (·.chunk) = st.sockQ.take (16 * st.srv.batchSize) ∧
      st'.sockQ = st.sockQ.drop (16 * st.srv.batchSize) ∧
      Inv E K st'.srv ∧ st'.srv.batchSize = st.srv.batchSize ∧ st'.srv.srv = st.srv.srv ∧
      (0 < st.srv.batchSize → st.sockQ.length < 16 * st.srv.batchSize → st'.backlog = false) := by
  have hhc : Token.healthCheck ∈ c.events → (lbSt0 st c).hcListener = true :=
    fun h => hl.hcReg (he.2.2.1.mp h)
  obtain ⟨st1, o1, sv1, h1, h2, h3, h4, _, h6⟩ :=
    lb_handle_spec E hE K hK debug c.passes hi c.events (lbSt0 st c) false hs hb he.1 hhc
  have H := lb_handle_frame E debug c.passes c.events (lbSt0 st c) false st1 o1 sv1 h1
  obtain ⟨P1, P2, P3, P4⟩ := plan_quiet st.srv.batchSize 16 st.sockQ c.passes hq
  simp only [lb_st0_srv, lb_st0_sockQ] at h3 h4 h6
  rw [lb_process_eq, h1, lb_bind_ok]
  by_cases hm : Token.message ∈ c.events
  · obtain ⟨svt, _⟩ := H.msg hm
    obtain ⟨a1, a2, a3, _⟩ := h6 hm
    subst svt
    simp only [Bool.not_true, Bool.and_false, Bool.false_eq_true, if_false]
    exact ⟨st1, o1, rfl, a1, P1, a2.trans P2, h2, h3, h4, fun hB hlen => a3.trans (P4 hB hlen)⟩
  · obtain ⟨b1, b2, _, b4, b5, b6⟩ := H.notMsg hm
    simp only [lb_st0_srv, lb_st0_sockQ, lb_st0_backlog] at b1 b2 b6
    subst b4
    cases hbk : st.backlog with
    | false =>
      have hE0 : st.sockEdge ≠ true := fun e => hm (he.2.1.mpr e)
      have hQ : st.sockQ = [] := by
        cases hq' : st.sockQ with
        | nil => rfl
        | cons x xs =>
          rcases hl.sock (by rw [hq']; simp) with h' | h'
          · exact absurd h' hE0
          · rw [hbk] at h'; cases h'
      have hc : (st1.backlog && !false) = false := by rw [b2, hbk]; rfl
      simp only [hc, Bool.false_eq_true, if_false]
      refine ⟨st1, o1, rfl, ?_, P1, ?_, h2, h3, h4, fun _ _ => by rw [b2, hbk]⟩
      · rw [b5]
        symm
        apply lb_flat_nil
        rw [P1, hQ]; simp
      · rw [b1, hQ]; simp
    | true =>
      have hc : (st1.backlog && !false) = true := by rw [b2, hbk]; rfl
      simp only [hc, if_true]
      obtain ⟨st2, o2, g1, g2, g3, g4, _, g6, g7, g8, _⟩ :=
        lb_service_spec E hE K hK debug MAX_BATCHES_PER_CALL st1 h2 (by omega) c.passes hi
      simp only [b6, b1] at g2 g3 g4 g7 g8
      rw [g1, lb_bind_ok]
      refine ⟨st2, _, rfl, ?_, P1, g3.trans P2, g6, g7, g8, fun hB hlen => g4.trans (P4 hB hlen)⟩
      simp only [Out.append, b5, List.nil_append]
      exact g2

theorem call_progress (E : Env) (hE : EnvOK E) (K : Keys) (hK : K.OK) (debug : Bool) (st : Loop)
    (hs : Inv E K st.srv) (hb : st.srv.batchSize ≤ 2 ^ 32) (hl : Live st) (c : CallIn) (he : EventsOK st c)
    (hi : InsOK c.passes) (hq : Quiet c.passes) :
    ∃ st' out, processEvents E debug st c = .ok (st', out) ∧
      out.sent = (plan st.srv.batchSize 16 st.sockQ c.passes).passes.flatMap (expectedSent E K st.srv) ∧
      (plan st.srv.batchSize 16 st.sockQ c.passes).passes.flatMap (·.chunk) = st.sockQ.take (16 * st.srv.batchSize) ∧
      st'.sockQ = st.sockQ.drop (16 * st.srv.batchSize) ∧
      Inv E K st'.srv ∧ st'.srv.batchSize = st.srv.batchSize ∧ st'.srv.srv = st.srv.srv := by
  obtain ⟨st', out, h1, h2, h3, h4, h5, h6, h7, _⟩ := call_progress' E hE K hK debug st hs hb hl c he hi hq
  exact ⟨st', out, h1, h2, h3, h4, h5, h6, h7⟩

/-! ### drain -/

theorem lb_pending_ok (st : Loop) (ins : Nat → PassIn) : EventsOK st ⟨pending st, ins⟩ := by
  cases h1 : st.sockEdge <;> cases h2 : st.hcEdge <;> cases h3 : st.timerDue <;>
    simp [EventsOK, pending, h1, h2, h3]

theorem lb_accepted_append (srv : Bytes) (ver : Version) (a b : List Datagram) :
    accepted srv ver (a ++ b) = accepted srv ver a ++ accepted srv ver b := by
  induction a with
  | nil => simp [accepted]
  | cons d ds ih =>
    simp only [List.cons_append, accepted]
    split
    · split
      · simp only [ih, List.cons_append]
      · exact ih
    · exact ih

theorem lb_expectedSent_length (E : Env) (K : Keys) (s : Server) (p : Server.Pass)
    (hc : p.chunk.length ≤ s.batchSize) :
    (expectedSent E K s p).length =
      (accepted s.srv .ietf p.chunk).length + (accepted s.srv .google p.chunk).length := by
  simp [expectedSent, expectedBatch, List.take_of_length_le hc]

theorem lb_count (E : Env) (K : Keys) (s : Server) (ps : List Server.Pass)
    (hc : ∀ p ∈ ps, p.chunk.length ≤ s.batchSize) :
    (ps.flatMap (expectedSent E K s)).length =
      (accepted s.srv .ietf (ps.flatMap (·.chunk))).length +
      (accepted s.srv .google (ps.flatMap (·.chunk))).length := by
  induction ps with
  | nil => simp [accepted]
  | cons p ps ih =>
    have h1 := lb_expectedSent_length E K s p (hc p (by simp))
    have h2 := ih (fun q hq => hc q (by simp [hq]))
    simp only [List.flatMap_cons, List.length_append, lb_accepted_append, h1, h2]
    omega

theorem lb_drains_aux (E : Env) (hE : EnvOK E) (K : Keys) (hK : K.OK) (debug : Bool) :
    ∀ (n : Nat) (st : Loop) (ins : Nat → Nat → PassIn), Inv E K st.srv → st.srv.batchSize ≤ 2 ^ 32 →
    0 < st.srv.batchSize → Live st → (∀ k, InsOK (ins k)) → (∀ k, Quiet (ins k)) →
    st.sockQ.length < n * (16 * st.srv.batchSize) →
    ∃ (st' : Loop) (outs : List Out) (passes : List Server.Pass),
      idleCalls E debug ins n st = .ok (st', outs) ∧ st'.sockQ = [] ∧ st'.backlog = false ∧
      passes.flatMap (·.chunk) = st.sockQ ∧ (∀ p ∈ passes, p.chunk.length ≤ st.srv.batchSize) ∧
      outs.flatMap (·.sent) = passes.flatMap (expectedSent E K st.srv) := by
  intro n
  induction n with
  | zero => intro st ins _ _ _ _ _ _ hn; simp at hn
  | succ n ih =>
    intro st ins hs hb hB hl hi hq hn
    have he := lb_pending_ok st (ins 0)
    obtain ⟨st1, o1, r1, r2, r3, r4, r5, r6, r7, r8⟩ :=
      call_progress' E hE K hK debug st hs hb hl ⟨pending st, ins 0⟩ he (hi 0) (hq 0)
    have hl1 := live_call E debug st ⟨pending st, ins 0⟩ hl he st1 o1 r1
    have hbd := (plan_bounded st.srv.batchSize 16 st.sockQ (ins 0)).2.1
    simp only at r2 r3
    rw [Nat.succ_mul n (16 * st.srv.batchSize)] at hn
    cases n with
    | zero =>
      simp only [Nat.zero_mul, Nat.zero_add] at hn
      refine ⟨st1, [o1], (plan st.srv.batchSize 16 st.sockQ (ins 0)).passes, ?_, ?_, r8 hB hn, ?_, hbd, ?_⟩
      · simp only [idleCalls, r1, lb_bind_ok]
      · rw [r4, List.drop_of_length_le (by omega)]
      · rw [r3, List.take_of_length_le (by omega)]
      · simp only [List.flatMap_cons, List.flatMap_nil, List.append_nil, r2]
    | succ m =>
      have hlen1 : st1.sockQ.length < (m + 1) * (16 * st1.srv.batchSize) := by
        rw [r4, r6, List.length_drop, Nat.succ_mul m (16 * st.srv.batchSize)]
        rw [Nat.succ_mul m (16 * st.srv.batchSize)] at hn
        omega
      obtain ⟨st2, outs, ps2, g1, g2, g3, g4, g5, g6⟩ :=
        ih st1 (fun k => ins (k + 1)) r5 (by omega) (by omega) hl1 (fun k => hi (k + 1)) (fun k => hq (k + 1)) hlen1
      rw [Lemmas.ServerSpec.ss_expectedSent_congr E K st.srv st1.srv r6 r7] at g6
      refine ⟨st2, o1 :: outs, (plan st.srv.batchSize 16 st.sockQ (ins 0)).passes ++ ps2, ?_, g2, g3, ?_, ?_, ?_⟩
      · rw [idleCalls, r1, lb_bind_ok]
        simp only [g1, lb_bind_ok]
      · rw [List.flatMap_append, r3, g4, r4, List.take_append_drop]
      · intro p hp
        rcases List.mem_append.mp hp with hp | hp
        · exact hbd p hp
        · rw [← r6]; exact g5 p hp
      · simp only [List.flatMap_cons, List.flatMap_append, r2, g6]

theorem drains (E : Env) (hE : EnvOK E) (K : Keys) (hK : K.OK) (debug : Bool) (st : Loop)
    (hs : Inv E K st.srv) (hb : st.srv.batchSize ≤ 2 ^ 32) (hB : 0 < st.srv.batchSize) (hl : Live st)
    (ins : Nat → Nat → PassIn) (hi : ∀ k, InsOK (ins k)) (hq : ∀ k, Quiet (ins k))
    (n : Nat) (hn : st.sockQ.length < n * (16 * st.srv.batchSize)) :
    ∃ (st' : Loop) (outs : List Out) (passes : List Server.Pass), idleCalls E debug ins n st = .ok (st', outs) ∧ st'.sockQ = [] ∧ st'.backlog = false ∧
      passes.flatMap (·.chunk) = st.sockQ ∧ (∀ p ∈ passes, p.chunk.length ≤ st.srv.batchSize) ∧
      outs.flatMap (·.sent) = passes.flatMap (expectedSent E K st.srv) ∧
      (outs.flatMap (·.sent)).length =
        (accepted st.srv.srv .ietf st.sockQ).length + (accepted st.srv.srv .google st.sockQ).length := by
  obtain ⟨st', outs, passes, h1, h2, h3, h4, h5, h6⟩ :=
    lb_drains_aux E hE K hK debug n st ins hs hb hB hl hi hq hn
  refine ⟨st', outs, passes, h1, h2, h3, h4, h5, h6, ?_⟩
  rw [h6, lb_count E K st.srv passes h5, h4]

/-! ### witnesses -/

theorem noflag_strands (E : Env) (hE : EnvOK E) (K : Keys) (hK : K.OK) (debug : Bool) (st : Loop)
    (hs : Inv E K st.srv) (hb : st.srv.batchSize ≤ 2 ^ 32) (M : Nat) (ins : Nat → PassIn) (hi : InsOK ins)
    (hq : Quiet ins) (hlen : M * st.srv.batchSize < st.sockQ.length) :
    ∃ st' out, serviceSocketNoFlag E debug M st ins = .ok (st', out) ∧ st'.sockQ ≠ [] ∧
      st'.backlog = st.backlog ∧ st'.sockEdge = st.sockEdge := by
  induction M generalizing st ins with
  | zero =>
    refine ⟨st, {}, rfl, ?_, rfl, rfl⟩
    intro h
    rw [h] at hlen
    simp at hlen
  | succ M ih =>
    have h0 : (ins 0).arrivals = [] := hq 0
    obtain ⟨s', hp, hs', hbs', _⟩ := Lemmas.ServerSpec.pass_spec E hE K hK debug st.srv hs hb
      (passOf st (ins 0)) (hi 0)
    rw [Nat.succ_mul M st.srv.batchSize] at hlen
    have hnd : ¬ ((passOf st (ins 0)).chunk.length < st.srv.batchSize) := by
      simp only [lb_passOf_eq, lb_mkPass_chunk, h0, List.append_nil, List.length_take]
      omega
    obtain ⟨st2, o2, g1, g2, g3, g4⟩ := ih
      { st with srv := s', sockQ := (st.sockQ ++ (ins 0).arrivals).drop st.srv.batchSize,
                sockEdge := st.sockEdge || !(ins 0).arrivals.isEmpty,
                recd := st.recd.recordAll (expectedEvents E K st.srv (passOf st (ins 0))) }
      hs' (by simp only; omega) (fun i => ins (i + 1)) (fun i => hi (i + 1)) (fun i => hq (i + 1))
      (by simp only [h0, List.append_nil, List.length_drop, hbs']; omega)
    have hrun : serviceSocketNoFlag E debug (M + 1) st ins =
        .ok (st2, Out.append { sent := expectedSent E K st.srv (passOf st (ins 0)),
                               events := expectedEvents E K st.srv (passOf st (ins 0)), batches := 1 } o2) := by
      rw [serviceSocketNoFlag]
      simp only [hp, lb_bind_ok, hnd, if_false, g1]
    refine ⟨st2, _, hrun, g2, g3, ?_⟩
    · rw [g4]
      simp only [h0, List.isEmpty_nil, Bool.not_true, Bool.or_false]

theorem lb_tokens_nil (l : List Token) (h1 : Token.message ∉ l) (h2 : Token.healthCheck ∉ l)
    (h3 : Token.statusUpdate ∉ l) : l = [] := by
  cases l with
  | nil => rfl
  | cons t ts =>
    cases t
    · exact absurd (by simp) h1
    · exact absurd (by simp) h2
    · exact absurd (by simp) h3

theorem stuck (E : Env) (debug : Bool) (st : Loop) (h1 : st.sockEdge = false) (h2 : st.backlog = false)
    (h3 : st.hcEdge = false) (h4 : st.timerDue = false) (c : CallIn) (he : EventsOK st c) :
    processEvents E debug st c = .ok (st, {}) := by
  obtain ⟨events, passes⟩ := c
  obtain ⟨_, e1, e2, e3⟩ := he
  simp only [h1, h3, h4, Bool.false_eq_true, iff_false] at e1 e2 e3
  have hnil : events = [] := lb_tokens_nil events e1 e2 e3
  subst hnil
  have h0 : lbSt0 st ⟨[], passes⟩ = st := by
    obtain ⟨srv, bl, sq, se, hl, hq, he, td, rc, pb⟩ := st
    simp only at h1 h3 h4
    subst h1 h3 h4
    rfl
  rw [lb_process_eq]
  simp only [h0, lb_handle_nil, lb_bind_ok, h2, Bool.false_and, Bool.false_eq_true, if_false]

theorem hc_once_strands (st : Loop) (hL : st.hcListener = true) (a b : Addr) (rest : List Addr)
    (hq : st.hcQ = a :: b :: rest) (he : st.hcEdge = false) :
    ∃ st' out, handleHealthCheckOnce st = .ok (st', out) ∧ out.hcAnswered = [a] ∧ st'.hcQ = b :: rest ∧
      st'.hcEdge = false := by
  unfold handleHealthCheckOnce
  simp only [hL, Bool.not_true, Bool.false_eq_true, if_false, hq]
  exact ⟨_, _, rfl, rfl, rfl, he⟩

end Rough.Lemmas.Loop

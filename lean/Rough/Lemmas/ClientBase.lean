import Rough.Model.Client
import Rough.Spec.ServerSpec
import Rough.Lemmas.Request
import Rough.Lemmas.SpecRT
import Rough.Lemmas.KeysBasic
/-
  Inversion / evaluation helpers for the client model (`Res.bind` chains, `field`,
  `fromBytesUnwrap`, `readU64/32`, `validateSig`, `receiveResponse`, the client's Merkle check).
-/
namespace Rough.Lemmas.Client
open Rough Rough.Spec Rough.Spec.RT Rough.Client Rough.Merkle Rough.ServerSpec Rough.Lemmas Rough.Lemmas.SpecRT

/-! ### `Res` inversion -/

theorem bind_ok {α β} {r : Res α} {f : α → Res β} {b : β} (h : r.bind f = .ok b) :
    ∃ a, r = .ok a ∧ f a = .ok b := by
  cases r with
  | ok a => exact ⟨a, rfl, h⟩
  | err => cases h
  | panic s => cases h

theorem field_ok {site : String} {m : Msg} {t : Tag} {v : Bytes} (h : field site m t = .ok v) :
    m.get t = some v := by
  unfold field at h
  cases hg : m.get t with
  | none => rw [hg] at h; cases h
  | some w => rw [hg] at h; cases h; rfl

theorem field_of_get {site : String} {m : Msg} {t : Tag} {v : Bytes} (h : m.get t = some v) :
    field site m t = .ok v := by
  unfold field; rw [h]; rfl

theorem fromBytesUnwrap_ok {site : String} {b : Bytes} {m : Msg} (h : fromBytesUnwrap site b = .ok m) :
    fromBytes b = .ok m := by
  unfold fromBytesUnwrap at h
  cases hf : fromBytes b with
  | ok m' => rw [hf] at h; cases h; rfl
  | err => rw [hf] at h; cases h
  | panic s => rw [hf] at h; cases h

theorem fromBytesUnwrap_of {site : String} {b : Bytes} {m : Msg} (h : fromBytes b = .ok m) :
    fromBytesUnwrap site b = .ok m := by
  unfold fromBytesUnwrap; rw [h]

/-- the model decoder's success, read as the reference decoder's -/
theorem decode_of_fromBytes {b : Bytes} {m : Msg} (hlen : b.length < 2 ^ 32) (h : fromBytes b = .ok m) :
    Spec.decode b = some m :=
  (ref_agree b m hlen).mp h

theorem fromBytes_of_decode {b : Bytes} {m : Msg} (hlen : b.length < 2 ^ 32) (h : Spec.decode b = some m) :
    fromBytes b = .ok m :=
  (ref_agree b m hlen).mpr h

theorem get_mem_fields {m : Msg} {t : Tag} {v : Bytes} (h : m.get t = some v) : (t, v) ∈ m.fields := by
  simp only [Msg.get, Option.map_eq_some_iff] at h
  obtain ⟨f, hf, rfl⟩ := h
  have hm := List.mem_of_find?_eq_some hf
  have ht := List.find?_some hf
  have : f.1 = t := by simpa using ht
  rw [← this]; exact hm

/-- **a value of a decoded message is shorter than the input** (reusable: nested decodes stay
    under any bound the outer datagram satisfies) -/
theorem get_length_le {b : Bytes} {m : Msg} {t : Tag} {v : Bytes} (h : fromBytes b = .ok m)
    (hg : m.get t = some v) : v.length + 4 ≤ b.length := by
  have h1 := field_le_msgBytes m _ (get_mem_fields hg)
  have h2 := msgBytes_decoded h
  simp only at h1
  omega

theorem readU64_ok {site : String} {b : Bytes} {n : Nat} (h : readU64 site b = .ok n) :
    8 ≤ b.length ∧ n = u64le b := by
  unfold readU64 at h
  by_cases hl : b.length < 8
  · rw [if_pos hl] at h; cases h
  · rw [if_neg hl] at h; cases h; exact ⟨by omega, rfl⟩

theorem readU32_ok {site : String} {b : Bytes} {n : Nat} (h : readU32 site b = .ok n) :
    4 ≤ b.length ∧ n = u32le b := by
  unfold readU32 at h
  by_cases hl : b.length < 4
  · rw [if_pos hl] at h; cases h
  · rw [if_neg hl] at h; cases h; exact ⟨by omega, rfl⟩

theorem readU64_of {site : String} {b : Bytes} (h : 8 ≤ b.length) : readU64 site b = .ok (u64le b) := by
  unfold readU64; rw [if_neg (by omega)]; rfl

theorem readU32_of {site : String} {b : Bytes} (h : 4 ≤ b.length) : readU32 site b = .ok (u32le b) := by
  unfold readU32; rw [if_neg (by omega)]; rfl

/-! ### `validate_sig` -/

theorem validateSig_ok {S : SigScheme} {pk sig data : Bytes} {r : Bool}
    (h : validateSig S pk sig data = .ok r) :
    pk.length = 32 ∧ S.pkValid pk = true ∧ sig.length = 64 ∧ r = S.verify pk data sig := by
  unfold validateSig Verifier.new at h
  by_cases h1 : pk.length ≠ 32
  · rw [if_pos h1] at h; cases h
  rw [if_neg h1] at h
  by_cases h2 : ¬ S.pkValid pk
  · rw [if_pos h2] at h; cases h
  rw [if_neg h2] at h
  simp only [Res.bind, Verifier.update, Verifier.verify, List.nil_append] at h
  by_cases h3 : sig.length ≠ 64
  · rw [if_pos h3] at h; cases h
  rw [if_neg h3] at h
  cases h
  exact ⟨by omega, by simpa using h2, by omega, rfl⟩

theorem validateSig_of (S : SigScheme) (pk sig data : Bytes) (h1 : pk.length = 32)
    (h2 : S.pkValid pk = true) (h3 : sig.length = 64) :
    validateSig S pk sig data = .ok (S.verify pk data sig) := by
  unfold validateSig Verifier.new
  rw [if_neg (by omega), if_neg (by simp [h2])]
  simp only [Res.bind, Verifier.update, Verifier.verify, List.nil_append]
  rw [if_neg (by omega)]

/-! ### context strings, Merkle configuration -/

theorem delePrefix_eq (ver : Version) : ver.delePrefix = deleCtx (protoOfVer ver) := by
  cases ver <;> rfl

theorem srepPrefix_eq (ver : Version) : ver.srepPrefix = srepCtx (protoOfVer ver) := by
  cases ver <;> rfl

theorem framing_eq_magic : framing = magic := rfl

/-- the Merkle leaf of a request: the nonce (classic) or the whole packet (draft-13) -/
def leafFor (p : Proto) (nonce request : Bytes) : Bytes :=
  match p with | .classic => nonce | .draft13 => request

/-- the `MerkleCfg` literal of the client -/
def clientCfg (H : Bytes → Bytes) (ver : Version) : MerkleCfg :=
  match ver with | .google => ⟨H, 64⟩ | .ietf => ⟨fun x => (H x).take 32, 32⟩

theorem clientCfg_eq (H : Bytes → Bytes) (ver : Version) : clientCfg H ver = mcfg H (protoOfVer ver) := by
  cases ver <;> rfl

/-- the node hash of the protocol is never longer than the node width (no assumption on `H`
    needed for draft-13: it truncates) -/
theorem climbChunks_ietf_le (H : Bytes → Bytes) (h : Bytes) (hh : h.length ≤ 32) :
    ∀ (ps : List Bytes) (i : Nat), (climbChunks (mcfg H .draft13) h i ps).length ≤ 32 := by
  intro ps
  induction ps generalizing h with
  | nil => intro i; simpa [climbChunks] using hh
  | cons p ps ih =>
    intro i
    simp only [climbChunks]
    apply ih
    split <;> simp [hashNodes, mcfg, RT.hash, List.length_take] <;> omega

/-- **`finalize` cannot alter the climbed value**: whenever the client's `root_from_paths`
    succeeds, its result is the plain climb over the PATH chunks — also for draft-13, where
    `finalize` slices `[0..32]` (that slice panics if the value is shorter than 32 and is the
    identity otherwise, because a draft-13 node is never longer than 32). No assumption on `H`. -/
theorem rootFromPaths_ok (H : Bytes → Bytes) (ver : Version) (index : Nat) (leaf paths hash : Bytes)
    (h : rootFromPaths (mcfg H (protoOfVer ver)) ver.isIetf index leaf paths = .ok hash) :
    paths.length % nodeWidth (protoOfVer ver) = 0 ∧
    climb H (protoOfVer ver) (RT.hash H (protoOfVer ver) ((0x00 : UInt8) :: leaf)) index
      (chunks (nodeWidth (protoOfVer ver)) paths) = hash := by
  unfold rootFromPaths at h
  have hN : (mcfg H (protoOfVer ver)).N = nodeWidth (protoOfVer ver) := rfl
  rw [hN] at h
  rw [if_neg (by have := nodeWidth_pos (protoOfVer ver); omega)] at h
  by_cases hm : paths.length % nodeWidth (protoOfVer ver) = 0
  · rw [if_neg (by simp [hm])] at h
    refine ⟨hm, ?_⟩
    rw [climb_eq_climbChunks]
    cases ver with
    | google =>
      simp only [finalize, Version.isIetf] at h
      cases h; rfl
    | ietf =>
      have hle := climbChunks_ietf_le H (hashLeaf (mcfg H .draft13) leaf)
        (by simp [hashLeaf, mcfg, RT.hash, List.length_take]; omega)
        (chunks (nodeWidth .draft13) paths) index
      simp only [protoOfVer] at h ⊢
      change climbChunks (mcfg H .draft13) (hashLeaf (mcfg H .draft13) leaf) index
        (chunks (nodeWidth .draft13) paths) = hash
      generalize climbChunks (mcfg H .draft13) (hashLeaf (mcfg H .draft13) leaf) index
        (chunks (nodeWidth .draft13) paths) = d at h hle ⊢
      simp only [finalize, Version.isIetf, if_true, slice] at h
      by_cases h32 : 0 ≤ 32 ∧ 32 ≤ d.length
      · rw [if_pos h32] at h
        cases h
        simp only [List.drop_zero, Nat.sub_zero]
        rw [List.take_of_length_le (by omega)]
      · rw [if_neg h32] at h; cases h
  · rw [if_pos hm] at h; cases h

/-! ### `receive_response` -/

/-- what the client parses: the datagram (classic) or the datagram minus its 12-byte frame header,
    exactly the `body` of `RT.authentic` -/
theorem receiveResponse_ok (ver : Version) (dg : Bytes) (hdg : dg.length ≤ 4096) (m : Msg)
    (h : receiveResponse ver dg = .ok m) :
    ∃ body, (match protoOfVer ver with
        | .classic => some dg
        | .draft13 => if dg.length ≥ 12 ∧ dg.take 8 = magic then some (dg.drop 12) else none) = some body ∧
      body.length ≤ 4096 ∧ fromBytes body = .ok m := by
  unfold receiveResponse at h
  have htake : dg.take 4096 = dg := List.take_of_length_le hdg
  simp only [htake] at h
  cases ver with
  | google =>
    exact ⟨dg, rfl, hdg, fromBytesUnwrap_ok h⟩
  | ietf =>
    simp only [protoOfVer] at h ⊢
    by_cases h1 : (dg ++ zeros (4096 - dg.length)).take 8 ≠ framing
    · rw [if_pos h1] at h; cases h
    rw [if_neg h1] at h
    by_cases h2 : rd32 ((dg ++ zeros (4096 - dg.length)).drop 8) > 4096 - 12
    · rw [if_pos h2] at h; cases h
    rw [if_neg h2] at h
    obtain ⟨body, hs, hb⟩ := bind_ok h
    unfold slice at hs
    by_cases h3 : 12 ≤ dg.length ∧ dg.length ≤ (dg ++ zeros (4096 - dg.length)).length
    · rw [if_pos h3] at hs
      cases hs
      have hbody : ((dg ++ zeros (4096 - dg.length)).drop 12).take (dg.length - 12) = dg.drop 12 := by
        rw [List.drop_append_of_le_length h3.1, List.take_append_of_le_length (by simp)]
        exact List.take_of_length_le (by simp)
      have h8 : (dg ++ zeros (4096 - dg.length)).take 8 = dg.take 8 :=
        List.take_append_of_le_length (by omega)
      rw [hbody] at hb
      rw [h8] at h1
      refine ⟨dg.drop 12, ?_, by simp; omega, fromBytesUnwrap_ok hb⟩
      rw [if_pos ⟨h3.1, by simpa [framing_eq_magic] using h1⟩]
    · rw [if_neg h3] at hs; cases hs

end Rough.Lemmas.Client

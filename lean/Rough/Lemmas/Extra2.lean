import Rough.Lemmas.Extra2Verify
import Rough.Lemmas.Extra2Config
import Rough.Lemmas.Client
/-
  Lemmas behind Props/Extra2 (namespace `Rough.Lemmas.Extra2`):
    `accepts_spec_valid`    — C03: the client accepts whatever the reference verifier accepts
    `no_cross_client`       — C09: a reply built for position i verifies only for the leaf at i
    `values_aligned`        — C05 (Extra2Config)
    `bad_seed_text_refused` — C16 (Extra2Config)
  `verify_ok_inv` (Extra2Verify) is the inversion of `RT.verifyResponse`.
-/
namespace Rough.Lemmas.Extra2
open Rough Rough.Spec Rough.Spec.RT Rough.Spec.MT Rough.Client Rough.Merkle Rough.ServerSpec Rough.Lemmas
open Rough.Lemmas.SpecRT Rough.Lemmas.Client

/-! ### forward evaluation of the client's stages -/

/-- the client's `root_from_paths` succeeds with `root` whenever the reference climb gives a `root`
    of node width over a PATH that is a multiple of the node width -/
theorem rootFromPaths_of (H : Bytes → Bytes) (ver : Version) (index : Nat) (leaf path root : Bytes)
    (hmod : path.length % nodeWidth (protoOfVer ver) = 0)
    (hlen : root.length = nodeWidth (protoOfVer ver))
    (hcl : climb H (protoOfVer ver) (RT.hash H (protoOfVer ver) ((0x00 : UInt8) :: leaf)) index
      (chunks (nodeWidth (protoOfVer ver)) path) = root) :
    rootFromPaths (mcfg H (protoOfVer ver)) ver.isIetf index leaf path = .ok root := by
  unfold rootFromPaths
  have hN : (mcfg H (protoOfVer ver)).N = nodeWidth (protoOfVer ver) := rfl
  rw [hN, if_neg (by have := nodeWidth_pos (protoOfVer ver); omega), if_neg (by simp [hmod])]
  rw [climb_eq_climbChunks] at hcl
  have hcl' : climbChunks (mcfg H (protoOfVer ver)) (hashLeaf (mcfg H (protoOfVer ver)) leaf) index
      (chunks (nodeWidth (protoOfVer ver)) path) = root := hcl
  rw [hcl']
  cases ver with
  | google => rfl
  | ietf =>
    have h32 : root.length = 32 := hlen
    simp only [finalize, Version.isIetf, if_true, slice]
    rw [if_pos ⟨Nat.zero_le _, by omega⟩]
    simp only [List.drop_zero, Nat.sub_zero]
    rw [List.take_of_length_le (by omega)]

/-- `receive_response` on any datagram that passes the reference frame check and fits the buffer:
    the client's looser check (`reported_len ≤ 4096 - 12`, read from the zero-padded buffer) passes,
    and it parses exactly the body the reference verifier parses -/
theorem receiveResponse_unframe (dg body : Bytes) (hdg : dg.length ≤ 4096) (hu : unframe dg = some body)
    (m : Msg) (hf : fromBytes body = .ok m) : receiveResponse .ietf dg = .ok m := by
  unfold unframe at hu
  by_cases h1 : dg.length < 12
  · rw [if_pos h1] at hu; cases hu
  rw [if_neg h1] at hu
  by_cases h2 : dg.take 8 ≠ magic
  · rw [if_pos h2] at hu; cases hu
  rw [if_neg h2] at hu
  by_cases h3 : u32le (dg.drop 8) ≠ dg.length - 12
  · rw [if_pos h3] at hu; cases hu
  rw [if_neg h3] at hu
  cases hu
  have h2' : dg.take 8 = magic := Classical.byContradiction h2
  have h3' : u32le (dg.drop 8) = dg.length - 12 := Classical.byContradiction h3
  unfold receiveResponse
  simp only [List.take_of_length_le hdg]
  have hzl : (zeros (4096 - dg.length)).length = 4096 - dg.length := by simp [zeros]
  generalize zeros (4096 - dg.length) = z at hzl
  have e8 : (dg ++ z).take 8 = framing := by
    rw [List.take_append_of_le_length (by omega), h2']; rfl
  have er : rd32 ((dg ++ z).drop 8) = dg.length - 12 := by
    rw [List.drop_append_of_le_length (by omega), rd32,
      List.take_append_of_le_length (by rw [List.length_drop]; omega)]
    exact h3'
  have es : slice (dg ++ z) 12 dg.length "client:receive_response:buf[12..buf_len]" = .ok (dg.drop 12) := by
    unfold slice
    rw [if_pos ⟨by omega, by simp⟩, List.drop_append_of_le_length (by omega),
      List.take_append_of_le_length (by simp)]
    exact congrArg Res.ok (List.take_of_length_le (by simp))
  rw [if_neg (by rw [e8]; simp), er, if_neg (by omega), es]
  exact fromBytesUnwrap_of hf

/-- the body of an accepted datagram is no longer than the datagram -/
theorem body_length_le (p : Proto) (dg body : Bytes)
    (hb : (match p with | .classic => some dg | .draft13 => unframe dg) = some body) :
    body.length ≤ dg.length := by
  cases p with
  | classic => cases hb; exact Nat.le_refl _
  | draft13 =>
    simp only [unframe] at hb
    split at hb
    · cases hb
    · split at hb
      · cases hb
      · split at hb
        · cases hb
        · cases hb; simp

/-- **C03_accepts_spec_valid** -/
theorem accepts_spec_valid (S : SigScheme) (hv : ∀ pk m s, S.verify pk m s = true → S.pkValid pk = true)
    (H : Bytes → Bytes) (ver : Version) (ltpk request nonce dg : Bytes) (hdg : dg.length ≤ 4096)
    (hlt : ltpk.length = 32) (midp radi : Nat)
    (hok : RT.verifyResponse S H (protoOfVer ver) ltpk request nonce dg = .ok (midp, radi))
    (pk? : Option Bytes) (hk : pk? = none ∨ pk? = some ltpk) :
    ∃ idx, Client.handleResponse S H ver pk? nonce request dg = .ok ⟨midp, radi, pk?.isSome, idx⟩ := by
  obtain ⟨body, m, cert, dele, srep, sig, path, srepB, certB, indxB, certSig, deleB, pubk, mint, maxt,
    radiB, midpB, root, st⟩ := verify_ok_inv S H (protoOfVer ver) ltpk request nonce dg _ hok
  have hbl : body.length ≤ 4096 := Nat.le_trans (body_length_le _ dg body st.hb) hdg
  -- the model decoder agrees with the reference decoder on every (nested) piece
  have fm : fromBytes body = .ok m := fromBytes_of_decode (by omega) st.hm
  have s3 := get_length_le fm st.h3
  have s4 := get_length_le fm st.h4
  have fc : fromBytes certB = .ok cert := fromBytes_of_decode (by omega) st.hc
  have s10 := get_length_le fc st.h10
  have fd : fromBytes deleB = .ok dele := fromBytes_of_decode (by omega) st.hd
  have fs : fromBytes srepB = .ok srep := fromBytes_of_decode (by omega) st.hs
  have hrecv : receiveResponse ver dg = .ok m := by
    cases ver with
    | google =>
      have hb := st.hb
      simp only [protoOfVer, Option.some.injEq] at hb
      subst hb
      exact receiveResponse_classic dg hdg m fm
    | ietf => exact receiveResponse_unframe dg body hdg st.hb m fm
  have hmerkle := rootFromPaths_of H ver (u32le indxB) (leafFor (protoOfVer ver) nonce request) path root
    st.h28 st.h25 st.h31
  have hkey : ∀ pk, pk? = some pk →
      validateSig S pk certSig (ver.delePrefix ++ deleB) = .ok true ∧
      validateSig S pubk sig (ver.srepPrefix ++ srepB) = .ok true := by
    intro pk hpk?
    have hpk' : pk = ltpk := by
      rcases hk with hk | hk
      · rw [hk] at hpk?; cases hpk?
      · rw [hk] at hpk?; cases hpk?; rfl
    subst hpk'
    constructor
    · rw [validateSig_of S pk certSig _ hlt (hv _ _ _ st.h18) st.h11, delePrefix_eq]
      exact congrArg Res.ok st.h18
    · rw [validateSig_of S pubk sig _ st.h15 (hv _ _ _ st.h19) st.h7, srepPrefix_eq]
      exact congrArg Res.ok st.h19
  have hparsed := handleParsed_ok S H ver pk? nonce request m cert dele srep sig path srepB certB indxB
    certSig deleB pubk mint maxt radiB midpB root st.h1 st.h2 st.h3 st.h4 st.h5 fc st.h9 st.h10 fd st.h12
    st.h13 st.h14 fs st.h20 st.h21 st.h22
    (by rw [st.h24]; omega) (by rw [st.h23]; omega) (by rw [st.h16]; omega) (by rw [st.h17]; omega)
    (by rw [st.h8]; omega) hmerkle st.h26 st.h27 hkey
  have hres := st.hres
  simp only [Prod.mk.injEq] at hres
  refine ⟨u32le indxB, ?_⟩
  unfold handleResponse
  rw [hrecv]
  simp only [Res.bind]
  rw [hparsed, hres.1, hres.2]

/-! ### C09 -/

/-- the frame check of `RT.verifyResponse` on the reference reply -/
theorem response_unframe {r : RParams} (h : r.OK) :
    (match r.p with | .classic => some r.response | .draft13 => unframe r.response) = some r.body := by
  cases hp : r.p with
  | classic => simp only [RParams.response, hp]
  | draft13 =>
    simp only [RParams.response, hp]
    exact unframe_frame r.body (RParams.body_lt h)

/-- **C09_no_cross_client** -/
theorem no_cross_client (S : SigScheme) (H : Bytes → Bytes) (hH : ∀ x, (H x).length = 64)
    (hsig : ∀ seed m, (S.sign seed m).length = 64) (hpk : ∀ seed, (S.pk seed).length = 32)
    (p : RT.Proto) (ltpk ltSeed onlSeed : Bytes) (midp radi : Nat)
    (leaves : List Bytes) (i : Nat) (hi : i < leaves.length) (hn : leaves.length ≤ 2 ^ 32)
    (nonceI : Bytes) (hni : nonceI.length % 4 = 0) (hnil : nonceI.length < 2 ^ 16)
    (otherRequest otherNonce : Bytes)
    (hother : (match p with | .classic => otherNonce | .draft13 => otherRequest) ≠ leaves[i])
    (res : Nat × Nat)
    (hacc : RT.verifyResponse S H p ltpk otherRequest otherNonce
      (RT.respond S H p ltSeed onlSeed midp radi 0 (2 ^ 64 - 1) leaves i nonceI) = .ok res) :
    MT.Broken (RT.mcfg H p) := by
  have hother' : leafFor p otherNonce otherRequest ≠ leaves[i] := hother
  let r : RParams := ⟨S, H, p, ltSeed, onlSeed, midp, radi, 0, 2 ^ 64 - 1, leaves, i, nonceI⟩
  have hok : r.OK := ⟨hH, hsig, hpk, hi, hn, hni, hnil⟩
  have he : RT.respond S H p ltSeed onlSeed midp radi 0 (2 ^ 64 - 1) leaves i nonceI = r.response :=
    r.respond_eq
  rw [he] at hacc
  obtain ⟨body, m, cert, dele, srep, sig, path, srepB, certB, indxB, certSig, deleB, pubk, mint, maxt,
    radiB, midpB, root, st⟩ := verify_ok_inv S H p ltpk otherRequest otherNonce r.response res hacc
  -- identify the pieces the verifier saw with the pieces of the reference reply
  have hbody : body = r.body := Option.some.inj (st.hb.symm.trans (response_unframe hok))
  subst hbody
  have hm : m = r.respMsg := by
    have := st.hm; rw [RParams.body_decode hok] at this; exact (Option.some.inj this).symm
  subst hm
  have hpath : path = r.path := (Option.some.inj st.h2).symm
  have hsrepB : srepB = r.srep := (Option.some.inj st.h3).symm
  have hindx : indxB = le32 i := (Option.some.inj st.h5).symm
  subst hpath hsrepB hindx
  have hsrep : srep = r.srepMsg := by
    have := st.hs; rw [RParams.srep_decode hok] at this; exact (Option.some.inj this).symm
  subst hsrep
  have hroot : root = r.root := by
    have := st.h22; rw [RParams.srep_gets.2.2] at this; exact (Option.some.inj this).symm
  subst hroot
  have hmod := st.h28
  have hclimb := st.h31
  rw [u32le_le32 i (RParams.i_lt hok)] at hclimb
  -- the verifier's check, as `root_from_paths` without finalisation
  have hl := mcfg_hashLen H hH p
  have hw : WidthOK (mcfg H p) false := ⟨nodeWidth_pos p, by simp⟩
  have hrf : rootFromPaths (mcfg H p) false i (leafFor p otherNonce otherRequest) r.path
      = .ok (T.hash (mcfg H p) (treeOf leaves)) := by
    unfold rootFromPaths
    have hN : (mcfg H p).N = nodeWidth p := rfl
    rw [hN, if_neg (by have := nodeWidth_pos p; omega), if_neg (by simpa using hmod)]
    rw [climb_eq_climbChunks] at hclimb
    simp only [finalize]
    exact congrArg Res.ok hclimb
  have hne : leaves ≠ [] := by intro e; rw [e] at hi; simp at hi
  rcases Lemmas.Merkle.binding (mcfg H p) false hl hw leaves hne i hi _ _ hrf with hb | ⟨hd, _⟩
  · exact hb
  · exact absurd hd hother'

end Rough.Lemmas.Extra2

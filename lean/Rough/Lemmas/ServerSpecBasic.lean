import Rough.Spec.ServerSpec
import Rough.Lemmas.Codec
import Rough.Lemmas.Merkle
/-
  Server-level lemmas, part 1: message building, key material (`new_inv`), request classification
  facts, and the list-level facts about `expectedBatch` / `accepted`.
  All helper names are prefixed `ss_`.
-/
namespace Rough.Lemmas.ServerSpec
open Rough Rough.Merkle Rough.Stats Rough.ServerSpec Rough.Spec
open Rough.Lemmas.Merkle (bind_ok bind_panic)

/-! ### buildMsg -/

theorem ss_addField_ok (pre : List (Tag × Bytes)) (t : Tag) (v : Bytes)
    (h : ∀ f ∈ pre, f.1.idx < t.idx) :
    (⟨pre⟩ : Msg).addField t v = some ⟨pre ++ [(t, v)]⟩ := by
  unfold Msg.addField
  cases hl : pre.getLast? with
  | none =>
    have : pre = [] := List.getLast?_eq_none_iff.mp hl
    subst this; simp
  | some x =>
    obtain ⟨lt, lv⟩ := x
    have hm : (lt, lv) ∈ pre := List.mem_of_getLast? hl
    have := h _ hm
    simp only at this ⊢
    rw [if_neg (by omega)]

theorem ss_buildMsg_aux (site : String) : ∀ (fields pre : List (Tag × Bytes)),
    ((pre ++ fields).map (·.1)).Pairwise (fun a b => a.idx < b.idx) →
    fields.foldl (fun (acc : Res Msg) f => acc.bind fun m => Res.unwrap site (m.addField f.1 f.2)) (.ok ⟨pre⟩)
      = .ok ⟨pre ++ fields⟩ := by
  intro fields
  induction fields with
  | nil => intro pre _; simp
  | cons f fs ih =>
    intro pre hp
    have hlt : ∀ g ∈ pre, g.1.idx < f.1.idx := by
      intro g hg
      rw [List.map_append, List.pairwise_append] at hp
      exact hp.2.2 g.1 (List.mem_map_of_mem hg) f.1 (by simp)
    rw [List.foldl_cons, bind_ok, ss_addField_ok pre f.1 f.2 hlt]
    have := ih (pre ++ [f]) (by simpa using hp)
    rw [List.append_assoc] at this
    exact this

/-- `buildMsg` succeeds on strictly increasing tags and returns exactly the fields -/
theorem ss_buildMsg_sorted (site : String) (fields : List (Tag × Bytes))
    (h : (fields.map (·.1)).Pairwise (fun a b => a.idx < b.idx)) :
    buildMsg site fields = .ok ⟨fields⟩ := by
  have := ss_buildMsg_aux site fields [] (by simpa using h)
  simpa [buildMsg, Msg.empty] using this

/-! ### constants shared by the model and the reference responder -/

theorem ss_zeros8 : zeros 8 = le64 0 := by decide
theorem ss_ff8 : List.replicate 8 (0xff : UInt8) = le64 (2 ^ 64 - 1) := by decide

theorem ss_mcfg (E : Env) (ver : Version) : E.mcfg ver = RT.mcfg E.H (protoOfVer ver) := by
  cases ver <;> rfl

theorem ss_delePrefix (ver : Version) : ver.delePrefix = RT.deleCtx (protoOfVer ver) := by
  cases ver <;> rfl

theorem ss_srepPrefix (ver : Version) : ver.srepPrefix = RT.srepCtx (protoOfVer ver) := by
  cases ver <;> rfl

theorem ss_supportedWire : Version.supportedWire = [0, 0, 0, 0] ++ RT.ver13 := by decide
theorem ss_ietf_wire : Version.ietf.wire = RT.ver13 := by decide
theorem ss_magic : RT.magic = framing := rfl

theorem ss_hashLen (E : Env) (hE : EnvOK E) (ver : Version) : HashLen (E.mcfg ver) := by
  intro x
  cases ver with
  | google => exact hE.hashLen _
  | ietf =>
    show ((E.H x).take 32).length = 32
    rw [List.length_take, hE.hashLen]; rfl

theorem ss_widthOK (E : Env) (ver : Version) : WidthOK (E.mcfg ver) ver.isIetf := by
  cases ver with
  | google => exact ⟨show (0 : Nat) < 64 by decide, by intro h; cases h⟩
  | ietf => exact ⟨show (0 : Nat) < 32 by decide, fun _ => rfl⟩

/-! ### key material -/

theorem ss_makeDele (S : SigScheme) (onl : Bytes) :
    makeDele S onl = .ok ⟨[(Tag.PUBK, S.pk onl), (Tag.MINT, le64 0), (Tag.MAXT, le64 (2 ^ 64 - 1))]⟩ := by
  unfold makeDele
  rw [ss_buildMsg_sorted _ _ (by simp [Tag.idx]), ss_zeros8, ss_ff8]

theorem ss_makeCert (E : Env) (K : Keys) (ver : Version) (srv : Bytes) :
    makeCert E.S ⟨⟨K.seed, []⟩, srv⟩ ver (onlOf K ver)
      = .ok (⟨[(Tag.SIG, E.S.sign K.seed (RT.deleCtx (protoOfVer ver) ++
                  encode ⟨[(Tag.PUBK, E.S.pk (onlOf K ver)), (Tag.MINT, le64 0), (Tag.MAXT, le64 (2 ^ 64 - 1))]⟩)),
               (Tag.DELE, encode ⟨[(Tag.PUBK, E.S.pk (onlOf K ver)), (Tag.MINT, le64 0), (Tag.MAXT, le64 (2 ^ 64 - 1))]⟩)]⟩,
             ⟨⟨K.seed, []⟩, srv⟩) := by
  unfold makeCert
  rw [ss_makeDele]
  simp only [bind_ok, Signer.update, Signer.sign, List.nil_append]
  rw [ss_buildMsg_sorted _ _ (by simp [Tag.idx]), ss_delePrefix]
  rfl

theorem ss_certOf (E : Env) (K : Keys) (ver : Version) :
    certOf E K ver = encode ⟨[(Tag.SIG, E.S.sign K.seed (RT.deleCtx (protoOfVer ver) ++
                  encode ⟨[(Tag.PUBK, E.S.pk (onlOf K ver)), (Tag.MINT, le64 0), (Tag.MAXT, le64 (2 ^ 64 - 1))]⟩)),
               (Tag.DELE, encode ⟨[(Tag.PUBK, E.S.pk (onlOf K ver)), (Tag.MINT, le64 0), (Tag.MAXT, le64 (2 ^ 64 - 1))]⟩)]⟩ :=
  rfl

theorem new_inv (E : Env) (hE : EnvOK E) (K : Keys) (hK : K.OK) (b : Nat) :
    ∃ s, Server.new E K.seed K.onlI K.onlC b = .ok s ∧ Inv E K s ∧ s.batchSize = b := by
  obtain ⟨h1, h2, h3⟩ := hK
  have hsl : calcSrv E.H (E.S.pk K.seed) = .ok ((E.H ((0xff : UInt8) :: E.S.pk K.seed)).take 32) := by
    unfold calcSrv slice
    rw [if_pos (by rw [hE.hashLen]; omega)]
    simp
  have hcI := ss_makeCert E K Version.ietf ((E.H ((0xff : UInt8) :: E.S.pk K.seed)).take 32)
  have hcC := ss_makeCert E K Version.google ((E.H ((0xff : UInt8) :: E.S.pk K.seed)).take 32)
  simp only [onlOf] at hcI hcC
  refine ⟨Server.mk b ((E.H ((0xff : UInt8) :: E.S.pk K.seed)).take 32) (E.S.pk K.seed)
        ⟨Version.ietf, ⟨K.onlI, []⟩, certOf E K Version.ietf, [], Merkle.new⟩
        ⟨Version.google, ⟨K.onlC, []⟩, certOf E K Version.google, [], Merkle.new⟩, ?_, ?_, rfl⟩
  · unfold Server.new LongTermKey.new
    simp only [Signer.fromSeed, h1, h2, h3, if_true, bind_ok, Signer.publicKey, hsl, hcI, hcC]
    rfl
  · constructor <;> first | rfl | (simp [Merkle.new])

/-! ### exactly once / protocol separation -/

theorem exactly_once (E : Env) (K : Keys) (ver : Version) (now : Nat × Nat) (reqs : List (Datagram × Bytes)) :
    (expectedBatch E K ver now reqs).length = reqs.length ∧
    ∀ i (h : i < reqs.length), ((expectedBatch E K ver now reqs)[i]?).map (·.dst) = some reqs[i].1.src := by
  refine ⟨by simp [expectedBatch], ?_⟩
  intro i h
  simp [expectedBatch, List.getElem?_mapIdx, List.getElem?_eq_getElem h]

/-- the i-th datagram of a batch: to the i-th request's source, the reference reply for index i -/
theorem ss_expectedBatch_getElem? (E : Env) (K : Keys) (ver : Version) (now : Nat × Nat)
    (reqs : List (Datagram × Bytes)) (i : Nat) (h : i < reqs.length) :
    (expectedBatch E K ver now reqs)[i]? = some ⟨reqs[i].1.src,
      RT.respond E.S E.H (protoOfVer ver) K.seed (onlOf K ver) (midpVal ver now) (radiOf ver) 0 (2 ^ 64 - 1)
        (reqs.map (leafOf ver)) i reqs[i].2⟩ := by
  simp [expectedBatch, List.getElem?_mapIdx, List.getElem?_eq_getElem h]

theorem ss_mem_expectedBatch (E : Env) (K : Keys) (ver : Version) (now : Nat × Nat)
    (reqs : List (Datagram × Bytes)) (x : Sent) (hx : x ∈ expectedBatch E K ver now reqs) :
    ∃ i, ∃ h : i < reqs.length, x = ⟨reqs[i].1.src,
      RT.respond E.S E.H (protoOfVer ver) K.seed (onlOf K ver) (midpVal ver now) (radiOf ver) 0 (2 ^ 64 - 1)
        (reqs.map (leafOf ver)) i reqs[i].2⟩ := by
  obtain ⟨i, hi, he⟩ := List.getElem_of_mem hx
  have hl : i < reqs.length := by simpa [expectedBatch] using hi
  refine ⟨i, hl, ?_⟩
  have := ss_expectedBatch_getElem? E K ver now reqs i hl
  rw [List.getElem?_eq_getElem hi, he] at this
  exact Option.some.inj this

theorem ss_accepted_mem (srv : Bytes) (ver : Version) : ∀ (chunk : List Datagram) (d : Datagram) (n : Bytes),
    (d, n) ∈ accepted srv ver chunk → d ∈ chunk ∧ nonceFromRequest d.bytes srv = .ok (n, ver) := by
  intro chunk
  induction chunk with
  | nil => intro d n h; simp [accepted] at h
  | cons x xs ih =>
    intro d n h
    unfold accepted at h
    split at h
    · rename_i n' v heq
      split at h
      · rename_i hv
        rcases List.mem_cons.mp h with h | h
        · cases h
          exact ⟨by simp, by rw [heq, hv]⟩
        · exact ⟨by simp [(ih d n h).1], (ih d n h).2⟩
      · exact ⟨by simp [(ih d n h).1], (ih d n h).2⟩
    · exact ⟨by simp [(ih d n h).1], (ih d n h).2⟩

theorem protocol_separation (srv : Bytes) (chunk : List Datagram) (d : Datagram) (n : Bytes) :
    ((d, n) ∈ accepted srv .ietf chunk → nonceFromRequest d.bytes srv = .ok (n, .ietf)) ∧
    ((d, n) ∈ accepted srv .google chunk → nonceFromRequest d.bytes srv = .ok (n, .google)) :=
  ⟨fun h => (ss_accepted_mem srv .ietf chunk d n h).2, fun h => (ss_accepted_mem srv .google chunk d n h).2⟩

theorem ss_accepted_length (srv : Bytes) (ver : Version) (chunk : List Datagram) :
    (accepted srv ver chunk).length ≤ chunk.length := by
  induction chunk with
  | nil => simp [accepted]
  | cons x xs ih =>
    unfold accepted
    simp only [List.length_cons]
    split
    · split
      · simp only [List.length_cons]; omega
      · omega
    · omega

/-! ### request parsing: never panics; an accepted nonce has the protocol's length -/

theorem ss_nonceFromClassic_no_panic (d : Bytes) (s : String) : nonceFromClassic d ≠ .panic s := by
  unfold nonceFromClassic
  apply bind_no_panic (fromBytes_no_panic d)
  intro m s
  split
  · split <;> simp
  · simp

theorem ss_nonceFromClassic_len {d n : Bytes} {v : Version} (h : nonceFromClassic d = .ok (n, v)) :
    n.length = 64 ∧ v = .google := by
  unfold nonceFromClassic at h
  cases hf : fromBytes d with
  | ok m =>
    rw [hf, bind_ok] at h
    split at h
    · split at h
      · cases h; rename_i hl; exact ⟨hl, rfl⟩
      · cases h
    · cases h
  | err => rw [hf] at h; cases h
  | panic t => rw [hf] at h; cases h

theorem ss_nonceFromRfc_no_panic (d srv : Bytes) (hd : 12 ≤ d.length) (s : String) :
    nonceFromRfc d srv ≠ .panic s := by
  unfold nonceFromRfc
  rw [slice_ok (by omega) (by omega), bind_ok]
  unfold csub
  rw [if_pos hd, bind_ok]
  split
  · simp
  · rw [slice_ok (by omega) (Nat.le_refl _), bind_ok]
    apply bind_no_panic (fromBytes_no_panic _)
    intro m s
    repeat' split
    all_goals simp

theorem ss_nonceFromRfc_len {d srv n : Bytes} {v : Version} (hd : 12 ≤ d.length)
    (h : nonceFromRfc d srv = .ok (n, v)) : n.length = 32 := by
  unfold nonceFromRfc at h
  rw [slice_ok (by omega) (by omega), bind_ok] at h
  unfold csub at h
  rw [if_pos hd, bind_ok] at h
  split at h
  · cases h
  · rw [slice_ok (by omega) (Nat.le_refl _), bind_ok] at h
    cases hf : fromBytes ((d.drop 12).take (d.length - 12)) with
    | ok m =>
      rw [hf, bind_ok] at h
      repeat' split at h
      all_goals first | (cases h; assumption) | cases h
    | err => rw [hf] at h; cases h
    | panic t => rw [hf] at h; cases h

theorem ss_nonceFromRequest_no_panic (d srv : Bytes) (s : String) : nonceFromRequest d srv ≠ .panic s := by
  unfold nonceFromRequest MIN_REQUEST_LENGTH MAX_REQUEST_LENGTH
  split
  · simp
  · split
    · simp
    · rw [slice_ok (by omega) (by omega), bind_ok]
      split
      · exact ss_nonceFromRfc_no_panic d srv (by omega) s
      · exact ss_nonceFromClassic_no_panic d s

theorem ss_nonce_len {d srv n : Bytes} {v : Version} (h : nonceFromRequest d srv = .ok (n, v)) :
    n.length = 64 ∨ n.length = 32 := by
  unfold nonceFromRequest MIN_REQUEST_LENGTH MAX_REQUEST_LENGTH at h
  split at h
  · cases h
  · split at h
    · cases h
    · rw [slice_ok (by omega) (by omega), bind_ok] at h
      split at h
      · exact Or.inr (ss_nonceFromRfc_len (by omega) h)
      · exact Or.inl (ss_nonceFromClassic_len h).1

theorem ss_accepted_nonce_len (srv : Bytes) (ver : Version) (chunk : List Datagram) :
    ∀ x ∈ accepted srv ver chunk, 4 ≤ x.2.length := by
  intro x hx
  obtain ⟨d, n⟩ := x
  have := ss_nonce_len (ss_accepted_mem srv ver chunk d n hx).2
  simp only; omega

/-! ### `expectedSent` / `expectedEvents` depend on the state only through `batchSize` and `srv` -/

theorem ss_expectedSent_congr (E : Env) (K : Keys) (s s' : Server) (hb : s'.batchSize = s.batchSize)
    (hsrv : s'.srv = s.srv) : expectedSent E K s' = expectedSent E K s := by
  funext p; simp only [expectedSent, hb, hsrv]

theorem ss_expectedEvents_congr (E : Env) (K : Keys) (s s' : Server) (hb : s'.batchSize = s.batchSize)
    (hsrv : s'.srv = s.srv) : expectedEvents E K s' = expectedEvents E K s := by
  funext p; simp only [expectedEvents, hb, hsrv]

/-! ### clock -/

theorem ss_midpVal_of {ver : Version} {now : Nat × Nat} {m : Nat} (hm : midpOf ver now.1 now.2 = .ok m) :
    midpVal ver now = m := by
  unfold midpVal; rw [hm]

theorem ss_classicMidp_ok (secs nanos : Nat) (h1 : nanos < 1000000000)
    (h2 : secs * 1000000 + 999999 < 2 ^ 64) :
    classicMidp secs nanos = .ok (secs * 1000000 + nanos / 1000) := by
  unfold classicMidp
  rw [if_neg (by omega), if_neg (by omega)]

theorem ss_midpOf_ok (ver : Version) (now : Nat × Nat) (h : clockOK now) :
    midpOf ver now.1 now.2 = .ok (midpVal ver now) := by
  obtain ⟨h1, h2⟩ := h
  cases ver with
  | ietf => rfl
  | google =>
    have hm : midpOf .google now.1 now.2 = .ok (now.1 * 1000000 + now.2 / 1000) :=
      ss_classicMidp_ok now.1 now.2 h1 h2
    rw [ss_midpVal_of hm]; exact hm

end Rough.Lemmas.ServerSpec

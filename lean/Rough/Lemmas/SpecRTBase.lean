import Rough.Spec.Roughtime
import Rough.Lemmas.Bytes
import Rough.Lemmas.Tag
import Rough.Lemmas.Codec
import Rough.Lemmas.Merkle
/-
  The reference verifier `RT.verifyResponse` accepts the reference responder `RT.respond`
  (C02 core), the exact length of the reference reply, and depth bounds.
-/
namespace Rough.Lemmas.SpecRT
open Rough Rough.Spec Rough.Spec.RT Rough.Spec.MT Rough.Merkle

/-! ### little-endian readers -/

theorem u32le_le32 (n : Nat) (h : n < 2 ^ 32) : u32le (le32 n) = n := by
  have : (le32 n).take 4 = le32 n := rfl
  rw [u32le, this, leVal_le32]; omega

theorem leVal_append (a b : Bytes) : leVal (a ++ b) = leVal a + 256 ^ a.length * leVal b := by
  induction a with
  | nil => simp
  | cons x xs ih =>
    simp only [List.cons_append, leVal_cons, ih, List.length_cons, Nat.pow_succ]
    rw [Nat.mul_add, Nat.mul_comm (256 ^ xs.length) 256, Nat.mul_assoc, Nat.add_assoc]

@[simp] theorem le64_length (n : Nat) : (le64 n).length = 8 := rfl

theorem u64le_le64 (n : Nat) (h : n < 2 ^ 64) : u64le (le64 n) = n := by
  have : (le64 n).take 8 = le32 (n % 4294967296) ++ le32 (n / 4294967296) := rfl
  rw [u64le, this, leVal_append, leVal_le32, leVal_le32, le32_length]
  omega

theorem leVal_le32_take (n : Nat) (h : n < 2 ^ 32) : leVal ((le32 n).take 4) = n := u32le_le32 n h
theorem leVal_le64_take (n : Nat) (h : n < 2 ^ 64) : leVal ((le64 n).take 8) = n := u64le_le64 n h
theorem rd64_le64 (n : Nat) (h : n < 2 ^ 64) : rd64 (le64 n) = n := u64le_le64 n h

/-! ### depth -/

theorem depth_le (n k : Nat) (h : n ≤ 2 ^ k) : depth n ≤ k := Lemmas.Merkle.depth_le_of_le_pow k n h

theorem depth_le_8 (n : Nat) (h : n ≤ 255) : depth n ≤ 8 := depth_le n 8 (by omega)
theorem depth_le_6 (n : Nat) (h : n ≤ 64) : depth n ≤ 6 := depth_le n 6 (by omega)
theorem depth_le_32 (n : Nat) (h : n ≤ 2 ^ 32) : depth n ≤ 32 := depth_le n 32 h

theorem le_two_pow_depth (n : Nat) : n ≤ 2 ^ depth n := Lemmas.Merkle.lt_two_pow_depth n n (Nat.le_refl n)

theorem lt_two_pow_depth_of_lt {i n : Nat} (h : i < n) : i < 2 ^ depth n :=
  Nat.lt_of_lt_of_le h (le_two_pow_depth n)

/-! ### the protocol Merkle configuration -/

theorem hash_length (H : Bytes → Bytes) (hH : ∀ x, (H x).length = 64) (p : Proto) (x : Bytes) :
    (RT.hash H p x).length = nodeWidth p := by
  cases p <;> simp [RT.hash, nodeWidth, hH]

theorem mcfg_hashLen (H : Bytes → Bytes) (hH : ∀ x, (H x).length = 64) (p : Proto) :
    HashLen (mcfg H p) := fun x => hash_length H hH p x

theorem nodeWidth_pos (p : Proto) : 0 < nodeWidth p := by cases p <;> decide

theorem climb_eq_climbChunks (H : Bytes → Bytes) (p : Proto) :
    ∀ (es : List Bytes) (h : Bytes) (i : Nat),
      RT.climb H p h i es = climbChunks (mcfg H p) h i es := by
  intro es
  induction es with
  | nil => intro h i; rfl
  | cons e es ih =>
    intro h i
    simp only [RT.climb, climbChunks, ih]
    rfl

/-! ### genuine paths -/

theorem pathOf_length (c : MerkleCfg) (leaves : List Bytes) (i : Nat) (hi : i < leaves.length) :
    (pathOf c leaves i).length = depth leaves.length := by
  have hd := Lemmas.Merkle.descend_treeOf leaves i hi
  unfold pathOf
  rw [List.length_reverse, Lemmas.Merkle.siblings_length c _ _ _ hd, List.length_reverse,
    Lemmas.Merkle.bitsOf_length]

theorem flatten_length_const (N : Nat) : ∀ (l : List Bytes), (∀ x ∈ l, x.length = N) →
    l.flatten.length = N * l.length := by
  intro l
  induction l with
  | nil => intro _; simp
  | cons x xs ih =>
    intro h
    rw [List.flatten_cons, List.length_append, h x (by simp), ih (fun y hy => h y (by simp [hy])),
      List.length_cons, Nat.mul_succ, Nat.add_comm]

theorem pathOf_flatten_length (c : MerkleCfg) (hl : HashLen c) (leaves : List Bytes) (i : Nat)
    (hi : i < leaves.length) :
    (pathOf c leaves i).flatten.length = c.N * depth leaves.length := by
  rw [flatten_length_const c.N _ (Lemmas.Merkle.pathOf_mem_length c hl leaves i),
    pathOf_length c leaves i hi]

theorem chunks_pathOf (c : MerkleCfg) (hl : HashLen c) (hN : 0 < c.N) (leaves : List Bytes) (i : Nat) :
    chunks c.N (pathOf c leaves i).flatten = pathOf c leaves i :=
  Lemmas.Merkle.chunks_flatten_of c.N hN _ (Lemmas.Merkle.pathOf_mem_length c hl leaves i)

theorem climbChunks_pathOf (c : MerkleCfg) (hl : HashLen c) (hN : 0 < c.N) (leaves : List Bytes) (i : Nat)
    (hi : i < leaves.length) :
    climbChunks c (hashLeaf c leaves[i]) i (pathOf c leaves i) = T.hash c (treeOf leaves) := by
  have h := Lemmas.Merkle.verify_genuine c false hl ⟨hN, by simp⟩ leaves i hi
  unfold rootFromPaths at h
  rw [if_neg (by omega),
    if_neg (by rw [Lemmas.Merkle.flatten_length_mod c.N _ (Lemmas.Merkle.pathOf_mem_length c hl leaves i)]; simp),
    chunks_pathOf c hl hN] at h
  simpa [finalize] using h

end Rough.Lemmas.SpecRT

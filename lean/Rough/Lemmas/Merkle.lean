import Rough.Lemmas.MerkleSpec
import Rough.Lemmas.MerkleModel
/-
  C04 lemmas: `complete`, `reuse`, `binding`, `other_index`, `empty_panics`.
  Spec-side facts live in MerkleSpec.lean, the level-vector refinement in MerkleModel.lean.
-/
namespace Rough.Lemmas.Merkle
open Rough Rough.Merkle Rough.Spec.MT

/-! ### byte-level helpers (local) -/

theorem finalize_id (c : MerkleCfg) (ietf : Bool) (hw : WidthOK c ietf) (d : Bytes)
    (hd : d.length = c.N) : finalize ietf d = .ok d := by
  unfold finalize
  cases ietf with
  | false => simp
  | true =>
    have hN : c.N = 32 := hw.2 rfl
    have : 32 ≤ d.length := by omega
    simp only [if_true, slice, Nat.zero_le, true_and, this, List.drop_zero, Nat.sub_zero]
    rw [List.take_of_length_le (by omega)]

theorem chunks_nil (k : Nat) : chunks k [] = [] := by
  rw [chunks]; simp

theorem chunks_cons (k : Nat) (b : Bytes) (hk : k ≠ 0) (hb : b ≠ []) :
    chunks k b = b.take k :: chunks k (b.drop k) := by
  rw [chunks]; simp [hk, hb]

theorem chunks_flatten_of (N : Nat) (hN : 0 < N) : ∀ (l : List Bytes), (∀ x ∈ l, x.length = N) →
    chunks N l.flatten = l := by
  intro l
  induction l with
  | nil => intro _; simp [chunks_nil]
  | cons x xs ih =>
    intro h
    have hx : x.length = N := h x (by simp)
    have hne : x ++ xs.flatten ≠ [] := by
      intro e
      have := congrArg List.length e
      simp only [List.length_append, List.length_nil] at this; omega
    rw [List.flatten_cons, chunks_cons N _ (by omega) hne, List.take_left' hx, List.drop_left' hx,
      ih (fun y hy => h y (by simp [hy]))]

theorem flatten_length_mod (N : Nat) : ∀ (l : List Bytes), (∀ x ∈ l, x.length = N) →
    l.flatten.length % N = 0 := by
  intro l
  induction l with
  | nil => intro _; simp
  | cons x xs ih =>
    intro h
    have hx : x.length = N := h x (by simp)
    have := ih (fun y hy => h y (by simp [hy]))
    rw [List.flatten_cons, List.length_append, hx, Nat.add_mod_left]; exact this

theorem chunks_spec (N : Nat) (hN : 0 < N) : ∀ (m : Nat) (p : Bytes), p.length ≤ m → p.length % N = 0 →
    (∀ x ∈ chunks N p, x.length = N) ∧ (chunks N p).flatten = p := by
  intro m
  induction m with
  | zero =>
    intro p hp _
    have : p = [] := List.eq_nil_of_length_eq_zero (by omega)
    subst this; simp [chunks_nil]
  | succ m ih =>
    intro p hp hmod
    by_cases hne : p = []
    · subst hne; simp [chunks_nil]
    · have hpos : 0 < p.length := List.length_pos_iff.mpr hne
      have hge : N ≤ p.length := by
        apply Nat.le_of_dvd hpos; exact Nat.dvd_of_mod_eq_zero hmod
      have hdl : (p.drop N).length = p.length - N := by simp
      have hmod' : (p.drop N).length % N = 0 := by
        rw [hdl]
        have : p.length = (p.length - N) + N := by omega
        rw [this, Nat.add_mod_right] at hmod; exact hmod
      obtain ⟨h1, h2⟩ := ih (p.drop N) (by omega) hmod'
      rw [chunks_cons N p (by omega) hne]
      refine ⟨?_, ?_⟩
      · intro x hx
        simp only [List.mem_cons] at hx
        rcases hx with rfl | hx
        · simp; omega
        · exact h1 x hx
      · rw [List.flatten_cons, h2, List.take_append_drop]

theorem climbChunks_length (c : MerkleCfg) (hl : HashLen c) : ∀ (ps : List Bytes) (h : Bytes) (i : Nat),
    h.length = c.N → (climbChunks c h i ps).length = c.N := by
  intro ps
  induction ps with
  | nil => intro h i hh; simpa [climbChunks] using hh
  | cons p ps ih =>
    intro h i _
    simp only [climbChunks]
    apply ih
    split <;> simp [hashNodes, hl _]

/-! ### the batch-level view of the spec objects -/

theorem map_hash_leaf (c : MerkleCfg) (leaves : List Bytes) :
    (leaves.map T.leaf).map (T.hash c) = leaves.map (hashLeaf c) := by
  simp [T.hash]

theorem pathOf_eq_pathL (c : MerkleCfg) (leaves : List Bytes) (i : Nat) (hi : i < leaves.length) :
    pathOf c leaves i = pathL c (depth leaves.length) (leaves.map (hashLeaf c)) i := by
  have hne : leaves.map T.leaf ≠ [] := by
    intro e; have := congrArg List.length e
    rw [List.length_map, List.length_nil] at this; omega
  have := siblings_build c (leaves.map T.leaf) hne i (by simpa using hi)
  rw [map_hash_leaf, List.length_map] at this
  exact this

theorem descend_treeOf (leaves : List Bytes) (i : Nat) (hi : i < leaves.length) :
    descend (treeOf leaves) (bitsOf i (depth leaves.length)).reverse = some (T.leaf leaves[i]) := by
  have hne : leaves.map T.leaf ≠ [] := by
    intro e; have := congrArg List.length e
    rw [List.length_map, List.length_nil] at this; omega
  have := descend_build (leaves.map T.leaf) hne i (by simpa using hi)
  simp only [List.length_map, List.getElem_map] at this
  exact this

theorem root_eq_lv (c : MerkleCfg) (leaves : List Bytes) (hne : leaves ≠ []) :
    lv c (depth leaves.length) (leaves.map (hashLeaf c)) = [T.hash c (treeOf leaves)] := by
  have hne' : leaves.map T.leaf ≠ [] := by simpa using hne
  have := hash_build c (leaves.map T.leaf) hne'
  rw [map_hash_leaf, List.length_map] at this
  exact this

theorem pathOf_mem_length (c : MerkleCfg) (hl : HashLen c) (leaves : List Bytes) (i : Nat) :
    ∀ x ∈ pathOf c leaves i, x.length = c.N := by
  intro x hx
  unfold pathOf at hx
  rw [List.mem_reverse] at hx
  exact siblings_mem_length c hl _ _ x hx

/-- the verifier accepts the genuine path -/
theorem verify_genuine (c : MerkleCfg) (ietf : Bool) (hl : HashLen c) (hw : WidthOK c ietf)
    (leaves : List Bytes) (i : Nat) (hi : i < leaves.length) :
    rootFromPaths c ietf i leaves[i] (pathOf c leaves i).flatten = .ok (T.hash c (treeOf leaves)) := by
  have hN : 0 < c.N := hw.1
  have hmem := pathOf_mem_length c hl leaves i
  have hd := descend_treeOf leaves i hi
  have hlen : (pathOf c leaves i).length = depth leaves.length := by
    unfold pathOf
    rw [List.length_reverse, siblings_length c _ _ _ hd, List.length_reverse, bitsOf_length]
  have hclimb := climb_descend c _ _ _ hd
  rw [List.reverse_reverse] at hclimb
  unfold rootFromPaths
  rw [if_neg (by omega), if_neg (by rw [flatten_length_mod c.N _ hmem]; simp),
    chunks_flatten_of c.N hN _ hmem, climbChunks_eq_climb, hlen]
  have : climb c (hashLeaf c leaves[i]) ((bitsOf i (depth leaves.length)).zip (pathOf c leaves i))
      = T.hash c (treeOf leaves) := hclimb
  rw [this]
  exact finalize_id c ietf hw _ (hash_length c hl _)

/-! ### computeRoot / getPaths on a prepared level vector -/

theorem emptyAbove_replicate (l0 : List Bytes) (k : Nat) :
    EmptyAbove (l0 :: List.replicate k []) 0 := by
  intro j hj l hl
  obtain ⟨j', rfl⟩ : ∃ j', j = j' + 1 := ⟨j - 1, by omega⟩
  rw [List.getElem?_cons_succ, List.getElem?_replicate] at hl
  split at hl
  · exact (Option.some.inj hl).symm
  · cases hl

theorem computeRoot_spec (c : MerkleCfg) (ietf : Bool) (hl : HashLen c) (hw : WidthOK c ietf)
    (leaves : List Bytes) (hne : leaves ≠ []) (k : Nat) :
    ∃ ls, computeRoot c ietf ⟨leaves.map (hashLeaf c) :: List.replicate k []⟩
        = .ok (⟨ls⟩, T.hash c (treeOf leaves)) ∧
      (∀ j, j < depth leaves.length →
        ls[j]? = some (padLevel c (lv c j (leaves.map (hashLeaf c))))) ∧
      ls[depth leaves.length]? = some [] := by
  have hlen : (leaves.map (hashLeaf c)).length = leaves.length := List.length_map _
  obtain ⟨ls', hrun, _, hmid, htop⟩ :=
    rootLoop_spec c (leaves.map (hashLeaf c)).length (leaves.map (hashLeaf c) :: List.replicate k []) 0
      (leaves.map (hashLeaf c)) (by simp) (emptyAbove_replicate _ k) (by omega)
  simp only [hlen, Nat.zero_add] at hrun hmid htop
  rw [root_eq_lv c leaves hne] at htop
  obtain ⟨hD, _⟩ := List.getElem?_eq_some_iff.mp htop
  refine ⟨ls'.set (depth leaves.length) [], ?_, ?_, ?_⟩
  · have hemp : (leaves.map (hashLeaf c)).isEmpty = false := by
      cases leaves with
      | nil => exact absurd rfl hne
      | cons a b => rfl
    simp only [computeRoot, idx, List.getElem?_cons_zero, bind_ok, hemp, Bool.false_eq_true, if_false,
      hlen, hrun, htop, List.length_singleton, ne_eq, not_true_eq_false, List.getLast?_singleton,
      finalize_id c ietf hw _ (hash_length c hl _), List.dropLast_singleton]
  · intro j hj
    rw [List.getElem?_set_ne (by omega)]
    simpa using hmid j hj
  · simp [hD]

theorem getPaths_spec (c : MerkleCfg) (leaves : List Bytes) (hsz : leaves.length ≤ 2 ^ 32)
    (ls : List (List Bytes))
    (hmid : ∀ j, j < depth leaves.length →
      ls[j]? = some (padLevel c (lv c j (leaves.map (hashLeaf c)))))
    (htop : ls[depth leaves.length]? = some []) (i : Nat) (hi : i < leaves.length) :
    getPaths ⟨ls⟩ i = .ok (pathOf c leaves i).flatten := by
  obtain ⟨hD, _⟩ := List.getElem?_eq_some_iff.mp htop
  have h32 : depth leaves.length ≤ 32 := depth_le_of_le_pow 32 _ hsz
  have := pathsLoop_spec c ls (depth leaves.length) (ls.length + 1) 0 i (leaves.map (hashLeaf c))
    (by intro j hj; rw [Nat.zero_add]; exact hmid j hj)
    (by rw [Nat.zero_add]; exact htop) (by omega) (by simpa using hi)
  simp only [getPaths, this, bind_ok, Nat.zero_add]
  rw [if_neg (by omega), pathOf_eq_pathL c leaves i hi]

/-! ### the five C04 lemmas -/

theorem complete (c : MerkleCfg) (ietf : Bool) (hl : HashLen c) (hw : WidthOK c ietf)
    (t : Tree) (ht : t.levels ≠ []) (leaves : List Bytes) (hne : leaves ≠ [])
    (hsz : leaves.length ≤ 2 ^ 32) :
    ∃ t' r, runBatch c ietf t leaves = .ok (t', r) ∧ t'.levels ≠ [] ∧
      r = T.hash c (treeOf leaves) ∧
      ∀ i (hi : i < leaves.length),
        getPaths t' i = .ok (pathOf c leaves i).flatten ∧
        rootFromPaths c ietf i leaves[i] (pathOf c leaves i).flatten = .ok r := by
  obtain ⟨ls, hrun, hmid, htop⟩ := computeRoot_spec c ietf hl hw leaves hne (t.levels.length - 1)
  refine ⟨⟨ls⟩, T.hash c (treeOf leaves), ?_, ?_, rfl, ?_⟩
  · simp only [runBatch, reset_pushAll c t ht leaves, bind_ok, hrun]
  · intro e
    simp only at e
    rw [e] at htop; simp at htop
  · intro i hi
    exact ⟨getPaths_spec c leaves hsz ls hmid htop i hi, verify_genuine c ietf hl hw leaves i hi⟩

theorem history_ok (c : MerkleCfg) (ietf : Bool) (hl : HashLen c) (hw : WidthOK c ietf) :
    ∀ (history : List (List Bytes)), (∀ b ∈ history, b ≠ [] ∧ b.length ≤ 2 ^ 32) →
    ∀ (t : Tree), t.levels ≠ [] →
    ∃ tOld, history.foldl
        (fun (rt : Res Tree) b => rt.bind fun t => (runBatch c ietf t b).bind fun x => .ok x.1)
        (.ok t) = .ok tOld ∧ tOld.levels ≠ [] := by
  intro history
  induction history with
  | nil => intro _ t ht; exact ⟨t, rfl, ht⟩
  | cons b bs ih =>
    intro hh t ht
    obtain ⟨hb1, hb2⟩ := hh b (by simp)
    obtain ⟨t', r, hrun, ht', _, _⟩ := complete c ietf hl hw t ht b hb1 hb2
    obtain ⟨tOld, hfold, hOld⟩ := ih (fun x hx => hh x (by simp [hx])) t' ht'
    refine ⟨tOld, ?_, hOld⟩
    simp only [List.foldl_cons, bind_ok, hrun]
    exact hfold

theorem reuse (c : MerkleCfg) (ietf : Bool) (hl : HashLen c) (hw : WidthOK c ietf)
    (history : List (List Bytes)) (hh : ∀ b ∈ history, b ≠ [] ∧ b.length ≤ 2 ^ 32)
    (leaves : List Bytes) (hne : leaves ≠ []) (hsz : leaves.length ≤ 2 ^ 32) :
    ∃ tOld tNew tFresh r,
      history.foldl (fun (rt : Res Tree) b => rt.bind fun t => (runBatch c ietf t b).bind fun x => .ok x.1)
        (.ok Merkle.new) = .ok tOld ∧
      runBatch c ietf tOld leaves = .ok (tNew, r) ∧
      runBatch c ietf Merkle.new leaves = .ok (tFresh, r) ∧
      ∀ i, i < leaves.length → getPaths tNew i = getPaths tFresh i := by
  obtain ⟨tOld, hfold, hOld⟩ := history_ok c ietf hl hw history hh Merkle.new (by simp [Merkle.new])
  obtain ⟨tNew, r, hrun, _, hr, hpaths⟩ := complete c ietf hl hw tOld hOld leaves hne hsz
  obtain ⟨tFresh, r', hrun', _, hr', hpaths'⟩ :=
    complete c ietf hl hw Merkle.new (by simp [Merkle.new]) leaves hne hsz
  refine ⟨tOld, tNew, tFresh, r, hfold, hrun, ?_, ?_⟩
  · rw [hr, ← hr']; exact hrun'
  · intro i hi
    rw [(hpaths i hi).1, (hpaths' i hi).1]

theorem binding (c : MerkleCfg) (ietf : Bool) (hl : HashLen c) (hw : WidthOK c ietf)
    (leaves : List Bytes) (hne : leaves ≠ []) (i' : Nat) (hi : i' < leaves.length)
    (d' p' : Bytes)
    (h : rootFromPaths c ietf i' d' p' = .ok (T.hash c (treeOf leaves))) :
    Broken c ∨ (d' = leaves[i'] ∧ p' = (pathOf c leaves i').flatten) := by
  have hN : 0 < c.N := hw.1
  unfold rootFromPaths at h
  rw [if_neg (by omega)] at h
  by_cases hmod : p'.length % c.N = 0
  · rw [if_neg (by simp [hmod])] at h
    obtain ⟨hchunk, hflat⟩ := chunks_spec c.N hN p'.length p' (Nat.le_refl _) hmod
    have hcl : (climbChunks c (hashLeaf c d') i' (chunks c.N p')).length = c.N :=
      climbChunks_length c hl _ _ _ (hl _)
    rw [finalize_id c ietf hw _ hcl] at h
    have h := Res.ok.inj h
    rw [climbChunks_eq_climb] at h
    -- top-first steps
    let steps := ((bitsOf i' (chunks c.N p').length).zip (chunks c.N p')).reverse
    have hlenb : (bitsOf i' (chunks c.N p').length).length = (chunks c.N p').length := bitsOf_length _ _
    have hfst : steps.map (·.1) = (bitsOf i' (chunks c.N p').length).reverse := by
      simp only [steps, List.map_reverse]
      rw [← List.unzip_fst, List.unzip_zip (by omega)]
    have hsnd : steps.map (·.2) = (chunks c.N p').reverse := by
      simp only [steps, List.map_reverse]
      rw [← List.unzip_snd, List.unzip_zip (by omega)]
    have hsteps : ∀ s ∈ steps, s.2.length = c.N := by
      intro s hs
      apply hchunk
      have : s.2 ∈ steps.map (·.2) := List.mem_map_of_mem hs
      rw [hsnd] at this
      exact List.mem_reverse.mp this
    have hcl2 : climb c (hashLeaf c d') steps.reverse = T.hash c (treeOf leaves) := by
      simp only [steps, List.reverse_reverse]; exact h
    rcases bind_T c hl (treeOf leaves) steps d' hsteps hcl2 with hb | ⟨hdesc, hsib⟩
    · exact Or.inl hb
    · right
      rw [hfst] at hdesc hsib
      rw [hsnd] at hsib
      -- the path has exactly `depth` elements
      have hshape : shape (0 + depth (leaves.map T.leaf).length) (build (leaves.map T.leaf)) :=
        shape_build (leaves.map T.leaf) (by simpa using hne) 0
          (by intro t ht; obtain ⟨d, _, rfl⟩ := List.mem_map.mp ht; simp [shape])
      rw [List.length_map, Nat.zero_add] at hshape
      have hk := shape_descend_leaf _ _ _ _ hshape hdesc
      rw [List.length_reverse, bitsOf_length] at hk
      rw [hk] at hdesc hsib
      rw [descend_treeOf leaves i' hi] at hdesc
      have hd : leaves[i'] = d' := by simpa using hdesc
      refine ⟨hd.symm, ?_⟩
      unfold pathOf
      rw [hsib, List.reverse_reverse, hflat]
  · rw [if_pos (by simpa using hmod)] at h
    cases h

theorem other_index (c : MerkleCfg) (ietf : Bool) (hl : HashLen c) (hw : WidthOK c ietf)
    (leaves : List Bytes) (hnd : leaves.Nodup) (i j : Nat) (hi : i < leaves.length)
    (hj : j < leaves.length) (hij : i ≠ j) (p' : Bytes)
    (h : rootFromPaths c ietf j leaves[i] p' = .ok (T.hash c (treeOf leaves))) :
    Broken c := by
  have hne : leaves ≠ [] := by intro e; rw [e] at hi; simp at hi
  rcases binding c ietf hl hw leaves hne j hj leaves[i] p' h with hb | ⟨he, _⟩
  · exact hb
  · exact absurd ((List.getElem_inj hnd).mp he) hij

theorem empty_panics (c : MerkleCfg) (ietf : Bool) :
    ∃ s, computeRoot c ietf Merkle.new = .panic s := ⟨_, rfl⟩

end Rough.Lemmas.Merkle

import Rough.Lemmas.ClientRespond
/-
  C03 completeness: the client accepts the reference responder's reply.
-/
namespace Rough.Lemmas.Client
open Rough Rough.Spec Rough.Spec.RT Rough.Spec.MT Rough.Client Rough.Merkle Rough.ServerSpec Rough.Lemmas
open Rough.Lemmas.SpecRT

/-- `handleParsed` evaluated on abstract stage results (forward direction) -/
theorem handleParsed_ok (S : SigScheme) (H : Bytes → Bytes) (ver : Version) (pk? : Option Bytes)
    (nonce request : Bytes) (m cert dele srep : Msg)
    (sig path srepB certB indxB certSig deleB pubk mint maxt radi midp root : Bytes)
    (h1 : m.get Tag.SIG = some sig) (h2 : m.get Tag.PATH = some path) (h3 : m.get Tag.SREP = some srepB)
    (h4 : m.get Tag.CERT = some certB) (h5 : m.get Tag.INDX = some indxB)
    (fc : fromBytes certB = .ok cert)
    (h9 : cert.get Tag.SIG = some certSig) (h10 : cert.get Tag.DELE = some deleB)
    (fd : fromBytes deleB = .ok dele)
    (h12 : dele.get Tag.PUBK = some pubk) (h13 : dele.get Tag.MINT = some mint)
    (h14 : dele.get Tag.MAXT = some maxt)
    (fs : fromBytes srepB = .ok srep)
    (h20 : srep.get Tag.RADI = some radi) (h21 : srep.get Tag.MIDP = some midp)
    (h22 : srep.get Tag.ROOT = some root)
    (l1 : 8 ≤ midp.length) (l2 : 4 ≤ radi.length) (l3 : 8 ≤ mint.length) (l4 : 8 ≤ maxt.length)
    (l5 : 4 ≤ indxB.length)
    (hmerkle : rootFromPaths (mcfg H (protoOfVer ver)) ver.isIetf (u32le indxB)
      (leafFor (protoOfVer ver) nonce request) path = .ok root)
    (h26 : u64le mint ≤ u64le midp) (h27 : u64le midp ≤ u64le maxt)
    (hkey : ∀ pk, pk? = some pk →
      validateSig S pk certSig (ver.delePrefix ++ deleB) = .ok true ∧
      validateSig S pubk sig (ver.srepPrefix ++ srepB) = .ok true) :
    handleParsed S H ver pk? nonce request m = .ok ⟨u64le midp, u32le radi, pk?.isSome, u32le indxB⟩ := by
  have hlo : ¬ u64le midp < u64le mint := by omega
  have hhi : ¬ u64le midp > u64le maxt := by omega
  cases ver with
  | google =>
    have hm' : rootFromPaths ⟨H, 64⟩ false (u32le indxB) nonce path = .ok root := hmerkle
    unfold handleParsed
    simp only [field_of_get h1, field_of_get h2, field_of_get h3, field_of_get h4, field_of_get h5,
      field_of_get h9, field_of_get h10, field_of_get h12, field_of_get h13, field_of_get h14,
      field_of_get h20, field_of_get h21, field_of_get h22,
      fromBytesUnwrap_of fc, fromBytesUnwrap_of fd, fromBytesUnwrap_of fs,
      readU64_of l1, readU32_of l2, readU64_of l3, readU64_of l4, readU32_of l5, Version.isIetf, hm', Res.bind,
      ne_eq, not_true_eq_false, if_false, hlo, hhi]
    cases pk? with
    | none => rfl
    | some pk =>
      obtain ⟨k1, k2⟩ := hkey pk rfl
      simp only [k1, k2, not_true_eq_false, if_false, Option.isSome]
  | ietf =>
    have hm' : rootFromPaths ⟨fun x => (H x).take 32, 32⟩ true (u32le indxB) request path = .ok root := hmerkle
    unfold handleParsed
    simp only [field_of_get h1, field_of_get h2, field_of_get h3, field_of_get h4, field_of_get h5,
      field_of_get h9, field_of_get h10, field_of_get h12, field_of_get h13, field_of_get h14,
      field_of_get h20, field_of_get h21, field_of_get h22,
      fromBytesUnwrap_of fc, fromBytesUnwrap_of fd, fromBytesUnwrap_of fs,
      readU64_of l1, readU32_of l2, readU64_of l3, readU64_of l4, readU32_of l5, Version.isIetf, hm', Res.bind,
      ne_eq, not_true_eq_false, if_false, hlo, hhi]
    cases pk? with
    | none => rfl
    | some pk =>
      obtain ⟨k1, k2⟩ := hkey pk rfl
      simp only [k1, k2, not_true_eq_false, if_false, Option.isSome]

/-! ### `receive_response` on a well-formed datagram -/

theorem receiveResponse_classic (b : Bytes) (hb : b.length ≤ 4096) (m : Msg) (hf : fromBytes b = .ok m) :
    receiveResponse .google b = .ok m := by
  unfold receiveResponse
  simp only [List.take_of_length_le hb]
  exact fromBytesUnwrap_of hf

theorem receiveResponse_framed (b : Bytes) (hb : b.length + 12 ≤ 4096) (m : Msg) (hf : fromBytes b = .ok m) :
    receiveResponse .ietf (magic ++ le32 b.length ++ b) = .ok m := by
  have hl : (magic ++ le32 b.length ++ b).length = 12 + b.length := by simp [magic]; omega
  have htake : (magic ++ le32 b.length ++ b).take 4096 = magic ++ le32 b.length ++ b :=
    List.take_of_length_le (by omega)
  unfold receiveResponse
  simp only [htake]
  generalize hz : zeros (4096 - (magic ++ le32 b.length ++ b).length) = z
  have e8 : (magic ++ le32 b.length ++ b ++ z).take 8 = framing := by
    rw [List.append_assoc, List.append_assoc]; exact List.take_left' rfl
  have ed8 : (magic ++ le32 b.length ++ b ++ z).drop 8 = le32 b.length ++ (b ++ z) := by
    rw [List.append_assoc, List.append_assoc]; exact List.drop_left' rfl
  have er : rd32 (le32 b.length ++ (b ++ z)) = b.length := by
    have : (le32 b.length ++ (b ++ z)).take 4 = le32 b.length := List.take_left' rfl
    rw [rd32, this, leVal_le32]; omega
  have es : slice (magic ++ le32 b.length ++ b ++ z) 12 (magic ++ le32 b.length ++ b).length
      "client:receive_response:buf[12..buf_len]" = .ok b := by
    unfold slice
    rw [if_pos ⟨by omega, by simp⟩]
    have : (magic ++ le32 b.length ++ b ++ z).drop 12 = b ++ z := by
      rw [List.append_assoc]; exact List.drop_left' rfl
    rw [this, hl]
    have : 12 + b.length - 12 = b.length := by omega
    rw [this, List.take_left' rfl]
  rw [if_neg (by rw [e8]; simp), ed8, er, if_neg (by omega), es]
  exact fromBytesUnwrap_of hf

/-- **C03_accept** -/
theorem accept (S : SigScheme) (hS : S.Correct) (hv : ∀ seed, S.pkValid (S.pk seed) = true)
    (H : Bytes → Bytes) (hH : ∀ x, (H x).length = 64)
    (hsig : ∀ seed m, (S.sign seed m).length = 64) (hpk : ∀ seed, (S.pk seed).length = 32)
    (ver : Version) (ltSeed onlSeed : Bytes) (hlt : ltSeed.length = 32) (hon : onlSeed.length = 32)
    (midp radi : Nat) (hm : midp < 2 ^ 64) (hr : radi < 2 ^ 32)
    (leaves : List Bytes) (i : Nat) (hi : i < leaves.length) (hn : leaves.length ≤ 2 ^ 32)
    (request nonce : Bytes) (hnl : nonce.length = ver.nonceLen)
    (hleaf : leaves[i] = (match ver with | .google => nonce | .ietf => request))
    (pk? : Option Bytes) (hk : pk? = none ∨ pk? = some (S.pk ltSeed)) :
    handleResponse S H ver pk? nonce request
      (RT.respond S H (protoOfVer ver) ltSeed onlSeed midp radi 0 (2 ^ 64 - 1) leaves i nonce)
      = .ok ⟨midp, radi, pk?.isSome, i⟩ := by
  have hleaf' : leaves[i] = leafFor (protoOfVer ver) nonce request := by
    rw [hleaf]; cases ver <;> rfl
  have hnl' : nonce.length ≤ 64 ∧ nonce.length % 4 = 0 := by
    cases ver <;> simp only [Version.nonceLen] at hnl <;> omega
  let r : RParams := ⟨S, H, protoOfVer ver, ltSeed, onlSeed, midp, radi, 0, 2 ^ 64 - 1, leaves, i, nonce⟩
  have hok : r.OK := ⟨hH, hsig, hpk, hi, hn, hnl'.2, by have := hnl'.1; show nonce.length < 2 ^ 16; omega⟩
  have he : RT.respond S H (protoOfVer ver) ltSeed onlSeed midp radi 0 (2 ^ 64 - 1) leaves i nonce
      = r.response := r.respond_eq
  have hbl : r.body.length ≤ 368 + 64 + 64 * 32 := by
    have h1 := RParams.body_length_le hok
    have h2 : r.nonce.length ≤ 64 := hnl'.1
    omega
  have hfb : fromBytes r.body = .ok r.respMsg :=
    fromBytes_of_decode (RParams.body_lt hok) (RParams.body_decode hok)
  have hrecv : receiveResponse ver r.response = .ok r.respMsg := by
    cases ver with
    | google => exact receiveResponse_classic r.body (by omega) _ hfb
    | ietf => exact receiveResponse_framed r.body (by omega) _ hfb
  have hcert : fromBytes r.cert = .ok r.certMsg :=
    fromBytes_of_decode (by rw [RParams.cert_length hok]; omega) (RParams.cert_decode hok)
  have hdele : fromBytes r.dele = .ok r.deleMsg :=
    fromBytes_of_decode (by rw [RParams.dele_length hok]; omega) (RParams.dele_decode hok)
  have hsrep : fromBytes r.srep = .ok r.srepMsg :=
    fromBytes_of_decode (by have := (RParams.srep_length_le hok).1; omega) (RParams.srep_decode hok)
  have hi32 := RParams.i_lt hok
  have hmerkle : rootFromPaths (mcfg H (protoOfVer ver)) ver.isIetf (u32le (le32 i))
      (leafFor (protoOfVer ver) nonce request) r.path = .ok r.root := by
    rw [u32le_le32 i hi32, ← hleaf']
    have hw : WidthOK (mcfg H (protoOfVer ver)) ver.isIetf := by
      cases ver
      · exact ⟨Nat.zero_lt_succ _, by simp [Version.isIetf]⟩
      · exact ⟨Nat.zero_lt_succ _, fun _ => rfl⟩
    exact Lemmas.Merkle.verify_genuine (mcfg H (protoOfVer ver)) ver.isIetf
      (mcfg_hashLen H hH (protoOfVer ver)) hw leaves i hi
  have hkey : ∀ pk, pk? = some pk →
      validateSig S pk r.certSig (ver.delePrefix ++ r.dele) = .ok true ∧
      validateSig S (S.pk onlSeed) r.sig (ver.srepPrefix ++ r.srep) = .ok true := by
    intro pk hpk?
    have hpk' : pk = S.pk ltSeed := by
      rcases hk with hk | hk
      · rw [hk] at hpk?; cases hpk?
      · rw [hk] at hpk?; cases hpk?; rfl
    subst hpk'
    constructor
    · rw [validateSig_of S (S.pk ltSeed) r.certSig _ (hpk _) (hv _) (hsig _ _), delePrefix_eq]
      exact congrArg Res.ok (hS ltSeed _ hlt)
    · rw [validateSig_of S (S.pk onlSeed) r.sig _ (hpk _) (hv _) (hsig _ _), srepPrefix_eq]
      exact congrArg Res.ok (hS onlSeed _ hon)
  have hparsed := handleParsed_ok S H ver pk? nonce request r.respMsg r.certMsg r.deleMsg r.srepMsg
    r.sig r.path r.srep r.cert (le32 i) r.certSig r.dele (S.pk onlSeed) (le64 0) (le64 (2 ^ 64 - 1))
    (le32 radi) (le64 midp) r.root rfl rfl rfl rfl rfl hcert rfl rfl hdele rfl rfl rfl hsrep
    RParams.srep_gets.1 RParams.srep_gets.2.1 RParams.srep_gets.2.2
    (by simp) (by simp) (by simp) (by simp) (by simp) hmerkle
    (by rw [u64le_le64 0 (by omega), u64le_le64 midp hm]; omega)
    (by rw [u64le_le64 midp hm, u64le_le64 _ (by omega)]; omega) hkey
  rw [he]
  unfold handleResponse
  rw [hrecv]
  simp only [Res.bind]
  rw [hparsed, u64le_le64 midp hm, u32le_le32 radi hr, u32le_le32 i hi32]

end Rough.Lemmas.Client

import Rough.Basic.Bytes
/-
  Byte-level facts: `leVal`, `le32`, `rd32`, list take/drop helpers, `ByteArray.toList`.
  Core-only.  Reused by every codec-level proof.
-/
namespace Rough.Lemmas
open Rough

/-! ### leVal -/

@[simp] theorem leVal_nil : leVal [] = 0 := rfl
@[simp] theorem leVal_cons (b : UInt8) (bs : Bytes) : leVal (b :: bs) = b.toNat + 256 * leVal bs := rfl

theorem leVal_lt (b : Bytes) : leVal b < 256 ^ b.length := by
  induction b with
  | nil => simp
  | cons x xs ih =>
    have := x.toNat_lt
    simp only [leVal_cons, List.length_cons, Nat.pow_succ]
    omega

theorem leVal_four (a b c d : UInt8) :
    leVal [a, b, c, d] = a.toNat + 256 * b.toNat + 65536 * c.toNat + 16777216 * d.toNat := by
  simp only [leVal_cons, leVal_nil]; omega

/-- every byte string of length ≥ 4 starts with four explicit bytes -/
theorem exists_four {b : Bytes} (h : 4 ≤ b.length) : ∃ x y z w r, b = x :: y :: z :: w :: r := by
  match b, h with
  | x :: y :: z :: w :: r, _ => exact ⟨x, y, z, w, r, rfl⟩

theorem eq_four {b : Bytes} (h : b.length = 4) : ∃ x y z w, b = [x, y, z, w] := by
  match b, h with
  | [x, y, z, w], _ => exact ⟨x, y, z, w, rfl⟩

/-! ### le32 / rd32 -/

@[simp] theorem le32_length (n : Nat) : (le32 n).length = 4 := rfl

theorem le32_bytes (a b c d : UInt8) :
    le32 (a.toNat + 256 * b.toNat + 65536 * c.toNat + 16777216 * d.toNat) = [a, b, c, d] := by
  have ha := a.toNat_lt; have hb := b.toNat_lt; have hc := c.toNat_lt; have hd := d.toNat_lt
  have h1 : (a.toNat + 256 * b.toNat + 65536 * c.toNat + 16777216 * d.toNat) % 256 = a.toNat := by omega
  have h2 : (a.toNat + 256 * b.toNat + 65536 * c.toNat + 16777216 * d.toNat) / 256 % 256 = b.toNat := by omega
  have h3 : (a.toNat + 256 * b.toNat + 65536 * c.toNat + 16777216 * d.toNat) / 65536 % 256 = c.toNat := by omega
  have h4 : (a.toNat + 256 * b.toNat + 65536 * c.toNat + 16777216 * d.toNat) / 16777216 % 256 = d.toNat := by omega
  simp only [le32, h1, h2, h3, h4, UInt8.ofNat_toNat]

@[simp] theorem le32_leVal_four (a b c d : UInt8) : le32 (leVal [a, b, c, d]) = [a, b, c, d] := by
  rw [leVal_four, le32_bytes]

theorem leVal_le32 (n : Nat) : leVal (le32 n) = n % 4294967296 := by
  simp only [le32, leVal_cons, leVal_nil, UInt8.toNat_ofNat']
  omega

@[simp] theorem rd32_le32_append (n : Nat) (r : Bytes) : rd32 (le32 n ++ r) = n % 4294967296 := by
  have : (le32 n ++ r).take 4 = le32 n := by simp [le32]
  rw [rd32, this, leVal_le32]

@[simp] theorem rd32_le32 (n : Nat) : rd32 (le32 n) = n % 4294967296 := by
  simpa using rd32_le32_append n []

theorem rd32_lt (b : Bytes) : rd32 b < 4294967296 := by
  have h := leVal_lt (b.take 4)
  have h4 : (b.take 4).length ≤ 4 := by simp [List.length_take]; omega
  have : 256 ^ (b.take 4).length ≤ 256 ^ 4 := Nat.pow_le_pow_right (by decide) h4
  unfold rd32; omega

theorem rd32_cons4 (x y z w : UInt8) (r : Bytes) :
    rd32 (x :: y :: z :: w :: r) = x.toNat + 256 * y.toNat + 65536 * z.toNat + 16777216 * w.toNat := by
  simp only [rd32, List.take_succ_cons, List.take_zero, leVal_four]

theorem le32_rd32 {b : Bytes} (h : 4 ≤ b.length) : le32 (rd32 b) ++ b.drop 4 = b := by
  obtain ⟨x, y, z, w, r, rfl⟩ := exists_four h
  rw [rd32_cons4, le32_bytes]; rfl

theorem le32_rd32_take {b : Bytes} (h : 4 ≤ b.length) : le32 (rd32 b) = b.take 4 := by
  obtain ⟨x, y, z, w, r, rfl⟩ := exists_four h
  rw [rd32_cons4, le32_bytes]; rfl

@[simp] theorem le32_mod (n : Nat) : le32 (n % 4294967296) = le32 n := by
  simp only [le32]
  have h1 : n % 4294967296 % 256 = n % 256 := by omega
  have h2 : n % 4294967296 / 256 % 256 = n / 256 % 256 := by omega
  have h3 : n % 4294967296 / 65536 % 256 = n / 65536 % 256 := by omega
  have h4 : n % 4294967296 / 16777216 % 256 = n / 16777216 % 256 := by omega
  rw [h1, h2, h3, h4]

theorem le32_inj {a b : Nat} (ha : a < 4294967296) (hb : b < 4294967296) (h : le32 a = le32 b) :
    a = b := by
  have := congrArg leVal h
  rw [leVal_le32, leVal_le32] at this
  omega

/-- injectivity of the 4-byte little-endian value -/
theorem four_inj {a b c d a' b' c' d' : UInt8}
    (h : a.toNat + 256 * b.toNat + 65536 * c.toNat + 16777216 * d.toNat
       = a'.toNat + 256 * b'.toNat + 65536 * c'.toNat + 16777216 * d'.toNat) :
    a = a' ∧ b = b' ∧ c = c' ∧ d = d' := by
  have := a.toNat_lt; have := b.toNat_lt; have := c.toNat_lt; have := d.toNat_lt
  have := a'.toNat_lt; have := b'.toNat_lt; have := c'.toNat_lt; have := d'.toNat_lt
  refine ⟨UInt8.toNat_inj.mp ?_, UInt8.toNat_inj.mp ?_, UInt8.toNat_inj.mp ?_, UInt8.toNat_inj.mp ?_⟩ <;> omega

/-! ### lists of fixed-width pieces -/

theorem length_flatMap_const {α β} (f : α → List β) (c : Nat) (hf : ∀ x, (f x).length = c)
    (l : List α) : (l.flatMap f).length = c * l.length := by
  induction l with
  | nil => simp
  | cons x xs ih => simp [List.flatMap_cons, hf, ih, Nat.mul_succ]; omega

@[simp] theorem length_flatMap_le32 (l : List Nat) : (l.flatMap le32).length = 4 * l.length :=
  length_flatMap_const le32 4 le32_length l

/-! ### ByteArray.toList (defined by a well-founded loop in core; no core lemma relates it to `data`) -/

theorem byteArray_toList_loop (bs : ByteArray) (i : Nat) (r : List UInt8) :
    ByteArray.toList.loop bs i r = r.reverse ++ bs.data.toList.drop i := by
  fun_induction ByteArray.toList.loop bs i r with
  | case1 i r h ih =>
    rw [ih]
    have h' : i < bs.data.toList.length := by simpa using h
    rw [List.drop_eq_getElem_cons h']
    have : bs.get! i = bs.data.toList[i] := by
      cases bs with | mk d =>
      simp only [ByteArray.get!]
      have h2 : i < d.size := by simpa using h'
      simp [getElem!_pos, h2]
    simp [this]
  | case2 i r h =>
    have h' : bs.data.toList.length ≤ i := by simpa using h
    simp [List.drop_eq_nil_of_le h']

theorem byteArray_toList (bs : ByteArray) : bs.toList = bs.data.toList := by
  simp [ByteArray.toList, byteArray_toList_loop]

/-- `strBytes` of a string given as a list of ASCII characters -/
theorem strBytes_ofList (l : List Char) :
    strBytes (String.ofList l) = l.flatMap String.utf8EncodeChar := by
  rw [strBytes, String.toUTF8, String.toByteArray_ofList, byteArray_toList, List.utf8Encode,
    List.toList_data_toByteArray]

end Rough.Lemmas

import Rough.Lemmas.ConfigDigits
/-
  C16 lemmas: the configuration loader model (Model/Config.lean) never silently replaces a written
  integer setting, refuses out-of-range / unknown / missing settings, and both sources agree.

  NOTE (statement correction): `sources_agree` as first stated in Props/C16 is false for
  `k = .numWorkers`, `n = 2^63` (file: `yamlInt` refuses anything ≥ 2^63, env: `parse::<u64>` accepts
  up to 2^64 - 1).  The lemma below carries the extra hypothesis `hNumWorkersGap`.
-/
namespace Rough.Lemmas.Config
open Rough Rough.Config

/-! ### one step, and the fold, uniformly over both sources -/

/-- one entry processed by the loader of `src` -/
def stepOne (src : Source) (c : Cfg) (kv : String × String) : Option Cfg :=
  match src with
  | .file => fileSet c kv.1 kv.2
  | .env => envSet c kv.1 (unquote kv.2)

def run (src : Source) (acc : Option Cfg) (entries : List (String × String)) : Option Cfg :=
  entries.foldl (fun acc kv => acc.bind fun c => stepOne src c kv) acc

theorem run_nil (src : Source) (acc : Option Cfg) : run src acc [] = acc := rfl

theorem run_cons (src : Source) (acc : Option Cfg) (kv : String × String) (l : List (String × String)) :
    run src acc (kv :: l) = run src (acc.bind fun c => stepOne src c kv) l := rfl

theorem run_none (src : Source) (l : List (String × String)) : run src none l = none := by
  induction l with
  | nil => rfl
  | cons kv l ih => rw [run_cons]; exact ih

theorem run_append (src : Source) (acc : Option Cfg) (l₁ l₂ : List (String × String)) :
    run src acc (l₁ ++ l₂) = run src (run src acc l₁) l₂ := by
  simp [run, List.foldl_append]

/-- an invariant of every successful step is an invariant of a successful load -/
theorem run_invariant (src : Source) (P : Cfg → Prop) (l : List (String × String))
    (hstep : ∀ kv ∈ l, ∀ c c', P c → stepOne src c kv = some c' → P c')
    (c₀ c : Cfg) (h₀ : P c₀) (h : run src (some c₀) l = some c) : P c := by
  induction l generalizing c₀ with
  | nil => simp [run_nil] at h; exact h ▸ h₀
  | cons kv l ih =>
    rw [run_cons, Option.bind_some] at h
    cases hs : stepOne src c₀ kv with
    | none => rw [hs, run_none] at h; cases h
    | some c₁ =>
      rw [hs] at h
      exact ih (fun kv' hkv' => hstep kv' (List.mem_cons_of_mem _ hkv')) c₁
        (hstep kv List.mem_cons_self c₀ c₁ h₀ hs) h

/-- a successful load passes through the step of each of its entries -/
theorem run_split (src : Source) (c₀ c : Cfg) (s t : List (String × String)) (a : String × String)
    (h : run src (some c₀) (s ++ a :: t) = some c) :
    ∃ c₁ c₂, stepOne src c₁ a = some c₂ ∧ run src (some c₂) t = some c := by
  rw [run_append, run_cons] at h
  cases h1 : run src (some c₀) s with
  | none => rw [h1, Option.bind_none, run_none] at h; cases h
  | some c₁ =>
    rw [h1, Option.bind_some] at h
    cases h2 : stepOne src c₁ a with
    | none => rw [h2, run_none] at h; cases h
    | some c₂ => rw [h2] at h; exact ⟨c₁, c₂, h2, h⟩

theorem start_some (fs : FsFacts) (d : Cfg) (src : Source) (entries : List (String × String)) (c : Cfg)
    (h : start fs d src entries = some c) :
    run src (some d) entries = some c ∧ isValid fs c = true ∧ (src = .file → entries ≠ []) := by
  unfold start at h
  cases src with
  | file =>
    simp only [loadFile] at h
    by_cases he : entries.isEmpty = true
    · simp [he] at h
    · rw [if_neg he] at h
      rw [Option.bind_eq_some_iff] at h
      obtain ⟨c', hl, hv⟩ := h
      by_cases hval : isValid fs c' = true
      · rw [if_pos hval] at hv; cases hv
        refine ⟨hl, hval, fun _ hnil => he (by simp [hnil])⟩
      · rw [if_neg hval] at hv; cases hv
  | env =>
    simp only [loadEnv] at h
    rw [Option.bind_eq_some_iff] at h
    obtain ⟨c', hl, hv⟩ := h
    by_cases hval : isValid fs c' = true
    · rw [if_pos hval] at hv; cases hv
      exact ⟨hl, hval, fun h => by cases h⟩
    · rw [if_neg hval] at hv; cases hv

/-! ### frame: a step for one key leaves every other field alone -/

theorem fileSet_frame (c c' : Cfg) (key val : String) (h : fileSet c key val = some c') :
    (key ≠ "port" → c'.port = c.port) ∧ (key ≠ "batch_size" → c'.batchSize = c.batchSize) ∧
    (key ≠ "fault_percentage" → c'.faultPct = c.faultPct) ∧ (key ≠ "num_workers" → c'.numWorkers = c.numWorkers) ∧
    (key ≠ "status_interval" → c'.statusInterval = c.statusInterval) ∧
    (key ≠ "health_check_port" → c'.hcPort = c.hcPort) ∧
    (key ≠ "interface" → c'.interface = c.interface) ∧ (key ≠ "seed" → c'.seed = c.seed) := by
  unfold fileSet at h
  split at h <;> simp only [Option.map_eq_some_iff, Option.some.injEq, reduceCtorEq] at h <;>
    first
    | (obtain ⟨_, _, rfl⟩ := h; simp)
    | (subst h; simp)
    | exact h.elim

theorem envSet_frame (c c' : Cfg) (key val : String) (h : envSet c key val = some c') :
    (key ≠ "port" → c'.port = c.port) ∧ (key ≠ "batch_size" → c'.batchSize = c.batchSize) ∧
    (key ≠ "fault_percentage" → c'.faultPct = c.faultPct) ∧ (key ≠ "num_workers" → c'.numWorkers = c.numWorkers) ∧
    (key ≠ "status_interval" → c'.statusInterval = c.statusInterval) ∧
    (key ≠ "health_check_port" → c'.hcPort = c.hcPort) ∧
    (key ≠ "interface" → c'.interface = c.interface) ∧ (key ≠ "seed" → c'.seed = c.seed) := by
  unfold envSet at h
  split at h <;> simp only [Option.map_eq_some_iff, Option.some.injEq] at h <;>
    first
    | (obtain ⟨_, _, rfl⟩ := h; simp)
    | (subst h; simp)
    | exact h.elim

theorem stepOne_frame (src : Source) (c c' : Cfg) (kv : String × String) (h : stepOne src c kv = some c') :
    (kv.1 ≠ "port" → c'.port = c.port) ∧ (kv.1 ≠ "batch_size" → c'.batchSize = c.batchSize) ∧
    (kv.1 ≠ "fault_percentage" → c'.faultPct = c.faultPct) ∧ (kv.1 ≠ "num_workers" → c'.numWorkers = c.numWorkers) ∧
    (kv.1 ≠ "status_interval" → c'.statusInterval = c.statusInterval) ∧
    (kv.1 ≠ "health_check_port" → c'.hcPort = c.hcPort) ∧
    (kv.1 ≠ "interface" → c'.interface = c.interface) ∧ (kv.1 ≠ "seed" → c'.seed = c.seed) := by
  cases src with
  | file => exact fileSet_frame c c' kv.1 kv.2 h
  | env => exact envSet_frame c c' kv.1 (unquote kv.2) h

theorem stepOne_get_other (src : Source) (c c' : Cfg) (kv : String × String) (k : IntKey)
    (h : stepOne src c kv = some c') (hne : kv.1 ≠ k.name) : c'.get k = c.get k := by
  obtain ⟨h1, h2, h3, h4, h5, h6, _, _⟩ := stepOne_frame src c c' kv h
  cases k <;> simp only [Cfg.get, IntKey.name] at hne ⊢
  · rw [h1 hne]
  · rw [h2 hne]
  · rw [h3 hne]
  · rw [h4 hne]
  · rw [h5 hne]
  · rw [h6 hne]

/-! ### the step for an integer key -/

/-- width of the integer type behind each key, per source -/
def bitsOf : Source → IntKey → Nat
  | _, .port => 16 | _, .batchSize => 8 | _, .faultPct => 8 | _, .numWorkers => 64
  | .file, .statusInterval => 64 | .env, .statusInterval => 16 | _, .hcPort => 16

def Cfg.setInt (c : Cfg) : IntKey → Nat → Cfg
  | .port, v => { c with port := v } | .batchSize, v => { c with batchSize := v }
  | .faultPct, v => { c with faultPct := v } | .numWorkers, v => { c with numWorkers := v }
  | .statusInterval, v => { c with statusInterval := v } | .hcPort, v => { c with hcPort := some v }

theorem get_setInt (c : Cfg) (k : IntKey) (v : Nat) : (Cfg.setInt c k v).get k = some v := by
  cases k <;> rfl

theorem fileSet_int (c : Cfg) (k : IntKey) (val : String) :
    fileSet c k.name val = ((yamlInt val).bind (narrow (bitsOf .file k))).map (Cfg.setInt c k) := by
  cases k <;> simp [fileSet, IntKey.name, bitsOf] <;> rfl

theorem envSet_int (c : Cfg) (k : IntKey) (val : String) :
    envSet c k.name val = (parseUnsigned (bitsOf .env k) val).map (Cfg.setInt c k) := by
  cases k <;> simp [envSet, IntKey.name, bitsOf] <;> rfl

/-- the step that reads the written value either refuses or installs exactly that value -/
theorem written_step (src : Source) (c₀ c₁ : Cfg) (k : IntKey) (v : Int)
    (h : stepOne src c₀ (k.name, showInt v) = some c₁) :
    0 ≤ v ∧ v < 2 ^ bitsOf src k ∧ c₁.get k = some v.toNat := by
  cases src with
  | file =>
    simp only [stepOne] at h
    rw [fileSet_int, yaml_narrow_showInt] at h
    by_cases hc : 0 ≤ v ∧ v < 2 ^ bitsOf .file k ∧ v < 2 ^ 63
    · rw [if_pos hc, Option.map_some] at h
      cases h
      exact ⟨hc.1, hc.2.1, get_setInt _ _ _⟩
    · rw [if_neg hc] at h; cases h
  | env =>
    simp only [stepOne] at h
    rw [unquote_showInt, envSet_int, parseUnsigned_showInt] at h
    by_cases hc : 0 ≤ v ∧ v < 2 ^ bitsOf .env k
    · rw [if_pos hc, Option.map_some] at h
      cases h
      exact ⟨hc.1, hc.2, get_setInt _ _ _⟩
    · rw [if_neg hc] at h; cases h

/-- strong form of `effective_is_written`, also recording the type-width bound -/
theorem effective_is_written_strong (fs : FsFacts) (d : Cfg) (src : Source) (entries : List (String × String))
    (hnd : (entries.map (·.1)).Nodup) (k : IntKey) (v : Int) (hmem : (k.name, showInt v) ∈ entries)
    (c : Cfg) (h : start fs d src entries = some c) :
    c.get k = some v.toNat ∧ 0 ≤ v ∧ v < 2 ^ bitsOf src k ∧ isValid fs c = true := by
  obtain ⟨hrun, hval, _⟩ := start_some fs d src entries c h
  obtain ⟨s, t, rfl⟩ := List.append_of_mem hmem
  obtain ⟨c₁, c₂, hstep, hrest⟩ := run_split src d c s t _ hrun
  obtain ⟨h0, hb, hget⟩ := written_step src c₁ c₂ k v hstep
  have hlater : ∀ kv ∈ t, kv.1 ≠ k.name := by
    intro kv hkv heq
    simp only [List.map_append, List.map_cons] at hnd
    have := (List.nodup_append.mp hnd).2.1
    have h2 := (List.nodup_cons.mp this).1
    exact h2 (heq ▸ List.mem_map_of_mem hkv)
  refine ⟨?_, h0, hb, hval⟩
  exact run_invariant src (fun c => c.get k = some v.toNat) t
    (fun kv hkv c c' hP hs => by
      show c'.get k = _
      rw [stepOne_get_other src c c' kv k hs (hlater kv hkv)]; exact hP)
    c₂ c hget hrest

theorem effective_is_written (fs : FsFacts) (d : Cfg) (src : Source) (entries : List (String × String))
    (hnd : (entries.map (·.1)).Nodup) (k : IntKey) (v : Int) (hmem : (k.name, showInt v) ∈ entries)
    (c : Cfg) (h : start fs d src entries = some c) :
    c.get k = some v.toNat ∧ 0 ≤ v :=
  let r := effective_is_written_strong fs d src entries hnd k v hmem c h
  ⟨r.1, r.2.1⟩

/-! ### validation -/

theorem isValid_facts (fs : FsFacts) (c : Cfg) (h : isValid fs c = true) :
    c.port ≠ 0 ∧ c.interface ≠ "" ∧ c.seed ≠ [] ∧ (c.kmsPlain = true → c.seed.length = 32) ∧
    1 ≤ c.batchSize ∧ c.batchSize ≤ 64 ∧ c.faultPct ≤ 50 ∧ c.numWorkers ≠ 0 := by
  simp only [isValid, decide_eq_true_eq] at h
  obtain ⟨h1, h2, h3, h4, ⟨h5, h6⟩, h7, h8, _⟩ := h
  refine ⟨h1, h2, h3, ?_, h5, h6, h7, h8⟩
  intro hk; rw [if_pos hk] at h4; exact h4

theorem effective_in_range (fs : FsFacts) (d : Cfg) (src : Source) (entries : List (String × String))
    (c : Cfg) (h : start fs d src entries = some c) :
    1 ≤ c.port ∧ 1 ≤ c.batchSize ∧ c.batchSize ≤ 64 ∧ c.faultPct ≤ 50 ∧ 1 ≤ c.numWorkers ∧
    c.interface ≠ "" ∧ (c.kmsPlain = true → c.seed.length = 32) := by
  obtain ⟨_, hval, _⟩ := start_some fs d src entries c h
  obtain ⟨h1, h2, _, h4, h5, h6, h7, h8⟩ := isValid_facts fs c hval
  exact ⟨by omega, h5, h6, h7, by omega, h2, h4⟩

theorem out_of_range_refused (fs : FsFacts) (d : Cfg) (src : Source) (entries : List (String × String))
    (hnd : (entries.map (·.1)).Nodup) (k : IntKey) (v : Int) (hmem : (k.name, showInt v) ∈ entries)
    (hout : ¬ k.documented v) :
    start fs d src entries = none := by
  cases h : start fs d src entries with
  | none => rfl
  | some c =>
    exfalso
    obtain ⟨hget, h0, hb, hval⟩ := effective_is_written_strong fs d src entries hnd k v hmem c h
    obtain ⟨h1, _, _, _, h5, h6, h7, h8⟩ := isValid_facts fs c hval
    apply hout
    cases k <;> simp only [Cfg.get, Option.some.injEq] at hget <;> simp only [IntKey.documented]
    · cases src <;> simp only [bitsOf] at hb <;> omega
    · omega
    · omega
    · omega
    · omega
    · cases src <;> simp only [bitsOf] at hb <;> omega

/-! ### unknown keys, missing required settings -/

theorem fileSet_unknown (c : Cfg) (key val : String) (hunk : key ∉ knownKeys) : fileSet c key val = none := by
  unfold fileSet
  split <;> first | rfl | (exfalso; apply hunk; simp [knownKeys])

theorem unknown_key_refused (fs : FsFacts) (d : Cfg) (entries : List (String × String))
    (key val : String) (hmem : (key, val) ∈ entries) (hunk : key ∉ knownKeys) :
    start fs d .file entries = none := by
  cases h : start fs d .file entries with
  | none => rfl
  | some c =>
    exfalso
    obtain ⟨hrun, _, _⟩ := start_some fs d .file entries c h
    obtain ⟨s, t, rfl⟩ := List.append_of_mem hmem
    obtain ⟨c₁, c₂, hstep, _⟩ := run_split .file d c s t _ hrun
    simp only [stepOne] at hstep
    rw [fileSet_unknown c₁ key val hunk] at hstep
    cases hstep

theorem missing_required (fs : FsFacts) (src : Source) (entries : List (String × String))
    (req : String) (hreq : req = "port" ∨ req = "interface" ∨ req = "seed")
    (hmiss : ∀ kv ∈ entries, kv.1 ≠ req) (numWorkers : Nat) :
    start fs { numWorkers := numWorkers } src entries = none := by
  cases h : start fs { numWorkers := numWorkers } src entries with
  | none => rfl
  | some c =>
    exfalso
    obtain ⟨hrun, hval, _⟩ := start_some fs _ src entries c h
    obtain ⟨h1, h2, h3, _⟩ := isValid_facts fs c hval
    rcases hreq with rfl | rfl | rfl
    · exact h1 (run_invariant src (fun c => c.port = 0) entries
        (fun kv hkv c c' hP hs => by
          show c'.port = 0
          rw [(stepOne_frame src c c' kv hs).1 (hmiss kv hkv)]; exact hP)
        _ c rfl hrun)
    · exact h2 (run_invariant src (fun c => c.interface = "") entries
        (fun kv hkv c c' hP hs => by
          show c'.interface = ""
          rw [(stepOne_frame src c c' kv hs).2.2.2.2.2.2.1 (hmiss kv hkv)]; exact hP)
        _ c rfl hrun)
    · exact h3 (run_invariant src (fun c => c.seed = []) entries
        (fun kv hkv c c' hP hs => by
          show c'.seed = []
          rw [(stepOne_frame src c c' kv hs).2.2.2.2.2.2.2 (hmiss kv hkv)]; exact hP)
        _ c rfl hrun)

/-! ### both sources agree -/

theorem showInt_ofNat (n : Nat) : showInt (n : Int) = showNat n := by
  rw [showInt_nonneg _ (by omega)]; simp

/-- CORRECTED statement: the extra hypothesis `hNumWorkersGap` excludes `num_workers` values in
    `[2^63, 2^64)`, which `parse::<u64>` (env) accepts and the YAML i64 scalar (file) refuses.
    Counterexample without it: `k = .numWorkers`, `n = 2^63`. -/
theorem sources_agree (c : Cfg) (k : IntKey) (n : Nat)
    (hn : n < 65536 ∨ k = .port ∨ k = .batchSize ∨ k = .faultPct ∨ k = .hcPort ∨ k = .numWorkers)
    (hNumWorkersGap : k = .numWorkers → n < 2 ^ 63 ∨ 2 ^ 64 ≤ n) :
    fileSet c k.name (showNat n) = envSet c k.name (showNat n) := by
  rw [fileSet_int, envSet_int, ← showInt_ofNat, yaml_narrow_showInt, parseUnsigned_showInt]
  congr 1
  have key : ((0 : Int) ≤ n ∧ (n : Int) < 2 ^ bitsOf .file k ∧ (n : Int) < 2 ^ 63) ↔
      ((0 : Int) ≤ n ∧ (n : Int) < 2 ^ bitsOf .env k) := by
    cases k <;> simp only [bitsOf, reduceCtorEq, or_false, or_true, forall_const,
      false_imp_iff] at hn hNumWorkersGap ⊢ <;> omega
  by_cases hc : (0 : Int) ≤ n ∧ (n : Int) < 2 ^ bitsOf .env k
  · rw [if_pos hc, if_pos (key.mpr hc)]
  · rw [if_neg hc, if_neg (fun h => hc (key.mp h))]

/-- the counterexample to the uncorrected `sources_agree`: `num_workers: 9223372036854775808` is
    refused by the file loader and accepted (as 2^63) by the environment loader -/
theorem sources_disagree_numWorkers (c : Cfg) :
    fileSet c IntKey.numWorkers.name (showNat (2 ^ 63)) = none ∧
    envSet c IntKey.numWorkers.name (showNat (2 ^ 63)) = some { c with numWorkers := 2 ^ 63 } := by
  rw [fileSet_int, envSet_int, ← showInt_ofNat, yaml_narrow_showInt, parseUnsigned_showInt]
  constructor
  · rw [if_neg (by simp only [bitsOf]; omega)]; rfl
  · rw [if_pos (by simp only [bitsOf]; omega)]; rfl

end Rough.Lemmas.Config

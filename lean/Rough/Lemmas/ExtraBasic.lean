import Rough.Lemmas.ClientSound
import Rough.Lemmas.Codec
import Rough.Lemmas.KeysBasic
import Rough.Model.Server
/-
  Lemmas behind Rough/Props/Extra.lean (further theorems for C01, C02, C05, C09, C17).
-/
namespace Rough.Lemmas.Extra
open Rough Rough.ServerSpec Rough.Spec Rough.Stats

/-! ### C01: whole client run -/

theorem runAll_cons_ok (S : SigScheme) (H : Bytes → Bytes) (ver : Version) (pubKey : Option Bytes)
    (nonce request dg : Bytes) (rest : List (Bytes × Bytes × Bytes)) (o : Client.Outcome)
    (h : Client.handleResponse S H ver pubKey nonce request dg = .ok o) :
    Client.runAll S H ver pubKey ((nonce, request, dg) :: rest) =
      (o :: (Client.runAll S H ver pubKey rest).1, (Client.runAll S H ver pubKey rest).2) := by
  simp only [Client.runAll, h]

theorem runAll_cons_fail (S : SigScheme) (H : Bytes → Bytes) (ver : Version) (pubKey : Option Bytes)
    (nonce request dg : Bytes) (rest : List (Bytes × Bytes × Bytes))
    (h : ∀ o, Client.handleResponse S H ver pubKey nonce request dg ≠ .ok o) :
    Client.runAll S H ver pubKey ((nonce, request, dg) :: rest) = ([], false) := by
  cases hh : Client.handleResponse S H ver pubKey nonce request dg with
  | ok o => exact absurd hh (h o)
  | err => simp only [Client.runAll, hh]
  | panic s => simp only [Client.runAll, hh]

theorem run_sound_aux (S : SigScheme) (H : Bytes → Bytes) (ver : Version) (pk : Bytes)
    (rs : List (Bytes × Bytes × Bytes)) (hlen : ∀ r ∈ rs, r.2.2.length ≤ 4096) :
    (Client.runAll S H ver (some pk) rs).1.length ≤ rs.length ∧
    (∀ j (hj : j < (Client.runAll S H ver (some pk) rs).1.length), ∃ (h : j < rs.length),
        (Client.runAll S H ver (some pk) rs).1[j].verified = true ∧
        RT.authentic S H (protoOfVer ver) pk rs[j].2.1 rs[j].1 rs[j].2.2 =
          some ((Client.runAll S H ver (some pk) rs).1[j].midpoint, (Client.runAll S H ver (some pk) rs).1[j].radius)) ∧
    ((Client.runAll S H ver (some pk) rs).2 = true → (Client.runAll S H ver (some pk) rs).1.length = rs.length) := by
  induction rs with
  | nil =>
    simp only [Client.runAll]
    refine ⟨Nat.le_refl _, ?_, fun _ => rfl⟩
    intro j hj
    exact absurd hj (by simp)
  | cons r rest ih =>
    obtain ⟨nonce, request, dg⟩ := r
    have hdg : dg.length ≤ 4096 := hlen (nonce, request, dg) (by simp)
    obtain ⟨h1, h2, h3⟩ := ih (fun r hr => hlen r (by simp [hr]))
    by_cases hh : ∃ o, Client.handleResponse S H ver (some pk) nonce request dg = .ok o
    · obtain ⟨o, hh⟩ := hh
      obtain ⟨hv, ha⟩ := Rough.Lemmas.Client.sound S H ver pk nonce request dg hdg o hh
      rw [runAll_cons_ok S H ver (some pk) nonce request dg rest o hh]
      generalize Client.runAll S H ver (some pk) rest = p at h1 h2 h3 ⊢
      obtain ⟨os, ok⟩ := p
      simp only at h1 h2 h3 ⊢
      refine ⟨by simp only [List.length_cons]; omega, ?_, ?_⟩
      · intro j hj
        cases j with
        | zero => exact ⟨by simp, hv, ha⟩
        | succ j =>
          simp only [List.length_cons] at hj
          obtain ⟨hj', hx⟩ := h2 j (by omega)
          exact ⟨by simp only [List.length_cons]; omega, by simpa using hx⟩
      · intro hok
        simp only [List.length_cons, h3 hok]
    · rw [runAll_cons_fail S H ver (some pk) nonce request dg rest (fun o ho => hh ⟨o, ho⟩)]
      refine ⟨by simp, ?_, by simp⟩
      intro j hj
      exact absurd hj (by simp)

theorem run_sound (S : SigScheme) (H : Bytes → Bytes) (ver : Version) (pk : Bytes)
    (rs : List (Bytes × Bytes × Bytes)) (hlen : ∀ r ∈ rs, r.2.2.length ≤ 4096) :
    let (outs, ok) := Client.runAll S H ver (some pk) rs
    outs.length ≤ rs.length ∧
    (∀ j (hj : j < outs.length), ∃ (h : j < rs.length),
        outs[j].verified = true ∧
        RT.authentic S H (protoOfVer ver) pk rs[j].2.1 rs[j].1 rs[j].2.2 = some (outs[j].midpoint, outs[j].radius)) ∧
    (ok = true → outs.length = rs.length) := by
  have aux := run_sound_aux S H ver pk rs hlen
  generalize Client.runAll S H ver (some pk) rs = p at aux
  obtain ⟨outs, ok⟩ := p
  exact aux

/-! ### C05: canonical re-encoding without a length bound -/

theorem encode_decode_unbounded (b : Bytes) (m : Msg) (h : fromBytes b = .ok m) (hne : m.fields ≠ []) :
    encode m = b := by
  have h0 : rd32 b ≠ 0 := by
    intro h0; have := fromBytes_ok_zero h h0; subst this; exact hne rfl
  exact (fromBytes_ok h h0).1.2.1.symm

/-! ### C09: pass lists compose -/

theorem run_append (E : Env) (debug : Bool) (s : Server) (ps qs : List Server.Pass) :
    Server.run E debug s (ps ++ qs) =
      (Server.run E debug s ps).bind fun (s', sent, ev) =>
        (Server.run E debug s' qs).bind fun (s'', sent', ev') => .ok (s'', sent ++ sent', ev ++ ev') := by
  induction ps generalizing s with
  | nil =>
    simp only [List.nil_append, Server.run, Res.bind]
    cases Server.run E debug s qs with
    | ok a => obtain ⟨s'', sent', ev'⟩ := a; simp
    | err => rfl
    | panic t => rfl
  | cons p ps ih =>
    simp only [List.cons_append, Server.run]
    cases hp : Server.pass E debug s p with
    | err => rfl
    | panic t => rfl
    | ok a =>
      obtain ⟨s1, sent1, ev1⟩ := a
      simp only [Res.bind]
      rw [ih s1]
      cases Server.run E debug s1 ps with
      | err => rfl
      | panic t => rfl
      | ok a2 =>
        obtain ⟨s2, sent2, ev2⟩ := a2
        simp only [Res.bind]
        cases Server.run E debug s2 qs with
        | err => rfl
        | panic t => rfl
        | ok a3 =>
          obtain ⟨s3, sent3, ev3⟩ := a3
          simp only [List.append_assoc]

/-! ### C02: signature corruption -/

theorem grease_corrupt_sig (resp : Msg) (sig nonce path srep cert indx rho : Bytes)
    (hr : resp = ⟨[(Tag.SIG, sig), (Tag.NONC, nonce), (Tag.PATH, path), (Tag.SREP, srep), (Tag.CERT, cert), (Tag.INDX, indx)]⟩) :
    applyGrease (.corruptSig rho) resp =
      .ok ⟨[(Tag.SIG, rho), (Tag.PATH, path), (Tag.SREP, srep), (Tag.CERT, cert), (Tag.INDX, indx)]⟩ := by
  subst hr
  have g1 : (Msg.mk [(Tag.SIG, sig), (Tag.NONC, nonce), (Tag.PATH, path), (Tag.SREP, srep), (Tag.CERT, cert),
      (Tag.INDX, indx)]).get Tag.SIG = some sig := by simp [Msg.get]
  have g2 : (Msg.mk [(Tag.SIG, sig), (Tag.NONC, nonce), (Tag.PATH, path), (Tag.SREP, srep), (Tag.CERT, cert),
      (Tag.INDX, indx)]).get Tag.PATH = some path := by simp [Msg.get]
  have g3 : (Msg.mk [(Tag.SIG, sig), (Tag.NONC, nonce), (Tag.PATH, path), (Tag.SREP, srep), (Tag.CERT, cert),
      (Tag.INDX, indx)]).get Tag.SREP = some srep := by simp [Msg.get]
  have g4 : (Msg.mk [(Tag.SIG, sig), (Tag.NONC, nonce), (Tag.PATH, path), (Tag.SREP, srep), (Tag.CERT, cert),
      (Tag.INDX, indx)]).get Tag.CERT = some cert := by simp [Msg.get]
  have g5 : (Msg.mk [(Tag.SIG, sig), (Tag.NONC, nonce), (Tag.PATH, path), (Tag.SREP, srep), (Tag.CERT, cert),
      (Tag.INDX, indx)]).get Tag.INDX = some indx := by simp [Msg.get]
  simp only [applyGrease, g1, g2, g3, g4, g5, Option.isNone_some, Bool.false_eq_true, if_false, Res.unwrap,
    Res.bind]
  exact Rough.Lemmas.Keys.buildMsg_sorted _ _ (by tags_sorted)

end Rough.Lemmas.Extra

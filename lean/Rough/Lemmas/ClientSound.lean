import Rough.Lemmas.ClientBase
/-
  C01 soundness: whatever the client accepts with a pinned key is `RT.authentic`.
-/
namespace Rough.Lemmas.Client
open Rough Rough.Spec Rough.Spec.RT Rough.Client Rough.Merkle Rough.ServerSpec Rough.Lemmas Rough.Lemmas.SpecRT

/-- `RT.authentic` evaluated on abstract stage results (the analogue of `verify_classic_ok`) -/
theorem authentic_ok (S : SigScheme) (H : Bytes → Bytes) (p : Proto) (ltpk request nonce response : Bytes)
    (body : Bytes) (m cert dele srep : Msg)
    (sig path srepB certB indxB certSig deleB pubk mint maxt radi midp root : Bytes)
    (hb : (match p with
        | .classic => some response
        | .draft13 => if response.length ≥ 12 ∧ response.take 8 = magic then some (response.drop 12) else none)
        = some body)
    (hm : decode body = some m)
    (h1 : m.get Tag.SIG = some sig) (h2 : m.get Tag.PATH = some path) (h3 : m.get Tag.SREP = some srepB)
    (h4 : m.get Tag.CERT = some certB) (h5 : m.get Tag.INDX = some indxB)
    (hc : decode certB = some cert)
    (h9 : cert.get Tag.SIG = some certSig) (h10 : cert.get Tag.DELE = some deleB)
    (hd : decode deleB = some dele)
    (h12 : dele.get Tag.PUBK = some pubk) (h13 : dele.get Tag.MINT = some mint)
    (h14 : dele.get Tag.MAXT = some maxt)
    (hs : decode srepB = some srep)
    (h20 : srep.get Tag.RADI = some radi) (h21 : srep.get Tag.MIDP = some midp)
    (h22 : srep.get Tag.ROOT = some root)
    (l1 : 8 ≤ midp.length) (l2 : 4 ≤ radi.length) (l3 : 8 ≤ mint.length) (l4 : 8 ≤ maxt.length)
    (l5 : 4 ≤ indxB.length)
    (h11 : certSig.length = 64) (h7 : sig.length = 64) (h15 : pubk.length = 32)
    (v1 : S.pkValid ltpk = true) (v2 : S.pkValid pubk = true)
    (h18 : S.verify ltpk (deleCtx p ++ deleB) certSig = true)
    (h19 : S.verify pubk (srepCtx p ++ srepB) sig = true)
    (h26 : u64le mint ≤ u64le midp) (h27 : u64le midp ≤ u64le maxt)
    (h28 : path.length % nodeWidth p = 0)
    (h31 : climb H p (RT.hash H p ((0x00 : UInt8) :: leafFor p nonce request))
      (u32le indxB) (chunks (nodeWidth p) path) = root) :
    authentic S H p ltpk request nonce response = some (u64le midp, u32le radi) := by
  have l1' : ¬ midp.length < 8 := by omega
  have l2' : ¬ radi.length < 4 := by omega
  have l3' : ¬ mint.length < 8 := by omega
  have l4' : ¬ maxt.length < 8 := by omega
  have l5' : ¬ indxB.length < 4 := by omega
  cases p with
  | classic =>
    simp only [Option.some.injEq] at hb
    subst hb
    simp only [leafFor] at h31
    simp [authentic, *, bind, Option.bind, pure]
  | draft13 =>
    simp only at hb
    by_cases hc : response.length ≥ 12 ∧ response.take 8 = magic
    · rw [if_pos hc] at hb
      simp only [Option.some.injEq] at hb
      subst hb
      simp only [leafFor] at h31
      simp [authentic, *, bind, Option.bind, pure]
    · rw [if_neg hc] at hb; cases hb

/-- everything the client checked on a parsed message, with a pinned key -/
theorem handleParsed_sound (S : SigScheme) (H : Bytes → Bytes) (ver : Version) (pk nonce request : Bytes)
    (body : Bytes) (hbl : body.length ≤ 4096) (m : Msg) (hm : fromBytes body = .ok m) (o : Outcome)
    (h : handleParsed S H ver (some pk) nonce request m = .ok o) :
    o.verified = true ∧
    ∃ (cert dele srep : Msg)
      (sig path srepB certB indxB certSig deleB pubk mint maxt radi midp root : Bytes),
      decode body = some m ∧
      m.get Tag.SIG = some sig ∧ m.get Tag.PATH = some path ∧ m.get Tag.SREP = some srepB ∧
      m.get Tag.CERT = some certB ∧ m.get Tag.INDX = some indxB ∧
      decode certB = some cert ∧ cert.get Tag.SIG = some certSig ∧ cert.get Tag.DELE = some deleB ∧
      decode deleB = some dele ∧ dele.get Tag.PUBK = some pubk ∧ dele.get Tag.MINT = some mint ∧
      dele.get Tag.MAXT = some maxt ∧
      decode srepB = some srep ∧ srep.get Tag.RADI = some radi ∧ srep.get Tag.MIDP = some midp ∧
      srep.get Tag.ROOT = some root ∧
      8 ≤ midp.length ∧ 4 ≤ radi.length ∧ 8 ≤ mint.length ∧ 8 ≤ maxt.length ∧ 4 ≤ indxB.length ∧
      certSig.length = 64 ∧ sig.length = 64 ∧ pubk.length = 32 ∧
      S.pkValid pk = true ∧ S.pkValid pubk = true ∧
      S.verify pk (deleCtx (protoOfVer ver) ++ deleB) certSig = true ∧
      S.verify pubk (srepCtx (protoOfVer ver) ++ srepB) sig = true ∧
      u64le mint ≤ u64le midp ∧ u64le midp ≤ u64le maxt ∧
      path.length % nodeWidth (protoOfVer ver) = 0 ∧
      climb H (protoOfVer ver)
        (RT.hash H (protoOfVer ver) ((0x00 : UInt8) :: leafFor (protoOfVer ver) nonce request))
        (u32le indxB) (chunks (nodeWidth (protoOfVer ver)) path) = root ∧
      o.midpoint = u64le midp ∧ o.radius = u32le radi ∧ o.index = u32le indxB := by
  unfold handleParsed at h
  have hb' := bind_ok h; clear h; obtain ⟨srepB, e1, h⟩ := hb'
  have hb' := bind_ok h; clear h; obtain ⟨srep, e2, h⟩ := hb'
  have hb' := bind_ok h; clear h; obtain ⟨certB, e3, h⟩ := hb'
  have hb' := bind_ok h; clear h; obtain ⟨cert, e4, h⟩ := hb'
  have hb' := bind_ok h; clear h; obtain ⟨deleB, e5, h⟩ := hb'
  have hb' := bind_ok h; clear h; obtain ⟨dele, e6, h⟩ := hb'
  have hb' := bind_ok h; clear h; obtain ⟨midp, e7, h⟩ := hb'
  have hb' := bind_ok h; clear h; obtain ⟨midpoint, e8, h⟩ := hb'
  have hb' := bind_ok h; clear h; obtain ⟨radi, e9, h⟩ := hb'
  have hb' := bind_ok h; clear h; obtain ⟨radius, e10, h⟩ := hb'
  have hb' := bind_ok h; clear h; obtain ⟨indxB, e11, h⟩ := hb'
  have hb' := bind_ok h; clear h; obtain ⟨index, e12, h⟩ := hb'
  have hb' := bind_ok h; clear h; obtain ⟨path, e13, h⟩ := hb'
  have hb' := bind_ok h; clear h; obtain ⟨hash, e14, h⟩ := hb'
  have hb' := bind_ok h; clear h; obtain ⟨root, e15, h⟩ := hb'
  by_cases hr : hash ≠ root
  · rw [if_pos hr] at h; cases h
  rw [if_neg hr] at h
  have hb' := bind_ok h; clear h; obtain ⟨mint, e16, h⟩ := hb'
  have hb' := bind_ok h; clear h; obtain ⟨mintV, e17, h⟩ := hb'
  have hb' := bind_ok h; clear h; obtain ⟨maxt, e18, h⟩ := hb'
  have hb' := bind_ok h; clear h; obtain ⟨maxtV, e19, h⟩ := hb'
  by_cases hlo : midpoint < mintV
  · rw [if_pos hlo] at h; cases h
  rw [if_neg hlo] at h
  by_cases hhi : midpoint > maxtV
  · rw [if_pos hhi] at h; cases h
  rw [if_neg hhi] at h
  have hb' := bind_ok h; clear h; obtain ⟨verified, hv, h⟩ := hb'
  dsimp only at hv
  have hb' := bind_ok hv; clear hv; obtain ⟨certSig, e20, hv⟩ := hb'
  have hb' := bind_ok hv; clear hv; obtain ⟨okDele, e21, hv⟩ := hb'
  by_cases hd : ¬ okDele = true
  · rw [if_pos hd] at hv; cases hv
  rw [if_neg hd] at hv
  have hb' := bind_ok hv; clear hv; obtain ⟨pubk, e22, hv⟩ := hb'
  have hb' := bind_ok hv; clear hv; obtain ⟨sig, e23, hv⟩ := hb'
  have hb' := bind_ok hv; clear hv; obtain ⟨okSrep, e24, hv⟩ := hb'
  by_cases hs : ¬ okSrep = true
  · rw [if_pos hs] at hv; cases hv
  rw [if_neg hs] at hv
  -- collect
  have g1 := field_ok e1
  have f2 := fromBytesUnwrap_ok e2
  have g3 := field_ok e3
  have f4 := fromBytesUnwrap_ok e4
  have g5 := field_ok e5
  have f6 := fromBytesUnwrap_ok e6
  have g7 := field_ok e7
  obtain ⟨l8, v8⟩ := readU64_ok e8
  have g9 := field_ok e9
  obtain ⟨l10, v10⟩ := readU32_ok e10
  have g11 := field_ok e11
  obtain ⟨l12, v12⟩ := readU32_ok e12
  have g13 := field_ok e13
  have g15 := field_ok e15
  have g16 := field_ok e16
  obtain ⟨l17, v17⟩ := readU64_ok e17
  have g18 := field_ok e18
  obtain ⟨l19, v19⟩ := readU64_ok e19
  have g20 := field_ok e20
  obtain ⟨a1, a2, a3, a4⟩ := validateSig_ok e21
  have g22 := field_ok e22
  have g23 := field_ok e23
  obtain ⟨b1, b2, b3, b4⟩ := validateSig_ok e24
  -- sizes of the nested encodings
  have s1 := get_length_le hm g1
  have s3 := get_length_le hm g3
  have s5 := get_length_le f4 g5
  have d0 := decode_of_fromBytes (by omega) hm
  have d2 := decode_of_fromBytes (by omega) f2
  have d4 := decode_of_fromBytes (by omega) f4
  have d6 := decode_of_fromBytes (by omega) f6
  -- Merkle
  replace e14 : rootFromPaths (mcfg H (protoOfVer ver)) ver.isIetf index
      (leafFor (protoOfVer ver) nonce request) path = .ok hash := by
    cases ver <;> exact e14
  obtain ⟨pm, hcl⟩ := rootFromPaths_ok H ver index _ path hash e14
  have hroot : hash = root := Classical.byContradiction hr
  cases hv
  cases h
  refine ⟨rfl, cert, dele, srep, sig, path, srepB, certB, indxB, certSig, deleB, pubk, mint, maxt, radi, midp,
    root, d0, g23, g13, g1, g3, g11, d4, g20, g5, d6, g22, g16, g18, d2, g9, g7, g15, l8, l10, l17, l19, l12,
    a3, b3, b1, a2, b2, ?_, ?_, ?_, ?_, pm, ?_, v8, v10, v12⟩
  · rw [← delePrefix_eq, ← a4]; simpa using hd
  · rw [← srepPrefix_eq, ← b4]; simpa using hs
  · rw [← v17, ← v8]; omega
  · rw [← v19, ← v8]; omega
  · rw [← v12, ← hroot]; exact hcl

/-- **C01 soundness.** -/
theorem sound (S : SigScheme) (H : Bytes → Bytes) (ver : Version) (pk nonce request dg : Bytes)
    (hdg : dg.length ≤ 4096) (o : Outcome)
    (h : handleResponse S H ver (some pk) nonce request dg = .ok o) :
    o.verified = true ∧
    RT.authentic S H (protoOfVer ver) pk request nonce dg = some (o.midpoint, o.radius) := by
  unfold handleResponse at h
  obtain ⟨m, hrecv, hp⟩ := bind_ok h
  obtain ⟨body, hb, hbl, hm⟩ := receiveResponse_ok ver dg hdg m hrecv
  obtain ⟨hver, cert, dele, srep, sig, path, srepB, certB, indxB, certSig, deleB, pubk, mint, maxt, radi, midp,
    root, d0, g23, g13, g1, g3, g11, d4, g20, g5, d6, g22, g16, g18, d2, g9, g7, g15, l8, l10, l17, l19, l12,
    a3, b3, b1, a2, b2, w1, w2, t1, t2, pm, hcl, v8, v10, _⟩ :=
    handleParsed_sound S H ver pk nonce request body hbl m hm o hp
  refine ⟨hver, ?_⟩
  rw [v8, v10]
  exact authentic_ok S H (protoOfVer ver) pk request nonce dg body m cert dele srep sig path srepB certB indxB
    certSig deleB pubk mint maxt radi midp root hb d0 g23 g13 g1 g3 g11 d4 g20 g5 d6 g22 g16 g18 d2 g9 g7 g15
    l8 l10 l17 l19 l12 a3 b3 b1 a2 b2 w1 w2 t1 t2 pm hcl

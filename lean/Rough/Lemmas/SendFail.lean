import Rough.Model.SendFail
/-
  Lemmas for `send_responses` with failing `send_to` calls.
-/
namespace Rough
open Rough.Merkle Rough.Stats

namespace Responder

def respKind (v : Version) : Kind := match v with | .google => Kind.classicResp | .ietf => Kind.rfcResp

theorem Res.bind_ok_inv {α β} {x : Res α} {f : α → Res β} {b : β} (h : x.bind f = .ok b) :
    ∃ a, x = .ok a ∧ f a = .ok b := by
  cases x with
  | ok a => exact ⟨a, rfl, h⟩
  | err => simp [Res.bind] at h
  | panic s => simp [Res.bind] at h

/-- a successful iteration sends to the request's source and records exactly the bytes sent -/
theorem respondOne_shape {r : Responder} {debug : Bool} {srep : Msg} {idx : Nat} {nonce : Bytes} {src : Addr}
    {g : Grease} {s : Sent} {e : Event} (h : respondOne r debug srep idx nonce src g = .ok (s, e)) :
    s.dst = src ∧ e = ⟨respKind r.ver, src, s.bytes.length⟩ := by
  unfold respondOne at h
  obtain ⟨_, _, h⟩ := Res.bind_ok_inv h
  obtain ⟨_, _, h⟩ := Res.bind_ok_inv h
  obtain ⟨_, _, h⟩ := Res.bind_ok_inv h
  obtain ⟨_, _, h⟩ := Res.bind_ok_inv h
  injection h with h
  injection h with h1 h2
  subst h1 h2
  exact ⟨rfl, rfl⟩

theorem respondAllF_refines (ok : Addr → Nat → Bool) (r : Responder) (debug : Bool) (srep : Msg) :
    ∀ (reqs : List (Bytes × Addr)) (idx : Nat) (gs : List Grease),
    respondAllF ok r debug srep idx reqs gs =
      (respondAll r debug srep idx reqs gs).bind fun x => .ok (degradeAll ok idx x.1 x.2) := by
  intro reqs
  induction reqs with
  | nil => intro idx gs; simp [respondAllF, respondAll, Res.bind, degradeAll]
  | cons q rest ih =>
    intro idx gs
    obtain ⟨nonce, src⟩ := q
    simp only [respondAllF, respondAll, respondOneF]
    cases h1 : respondOne r debug srep idx nonce src (gs.headD Grease.none) with
    | err => simp [Res.bind]
    | panic s => simp [Res.bind]
    | ok se =>
      obtain ⟨s, e⟩ := se
      have hs := (respondOne_shape h1).1
      rw [ih (idx + 1) gs.tail]
      cases h2 : respondAll r debug srep (idx + 1) rest gs.tail with
      | err => by_cases hk : ok src idx <;> simp [Res.bind, hk]
      | panic s => by_cases hk : ok src idx <;> simp [Res.bind, hk]
      | ok x =>
        obtain ⟨ss, es⟩ := x
        by_cases hk : ok src idx <;> simp [Res.bind, hk, degradeAll, degrade, hs]


/-- the successful loop: one datagram and one response event per request, in order, each event
    carrying the request's source and the length of its datagram -/
theorem respondAll_shape (r : Responder) (debug : Bool) (srep : Msg) :
    ∀ (reqs : List (Bytes × Addr)) (idx : Nat) (gs : List Grease) (ss : List Sent) (es : List Event),
    respondAll r debug srep idx reqs gs = .ok (ss, es) →
      ss.map (·.dst) = reqs.map (·.2) ∧
      es = ss.map (fun s => (⟨respKind r.ver, s.dst, s.bytes.length⟩ : Event)) := by
  intro reqs
  induction reqs with
  | nil =>
    intro idx gs ss es h
    simp only [respondAll] at h
    injection h with h; injection h with h1 h2; subst h1 h2; simp
  | cons q rest ih =>
    intro idx gs ss es h
    obtain ⟨nonce, src⟩ := q
    simp only [respondAll] at h
    obtain ⟨⟨s, e⟩, h1, h⟩ := Res.bind_ok_inv h
    obtain ⟨⟨ss', es'⟩, h2, h⟩ := Res.bind_ok_inv h
    injection h with h; injection h with ha hb; subst ha hb
    obtain ⟨hd, he⟩ := respondOne_shape h1
    obtain ⟨i1, i2⟩ := ih _ _ _ _ h2
    subst he
    refine ⟨by simp [hd, i1], ?_⟩
    simp [i2, hd]

def isResp (e : Event) : Bool := e.kind == Kind.classicResp || e.kind == Kind.rfcResp
def isFailed (e : Event) : Bool := e.kind == Kind.failedSend

/-- accounting of `degradeAll` over a list of well-shaped (datagram, event) pairs -/
theorem degradeAll_account (ok : Addr → Nat → Bool) (v : Version) :
    ∀ (ss : List Sent) (idx : Nat),
    let es := ss.map (fun s => (⟨respKind v, s.dst, s.bytes.length⟩ : Event))
    let d := degradeAll ok idx ss es
    d.1.length = ss.length ∧ d.2.length = ss.length ∧
    d.2.map (·.addr) = ss.map (·.dst) ∧
    (d.2.map (·.bytes)).sum = ((d.1.filterMap id).map (·.bytes.length)).sum ∧
    (d.2.filter isResp).length = (d.1.filterMap id).length ∧
    (d.2.filter isFailed).length = (d.1.filter Option.isNone).length ∧
    (d.2.filter isResp).length + (d.2.filter isFailed).length = ss.length ∧
    (∀ e ∈ d.2, isResp e = true ∨ (isFailed e = true ∧ e.bytes = 0)) := by
  intro ss
  induction ss with
  | nil => intro idx; simp [degradeAll]
  | cons s rest ih =>
    intro idx
    have := ih (idx + 1)
    simp only at this
    obtain ⟨a1, a2, a3, a4, a5, a6, a7, a8⟩ := this
    have hr : isResp ⟨respKind v, s.dst, s.bytes.length⟩ = true := by cases v <;> simp [isResp, respKind]
    have hf : isFailed ⟨respKind v, s.dst, s.bytes.length⟩ = false := by cases v <;> simp [isFailed, respKind]
    by_cases hk : ok s.dst idx
    · simp only [List.map_cons, degradeAll, degrade, hk, if_true, List.length_cons, List.filterMap_cons, id,
        List.sum_cons, List.filter_cons, hr, hf, Option.isNone_some, Bool.false_eq_true, if_false]
      refine ⟨by omega, by omega, by simp [a3], by omega, by omega, by omega, by omega, ?_⟩
      intro e he
      simp only [List.mem_cons] at he
      rcases he with he | he
      · subst he; exact Or.inl hr
      · exact a8 e he
    · have hr' : isResp ⟨Kind.failedSend, s.dst, 0⟩ = false := by simp [isResp]
      have hf' : isFailed ⟨Kind.failedSend, s.dst, 0⟩ = true := by simp [isFailed]
      simp only [List.map_cons, degradeAll, degrade, hk, Bool.false_eq_true, if_false, List.length_cons,
        List.filterMap_cons, id, List.sum_cons, List.filter_cons, hr', hf', Option.isNone_none, if_true]
      refine ⟨by omega, by omega, by simp [a3], by omega, by omega, by omega, by omega, ?_⟩
      intro e he
      simp only [List.mem_cons] at he
      rcases he with he | he
      · subst he; exact Or.inr ⟨hf', rfl⟩
      · exact a8 e he

theorem degradeAll_allok (ok : Addr → Nat → Bool) (hok : ∀ a i, ok a i = true) :
    ∀ (ss : List Sent) (es : List Event) (idx : Nat), ss.length = es.length →
      degradeAll ok idx ss es = (ss.map some, es) := by
  intro ss
  induction ss with
  | nil => intro es idx h; cases es <;> simp_all [degradeAll]
  | cons s rest ih =>
    intro es idx h
    cases es with
    | nil => simp at h
    | cons e es' =>
      simp only [List.length_cons, Nat.add_right_cancel_iff] at h
      simp [degradeAll, degrade, hok, ih es' (idx + 1) h]

end Responder
end Rough

import Rough.Lemmas.ServerSpecBasic
/-
  Server-level lemmas, part 2: `collect`, `respondOne`, `respondAll`, `sendResponses`.
-/
namespace Rough.Lemmas.ServerSpec
open Rough Rough.Merkle Rough.Stats Rough.ServerSpec Rough.Spec
open Rough.Lemmas.Merkle (bind_ok bind_panic)

/-! ### collect -/

/-- what `add` records for an accepted request: (nonce, source) -/
def ss_reqOf (x : Datagram × Bytes) : Bytes × Addr := (x.2, x.1.src)

theorem ss_accepted_cons_same {srv : Bytes} {ver : Version} {d : Datagram} {n : Bytes} (ds : List Datagram)
    (h : nonceFromRequest d.bytes srv = .ok (n, ver)) :
    accepted srv ver (d :: ds) = (d, n) :: accepted srv ver ds := by
  rw [accepted, h]; simp

theorem ss_accepted_cons_other {srv : Bytes} {ver v : Version} {d : Datagram} {n : Bytes} (ds : List Datagram)
    (h : nonceFromRequest d.bytes srv = .ok (n, v)) (hv : v ≠ ver) :
    accepted srv ver (d :: ds) = accepted srv ver ds := by
  rw [accepted, h]; simp [hv]

theorem ss_accepted_cons_err {srv : Bytes} {ver : Version} {d : Datagram} (ds : List Datagram)
    (h : nonceFromRequest d.bytes srv = .err) :
    accepted srv ver (d :: ds) = accepted srv ver ds := by
  rw [accepted, h]

/-- `collect` from a state whose two trees have a bottom level: every accepted request is pushed
    onto the tree and the request list of its own protocol's responder, nothing else changes, and
    one request event per datagram is recorded. -/
theorem ss_collect_spec (E : Env) : ∀ (chunk : List Datagram) (bs : Nat) (srv lt : Bytes)
    (oI oC : Signer) (cI cC : Bytes) (rI rC : List (Bytes × Addr)) (lI lC : List Bytes)
    (restI restC : List (List Bytes)),
    Server.collect E ⟨bs, srv, lt, ⟨.ietf, oI, cI, rI, ⟨lI :: restI⟩⟩, ⟨.google, oC, cC, rC, ⟨lC :: restC⟩⟩⟩ chunk
      = .ok (⟨bs, srv, lt,
          ⟨.ietf, oI, cI, rI ++ (accepted srv .ietf chunk).map ss_reqOf,
            ⟨(lI ++ ((accepted srv .ietf chunk).map (leafOf .ietf)).map (hashLeaf (E.mcfg .ietf))) :: restI⟩⟩,
          ⟨.google, oC, cC, rC ++ (accepted srv .google chunk).map ss_reqOf,
            ⟨(lC ++ ((accepted srv .google chunk).map (leafOf .google)).map (hashLeaf (E.mcfg .google))) :: restC⟩⟩⟩,
        chunk.map (requestEvent srv)) := by
  intro chunk
  induction chunk with
  | nil => intros; simp [Server.collect, accepted]
  | cons d ds ih =>
    intro bs srv lt oI oC cI cC rI rC lI lC restI restC
    unfold Server.collect Server.collectOne
    simp only
    cases hnr : nonceFromRequest d.bytes srv with
    | panic t => exact absurd hnr (ss_nonceFromRequest_no_panic _ _ _)
    | err =>
      simp only [bind_ok, ih, ss_accepted_cons_err ds hnr, List.map_cons, requestEvent, hnr]
    | ok x =>
      obtain ⟨n, v⟩ := x
      cases v with
      | ietf =>
        simp only [Responder.add, Lemmas.Merkle.pushLeaf_cons, bind_ok, ih,
          ss_accepted_cons_same ds hnr, ss_accepted_cons_other (ver := .google) ds hnr (by decide),
          List.map_cons, requestEvent, hnr, List.append_assoc, List.cons_append, List.nil_append,
          leafOf, ss_reqOf]
      | google =>
        simp only [Responder.add, Lemmas.Merkle.pushLeaf_cons, bind_ok, ih,
          ss_accepted_cons_same ds hnr, ss_accepted_cons_other (ver := .ietf) ds hnr (by decide),
          List.map_cons, requestEvent, hnr, List.append_assoc, List.cons_append, List.nil_append,
          leafOf, ss_reqOf]

/-! ### make_srep / make_response -/

/-- the signed-response bytes exactly as the reference responder builds them -/
def ss_srepOf (p : RT.Proto) (radi midp : Nat) (root : Bytes) : Bytes :=
  match p with
  | .classic => encode (RT.mkMsg [(Tag.RADI, le32 radi), (Tag.MIDP, le64 midp), (Tag.ROOT, root)])
  | .draft13 => encode (RT.mkMsg [(Tag.VER, RT.ver13), (Tag.RADI, le32 radi), (Tag.MIDP, le64 midp),
                                  (Tag.VERS, [0, 0, 0, 0] ++ RT.ver13), (Tag.ROOT, root)])

theorem ss_makeSrep (S : SigScheme) (onl : Bytes) (ver : Version) (now : Nat × Nat) (root : Bytes)
    (hclk : clockOK now) :
    makeSrep S ⟨onl, []⟩ ver now.1 now.2 root
      = .ok (⟨[(Tag.SIG, S.sign onl (RT.srepCtx (protoOfVer ver) ++
                  ss_srepOf (protoOfVer ver) (radiOf ver) (midpVal ver now) root)),
               (Tag.SREP, ss_srepOf (protoOfVer ver) (radiOf ver) (midpVal ver now) root)]⟩, ⟨onl, []⟩) := by
  unfold makeSrep
  rw [ss_midpOf_ok ver now hclk, bind_ok]
  cases ver with
  | google =>
    simp only
    rw [ss_buildMsg_sorted _ _ (by simp [Tag.idx]), bind_ok]
    simp only [Signer.update, Signer.sign, List.nil_append]
    rw [ss_buildMsg_sorted _ _ (by simp [Tag.idx]), bind_ok]
    rfl
  | ietf =>
    simp only
    rw [ss_buildMsg_sorted _ _ (by simp [Tag.idx]), bind_ok]
    simp only [Signer.update, Signer.sign, List.nil_append]
    rw [ss_buildMsg_sorted _ _ (by simp [Tag.idx]), bind_ok, ss_supportedWire, ss_ietf_wire]
    rfl

theorem ss_makeResponse (sig srepB cert path nonce : Bytes) (idx : Nat) :
    makeResponse ⟨[(Tag.SIG, sig), (Tag.SREP, srepB)]⟩ cert path idx nonce
      = .ok ⟨[(Tag.SIG, sig), (Tag.NONC, nonce), (Tag.PATH, path), (Tag.SREP, srepB), (Tag.CERT, cert),
              (Tag.INDX, le32 idx)]⟩ := by
  unfold makeResponse
  have h1 : (⟨[(Tag.SIG, sig), (Tag.SREP, srepB)]⟩ : Msg).get Tag.SIG = some sig := rfl
  have h2 : (⟨[(Tag.SIG, sig), (Tag.SREP, srepB)]⟩ : Msg).get Tag.SREP = some srepB := rfl
  rw [h1, h2]
  simp only [Res.unwrap, bind_ok]
  exact ss_buildMsg_sorted _ _ (by simp [Tag.idx])

/-- the reply message of the reference responder (before framing) -/
def ss_respMsg (E : Env) (K : Keys) (ver : Version) (midp : Nat) (leaves : List Bytes) (i : Nat)
    (nonce : Bytes) : Msg :=
  let p := protoOfVer ver
  let root := MT.T.hash (RT.mcfg E.H p) (MT.treeOf leaves)
  let srep := ss_srepOf p (radiOf ver) midp root
  ⟨[(Tag.SIG, E.S.sign (onlOf K ver) (RT.srepCtx p ++ srep)), (Tag.NONC, nonce),
    (Tag.PATH, (MT.pathOf (RT.mcfg E.H p) leaves i).flatten), (Tag.SREP, srep),
    (Tag.CERT, certOf E K ver), (Tag.INDX, le32 i)]⟩

theorem ss_respond_eq (E : Env) (K : Keys) (ver : Version) (midp : Nat) (leaves : List Bytes) (i : Nat)
    (nonce : Bytes) :
    RT.respond E.S E.H (protoOfVer ver) K.seed (onlOf K ver) midp (radiOf ver) 0 (2 ^ 64 - 1) leaves i nonce
      = wireOf ver (ss_respMsg E K ver midp leaves i nonce) := by
  cases ver <;> rfl

def ss_kindOf : Version → Kind
  | .google => Kind.classicResp
  | .ietf => Kind.rfcResp

/-! ### grease -/

theorem ss_reorder_fold (fields : List (Tag × Bytes)) : ∀ (perm : List Nat), (∀ i ∈ perm, i < fields.length) →
    ∀ acc : List (Tag × Bytes), ∃ out,
    perm.foldl (fun (a : Res (List (Tag × Bytes))) i => a.bind fun l =>
        (Res.unwrap "grease.rs:randomly_order_tags:get(idx).unwrap" fields[i]?).bind fun f => .ok (l ++ [f]))
      (.ok acc) = .ok out := by
  intro perm
  induction perm with
  | nil => intro _ acc; exact ⟨acc, rfl⟩
  | cons i is ih =>
    intro h acc
    have hi : i < fields.length := h i (by simp)
    rw [List.foldl_cons, bind_ok, List.getElem?_eq_getElem hi]
    simp only [Res.unwrap, bind_ok]
    exact ih (fun j hj => h j (by simp [hj])) _

theorem ss_applyGrease_ok (g : Grease) (hg : GreaseOK g) (a b c d e f : Bytes) :
    ∃ m', applyGrease g ⟨[(Tag.SIG, a), (Tag.NONC, b), (Tag.PATH, c), (Tag.SREP, d), (Tag.CERT, e),
      (Tag.INDX, f)]⟩ = .ok m' := by
  cases g with
  | none => exact ⟨_, rfl⟩
  | reorder perm =>
    have hp : ∀ i ∈ perm, i < 6 := by
      intro i hi
      have : i ∈ List.range 6 := (List.Perm.mem_iff hg).mp hi
      simpa using this
    obtain ⟨out, ho⟩ := ss_reorder_fold [(Tag.SIG, a), (Tag.NONC, b), (Tag.PATH, c), (Tag.SREP, d),
      (Tag.CERT, e), (Tag.INDX, f)] perm hp []
    refine ⟨⟨out⟩, ?_⟩
    simp only [applyGrease]
    rw [ho]; rfl
  | corruptSig rho =>
    refine ⟨⟨[(Tag.SIG, rho), (Tag.PATH, c), (Tag.SREP, d), (Tag.CERT, e), (Tag.INDX, f)]⟩, ?_⟩
    have h0 : (⟨[(Tag.SIG, a), (Tag.NONC, b), (Tag.PATH, c), (Tag.SREP, d), (Tag.CERT, e),
      (Tag.INDX, f)]⟩ : Msg).get Tag.SIG = some a := rfl
    have h1 : (⟨[(Tag.SIG, a), (Tag.NONC, b), (Tag.PATH, c), (Tag.SREP, d), (Tag.CERT, e),
      (Tag.INDX, f)]⟩ : Msg).get Tag.PATH = some c := rfl
    have h2 : (⟨[(Tag.SIG, a), (Tag.NONC, b), (Tag.PATH, c), (Tag.SREP, d), (Tag.CERT, e),
      (Tag.INDX, f)]⟩ : Msg).get Tag.SREP = some d := rfl
    have h3 : (⟨[(Tag.SIG, a), (Tag.NONC, b), (Tag.PATH, c), (Tag.SREP, d), (Tag.CERT, e),
      (Tag.INDX, f)]⟩ : Msg).get Tag.CERT = some e := rfl
    have h4 : (⟨[(Tag.SIG, a), (Tag.NONC, b), (Tag.PATH, c), (Tag.SREP, d), (Tag.CERT, e),
      (Tag.INDX, f)]⟩ : Msg).get Tag.INDX = some f := rfl
    simp only [applyGrease, h0, h1, h2, h3, h4, Option.isNone_some, Bool.false_eq_true, if_false,
      Res.unwrap, bind_ok]
    exact ss_buildMsg_sorted _ _ (by simp [Tag.idx])

/-! ### respondOne / respondAll -/

theorem ss_respondOne_of (r : Responder) (debug : Bool) (sig srepB path nonce : Bytes) (i : Nat)
    (src : Addr) (g : Grease) (m' : Msg)
    (hpath : getPaths r.tree i = .ok path) (hn : 4 ≤ nonce.length)
    (hg : applyGrease g ⟨[(Tag.SIG, sig), (Tag.NONC, nonce), (Tag.PATH, path), (Tag.SREP, srepB),
      (Tag.CERT, r.cert), (Tag.INDX, le32 i)]⟩ = .ok m') :
    Responder.respondOne r debug ⟨[(Tag.SIG, sig), (Tag.SREP, srepB)]⟩ i nonce src g
      = .ok (⟨src, wireOf r.ver m'⟩, ⟨ss_kindOf r.ver, src, (wireOf r.ver m').length⟩) := by
  unfold Responder.respondOne
  rw [hpath, bind_ok, ss_makeResponse, bind_ok, hg, bind_ok]
  have hd : (if debug then (slice nonce 0 4 "responder.rs:send_responses:nonce[0..4]").bind fun _ => Res.ok ()
      else .ok ()) = .ok () := by
    cases debug with
    | false => rfl
    | true => rw [if_pos rfl, slice_ok (by omega) hn, bind_ok]
  simp only [hd, bind_ok]
  cases hv : r.ver <;> rfl

/-- without fault injection the datagram is the reference responder's reply -/
theorem ss_respondOne_none (E : Env) (K : Keys) (ver : Version) (midp : Nat) (leaves : List Bytes)
    (t' : Tree) (rq : List (Bytes × Addr)) (debug : Bool) (i : Nat) (nonce : Bytes) (src : Addr)
    (hp : getPaths t' i = .ok (MT.pathOf (RT.mcfg E.H (protoOfVer ver)) leaves i).flatten)
    (hn : 4 ≤ nonce.length) :
    Responder.respondOne ⟨ver, ⟨onlOf K ver, []⟩, certOf E K ver, rq, t'⟩ debug
      ⟨[(Tag.SIG, E.S.sign (onlOf K ver) (RT.srepCtx (protoOfVer ver) ++
            ss_srepOf (protoOfVer ver) (radiOf ver) midp
              (MT.T.hash (RT.mcfg E.H (protoOfVer ver)) (MT.treeOf leaves)))),
        (Tag.SREP, ss_srepOf (protoOfVer ver) (radiOf ver) midp
              (MT.T.hash (RT.mcfg E.H (protoOfVer ver)) (MT.treeOf leaves)))]⟩ i nonce src Grease.none
      = .ok (⟨src, RT.respond E.S E.H (protoOfVer ver) K.seed (onlOf K ver) midp (radiOf ver)
                0 (2 ^ 64 - 1) leaves i nonce⟩,
             ⟨ss_kindOf ver, src, (RT.respond E.S E.H (protoOfVer ver) K.seed (onlOf K ver) midp (radiOf ver)
                0 (2 ^ 64 - 1) leaves i nonce).length⟩) := by
  rw [ss_respond_eq]
  exact ss_respondOne_of ⟨ver, ⟨onlOf K ver, []⟩, certOf E K ver, rq, t'⟩ debug _ _ _ nonce i src
    Grease.none _ hp hn rfl

/-- exact form: no fault injection -/
theorem ss_respondAll_exact (r : Responder) (debug : Bool) (srep : Msg) (G : Nat → Bytes → Bytes)
    (kind : Kind) (bound : Nat)
    (h1 : ∀ i nonce src, i < bound → 4 ≤ nonce.length →
      Responder.respondOne r debug srep i nonce src Grease.none
        = .ok (⟨src, G i nonce⟩, ⟨kind, src, (G i nonce).length⟩)) :
    ∀ (reqs : List (Datagram × Bytes)) (idx : Nat) (gs : List Grease), idx + reqs.length ≤ bound →
      (∀ x ∈ reqs, 4 ≤ x.2.length) → (∀ g ∈ gs, g = Grease.none) →
      Responder.respondAll r debug srep idx (reqs.map ss_reqOf) gs
        = .ok (reqs.mapIdx (fun j x => (⟨x.1.src, G (idx + j) x.2⟩ : Sent)),
               (reqs.mapIdx (fun j x => (⟨x.1.src, G (idx + j) x.2⟩ : Sent))).map
                 (fun x => (⟨kind, x.dst, x.bytes.length⟩ : Event))) := by
  intro reqs
  induction reqs with
  | nil => intro idx gs _ _ _; rfl
  | cons x xs ih =>
    intro idx gs hb hn hg
    have hgh : gs.headD Grease.none = Grease.none := by
      cases gs with
      | nil => rfl
      | cons g gs' => exact hg g (by simp)
    have hgt : ∀ g ∈ gs.tail, g = Grease.none := fun g hgm => hg g (List.mem_of_mem_tail hgm)
    simp only [List.length_cons] at hb
    have := ih (idx + 1) gs.tail (by omega) (fun y hy => hn y (by simp [hy])) hgt
    simp only [List.map_cons, ss_reqOf, Responder.respondAll, hgh]
    rw [h1 idx x.2 x.1.src (by omega) (hn x (by simp)), bind_ok]
    simp only [this, bind_ok, List.mapIdx_cons, List.map_cons, Nat.add_zero]
    simp only [← Nat.add_assoc, Nat.add_right_comm _ 1]

/-- safety form: any drawable fault-injection decisions -/
theorem ss_respondAll_safe (r : Responder) (debug : Bool) (srep : Msg) (bound : Nat)
    (h1 : ∀ i nonce src g, i < bound → 4 ≤ nonce.length → GreaseOK g →
      ∃ out, Responder.respondOne r debug srep i nonce src g = .ok out) :
    ∀ (reqs : List (Bytes × Addr)) (idx : Nat) (gs : List Grease), idx + reqs.length ≤ bound →
      (∀ x ∈ reqs, 4 ≤ x.1.length) → (∀ g ∈ gs, GreaseOK g) →
      ∃ out, Responder.respondAll r debug srep idx reqs gs = .ok out := by
  intro reqs
  induction reqs with
  | nil => intro idx gs _ _ _; exact ⟨_, rfl⟩
  | cons x xs ih =>
    intro idx gs hb hn hg
    obtain ⟨nonce, src⟩ := x
    have hgh : GreaseOK (gs.headD Grease.none) := by
      cases gs with
      | nil => exact True.intro
      | cons g gs' => exact hg g (by simp)
    have hgt : ∀ g ∈ gs.tail, GreaseOK g := fun g hgm => hg g (List.mem_of_mem_tail hgm)
    simp only [List.length_cons] at hb
    obtain ⟨o1, ho1⟩ := h1 idx nonce src _ (by omega) (hn (nonce, src) (by simp)) hgh
    obtain ⟨o2, ho2⟩ := ih (idx + 1) gs.tail (by omega) (fun y hy => hn y (by simp [hy])) hgt
    simp only [Responder.respondAll, ho1, ho2, bind_ok]
    exact ⟨_, rfl⟩

/-! ### sendResponses -/

/-- common front half of `send_responses` on a non-empty batch: root and SREP -/
theorem ss_send_front (E : Env) (hE : EnvOK E) (ver : Version)
    (leaves : List Bytes) (hne : leaves ≠ []) (hsz : leaves.length ≤ 2 ^ 32)
    (t0 tree : Tree) (ht0 : t0.levels ≠ [])
    (htree : pushAll (E.mcfg ver) (reset t0) leaves = .ok tree) :
    ∃ t', computeRoot (E.mcfg ver) ver.isIetf tree
        = .ok (t', MT.T.hash (RT.mcfg E.H (protoOfVer ver)) (MT.treeOf leaves)) ∧
      t'.levels ≠ [] ∧
      (∀ i, i < leaves.length →
        getPaths t' i = .ok (MT.pathOf (RT.mcfg E.H (protoOfVer ver)) leaves i).flatten) := by
  obtain ⟨t', root, hrun, ht', hroot, hpaths⟩ :=
    Lemmas.Merkle.complete (E.mcfg ver) ver.isIetf (ss_hashLen E hE ver) (ss_widthOK E ver) t0 ht0 leaves hne hsz
  unfold runBatch at hrun
  rw [htree, bind_ok] at hrun
  subst hroot
  rw [ss_mcfg] at hrun hpaths
  rw [ss_mcfg]
  exact ⟨t', hrun, ht', fun i hi => (hpaths i hi).1⟩

theorem ss_map_reqOf_isEmpty (reqs : List (Datagram × Bytes)) (h : reqs ≠ []) :
    (reqs.map ss_reqOf).isEmpty = false := by
  cases reqs with
  | nil => exact absurd rfl h
  | cons a b => rfl

/-- One responder, one batch, no fault injection: `send_responses` sends exactly the reference
    responder's reply for each recorded request, records one response event per reply, keeps key
    material and certificate, and leaves a tree with at least one level. -/
theorem ss_send_spec (E : Env) (hE : EnvOK E) (K : Keys) (ver : Version) (now : Nat × Nat)
    (reqs : List (Datagram × Bytes)) (r : Responder) (t0 : Tree) (debug : Bool) (gs : List Grease)
    (hver : r.ver = ver) (honl : r.onl = ⟨onlOf K ver, []⟩) (hcert : r.cert = certOf E K ver)
    (hreq : r.requests = reqs.map ss_reqOf) (ht0 : t0.levels ≠ [])
    (htree : pushAll (E.mcfg ver) (reset t0) (reqs.map (leafOf ver)) = .ok r.tree)
    (hrt : r.tree.levels ≠ [])
    (hsz : reqs.length ≤ 2 ^ 32) (hn : ∀ x ∈ reqs, 4 ≤ x.2.length) (hclk : clockOK now)
    (hg : ∀ g ∈ gs, g = Grease.none) :
    ∃ t', Responder.sendResponses E r debug now gs
        = .ok ({ r with tree := t' }, expectedBatch E K ver now reqs,
            (expectedBatch E K ver now reqs).map (fun x => (⟨ss_kindOf ver, x.dst, x.bytes.length⟩ : Event))) ∧
      t'.levels ≠ [] := by
  obtain ⟨rv, ro, rc, rr, rt⟩ := r
  simp only at hver honl hcert hreq htree hrt
  have hver' : ver = rv := hver.symm
  subst hver' honl hcert hreq
  by_cases hne : reqs = []
  · subst hne
    refine ⟨rt, ?_, hrt⟩
    unfold Responder.sendResponses
    simp only [List.map_nil, List.isEmpty_nil, if_true, expectedBatch, List.mapIdx_nil]
  · have hlne : reqs.map (leafOf ver) ≠ [] := by simpa using hne
    obtain ⟨t', hroot, ht', hpaths⟩ := ss_send_front E hE ver (reqs.map (leafOf ver)) hlne
      (by simpa using hsz) t0 rt ht0 htree
    refine ⟨t', ?_, ht'⟩
    unfold Responder.sendResponses
    simp only [ss_map_reqOf_isEmpty reqs hne, Bool.false_eq_true, if_false]
    rw [hroot, bind_ok]
    simp only
    rw [ss_makeSrep E.S (onlOf K ver) ver now _ hclk, bind_ok]
    simp only
    have hall := ss_respondAll_exact ⟨ver, ⟨onlOf K ver, []⟩, certOf E K ver, reqs.map ss_reqOf, t'⟩ debug
      ⟨[(Tag.SIG, E.S.sign (onlOf K ver) (RT.srepCtx (protoOfVer ver) ++
            ss_srepOf (protoOfVer ver) (radiOf ver) (midpVal ver now)
              (MT.T.hash (RT.mcfg E.H (protoOfVer ver)) (MT.treeOf (reqs.map (leafOf ver)))))),
        (Tag.SREP, ss_srepOf (protoOfVer ver) (radiOf ver) (midpVal ver now)
              (MT.T.hash (RT.mcfg E.H (protoOfVer ver)) (MT.treeOf (reqs.map (leafOf ver)))))]⟩
      (fun i nonce => RT.respond E.S E.H (protoOfVer ver) K.seed (onlOf K ver) (midpVal ver now) (radiOf ver)
        0 (2 ^ 64 - 1) (reqs.map (leafOf ver)) i nonce)
      (ss_kindOf ver) reqs.length
      (by
        intro i nonce src hi hnl
        have hp := hpaths i (by simpa using hi)
        exact ss_respondOne_none E K ver _ _ t' _ debug i nonce src hp hnl)
      reqs 0 gs (by omega) hn hg
    simp only [Nat.zero_add] at hall
    rw [hall, bind_ok]
    rfl

/-- One responder, one batch, arbitrary drawable fault-injection decisions: `send_responses` returns
    normally, keeps key material and certificate, and leaves a tree with at least one level. -/
theorem ss_send_safe (E : Env) (hE : EnvOK E) (K : Keys) (ver : Version) (now : Nat × Nat)
    (reqs : List (Datagram × Bytes)) (r : Responder) (t0 : Tree) (debug : Bool) (gs : List Grease)
    (hver : r.ver = ver) (honl : r.onl = ⟨onlOf K ver, []⟩)
    (hreq : r.requests = reqs.map ss_reqOf) (ht0 : t0.levels ≠ [])
    (htree : pushAll (E.mcfg ver) (reset t0) (reqs.map (leafOf ver)) = .ok r.tree)
    (hrt : r.tree.levels ≠ [])
    (hsz : reqs.length ≤ 2 ^ 32) (hn : ∀ x ∈ reqs, 4 ≤ x.2.length) (hclk : clockOK now)
    (hg : ∀ g ∈ gs, GreaseOK g) :
    ∃ t' sent ev, Responder.sendResponses E r debug now gs = .ok ({ r with tree := t' }, sent, ev) ∧
      t'.levels ≠ [] := by
  obtain ⟨rv, ro, rc, rr, rt⟩ := r
  simp only at hver honl hreq htree hrt
  have hver' : ver = rv := hver.symm
  subst hver' honl hreq
  by_cases hne : reqs = []
  · subst hne
    refine ⟨rt, [], [], ?_, hrt⟩
    unfold Responder.sendResponses
    simp only [List.map_nil, List.isEmpty_nil, if_true]
  · have hlne : reqs.map (leafOf ver) ≠ [] := by simpa using hne
    obtain ⟨t', hroot, ht', hpaths⟩ := ss_send_front E hE ver (reqs.map (leafOf ver)) hlne
      (by simpa using hsz) t0 rt ht0 htree
    obtain ⟨out, hout⟩ := ss_respondAll_safe ⟨ver, ⟨onlOf K ver, []⟩, rc, reqs.map ss_reqOf, t'⟩ debug
      ⟨[(Tag.SIG, E.S.sign (onlOf K ver) (RT.srepCtx (protoOfVer ver) ++
            ss_srepOf (protoOfVer ver) (radiOf ver) (midpVal ver now)
              (MT.T.hash (RT.mcfg E.H (protoOfVer ver)) (MT.treeOf (reqs.map (leafOf ver)))))),
        (Tag.SREP, ss_srepOf (protoOfVer ver) (radiOf ver) (midpVal ver now)
              (MT.T.hash (RT.mcfg E.H (protoOfVer ver)) (MT.treeOf (reqs.map (leafOf ver)))))]⟩
      reqs.length
      (by
        intro i nonce src g hi hnl hgo
        have hp := hpaths i (by simpa using hi)
        obtain ⟨m', hm'⟩ := ss_applyGrease_ok g hgo _ nonce _ _ rc (le32 i)
        exact ⟨_, ss_respondOne_of ⟨ver, ⟨onlOf K ver, []⟩, rc, reqs.map ss_reqOf, t'⟩ debug _ _ _ nonce i src
          g m' hp hnl hm'⟩)
      (reqs.map ss_reqOf) 0 gs (by simp)
      (by
        intro x hx
        obtain ⟨y, hy, rfl⟩ := List.mem_map.mp hx
        exact hn y hy)
      hg
    refine ⟨t', out.1, out.2, ?_, ht'⟩
    unfold Responder.sendResponses
    simp only [ss_map_reqOf_isEmpty reqs hne, Bool.false_eq_true, if_false]
    rw [hroot, bind_ok]
    simp only
    rw [ss_makeSrep E.S (onlOf K ver) ver now _ hclk, bind_ok]
    simp only
    rw [hout, bind_ok]

end Rough.Lemmas.ServerSpec

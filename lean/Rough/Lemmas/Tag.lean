import Rough.Lemmas.Bytes
import Rough.Spec.Codec
/-
  Facts about the 18-entry tag table: wire round trip, order, bounded length of ascending lists,
  agreement of the reference decoder's word-level lookup with `Tag.ofWire`.
-/
namespace Rough.Lemmas
open Rough

@[simp] theorem wire_length (t : Tag) : t.wire.length = 4 := by cases t <;> rfl

@[simp] theorem length_flatMap_wire (l : List Tag) : (l.flatMap Tag.wire).length = 4 * l.length :=
  length_flatMap_const Tag.wire 4 wire_length l

theorem idx_lt (t : Tag) : t.idx < 18 := by cases t <;> decide

theorem ofWire_wire (t : Tag) : Tag.ofWire t.wire = some t := by cases t <;> decide

theorem wire_of_ofWire {w : Bytes} {t : Tag} (h : Tag.ofWire w = some t) : t.wire = w := by
  have := List.find?_some h
  simpa using this

theorem ofWire_eq_some_iff {w : Bytes} {t : Tag} : Tag.ofWire w = some t ↔ t.wire = w :=
  ⟨wire_of_ofWire, fun h => h ▸ ofWire_wire t⟩

theorem tag_wire (t : Tag) (w : Bytes) :
    Tag.ofWire t.wire = some t ∧ (Tag.ofWire w = some t → t.wire = w) :=
  ⟨ofWire_wire t, wire_of_ofWire⟩

theorem wire_inj {a b : Tag} (h : a.wire = b.wire) : a = b := by
  have := ofWire_wire a
  rw [h, ofWire_wire] at this
  exact (Option.some.inj this).symm

/-- numeric wire values, by table -/
theorem tagNum_table (t : Tag) : Spec.tagNum t =
    match t with
    | .SIG => 0x00474953 | .VER => 0x00524556 | .SRV => 0x00565253 | .NONC => 0x434e4f4e
    | .DELE => 0x454c4544 | .PATH => 0x48544150 | .RADI => 0x49444152 | .PUBK => 0x4b425550
    | .MIDP => 0x5044494d | .SREP => 0x50455253 | .VERS => 0x53524556 | .MINT => 0x544e494d
    | .ROOT => 0x544f4f52 | .CERT => 0x54524543 | .MAXT => 0x5458414d | .INDX => 0x58444e49
    | .ZZZZ => 0x5a5a5a5a | .PAD => 0xff444150 := by
  cases t <;> decide

theorem tag_order (a b : Tag) : a.idx < b.idx ↔ Spec.tagNum a < Spec.tagNum b := by
  rw [tagNum_table a, tagNum_table b]
  cases a <;> cases b <;> decide

/-- a list of tags with strictly increasing enum index has at most 18 elements -/
theorem sorted_length_aux (l : List Tag) : ∀ k, (∀ t ∈ l, k ≤ t.idx) →
    l.Pairwise (fun a b => a.idx < b.idx) → l.length ≤ 18 - k := by
  induction l with
  | nil => intros; simp
  | cons t l ih =>
    intro k hk hp
    rw [List.pairwise_cons] at hp
    have h1 := ih (t.idx + 1) (fun u hu => hp.1 u hu) hp.2
    have h2 := hk t (by simp)
    have h3 := idx_lt t
    simp only [List.length_cons]; omega

theorem sorted_length_le {l : List Tag} (h : l.Pairwise (fun a b => a.idx < b.idx)) :
    l.length ≤ 18 := by
  simpa using sorted_length_aux l 0 (by simp) h

/-! ### word-level lookup of the reference decoder -/

theorem wordVal_four (a b c d : UInt8) :
    Spec.wordVal [a, b, c, d] = a.toNat + 256 * b.toNat + 65536 * c.toNat + 16777216 * d.toNat := rfl

theorem wordVal_eq_leVal {w : Bytes} (h : w.length = 4) : Spec.wordVal w = leVal w := by
  obtain ⟨x, y, z, u, rfl⟩ := eq_four h
  rw [wordVal_four, leVal_four]

theorem wordVal_eq_rd32 {w : Bytes} (h : w.length = 4) : Spec.wordVal w = rd32 w := by
  rw [wordVal_eq_leVal h, rd32, List.take_of_length_le (by omega)]

theorem wordVal_inj {v w : Bytes} (hv : v.length = 4) (hw : w.length = 4)
    (h : Spec.wordVal v = Spec.wordVal w) : v = w := by
  obtain ⟨a, b, c, d, rfl⟩ := eq_four hv
  obtain ⟨a', b', c', d', rfl⟩ := eq_four hw
  simp only [wordVal_four] at h
  obtain ⟨rfl, rfl, rfl, rfl⟩ := four_inj h
  rfl

@[simp] theorem le32_wordVal {w : Bytes} (h : w.length = 4) : le32 (Spec.wordVal w) = w := by
  obtain ⟨a, b, c, d, rfl⟩ := eq_four h
  rw [wordVal_four, le32_bytes]

@[simp] theorem wordVal_le32 (n : Nat) : Spec.wordVal (le32 n) = n % 4294967296 := by
  rw [wordVal_eq_leVal (le32_length n), leVal_le32]

theorem tagOfWord_eq_ofWire {w : Bytes} (h : w.length = 4) : Spec.tagOfWord w = Tag.ofWire w := by
  unfold Spec.tagOfWord Tag.ofWire
  have : (fun t : Tag => decide (Spec.tagNum t = Spec.wordVal w)) = (fun t => t.wire == w) := by
    funext t
    by_cases hw : t.wire = w
    · subst hw; simp [Spec.tagNum]
    · have : Spec.tagNum t ≠ Spec.wordVal w := fun e => hw (wordVal_inj (wire_length t) h e)
      simp [hw, this]
  rw [this]

theorem tagNum_wire (t : Tag) : Spec.wordVal t.wire = Spec.tagNum t := rfl

end Rough.Lemmas

import Rough.Lemmas.Loop
namespace Rough.Lemmas.Loop2
open Rough Rough.EventLoop Rough.LoopSpec Rough.ServerSpec Rough.Stats
open Rough.Lemmas.Loop

/-! ### how many datagrams a pass can send (no invariant on the server state) -/

/-- number of queued requests of both responders -/
def l2Reqs (s : Server) : Nat := s.ietf.requests.length + s.classic.requests.length

theorem l2_add_len (E : Env) (r r' : Responder) (leaf nonce : Bytes) (src : Addr)
    (h : Responder.add E r leaf nonce src = .ok r') : r'.requests.length = r.requests.length + 1 := by
  unfold Responder.add at h
  obtain ⟨t, _, h2⟩ := lb_bind_inv h
  cases h2
  simp

theorem l2_collectOne_len (E : Env) (s : Server) (d : Datagram) (s' : Server) (e : Event)
    (h : Server.collectOne E s d = .ok (s', e)) : l2Reqs s' ≤ l2Reqs s + 1 := by
  unfold Server.collectOne at h
  split at h
  · obtain ⟨r, h1, h2⟩ := lb_bind_inv h
    have := l2_add_len E _ _ _ _ _ h1
    cases h2
    simp only [l2Reqs]; omega
  · obtain ⟨r, h1, h2⟩ := lb_bind_inv h
    have := l2_add_len E _ _ _ _ _ h1
    cases h2
    simp only [l2Reqs]; omega
  · cases h; omega
  · cases h

theorem l2_collect_len (E : Env) : ∀ (ds : List Datagram) (s s' : Server) (ev : List Event),
    Server.collect E s ds = .ok (s', ev) → l2Reqs s' ≤ l2Reqs s + ds.length := by
  intro ds
  induction ds with
  | nil => intro s s' ev h; simp only [Server.collect] at h; cases h; simp
  | cons d ds ih =>
    intro s s' ev h
    simp only [Server.collect] at h
    obtain ⟨⟨s1, e⟩, h1, h2⟩ := lb_bind_inv h
    obtain ⟨⟨s2, es⟩, h3, h4⟩ := lb_bind_inv h2
    have h5 := ih s1 s2 es h3
    have h6 := l2_collectOne_len E s d s1 e h1
    cases h4
    simp only [List.length_cons]; omega

theorem l2_respondAll_len (r : Responder) (debug : Bool) (srep : Msg) :
    ∀ (reqs : List (Bytes × Addr)) (idx : Nat) (gs : List Grease) (ss : List Sent) (es : List Event),
    Responder.respondAll r debug srep idx reqs gs = .ok (ss, es) → ss.length = reqs.length := by
  intro reqs
  induction reqs with
  | nil =>
    intro idx gs ss es h
    simp only [Responder.respondAll] at h
    cases h; rfl
  | cons q rest ih =>
    intro idx gs ss es h
    obtain ⟨nonce, src⟩ := q
    simp only [Responder.respondAll] at h
    obtain ⟨⟨s, e⟩, _, h2⟩ := lb_bind_inv h
    obtain ⟨⟨ss', es'⟩, h3, h4⟩ := lb_bind_inv h2
    have := ih _ _ _ _ h3
    cases h4
    simp only [List.length_cons, this]

theorem l2_sendResponses_len (E : Env) (r : Responder) (debug : Bool) (now : Nat × Nat) (gs : List Grease)
    (r' : Responder) (ss : List Sent) (es : List Event)
    (h : Responder.sendResponses E r debug now gs = .ok (r', ss, es)) : ss.length ≤ r.requests.length := by
  unfold Responder.sendResponses at h
  split at h
  · cases h; simp
  · obtain ⟨⟨t, root⟩, _, h2⟩ := lb_bind_inv h
    obtain ⟨⟨srep, onl'⟩, _, h3⟩ := lb_bind_inv h2
    obtain ⟨⟨ss', es'⟩, h4, h5⟩ := lb_bind_inv h3
    have := l2_respondAll_len _ _ _ _ _ _ _ _ h4
    cases h5
    omega

theorem l2_pass_len (E : Env) (debug : Bool) (s : Server) (p : Server.Pass) (s' : Server)
    (sent : List Sent) (ev : List Event) (h : Server.pass E debug s p = .ok (s', sent, ev)) :
    sent.length ≤ (p.chunk.take s.batchSize).length := by
  unfold Server.pass at h
  obtain ⟨⟨s1, ev1⟩, h1, h2⟩ := lb_bind_inv h
  obtain ⟨⟨rI, sentI, evI⟩, g1, h3⟩ := lb_bind_inv h2
  obtain ⟨⟨rC, sentC, evC⟩, g2, h4⟩ := lb_bind_inv h3
  have h5 := l2_collect_len E _ _ _ _ h1
  have h6 := l2_sendResponses_len E _ _ _ _ _ _ _ g1
  have h7 := l2_sendResponses_len E _ _ _ _ _ _ _ g2
  cases h4
  simp only [l2Reqs, Responder.reset, List.length_nil, Nat.add_zero, Nat.zero_add] at h5
  simp only [List.length_append]
  omega

theorem l2_run_len (E : Env) (debug : Bool) : ∀ (ps : List Server.Pass) (s s' : Server)
    (sent : List Sent) (ev : List Event), Server.run E debug s ps = .ok (s', sent, ev) →
    sent.length ≤ ps.length * s.batchSize ∧ s'.batchSize = s.batchSize := by
  intro ps
  induction ps with
  | nil => intro s s' sent ev h; simp only [Server.run] at h; cases h; simp
  | cons p ps ih =>
    intro s s' sent ev h
    simp only [Server.run] at h
    obtain ⟨⟨s1, sent1, ev1⟩, h1, h2⟩ := lb_bind_inv h
    obtain ⟨⟨s2, sent2, ev2⟩, h3, h4⟩ := lb_bind_inv h2
    have a1 := l2_pass_len E debug s p s1 sent1 ev1 h1
    have a2 := lb_pass_bs E debug s p s1 sent1 ev1 h1
    obtain ⟨b1, b2⟩ := ih s1 s2 sent2 ev2 h3
    cases h4
    rw [a2] at b1 b2
    refine ⟨?_, b2⟩
    have a3 : (p.chunk.take s.batchSize).length ≤ s.batchSize := by
      simp only [List.length_take]; omega
    simp only [List.length_append, List.length_cons, Nat.succ_mul]
    omega

/-- one socket service: at most `M` batches, at most `M * batch_size` datagrams sent -/
theorem l2_service_bound (E : Env) (debug : Bool) (M : Nat) (st : Loop) (ins : Nat → PassIn)
    (st' : Loop) (o : Out) (h : serviceSocket E debug M st ins = .ok (st', o)) :
    o.batches ≤ M ∧ o.sent.length ≤ M * st.srv.batchSize ∧ st'.srv.batchSize = st.srv.batchSize := by
  rw [service_refines] at h
  obtain ⟨⟨srv', sent, ev⟩, h1, h2⟩ := lb_bind_inv h
  have hb := (plan_bounded st.srv.batchSize M st.sockQ ins).1
  obtain ⟨a1, a2⟩ := l2_run_len E debug _ _ _ _ _ h1
  cases h2
  refine ⟨hb, ?_, a2⟩
  exact Nat.le_trans a1 (Nat.mul_le_mul_right _ hb)

/-! ### the `for` loop: at most one socket service -/

theorem l2_step_bound (E : Env) (debug : Bool) (ins : Nat → PassIn) (t : Token) (st : Loop) (sv : Bool)
    (st1 : Loop) (o1 : Out) (sv1 : Bool) (h : stepTok E debug ins t st sv = .ok (st1, o1, sv1)) :
    st1.srv.batchSize = st.srv.batchSize ∧
    (t = .message → o1.batches ≤ 16 ∧ o1.sent.length ≤ 16 * st.srv.batchSize ∧ sv1 = true) ∧
    (t ≠ .message → o1.batches = 0 ∧ o1.sent = [] ∧ sv1 = sv) := by
  cases t with
  | message =>
    simp only [stepTok] at h
    obtain ⟨⟨st2, o2⟩, h1, h2⟩ := lb_bind_inv h
    obtain ⟨a1, a2, a3⟩ := l2_service_bound E debug _ st ins st2 o2 h1
    cases h2
    exact ⟨a3, fun _ => ⟨a1, a2, rfl⟩, fun h => absurd rfl h⟩
  | healthCheck =>
    simp only [stepTok] at h
    obtain ⟨⟨st2, o2⟩, h1, h2⟩ := lb_bind_inv h
    obtain ⟨_, f2, f3⟩ := lb_hc_inv st st2 o2 h1
    cases h2
    subst f2 f3
    exact ⟨rfl, (fun h => nomatch h), fun _ => ⟨rfl, rfl, rfl⟩⟩
  | statusUpdate =>
    simp only [stepTok] at h
    cases h
    obtain ⟨f1, _⟩ := lb_stats_frame st
    exact ⟨by rw [f1], (fun h => nomatch h), fun _ => ⟨rfl, rfl, rfl⟩⟩

theorem l2_handle_bound (E : Env) (debug : Bool) (ins : Nat → PassIn) : ∀ (ts : List Token) (st : Loop) (sv : Bool)
    (st' : Loop) (o : Out) (sv' : Bool), ts.Nodup → handleEvents E debug ins ts st sv = .ok (st', o, sv') →
    st'.srv.batchSize = st.srv.batchSize ∧ o.batches ≤ 16 ∧ o.sent.length ≤ 16 * st.srv.batchSize ∧
    (Token.message ∈ ts → sv' = true) ∧
    (Token.message ∉ ts → o.batches = 0 ∧ o.sent = [] ∧ sv' = sv) := by
  intro ts
  induction ts with
  | nil =>
    intro st sv st' o sv' _ h
    rw [lb_handle_nil] at h
    cases h
    exact ⟨rfl, Nat.zero_le _, Nat.zero_le _, (fun h => by simp at h), fun _ => ⟨rfl, rfl, rfl⟩⟩
  | cons t ts ih =>
    intro st sv st' o sv' hnd h
    obtain ⟨hnt, hnd'⟩ := List.nodup_cons.mp hnd
    rw [lb_handle_cons] at h
    obtain ⟨⟨st1, o1, sv1⟩, h1, h2⟩ := lb_bind_inv h
    obtain ⟨⟨st2, o2, sv2⟩, h3, h4⟩ := lb_bind_inv h2
    obtain ⟨s1, s2, s3⟩ := l2_step_bound E debug ins t st sv st1 o1 sv1 h1
    obtain ⟨i1, i2, i3, i4, i5⟩ := ih st1 sv1 st2 o2 sv2 hnd' h3
    cases h4
    by_cases ht : t = Token.message
    · subst ht
      obtain ⟨a1, a2, a3⟩ := s2 rfl
      obtain ⟨b1, b2, b3⟩ := i5 hnt
      refine ⟨by rw [i1, s1], ?_, ?_, fun _ => by rw [b3, a3], fun hm => absurd (by simp) hm⟩
      · simp only [Out.append, b1]; omega
      · simp only [Out.append, b2, List.append_nil]; exact a2
    · obtain ⟨a1, a2, a3⟩ := s3 ht
      rw [s1] at i3
      refine ⟨by rw [i1, s1], ?_, ?_, ?_, ?_⟩
      · simp only [Out.append, a1]; omega
      · simp only [Out.append, a2, List.nil_append]; exact i3
      · intro hm
        simp only [List.mem_cons] at hm
        rcases hm with hm | hm
        · exact absurd hm.symm ht
        · exact i4 hm
      · intro hm
        simp only [List.mem_cons, not_or] at hm
        obtain ⟨b1, b2, b3⟩ := i5 hm.2
        refine ⟨?_, ?_, by rw [b3, a3]⟩
        · simp only [Out.append, a1, b1]
        · simp only [Out.append, a2, b2, List.append_nil]

theorem call_batches_bounded (E : Env) (debug : Bool) (st : Loop) (c : CallIn) (he : EventsOK st c)
    (st' : Loop) (out : Out) (hr : processEvents E debug st c = .ok (st', out)) :
    out.batches ≤ 16 ∧ out.sent.length ≤ 16 * st.srv.batchSize := by
  rw [lb_process_eq] at hr
  obtain ⟨⟨st1, o1, sv1⟩, h1, h2⟩ := lb_bind_inv hr
  obtain ⟨a1, a2, a3, a4, a5⟩ := l2_handle_bound E debug c.passes c.events (lbSt0 st c) false st1 o1 sv1 he.1 h1
  simp only [lb_st0_srv] at a1 a3
  by_cases hc : (st1.backlog && !sv1) = true
  · simp only [hc, if_true] at h2
    obtain ⟨⟨st2, o2⟩, g1, g2⟩ := lb_bind_inv h2
    obtain ⟨b1, b2, _⟩ := l2_service_bound E debug _ st1 c.passes st2 o2 g1
    have hsv : sv1 = false := by
      cases hsv : sv1 with
      | false => rfl
      | true => simp [hsv] at hc
    have hm : Token.message ∉ c.events := by
      intro hm
      rw [a4 hm] at hsv
      cases hsv
    obtain ⟨c1, c2, _⟩ := a5 hm
    cases g2
    rw [a1] at b2
    refine ⟨?_, ?_⟩
    · simp only [Out.append, c1, Nat.zero_add]; exact b1
    · simp only [Out.append, c2, List.nil_append]; exact b2
  · simp only [hc] at h2
    cases h2
    exact ⟨a2, a3⟩

/-! ### the polling loop -/

theorem l2_polling (E : Env) (hE : EnvOK E) (K : Keys) (hK : K.OK) (debug : Bool) (flagAt : Nat)
    (calls : Nat → CallIn) (hl : Bool)
    (hi : ∀ k, InsSafe (calls k).passes ∧ (Token.healthCheck ∈ (calls k).events → hl = true)) :
    ∀ (fuel k : Nat) (st : Loop), Inv E K st.srv → st.srv.batchSize ≤ 2 ^ 32 → st.hcListener = hl →
    k ≤ flagAt → flagAt < k + fuel →
    ∃ st' outs, pollingLoop E debug flagAt calls fuel k st = .ok (some flagAt, st', outs) ∧
      outs.length = flagAt - k + 1 ∧ Inv E K st'.srv := by
  intro fuel
  induction fuel with
  | zero => intro k st _ _ _ h1 h2; omega
  | succ fuel ih =>
    intro k st hs hb hh h1 h2
    obtain ⟨hk1, hk2⟩ := hi k
    obtain ⟨st1, o1, r1, r2, r3, r4⟩ := call_safe E hE K hK debug st hs hb (calls k) hk1
      (fun h => by rw [hh]; exact hk2 h)
    by_cases hf : flagAt ≤ k
    · have hek : k = flagAt := by omega
      subst hek
      refine ⟨st1, [o1], ?_, by simp, r2⟩
      simp only [pollingLoop, r1, lb_bind_ok, Nat.le_refl, if_true]
    · obtain ⟨st2, outs, g1, g2, g3⟩ := ih (k + 1) st1 r2 (by omega) (by rw [r4, hh]) (by omega) (by omega)
      refine ⟨st2, o1 :: outs, ?_, by simp only [List.length_cons, g2]; omega, g3⟩
      simp only [pollingLoop, r1, lb_bind_ok, hf, if_false, g1]

theorem polling_exits (E : Env) (hE : EnvOK E) (K : Keys) (hK : K.OK) (debug : Bool) (st : Loop)
    (hs : Inv E K st.srv) (hb : st.srv.batchSize ≤ 2 ^ 32) (flagAt : Nat) (calls : Nat → CallIn)
    (hi : ∀ k, InsSafe (calls k).passes ∧ (Token.healthCheck ∈ (calls k).events → st.hcListener = true))
    (fuel : Nat) (hf : flagAt < fuel) :
    ∃ st' outs, pollingLoop E debug flagAt calls fuel 0 st = .ok (some flagAt, st', outs) ∧
      outs.length = flagAt + 1 ∧ Inv E K st'.srv := by
  obtain ⟨st', outs, h1, h2, h3⟩ := l2_polling E hE K hK debug flagAt calls st.hcListener hi fuel 0 st hs hb rfl
    (Nat.zero_le _) (by omega)
  exact ⟨st', outs, h1, by omega, h3⟩

/-! ### distribution over the workers' sockets -/

/-- the datagram is an accepted request of protocol `ver` -/
def l2Acc (srv : Bytes) (ver : Version) (d : Datagram) : Bool :=
  match nonceFromRequest d.bytes srv with
  | .ok (_, v) => decide (v = ver)
  | _ => false

theorem l2_accepted_count (srv : Bytes) (ver : Version) (l : List Datagram) :
    (accepted srv ver l).length = l.countP (l2Acc srv ver) := by
  induction l with
  | nil => rfl
  | cons d ds ih =>
    rw [List.countP_cons, ← ih]
    cases hv : nonceFromRequest d.bytes srv with
    | ok a =>
      obtain ⟨n, v⟩ := a
      by_cases hvv : v = ver
      · simp [accepted, l2Acc, hv, hvv]
      · simp [accepted, l2Acc, hv, hvv]
    | err => simp [accepted, l2Acc, hv]
    | panic s => simp [accepted, l2Acc, hv]

theorem l2_sum_count (srv : Bytes) (ver : Version) (queues : List (List Datagram)) :
    (queues.map fun q => (accepted srv ver q).length).sum = queues.flatten.countP (l2Acc srv ver) := by
  induction queues with
  | nil => rfl
  | cons q qs ih =>
    rw [List.map_cons, List.sum_cons, List.flatten_cons, List.countP_append, ih, l2_accepted_count]

theorem distribution_independent (srv : Bytes) (ver : Version) (queues : List (List Datagram))
    (all : List Datagram) (hperm : queues.flatten.Perm all) :
    (queues.map fun q => (accepted srv ver q).length).sum = (accepted srv ver all).length := by
  rw [l2_sum_count, l2_accepted_count]
  exact hperm.countP_eq _

end Rough.Lemmas.Loop2

import Rough.Lemmas.ExtraBasic
import Rough.Lemmas.ExtraGrease
import Rough.Lemmas.ExtraRT
import Rough.Lemmas.ExtraStats
/-
  Lemmas behind Rough/Props/Extra.lean, all in namespace `Rough.Lemmas.Extra`:
  `run_sound`, `encode_decode_unbounded`, `run_append`, `grease_corrupt_sig` (ExtraBasic),
  `grease_reorder` (ExtraGrease), `no_nonc_rejected` (ExtraRT), `pipeline` (ExtraStats).
-/

import Rough.Model.Startup
import Rough.Model.Shutdown
/-
  Lemmas for C15 (start-up resource logic, validity preconditions) and C19 (polling loop versus the
  shutdown flag under an adversarial arrival process).
-/
namespace Rough.Lemmas.Runtime
open Rough Rough.Startup Rough.Shutdown Rough.Config

/-! ## Start-up -/

/-- one step from a healthy state with all listeners bound with SO_REUSEPORT -/
theorem startWorker_ok (hc : Bool) (st : State) (w : Nat)
    (hp : st.mutexPoisoned = false) (hl : ∀ l ∈ st.listeners, l.2 = true) :
    let st' := startWorker hc true st w
    st'.running = st.running ++ [w] ∧ st'.panicked = st.panicked ∧ st'.mutexPoisoned = false ∧
    (∀ l ∈ st'.listeners, l.2 = true) ∧
    (hc = true → st'.listeners.map (·.1) = st.listeners.map (·.1) ++ [w]) ∧
    (hc = false → st'.listeners = st.listeners) := by
  have hall : st.listeners.all (fun l => l.2 && true) = true := by
    simp only [List.all_eq_true, Bool.and_true]
    exact hl
  cases hc with
  | false =>
    simp only [startWorker, hp]
    refine ⟨rfl, rfl, rfl, hl, ?_, fun _ => rfl⟩
    intro h; cases h
  | true =>
    simp only [startWorker, hp, tcpBind, hall]
    refine ⟨rfl, rfl, rfl, ?_, fun _ => by simp, ?_⟩
    · intro l hmem
      rcases List.mem_append.mp hmem with h | h
      · exact hl l h
      · simp at h; rw [h]
    · intro h; cases h

/-- `startAll` generalised to any healthy start state -/
theorem foldl_ok (hc : Bool) (order : List Nat) (st : State)
    (hp : st.mutexPoisoned = false) (hl : ∀ l ∈ st.listeners, l.2 = true) :
    let st' := order.foldl (startWorker hc true) st
    st'.running = st.running ++ order ∧ st'.panicked = st.panicked ∧ st'.mutexPoisoned = false ∧
    (hc = true → st'.listeners.map (·.1) = st.listeners.map (·.1) ++ order) := by
  induction order generalizing st with
  | nil => simp [hp]
  | cons w rest ih =>
    obtain ⟨h1, h2, h3, h4, h5, _⟩ := startWorker_ok hc st w hp hl
    obtain ⟨i1, i2, i3, i4⟩ := ih (startWorker hc true st w) h3 h4
    simp only [List.foldl_cons]
    refine ⟨?_, ?_, i3, ?_⟩
    · rw [i1, h1]; simp
    · rw [i2, h2]
    · intro h; rw [i4 h, h5 h]; simp

theorem all_start (hc : Bool) (order : List Nat) :
    let st := startAll hc true order
    st.running = order ∧ st.panicked = [] ∧ st.mutexPoisoned = false ∧
    (hc = true → st.listeners.map (·.1) = order) := by
  have h := foldl_ok hc order {} rfl (by simp)
  simpa [startAll] using h

/-- from a poisoned state every further worker panics and nothing else changes -/
theorem foldl_poisoned (hc reuse : Bool) (order : List Nat) (st : State) (hp : st.mutexPoisoned = true) :
    let st' := order.foldl (startWorker hc reuse) st
    st'.running = st.running ∧ st'.panicked = st.panicked ++ order ∧ st'.mutexPoisoned = true := by
  induction order generalizing st with
  | nil => simp [hp]
  | cons w rest ih =>
    have hs : startWorker hc reuse st w = { st with panicked := st.panicked ++ [w] } := by
      simp [startWorker, hp]
    obtain ⟨i1, i2, i3⟩ := ih (startWorker hc reuse st w) (by rw [hs]; exact hp)
    simp only [List.foldl_cons]
    refine ⟨?_, ?_, i3⟩
    · rw [i1, hs]
    · rw [i2, hs]; simp

theorem unfixed_start (first second : Nat) (rest : List Nat) :
    let st := startAll true false (first :: second :: rest)
    st.running = [first] ∧ st.panicked = second :: rest ∧ st.mutexPoisoned = true := by
  have h := foldl_poisoned true false rest
    { listeners := [(first, false)], mutexPoisoned := true, running := [first], panicked := [second] } rfl
  simpa [startAll, startWorker, tcpBind] using h

/-! ## Validity -/

theorem valid_preconditions (fs : FsFacts) (c : Cfg) (h : isValid fs c = true) :
    isIpv4 c.interface = true ∧ (c.kmsPlain = true → c.seed.length = 32) ∧ c.faultPct ≤ 100 ∧
    1 ≤ c.batchSize ∧ c.batchSize ≤ 64 ∧ 1 ≤ c.numWorkers ∧ c.port ≠ 0 := by
  simp only [isValid, decide_eq_true_eq] at h
  obtain ⟨hport, _, _, hseed, ⟨hb1, hb2⟩, hf, hw, _, hip⟩ := h
  refine ⟨hip, ?_, by omega, hb1, hb2, by omega, hport⟩
  intro hk
  simpa [hk] using hseed

/-! ## Shutdown -/

theorem call_bounded (B M q : Nat) (arr : Nat → Nat) : (serviceCall B M q arr).1 ≤ M := by
  induction M generalizing q arr with
  | zero => simp [serviceCall]
  | succ M ih =>
    unfold serviceCall
    simp only
    split
    · simp
    · have := ih (q - min q B + arr 0) (fun i => arr (i + 1))
      simp only [ge_iff_le]
      omega

theorem workerLoop_exits (B M flagAt : Nat) (arr : Nat → Nat → Nat) (fuel k q : Nat)
    (hk : k ≤ flagAt) (hf : flagAt - k < fuel) :
    workerLoop B M flagAt arr fuel k q = some flagAt := by
  induction fuel generalizing k q with
  | zero => omega
  | succ fuel ih =>
    unfold workerLoop
    simp only
    split
    · have : k = flagAt := by omega
      simp [this]
    · apply ih <;> omega

theorem worker_exits (B M flagAt : Nat) (arr : Nat → Nat → Nat) (q0 : Nat) (fuel : Nat) (hf : flagAt < fuel) :
    workerLoop B M flagAt arr fuel 0 q0 = some flagAt :=
  workerLoop_exits B M flagAt arr fuel 0 q0 (Nat.zero_le _) (by omega)

theorem reporterLoop_exits (flagAt fuel k : Nat) (hk : k ≤ flagAt) (hf : flagAt - k < fuel) :
    reporterLoop flagAt fuel k = some flagAt := by
  induction fuel generalizing k with
  | zero => omega
  | succ fuel ih =>
    unfold reporterLoop
    split
    · have : k = flagAt := by omega
      simp [this]
    · apply ih <;> omega

theorem reporter_exits (flagAt fuel : Nat) (hf : flagAt < fuel) : reporterLoop flagAt fuel 0 = some flagAt :=
  reporterLoop_exits flagAt fuel 0 (Nat.zero_le _) (by omega)

theorem flood_starves (B : Nat) (_hB : 0 < B) (q : Nat) (hq : B ≤ q) (fuel : Nat) :
    serviceUnbounded B fuel q (fun _ => B) = none := by
  induction fuel generalizing q with
  | zero => simp [serviceUnbounded]
  | succ fuel ih =>
    unfold serviceUnbounded
    have hmin : min q B = B := Nat.min_eq_right hq
    simp only [hmin, Nat.lt_irrefl, if_false]
    exact ih (q - B + B) (by omega)

end Rough.Lemmas.Runtime

import Rough.Lemmas.ClientBase
/-
  The reference reply `RT.respond` for arbitrary `mint`/`maxt`, taken apart: named pieces, their
  lengths, and what the reference decoder (hence, below 2^32 bytes, the model decoder) makes of them.
  Used by `no_replay` (C01) and `accept` (C03).
-/
namespace Rough.Lemmas.Client
open Rough Rough.Spec Rough.Spec.RT Rough.Spec.MT Rough.Client Rough.Merkle Rough.ServerSpec Rough.Lemmas
open Rough.Lemmas.SpecRT

/-- the parameters of one reference reply -/
structure RParams where
  S : SigScheme
  H : Bytes → Bytes
  p : Proto
  ltSeed : Bytes
  onlSeed : Bytes
  midp : Nat
  radi : Nat
  mint : Nat
  maxt : Nat
  leaves : List Bytes
  i : Nat
  nonce : Bytes

namespace RParams
variable (r : RParams)

def root : Bytes := T.hash (mcfg r.H r.p) (treeOf r.leaves)
def path : Bytes := (pathOf (mcfg r.H r.p) r.leaves r.i).flatten
def deleMsg : Msg := deleM (r.S.pk r.onlSeed) (le64 r.mint) (le64 r.maxt)
def dele : Bytes := encode r.deleMsg
def certSig : Bytes := r.S.sign r.ltSeed (deleCtx r.p ++ r.dele)
def certMsg : Msg := certM r.certSig r.dele
def cert : Bytes := encode r.certMsg
def srepMsg : Msg :=
  match r.p with
  | .classic => srepC (le32 r.radi) (le64 r.midp) r.root
  | .draft13 => srepD (le32 r.radi) (le64 r.midp) r.root
def srep : Bytes := encode r.srepMsg
def sig : Bytes := r.S.sign r.onlSeed (srepCtx r.p ++ r.srep)
def respMsg : Msg := respM r.sig r.nonce r.path r.srep r.cert (le32 r.i)
def body : Bytes := encode r.respMsg
def response : Bytes :=
  match r.p with
  | .classic => r.body
  | .draft13 => magic ++ le32 r.body.length ++ r.body

/-- the side conditions under which the pieces decode -/
structure OK : Prop where
  hH : ∀ x, (r.H x).length = 64
  hsig : ∀ seed m, (r.S.sign seed m).length = 64
  hpk : ∀ seed, (r.S.pk seed).length = 32
  hi : r.i < r.leaves.length
  hn : r.leaves.length ≤ 2 ^ 32
  hnonce : r.nonce.length % 4 = 0
  hnl : r.nonce.length < 2 ^ 16

theorem respond_eq :
    RT.respond r.S r.H r.p r.ltSeed r.onlSeed r.midp r.radi r.mint r.maxt r.leaves r.i r.nonce = r.response := by
  cases r with | mk S H p ltSeed onlSeed midp radi mint maxt leaves i nonce =>
  cases p <;> rfl

variable {r}

theorem root_length (h : r.OK) : r.root.length = nodeWidth r.p :=
  Lemmas.Merkle.hash_length (mcfg r.H r.p) (mcfg_hashLen r.H h.hH r.p) (treeOf r.leaves)

theorem path_length (h : r.OK) : r.path.length = nodeWidth r.p * depth r.leaves.length :=
  pathOf_flatten_length (mcfg r.H r.p) (mcfg_hashLen r.H h.hH r.p) r.leaves r.i h.hi

theorem path_chunks (h : r.OK) : chunks (nodeWidth r.p) r.path = pathOf (mcfg r.H r.p) r.leaves r.i :=
  chunks_pathOf (mcfg r.H r.p) (mcfg_hashLen r.H h.hH r.p) (nodeWidth_pos r.p) r.leaves r.i

theorem depth_le (h : r.OK) : depth r.leaves.length ≤ 32 := depth_le_32 _ h.hn

theorem i_lt (h : r.OK) : r.i < 2 ^ 32 := Nat.lt_of_lt_of_le h.hi h.hn

theorem nodeWidth_le (p : Proto) : nodeWidth p ≤ 64 ∧ nodeWidth p % 4 = 0 := by cases p <;> decide

theorem dele_length (h : r.OK) : r.dele.length = 72 := by
  rw [dele, encode_length, deleMsg, deleM_size, h.hpk]; rfl

theorem dele_decode (h : r.OK) : decode r.dele = some r.deleMsg :=
  deleM_decode _ _ _ (h.hpk _) rfl rfl

theorem cert_length (h : r.OK) : r.cert.length = 152 := by
  rw [cert, encode_length, certMsg, certM_size, certSig, h.hsig, dele_length h]

theorem cert_decode (h : r.OK) : decode r.cert = some r.certMsg :=
  certM_decode _ _ (h.hsig _ _) (dele_length h)

theorem srep_length (h : r.OK) : r.srep.length = (match r.p with | .classic => 100 | .draft13 => 96) := by
  have hr := root_length h
  cases r with | mk S H p ltSeed onlSeed midp radi mint maxt leaves i nonce =>
  cases p
  · simp only [srep, srepMsg, encode_length, srepC_size] at hr ⊢
    rw [hr]; rfl
  · simp only [srep, srepMsg, encode_length, srepD_size] at hr ⊢
    rw [hr]; rfl

theorem srep_length_le (h : r.OK) : r.srep.length ≤ 100 ∧ r.srep.length % 4 = 0 := by
  have := srep_length h
  cases hp : r.p <;> rw [hp] at this <;> simp only at this <;> omega

theorem srep_decode (h : r.OK) : decode r.srep = some r.srepMsg := by
  have hr := root_length h
  cases r with | mk S H p ltSeed onlSeed midp radi mint maxt leaves i nonce =>
  cases p
  · exact srepC_decode _ _ _ rfl rfl hr
  · exact srepD_decode _ _ _ rfl rfl hr

theorem srep_gets : r.srepMsg.get Tag.RADI = some (le32 r.radi) ∧ r.srepMsg.get Tag.MIDP = some (le64 r.midp) ∧
    r.srepMsg.get Tag.ROOT = some r.root := by
  cases r with | mk S H p ltSeed onlSeed midp radi mint maxt leaves i nonce =>
  cases p <;> exact ⟨rfl, rfl, rfl⟩

theorem sig_length (h : r.OK) : r.sig.length = 64 := h.hsig _ _

theorem body_size (h : r.OK) :
    r.body.length = 268 + r.nonce.length + nodeWidth r.p * depth r.leaves.length + r.srep.length := by
  rw [body, encode_length, respMsg, respM_size, sig_length h, path_length h, cert_length h, le32_length]
  omega

theorem body_length_le (h : r.OK) : r.body.length ≤ 368 + r.nonce.length + 64 * 32 := by
  have h1 := body_size h
  have h2 := (srep_length_le h).1
  have h3 := depth_le h
  have h4 := (nodeWidth_le r.p).1
  have : nodeWidth r.p * depth r.leaves.length ≤ 64 * 32 := Nat.mul_le_mul h4 h3
  omega

theorem body_lt (h : r.OK) : r.body.length < 2 ^ 32 := by
  have := body_length_le h
  have := h.hnl
  omega

theorem body_decode (h : r.OK) : decode r.body = some r.respMsg := by
  have hb := body_size h
  have hl := body_lt h
  have hp := path_length h
  have hw := (nodeWidth_le r.p).2
  have hs := srep_length_le h
  have hpm : r.path.length % 4 = 0 := by
    rw [hp, Nat.mul_mod, hw]; simp
  apply respM_decode
  · rw [sig_length h]
  · exact h.hnonce
  · exact hpm
  · exact hs.2
  · rw [cert_length h]
  · rw [le32_length]
  · rw [body, encode_length, respMsg, respM_size] at hl; exact hl

/-- the frame check of `RT.authentic` on the reference reply -/
theorem response_body (_h : r.OK) :
    (match r.p with
      | .classic => some r.response
      | .draft13 => if r.response.length ≥ 12 ∧ r.response.take 8 = magic then some (r.response.drop 12) else none)
      = some r.body := by
  cases hp : r.p with
  | classic => simp only [response, hp]
  | draft13 =>
    simp only [response, hp]
    have h1 : (magic ++ le32 r.body.length ++ r.body).take 8 = magic := by
      rw [List.append_assoc]; exact List.take_left' rfl
    have h2 : (magic ++ le32 r.body.length ++ r.body).drop 12 = r.body := List.drop_left' rfl
    have h3 : (magic ++ le32 r.body.length ++ r.body).length ≥ 12 := by simp [magic]
    rw [if_pos ⟨h3, h1⟩, h2]

end RParams

end Rough.Lemmas.Client

import Rough.Lemmas.SpecRTMsg
/-
  C02: a response without NONC is never accepted by the draft-13 reference verifier.
-/
namespace Rough.Lemmas.Extra
open Rough Rough.Spec Rough.Spec.RT Rough.Lemmas Rough.Lemmas.SpecRT

theorem no_nonc_error (S : SigScheme) (H : Bytes → Bytes) (ltpk request nonce response body : Bytes) (m : Msg)
    (hfr : unframe response = some body) (hd : Spec.decode body = some m) (hn : m.get Tag.NONC = none) :
    ∃ e, RT.verifyResponse S H .draft13 ltpk request nonce response = .error e := by
  cases h1 : m.get Tag.SIG with
  | none => exact ⟨_, by simp [verifyResponse, *, bind, Except.bind, pure, Except.pure, throw, throwThe, MonadExceptOf.throw]; rfl⟩
  | some sig =>
  cases h2 : m.get Tag.PATH with
  | none => exact ⟨_, by simp [verifyResponse, *, bind, Except.bind, pure, Except.pure, throw, throwThe, MonadExceptOf.throw]; rfl⟩
  | some path =>
  cases h3 : m.get Tag.SREP with
  | none => exact ⟨_, by simp [verifyResponse, *, bind, Except.bind, pure, Except.pure, throw, throwThe, MonadExceptOf.throw]; rfl⟩
  | some srepB =>
  cases h4 : m.get Tag.CERT with
  | none => exact ⟨_, by simp [verifyResponse, *, bind, Except.bind, pure, Except.pure, throw, throwThe, MonadExceptOf.throw]; rfl⟩
  | some certB =>
  cases h5 : m.get Tag.INDX with
  | none => exact ⟨_, by simp [verifyResponse, *, bind, Except.bind, pure, Except.pure, throw, throwThe, MonadExceptOf.throw]; rfl⟩
  | some indxB =>
    exact ⟨_, by simp [verifyResponse, *, bind, Except.bind, pure, Except.pure, throw, throwThe, MonadExceptOf.throw]; rfl⟩

theorem no_nonc_rejected (S : SigScheme) (H : Bytes → Bytes) (ltpk request nonce body : Bytes) (m : Msg)
    (hb : body.length < 2 ^ 32) (hd : Spec.decode body = some m) (hn : m.get Tag.NONC = none) :
    RT.accepts S H .draft13 ltpk request nonce (RT.magic ++ le32 body.length ++ body) = false := by
  obtain ⟨e, he⟩ := no_nonc_error S H ltpk request nonce _ body m (unframe_frame body hb) hd hn
  simp only [RT.accepts, he]

end Rough.Lemmas.Extra

import Rough.Lemmas.ClientBase
import Rough.Lemmas.ClientRespond
import Rough.Lemmas.ClientSound
import Rough.Lemmas.ClientReplay
import Rough.Lemmas.ClientRequest
import Rough.Lemmas.ClientAccept
/-
  Lemmas behind C01 (client soundness, no replay) and C03 (client completeness), namespace
  `Rough.Lemmas.Client`:
    `sound`              (ClientSound)   — C01_sound
    `no_replay`          (ClientReplay)  — C01_no_replay
    `request_wellformed` (ClientRequest) — C03_request_wellformed
    `accept`             (ClientAccept)  — C03_accept
    `time`               (ClientRequest) — C03_time
  Helpers: ClientBase (inversion of the client's `Res` chain, `get_length_le`, `rootFromPaths_ok`,
  `receiveResponse_ok`), ClientRespond (`RParams`: the reference reply for general mint/maxt taken
  apart, with lengths and decode facts).
-/

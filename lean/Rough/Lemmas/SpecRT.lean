import Rough.Lemmas.SpecRTMsg
/-
  C02 core: the reference verifier accepts the reference responder (`respond_accepted`);
  exact length of the reference reply (`respond_length`); depth bounds are in SpecRTBase.
-/
namespace Rough.Lemmas.SpecRT
open Rough Rough.Spec Rough.Spec.RT Rough.Spec.MT Rough.Merkle

/-- `RT.respond` in terms of the named message shapes -/
theorem respond_eq (S : SigScheme) (H : Bytes → Bytes) (p : Proto) (ltSeed onlSeed : Bytes)
    (midp radi mint maxt : Nat) (leaves : List Bytes) (i : Nat) (nonce : Bytes) :
    RT.respond S H p ltSeed onlSeed midp radi mint maxt leaves i nonce =
      let root := T.hash (mcfg H p) (treeOf leaves)
      let path := (pathOf (mcfg H p) leaves i).flatten
      let dele := encode (deleM (S.pk onlSeed) (le64 mint) (le64 maxt))
      let cert := encode (certM (S.sign ltSeed (deleCtx p ++ dele)) dele)
      let srep := match p with
        | .classic => encode (srepC (le32 radi) (le64 midp) root)
        | .draft13 => encode (srepD (le32 radi) (le64 midp) root)
      let resp := encode (respM (S.sign onlSeed (srepCtx p ++ srep)) nonce path srep cert (le32 i))
      match p with
      | .classic => resp
      | .draft13 => magic ++ le32 resp.length ++ resp := by
  cases p <;> rfl

theorem respond_length (S : SigScheme) (H : Bytes → Bytes) (hH : ∀ x, (H x).length = 64)
    (hsig : ∀ seed m, (S.sign seed m).length = 64) (hpk : ∀ seed, (S.pk seed).length = 32)
    (p : RT.Proto) (ltSeed onlSeed : Bytes) (midp radi mint maxt : Nat) (leaves : List Bytes) (i : Nat)
    (hi : i < leaves.length) (nonce : Bytes) :
    (RT.respond S H p ltSeed onlSeed midp radi mint maxt leaves i nonce).length =
      match p with
      | .classic => 368 + nonce.length + 64 * MT.depth leaves.length
      | .draft13 => 376 + nonce.length + 32 * MT.depth leaves.length := by
  have hl := mcfg_hashLen H hH p
  have hpath := pathOf_flatten_length (mcfg H p) hl leaves i hi
  have hroot := Lemmas.Merkle.hash_length (mcfg H p) hl (treeOf leaves)
  have hN : (mcfg H p).N = nodeWidth p := rfl
  rw [hN] at hpath hroot
  rw [respond_eq]
  cases p <;>
    simp only [List.length_append, encode_length, respM_size, certM_size, deleM_size, srepC_size, srepD_size,
      hsig, hpk, hpath, hroot, le32_length, le64_length, nodeWidth, magic, List.length_cons,
      List.length_nil] <;> omega

theorem respond_accepted (S : SigScheme) (hS : S.Correct) (H : Bytes → Bytes) (hH : ∀ x, (H x).length = 64)
    (hsig : ∀ seed m, (S.sign seed m).length = 64) (hpk : ∀ seed, (S.pk seed).length = 32)
    (p : RT.Proto) (ltSeed onlSeed : Bytes) (hlt : ltSeed.length = 32) (hon : onlSeed.length = 32)
    (midp radi : Nat) (hm : midp < 2 ^ 64) (hr : radi < 2 ^ 32)
    (leaves : List Bytes) (i : Nat) (hi : i < leaves.length) (hn : leaves.length ≤ 2 ^ 32)
    (request nonce : Bytes) (hnonce : nonce.length % 4 = 0) (hnl : nonce.length < 2 ^ 16)
    (hleaf : leaves[i] = (match p with | .classic => nonce | .draft13 => request)) :
    RT.verifyResponse S H p (S.pk ltSeed) request nonce
      (RT.respond S H p ltSeed onlSeed midp radi 0 (2 ^ 64 - 1) leaves i nonce) = .ok (midp, radi) := by
  have hl := mcfg_hashLen H hH p
  have hN : (mcfg H p).N = nodeWidth p := rfl
  have hNpos : 0 < (mcfg H p).N := nodeWidth_pos p
  have hpath := pathOf_flatten_length (mcfg H p) hl leaves i hi
  have hplen := pathOf_length (mcfg H p) leaves i hi
  have hchunks := chunks_pathOf (mcfg H p) hl hNpos leaves i
  have hclimb := climbChunks_pathOf (mcfg H p) hl hNpos leaves i hi
  have hroot := Lemmas.Merkle.hash_length (mcfg H p) hl (treeOf leaves)
  have hdep := depth_le_32 leaves.length hn
  have hidx := lt_two_pow_depth_of_lt hi
  have hi32 : i < 2 ^ 32 := by omega
  rw [hN] at hpath hroot hchunks
  rw [respond_eq]
  dsimp only
  -- name the pieces
  generalize hroot' : T.hash (mcfg H p) (treeOf leaves) = root at *
  generalize hpath' : (pathOf (mcfg H p) leaves i).flatten = path at *
  have hdl : (encode (deleM (S.pk onlSeed) (le64 0) (le64 (2 ^ 64 - 1)))).length = 72 := by
    rw [encode_length, deleM_size, hpk]; rfl
  have hdd := deleM_decode (S.pk onlSeed) (le64 0) (le64 (2 ^ 64 - 1)) (hpk _) rfl rfl
  generalize encode (deleM (S.pk onlSeed) (le64 0) (le64 (2 ^ 64 - 1))) = dele at *
  have hv1 := hS ltSeed (deleCtx p ++ dele) hlt
  have hcl : (encode (certM (S.sign ltSeed (deleCtx p ++ dele)) dele)).length = 152 := by
    rw [encode_length, certM_size, hsig, hdl]
  have hcd := certM_decode (S.sign ltSeed (deleCtx p ++ dele)) dele (hsig _ _) hdl
  have hcs := hsig ltSeed (deleCtx p ++ dele)
  generalize S.sign ltSeed (deleCtx p ++ dele) = certSig at *
  generalize encode (certM certSig dele) = cert at *
  have hmid := u64le_le64 midp hm
  have hrad := u32le_le32 radi hr
  have hind := u32le_le32 i hi32
  have hmin : u64le (le64 0) = 0 := u64le_le64 0 (by omega)
  have hmax : u64le (le64 (2 ^ 64 - 1)) = 2 ^ 64 - 1 := u64le_le64 _ (by omega)
  cases p with
  | classic =>
    simp only at hleaf ⊢
    simp only [nodeWidth] at hpath hroot hchunks
    have hsl : (encode (srepC (le32 radi) (le64 midp) root)).length = 100 := by
      rw [encode_length, srepC_size, hroot]; rfl
    have hsd := srepC_decode (le32 radi) (le64 midp) root rfl rfl hroot
    generalize encode (srepC (le32 radi) (le64 midp) root) = srep at *
    have hv2 := hS onlSeed (srepCtx .classic ++ srep) hon
    have hss := hsig onlSeed (srepCtx .classic ++ srep)
    generalize S.sign onlSeed (srepCtx .classic ++ srep) = sig at *
    have hrd := respM_decode sig nonce path srep cert (le32 i) (by omega) hnonce (by omega) (by omega)
      (by omega) (by rw [le32_length]) (by rw [hss, hpath, hsl, hcl, le32_length]; omega)
    have := verify_classic_ok S H (S.pk ltSeed) request nonce _ _ _ _ _ sig path srep cert (le32 i)
      certSig dele (S.pk onlSeed) (le64 0) (le64 (2 ^ 64 - 1)) (le32 radi) (le64 midp) root
      hrd rfl rfl rfl rfl rfl rfl hss rfl hcd rfl rfl hcs hdd rfl rfl rfl (hpk _) rfl rfl hv1 hv2 hsd
      rfl rfl rfl rfl rfl hroot (by omega) (by omega) (by omega) (by rw [hchunks, hplen]; exact hdep)
      (by rw [hchunks, hplen, hind]; exact hidx)
      (by rw [hchunks, hind, climb_eq_climbChunks, ← hleaf]; exact hclimb)
    rw [this, hmid, hrad]
  | draft13 =>
    simp only at hleaf ⊢
    simp only [nodeWidth] at hpath hroot hchunks
    have hsl : (encode (srepD (le32 radi) (le64 midp) root)).length = 96 := by
      rw [encode_length, srepD_size, hroot]; rfl
    have hsd := srepD_decode (le32 radi) (le64 midp) root rfl rfl hroot
    generalize encode (srepD (le32 radi) (le64 midp) root) = srep at *
    have hv2 := hS onlSeed (srepCtx .draft13 ++ srep) hon
    have hss := hsig onlSeed (srepCtx .draft13 ++ srep)
    generalize S.sign onlSeed (srepCtx .draft13 ++ srep) = sig at *
    have hrsz : 48 + sig.length + nonce.length + path.length + srep.length + cert.length + (le32 i).length
        < 2 ^ 32 := by rw [hss, hpath, hsl, hcl, le32_length]; omega
    have hrd := respM_decode sig nonce path srep cert (le32 i) (by omega) hnonce (by omega) (by omega)
      (by omega) (by rw [le32_length]) hrsz
    have hfr := unframe_frame (encode (respM sig nonce path srep cert (le32 i)))
      (by rw [encode_length, respM_size]; exact hrsz)
    have := verify_draft13_ok S H (S.pk ltSeed) request nonce _ _ _ _ _ _ sig path srep cert (le32 i)
      certSig dele (S.pk onlSeed) (le64 0) (le64 (2 ^ 64 - 1)) (le32 radi) (le64 midp) root _
      hfr hrd rfl rfl rfl rfl rfl rfl hss rfl hcd rfl rfl hcs hdd rfl rfl rfl (hpk _) rfl rfl hv1 hv2 hsd
      rfl rfl rfl rfl rfl hroot rfl rfl ver13_mem rfl (by omega) (by omega) (by omega)
      (by rw [hchunks, hplen]; exact hdep)
      (by rw [hchunks, hplen, hind]; exact hidx)
      (by rw [hchunks, hind, climb_eq_climbChunks, ← hleaf]; exact hclimb)
    rw [this, hmid, hrad]

end Rough.Lemmas.SpecRT

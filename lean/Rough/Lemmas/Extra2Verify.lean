import Rough.Lemmas.ClientBase
/-
  Inversion of the reference verifier: `RT.verifyResponse … = .ok res` taken apart into the stage
  facts it checked (frame, decodes, fields, lengths, the two signatures, window, Merkle equation).
-/
namespace Rough.Lemmas.Extra2
open Rough Rough.Spec Rough.Spec.RT Rough.Lemmas.Client

/-- everything an accepting run of `RT.verifyResponse` established (the NONC echo and the draft-13
    VER/VERS checks are not recorded: no user needs them) -/
structure VStages (S : SigScheme) (H : Bytes → Bytes) (p : Proto) (ltpk request nonce response : Bytes)
    (res : Nat × Nat) (body : Bytes) (m cert dele srep : Msg)
    (sig path srepB certB indxB certSig deleB pubk mint maxt radi midp root : Bytes) : Prop where
  hb : (match p with | .classic => some response | .draft13 => unframe response) = some body
  hm : decode body = some m
  h1 : m.get Tag.SIG = some sig
  h2 : m.get Tag.PATH = some path
  h3 : m.get Tag.SREP = some srepB
  h4 : m.get Tag.CERT = some certB
  h5 : m.get Tag.INDX = some indxB
  h7 : sig.length = 64
  h8 : indxB.length = 4
  hc : decode certB = some cert
  h9 : cert.get Tag.SIG = some certSig
  h10 : cert.get Tag.DELE = some deleB
  h11 : certSig.length = 64
  hd : decode deleB = some dele
  h12 : dele.get Tag.PUBK = some pubk
  h13 : dele.get Tag.MINT = some mint
  h14 : dele.get Tag.MAXT = some maxt
  h15 : pubk.length = 32
  h16 : mint.length = 8
  h17 : maxt.length = 8
  h18 : S.verify ltpk (deleCtx p ++ deleB) certSig = true
  h19 : S.verify pubk (srepCtx p ++ srepB) sig = true
  hs : decode srepB = some srep
  h20 : srep.get Tag.RADI = some radi
  h21 : srep.get Tag.MIDP = some midp
  h22 : srep.get Tag.ROOT = some root
  h23 : radi.length = 4
  h24 : midp.length = 8
  h25 : root.length = nodeWidth p
  h26 : u64le mint ≤ u64le midp
  h27 : u64le midp ≤ u64le maxt
  h28 : path.length % nodeWidth p = 0
  h29 : (chunks (nodeWidth p) path).length ≤ 32
  h30 : u32le indxB < 2 ^ (chunks (nodeWidth p) path).length
  h31 : climb H p (RT.hash H p ((0x00 : UInt8) :: leafFor p nonce request)) (u32le indxB)
    (chunks (nodeWidth p) path) = root
  hres : res = (u64le midp, u32le radi)

theorem get_inv {m : Msg} {t : Tag} {e : String} {v : Bytes}
    (h : (match m.get t with | some v => Except.ok v | none => Except.error e : Except String Bytes) = .ok v) :
    m.get t = some v := by
  cases hx : m.get t with
  | none => rw [hx] at h; cases h
  | some w => rw [hx] at h; cases h; rfl

theorem ite_ok {β} {c : Prop} [Decidable c] {e : String} {k : Except String β} {r : β}
    (h : (if c then Except.error e else k) = .ok r) : ¬ c ∧ k = .ok r := by
  by_cases hc : c
  · rw [if_pos hc] at h; cases h
  · rw [if_neg hc] at h; exact ⟨hc, h⟩

set_option hygiene false in
/-- a `get` stage: `match (match m.get t …) with | error e => error e | ok v => K v` -/
local macro "gstage" x:ident hx:ident : tactic =>
  `(tactic| (split at h; (· cases h); rename_i _ $x:ident hx'; have $hx := get_inv hx'; clear hx'))

set_option hygiene false in
/-- an `if bad then error else K` stage -/
local macro "istage" hx:ident : tactic =>
  `(tactic| (have hh := ite_ok h; clear h; have $hx := hh.1; have h := hh.2; clear hh))

set_option hygiene false in
/-- a `match o with | some c => K c | none => error` stage -/
local macro "dstage" x:ident hx:ident : tactic =>
  `(tactic| (split at h; rotate_left; (· cases h); rename_i _ $x:ident $hx:ident))

set_option hygiene false in
/-- the stages from `SIG length` to the end, common to all four (protocol, NONC) cases -/
local macro "tail_stages" : tactic =>
  `(tactic| (
    istage h7; istage h8
    dstage cert hc; gstage certSig h9; gstage deleB h10; istage h11
    dstage dele hd; gstage pubk h12; gstage mint h13; gstage maxt h14
    istage h15; istage h18; istage h19
    dstage srep hs; gstage radi h20; gstage midp h21; gstage root h22
    istage h23; istage h25))

set_option hygiene false in
local macro "end_stages" : tactic =>
  `(tactic| (
    istage h26; istage h28; istage h29; istage h30; istage h31
    cases h
    exact ⟨_, _, _, _, _, _, _, _, _, _, _, _, _, _, _, _, _, _,
      ⟨hb, hm, h1, h2, h3, h4, h5, by omega, by omega, hc, h9, h10, by omega, hd, h12, h13, h14,
        by omega, by omega, by omega, by simpa using h18, by simpa using h19, hs, h20, h21, h22,
        by omega, by omega, by omega, (Decidable.not_not.mp h26).1, (Decidable.not_not.mp h26).2,
        by omega, by omega, by omega, Decidable.not_not.mp h31, rfl⟩⟩))

theorem verify_ok_inv_classic (S : SigScheme) (H : Bytes → Bytes) (ltpk request nonce response : Bytes)
    (res : Nat × Nat) (h : verifyResponse S H .classic ltpk request nonce response = .ok res) :
    ∃ body m cert dele srep sig path srepB certB indxB certSig deleB pubk mint maxt radi midp root,
      VStages S H .classic ltpk request nonce response res body m cert dele srep sig path srepB certB indxB
        certSig deleB pubk mint maxt radi midp root := by
  have hb : (match Proto.classic with | .classic => some response | .draft13 => unframe response)
      = some response := rfl
  unfold verifyResponse at h
  simp only [bind, Except.bind, pure, Except.pure, throw, throwThe, MonadExceptOf.throw, reduceCtorEq,
    if_false] at h
  dstage m hm
  gstage sig h1
  gstage path h2
  gstage srepB h3
  gstage certB h4
  gstage indxB h5
  cases hx : m.get Tag.NONC with
  | none =>
    rw [hx] at h
    dsimp only at h
    tail_stages
    end_stages
  | some n =>
    rw [hx] at h
    dsimp only at h
    istage hn
    tail_stages
    end_stages

theorem verify_ok_inv_draft13 (S : SigScheme) (H : Bytes → Bytes) (ltpk request nonce response : Bytes)
    (res : Nat × Nat) (h : verifyResponse S H .draft13 ltpk request nonce response = .ok res) :
    ∃ body m cert dele srep sig path srepB certB indxB certSig deleB pubk mint maxt radi midp root,
      VStages S H .draft13 ltpk request nonce response res body m cert dele srep sig path srepB certB indxB
        certSig deleB pubk mint maxt radi midp root := by
  unfold verifyResponse at h
  simp only [bind, Except.bind, pure, Except.pure, throw, throwThe, MonadExceptOf.throw, if_true] at h
  dstage body hb
  dstage m hm
  gstage sig h1
  gstage path h2
  gstage srepB h3
  gstage certB h4
  gstage indxB h5
  cases hx : m.get Tag.NONC with
  | none => rw [hx] at h; cases h
  | some n =>
    rw [hx] at h
    dsimp only at h
    istage hn
    tail_stages
    gstage v hv
    gstage vs hvs
    istage hv13
    istage hvl
    end_stages

/-- **inversion of the reference verifier** -/
theorem verify_ok_inv (S : SigScheme) (H : Bytes → Bytes) (p : Proto) (ltpk request nonce response : Bytes)
    (res : Nat × Nat) (h : verifyResponse S H p ltpk request nonce response = .ok res) :
    ∃ body m cert dele srep sig path srepB certB indxB certSig deleB pubk mint maxt radi midp root,
      VStages S H p ltpk request nonce response res body m cert dele srep sig path srepB certB indxB
        certSig deleB pubk mint maxt radi midp root := by
  cases p with
  | classic => exact verify_ok_inv_classic S H ltpk request nonce response res h
  | draft13 => exact verify_ok_inv_draft13 S H ltpk request nonce response res h

end Rough.Lemmas.Extra2

import Rough.Spec.MerkleTree
/-
  Facts about the abstract Merkle tree of Spec/MerkleTree.lean only (no level vectors):
  fuel-free unfolding equations for `build`/`depth`, the shape of `build`, where the top-first bits
  of an index lead, the level-list view of hashes and sibling paths, and binding on `T`.
-/
namespace Rough.Lemmas.Merkle
open Rough Rough.Merkle Rough.Spec.MT

/-! ### `pairT` -/

theorem pairT_length (ts : List T) : (pairT ts).length = (ts.length + 1) / 2 := by
  fun_induction pairT ts <;> simp_all <;> omega

theorem pairT_getElem? (ts : List T) (j : Nat) :
    (pairT ts)[j]? = match ts[2 * j]? with
      | none => none
      | some a => some (T.node a (ts[2 * j + 1]?.getD T.pad)) := by
  fun_induction pairT ts generalizing j with
  | case1 a b rest ih =>
    cases j with
    | zero => simp
    | succ j =>
      have h1 : 2 * (j + 1) = (2 * j) + 1 + 1 := by omega
      rw [h1]; simp [ih]
  | case2 a =>
    cases j with
    | zero => simp
    | succ j =>
      have h1 : 2 * (j + 1) = (2 * j + 1) + 1 := by omega
      rw [h1]; simp
  | case3 => simp

/-! ### fuel-free equations for `build` and `depth` -/

theorem buildAux_single (f : Nat) (t : T) : buildAux f [t] = t := by
  cases f <;> simp [buildAux]

theorem buildAux_succ (f : Nat) (ts : List T) (h : 2 ≤ ts.length) :
    buildAux (f + 1) ts = buildAux f (pairT ts) := by
  match ts, h with
  | a :: b :: rest, _ => simp [buildAux]

theorem buildAux_fuel : ∀ (f g : Nat) (ts : List T), ts ≠ [] → ts.length ≤ f + 1 → ts.length ≤ g + 1 →
    buildAux f ts = buildAux g ts := by
  intro f
  induction f with
  | zero =>
    intro g ts hne hf _
    match ts, hne, hf with
    | [t], _, _ => simp [buildAux_single]
  | succ f ih =>
    intro g ts hne hf hg
    by_cases h1 : ts.length = 1
    · match ts, h1 with
      | [t], _ => simp [buildAux_single]
    · have hlen : 0 < ts.length := List.length_pos_iff.mpr hne
      have h2 : 2 ≤ ts.length := by omega
      cases g with
      | zero => omega
      | succ g =>
        rw [buildAux_succ f ts h2, buildAux_succ g ts h2]
        have hp : (pairT ts).length = (ts.length + 1) / 2 := pairT_length ts
        apply ih
        · intro e; rw [e] at hp; simp at hp; omega
        · omega
        · omega

theorem build_single (t : T) : build [t] = t := by simp [build, buildAux_single]

theorem build_step (ts : List T) (h : 2 ≤ ts.length) : build ts = build (pairT ts) := by
  have hp : (pairT ts).length = (ts.length + 1) / 2 := pairT_length ts
  unfold build
  obtain ⟨n, hn⟩ : ∃ n, ts.length = n + 1 := ⟨ts.length - 1, by omega⟩
  rw [hn, buildAux_succ n ts h]
  apply buildAux_fuel
  · intro e; rw [e] at hp; simp at hp; omega
  · omega
  · omega

theorem depthAux_fuel : ∀ (f g n : Nat), n ≤ f + 1 → n ≤ g + 1 → depthAux f n = depthAux g n := by
  intro f
  induction f with
  | zero =>
    intro g n hf _
    cases g <;> simp [depthAux] <;> omega
  | succ f ih =>
    intro g n hf hg
    cases g with
    | zero => simp [depthAux]; omega
    | succ g =>
      simp only [depthAux]
      split
      · rfl
      · rw [ih g ((n + 1) / 2) (by omega) (by omega)]

theorem depth_le_one (n : Nat) (h : n ≤ 1) : depth n = 0 := by
  unfold depth
  cases n with
  | zero => simp [depthAux]
  | succ n => simp [depthAux]; omega

theorem depth_step (n : Nat) (h : 2 ≤ n) : depth n = 1 + depth ((n + 1) / 2) := by
  unfold depth
  obtain ⟨m, hm⟩ : ∃ m, n = m + 1 := ⟨n - 1, by omega⟩
  subst hm
  simp only [depthAux]
  rw [if_neg (by omega)]
  congr 1
  apply depthAux_fuel <;> omega

theorem depth_le_of_le_pow : ∀ (k n : Nat), n ≤ 2 ^ k → depth n ≤ k := by
  intro k
  induction k with
  | zero => intro n h; rw [depth_le_one n (by simpa using h)]; omega
  | succ k ih =>
    intro n h
    by_cases h1 : n ≤ 1
    · rw [depth_le_one n h1]; omega
    · rw [depth_step n (by omega)]
      have : (n + 1) / 2 ≤ 2 ^ k := by rw [Nat.pow_succ] at h; omega
      have := ih _ this
      omega

theorem lt_two_pow_depth : ∀ (m n : Nat), n ≤ m → n ≤ 2 ^ depth n := by
  intro m
  induction m with
  | zero => intro n h; have : n = 0 := by omega
            subst this; simp
  | succ m ih =>
    intro n h
    by_cases h1 : n ≤ 1
    · rw [depth_le_one n h1]; simpa using h1
    · rw [depth_step n (by omega)]
      have := ih ((n + 1) / 2) (by omega)
      rw [Nat.add_comm, Nat.pow_succ]; omega

/-- strong induction principle matching `build_step` -/
theorem build_induction {P : List T → Prop}
    (single : ∀ t, P [t])
    (step : ∀ ts, 2 ≤ ts.length → P (pairT ts) → P ts) :
    ∀ ts, ts ≠ [] → P ts := by
  intro ts
  generalize hn : ts.length = n
  induction n using Nat.strongRecOn generalizing ts with
  | _ n ih =>
    intro hne
    by_cases h1 : ts.length = 1
    · match ts, h1 with
      | [t], _ => exact single t
    · have hlen : 0 < ts.length := List.length_pos_iff.mpr hne
      have hp : (pairT ts).length = (ts.length + 1) / 2 := pairT_length ts
      apply step ts (by omega)
      apply ih (pairT ts).length (by omega) _ rfl
      intro e; rw [e] at hp; simp at hp; omega

/-! ### `descend` / `siblings` over concatenated bit lists -/

theorem descend_append : ∀ (t : T) (a b : List Bool),
    descend t (a ++ b) = (descend t a).bind fun t' => descend t' b := by
  intro t a
  induction a generalizing t with
  | nil => intro b; simp [descend]
  | cons x a ih =>
    intro b
    cases t with
    | node l r => simp [descend, ih]
    | leaf d => simp [descend]
    | pad => simp [descend]

theorem siblings_append (c : MerkleCfg) : ∀ (t : T) (a b : List Bool),
    siblings c t (a ++ b) = siblings c t a ++
      (match descend t a with
       | some t' => siblings c t' b
       | none => []) := by
  intro t a
  induction a generalizing t with
  | nil => intro b; simp [descend, siblings]
  | cons x a ih =>
    intro b
    cases t with
    | node l r => simp [descend, siblings, ih]
    | leaf d => simp [descend, siblings]
    | pad => simp [descend, siblings]

@[simp] theorem siblings_nil (c : MerkleCfg) (t : T) : siblings c t [] = [] := by
  cases t <;> simp [siblings]

theorem bitsOf_length (i k : Nat) : (bitsOf i k).length = k := by
  induction k generalizing i with
  | zero => simp [bitsOf]
  | succ k ih => simp [bitsOf, ih]

/-! ### where the bits of an index lead in `build ts` -/

theorem descend_build : ∀ (ts : List T), ts ≠ [] → ∀ (i : Nat) (hi : i < ts.length),
    descend (build ts) (bitsOf i (depth ts.length)).reverse = some ts[i] := by
  apply build_induction
  · intro t i hi
    have : i = 0 := by simpa using hi
    subst this
    simp [build_single, depth_le_one, bitsOf, descend]
  · intro ts h2 ih i hi
    have hp : (pairT ts).length = (ts.length + 1) / 2 := pairT_length ts
    rw [build_step ts h2, depth_step _ h2, Nat.add_comm 1, bitsOf, List.reverse_cons, descend_append,
      ← hp, ih (i / 2) (by omega)]
    have hg := pairT_getElem? ts (i / 2)
    have hlt : i / 2 < (pairT ts).length := by omega
    rw [List.getElem?_eq_getElem hlt] at hg
    have h2i : 2 * (i / 2) < ts.length := by omega
    rw [List.getElem?_eq_getElem h2i] at hg
    simp only [Option.some.injEq] at hg
    simp only [Option.bind_some, hg]
    by_cases hodd : i % 2 = 1
    · have e : 2 * (i / 2) + 1 = i := by omega
      simp [descend, hodd, e, hi]
    · have e : 2 * (i / 2) = i := by omega
      simp [descend, hodd, e]

/-! ### shape: all non-pad leaves of `build` sit at depth `depth n` -/

def shape : Nat → T → Prop
  | _, .pad => True
  | 0, .leaf _ => True
  | 0, .node _ _ => False
  | _ + 1, .leaf _ => False
  | h + 1, .node l r => shape h l ∧ shape h r

theorem shape_descend_leaf : ∀ (bs : List Bool) (h : Nat) (t : T) (d : Bytes),
    shape h t → descend t bs = some (T.leaf d) → bs.length = h := by
  intro bs
  induction bs with
  | nil =>
    intro h t d hs hd
    simp [descend] at hd
    subst hd
    cases h <;> simp_all [shape]
  | cons b bs ih =>
    intro h t d hs hd
    cases t with
    | leaf d' => simp [descend] at hd
    | pad => simp [descend] at hd
    | node l r =>
      cases h with
      | zero => simp [shape] at hs
      | succ h =>
        simp only [shape] at hs
        simp only [descend] at hd
        have := ih h _ d (by cases b <;> simp [hs.1, hs.2]) hd
        simp [this]

theorem shape_pairT (h : Nat) (ts : List T) (hs : ∀ t ∈ ts, shape h t) :
    ∀ t ∈ pairT ts, shape (h + 1) t := by
  fun_induction pairT ts with
  | case1 a b rest ih =>
    intro t ht
    simp only [List.mem_cons] at ht
    rcases ht with rfl | ht
    · simp [shape, hs]
    · exact ih (fun t ht' => hs t (by simp [ht'])) t ht
  | case2 a =>
    intro t ht
    simp only [List.mem_singleton] at ht
    subst ht
    simp [shape, hs]
  | case3 => simp

theorem shape_build : ∀ (ts : List T), ts ≠ [] → ∀ h, (∀ t ∈ ts, shape h t) →
    shape (h + depth ts.length) (build ts) := by
  apply build_induction
  · intro t h hs
    simpa [build_single, depth_le_one] using hs
  · intro ts h2 ih h hs
    rw [build_step ts h2, depth_step _ h2, ← pairT_length, ← Nat.add_assoc]
    exact ih (h + 1) (shape_pairT h ts hs)

/-! ### the level-list view -/

/-- an odd level gets the zero node appended -/
def padLevel (c : MerkleCfg) (l : List Bytes) : List Bytes :=
  if l.length % 2 = 1 then l ++ [zeros c.N] else l

/-- hash adjacent pairs (a trailing odd element is dropped) -/
def pairUp (c : MerkleCfg) : List Bytes → List Bytes
  | a :: b :: rest => hashNodes c a b :: pairUp c rest
  | _ => []

/-- one level up: the hash-level image of `pairT` -/
def up (c : MerkleCfg) : List Bytes → List Bytes
  | a :: b :: rest => hashNodes c a b :: up c rest
  | [a] => [hashNodes c a (zeros c.N)]
  | [] => []

/-- `j` levels up -/
def lv (c : MerkleCfg) : Nat → List Bytes → List Bytes
  | 0, l => l
  | j + 1, l => lv c j (up c l)

/-- the sibling of position `i` in the padded level -/
def sibOf (c : MerkleCfg) (l : List Bytes) (i : Nat) : Bytes :=
  ((padLevel c l)[if i % 2 = 0 then i + 1 else i - 1]?).getD []

/-- sibling path of length `k`, bottom first, computed on level lists -/
def pathL (c : MerkleCfg) : Nat → List Bytes → Nat → List Bytes
  | 0, _, _ => []
  | k + 1, l, i => sibOf c l i :: pathL c k (up c l) (i / 2)

theorem up_eq_pairUp (c : MerkleCfg) (l : List Bytes) : up c l = pairUp c (padLevel c l) := by
  fun_induction up c l with
  | case1 a b rest ih =>
    have : (padLevel c (a :: b :: rest)) = a :: b :: padLevel c rest := by
      simp only [padLevel, List.length_cons]
      have e : (rest.length + 1 + 1) % 2 = rest.length % 2 := by omega
      simp only [e]; split <;> simp
    rw [this, pairUp, ih]
  | case2 a => simp [padLevel, pairUp]
  | case3 => simp [padLevel, pairUp]

theorem up_length (c : MerkleCfg) (l : List Bytes) : (up c l).length = (l.length + 1) / 2 := by
  fun_induction up c l <;> simp_all <;> omega

theorem padLevel_length (c : MerkleCfg) (l : List Bytes) :
    (padLevel c l).length = l.length + l.length % 2 := by
  unfold padLevel; split <;> simp <;> omega

theorem map_hash_pairT (c : MerkleCfg) (ts : List T) :
    (pairT ts).map (T.hash c) = up c (ts.map (T.hash c)) := by
  fun_induction pairT ts <;> simp_all [up, T.hash]

theorem hash_build (c : MerkleCfg) : ∀ (ts : List T), ts ≠ [] →
    lv c (depth ts.length) (ts.map (T.hash c)) = [T.hash c (build ts)] := by
  apply build_induction
  · intro t; simp [build_single, depth_le_one, lv]
  · intro ts h2 ih
    rw [build_step ts h2, depth_step _ h2, Nat.add_comm 1, lv, ← map_hash_pairT, ← pairT_length]
    exact ih

theorem siblings_build (c : MerkleCfg) : ∀ (ts : List T), ts ≠ [] → ∀ (i : Nat), i < ts.length →
    (siblings c (build ts) (bitsOf i (depth ts.length)).reverse).reverse
      = pathL c (depth ts.length) (ts.map (T.hash c)) i := by
  apply build_induction
  · intro t i _
    simp [depth_le_one, bitsOf, pathL]
  · intro ts h2 ih i hi
    have hp : (pairT ts).length = (ts.length + 1) / 2 := pairT_length ts
    have hd := descend_build (pairT ts) (by intro e; rw [e] at hp; simp at hp; omega) (i / 2) (by omega)
    rw [build_step ts h2, depth_step _ h2, Nat.add_comm 1, bitsOf, List.reverse_cons, siblings_append,
      ← hp, hd, List.reverse_append, ih (i / 2) (by omega), pathL, map_hash_pairT]
    have hg := pairT_getElem? ts (i / 2)
    have hlt : i / 2 < (pairT ts).length := by omega
    rw [List.getElem?_eq_getElem hlt] at hg
    have h2i : 2 * (i / 2) < ts.length := by omega
    rw [List.getElem?_eq_getElem h2i] at hg
    simp only [Option.some.injEq] at hg
    simp only [hg]
    congr 1
    unfold sibOf padLevel
    by_cases hodd : i % 2 = 1
    · have e : 2 * (i / 2) = i - 1 := by omega
      have hi1 : i - 1 < ts.length := by omega
      simp only [siblings, hodd, decide_true, if_true, e, List.reverse_cons, List.length_map]
      split <;> simp [List.getElem?_append, hi1]
    · have e : 2 * (i / 2) = i := by omega
      have he : i % 2 = 0 := by omega
      simp only [siblings, he, if_true, e, List.reverse_cons, List.length_map]
      by_cases hlast : i + 1 < ts.length
      · simp [hlast]
        split <;> simp [List.getElem?_append, hlast]
      · have : ts.length % 2 = 1 := by omega
        have hh : i + 1 = ts.length := by omega
        simp [this, hh, T.hash]

/-! ### the verifier as a fold over `(direction, sibling)` steps, bottom first -/

def climb (c : MerkleCfg) (h : Bytes) : List (Bool × Bytes) → Bytes
  | [] => h
  | (b, p) :: rest => climb c (if b then hashNodes c p h else hashNodes c h p) rest

theorem climb_append (c : MerkleCfg) : ∀ (a : List (Bool × Bytes)) (h : Bytes) (b : List (Bool × Bytes)),
    climb c h (a ++ b) = climb c (climb c h a) b := by
  intro a
  induction a with
  | nil => intro h b; simp [climb]
  | cons s a ih => intro h b; obtain ⟨x, p⟩ := s; simp [climb, ih]

theorem climbChunks_eq_climb (c : MerkleCfg) : ∀ (ps : List Bytes) (h : Bytes) (i : Nat),
    climbChunks c h i ps = climb c h ((bitsOf i ps.length).zip ps) := by
  intro ps
  induction ps with
  | nil => intro h i; simp [climbChunks, climb, bitsOf]
  | cons p ps ih =>
    intro h i
    simp only [climbChunks, List.length_cons, bitsOf, List.zip_cons_cons, climb, ih]
    by_cases h0 : i % 2 = 0
    · simp [h0]
    · have : i % 2 = 1 := by omega
      simp [this]

theorem hash_length (c : MerkleCfg) (hl : HashLen c) (t : T) : (T.hash c t).length = c.N := by
  cases t <;> simp [T.hash, hashLeaf, hashNodes, hl _, zeros]

theorem siblings_length (c : MerkleCfg) : ∀ (bs : List Bool) (t t' : T), descend t bs = some t' →
    (siblings c t bs).length = bs.length := by
  intro bs
  induction bs with
  | nil => simp
  | cons x bs ih =>
    intro t t' h
    cases t with
    | leaf d => simp [descend] at h
    | pad => simp [descend] at h
    | node l r => simp only [descend] at h; simp [siblings, ih _ _ h]

theorem siblings_mem_length (c : MerkleCfg) (hl : HashLen c) : ∀ (bs : List Bool) (t : T),
    ∀ x ∈ siblings c t bs, x.length = c.N := by
  intro bs
  induction bs with
  | nil => simp
  | cons b bs ih =>
    intro t x hx
    cases t with
    | leaf d => simp [siblings] at hx
    | pad => simp [siblings] at hx
    | node l r =>
      simp only [siblings, List.mem_cons] at hx
      rcases hx with rfl | hx
      · exact hash_length c hl _
      · exact ih _ x hx

/-- completeness on `T`: climbing from a reachable subtree along the genuine siblings gives the root hash -/
theorem climb_descend (c : MerkleCfg) : ∀ (bs : List Bool) (t t' : T), descend t bs = some t' →
    climb c (T.hash c t') (bs.reverse.zip (siblings c t bs).reverse) = T.hash c t := by
  intro bs
  induction bs with
  | nil => intro t t' h; simp [descend] at h; subst h; simp [climb]
  | cons b bs ih =>
    intro t t' h
    cases t with
    | leaf d => simp [descend] at h
    | pad => simp [descend] at h
    | node l r =>
      simp only [descend] at h
      have hlen := siblings_length c bs _ _ h
      simp only [siblings, List.reverse_cons]
      rw [List.zip_append (by simp [hlen]), climb_append, ih _ _ h]
      cases b <;> simp [climb, T.hash]

/-- binding on `T`: `steps` is top first -/
theorem bind_T (c : MerkleCfg) (hl : HashLen c) : ∀ (t : T) (steps : List (Bool × Bytes)) (d' : Bytes),
    (∀ s ∈ steps, s.2.length = c.N) →
    climb c (hashLeaf c d') steps.reverse = T.hash c t →
    Broken c ∨ (descend t (steps.map (·.1)) = some (T.leaf d') ∧
      siblings c t (steps.map (·.1)) = steps.map (·.2)) := by
  intro t
  induction t with
  | leaf d =>
    intro steps d' _ h
    cases steps with
    | nil =>
      simp only [List.reverse_nil, climb, T.hash, hashLeaf] at h
      by_cases e : d' = d
      · subst e; right; simp [descend]
      · left; left; exact ⟨_, _, by simpa using e, h⟩
    | cons s rest =>
      obtain ⟨b, p⟩ := s
      simp only [List.reverse_cons, climb_append, climb, T.hash, hashLeaf] at h
      left; left
      cases b
      · exact ⟨_, _, by simp, h⟩
      · exact ⟨_, _, by simp, h⟩
  | pad =>
    intro steps d' _ h
    left; right
    cases steps with
    | nil =>
      simp only [List.reverse_nil, climb, T.hash, hashLeaf] at h
      exact ⟨_, h⟩
    | cons s rest =>
      obtain ⟨b, p⟩ := s
      simp only [List.reverse_cons, climb_append, climb, T.hash] at h
      cases b
      · exact ⟨_, h⟩
      · exact ⟨_, h⟩
  | node l r ihl ihr =>
    intro steps d' hlen h
    cases steps with
    | nil =>
      simp only [List.reverse_nil, climb, T.hash, hashLeaf, hashNodes] at h
      left; left; exact ⟨_, _, by simp, h⟩
    | cons s rest =>
      obtain ⟨b, p⟩ := s
      have hp : p.length = c.N := hlen (b, p) (by simp)
      have hrest : ∀ s ∈ rest, s.2.length = c.N := fun s hs => hlen s (by simp [hs])
      simp only [List.reverse_cons, climb_append, climb, T.hash] at h
      have hL := hash_length c hl l
      have hR := hash_length c hl r
      cases b
      · simp only [Bool.false_eq_true, if_false, hashNodes] at h
        by_cases heq : ((1 : UInt8) :: (climb c (hashLeaf c d') rest.reverse ++ p))
            = ((1 : UInt8) :: (T.hash c l ++ T.hash c r))
        · have hcl : (climb c (hashLeaf c d') rest.reverse ++ p).length = (T.hash c l ++ T.hash c r).length := by
            rw [List.cons.injEq] at heq; rw [heq.2]
          have hlen1 : (climb c (hashLeaf c d') rest.reverse).length = (T.hash c l).length := by
            simp only [List.length_append] at hcl; omega
          have := List.append_inj (List.cons.inj heq).2 hlen1
          rcases ihl rest d' hrest this.1 with hb | ⟨h1, h2⟩
          · exact Or.inl hb
          · right; simp [descend, siblings, h1, h2, this.2]
        · left; left; exact ⟨_, _, heq, h⟩
      · simp only [if_true, hashNodes] at h
        by_cases heq : ((1 : UInt8) :: (p ++ climb c (hashLeaf c d') rest.reverse))
            = ((1 : UInt8) :: (T.hash c l ++ T.hash c r))
        · have := List.append_inj (List.cons.inj heq).2 (by omega)
          rcases ihr rest d' hrest this.2 with hb | ⟨h1, h2⟩
          · exact Or.inl hb
          · right; simp [descend, siblings, h1, h2, this.1]
        · left; left; exact ⟨_, _, heq, h⟩

end Rough.Lemmas.Merkle

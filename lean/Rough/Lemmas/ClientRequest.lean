import Rough.Lemmas.ClientBase
/-
  C03, request side: the requests the client generates are well formed (`request_wellformed`),
  and the printed time (`time`).
-/
namespace Rough.Lemmas.Client
open Rough Rough.Spec Rough.Spec.RT Rough.Client Rough.Merkle Rough.ServerSpec Rough.Lemmas Rough.Lemmas.SpecRT
open Rough.Lemmas.Keys (buildMsg_sorted spec_decode_encode)

/-- **C03_time** -/
theorem time (m : Nat) :
    printedTime .google m = (m / 1000000, (m % 1000000) * 1000) ∧
    printedTime .ietf m = (m, 0) := by
  refine ⟨?_, rfl⟩
  simp only [printedTime, Prod.mk.injEq, true_and]
  have : m - m / 1000000 * 1000000 = m % 1000000 := by omega
  rw [this]

@[simp] theorem zeros_length (n : Nat) : (zeros n).length = n := by simp [zeros]

theorem versionList_ver13 : versionList ver13 = [ver13] := by
  have : chunks 4 ver13 = [ver13] := by
    rw [Lemmas.Merkle.chunks_cons _ _ (by decide) (by simp [ver13])]
    simp [ver13, Lemmas.Merkle.chunks_nil]
  rw [versionList, this]
  simp [ver13]

/-- the first four bytes of an encoding are the field count -/
theorem encode_take4 (m : Msg) : (encode m).take 4 = le32 m.fields.length := by
  unfold encode
  rw [List.append_assoc, List.append_assoc]
  exact List.take_left' (le32_length _)

theorem encode_take8_ne_magic (m : Msg) (h : m.fields.length < 256) : (encode m).take 8 ≠ magic := by
  intro e
  have h4 := congrArg (List.take 4) e
  rw [List.take_take] at h4
  change List.take 4 (encode m) = _ at h4
  rw [encode_take4] at h4
  simp only [le32, magic, List.take_succ_cons, List.take_zero] at h4
  have h1 := (List.cons.inj (List.cons.inj h4).2).1
  have h2 : (UInt8.ofNat (m.fields.length / 256 % 256)).toNat = (0x4f : UInt8).toNat := by rw [h1]
  rw [UInt8.toNat_ofNat'] at h2
  have h3 : (0x4f : UInt8).toNat = 79 := rfl
  omega

/-! ### classic -/

def reqG (nonce : Bytes) (pad : Nat) : Msg := ⟨[(Tag.NONC, nonce), (Tag.PAD, zeros pad)]⟩

theorem reqG_size (nonce : Bytes) (pad : Nat) : encodedSize (reqG nonce pad) = 16 + nonce.length + pad := by
  simp [reqG, encodedSize, Msg.values]; omega

theorem makeRequest_google (H : Bytes → Bytes) (nonce : Bytes) (hn : nonce.length = 64) (pk? : Option Bytes) :
    makeRequest H .google nonce pk? = .ok (encode (reqG nonce 944)) := by
  unfold makeRequest
  simp only
  rw [buildMsg_sorted _ _ (by tags_sorted)]
  simp only [Res.bind]
  have hp : paddingLength ⟨[(Tag.NONC, nonce), (Tag.PAD, [])]⟩ = 944 := by
    simp [paddingLength, encodedSize, Msg.values, hn]
  rw [hp, buildMsg_sorted _ _ (by tags_sorted)]
  rfl

theorem wellformed_google (H : Bytes → Bytes) (nonce : Bytes) (hn : nonce.length = 64) (pk? : Option Bytes)
    (srv : Bytes) :
    ∃ req, makeRequest H .google nonce pk? = .ok req ∧ req.length = 1024 ∧
      classifyRequest .classic srv req = .must nonce ∧ protoOf req = .classic := by
  refine ⟨_, makeRequest_google H nonce hn pk?, ?_, ?_, ?_⟩
  · rw [encode_length, reqG_size, hn]
  · have hl : (encode (reqG nonce 944)).length = 1024 := by rw [encode_length, reqG_size, hn]
    have hm := encode_take8_ne_magic (reqG nonce 944) (by simp [reqG])
    have hd : decode (encode (reqG nonce 944)) = some (reqG nonce 944) := by
      apply spec_decode_encode
      · simp [reqG, Msg.Sorted, Msg.tags, Tag.idx]
      · simp [reqG, Msg.Aligned, Msg.values, hn]
      · rw [reqG_size, hn]; omega
    have hg : (reqG nonce 944).get Tag.NONC = some nonce := rfl
    unfold classifyRequest
    rw [if_neg (by omega)]
    simp only
    rw [if_neg hm, hd]
    simp only
    rw [hg]
    simp only
    rw [if_pos hn]
  · exact Lemmas.Request.protoOf_classic (encode_take8_ne_magic (reqG nonce 944) (by simp [reqG]))

/-! ### draft-13 -/

def reqI (srvF : List (Tag × Bytes)) (nonce : Bytes) (pad : Nat) : Msg :=
  ⟨[(Tag.VER, Version.ietf.wire)] ++ srvF ++ [(Tag.NONC, nonce), (Tag.ZZZZ, zeros pad)]⟩

theorem calcSrv_ok (H : Bytes → Bytes) (hH : ∀ x, (H x).length = 64) (pk : Bytes) :
    calcSrv H pk = .ok ((H ((0xff : UInt8) :: pk)).take 32) := by
  unfold calcSrv slice
  rw [if_pos ⟨by omega, by rw [hH]; omega⟩]
  rfl

theorem framed_take8 (b : Bytes) : (framing ++ le32 b.length ++ b).take 8 = magic := by
  rw [List.append_assoc]; exact List.take_left' rfl

/-- classification of a framed draft-13 request message, given what it contains -/
theorem classify_framed (m : Msg) (srv nonce : Bytes)
    (hlen : (encode m).length = 1024)
    (hd : decode (encode m) = some m)
    (hv : m.get Tag.VER = some ver13) (hn : m.get Tag.NONC = some nonce) (hnl : nonce.length = 32)
    (hs : m.get Tag.SRV = none ∨ m.get Tag.SRV = some srv) :
    classifyRequest .draft13 srv (encodeFramed m) = .must nonce := by
  have hl : (encodeFramed m).length = 1036 := by rw [(framed m).2, hlen]
  have hu : unframe (encodeFramed m) = some (encode m) := unframe_frame (encode m) (by omega)
  unfold classifyRequest
  rw [if_neg (by omega)]
  simp only
  rw [hu]
  simp only
  rw [hd]
  simp only
  rw [hv, hn]
  simp only
  rw [versionList_ver13]
  rcases hs with hs | hs <;> rw [hs] <;> simp [hnl]

theorem wellformed_ietf (H : Bytes → Bytes) (hH : ∀ x, (H x).length = 64) (nonce : Bytes)
    (hn : nonce.length = 32) (pk? : Option Bytes) (srv : Bytes)
    (hsrv : ∀ pk, pk? = some pk → srv = (H ((0xff : UInt8) :: pk)).take 32) :
    ∃ req, makeRequest H .ietf nonce pk? = .ok req ∧ req.length = 1036 ∧
      classifyRequest .draft13 srv req = .must nonce ∧ protoOf req = .draft13 := by
  cases pk? with
  | none =>
    have hmk : makeRequest H .ietf nonce none = .ok (encodeFramed (reqI [] nonce 964)) := by
      unfold makeRequest
      simp only [Res.bind, List.append_nil, List.cons_append, List.nil_append]
      rw [buildMsg_sorted _ _ (by tags_sorted)]
      simp only
      have hp : paddingLength ⟨[(Tag.VER, Version.ietf.wire), (Tag.NONC, nonce), (Tag.ZZZZ, [])]⟩ = 964 := by
        simp [paddingLength, encodedSize, Msg.values, hn, Version.wire]
      rw [hp, buildMsg_sorted _ _ (by tags_sorted)]
      rfl
    have hsz : encodedSize (reqI [] nonce 964) = 1024 := by
      simp [reqI, encodedSize, Msg.values, hn, Version.wire]
    have hlen : (encode (reqI [] nonce 964)).length = 1024 := by rw [encode_length, hsz]
    have hd : decode (encode (reqI [] nonce 964)) = some (reqI [] nonce 964) := by
      apply spec_decode_encode
      · simp [reqI, Msg.Sorted, Msg.tags, Tag.idx]
      · simp [reqI, Msg.Aligned, Msg.values, hn, Version.wire]
      · rw [hsz]; omega
    refine ⟨_, hmk, by rw [(framed _).2, hlen], ?_, ?_⟩
    · exact classify_framed _ srv nonce hlen hd rfl rfl hn (Or.inl rfl)
    · exact Lemmas.Request.protoOf_draft13 (framed_take8 _)
  | some pk =>
    have hsrv' := hsrv pk rfl
    have hsl : srv.length = 32 := by rw [hsrv', List.length_take, hH]; rfl
    have hmk : makeRequest H .ietf nonce (some pk) = .ok (encodeFramed (reqI [(Tag.SRV, srv)] nonce 924)) := by
      unfold makeRequest
      simp only
      rw [calcSrv_ok H hH, ← hsrv']
      simp only [Res.bind, List.cons_append, List.nil_append]
      rw [buildMsg_sorted _ _ (by tags_sorted)]
      simp only
      have hp : paddingLength ⟨[(Tag.VER, Version.ietf.wire), (Tag.SRV, srv), (Tag.NONC, nonce), (Tag.ZZZZ, [])]⟩
          = 924 := by
        simp [paddingLength, encodedSize, Msg.values, hn, hsl, Version.wire]
      rw [hp, buildMsg_sorted _ _ (by tags_sorted)]
      rfl
    have hsz : encodedSize (reqI [(Tag.SRV, srv)] nonce 924) = 1024 := by
      simp [reqI, encodedSize, Msg.values, hn, hsl, Version.wire]
    have hlen : (encode (reqI [(Tag.SRV, srv)] nonce 924)).length = 1024 := by rw [encode_length, hsz]
    have hd : decode (encode (reqI [(Tag.SRV, srv)] nonce 924)) = some (reqI [(Tag.SRV, srv)] nonce 924) := by
      apply spec_decode_encode
      · simp [reqI, Msg.Sorted, Msg.tags, Tag.idx]
      · simp [reqI, Msg.Aligned, Msg.values, hn, hsl, Version.wire]
      · rw [hsz]; omega
    refine ⟨_, hmk, by rw [(framed _).2, hlen], ?_, ?_⟩
    · exact classify_framed _ srv nonce hlen hd rfl rfl hn (Or.inr rfl)
    · exact Lemmas.Request.protoOf_draft13 (framed_take8 _)

/-- **C03_request_wellformed**. A classic request is 1024 bytes; a draft-13 request is a 1024-byte
    message plus the 12-byte frame = 1036 bytes (`paddingLength` pads the unframed message to 1024,
    `encodeFramed` then adds the frame). The first draft of the property said `req.length = 1024`
    for both, which is false for `ver = .ietf` (e.g. `makeRequest H .ietf (zeros 32) none`). -/
theorem request_wellformed (H : Bytes → Bytes) (hH : ∀ x, (H x).length = 64) (ver : Version)
    (nonce : Bytes) (hn : nonce.length = ver.nonceLen) (pk? : Option Bytes)
    (_hpk : ∀ pk, pk? = some pk → pk.length = 32) (srv : Bytes)
    (hsrv : ∀ pk, pk? = some pk → srv = (H ((0xff : UInt8) :: pk)).take 32) :
    ∃ req, makeRequest H ver nonce pk? = .ok req ∧
      req.length = (match ver with | .google => 1024 | .ietf => 1036) ∧
      classifyRequest (protoOfVer ver) srv req = .must nonce ∧ protoOf req = protoOfVer ver := by
  cases ver with
  | google => exact wellformed_google H nonce hn pk? srv
  | ietf => exact wellformed_ietf H hH nonce hn pk? srv hsrv

end Rough.Lemmas.Client

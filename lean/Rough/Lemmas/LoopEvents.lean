import Rough.Lemmas.LoopBasic
/-
  Event-loop lemmas, part 2: what one socket service and one `for msg in events.iter()` loop do to
  the parts of the state, for every outcome that returns (`frame` lemmas), for arbitrary drawable
  inputs (`safe`) and without fault injection (`spec`).
-/
namespace Rough.Lemmas.Loop
open Rough Rough.EventLoop Rough.LoopSpec Rough.ServerSpec Rough.Stats

/-! ### one socket service -/

theorem lb_service_frame (E : Env) (debug : Bool) (M : Nat) (st : Loop) (ins : Nat → PassIn)
    (st' : Loop) (o : Out) (h : serviceSocket E debug M st ins = .ok (st', o)) :
    st'.hcQ = st.hcQ ∧ st'.hcEdge = st.hcEdge ∧ st'.timerDue = st.timerDue ∧
    st'.hcListener = st.hcListener ∧ st'.published = st.published ∧ o.hcAnswered = [] ∧
    st'.recd = st.recd.recordAll o.events ∧ (st'.sockQ = [] ∨ st'.backlog = true) := by
  rw [service_refines] at h
  obtain ⟨⟨srv', sent, ev⟩, _, h2⟩ := lb_bind_inv h
  have hb := (plan_bounded st.srv.batchSize M st.sockQ ins).2.2.2
  cases h2
  refine ⟨rfl, rfl, rfl, rfl, rfl, rfl, rfl, ?_⟩
  cases hf : (plan st.srv.batchSize M st.sockQ ins).full with
  | true => exact Or.inr rfl
  | false => exact Or.inl (hb hf)

theorem lb_service_safe (E : Env) (hE : EnvOK E) (K : Keys) (debug : Bool) (M : Nat) (st : Loop)
    (hs : Inv E K st.srv) (hb : st.srv.batchSize ≤ 2 ^ 32) (ins : Nat → PassIn) (hi : InsSafe ins) :
    ∃ st' o, serviceSocket E debug M st ins = .ok (st', o) ∧ Inv E K st'.srv ∧
      st'.srv.batchSize = st.srv.batchSize ∧ st'.hcListener = st.hcListener := by
  obtain ⟨s', sent, ev, h1, h2, h3, _⟩ := Lemmas.ServerSpec.run_safe' E hE K debug
    (plan st.srv.batchSize M st.sockQ ins).passes st.srv hs hb (plan_passes_safe _ _ _ _ hi)
  rw [service_refines, h1]
  exact ⟨_, _, rfl, h2, h3, rfl⟩

theorem lb_service_spec (E : Env) (hE : EnvOK E) (K : Keys) (hK : K.OK) (debug : Bool) (M : Nat) (st : Loop)
    (hs : Inv E K st.srv) (hb : st.srv.batchSize ≤ 2 ^ 32) (ins : Nat → PassIn) (hi : InsOK ins) :
    ∃ st' o, serviceSocket E debug M st ins = .ok (st', o) ∧
      o.sent = (plan st.srv.batchSize M st.sockQ ins).passes.flatMap (expectedSent E K st.srv) ∧
      st'.sockQ = (plan st.srv.batchSize M st.sockQ ins).rest ∧
      st'.backlog = (plan st.srv.batchSize M st.sockQ ins).full ∧
      st'.sockEdge = (st.sockEdge || (plan st.srv.batchSize M st.sockQ ins).arrived) ∧
      Inv E K st'.srv ∧ st'.srv.batchSize = st.srv.batchSize ∧ st'.srv.srv = st.srv.srv ∧
      st'.hcListener = st.hcListener := by
  obtain ⟨s', h1, h2, h3, h4⟩ := Lemmas.ServerSpec.run_spec' E hE K hK debug
    (plan st.srv.batchSize M st.sockQ ins).passes st.srv hs hb (plan_passes_ok _ _ _ _ hi)
  rw [service_refines, h1]
  exact ⟨_, _, rfl, rfl, rfl, rfl, rfl, h2, h3, h4, rfl⟩

/-! ### the other two arms -/

theorem lb_hc_inv (st st' : Loop) (o : Out) (h : handleHealthCheck st = .ok (st', o)) :
    st.hcListener = true ∧
    st' = { st with hcQ := [], recd := st.recd.recordAll (st.hcQ.map fun a => (⟨Kind.healthCheck, a, 0⟩ : Event)) } ∧
    o = { events := st.hcQ.map fun a => (⟨Kind.healthCheck, a, 0⟩ : Event), hcAnswered := st.hcQ } := by
  unfold handleHealthCheck at h
  cases hl : st.hcListener with
  | false => simp [hl] at h
  | true =>
    simp only [hl, Bool.not_true, Bool.false_eq_true, if_false] at h
    cases h
    exact ⟨rfl, rfl, rfl⟩

theorem lb_hc_ok (st : Loop) (hl : st.hcListener = true) :
    handleHealthCheck st =
      .ok ({ st with hcQ := [], recd := st.recd.recordAll (st.hcQ.map fun a => (⟨Kind.healthCheck, a, 0⟩ : Event)) },
           { events := st.hcQ.map fun a => (⟨Kind.healthCheck, a, 0⟩ : Event), hcAnswered := st.hcQ }) := by
  unfold handleHealthCheck
  simp only [hl, Bool.not_true, Bool.false_eq_true, if_false]

theorem lb_hc_ok' (st : Loop) (hl : st.hcListener = true) :
    ∃ st' o, handleHealthCheck st = .ok (st', o) ∧ st'.srv = st.srv ∧ st'.hcListener = st.hcListener :=
  ⟨_, _, lb_hc_ok st hl, rfl, rfl⟩

theorem lb_stats_frame (st : Loop) :
    (sendClientStats st).srv = st.srv ∧ (sendClientStats st).backlog = st.backlog ∧
    (sendClientStats st).sockQ = st.sockQ ∧ (sendClientStats st).sockEdge = st.sockEdge ∧
    (sendClientStats st).hcListener = st.hcListener ∧ (sendClientStats st).hcQ = st.hcQ ∧
    (sendClientStats st).hcEdge = st.hcEdge ∧ (sendClientStats st).timerDue = st.timerDue := by
  unfold sendClientStats
  simp only
  split <;> exact ⟨rfl, rfl, rfl, rfl, rfl, rfl, rfl, rfl⟩

/-! ### one step of the event loop, as an inversion -/

/-- what a returned step of the loop for token `t` leaves unchanged / changes -/
structure StepFrame (t : Token) (st : Loop) (sv : Bool) (st1 : Loop) (o1 : Out) (sv1 : Bool) : Prop where
  hcEdge : st1.hcEdge = st.hcEdge
  timerDue : st1.timerDue = st.timerDue
  hcListener : st1.hcListener = st.hcListener
  notMsg : t ≠ .message → st1.sockQ = st.sockQ ∧ st1.backlog = st.backlog ∧ st1.sockEdge = st.sockEdge ∧
    sv1 = sv ∧ o1.sent = [] ∧ st1.srv = st.srv
  msg : t = .message → sv1 = true ∧ (st1.sockQ = [] ∨ st1.backlog = true)
  notHc : t ≠ .healthCheck → st1.hcQ = st.hcQ ∧ o1.hcAnswered = []
  hc : t = .healthCheck → o1.hcAnswered = st.hcQ ∧ st1.hcQ = []
  notStats : t ≠ .statusUpdate → st1.recd = st.recd.recordAll o1.events ∧ st1.published = st.published

/-- the body of the `for` loop for one token -/
def stepTok (E : Env) (debug : Bool) (ins : Nat → PassIn) (t : Token) (st : Loop) (serviced : Bool) :
    Res (Loop × Out × Bool) :=
  match t with
  | .message => (serviceSocket E debug MAX_BATCHES_PER_CALL st ins).bind fun (st', o) => .ok (st', o, true)
  | .healthCheck => (handleHealthCheck st).bind fun (st', o) => .ok (st', o, serviced)
  | .statusUpdate => .ok (sendClientStats st, {}, serviced)

theorem lb_handle_cons (E : Env) (debug : Bool) (ins : Nat → PassIn) (t : Token) (ts : List Token)
    (st : Loop) (sv : Bool) :
    handleEvents E debug ins (t :: ts) st sv =
      (stepTok E debug ins t st sv).bind fun (st', o, sv') =>
        (handleEvents E debug ins ts st' sv').bind fun (st'', o', sv'') => .ok (st'', o.append o', sv'') := rfl

theorem lb_handle_nil (E : Env) (debug : Bool) (ins : Nat → PassIn) (st : Loop) (sv : Bool) :
    handleEvents E debug ins [] st sv = .ok (st, {}, sv) := rfl

theorem lb_step_frame (E : Env) (debug : Bool) (ins : Nat → PassIn) (t : Token) (st : Loop) (sv : Bool)
    (st1 : Loop) (o1 : Out) (sv1 : Bool) (h : stepTok E debug ins t st sv = .ok (st1, o1, sv1)) :
    StepFrame t st sv st1 o1 sv1 := by
  cases t with
  | message =>
    simp only [stepTok] at h
    obtain ⟨⟨st2, o2⟩, h1, h2⟩ := lb_bind_inv h
    obtain ⟨f1, f2, f3, f4, f5, f6, f7, f8⟩ := lb_service_frame E debug _ st ins st2 o2 h1
    cases h2
    exact ⟨f2, f3, f4, fun h => absurd rfl h, fun _ => ⟨rfl, f8⟩, fun _ => ⟨f1, f6⟩,
      (fun h => nomatch h), fun _ => ⟨f7, f5⟩⟩
  | healthCheck =>
    simp only [stepTok] at h
    obtain ⟨⟨st2, o2⟩, h1, h2⟩ := lb_bind_inv h
    obtain ⟨_, f2, f3⟩ := lb_hc_inv st st2 o2 h1
    cases h2
    subst f2 f3
    exact ⟨rfl, rfl, rfl, fun _ => ⟨rfl, rfl, rfl, rfl, rfl, rfl⟩, (fun h => nomatch h),
      fun h => absurd rfl h, fun _ => ⟨rfl, rfl⟩, fun _ => ⟨rfl, rfl⟩⟩
  | statusUpdate =>
    simp only [stepTok] at h
    cases h
    obtain ⟨f1, f2, f3, f4, f5, f6, f7, f8⟩ := lb_stats_frame st
    exact ⟨f7, f8, f5, fun _ => ⟨f3, f2, f4, rfl, rfl, f1⟩, (fun h => nomatch h),
      fun _ => ⟨f6, rfl⟩, (fun h => nomatch h), fun h => absurd rfl h⟩

/-! ### the whole `for` loop, for every outcome that returns -/

structure HandleFrame (ts : List Token) (st : Loop) (sv : Bool) (st' : Loop) (o : Out) (sv' : Bool) : Prop where
  hcEdge : st'.hcEdge = st.hcEdge
  timerDue : st'.timerDue = st.timerDue
  hcListener : st'.hcListener = st.hcListener
  notMsg : Token.message ∉ ts → st'.sockQ = st.sockQ ∧ st'.backlog = st.backlog ∧ st'.sockEdge = st.sockEdge ∧
    sv' = sv ∧ o.sent = [] ∧ st'.srv = st.srv
  msg : Token.message ∈ ts → sv' = true ∧ (st'.sockQ = [] ∨ st'.backlog = true)
  notHc : Token.healthCheck ∉ ts → st'.hcQ = st.hcQ ∧ o.hcAnswered = []
  hc : Token.healthCheck ∈ ts → o.hcAnswered = st.hcQ ∧ st'.hcQ = []
  notStats : Token.statusUpdate ∉ ts → st'.recd = st.recd.recordAll o.events ∧ st'.published = st.published

theorem lb_handle_frame (E : Env) (debug : Bool) (ins : Nat → PassIn) : ∀ (ts : List Token) (st : Loop) (sv : Bool)
    (st' : Loop) (o : Out) (sv' : Bool), handleEvents E debug ins ts st sv = .ok (st', o, sv') →
    HandleFrame ts st sv st' o sv' := by
  intro ts
  induction ts with
  | nil =>
    intro st sv st' o sv' h
    rw [lb_handle_nil] at h
    cases h
    exact ⟨rfl, rfl, rfl, fun _ => ⟨rfl, rfl, rfl, rfl, rfl, rfl⟩, (fun h => by simp at h),
      fun _ => ⟨rfl, rfl⟩, (fun h => by simp at h), fun _ => ⟨rfl, rfl⟩⟩
  | cons t ts ih =>
    intro st sv st' o sv' h
    rw [lb_handle_cons] at h
    obtain ⟨⟨st1, o1, sv1⟩, h1, h2⟩ := lb_bind_inv h
    obtain ⟨⟨st2, o2, sv2⟩, h3, h4⟩ := lb_bind_inv h2
    have S := lb_step_frame E debug ins t st sv st1 o1 sv1 h1
    have H := ih st1 sv1 st2 o2 sv2 h3
    cases h4
    refine ⟨by rw [H.hcEdge, S.hcEdge], by rw [H.timerDue, S.timerDue], by rw [H.hcListener, S.hcListener],
      ?_, ?_, ?_, ?_, ?_⟩
    · intro hm
      simp only [List.mem_cons, not_or] at hm
      obtain ⟨a1, a2, a3, a4, a5, a6⟩ := S.notMsg (fun e => hm.1 e.symm)
      obtain ⟨b1, b2, b3, b4, b5, b6⟩ := H.notMsg hm.2
      refine ⟨by rw [b1, a1], by rw [b2, a2], by rw [b3, a3], by rw [b4, a4], ?_, by rw [b6, a6]⟩
      simp only [Out.append, a5, b5, List.append_nil]
    · intro hm
      by_cases hin : Token.message ∈ ts
      · exact H.msg hin
      · obtain ⟨b1, b2, _, b4, _, _⟩ := H.notMsg hin
        simp only [List.mem_cons, hin, or_false] at hm
        obtain ⟨a1, a2⟩ := S.msg hm.symm
        refine ⟨by rw [b4, a1], ?_⟩
        rw [b1, b2]; exact a2
    · intro hm
      simp only [List.mem_cons, not_or] at hm
      obtain ⟨a1, a2⟩ := S.notHc (fun e => hm.1 e.symm)
      obtain ⟨b1, b2⟩ := H.notHc hm.2
      refine ⟨by rw [b1, a1], ?_⟩
      simp only [Out.append, a2, b2, List.append_nil]
    · intro hm
      by_cases ht : t = Token.healthCheck
      · obtain ⟨a1, a2⟩ := S.hc ht
        by_cases hin : Token.healthCheck ∈ ts
        · obtain ⟨b1, b2⟩ := H.hc hin
          refine ⟨?_, b2⟩
          simp only [Out.append, a1, b1, a2, List.append_nil]
        · obtain ⟨b1, b2⟩ := H.notHc hin
          refine ⟨?_, by rw [b1, a2]⟩
          simp only [Out.append, a1, b2, List.append_nil]
      · obtain ⟨a1, a2⟩ := S.notHc ht
        have hin : Token.healthCheck ∈ ts := by
          simp only [List.mem_cons] at hm
          rcases hm with hm | hm
          · exact absurd hm.symm ht
          · exact hm
        obtain ⟨b1, b2⟩ := H.hc hin
        refine ⟨?_, b2⟩
        simp only [Out.append, a2, b1, a1, List.nil_append]
    · intro hm
      simp only [List.mem_cons, not_or] at hm
      obtain ⟨a1, a2⟩ := S.notStats (fun e => hm.1 e.symm)
      obtain ⟨b1, b2⟩ := H.notStats hm.2
      refine ⟨?_, by rw [b2, a2]⟩
      simp only [Out.append, lb_recordAll_append, b1, a1]

/-! ### the whole `for` loop returns -/

theorem lb_step_safe (E : Env) (hE : EnvOK E) (K : Keys) (debug : Bool) (ins : Nat → PassIn) (hi : InsSafe ins)
    (t : Token) (st : Loop) (sv : Bool) (hs : Inv E K st.srv) (hb : st.srv.batchSize ≤ 2 ^ 32)
    (hh : t = .healthCheck → st.hcListener = true) :
    ∃ st' o sv', stepTok E debug ins t st sv = .ok (st', o, sv') ∧ Inv E K st'.srv ∧
      st'.srv.batchSize = st.srv.batchSize ∧ st'.hcListener = st.hcListener := by
  cases t with
  | message =>
    obtain ⟨st1, o1, h1, h2, h3, h4⟩ := lb_service_safe E hE K debug MAX_BATCHES_PER_CALL st hs hb ins hi
    exact ⟨st1, o1, true, by simp only [stepTok, h1, lb_bind_ok], h2, h3, h4⟩
  | healthCheck =>
    obtain ⟨st1, o1, h1, h2, h3⟩ := lb_hc_ok' st (hh rfl)
    exact ⟨st1, o1, sv, by simp only [stepTok, h1, lb_bind_ok], by rw [h2]; exact hs, by rw [h2], h3⟩
  | statusUpdate =>
    obtain ⟨f1, _, _, _, f5, _⟩ := lb_stats_frame st
    exact ⟨_, _, sv, rfl, by rw [f1]; exact hs, by rw [f1], f5⟩

theorem lb_handle_safe (E : Env) (hE : EnvOK E) (K : Keys) (debug : Bool) (ins : Nat → PassIn) (hi : InsSafe ins) :
    ∀ (ts : List Token) (st : Loop) (sv : Bool), Inv E K st.srv → st.srv.batchSize ≤ 2 ^ 32 →
    (Token.healthCheck ∈ ts → st.hcListener = true) →
    ∃ st' o sv', handleEvents E debug ins ts st sv = .ok (st', o, sv') ∧ Inv E K st'.srv ∧
      st'.srv.batchSize = st.srv.batchSize ∧ st'.hcListener = st.hcListener := by
  intro ts
  induction ts with
  | nil => intro st sv hs _ _; exact ⟨st, {}, sv, rfl, hs, rfl, rfl⟩
  | cons t ts ih =>
    intro st sv hs hb hh
    obtain ⟨st1, o1, sv1, h1, h2, h3, h4⟩ := lb_step_safe E hE K debug ins hi t st sv hs hb
      (fun e => hh (by simp [e]))
    obtain ⟨st2, o2, sv2, g1, g2, g3, g4⟩ := ih st1 sv1 h2 (by omega)
      (fun e => by rw [h4]; exact hh (by simp [e]))
    refine ⟨st2, o1.append o2, sv2, ?_, g2, by omega, by rw [g4, h4]⟩
    rw [lb_handle_cons, h1, lb_bind_ok]
    simp only [g1, lb_bind_ok]

/-! ### the whole `for` loop without fault injection -/

theorem lb_step_spec (E : Env) (hE : EnvOK E) (K : Keys) (hK : K.OK) (debug : Bool) (ins : Nat → PassIn)
    (hi : InsOK ins) (t : Token) (st : Loop) (sv : Bool) (hs : Inv E K st.srv) (hb : st.srv.batchSize ≤ 2 ^ 32)
    (hh : t = .healthCheck → st.hcListener = true) :
    ∃ st' o sv', stepTok E debug ins t st sv = .ok (st', o, sv') ∧ Inv E K st'.srv ∧
      st'.srv.batchSize = st.srv.batchSize ∧ st'.srv.srv = st.srv.srv ∧ st'.hcListener = st.hcListener ∧
      (t = .message →
        o.sent = (plan st.srv.batchSize 16 st.sockQ ins).passes.flatMap (expectedSent E K st.srv) ∧
        st'.sockQ = (plan st.srv.batchSize 16 st.sockQ ins).rest ∧
        st'.backlog = (plan st.srv.batchSize 16 st.sockQ ins).full ∧
        st'.sockEdge = (st.sockEdge || (plan st.srv.batchSize 16 st.sockQ ins).arrived)) := by
  cases t with
  | message =>
    obtain ⟨st1, o1, h1, h2, h3, h4, h5, h6, h7, h8, h9⟩ :=
      lb_service_spec E hE K hK debug MAX_BATCHES_PER_CALL st hs hb ins hi
    exact ⟨st1, o1, true, by simp only [stepTok, h1, lb_bind_ok], h6, h7, h8, h9, fun _ => ⟨h2, h3, h4, h5⟩⟩
  | healthCheck =>
    obtain ⟨st1, o1, h1, h2, h3⟩ := lb_hc_ok' st (hh rfl)
    exact ⟨st1, o1, sv, by simp only [stepTok, h1, lb_bind_ok], by rw [h2]; exact hs, by rw [h2], by rw [h2], h3,
      (fun h => nomatch h)⟩
  | statusUpdate =>
    obtain ⟨f1, _, _, _, f5, _⟩ := lb_stats_frame st
    exact ⟨_, _, sv, rfl, by rw [f1]; exact hs, by rw [f1], by rw [f1], f5, (fun h => nomatch h)⟩

theorem lb_handle_spec (E : Env) (hE : EnvOK E) (K : Keys) (hK : K.OK) (debug : Bool) (ins : Nat → PassIn)
    (hi : InsOK ins) :
    ∀ (ts : List Token) (st : Loop) (sv : Bool), Inv E K st.srv → st.srv.batchSize ≤ 2 ^ 32 → ts.Nodup →
    (Token.healthCheck ∈ ts → st.hcListener = true) →
    ∃ st' o sv', handleEvents E debug ins ts st sv = .ok (st', o, sv') ∧ Inv E K st'.srv ∧
      st'.srv.batchSize = st.srv.batchSize ∧ st'.srv.srv = st.srv.srv ∧ st'.hcListener = st.hcListener ∧
      (Token.message ∈ ts →
        o.sent = (plan st.srv.batchSize 16 st.sockQ ins).passes.flatMap (expectedSent E K st.srv) ∧
        st'.sockQ = (plan st.srv.batchSize 16 st.sockQ ins).rest ∧
        st'.backlog = (plan st.srv.batchSize 16 st.sockQ ins).full ∧
        st'.sockEdge = (st.sockEdge || (plan st.srv.batchSize 16 st.sockQ ins).arrived)) := by
  intro ts
  induction ts with
  | nil => intro st sv hs _ _ _; exact ⟨st, {}, sv, rfl, hs, rfl, rfl, rfl, (fun h => by simp at h)⟩
  | cons t ts ih =>
    intro st sv hs hb hnd hh
    obtain ⟨hnt, hnd'⟩ := List.nodup_cons.mp hnd
    obtain ⟨st1, o1, sv1, h1, h2, h3, h4, h5, h6⟩ := lb_step_spec E hE K hK debug ins hi t st sv hs hb
      (fun e => hh (by simp [e]))
    obtain ⟨st2, o2, sv2, g1, g2, g3, g4, g5, g6⟩ := ih st1 sv1 h2 (by omega) hnd'
      (fun e => by rw [h5]; exact hh (by simp [e]))
    have S := lb_step_frame E debug ins t st sv st1 o1 sv1 h1
    have H := lb_handle_frame E debug ins ts st1 sv1 st2 o2 sv2 g1
    refine ⟨st2, o1.append o2, sv2, ?_, g2, by omega, by rw [g4, h4], by rw [g5, h5], ?_⟩
    · rw [lb_handle_cons, h1, lb_bind_ok]
      simp only [g1, lb_bind_ok]
    · intro hm
      by_cases ht : t = Token.message
      · subst ht
        obtain ⟨a1, a2, a3, a4⟩ := h6 rfl
        obtain ⟨b1, b2, b3, _, b5, _⟩ := H.notMsg hnt
        refine ⟨?_, by rw [b1, a2], by rw [b2, a3], by rw [b3, a4]⟩
        simp only [Out.append, a1, b5, List.append_nil]
      · have hin : Token.message ∈ ts := by
          simp only [List.mem_cons] at hm
          rcases hm with hm | hm
          · exact absurd hm.symm ht
          · exact hm
        obtain ⟨a1, _, a3, _, a5, a6⟩ := S.notMsg ht
        obtain ⟨b1, b2, b3, b4⟩ := g6 hin
        simp only [a6, a1, a3] at b1 b2 b3 b4
        refine ⟨?_, b2, b3, b4⟩
        simp only [Out.append, a5, b1, List.nil_append]

end Rough.Lemmas.Loop

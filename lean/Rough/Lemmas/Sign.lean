import Rough.Model.Sign
/-
  Lemmas about src/sign.rs (model: Rough/Model/Sign.lean): the buffering logic of
  MsgSigner / MsgVerifier, for an arbitrary signature scheme.  Referenced by Props/C13.
  Core-only.
-/
namespace Rough.Lemmas.Sign
open Rough

/-- messages signed by a history that starts with `cur` already buffered
    (same recursion as `Rough.Props.C13.segments.go`; stated here as a local definition because
    Props imports Lemmas, not the other way round) -/
def segs (cur : Bytes) : List SignerOp → List Bytes
  | [] => []
  | .update d :: ops => segs (cur ++ d) ops
  | .sign :: ops => cur :: segs [] ops

/-- general form of `signer`: arbitrary initial buffer -/
theorem runSigner_segs (S : SigScheme) (seed : Bytes) (ops : List SignerOp) :
    ∀ buf, runSigner S ⟨seed, buf⟩ ops = (segs buf ops).map (S.sign seed) := by
  induction ops with
  | nil => intro buf; rfl
  | cons op ops ih =>
    intro buf
    cases op with
    | update d => simpa [runSigner, segs, Signer.update] using ih (buf ++ d)
    | sign => simp [runSigner, segs, Signer.sign, ih []]

/-- feeding chunks is the same as appending their concatenation to the buffer -/
theorem foldl_update (s : Signer) (c : List Bytes) :
    c.foldl Signer.update s = ⟨s.seed, s.buf ++ c.flatten⟩ := by
  induction c generalizing s with
  | nil => simp
  | cons d c ih => simp [ih, Signer.update, List.append_assoc]

/-- a run of updates followed by one `sign`: exactly one signature, over buffer ‖ chunks -/
theorem runSigner_updates_sign (S : SigScheme) (seed : Bytes) (c : List Bytes) :
    ∀ buf, runSigner S ⟨seed, buf⟩ (c.map .update ++ [.sign]) = [S.sign seed (buf ++ c.flatten)] := by
  induction c with
  | nil => intro buf; simp [runSigner, Signer.sign]
  | cons d c ih =>
    intro buf
    simpa [runSigner, Signer.update, List.append_assoc] using ih (buf ++ d)

/-- verifier analogue of `foldl_update` -/
theorem foldl_vupdate (v : Verifier) (c : List Bytes) :
    c.foldl Verifier.update v = ⟨v.pk, v.buf ++ c.flatten⟩ := by
  induction c generalizing v with
  | nil => simp
  | cons d c ih => simp [ih, Verifier.update, List.append_assoc]

theorem verifier_new_ok (S : SigScheme) (pk : Bytes) (hpk : pk.length = 32) (hv : S.pkValid pk = true) :
    Verifier.new S pk = .ok ⟨pk, []⟩ := by
  simp [Verifier.new, hpk, hv]

/-! ### the four facts referenced by Props/C13 -/

/-- `seg` satisfies the defining equations of `Rough.Props.C13.segments` (which lives in Props/C13,
    downstream of this file): `seg = go []` where `go` accumulates chunks until a `sign`. -/
@[reducible] def IsSegments (seg : List SignerOp → List Bytes) : Prop :=
  ∃ go : Bytes → List SignerOp → List Bytes, seg = go [] ∧
    (∀ c, go c [] = []) ∧
    (∀ c d ops, go c (.update d :: ops) = go (c ++ d) ops) ∧
    (∀ c ops, go c (.sign :: ops) = c :: go [] ops)

theorem isSegments_segs : IsSegments (segs []) :=
  ⟨segs, rfl, fun _ => rfl, fun _ _ _ => rfl, fun _ _ => rfl⟩

/-- any two functions satisfying the equations agree -/
theorem IsSegments.eq_segs {seg : List SignerOp → List Bytes} (h : IsSegments seg) (ops : List SignerOp) :
    seg ops = segs [] ops := by
  obtain ⟨go, rfl, h1, h2, h3⟩ := h
  suffices ∀ c, go c ops = segs c ops from this []
  induction ops with
  | nil => intro c; rw [h1]; rfl
  | cons op ops ih =>
    intro c
    cases op with
    | update d => rw [h2, ih]; rfl
    | sign => rw [h3, ih]; rfl

/-- `C13_signer`.  `segments` is defined in Props/C13 (downstream), so the statement is generic in
    the segmentation function: it holds for every `seg` satisfying the defining equations of
    `segments`; the side condition is discharged by `rfl`s at the use site (auto-param). -/
theorem signer (S : SigScheme) (seed : Bytes) (ops : List SignerOp) {seg : List SignerOp → List Bytes}
    (hseg : IsSegments seg := by exact ⟨_, rfl, fun _ => rfl, fun _ _ _ => rfl, fun _ _ => rfl⟩) :
    runSigner S ⟨seed, []⟩ ops = (seg ops).map (S.sign seed) := by
  rw [hseg.eq_segs]; exact runSigner_segs S seed ops []

theorem no_carry_over (S : SigScheme) (s : Signer) : (s.sign S).2 = ⟨s.seed, []⟩ := rfl

theorem chunking (S : SigScheme) (seed : Bytes) (c1 c2 : List Bytes) (h : c1.flatten = c2.flatten) :
    runSigner S ⟨seed, []⟩ (c1.map .update ++ [.sign]) = runSigner S ⟨seed, []⟩ (c2.map .update ++ [.sign]) := by
  rw [runSigner_updates_sign, runSigner_updates_sign, h]

theorem verifier (S : SigScheme) (pk : Bytes) (chunks : List Bytes) (sig : Bytes)
    (hpk : pk.length = 32) (hv : S.pkValid pk = true) (hs : sig.length = 64) :
    (Verifier.new S pk).bind (fun v => (chunks.foldl Verifier.update v).verify S sig)
      = .ok (S.verify pk chunks.flatten sig) := by
  rw [verifier_new_ok S pk hpk hv]
  simp [Res.bind, foldl_vupdate, Verifier.verify, hs]

end Rough.Lemmas.Sign

import Rough.Model.Envelope
import Rough.Lemmas.Bytes
/-
  Envelope (src/kms/envelope.rs) lemmas: 16-bit little-endian facts, `parse`/`layout` are mutually
  inverse, round trip, tamper / wrong-key reductions.  Core-only.
-/
namespace Rough.Lemmas.Envelope
open Rough Rough.Lemmas Rough.Envelope

/-! ### le16 / rd16 -/

@[simp] theorem le16_length (n : Nat) : (le16 n).length = 2 := rfl

theorem leVal_two (a c : UInt8) : leVal [a, c] = a.toNat + 256 * c.toNat := by
  simp only [leVal_cons, leVal_nil]; omega

theorem le16_bytes (a c : UInt8) : le16 (a.toNat + 256 * c.toNat) = [a, c] := by
  have ha := a.toNat_lt; have hc := c.toNat_lt
  have h1 : (a.toNat + 256 * c.toNat) % 256 = a.toNat := by omega
  have h2 : (a.toNat + 256 * c.toNat) / 256 % 256 = c.toNat := by omega
  simp only [le16, h1, h2, UInt8.ofNat_toNat]

theorem leVal_le16 (n : Nat) : leVal (le16 n) = n % 65536 := by
  simp only [le16, leVal_cons, leVal_nil, UInt8.toNat_ofNat']
  omega

@[simp] theorem rd16_le16_append (n : Nat) (r : Bytes) : rd16 (le16 n ++ r) = n % 65536 := by
  have : (le16 n ++ r).take 2 = le16 n := by simp [le16]
  rw [rd16, this, leVal_le16]

theorem exists_two {b : Bytes} (h : 2 ≤ b.length) : ∃ x y r, b = x :: y :: r := by
  match b, h with
  | x :: y :: r, _ => exact ⟨x, y, r, rfl⟩

theorem rd16_cons2 (x y : UInt8) (r : Bytes) : rd16 (x :: y :: r) = x.toNat + 256 * y.toNat := by
  simp only [rd16, List.take_succ_cons, List.take_zero, leVal_two]

theorem le16_rd16_take {b : Bytes} (h : 2 ≤ b.length) : le16 (rd16 b) = b.take 2 := by
  obtain ⟨x, y, r, rfl⟩ := exists_two h
  rw [rd16_cons2, le16_bytes]; rfl

/-! ### parse / layout -/

theorem layout_length (w n ct : Bytes) :
    (layout w n ct).length = 4 + w.length + n.length + ct.length := by
  simp [layout, List.length_append]; omega

/-- parsing inverts the layout -/
theorem parse_layout (w nonce ct : Bytes) (hn : nonce.length = 12) (hwl : w.length < 2 ^ 16)
    (hmin : MIN_PAYLOAD_SIZE ≤ 4 + w.length + 12 + ct.length) :
    parse (layout w nonce ct) = some (w, nonce, ct) := by
  have hlen := layout_length w nonce ct
  have h1 : rd16 (layout w nonce ct) = w.length := by
    have : layout w nonce ct = le16 w.length ++ (le16 nonce.length ++ w ++ nonce ++ ct) := by
      simp [layout, List.append_assoc]
    rw [this, rd16_le16_append]; omega
  have hd2 : (layout w nonce ct).drop 2 = le16 nonce.length ++ (w ++ nonce ++ ct) := by
    have : layout w nonce ct = le16 w.length ++ (le16 nonce.length ++ (w ++ nonce ++ ct)) := by
      simp [layout, List.append_assoc]
    rw [this, List.drop_left' (le16_length _)]
  have h2 : rd16 ((layout w nonce ct).drop 2) = 12 := by
    rw [hd2, rd16_le16_append, hn]
  have hd4 : (layout w nonce ct).drop 4 = w ++ (nonce ++ ct) := by
    have : layout w nonce ct = (le16 w.length ++ le16 nonce.length) ++ (w ++ (nonce ++ ct)) := by
      simp [layout, List.append_assoc]
    rw [this, List.drop_left' (by simp)]
  unfold parse
  simp only [h1, h2, hd4]
  rw [if_neg (by omega), if_neg (by omega)]
  rw [if_neg (by simp [List.length_append])]
  have ht : (w ++ (nonce ++ ct)).take w.length = w := List.take_left' rfl
  have hdw : (w ++ (nonce ++ ct)).drop w.length = nonce ++ ct := List.drop_left' rfl
  simp only [ht, hdw]
  rw [if_neg (by simp [List.length_append]; omega)]
  have : (12 : Nat) = nonce.length := hn.symm
  rw [this, List.take_left' rfl, List.drop_left' rfl]

/-- the layout inverts parsing -/
theorem layout_of_parse {b w n ct : Bytes} (h : parse b = some (w, n, ct)) :
    b = layout w n ct ∧ n.length = 12 ∧ w.length < 2 ^ 16 ∧
      MIN_PAYLOAD_SIZE ≤ 4 + w.length + 12 + ct.length := by
  unfold parse at h
  split at h
  · cases h
  rename_i hmin
  simp only at h
  split at h
  · cases h
  rename_i hc
  split at h
  · cases h
  rename_i hr
  split at h
  · cases h
  rename_i hr2
  simp only [Option.some.injEq, Prod.mk.injEq] at h
  obtain ⟨hw, hnn, hct⟩ := h
  have hM : MIN_PAYLOAD_SIZE = 64 := rfl
  have hb2 : 2 ≤ b.length := by omega
  have hb4 : 2 ≤ (b.drop 2).length := by simp [List.length_drop]; omega
  have hN : rd16 (b.drop 2) = 12 := by
    rcases Nat.lt_or_ge 12 (rd16 (b.drop 2)) with h | h
    · exact absurd (Or.inl (by omega)) hc
    · rcases Nat.lt_or_ge (rd16 (b.drop 2)) 12 with h' | h'
      · exact absurd (Or.inl (by omega)) hc
      · omega
  have hwlen : w.length = rd16 b := by
    rw [← hw, List.length_take]; omega
  have hnlen : n.length = 12 := by
    rw [← hnn, List.length_take]; omega
  have hlt : rd16 b < 2 ^ 16 := by
    have h := leVal_lt (b.take 2)
    have h4 : (b.take 2).length ≤ 2 := by simp [List.length_take]; omega
    have : 256 ^ (b.take 2).length ≤ 256 ^ 2 := Nat.pow_le_pow_right (by decide) h4
    unfold rd16; omega
  have e1 : le16 w.length = b.take 2 := by rw [hwlen, le16_rd16_take hb2]
  have e2 : le16 n.length = (b.drop 2).take 2 := by rw [hnlen, ← hN, le16_rd16_take hb4]
  have hrec : b = layout w n ct := by
    unfold layout
    rw [e1, e2, ← hw, ← hnn, ← hct]
    have d4 : b.drop 4 = (b.drop 2).drop 2 := by rw [List.drop_drop]
    simp only [List.append_assoc]
    rw [List.take_append_drop, List.take_append_drop, d4,
      List.take_append_drop, List.take_append_drop]
  refine ⟨hrec, hnlen, by omega, ?_⟩
  have := congrArg List.length hrec
  rw [layout_length] at this
  omega

theorem parse_injective (b b' : Bytes) (x : Bytes × Bytes × Bytes)
    (h : parse b = some x) (h' : parse b' = some x) : b = b' := by
  obtain ⟨w, n, ct⟩ := x
  rw [(layout_of_parse h).1, (layout_of_parse h').1]

/-! ### decrypt -/

/-- everything a successful `decrypt` went through -/
theorem decrypt_ok {K : Kms} {A : Aead} {blob p : Bytes} (h : decrypt K A blob = .ok p) :
    ∃ w n c dek, parse blob = some (w, n, c) ∧ K.unwrap w = some dek ∧ dek.length = 32 ∧
      A.openF dek n AD c = some p := by
  unfold decrypt at h
  split at h
  · cases h
  rename_i w n c hp
  split at h
  · cases h
  rename_i dek hu
  split at h
  · cases h
  rename_i hl
  split at h
  · rename_i p0 ho
    cases h
    exact ⟨w, n, c, dek, hp, hu, by omega, ho⟩
  · cases h

theorem decrypt_err_of_len {K : Kms} {A : Aead} {blob w n c dek : Bytes}
    (hp : parse blob = some (w, n, c)) (hu : K.unwrap w = some dek) (hl : dek.length ≠ 32) :
    decrypt K A blob = .err := by
  unfold decrypt
  simp only [hp, hu, hl, ne_eq, not_false_eq_true, if_true]

theorem decrypt_of_open {K : Kms} {A : Aead} {blob w n c dek p : Bytes}
    (hp : parse blob = some (w, n, c)) (hu : K.unwrap w = some dek) (hl : dek.length = 32)
    (ho : A.openF dek n AD c = some p) :
    decrypt K A blob = .ok p := by
  unfold decrypt
  simp only [hp, hu, hl, ho, ne_eq, not_true_eq_false, if_false]

theorem round_trip (K : Kms) (A : Aead) (hA : A.Correct)
    (hlen : ∀ k n ad pt ct, A.sealF k n ad pt = some ct → ct.length = pt.length + 16)
    (dek nonce seed w : Bytes) (hd : dek.length = 32) (hn : nonce.length = 12)
    (hw : K.wrap dek = some w) (hu : K.unwrap w = some dek) (hwl : w.length < 2 ^ 16)
    (hs : 32 ≤ seed.length) :
    ∃ blob, encrypt K A dek nonce seed = .ok blob ∧ decrypt K A blob = .ok seed := by
  obtain ⟨ct, hseal, hopen⟩ := hA dek nonce AD seed hd hn
  have hcl := hlen _ _ _ _ _ hseal
  have hM : MIN_PAYLOAD_SIZE = 64 := rfl
  refine ⟨layout w nonce ct, ?_, ?_⟩
  · unfold encrypt; simp only [hseal, hw]
  · have hp := parse_layout w nonce ct hn hwl (by omega)
    exact decrypt_of_open hp hu hd hopen

theorem tamper (K : Kms) (A : Aead) (w nonce ct : Bytes) (_hn : nonce.length = 12)
    (_hwl : w.length < 2 ^ 16)
    (_hmin : MIN_PAYLOAD_SIZE ≤ 4 + w.length + 12 + ct.length)
    (blob' p' : Bytes) (hne : blob' ≠ layout w nonce ct) (hdec : decrypt K A blob' = .ok p') :
    ∃ w' n' c' dek', parse blob' = some (w', n', c') ∧ (w', n', c') ≠ (w, nonce, ct) ∧
      K.unwrap w' = some dek' ∧ dek'.length = 32 ∧ A.openF dek' n' AD c' = some p' := by
  obtain ⟨w', n', c', dek', hp, hu, hl, ho⟩ := decrypt_ok hdec
  refine ⟨w', n', c', dek', hp, ?_, hu, hl, ho⟩
  intro heq
  simp only [Prod.mk.injEq] at heq
  obtain ⟨rfl, rfl, rfl⟩ := heq
  exact hne (layout_of_parse hp).1

theorem wrong_key (K' : Kms) (A : Aead) (w nonce ct dek' : Bytes) (hn : nonce.length = 12)
    (hwl : w.length < 2 ^ 16) (hmin : MIN_PAYLOAD_SIZE ≤ 4 + w.length + 12 + ct.length)
    (hu : K'.unwrap w = some dek') :
    (dek'.length ≠ 32 → decrypt K' A (layout w nonce ct) = .err) ∧
    (∀ p, decrypt K' A (layout w nonce ct) = .ok p → A.openF dek' nonce AD ct = some p) := by
  have hp := parse_layout w nonce ct hn hwl hmin
  constructor
  · intro hl
    exact decrypt_err_of_len hp hu hl
  · intro p hdec
    obtain ⟨w2, n2, c2, dek2, hp2, hu2, _, ho⟩ := decrypt_ok hdec
    rw [hp] at hp2
    simp only [Option.some.injEq, Prod.mk.injEq] at hp2
    obtain ⟨rfl, rfl, rfl⟩ := hp2
    rw [hu] at hu2
    cases hu2
    exact ho

theorem layout_of_encrypt (K : Kms) (A : Aead) (dek nonce seed b : Bytes)
    (h : encrypt K A dek nonce seed = .ok b) :
    ∃ w ct, K.wrap dek = some w ∧ A.sealF dek nonce AD seed = some ct ∧ b = layout w nonce ct := by
  unfold encrypt at h
  split at h
  · cases h
  rename_i ct hs
  split at h
  · cases h
  rename_i w hw
  cases h
  exact ⟨w, ct, hw, hs, rfl⟩

end Rough.Lemmas.Envelope

import Rough.Lemmas.Codec
import Rough.Model.Keys
/-
  Reusable facts for everything that builds messages through `add_field(..).unwrap()`:
  `buildMsg_sorted`, reference-decoder round trip, the context strings as explicit bytes.
  Core-only.
-/
namespace Rough.Lemmas.Keys
open Rough

/-! ### buildMsg -/

/-- `add_field` succeeds (and appends) when the new tag is above every tag already present -/
theorem addField_ok (m : Msg) (t : Tag) (v : Bytes) (h : ∀ f ∈ m.fields, f.1.idx < t.idx) :
    m.addField t v = some ⟨m.fields ++ [(t, v)]⟩ := by
  unfold Msg.addField
  cases hl : m.fields.getLast? with
  | none =>
    have : m.fields = [] := List.getLast?_eq_none_iff.mp hl
    simp [this]
  | some p =>
    obtain ⟨lt, lv⟩ := p
    have hmem : (lt, lv) ∈ m.fields := List.mem_of_getLast? hl
    have : lt.idx < t.idx := h _ hmem
    simp only
    rw [if_neg (by omega)]

/-- general form of `buildMsg_sorted`: continuing from an already built message -/
theorem buildMsg_foldl_sorted (site : String) (fields : List (Tag × Bytes)) :
    ∀ (m : Msg), ((m.fields ++ fields).map (·.1)).Pairwise (fun a b => a.idx < b.idx) →
    fields.foldl (fun (acc : Res Msg) (f : Tag × Bytes) =>
        acc.bind fun m => Res.unwrap site (m.addField f.1 f.2)) (Res.ok m)
      = Res.ok ⟨m.fields ++ fields⟩ := by
  induction fields with
  | nil => intro m _; simp
  | cons f fs ih =>
    intro m hp
    have hlt : ∀ g ∈ m.fields, g.1.idx < f.1.idx := by
      intro g hg
      rw [List.map_append, List.pairwise_append] at hp
      exact hp.2.2 g.1 (List.mem_map_of_mem hg) f.1 (by simp)
    rw [List.foldl_cons]
    have h1 : ((Res.ok m).bind fun m => Res.unwrap site (m.addField f.1 f.2))
        = .ok ⟨m.fields ++ [(f.1, f.2)]⟩ := by
      simp only [Res.bind, addField_ok m f.1 f.2 hlt, Res.unwrap]
    rw [h1, ih ⟨m.fields ++ [(f.1, f.2)]⟩ (by simpa using hp)]
    simp

/-- **`buildMsg` on a strictly increasing field list is that list** (no `add_field` fails, so no
    `unwrap` panics).  The hypothesis is `Msg.Sorted ⟨fields⟩`; for explicit tag lists it is
    discharged by `by decide` (values may be variables). -/
theorem buildMsg_sorted (site : String) (fields : List (Tag × Bytes))
    (h : (fields.map (·.1)).Pairwise (fun a b => a.idx < b.idx)) :
    buildMsg site fields = .ok ⟨fields⟩ := by
  have := buildMsg_foldl_sorted site fields Msg.empty (by simpa [Msg.empty] using h)
  simpa [buildMsg, Msg.empty] using this

/-- discharges `List.Pairwise (·.idx < ·.idx) (fields.map (·.1))` (also `Msg.Sorted ⟨fields⟩` after
    `unfold Msg.Sorted Msg.tags`) for an explicit list of fields whose tags are constructors; the
    values may be arbitrary terms.  Typical use: `buildMsg_sorted _ _ (by tags_sorted)`. -/
macro "tags_sorted" : tactic =>
  `(tactic| (simp only [List.map_cons, List.map_nil]; decide))

/-- same, hypothesis phrased with `Msg.Sorted` -/
theorem buildMsg_of_sorted (site : String) (m : Msg) (h : m.Sorted) : buildMsg site m.fields = .ok m :=
  buildMsg_sorted site m.fields h

/-- converse: whatever `buildMsg` returns successfully is the input list, and it is sorted -/
theorem buildMsg_ok_iff (site : String) (fields : List (Tag × Bytes)) (m : Msg) :
    (fields.map (·.1)).Pairwise (fun a b => a.idx < b.idx) → (buildMsg site fields = .ok m ↔ m = ⟨fields⟩) := by
  intro h
  rw [buildMsg_sorted site fields h]
  constructor
  · intro e; cases e; rfl
  · intro e; rw [e]

/-! ### reference decoder round trip -/

/-- `Spec.decode ∘ encode = some` for sorted, aligned messages below the u32 limit -/
theorem spec_decode_encode (m : Msg) (hs : m.Sorted) (ha : m.Aligned) (hsz : encodedSize m < 2 ^ 32) :
    Spec.decode (encode m) = some m :=
  (ref_agree (encode m) m (by rw [encode_length]; exact hsz)).mp (decode_encode m hs ha hsz)

@[simp] theorem le64_length (n : Nat) : (le64 n).length = 8 := rfl

theorem leVal_le64 (n : Nat) : leVal (le64 n) = n % 2 ^ 64 := by
  simp only [le64, le32, List.cons_append, List.nil_append, leVal_cons, leVal_nil, UInt8.toNat_ofNat']
  omega

/-! ### context strings as explicit bytes -/

/-- "RoughTime v1 delegation signature" -/
def deleStr : Bytes :=
  [82, 111, 117, 103, 104, 84, 105, 109, 101, 32, 118, 49, 32, 100, 101, 108, 101, 103, 97, 116,
   105, 111, 110, 32, 115, 105, 103, 110, 97, 116, 117, 114, 101]

/-- "RoughTime v1 response signature" -/
def srepStr : Bytes :=
  [82, 111, 117, 103, 104, 84, 105, 109, 101, 32, 118, 49, 32, 114, 101, 115, 112, 111, 110, 115,
   101, 32, 115, 105, 103, 110, 97, 116, 117, 114, 101]

theorem strBytes_dele_ietf : strBytes "RoughTime v1 delegation signature" = deleStr := by
  have : "RoughTime v1 delegation signature" = String.ofList
      ['R', 'o', 'u', 'g', 'h', 'T', 'i', 'm', 'e', ' ', 'v', '1', ' ', 'd', 'e', 'l', 'e', 'g', 'a',
       't', 'i', 'o', 'n', ' ', 's', 'i', 'g', 'n', 'a', 't', 'u', 'r', 'e'] := by decide
  rw [this, strBytes_ofList]
  decide

theorem strBytes_dele_google : strBytes "RoughTime v1 delegation signature--" = deleStr ++ [45, 45] := by
  have : "RoughTime v1 delegation signature--" = String.ofList
      ['R', 'o', 'u', 'g', 'h', 'T', 'i', 'm', 'e', ' ', 'v', '1', ' ', 'd', 'e', 'l', 'e', 'g', 'a',
       't', 'i', 'o', 'n', ' ', 's', 'i', 'g', 'n', 'a', 't', 'u', 'r', 'e', '-', '-'] := by decide
  rw [this, strBytes_ofList]
  decide

theorem strBytes_srep : strBytes "RoughTime v1 response signature" = srepStr := by
  have : "RoughTime v1 response signature" = String.ofList
      ['R', 'o', 'u', 'g', 'h', 'T', 'i', 'm', 'e', ' ', 'v', '1', ' ', 'r', 'e', 's', 'p', 'o', 'n',
       's', 'e', ' ', 's', 'i', 'g', 'n', 'a', 't', 'u', 'r', 'e'] := by decide
  rw [this, strBytes_ofList]
  decide

theorem delePrefix_ietf : Version.ietf.delePrefix = deleStr ++ [0] := by
  rw [Version.delePrefix, strBytes_dele_ietf]

theorem delePrefix_google : Version.google.delePrefix = deleStr ++ [45, 45, 0] := by
  rw [Version.delePrefix, strBytes_dele_google, List.append_assoc]; rfl

theorem srepPrefix_eq (v : Version) : v.srepPrefix = srepStr ++ [0] := by
  rw [Version.srepPrefix, strBytes_srep]

theorem delePrefix_length (v : Version) :
    v.delePrefix.length = match v with | .google => 36 | .ietf => 34 := by
  cases v
  · rw [delePrefix_google]; rfl
  · rw [delePrefix_ietf]; rfl

theorem srepPrefix_length (v : Version) : v.srepPrefix.length = 32 := by
  rw [srepPrefix_eq]; rfl

end Rough.Lemmas.Keys

import Rough.Lemmas.ServerSpec
import Rough.Lemmas.SpecRT
import Rough.Lemmas.Request
/-
  Assembly lemmas for the server-level properties C02 (`honest`), C07 (`no_amplification`) and
  C18 (`workers`): `pass_spec` / `run_spec'` (the model sends exactly `expectedSent`) combined with
  `respond_accepted` / `respond_length` (the reference verifier accepts the reference responder,
  whose reply has a known length).
-/
namespace Rough.Lemmas.ServerAssembly
open Rough Rough.ServerSpec Rough.Spec
open Rough.Lemmas.ServerSpec

/-! ### small local facts -/

theorem sa_midpVal_lt (ver : Version) (now : Nat × Nat) (h : clockOK now) : midpVal ver now < 2 ^ 64 := by
  obtain ⟨h1, h2⟩ := h
  cases ver with
  | ietf =>
    have hm : midpOf .ietf now.1 now.2 = .ok now.1 := rfl
    rw [ss_midpVal_of hm]; omega
  | google =>
    have hm : midpOf .google now.1 now.2 = .ok (now.1 * 1000000 + now.2 / 1000) :=
      ss_classicMidp_ok now.1 now.2 h1 h2
    rw [ss_midpVal_of hm]; omega

theorem sa_radiOf_lt (ver : Version) : radiOf ver < 2 ^ 32 := by
  cases ver <;> decide

theorem sa_leaf (ver : Version) (reqs : List (Datagram × Bytes)) (i : Nat) (h : i < reqs.length)
    (h' : i < (reqs.map (leafOf ver)).length) :
    (reqs.map (leafOf ver))[i] =
      (match protoOfVer ver with | .classic => reqs[i].2 | .draft13 => reqs[i].1.bytes) := by
  cases ver <;> simp [leafOf, protoOfVer]

theorem sa_onl_len (K : Keys) (hK : K.OK) (ver : Version) : (onlOf K ver).length = 32 := by
  obtain ⟨_, h2, h3⟩ := hK
  cases ver
  · exact h3
  · exact h2

theorem sa_accepted_le (srv : Bytes) (ver : Version) (chunk : List Datagram) (b : Nat) :
    (accepted srv ver (chunk.take b)).length ≤ b := by
  have h1 := ss_accepted_length srv ver (chunk.take b)
  rw [List.length_take] at h1
  omega

/-- the i-th accepted request of a chunk: it is in the chunk, it is at least 1024 bytes long, and its
    nonce is 32 or 64 bytes long -/
theorem sa_accepted_getElem (srv : Bytes) (ver : Version) (chunk : List Datagram) (i : Nat)
    (h : i < (accepted srv ver chunk).length) :
    (accepted srv ver chunk)[i].1 ∈ chunk ∧
    nonceFromRequest (accepted srv ver chunk)[i].1.bytes srv = .ok ((accepted srv ver chunk)[i].2, ver) ∧
    1024 ≤ (accepted srv ver chunk)[i].1.bytes.length ∧
    ((accepted srv ver chunk)[i].2.length = 64 ∨ (accepted srv ver chunk)[i].2.length = 32) := by
  have hmem : ((accepted srv ver chunk)[i].1, (accepted srv ver chunk)[i].2) ∈ accepted srv ver chunk :=
    List.getElem_mem h
  obtain ⟨h1, h2⟩ := ss_accepted_mem srv ver chunk _ _ hmem
  exact ⟨h1, h2, (Lemmas.Request.only_wellformed _ _ _ _ h2).1, ss_nonce_len h2⟩

/-! ### one reply: verification and length -/

/-- the reference reply for position `i` of a batch of accepted requests is accepted by the reference
    verifier for the i-th request under the long-term key -/
theorem sa_reply_verifies (E : Env) (hE : EnvOK E) (hS : E.S.Correct) (K : Keys) (hK : K.OK)
    (ver : Version) (now : Nat × Nat) (hnow : clockOK now) (reqs : List (Datagram × Bytes))
    (hlen : reqs.length ≤ 2 ^ 32) (i : Nat) (h : i < reqs.length)
    (hn : reqs[i].2.length = 64 ∨ reqs[i].2.length = 32) :
    RT.verifyResponse E.S E.H (protoOfVer ver) (E.S.pk K.seed) reqs[i].1.bytes reqs[i].2
      (RT.respond E.S E.H (protoOfVer ver) K.seed (onlOf K ver) (midpVal ver now) (radiOf ver) 0 (2 ^ 64 - 1)
        (reqs.map (leafOf ver)) i reqs[i].2) = .ok (midpVal ver now, radiOf ver) := by
  have hi : i < (reqs.map (leafOf ver)).length := by rw [List.length_map]; exact h
  exact Lemmas.SpecRT.respond_accepted E.S hS E.H hE.hashLen hE.sigLen hE.pkLen (protoOfVer ver) K.seed
    (onlOf K ver) hK.1 (sa_onl_len K hK ver) (midpVal ver now) (radiOf ver) (sa_midpVal_lt ver now hnow)
    (sa_radiOf_lt ver) (reqs.map (leafOf ver)) i hi (by rw [List.length_map]; exact hlen)
    reqs[i].1.bytes reqs[i].2 (by omega) (by omega) (sa_leaf ver reqs i h hi)

/-- the reference reply for a batch of at most 255 requests and a nonce of at most 64 bytes is at most
    944 bytes long -/
theorem sa_reply_length (E : Env) (hE : EnvOK E) (K : Keys) (ver : Version) (midp : Nat)
    (reqs : List (Datagram × Bytes)) (hlen : reqs.length ≤ 255) (i : Nat) (h : i < reqs.length)
    (hn : reqs[i].2.length = 64 ∨ reqs[i].2.length = 32) :
    (RT.respond E.S E.H (protoOfVer ver) K.seed (onlOf K ver) midp (radiOf ver) 0 (2 ^ 64 - 1)
        (reqs.map (leafOf ver)) i reqs[i].2).length ≤ 944 := by
  have hi : i < (reqs.map (leafOf ver)).length := by rw [List.length_map]; exact h
  have hd := Lemmas.SpecRT.depth_le_8 (reqs.map (leafOf ver)).length (by rw [List.length_map]; exact hlen)
  have hl := Lemmas.SpecRT.respond_length E.S E.H hE.hashLen hE.sigLen hE.pkLen (protoOfVer ver) K.seed
    (onlOf K ver) midp (radiOf ver) 0 (2 ^ 64 - 1) (reqs.map (leafOf ver)) i hi reqs[i].2
  rw [hl]
  cases protoOfVer ver <;> simp only <;> omega

/-! ### `expectedSent`: one valid reply per accepted request -/

/-- the clock reading used for protocol `ver` in a pass -/
def nowOf (p : Server.Pass) : Version → Nat × Nat
  | .ietf => p.nowIetf
  | .google => p.nowClassic

theorem sa_mem_expectedSent (E : Env) (K : Keys) (s : Server) (p : Server.Pass) (ver : Version) (x : Sent)
    (hx : x ∈ expectedBatch E K ver (nowOf p ver) (accepted s.srv ver (p.chunk.take s.batchSize))) :
    x ∈ expectedSent E K s p := by
  unfold expectedSent
  cases ver
  · exact List.mem_append.mpr (Or.inr hx)
  · exact List.mem_append.mpr (Or.inl hx)

theorem sa_now_ok (p : Server.Pass) (hp : PassOK p) (ver : Version) : clockOK (nowOf p ver) := by
  cases ver
  · exact hp.2.1
  · exact hp.1

/-- for every accepted request there is a datagram in `expectedSent` addressed to its source that the
    reference verifier accepts for this request under the long-term key (and that is no longer than
    the request when batches have at most 255 requests) -/
theorem expectedSent_verifies (E : Env) (hE : EnvOK E) (hS : E.S.Correct) (K : Keys) (hK : K.OK)
    (s : Server) (hb : s.batchSize ≤ 2 ^ 32) (p : Server.Pass) (hp : PassOK p) (ver : Version) (i : Nat)
    (h : i < (accepted s.srv ver (p.chunk.take s.batchSize)).length) :
    ∃ x ∈ expectedSent E K s p, x.dst = (accepted s.srv ver (p.chunk.take s.batchSize))[i].1.src ∧
      (s.batchSize ≤ 255 →
        x.bytes.length ≤ (accepted s.srv ver (p.chunk.take s.batchSize))[i].1.bytes.length) ∧
      RT.verifyResponse E.S E.H (protoOfVer ver) (E.S.pk K.seed)
        (accepted s.srv ver (p.chunk.take s.batchSize))[i].1.bytes
        (accepted s.srv ver (p.chunk.take s.batchSize))[i].2 x.bytes
        = .ok (midpVal ver (nowOf p ver), radiOf ver) := by
  have hnow := sa_now_ok p hp ver
  have hmemS := sa_mem_expectedSent E K s p ver
  have hle := sa_accepted_le s.srv ver p.chunk s.batchSize
  obtain ⟨_, _, h1024, hn⟩ := sa_accepted_getElem s.srv ver (p.chunk.take s.batchSize) i h
  generalize nowOf p ver = now at hnow hmemS ⊢
  generalize accepted s.srv ver (p.chunk.take s.batchSize) = reqs at *
  have hget := ss_expectedBatch_getElem? E K ver now reqs i h
  refine ⟨_, hmemS _ (List.mem_of_getElem? hget), rfl, ?_, ?_⟩
  · intro hb255
    have := sa_reply_length E hE K ver (midpVal ver now) reqs (by omega) i h hn
    exact Nat.le_trans this (Nat.le_trans (by omega) h1024)
  · exact sa_reply_verifies E hE hS K hK ver now hnow reqs (by omega) i h hn

/-! ### C02 -/

theorem honest (E : Env) (hE : EnvOK E) (hS : E.S.Correct) (K : Keys) (hK : K.OK) (debug : Bool)
    (s : Server) (hs : Inv E K s) (hb : s.batchSize ≤ 2 ^ 32) (p : Server.Pass) (hp : PassOK p) :
    ∃ s' sent ev, Server.pass E debug s p = .ok (s', sent, ev) ∧
      ∀ ver, ∀ i (h : i < (accepted s.srv ver (p.chunk.take s.batchSize)).length),
        let reqs := accepted s.srv ver (p.chunk.take s.batchSize)
        let now := match ver with | .ietf => p.nowIetf | .google => p.nowClassic
        ∃ x ∈ sent, x.dst = reqs[i].1.src ∧
          RT.verifyResponse E.S E.H (protoOfVer ver) (E.S.pk K.seed) reqs[i].1.bytes reqs[i].2 x.bytes
            = .ok (midpVal ver now, radiOf ver) := by
  obtain ⟨s', hpass, _⟩ := pass_spec E hE K hK debug s hs hb p hp
  refine ⟨s', _, _, hpass, ?_⟩
  intro ver i h
  obtain ⟨x, hx, hd, _, hv⟩ := expectedSent_verifies E hE hS K hK s hb p hp ver i h
  cases ver
  · exact ⟨x, hx, hd, hv⟩
  · exact ⟨x, hx, hd, hv⟩

/-! ### C07 -/

/-- every element of a batch of at most 255 accepted requests is at most 944 bytes long, addressed to
    the source of an accepted request of the chunk, and no longer than that request -/
theorem sa_batch_no_amplification (E : Env) (hE : EnvOK E) (K : Keys) (srv : Bytes) (ver : Version)
    (now : Nat × Nat) (chunk : List Datagram) (hlen : (accepted srv ver chunk).length ≤ 255) :
    ∀ x ∈ expectedBatch E K ver now (accepted srv ver chunk), x.bytes.length ≤ 944 ∧
      ∃ d ∈ chunk, d.src = x.dst ∧ (∃ n v, nonceFromRequest d.bytes srv = .ok (n, v)) ∧
        x.bytes.length ≤ d.bytes.length := by
  intro x hx
  obtain ⟨i, h, rfl⟩ := ss_mem_expectedBatch E K ver now _ x hx
  obtain ⟨hmem, hnonce, h1024, hn⟩ := sa_accepted_getElem srv ver chunk i h
  have hl := sa_reply_length E hE K ver (midpVal ver now) (accepted srv ver chunk) hlen i h hn
  refine ⟨hl, _, hmem, rfl, ⟨_, _, hnonce⟩, ?_⟩
  exact Nat.le_trans hl (by omega)

theorem no_amplification (E : Env) (hE : EnvOK E) (K : Keys)
    (hK : K.OK) (debug : Bool) (s : Server) (hs : Inv E K s) (hb : s.batchSize ≤ 255)
    (p : Server.Pass) (hp : PassOK p)
    (s' : Server) (sent : List Sent) (ev : List Stats.Event)
    (h : Server.pass E debug s p = .ok (s', sent, ev)) :
    sent.length = (accepted s.srv .ietf (p.chunk.take s.batchSize)).length
                + (accepted s.srv .google (p.chunk.take s.batchSize)).length ∧
    ∀ x ∈ sent, x.bytes.length ≤ 944 ∧
      ∃ d ∈ p.chunk.take s.batchSize, d.src = x.dst ∧ (∃ n v, nonceFromRequest d.bytes s.srv = .ok (n, v)) ∧
        x.bytes.length ≤ d.bytes.length := by
  obtain ⟨s1, hpass, _⟩ := pass_spec E hE K hK debug s hs (by omega) p hp
  rw [hpass] at h
  injection h with h
  injection h with _ h
  injection h with hsent _
  subst hsent
  constructor
  · simp only [expectedSent, List.length_append, (exactly_once E K _ _ _).1]
  · intro x hx
    unfold expectedSent at hx
    rcases List.mem_append.mp hx with hx | hx
    · exact sa_batch_no_amplification E hE K s.srv .ietf p.nowIetf _
        (Nat.le_trans (sa_accepted_le s.srv .ietf p.chunk s.batchSize) hb) x hx
    · exact sa_batch_no_amplification E hE K s.srv .google p.nowClassic _
        (Nat.le_trans (sa_accepted_le s.srv .google p.chunk s.batchSize) hb) x hx

/-! ### C18 -/

theorem workers (E : Env) (hE : EnvOK E) (hS : E.S.Correct) (seed : Bytes) (debug : Bool)
    (Ks : List Keys) (hKs : ∀ K ∈ Ks, K.OK ∧ K.seed = seed)
    (servers : List Server) (work : List (List Server.Pass))
    (hl1 : servers.length = Ks.length) (hl2 : work.length = Ks.length)
    (hinv : ∀ w (h : w < Ks.length), Inv E Ks[w] (servers[w]'(by omega)) ∧ (servers[w]'(by omega)).batchSize ≤ 255)
    (hwork : ∀ ps ∈ work, ∀ p ∈ ps, PassOK p) :
    ∀ w (h : w < Ks.length),
      let s := servers[w]'(by omega)
      let ps := work[w]'(by omega)
      ∃ s', Server.run E debug s ps = .ok (s', ps.flatMap (expectedSent E Ks[w] s), ps.flatMap (expectedEvents E Ks[w] s)) ∧
        Inv E Ks[w] s' ∧
        ∀ p ∈ ps, ∀ ver, ∀ i (hi : i < (accepted s.srv ver (p.chunk.take s.batchSize)).length),
          let reqs := accepted s.srv ver (p.chunk.take s.batchSize)
          let now := match ver with | .ietf => p.nowIetf | .google => p.nowClassic
          ∃ x ∈ expectedSent E Ks[w] s p, x.dst = reqs[i].1.src ∧
            x.bytes.length ≤ reqs[i].1.bytes.length ∧
            RT.verifyResponse E.S E.H (protoOfVer ver) (E.S.pk seed) reqs[i].1.bytes reqs[i].2 x.bytes
              = .ok (midpVal ver now, radiOf ver) := by
  intro w h s ps
  obtain ⟨hKok, hKseed⟩ := hKs Ks[w] (List.getElem_mem h)
  obtain ⟨hsinv, hsb⟩ := hinv w h
  have hps : ∀ p ∈ ps, PassOK p := hwork ps (List.getElem_mem _)
  obtain ⟨s', hrun, hinv', _⟩ := run_spec' E hE Ks[w] hKok debug ps s hsinv
    (Nat.le_trans hsb (by omega)) hps
  refine ⟨s', hrun, hinv', ?_⟩
  intro p hp ver i hi
  obtain ⟨x, hx, hd, hlen, hv⟩ := expectedSent_verifies E hE hS Ks[w] hKok s
    (Nat.le_trans hsb (by omega)) p (hps p hp) ver i hi
  rw [hKseed] at hv
  cases ver
  · exact ⟨x, hx, hd, hlen hsb, hv⟩
  · exact ⟨x, hx, hd, hlen hsb, hv⟩

end Rough.Lemmas.ServerAssembly

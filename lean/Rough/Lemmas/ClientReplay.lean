import Rough.Lemmas.ClientRespond
/-
  C01 no-replay: an authentic reference reply for a batch that does not contain this request's leaf
  is accepted only if the hash is broken.
-/
namespace Rough.Lemmas.Client
open Rough Rough.Spec Rough.Spec.RT Rough.Spec.MT Rough.Client Rough.Merkle Rough.ServerSpec Rough.Lemmas
open Rough.Lemmas.SpecRT

/-- what `RT.authentic … = some _` says about the Merkle part, given the structure of the datagram -/
theorem authentic_root (S : SigScheme) (H : Bytes → Bytes) (p : Proto) (ltpk request nonce response : Bytes)
    (body : Bytes) (m cert dele srep : Msg)
    (sig path srepB certB indxB certSig deleB pubk mint maxt radi midp root : Bytes)
    (hb : (match p with
        | .classic => some response
        | .draft13 => if response.length ≥ 12 ∧ response.take 8 = magic then some (response.drop 12) else none)
        = some body)
    (hm : decode body = some m)
    (h1 : m.get Tag.SIG = some sig) (h2 : m.get Tag.PATH = some path) (h3 : m.get Tag.SREP = some srepB)
    (h4 : m.get Tag.CERT = some certB) (h5 : m.get Tag.INDX = some indxB)
    (hc : decode certB = some cert)
    (h9 : cert.get Tag.SIG = some certSig) (h10 : cert.get Tag.DELE = some deleB)
    (hd : decode deleB = some dele)
    (h12 : dele.get Tag.PUBK = some pubk) (h13 : dele.get Tag.MINT = some mint)
    (h14 : dele.get Tag.MAXT = some maxt)
    (hs : decode srepB = some srep)
    (h20 : srep.get Tag.RADI = some radi) (h21 : srep.get Tag.MIDP = some midp)
    (h22 : srep.get Tag.ROOT = some root)
    (res : Nat × Nat)
    (hacc : authentic S H p ltpk request nonce response = some res) :
    path.length % nodeWidth p = 0 ∧
    climb H p (RT.hash H p ((0x00 : UInt8) :: leafFor p nonce request)) (u32le indxB)
      (chunks (nodeWidth p) path) = root := by
  cases p with
  | classic =>
    simp only [Option.some.injEq] at hb
    subst hb
    simp [authentic, *, bind, Option.bind, pure] at hacc
    exact ⟨hacc.2.2.2.2.2.2.1, hacc.2.2.2.2.2.2.2.1⟩
  | draft13 =>
    simp only at hb
    by_cases hc : response.length ≥ 12 ∧ response.take 8 = magic
    · rw [if_pos hc] at hb
      simp only [Option.some.injEq] at hb
      subst hb
      simp [authentic, *, bind, Option.bind, pure] at hacc
      exact ⟨hacc.2.2.2.2.2.2.1, hacc.2.2.2.2.2.2.2.1⟩
    · rw [if_neg hc] at hb; cases hb

/-- **C01_no_replay** -/
theorem no_replay (S : SigScheme) (H : Bytes → Bytes) (hH : ∀ x, (H x).length = 64)
    (hsig : ∀ seed m, (S.sign seed m).length = 64) (hpk : ∀ seed, (S.pk seed).length = 32)
    (p : RT.Proto) (pk ltSeed onlSeed : Bytes) (midp radi mint maxt : Nat)
    (_hm : midp < 2 ^ 64) (_hr : radi < 2 ^ 32) (_hmi : mint < 2 ^ 64) (_hma : maxt < 2 ^ 64)
    (leaves : List Bytes) (i : Nat) (hi : i < leaves.length) (hn : leaves.length ≤ 2 ^ 32)
    (oldNonce : Bytes) (hon : oldNonce.length % 4 = 0) (honl : oldNonce.length < 2 ^ 16)
    (request nonce : Bytes)
    (hfresh : (match p with | .classic => nonce | .draft13 => request) ∉ leaves)
    (res : Nat × Nat)
    (hacc : RT.authentic S H p pk request nonce
      (RT.respond S H p ltSeed onlSeed midp radi mint maxt leaves i oldNonce) = some res) :
    MT.Broken (RT.mcfg H p) := by
  have hfresh' : leafFor p nonce request ∉ leaves := hfresh
  let r : RParams := ⟨S, H, p, ltSeed, onlSeed, midp, radi, mint, maxt, leaves, i, oldNonce⟩
  have hok : r.OK := ⟨hH, hsig, hpk, hi, hn, hon, honl⟩
  have he : RT.respond S H p ltSeed onlSeed midp radi mint maxt leaves i oldNonce = r.response :=
    r.respond_eq
  rw [he] at hacc
  obtain ⟨hmod, hclimb⟩ := authentic_root S H p pk request nonce r.response r.body r.respMsg r.certMsg r.deleMsg
    r.srepMsg r.sig r.path r.srep r.cert (le32 i) r.certSig r.dele (S.pk onlSeed) (le64 mint) (le64 maxt)
    (le32 radi) (le64 midp) r.root
    (RParams.response_body hok) (RParams.body_decode hok) rfl rfl rfl rfl rfl (RParams.cert_decode hok) rfl rfl
    (RParams.dele_decode hok) rfl rfl rfl (RParams.srep_decode hok)
    RParams.srep_gets.1 RParams.srep_gets.2.1 RParams.srep_gets.2.2 res hacc
  rw [u32le_le32 i (RParams.i_lt hok)] at hclimb
  -- the client's check, as `root_from_paths` without finalisation
  have hl := mcfg_hashLen H hH p
  have hw : WidthOK (mcfg H p) false := ⟨nodeWidth_pos p, by simp⟩
  have hrf : rootFromPaths (mcfg H p) false i (leafFor p nonce request) r.path
      = .ok (T.hash (mcfg H p) (treeOf leaves)) := by
    unfold rootFromPaths
    have hN : (mcfg H p).N = nodeWidth p := rfl
    rw [hN, if_neg (by have := nodeWidth_pos p; omega), if_neg (by simpa using hmod)]
    rw [climb_eq_climbChunks] at hclimb
    simp only [finalize]
    exact congrArg Res.ok hclimb
  have hne : leaves ≠ [] := by intro e; rw [e] at hi; simp at hi
  rcases Lemmas.Merkle.binding (mcfg H p) false hl hw leaves hne i hi _ _ hrf with hb | ⟨hd, _⟩
  · exact hb
  · exfalso
    apply hfresh'
    rw [hd]
    exact List.getElem_mem hi

end Rough.Lemmas.Client

import Rough.Lemmas.Stats
/-
  C17, pipeline: recorder → snapshots → reporter accounts for every event exactly once as long as
  no interval overflows the recorder.
-/
namespace Rough.Lemmas.Extra
open Rough Rough.Stats Rough.Lemmas.Stats

/-- one step without overflow bumps exactly the (addr, kind) counter -/
theorem record_get_eq (s : PerClient) (e : Event) (a : Addr) (k : Kind)
    (ho : (s.record e).overflows = s.overflows) :
    (s.record e).get a k = s.get a k + (if e.addr = a ∧ e.kind = k then 1 else 0) := by
  unfold PerClient.record at ho ⊢
  split
  · rename_i hge
    simp [hge] at ho
  · simp only [get_eq, lk_upsert]
    by_cases hea : e.addr = a
    · subst hea
      simp [get_bump]
    · simp [hea]

theorem run_get_eq (h : List Event) (s : PerClient) (a : Addr) (k : Kind)
    (ho : (PerClient.run s h).overflows = s.overflows) :
    (PerClient.run s h).get a k = s.get a k + count h a k := by
  induction h generalizing s with
  | nil => simp [run_nil, count]
  | cons e h ih =>
    rw [run_cons] at ho ⊢
    rw [count_cons]
    have h1 := record_overflows_ge s e
    have h2 := run_overflows_ge h (s.record e)
    rw [ih (s.record e) (by omega), record_get_eq s e a k (by omega)]
    omega

theorem init_get (limit : Nat) (a : Addr) (k : Kind) : (PerClient.init limit).get a k = 0 := by
  simp [get_eq, PerClient.init, lk_nil, get_zero]

theorem run_init_get (limit : Nat) (iv : List Event) (a : Addr) (k : Kind)
    (ho : (PerClient.run (PerClient.init limit) iv).overflows = 0) :
    (PerClient.run (PerClient.init limit) iv).get a k = count iv a k := by
  rw [run_get_eq iv _ a k (by rw [ho]; rfl), init_get]; omega

theorem count_append (l₁ l₂ : List Event) (a : Addr) (k : Kind) :
    count (l₁ ++ l₂) a k = count l₁ a k + count l₂ a k := by
  unfold count
  rw [List.filter_append, List.length_append]

/-- contribution of address `a` in one snapshot -/
def snapSum (l : List (Addr × Counters)) (a : Addr) (k : Kind) : Nat :=
  ((l.filter fun p => p.1 = a).map (·.2.get k)).sum

theorem snapSum_absent (l : List (Addr × Counters)) (a : Addr) (k : Kind) (h : a ∉ l.map (·.1)) :
    snapSum l a k = 0 := by
  unfold snapSum
  have : (l.filter fun p => p.1 = a) = [] := by
    rw [List.filter_eq_nil_iff]
    intro p hp
    simp only [decide_eq_true_eq]
    intro hpa
    exact h (hpa ▸ List.mem_map_of_mem hp)
  rw [this]; rfl

theorem lk_absent (l : List (Addr × Counters)) (a : Addr) (h : a ∉ l.map (·.1)) : lk l a = none := by
  induction l with
  | nil => rfl
  | cons p rest ih =>
    obtain ⟨b, c⟩ := p
    simp only [List.map_cons, List.mem_cons, not_or] at h
    rw [lk_cons, if_neg (fun e => h.1 e.symm), ih h.2]

/-- with distinct keys the entry for `a` contributes exactly the looked-up counter -/
theorem snapSum_nodup (l : List (Addr × Counters)) (a : Addr) (k : Kind) (hn : (l.map (·.1)).Nodup) :
    snapSum l a k = ((lk l a).getD Counters.zero).get k := by
  induction l with
  | nil => simp [snapSum, lk_nil, get_zero]
  | cons p rest ih =>
    obtain ⟨b, c⟩ := p
    simp only [List.map_cons, List.nodup_cons] at hn
    rw [lk_cons]
    by_cases hba : b = a
    · subst hba
      have h0 := snapSum_absent rest b k hn.1
      unfold snapSum at h0 ⊢
      rw [List.filter_cons]
      simp only [decide_true, if_true, List.map_cons, List.sum_cons, h0, Option.getD_some]
      omega
    · rw [if_neg hba, ← ih hn.2]
      unfold snapSum
      rw [List.filter_cons]
      simp [hba]

/-- what the reporter holds for `(a, k)` after merging the queue `q` -/
def queueSum (q : List (List (Addr × Counters))) (a : Addr) (k : Kind) : Nat :=
  ((q.flatten.filter fun p => p.1 = a).map (·.2.get k)).sum

theorem queueSum_nil (a : Addr) (k : Kind) : queueSum [] a k = 0 := rfl

theorem queueSum_cons (l : List (Addr × Counters)) (q : List (List (Addr × Counters))) (a : Addr) (k : Kind) :
    queueSum (l :: q) a k = snapSum l a k + queueSum q a k := by
  unfold queueSum snapSum
  rw [List.flatten_cons, List.filter_append, List.map_append, List.sum_append]

theorem queueSum_push (l : List (Addr × Counters)) (q : List (List (Addr × Counters))) (a : Addr) (k : Kind) :
    queueSum (if l.isEmpty then q else l :: q) a k = snapSum l a k + queueSum q a k := by
  cases l with
  | nil => simp [snapSum]
  | cons p l => simp [queueSum_cons]

theorem publish_cons2 (limit : Nat) (iv iv2 : List Event) (rest : List (List Event)) :
    publish limit (iv :: iv2 :: rest) =
      (if (PerClient.run (PerClient.init limit) iv).clients.isEmpty then (publish limit (iv2 :: rest)).1
        else (PerClient.run (PerClient.init limit) iv).clients :: (publish limit (iv2 :: rest)).1,
       (publish limit (iv2 :: rest)).2) := by
  rw [publish]
  intro h; cases h

theorem pipeline_aux (limit : Nat) (a : Addr) (k : Kind) : ∀ (intervals : List (List Event)),
    (∀ iv ∈ intervals, (PerClient.run (PerClient.init limit) iv).overflows = 0) →
    queueSum (publish limit intervals).1 a k + (publish limit intervals).2.get a k
      = count intervals.flatten a k
  | [], _ => by
    simp [publish, queueSum_nil, init_get, count]
  | [last], hno => by
    simp only [publish, queueSum_nil, List.flatten_cons, List.flatten_nil, List.append_nil, Nat.zero_add]
    exact run_init_get limit last a k (hno last (by simp))
  | iv :: iv2 :: rest, hno => by
    have ih := pipeline_aux limit a k (iv2 :: rest) (fun x hx => hno x (by simp [hx]))
    have h0 := hno iv (by simp)
    rw [publish_cons2]
    simp only
    rw [queueSum_push, List.flatten_cons, count_append, ← ih,
      snapSum_nodup _ a k (bounded limit iv).2, ← get_eq, run_init_get limit iv a k h0]
    omega

theorem pipeline (limit : Nat) (intervals : List (List Event))
    (hno : ∀ iv ∈ intervals, (PerClient.run (PerClient.init limit) iv).overflows = 0) (a : Addr) (k : Kind) :
    let (q, fin) := publish limit intervals
    (((reporterReceive [] q).find? (fun p => p.1 = a)).map (·.2.get k)).getD 0 + fin.get a k
      = count intervals.flatten a k := by
  have aux := pipeline_aux limit a k intervals hno
  generalize publish limit intervals = p at aux
  obtain ⟨q, fin⟩ := p
  simp only at aux ⊢
  rw [Rough.Lemmas.Stats.merge]
  exact aux

end Rough.Lemmas.Extra

import Rough.Lemmas.E2E
import Rough.Lemmas.Loop
namespace Rough.Lemmas.E2ELoop
open Rough Rough.ServerSpec Rough.Spec

theorem client_loop (E : Env) (hE : EnvOK E) (hS : E.S.Correct)
    (hv : ∀ seed, E.S.pkValid (E.S.pk seed) = true) (K : Keys) (hK : K.OK) (debug : Bool)
    (st : EventLoop.Loop) (hs : Inv E K st.srv) (hb : st.srv.batchSize ≤ 2 ^ 32) (hB : 0 < st.srv.batchSize)
    (hl : LoopSpec.Live st) (c : EventLoop.CallIn) (he : EventLoop.EventsOK st c)
    (hi : LoopSpec.InsOK c.passes) (hq : LoopSpec.Quiet c.passes)
    (ver : Version) (nonce : Bytes) (hn : nonce.length = ver.nonceLen)
    (pk? : Option Bytes) (hk : pk? = none ∨ pk? = some (E.S.pk K.seed))
    (req : Bytes) (hreq : Client.makeRequest E.H ver nonce pk? = .ok req)
    (d : Datagram) (hd : d.bytes = req) (hmem : d ∈ st.sockQ.take (16 * st.srv.batchSize)) :
    ∃ st' out, EventLoop.processEvents E debug st c = .ok (st', out) ∧
      ∃ x ∈ out.sent, x.dst = d.src ∧
        ∃ midp idx, Client.handleResponse E.S E.H ver pk? nonce req x.bytes = .ok ⟨midp, radiOf ver, pk?.isSome, idx⟩ := by
  have _ := hB
  subst hd
  obtain ⟨st', out, hrun, hsent, hchunks, _⟩ :=
    Lemmas.Loop.call_progress E hE K hK debug st hs hb hl c he hi hq
  refine ⟨st', out, hrun, ?_⟩
  rw [← hchunks] at hmem
  obtain ⟨p, hp, hdp⟩ := List.mem_flatMap.mp hmem
  have hbd := (Lemmas.Loop.plan_bounded st.srv.batchSize 16 st.sockQ c.passes).2.1 p hp
  have hpok := Lemmas.Loop.plan_passes_ok st.srv.batchSize 16 st.sockQ c.passes hi p hp
  have hdp' : d ∈ p.chunk.take st.srv.batchSize := by
    rw [List.take_of_length_le hbd]; exact hdp
  obtain ⟨s', sent, ev, hpass, x, hx, hdst, idx, hresp⟩ :=
    Lemmas.E2E.client_server E hE hS hv K hK debug st.srv hs hb p hpok ver nonce hn pk? hk
      d.bytes hreq d rfl hdp'
  obtain ⟨s'', hpass', _⟩ := Lemmas.ServerSpec.pass_spec E hE K hK debug st.srv hs hb p hpok
  rw [hpass] at hpass'
  have hse : sent = expectedSent E K st.srv p := by
    injection hpass' with h
    injection h with _ h
    injection h
  rw [hse] at hx
  refine ⟨x, ?_, hdst, _, idx, hresp⟩
  rw [hsent]
  exact List.mem_flatMap.mpr ⟨p, hp, hx⟩

end Rough.Lemmas.E2ELoop

import Rough.Model.Stats
import Rough.Spec.ServerSpec
/-
  Lemmas for C17: statistics recorders (`PerClient`, `Aggregated`), the reporter merge, and the
  wiring of the events of a pass to the traffic of the pass.
-/
namespace Rough.Lemmas.Stats
open Rough Rough.Stats Rough.ServerSpec

/-! ## Counters -/

/-- the bytes an event adds to `bytesSent` -/
def respBytes (e : Event) : Nat :=
  match e.kind with
  | .rfcResp => e.bytes
  | .classicResp => e.bytes
  | _ => 0

theorem get_zero (k : Kind) : Counters.zero.get k = 0 := by
  cases k <;> rfl

theorem get_bump (c : Counters) (e : Event) (k : Kind) :
    (c.bump e).get k = c.get k + (if e.kind = k then 1 else 0) := by
  obtain ⟨ek, ea, eb⟩ := e
  cases ek <;> cases k <;> simp [Counters.bump, Counters.get]

theorem bytes_bump (c : Counters) (e : Event) :
    (c.bump e).bytesSent = c.bytesSent + respBytes e := by
  obtain ⟨ek, ea, eb⟩ := e
  cases ek <;> simp [Counters.bump, respBytes]

theorem get_merge (a b : Counters) (k : Kind) : (a.merge b).get k = a.get k + b.get k := by
  cases k <;> rfl

/-! ## `upsert` -/

/-- association-list lookup (first match) -/
def lk (l : List (Addr × Counters)) (a : Addr) : Option Counters :=
  (l.find? (fun p => p.1 = a)).map (·.2)

theorem lk_nil (a : Addr) : lk [] a = none := rfl

theorem lk_cons (b : Addr) (c : Counters) (l : List (Addr × Counters)) (a : Addr) :
    lk ((b, c) :: l) a = if b = a then some c else lk l a := by
  unfold lk
  by_cases h : b = a <;> simp [h]

theorem lk_upsert (l : List (Addr × Counters)) (b : Addr) (f : Counters → Counters) (a : Addr) :
    lk (PerClient.upsert l b f) a =
      if b = a then some (f ((lk l b).getD Counters.zero)) else lk l a := by
  induction l with
  | nil => simp [PerClient.upsert, lk_cons, lk_nil]
  | cons p rest ih =>
    obtain ⟨x, c⟩ := p
    unfold PerClient.upsert
    by_cases hbx : b = x
    · subst hbx
      by_cases hba : b = a <;> simp [lk_cons, hba]
    · have hxb : ¬ x = b := fun h => hbx h.symm
      simp only [hbx, if_false, lk_cons, ih, hxb]
      by_cases hba : b = a
      · subst hba; simp [hxb]
      · simp [hba]

theorem upsert_length_le (l : List (Addr × Counters)) (a : Addr) (f : Counters → Counters) :
    (PerClient.upsert l a f).length ≤ l.length + 1 := by
  induction l with
  | nil => simp [PerClient.upsert]
  | cons p rest ih =>
    obtain ⟨x, c⟩ := p
    unfold PerClient.upsert
    split <;> simp <;> omega

theorem upsert_keys (l : List (Addr × Counters)) (a : Addr) (f : Counters → Counters) :
    (PerClient.upsert l a f).map (·.1) =
      if a ∈ l.map (·.1) then l.map (·.1) else l.map (·.1) ++ [a] := by
  induction l with
  | nil => simp [PerClient.upsert]
  | cons p rest ih =>
    obtain ⟨x, c⟩ := p
    unfold PerClient.upsert
    by_cases hax : a = x
    · simp [hax]
    · simp only [hax, if_false, List.map_cons, ih, List.mem_cons, false_or]
      split <;> simp

theorem upsert_nodup (l : List (Addr × Counters)) (a : Addr) (f : Counters → Counters)
    (h : (l.map (·.1)).Nodup) : ((PerClient.upsert l a f).map (·.1)).Nodup := by
  rw [upsert_keys]
  split
  · exact h
  · rename_i hn
    rw [List.nodup_append]
    refine ⟨h, by simp, ?_⟩
    intro x hx y hy
    simp at hy
    subst hy
    intro hxy
    subst hxy
    exact hn hx

/-- a quantity `g` that `f` increases by `d` (and that is `0` on the empty block) increases by `d`
    in the sum over the whole table -/
theorem upsert_sum (g : Counters → Nat) (d : Nat) (f : Counters → Counters)
    (hf : ∀ c, g (f c) = g c + d) (h0 : g Counters.zero = 0)
    (l : List (Addr × Counters)) (a : Addr) :
    ((PerClient.upsert l a f).map fun p => g p.2).sum = (l.map fun p => g p.2).sum + d := by
  induction l with
  | nil => simp [PerClient.upsert, hf, h0]
  | cons p rest ih =>
    obtain ⟨x, c⟩ := p
    unfold PerClient.upsert
    split
    · simp [hf]; omega
    · simp [ih]; omega

/-! ## `PerClient.record`, one step -/

theorem run_cons (s : PerClient) (e : Event) (h : List Event) :
    PerClient.run s (e :: h) = PerClient.run (s.record e) h := rfl

theorem run_nil (s : PerClient) : PerClient.run s [] = s := rfl

theorem record_limit (s : PerClient) (e : Event) : (s.record e).limit = s.limit := by
  unfold PerClient.record; split <;> rfl

theorem total_upsert_bump (l : List (Addr × Counters)) (e : Event) (k : Kind) :
    ((PerClient.upsert l e.addr (fun c => c.bump e)).map fun p => p.2.get k).sum =
      (l.map fun p => p.2.get k).sum + (if e.kind = k then 1 else 0) :=
  upsert_sum (fun c => c.get k) _ _ (fun c => get_bump c e k) (get_zero k) l e.addr

theorem bytes_upsert_bump (l : List (Addr × Counters)) (e : Event) :
    ((PerClient.upsert l e.addr (fun c => c.bump e)).map fun p => p.2.bytesSent).sum =
      (l.map fun p => p.2.bytesSent).sum + respBytes e :=
  upsert_sum (fun c => c.bytesSent) _ _ (fun c => bytes_bump c e) rfl l e.addr

/-- sum of all per-address counters of all kinds (same body as `Props.C17.PerClient.grandTotal`) -/
def grandTotal (s : PerClient) : Nat := (Kind.all.map s.total).sum

theorem grandTotal_eq (s : PerClient) :
    grandTotal s = s.total .ietfReq + s.total .classicReq + s.total .invalidReq + s.total .failedSend
      + s.total .retriedSend + s.total .healthCheck + s.total .rfcResp + s.total .classicResp := by
  simp [grandTotal, Kind.all]; omega

/-- one step: an event is reflected exactly once — in one counter or in the overflow count -/
theorem record_conserve (s : PerClient) (e : Event) :
    grandTotal (s.record e) + (s.record e).overflows = grandTotal s + s.overflows + 1 := by
  unfold PerClient.record
  split
  · simp only [grandTotal_eq, PerClient.total]; omega
  · simp only [grandTotal_eq, PerClient.total, total_upsert_bump]
    obtain ⟨ek, ea, eb⟩ := e
    cases ek <;> simp <;> omega

theorem get_eq (s : PerClient) (a : Addr) (k : Kind) :
    s.get a k = ((lk s.clients a).getD Counters.zero).get k := rfl

/-- one step: only the counter of exactly the event's kind for exactly its address can grow, by 1 -/
theorem record_get_le (s : PerClient) (e : Event) (a : Addr) (k : Kind) :
    (s.record e).get a k ≤ s.get a k + (if e.addr = a ∧ e.kind = k then 1 else 0) := by
  unfold PerClient.record
  split
  · simp [get_eq]
  · simp only [get_eq, lk_upsert]
    by_cases hea : e.addr = a
    · subst hea
      simp [get_bump]
    · simp [hea]

theorem count_cons (e : Event) (h : List Event) (a : Addr) (k : Kind) :
    count (e :: h) a k = (if e.addr = a ∧ e.kind = k then 1 else 0) + count h a k := by
  unfold count
  rw [List.filter_cons]
  by_cases hc : e.addr = a ∧ e.kind = k
  · simp [hc]; omega
  · simp [hc]

/-! ## conservation -/

theorem run_get_le (h : List Event) (s : PerClient) (a : Addr) (k : Kind) :
    (PerClient.run s h).get a k ≤ s.get a k + count h a k := by
  induction h generalizing s with
  | nil => simp [run_nil, count]
  | cons e h ih =>
    rw [run_cons, count_cons]
    have h1 := ih (s.record e)
    have h2 := record_get_le s e a k
    omega

theorem run_conserve (h : List Event) (s : PerClient) :
    grandTotal (PerClient.run s h) + (PerClient.run s h).overflows
      = grandTotal s + s.overflows + h.length := by
  induction h generalizing s with
  | nil => simp [run_nil]
  | cons e h ih =>
    rw [run_cons, ih, record_conserve, List.length_cons]; omega

theorem conservation (limit : Nat) (h : List Event) :
    let s := PerClient.run (PerClient.init limit) h
    (∀ a k, s.get a k ≤ count h a k) ∧ (Kind.all.map s.total).sum + s.overflows = h.length := by
  refine ⟨fun a k => ?_, ?_⟩
  · have := run_get_le h (PerClient.init limit) a k
    have h0 : (PerClient.init limit).get a k = 0 := by
      simp [get_eq, PerClient.init, lk_nil, get_zero]
    omega
  · have := run_conserve h (PerClient.init limit)
    have h0 : grandTotal (PerClient.init limit) = 0 := by
      simp [grandTotal_eq, PerClient.total, PerClient.init]
    have h1 : (PerClient.init limit).overflows = 0 := rfl
    show grandTotal (PerClient.run (PerClient.init limit) h)
      + (PerClient.run (PerClient.init limit) h).overflows = h.length
    omega

/-! ## bounded -/

theorem record_bounded (s : PerClient) (e : Event)
    (hl : s.clients.length ≤ s.limit) (hn : (s.clients.map (·.1)).Nodup) :
    (s.record e).clients.length ≤ (s.record e).limit ∧ ((s.record e).clients.map (·.1)).Nodup := by
  unfold PerClient.record
  split
  · exact ⟨hl, hn⟩
  · rename_i hlt
    refine ⟨?_, upsert_nodup _ _ _ hn⟩
    have := upsert_length_le s.clients e.addr (fun c => c.bump e)
    simp only
    omega

theorem run_limit (h : List Event) (s : PerClient) : (PerClient.run s h).limit = s.limit := by
  induction h generalizing s with
  | nil => rfl
  | cons e h ih => rw [run_cons, ih, record_limit]

theorem run_bounded (h : List Event) (s : PerClient)
    (hl : s.clients.length ≤ s.limit) (hn : (s.clients.map (·.1)).Nodup) :
    (PerClient.run s h).clients.length ≤ s.limit ∧ ((PerClient.run s h).clients.map (·.1)).Nodup := by
  induction h generalizing s with
  | nil => exact ⟨hl, hn⟩
  | cons e h ih =>
    have ⟨h1, h2⟩ := record_bounded s e hl hn
    have := ih (s.record e) h1 h2
    rw [record_limit] at this
    exact this

theorem bounded (limit : Nat) (h : List Event) :
    let s := PerClient.run (PerClient.init limit) h
    s.clients.length ≤ limit ∧ (s.clients.map (·.1)).Nodup :=
  run_bounded h (PerClient.init limit) (Nat.zero_le _) List.nodup_nil

/-! ## aggregated -/

theorem arun_cons (g : Aggregated) (e : Event) (h : List Event) :
    Aggregated.run g (e :: h) = Aggregated.run (g.record e) h := rfl

theorem arun_get (h : List Event) (g : Aggregated) (k : Kind) :
    (Aggregated.run g h).c.get k = g.c.get k + (h.filter fun e => e.kind = k).length := by
  induction h generalizing g with
  | nil => simp [Aggregated.run]
  | cons e h ih =>
    rw [arun_cons, ih, List.filter_cons]
    simp only [Aggregated.record, get_bump]
    by_cases hk : e.kind = k <;> simp [hk]; omega

theorem arun_bytes (h : List Event) (g : Aggregated) :
    (Aggregated.run g h).c.bytesSent = g.c.bytesSent + (h.map respBytes).sum := by
  induction h generalizing g with
  | nil => simp [Aggregated.run]
  | cons e h ih =>
    rw [arun_cons, ih]
    simp only [Aggregated.record, bytes_bump, List.map_cons, List.sum_cons]; omega

theorem aggregated (h : List Event) (k : Kind) :
    (Aggregated.run Aggregated.init h).c.get k = (h.filter fun e => e.kind = k).length := by
  rw [arun_get]; simp [Aggregated.init, get_zero]

/-! ## equiv -/

/-- the per-client table sums to the aggregated block -/
def Rel (s : PerClient) (g : Aggregated) : Prop :=
  (∀ k, s.total k = g.c.get k) ∧ s.totalBytes = g.c.bytesSent

theorem record_overflows_ge (s : PerClient) (e : Event) : s.overflows ≤ (s.record e).overflows := by
  unfold PerClient.record; split <;> simp

theorem run_overflows_ge (h : List Event) (s : PerClient) : s.overflows ≤ (PerClient.run s h).overflows := by
  induction h generalizing s with
  | nil => exact Nat.le_refl _
  | cons e h ih =>
    rw [run_cons]
    exact Nat.le_trans (record_overflows_ge s e) (ih _)

theorem record_rel (s : PerClient) (g : Aggregated) (e : Event) (hr : Rel s g)
    (ho : (s.record e).overflows = s.overflows) : Rel (s.record e) (g.record e) := by
  unfold PerClient.record at ho ⊢
  split
  · rename_i hge
    simp [hge] at ho
  · obtain ⟨h1, h2⟩ := hr
    refine ⟨fun k => ?_, ?_⟩
    · have := h1 k
      simp only [PerClient.total, Aggregated.record, total_upsert_bump, get_bump] at this ⊢
      omega
    · simp only [PerClient.totalBytes, Aggregated.record, bytes_upsert_bump, bytes_bump] at h2 ⊢
      omega

theorem run_rel (h : List Event) (s : PerClient) (g : Aggregated) (hr : Rel s g)
    (ho : (PerClient.run s h).overflows = s.overflows) :
    Rel (PerClient.run s h) (Aggregated.run g h) := by
  induction h generalizing s g with
  | nil => exact hr
  | cons e h ih =>
    rw [run_cons] at ho ⊢
    rw [arun_cons]
    have h1 := record_overflows_ge s e
    have h2 := run_overflows_ge h (s.record e)
    have h3 : (s.record e).overflows = s.overflows := by omega
    exact ih _ _ (record_rel s g e hr h3) (by omega)

theorem totals_of_rel (s : PerClient) (g : Aggregated) (hr : Rel s g) : s.totals = g.totals := by
  obtain ⟨h1, h2⟩ := hr
  simp only [PerClient.totals, Aggregated.totals, h1, h2, Counters.get]

theorem equiv (limit : Nat) (h : List Event)
    (h0 : (PerClient.run (PerClient.init limit) h).overflows = 0) :
    (PerClient.run (PerClient.init limit) h).totals = (Aggregated.run Aggregated.init h).totals := by
  apply totals_of_rel
  apply run_rel
  · refine ⟨fun k => ?_, rfl⟩
    simp [PerClient.total, PerClient.init, Aggregated.init, get_zero]
  · exact h0

/-! ## merge -/

theorem lk_getD (l : List (Addr × Counters)) (a : Addr) (k : Kind) :
    ((l.find? (fun p => p.1 = a)).map (·.2.get k)).getD 0 = ((lk l a).getD Counters.zero).get k := by
  unfold lk
  cases l.find? (fun p => p.1 = a) <;> simp [get_zero]

theorem snap_fold (snap : List (Addr × Counters)) (acc : List (Addr × Counters)) (a : Addr) (k : Kind) :
    ((lk (snap.foldl (fun acc (p : Addr × Counters) =>
        PerClient.upsert acc p.1 (fun c => c.merge p.2)) acc) a).getD Counters.zero).get k
      = ((lk acc a).getD Counters.zero).get k + ((snap.filter fun p => p.1 = a).map (·.2.get k)).sum := by
  induction snap generalizing acc with
  | nil => simp
  | cons p snap ih =>
    rw [List.foldl_cons, ih, lk_upsert, List.filter_cons]
    by_cases hpa : p.1 = a
    · simp [hpa, get_merge]; omega
    · simp [hpa]

theorem receive_fold (snaps : List (List (Addr × Counters))) (acc : List (Addr × Counters))
    (a : Addr) (k : Kind) :
    ((lk (reporterReceive acc snaps) a).getD Counters.zero).get k
      = ((lk acc a).getD Counters.zero).get k
        + ((snaps.flatten.filter fun p => p.1 = a).map (·.2.get k)).sum := by
  induction snaps generalizing acc with
  | nil => simp [reporterReceive]
  | cons snap snaps ih =>
    have hstep : reporterReceive acc (snap :: snaps) =
        reporterReceive (snap.foldl (fun acc (p : Addr × Counters) =>
          PerClient.upsert acc p.1 (fun c => c.merge p.2)) acc) snaps := rfl
    rw [hstep, ih, snap_fold]
    simp only [List.flatten_cons, List.filter_append, List.map_append, List.sum_append]
    omega

theorem merge (snapshots : List (List (Addr × Counters))) (a : Addr) (k : Kind) :
    (((reporterReceive [] snapshots).find? (fun p => p.1 = a)).map (·.2.get k)).getD 0
      = ((snapshots.flatten.filter fun p => p.1 = a).map (·.2.get k)).sum := by
  rw [lk_getD, receive_fold]
  simp [lk_nil, get_zero]

/-! ## wiring -/

theorem filter_kind_map {α : Type} (l : List α) (f : α → Event) (k0 k : Kind)
    (hf : ∀ x, (f x).kind = k0) :
    ((l.map f).filter fun e => e.kind = k).length = if k0 = k then l.length else 0 := by
  induction l with
  | nil => simp
  | cons x l ih =>
    rw [List.map_cons, List.filter_cons]
    by_cases hk : k0 = k
    · subst hk; simp [hf] at ih ⊢; exact ih
    · simp [hf, hk] at ih ⊢

theorem respBytes_requestEvent (srv : Bytes) (d : Datagram) : respBytes (requestEvent srv d) = 0 := by
  unfold requestEvent
  split <;> rfl

theorem reqEvents_bytes (srv : Bytes) (chunk : List Datagram) :
    ((chunk.map (requestEvent srv)).map respBytes).sum = 0 := by
  induction chunk with
  | nil => rfl
  | cons d ds ih => simp only [List.map_cons, List.sum_cons, ih, respBytes_requestEvent]

/-- request events of a chunk, by kind -/
theorem reqEvents_count (srv : Bytes) (chunk : List Datagram) :
    let ev := chunk.map (requestEvent srv)
    (ev.filter fun e => e.kind = .ietfReq).length = (accepted srv .ietf chunk).length ∧
    (ev.filter fun e => e.kind = .classicReq).length = (accepted srv .google chunk).length ∧
    (ev.filter fun e => e.kind = .invalidReq).length + (accepted srv .ietf chunk).length
      + (accepted srv .google chunk).length = chunk.length ∧
    (ev.filter fun e => e.kind = .failedSend).length = 0 ∧
    (ev.filter fun e => e.kind = .retriedSend).length = 0 ∧
    (ev.filter fun e => e.kind = .healthCheck).length = 0 ∧
    (ev.filter fun e => e.kind = .rfcResp).length = 0 ∧
    (ev.filter fun e => e.kind = .classicResp).length = 0 := by
  induction chunk with
  | nil => simp [accepted]
  | cons d ds ih =>
    simp only [List.map_cons, List.filter_cons] at ih ⊢
    obtain ⟨i1, i2, i3, i4, i5, i6, i7, i8⟩ := ih
    cases hn : nonceFromRequest d.bytes srv with
    | ok x =>
      obtain ⟨n, v⟩ := x
      cases v <;> simp [accepted, requestEvent, *] <;> omega
    | err => simp [accepted, requestEvent, *]; omega
    | panic site => simp [accepted, requestEvent, *]; omega

theorem expectedBatch_length (E : Env) (K : Keys) (ver : Version) (now : Nat × Nat)
    (reqs : List (Datagram × Bytes)) : (expectedBatch E K ver now reqs).length = reqs.length := by
  simp [expectedBatch]

theorem respEvents_bytes (l : List Sent) (k0 : Kind) (hk : k0 = .rfcResp ∨ k0 = .classicResp) :
    ((l.map fun x => (⟨k0, x.dst, x.bytes.length⟩ : Event)).map respBytes).sum
      = (l.map (·.bytes.length)).sum := by
  induction l with
  | nil => rfl
  | cons x l ih =>
    simp only [List.map_cons, List.sum_cons, ih]
    rcases hk with hk | hk <;> subst hk <;> simp [respBytes]

/-- the shape of the event list of a pass -/
def passEvents (A : List Event) (lI lC : List Sent) : List Event :=
  A ++ lI.map (fun x => (⟨Kind.rfcResp, x.dst, x.bytes.length⟩ : Event))
    ++ lC.map (fun x => (⟨Kind.classicResp, x.dst, x.bytes.length⟩ : Event))

theorem passEvents_filter (A : List Event) (lI lC : List Sent) (k : Kind) :
    ((passEvents A lI lC).filter fun e => e.kind = k).length
      = (A.filter fun e => e.kind = k).length + (if Kind.rfcResp = k then lI.length else 0)
        + (if Kind.classicResp = k then lC.length else 0) := by
  unfold passEvents
  rw [List.filter_append, List.filter_append, List.length_append, List.length_append,
    filter_kind_map lI _ Kind.rfcResp k (fun _ => rfl),
    filter_kind_map lC _ Kind.classicResp k (fun _ => rfl)]

theorem passEvents_bytes (A : List Event) (lI lC : List Sent) :
    ((passEvents A lI lC).map respBytes).sum
      = (A.map respBytes).sum + (lI.map (·.bytes.length)).sum + (lC.map (·.bytes.length)).sum := by
  unfold passEvents
  rw [List.map_append, List.map_append, List.sum_append, List.sum_append,
    respEvents_bytes lI _ (Or.inl rfl), respEvents_bytes lC _ (Or.inr rfl)]

theorem wiring (E : Env) (K : Keys) (s : Server) (p : Server.Pass) :
    let t := (Aggregated.run Aggregated.init (expectedEvents E K s p)).totals
    let chunk := p.chunk.take s.batchSize
    let nI := (accepted s.srv .ietf chunk).length
    let nC := (accepted s.srv .google chunk).length
    t.rfcRequests = nI ∧ t.classicRequests = nC ∧ t.validRequests = nI + nC ∧
    t.invalidRequests + nI + nC = chunk.length ∧
    t.responses = (expectedSent E K s p).length ∧ t.rfcResponses = nI ∧ t.classicResponses = nC ∧
    t.bytesSent = ((expectedSent E K s p).map (·.bytes.length)).sum ∧
    t.healthChecks = 0 ∧ t.failedSends = 0 ∧ t.retriedSends = 0 := by
  have he : expectedEvents E K s p = passEvents ((p.chunk.take s.batchSize).map (requestEvent s.srv))
      (expectedBatch E K .ietf p.nowIetf (accepted s.srv .ietf (p.chunk.take s.batchSize)))
      (expectedBatch E K .google p.nowClassic (accepted s.srv .google (p.chunk.take s.batchSize))) := rfl
  have hs : expectedSent E K s p =
      expectedBatch E K .ietf p.nowIetf (accepted s.srv .ietf (p.chunk.take s.batchSize)) ++
      expectedBatch E K .google p.nowClassic (accepted s.srv .google (p.chunk.take s.batchSize)) := rfl
  have hg : ∀ k, (Aggregated.run Aggregated.init (expectedEvents E K s p)).c.get k
      = ((expectedEvents E K s p).filter fun e => e.kind = k).length := aggregated _
  have hb := arun_bytes (expectedEvents E K s p) Aggregated.init
  obtain ⟨r1, r2, r3, r4, r5, r6, r7, r8⟩ := reqEvents_count s.srv (p.chunk.take s.batchSize)
  have r9 := reqEvents_bytes s.srv (p.chunk.take s.batchSize)
  have g1 := hg .ietfReq
  have g2 := hg .classicReq
  have g3 := hg .invalidReq
  have g4 := hg .failedSend
  have g5 := hg .retriedSend
  have g6 := hg .healthCheck
  have g7 := hg .rfcResp
  have g8 := hg .classicResp
  rw [he, passEvents_filter] at g1 g2 g3 g4 g5 g6 g7 g8
  rw [he, passEvents_bytes, r9] at hb
  simp only [expectedBatch_length, r1, r2, r4, r5, r6, r7, r8, Counters.get, reduceCtorEq, if_false,
    if_true] at g1 g2 g3 g4 g5 g6 g7 g8
  have hb0 : Aggregated.init.c.bytesSent = 0 := rfl
  simp only [Aggregated.totals, hs, he, List.length_append, List.map_append, List.sum_append,
    expectedBatch_length]
  refine ⟨?_, ?_, ?_, ?_, ?_, ?_, ?_, ?_, ?_, ?_, ?_⟩ <;> omega

end Rough.Lemmas.Stats

import Rough.Spec.LoopSpec
import Rough.Lemmas.ServerSpec
/-
  Event-loop lemmas, part 1: `Res.bind` helpers, what a pass leaves unchanged, the plan of a socket
  service (conservation, bounds, the quiet case) and the refinement equation `service_refines`.
-/
namespace Rough.Lemmas.Loop
open Rough Rough.EventLoop Rough.LoopSpec Rough.ServerSpec Rough.Stats

/-! ### `Res` -/

@[simp] theorem lb_bind_ok {α β} (a : α) (f : α → Res β) : (Res.ok a).bind f = f a := rfl
@[simp] theorem lb_bind_err {α β} (f : α → Res β) : (Res.err : Res α).bind f = .err := rfl
@[simp] theorem lb_bind_panic {α β} (s : String) (f : α → Res β) : (Res.panic s : Res α).bind f = .panic s := rfl

theorem lb_bind_inv {α β} {r : Res α} {f : α → Res β} {b : β} (h : r.bind f = .ok b) :
    ∃ a, r = .ok a ∧ f a = .ok b := by
  cases r with
  | ok a => exact ⟨a, rfl, h⟩
  | err => cases h
  | panic s => cases h

/-! ### a pass never changes `batch_size` -/

theorem lb_collectOne_bs (E : Env) (s : Server) (d : Datagram) (s' : Server) (e : Event)
    (h : Server.collectOne E s d = .ok (s', e)) : s'.batchSize = s.batchSize := by
  unfold Server.collectOne at h
  split at h
  · obtain ⟨r, _, h2⟩ := lb_bind_inv h
    cases h2; rfl
  · obtain ⟨r, _, h2⟩ := lb_bind_inv h
    cases h2; rfl
  · cases h; rfl
  · cases h

theorem lb_collect_bs (E : Env) : ∀ (ds : List Datagram) (s s' : Server) (ev : List Event),
    Server.collect E s ds = .ok (s', ev) → s'.batchSize = s.batchSize := by
  intro ds
  induction ds with
  | nil => intro s s' ev h; simp only [Server.collect] at h; cases h; rfl
  | cons d ds ih =>
    intro s s' ev h
    simp only [Server.collect] at h
    obtain ⟨⟨s1, e⟩, h1, h2⟩ := lb_bind_inv h
    obtain ⟨⟨s2, es⟩, h3, h4⟩ := lb_bind_inv h2
    have h5 := ih s1 s2 es h3
    have h6 := lb_collectOne_bs E s d s1 e h1
    cases h4
    rw [h5, h6]

theorem lb_pass_bs (E : Env) (debug : Bool) (s : Server) (p : Server.Pass) (s' : Server)
    (sent : List Sent) (ev : List Event) (h : Server.pass E debug s p = .ok (s', sent, ev)) :
    s'.batchSize = s.batchSize := by
  unfold Server.pass at h
  obtain ⟨⟨s1, ev1⟩, h1, h2⟩ := lb_bind_inv h
  obtain ⟨⟨rI, sentI, evI⟩, _, h3⟩ := lb_bind_inv h2
  obtain ⟨⟨rC, sentC, evC⟩, _, h4⟩ := lb_bind_inv h3
  have h5 := lb_collect_bs E _ _ _ _ h1
  cases h4
  exact h5

/-! ### the recorder -/

theorem lb_recordAll_nil (r : Recorder) : r.recordAll [] = r := rfl

theorem lb_recordAll_append (r : Recorder) (a b : List Event) :
    r.recordAll (a ++ b) = (r.recordAll a).recordAll b := by
  simp only [Recorder.recordAll, List.foldl_append]

/-! ### the plan -/

theorem lb_passOf_eq (st : Loop) (pi : PassIn) :
    passOf st pi = mkPass ((st.sockQ ++ pi.arrivals).take st.srv.batchSize) pi := rfl

theorem lb_plan_zero (B : Nat) (q : List Datagram) (ins : Nat → PassIn) :
    plan B 0 q ins = ⟨[], q, false, true⟩ := rfl

theorem lb_plan_dry (B M : Nat) (q : List Datagram) (ins : Nat → PassIn)
    (h : ((q ++ (ins 0).arrivals).take B).length < B) :
    plan B (M + 1) q ins =
      ⟨[mkPass ((q ++ (ins 0).arrivals).take B) (ins 0)], (q ++ (ins 0).arrivals).drop B,
        !(ins 0).arrivals.isEmpty, false⟩ := by
  simp only [plan, h, if_true]

theorem lb_plan_full (B M : Nat) (q : List Datagram) (ins : Nat → PassIn)
    (h : ¬ ((q ++ (ins 0).arrivals).take B).length < B) :
    plan B (M + 1) q ins =
      ⟨mkPass ((q ++ (ins 0).arrivals).take B) (ins 0) ::
          (plan B M ((q ++ (ins 0).arrivals).drop B) (fun i => ins (i + 1))).passes,
        (plan B M ((q ++ (ins 0).arrivals).drop B) (fun i => ins (i + 1))).rest,
        !(ins 0).arrivals.isEmpty || (plan B M ((q ++ (ins 0).arrivals).drop B) (fun i => ins (i + 1))).arrived,
        (plan B M ((q ++ (ins 0).arrivals).drop B) (fun i => ins (i + 1))).full⟩ := by
  simp only [plan, h, if_false]

theorem lb_mkPass_chunk (c : List Datagram) (pi : PassIn) : (mkPass c pi).chunk = c := rfl

theorem plan_conserves (B M : Nat) (q : List Datagram) (ins : Nat → PassIn) :
    (plan B M q ins).passes.flatMap (·.chunk) ++ (plan B M q ins).rest =
      q ++ (List.range (plan B M q ins).passes.length).flatMap (fun i => (ins i).arrivals) := by
  induction M generalizing q ins with
  | zero => simp [lb_plan_zero]
  | succ M ih =>
    by_cases h : ((q ++ (ins 0).arrivals).take B).length < B
    · rw [lb_plan_dry B M q ins h]
      simp [lb_mkPass_chunk]
    · rw [lb_plan_full B M q ins h]
      simp only [List.flatMap_cons, lb_mkPass_chunk, List.append_assoc, List.length_cons]
      rw [ih, List.range_succ_eq_map, List.flatMap_cons, List.flatMap_map]
      rw [← List.append_assoc, List.take_append_drop, List.append_assoc]

theorem plan_bounded (B M : Nat) (q : List Datagram) (ins : Nat → PassIn) :
    (plan B M q ins).passes.length ≤ M ∧ (∀ p ∈ (plan B M q ins).passes, p.chunk.length ≤ B) ∧
    ((plan B M q ins).full = true → (plan B M q ins).passes.length = M) ∧
    ((plan B M q ins).full = false → (plan B M q ins).rest = []) := by
  induction M generalizing q ins with
  | zero => simp [lb_plan_zero]
  | succ M ih =>
    by_cases h : ((q ++ (ins 0).arrivals).take B).length < B
    · rw [lb_plan_dry B M q ins h]
      refine ⟨by simp, ?_, by simp, ?_⟩
      · intro p hp
        simp only [List.mem_singleton] at hp
        subst hp
        simp only [lb_mkPass_chunk]; omega
      · intro _
        simp only [List.length_take] at h
        simp only [List.drop_eq_nil_iff]; omega
    · rw [lb_plan_full B M q ins h]
      obtain ⟨h1, h2, h3, h4⟩ := ih ((q ++ (ins 0).arrivals).drop B) (fun i => ins (i + 1))
      refine ⟨by simp only [List.length_cons]; omega, ?_, ?_, h4⟩
      · intro p hp
        simp only [List.mem_cons] at hp
        rcases hp with hp | hp
        · subst hp; simp only [lb_mkPass_chunk, List.length_take]; omega
        · exact h2 p hp
      · intro hf
        simp only [List.length_cons, h3 hf]

/-- every batch of a plan carries the per-batch inputs of one index -/
theorem lb_plan_passes_from (B M : Nat) (q : List Datagram) (ins : Nat → PassIn) :
    ∀ p ∈ (plan B M q ins).passes, ∃ i c, p = mkPass c (ins i) := by
  induction M generalizing q ins with
  | zero => simp [lb_plan_zero]
  | succ M ih =>
    by_cases h : ((q ++ (ins 0).arrivals).take B).length < B
    · rw [lb_plan_dry B M q ins h]
      intro p hp
      simp only [List.mem_singleton] at hp
      exact ⟨0, _, hp⟩
    · rw [lb_plan_full B M q ins h]
      intro p hp
      simp only [List.mem_cons] at hp
      rcases hp with hp | hp
      · exact ⟨0, _, hp⟩
      · obtain ⟨i, c, hc⟩ := ih _ _ p hp
        exact ⟨i + 1, c, hc⟩

theorem plan_passes_ok (B M : Nat) (q : List Datagram) (ins : Nat → PassIn) (hi : InsOK ins) :
    ∀ p ∈ (plan B M q ins).passes, PassOK p := by
  intro p hp
  obtain ⟨i, c, rfl⟩ := lb_plan_passes_from B M q ins p hp
  exact hi i

theorem plan_passes_safe (B M : Nat) (q : List Datagram) (ins : Nat → PassIn) (hi : InsSafe ins) :
    ∀ p ∈ (plan B M q ins).passes, PassSafe p := by
  intro p hp
  obtain ⟨i, c, rfl⟩ := lb_plan_passes_from B M q ins p hp
  exact hi i

/-- the plan when nothing arrives -/
theorem plan_quiet (B M : Nat) (q : List Datagram) (ins : Nat → PassIn) (hq : Quiet ins) :
    (plan B M q ins).passes.flatMap (·.chunk) = q.take (M * B) ∧ (plan B M q ins).rest = q.drop (M * B) ∧
    (plan B M q ins).arrived = false ∧
    (0 < B → q.length < M * B → (plan B M q ins).full = false) := by
  induction M generalizing q ins with
  | zero => simp [lb_plan_zero]
  | succ M ih =>
    have h0 : (ins 0).arrivals = [] := hq 0
    have hq' : Quiet (fun i => ins (i + 1)) := fun i => hq (i + 1)
    have hmul : (M + 1) * B = B + M * B := by rw [Nat.succ_mul]; omega
    by_cases h : ((q ++ (ins 0).arrivals).take B).length < B
    · rw [lb_plan_dry B M q ins h]
      simp only [h0, List.append_nil, List.length_take] at h ⊢
      have hl : q.length < B := by omega
      refine ⟨?_, ?_, by simp, by simp⟩
      · simp only [List.flatMap_cons, List.flatMap_nil, lb_mkPass_chunk, List.append_nil]
        rw [List.take_of_length_le (by omega), List.take_of_length_le (by omega)]
      · rw [List.drop_of_length_le (by omega), List.drop_of_length_le (by omega)]
    · rw [lb_plan_full B M q ins h]
      obtain ⟨h1, h2, h3, h4⟩ := ih ((q ++ (ins 0).arrivals).drop B) (fun i => ins (i + 1)) hq'
      simp only [h0, List.append_nil, List.length_take] at h h1 h2 h3 h4 ⊢
      refine ⟨?_, ?_, by simp [h3], ?_⟩
      · simp only [List.flatMap_cons, lb_mkPass_chunk, h1, hmul]
        rw [List.take_add]
      · rw [h2, List.drop_drop, hmul]
      · intro hB hlen
        apply h4 hB
        simp only [List.length_drop]
        omega

/-! ### refinement -/

theorem service_refines (E : Env) (debug : Bool) (M : Nat) (st : Loop) (ins : Nat → PassIn) :
    serviceSocket E debug M st ins =
      (Server.run E debug st.srv (plan st.srv.batchSize M st.sockQ ins).passes).bind fun (srv', sent, ev) =>
        .ok ({ st with srv := srv', sockQ := (plan st.srv.batchSize M st.sockQ ins).rest,
                       sockEdge := st.sockEdge || (plan st.srv.batchSize M st.sockQ ins).arrived,
                       backlog := (plan st.srv.batchSize M st.sockQ ins).full,
                       recd := st.recd.recordAll ev },
             ⟨sent, ev, [], (plan st.srv.batchSize M st.sockQ ins).passes.length⟩) := by
  induction M generalizing st ins with
  | zero =>
    simp only [serviceSocket, lb_plan_zero, Server.run, lb_bind_ok, lb_recordAll_nil, Bool.or_false,
      List.length_nil]
  | succ M ih =>
    unfold serviceSocket
    simp only [lb_passOf_eq, lb_mkPass_chunk]
    by_cases h : ((st.sockQ ++ (ins 0).arrivals).take st.srv.batchSize).length < st.srv.batchSize
    · rw [lb_plan_dry _ M st.sockQ ins h]
      simp only [Server.run, h, if_true]
      cases hp : Server.pass E debug st.srv
          (mkPass ((st.sockQ ++ (ins 0).arrivals).take st.srv.batchSize) (ins 0)) with
      | err => rfl
      | panic t => rfl
      | ok a =>
        obtain ⟨srv', sent, ev⟩ := a
        simp only [lb_bind_ok, List.append_nil, List.length_cons, List.length_nil]
    · rw [lb_plan_full _ M st.sockQ ins h]
      simp only [Server.run, h, if_false]
      cases hp : Server.pass E debug st.srv
          (mkPass ((st.sockQ ++ (ins 0).arrivals).take st.srv.batchSize) (ins 0)) with
      | err => rfl
      | panic t => rfl
      | ok a =>
        obtain ⟨srv', sent, ev⟩ := a
        have hbs := lb_pass_bs E debug _ _ _ _ _ hp
        simp only [lb_bind_ok]
        rw [ih]
        simp only [hbs]
        cases Server.run E debug srv'
            (plan st.srv.batchSize M ((st.sockQ ++ (ins 0).arrivals).drop st.srv.batchSize)
              (fun i => ins (i + 1))).passes with
        | err => rfl
        | panic t => rfl
        | ok a2 =>
          obtain ⟨srv2, sent2, ev2⟩ := a2
          simp only [lb_bind_ok, Out.append, lb_recordAll_append, Bool.or_assoc, List.append_nil,
            List.length_cons, Nat.add_comm 1]

end Rough.Lemmas.Loop

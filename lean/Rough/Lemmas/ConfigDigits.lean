import Rough.Model.Config
/-
  Arithmetic core for C16: decimal rendering (`showDigits`/`showNat`/`showInt`) against the two
  integer parsers of the configuration model (`parseUnsigned`, `yamlInt`).
-/
namespace Rough.Lemmas.Config
open Rough Rough.Config

theorem digit_char (d : Nat) (h : d < 10) :
    isDigit (Char.ofNat (48 + d)) = true ∧ (Char.ofNat (48 + d)).toNat - 48 = d := by
  match d, h with
  | 0, _ | 1, _ | 2, _ | 3, _ | 4, _ | 5, _ | 6, _ | 7, _ | 8, _ | 9, _ => decide

theorem digitsVal_snoc (l : List Char) (c : Char) :
    digitsVal (l ++ [c]) = digitsVal l * 10 + (c.toNat - 48) := by
  simp [digitsVal, List.foldl_append]

theorem showDigits_spec (fuel n : Nat) (h : n < fuel) :
    showDigits fuel n ≠ [] ∧ (showDigits fuel n).all isDigit = true ∧ digitsVal (showDigits fuel n) = n := by
  induction fuel generalizing n with
  | zero => omega
  | succ fuel ih =>
    unfold showDigits
    split
    · next hlt =>
      have := digit_char n hlt
      simp [digitsVal, this.1, this.2]
    · next hge =>
      have ih' := ih (n / 10) (by omega)
      have hd := digit_char (n % 10) (by omega)
      refine ⟨by simp, ?_, ?_⟩
      · simp [List.all_append, ih'.2.1, hd.1]
      · rw [digitsVal_snoc, ih'.2.2, hd.2]; omega

/-- the digit list of `showNat n` -/
theorem showNat_toList (n : Nat) : (showNat n).toList = showDigits (n + 1) n := by
  simp [showNat]

theorem showNat_spec (n : Nat) :
    ∃ c t, (showNat n).toList = c :: t ∧ isDigit c = true ∧ t.all isDigit = true ∧ digitsVal (c :: t) = n := by
  have h := showDigits_spec (n + 1) n (by omega)
  rw [showNat_toList]
  cases hl : showDigits (n + 1) n with
  | nil => exact absurd hl h.1
  | cons c t =>
    rw [hl] at h
    refine ⟨c, t, rfl, ?_, ?_, h.2.2⟩
    · have := h.2.1; simp [List.all_cons] at this; exact this.1
    · have := h.2.1; simp only [List.all_cons, Bool.and_eq_true] at this; exact this.2

theorem not_digit_plus : isDigit '+' = false := by decide
theorem not_digit_minus : isDigit '-' = false := by decide
theorem not_digit_quote : isDigit '"' = false := by decide

theorem parseUnsigned_showNat (n bits : Nat) :
    parseUnsigned bits (showNat n) = (if n < 2 ^ bits then some n else none) := by
  obtain ⟨c, t, hl, hc, ht, hv⟩ := showNat_spec n
  have hcp : c ≠ '+' := by rintro rfl; simp [not_digit_plus] at hc
  unfold parseUnsigned
  simp only [hl]
  split
  · next heq => simp at heq; exact absurd heq.1 hcp
  · simp [hc, ht, hv]

theorem yamlInt_showNat (n : Nat) :
    yamlInt (showNat n) = (if (n : Int) < 2 ^ 63 then some (n : Int) else none) := by
  obtain ⟨c, t, hl, hc, ht, hv⟩ := showNat_spec n
  have hcp : c ≠ '+' := by rintro rfl; simp [not_digit_plus] at hc
  have hcm : c ≠ '-' := by rintro rfl; simp [not_digit_minus] at hc
  unfold yamlInt
  simp only [hl]
  split
  · next heq => simp at heq; exact absurd heq.1 hcm
  · next heq => simp at heq; exact absurd heq.1 hcp
  · simp [hc, ht, hv]

theorem parse_show (n bits : Nat) :
    parseUnsigned bits (showNat n) = (if n < 2 ^ bits then some n else none) ∧
    yamlInt (showNat n) = (if (n : Int) < 2 ^ 63 then some (n : Int) else none) :=
  ⟨parseUnsigned_showNat n bits, yamlInt_showNat n⟩

/-! ### signed rendering -/

theorem showInt_nonneg (v : Int) (h : 0 ≤ v) : showInt v = showNat v.toNat := by
  simp [showInt, Int.not_lt.mpr h]

theorem showInt_neg_toList (v : Int) (h : v < 0) :
    ∃ c t, (showInt v).toList = '-' :: c :: t ∧ isDigit c = true ∧ t.all isDigit = true ∧
      digitsVal (c :: t) = v.natAbs := by
  obtain ⟨c, t, hl, hc, ht, hv⟩ := showNat_spec v.natAbs
  refine ⟨c, t, ?_, hc, ht, hv⟩
  simp [showInt, h, String.toList_append, hl]

theorem parseUnsigned_showInt (bits : Nat) (v : Int) :
    parseUnsigned bits (showInt v) = (if 0 ≤ v ∧ v < 2 ^ bits then some v.toNat else none) := by
  by_cases h : 0 ≤ v
  · rw [showInt_nonneg v h, parseUnsigned_showNat]
    have : (v.toNat < 2 ^ bits) ↔ (v < 2 ^ bits) := by
      constructor
      · intro h'; have : ((v.toNat : Nat) : Int) < ((2 ^ bits : Nat) : Int) := by exact_mod_cast h'
        rw [Int.toNat_of_nonneg h] at this; simpa using this
      · intro h'; have : ((v.toNat : Nat) : Int) < ((2 ^ bits : Nat) : Int) := by
          rw [Int.toNat_of_nonneg h]; simpa using h'
        exact_mod_cast this
    simp [h, this]
  · have hneg : v < 0 := by omega
    obtain ⟨c, t, hl, hc, ht, hv⟩ := showInt_neg_toList v hneg
    unfold parseUnsigned
    simp only [hl]
    split
    · next heq => simp at heq
    · simp [h, not_digit_minus]

theorem yamlInt_showInt (v : Int) :
    yamlInt (showInt v) = (if -(2 : Int) ^ 63 ≤ v ∧ v < (2 : Int) ^ 63 then some v else none) := by
  by_cases h : 0 ≤ v
  · rw [showInt_nonneg v h, yamlInt_showNat, Int.toNat_of_nonneg h]
    by_cases h2 : v < (2 : Int) ^ 63
    · rw [if_pos h2, if_pos ⟨by omega, h2⟩]
    · rw [if_neg h2, if_neg (fun h' => h2 h'.2)]
  · have hneg : v < 0 := by omega
    obtain ⟨c, t, hl, hc, ht, hv⟩ := showInt_neg_toList v hneg
    unfold yamlInt
    simp only [hl]
    have hv' : -((digitsVal (c :: t) : Nat) : Int) = v := by rw [hv]; omega
    have hall : ¬ ((c :: t).isEmpty = true ∨ ¬ (c :: t).all isDigit = true) := by
      simp [hc]; simpa using ht
    rw [if_neg hall]
    simp only [if_true, hv']

/-- the file side: YAML integer resolution followed by the checked narrowing -/
theorem yaml_narrow_showInt (bits : Nat) (v : Int) :
    (yamlInt (showInt v)).bind (narrow bits) =
      (if 0 ≤ v ∧ v < 2 ^ bits ∧ v < 2 ^ 63 then some v.toNat else none) := by
  rw [yamlInt_showInt]
  by_cases h1 : -(2 : Int) ^ 63 ≤ v ∧ v < (2 : Int) ^ 63
  · rw [if_pos h1, Option.bind_some, narrow]
    by_cases h2 : 0 ≤ v ∧ v < (2 : Int) ^ bits
    · rw [if_pos h2, if_pos ⟨h2.1, h2.2, h1.2⟩]
    · rw [if_neg h2, if_neg (fun h => h2 ⟨h.1, h.2.1⟩)]
  · rw [if_neg h1, Option.bind_none, if_neg]
    intro h; apply h1; constructor <;> omega

theorem unquote_showInt (v : Int) : unquote (showInt v) = showInt v := by
  unfold unquote
  split
  · next rest heq =>
    exfalso
    by_cases h : 0 ≤ v
    · rw [showInt_nonneg v h] at heq
      obtain ⟨c, t, hl, hc, _, _⟩ := showNat_spec v.toNat
      rw [hl] at heq; simp at heq
      rw [heq.1] at hc; simp [not_digit_quote] at hc
    · obtain ⟨c, t, hl, _⟩ := showInt_neg_toList v (by omega)
      rw [hl] at heq; simp at heq
  · rfl

end Rough.Lemmas.Config

import Rough.Lemmas.ServerSpecBatch
/-
  Server-level lemmas, part 3: one pass (`pass_spec`, `pass_safe`) and any number of passes
  (`run_spec`, `run_safe`, `still_serves`).
-/
namespace Rough.Lemmas.ServerSpec
open Rough Rough.Merkle Rough.Stats Rough.ServerSpec Rough.Spec
open Rough.Lemmas.Merkle (bind_ok bind_panic)

/-- the state after `reset` + `collect_requests` of one pass, relative to the state before -/
structure ss_Collected (E : Env) (K : Keys) (s : Server) (chunk : List Datagram) (s1 : Server) : Prop where
  batchSize : s1.batchSize = s.batchSize
  srv : s1.srv = s.srv
  ltPub : s1.ltPub = s.ltPub
  verI : s1.ietf.ver = Version.ietf
  verC : s1.classic.ver = Version.google
  onlI : s1.ietf.onl = ⟨onlOf K .ietf, []⟩
  onlC : s1.classic.onl = ⟨onlOf K .google, []⟩
  certI : s1.ietf.cert = certOf E K Version.ietf
  certC : s1.classic.cert = certOf E K Version.google
  reqI : s1.ietf.requests = (accepted s.srv .ietf chunk).map ss_reqOf
  reqC : s1.classic.requests = (accepted s.srv .google chunk).map ss_reqOf
  treeI : pushAll (E.mcfg .ietf) (reset s.ietf.tree) ((accepted s.srv .ietf chunk).map (leafOf .ietf))
    = .ok s1.ietf.tree
  treeC : pushAll (E.mcfg .google) (reset s.classic.tree) ((accepted s.srv .google chunk).map (leafOf .google))
    = .ok s1.classic.tree
  neI : s1.ietf.tree.levels ≠ []
  neC : s1.classic.tree.levels ≠ []

theorem ss_pass_collect (E : Env) (K : Keys) (s : Server) (hs : Inv E K s) (chunk : List Datagram) :
    ∃ s1, Server.collect E { s with ietf := s.ietf.reset, classic := s.classic.reset } chunk
        = .ok (s1, chunk.map (requestEvent s.srv)) ∧ ss_Collected E K s chunk s1 := by
  obtain ⟨bs, srv, lt, ⟨vI, oI, cI, rI, ⟨tI⟩⟩, ⟨vC, oC, cC, rC, ⟨tC⟩⟩⟩ := s
  obtain ⟨_, _, hvI, hvC, hoI, hoC, hcI, hcC, htI, htC⟩ := hs
  simp only at hvI hvC hoI hoC hcI hcC htI htC
  subst hvI hvC hoI hoC hcI hcC
  cases tI with
  | nil => exact absurd rfl htI
  | cons lI restI =>
  cases tC with
  | nil => exact absurd rfl htC
  | cons lC restC =>
  simp only [Responder.reset, reset, List.map_cons]
  refine ⟨_, ss_collect_spec E chunk _ _ _ _ _ _ _ _ _ _ _ _ _, ?_⟩
  constructor <;> first
    | rfl
    | (simp only [List.nil_append]; done)
    | (simp only [reset, List.map_cons, Lemmas.Merkle.pushAll_cons]; done)
    | (simp; done)

/-- `expectedEvents` with the two response kinds written through `ss_kindOf` -/
theorem ss_expectedEvents_eq (E : Env) (K : Keys) (s : Server) (p : Server.Pass) :
    expectedEvents E K s p =
      (p.chunk.take s.batchSize).map (requestEvent s.srv) ++
      (expectedBatch E K .ietf p.nowIetf (accepted s.srv .ietf (p.chunk.take s.batchSize))).map
        (fun x => (⟨ss_kindOf .ietf, x.dst, x.bytes.length⟩ : Event)) ++
      (expectedBatch E K .google p.nowClassic (accepted s.srv .google (p.chunk.take s.batchSize))).map
        (fun x => (⟨ss_kindOf .google, x.dst, x.bytes.length⟩ : Event)) := rfl

theorem ss_take_len {α} (l : List α) (b : Nat) (hb : b ≤ 2 ^ 32) : (l.take b).length ≤ 2 ^ 32 := by
  rw [List.length_take]; omega

/-- the invariant after a pass, from the collected state and the two trees left by `send_responses` -/
theorem ss_inv_after (E : Env) (K : Keys) (s s1 : Server) (chunk : List Datagram) (hs : Inv E K s)
    (H : ss_Collected E K s chunk s1) (tI tC : Tree) (hI : tI.levels ≠ []) (hC : tC.levels ≠ []) :
    Inv E K { s1 with ietf := { s1.ietf with tree := tI }, classic := { s1.classic with tree := tC } } :=
  { srv := by simp only [H.srv, hs.srv]
    ltPub := by simp only [H.ltPub, hs.ltPub]
    verI := H.verI
    verC := H.verC
    onlI := H.onlI
    onlC := H.onlC
    certI := H.certI
    certC := H.certC
    treeI := hI
    treeC := hC }

theorem pass_spec (E : Env) (hE : EnvOK E) (K : Keys) (_hK : K.OK) (debug : Bool) (s : Server)
    (hs : Inv E K s) (hb : s.batchSize ≤ 2 ^ 32) (p : Server.Pass) (hp : PassOK p) :
    ∃ s', Server.pass E debug s p = .ok (s', expectedSent E K s p, expectedEvents E K s p) ∧
      Inv E K s' ∧ s'.batchSize = s.batchSize ∧ s'.srv = s.srv := by
  obtain ⟨hclkI, hclkC, hgI, hgC⟩ := hp
  obtain ⟨s1, hcol, H⟩ := ss_pass_collect E K s hs (p.chunk.take s.batchSize)
  have hlen := ss_take_len p.chunk s.batchSize hb
  obtain ⟨tI, hsI, htI⟩ := ss_send_spec E hE K .ietf p.nowIetf (accepted s.srv .ietf (p.chunk.take s.batchSize))
    s1.ietf s.ietf.tree debug p.greaseIetf H.verI H.onlI H.certI H.reqI hs.treeI H.treeI H.neI
    (Nat.le_trans (ss_accepted_length _ _ _) hlen) (ss_accepted_nonce_len _ _ _) hclkI hgI
  obtain ⟨tC, hsC, htC⟩ := ss_send_spec E hE K .google p.nowClassic (accepted s.srv .google (p.chunk.take s.batchSize))
    s1.classic s.classic.tree debug p.greaseClassic H.verC H.onlC H.certC H.reqC hs.treeC H.treeC H.neC
    (Nat.le_trans (ss_accepted_length _ _ _) hlen) (ss_accepted_nonce_len _ _ _) hclkC hgC
  refine ⟨{ s1 with ietf := { s1.ietf with tree := tI }, classic := { s1.classic with tree := tC } },
    ?_, ss_inv_after E K s s1 _ hs H tI tC htI htC, H.batchSize, H.srv⟩
  unfold Server.pass
  simp only [hcol, bind_ok, hsI, hsC, ss_expectedEvents_eq, expectedSent]

theorem pass_safe' (E : Env) (hE : EnvOK E) (K : Keys) (debug : Bool) (s : Server)
    (hs : Inv E K s) (hb : s.batchSize ≤ 2 ^ 32) (p : Server.Pass) (hp : PassSafe p) :
    ∃ s' sent ev, Server.pass E debug s p = .ok (s', sent, ev) ∧ Inv E K s' ∧
      s'.batchSize = s.batchSize ∧ s'.srv = s.srv := by
  obtain ⟨hclkI, hclkC, hgI, hgC⟩ := hp
  obtain ⟨s1, hcol, H⟩ := ss_pass_collect E K s hs (p.chunk.take s.batchSize)
  have hlen := ss_take_len p.chunk s.batchSize hb
  obtain ⟨tI, sentI, evI, hsI, htI⟩ := ss_send_safe E hE K .ietf p.nowIetf
    (accepted s.srv .ietf (p.chunk.take s.batchSize))
    s1.ietf s.ietf.tree debug p.greaseIetf H.verI H.onlI H.reqI hs.treeI H.treeI H.neI
    (Nat.le_trans (ss_accepted_length _ _ _) hlen) (ss_accepted_nonce_len _ _ _) hclkI hgI
  obtain ⟨tC, sentC, evC, hsC, htC⟩ := ss_send_safe E hE K .google p.nowClassic
    (accepted s.srv .google (p.chunk.take s.batchSize))
    s1.classic s.classic.tree debug p.greaseClassic H.verC H.onlC H.reqC hs.treeC H.treeC H.neC
    (Nat.le_trans (ss_accepted_length _ _ _) hlen) (ss_accepted_nonce_len _ _ _) hclkC hgC
  refine ⟨{ s1 with ietf := { s1.ietf with tree := tI }, classic := { s1.classic with tree := tC } },
    sentI ++ sentC, p.chunk.take s.batchSize |>.map (requestEvent s.srv) |>.append evI |>.append evC,
    ?_, ss_inv_after E K s s1 _ hs H tI tC htI htC, H.batchSize, H.srv⟩
  unfold Server.pass
  simp only [hcol, bind_ok, hsI, hsC]
  rfl

theorem pass_safe (E : Env) (hE : EnvOK E) (K : Keys) (_hK : K.OK) (debug : Bool) (s : Server)
    (hs : Inv E K s) (hb : s.batchSize ≤ 2 ^ 32) (p : Server.Pass) (hp : PassSafe p) :
    ∃ s' sent ev, Server.pass E debug s p = .ok (s', sent, ev) ∧ Inv E K s' ∧
      s'.batchSize = s.batchSize := by
  obtain ⟨s', sent, ev, h1, h2, h3, _⟩ := pass_safe' E hE K debug s hs hb p hp
  exact ⟨s', sent, ev, h1, h2, h3⟩

/-! ### any number of passes -/

theorem run_spec' (E : Env) (hE : EnvOK E) (K : Keys) (hK : K.OK) (debug : Bool) :
    ∀ (ps : List Server.Pass) (s : Server), Inv E K s → s.batchSize ≤ 2 ^ 32 → (∀ p ∈ ps, PassOK p) →
    ∃ s', Server.run E debug s ps
        = .ok (s', ps.flatMap (expectedSent E K s), ps.flatMap (expectedEvents E K s)) ∧
      Inv E K s' ∧ s'.batchSize = s.batchSize ∧ s'.srv = s.srv := by
  intro ps
  induction ps with
  | nil => intro s hs _ _; exact ⟨s, rfl, hs, rfl, rfl⟩
  | cons p ps ih =>
    intro s hs hb hp
    obtain ⟨s1, h1, hs1, hb1, hsrv1⟩ := pass_spec E hE K hK debug s hs hb p (hp p (by simp))
    obtain ⟨s2, h2, hs2, hb2, hsrv2⟩ := ih s1 hs1 (by omega) (fun q hq => hp q (by simp [hq]))
    refine ⟨s2, ?_, hs2, by omega, by rw [hsrv2, hsrv1]⟩
    rw [ss_expectedSent_congr E K s s1 hb1 hsrv1, ss_expectedEvents_congr E K s s1 hb1 hsrv1] at h2
    simp only [Server.run, h1, bind_ok, h2, List.flatMap_cons]

theorem run_spec (E : Env) (hE : EnvOK E) (K : Keys) (hK : K.OK) (debug : Bool) (s : Server)
    (hs : Inv E K s) (hb : s.batchSize ≤ 2 ^ 32) (ps : List Server.Pass) (hp : ∀ p ∈ ps, PassOK p) :
    ∃ s', Server.run E debug s ps = .ok (s', ps.flatMap (expectedSent E K s), ps.flatMap (expectedEvents E K s)) ∧
      Inv E K s' := by
  obtain ⟨s', h1, h2, _⟩ := run_spec' E hE K hK debug ps s hs hb hp
  exact ⟨s', h1, h2⟩

theorem run_safe' (E : Env) (hE : EnvOK E) (K : Keys) (debug : Bool) :
    ∀ (ps : List Server.Pass) (s : Server), Inv E K s → s.batchSize ≤ 2 ^ 32 → (∀ p ∈ ps, PassSafe p) →
    ∃ s' sent ev, Server.run E debug s ps = .ok (s', sent, ev) ∧
      Inv E K s' ∧ s'.batchSize = s.batchSize ∧ s'.srv = s.srv := by
  intro ps
  induction ps with
  | nil => intro s hs _ _; exact ⟨s, [], [], rfl, hs, rfl, rfl⟩
  | cons p ps ih =>
    intro s hs hb hp
    obtain ⟨s1, sent1, ev1, h1, hs1, hb1, hsrv1⟩ := pass_safe' E hE K debug s hs hb p (hp p (by simp))
    obtain ⟨s2, sent2, ev2, h2, hs2, hb2, hsrv2⟩ :=
      ih s1 hs1 (by omega) (fun q hq => hp q (by simp [hq]))
    refine ⟨s2, sent1 ++ sent2, ev1 ++ ev2, ?_, hs2, by omega, by rw [hsrv2, hsrv1]⟩
    simp only [Server.run, h1, bind_ok, h2]

theorem run_safe (E : Env) (hE : EnvOK E) (K : Keys) (_hK : K.OK) (debug : Bool) (s : Server)
    (hs : Inv E K s) (hb : s.batchSize ≤ 2 ^ 32) (ps : List Server.Pass) (hp : ∀ p ∈ ps, PassSafe p) :
    ∃ s' sent ev, Server.run E debug s ps = .ok (s', sent, ev) ∧ Inv E K s' := by
  obtain ⟨s', sent, ev, h1, h2, _⟩ := run_safe' E hE K debug ps s hs hb hp
  exact ⟨s', sent, ev, h1, h2⟩

theorem still_serves (E : Env) (hE : EnvOK E) (K : Keys) (hK : K.OK) (debug : Bool) (s : Server)
    (hs : Inv E K s) (hb : s.batchSize ≤ 2 ^ 32) (ps : List Server.Pass) (hp : ∀ p ∈ ps, PassSafe p)
    (q : Server.Pass) (hq : PassOK q) :
    ∃ s' sent ev s'', Server.run E debug s ps = .ok (s', sent, ev) ∧
      Server.pass E debug s' q = .ok (s'', expectedSent E K s' q, expectedEvents E K s' q) := by
  obtain ⟨s', sent, ev, h1, hs', hb', _⟩ := run_safe' E hE K debug ps s hs hb hp
  obtain ⟨s'', h2, _⟩ := pass_spec E hE K hK debug s' hs' (by omega) q hq
  exact ⟨s', sent, ev, s'', h1, h2⟩

end Rough.Lemmas.ServerSpec

import Rough.Lemmas.Keys
/-
  C20 — the long-term seed never appears in anything the server emits (partial).
  Theorem part: non-interference. Everything a server ever sends is a function of the seed's
  *public interface* (public key and the two certificate signatures): two seeds with the same
  interface give byte-identical outputs for every input history, clock, grease draw and log level.
  That those 32+64+64 bytes do not themselves reveal the seed is a property of Ed25519, not provable
  here; log records are not modelled. Both gaps are covered only by the run-time monitor.
-/
namespace Rough.Props.C20
open Rough

/-- the public interface of a seed for given online keys -/
def Iface (E : Env) (seed onlI onlC : Bytes) : Bytes × Bytes × Bytes :=
  (E.S.pk seed,
   E.S.sign seed (Version.ietf.delePrefix ++ encode ⟨[(Tag.PUBK, E.S.pk onlI), (Tag.MINT, zeros 8), (Tag.MAXT, List.replicate 8 0xff)]⟩),
   E.S.sign seed (Version.google.delePrefix ++ encode ⟨[(Tag.PUBK, E.S.pk onlC), (Tag.MINT, zeros 8), (Tag.MAXT, List.replicate 8 0xff)]⟩))

/-- the server state (which never stores the seed) is determined by the interface -/
theorem C20_factor (E : Env) (seed seed' onlI onlC : Bytes) (b : Nat)
    (h32 : seed.length = 32) (h32' : seed'.length = 32)
    (hi : Iface E seed onlI onlC = Iface E seed' onlI onlC) :
    Server.new E seed onlI onlC b = Server.new E seed' onlI onlC b :=
  Lemmas.Keys.factor E seed seed' onlI onlC b h32 h32' hi

/-- non-interference for every run -/
theorem C20_noninterference (E : Env) (seed seed' onlI onlC : Bytes) (b : Nat) (debug : Bool)
    (passes : List Server.Pass) (h32 : seed.length = 32) (h32' : seed'.length = 32)
    (hi : Iface E seed onlI onlC = Iface E seed' onlI onlC) :
    (Server.new E seed onlI onlC b).bind (fun s => Server.run E debug s passes) =
    (Server.new E seed' onlI onlC b).bind (fun s => Server.run E debug s passes) := by
  rw [C20_factor E seed seed' onlI onlC b h32 h32' hi]

end Rough.Props.C20

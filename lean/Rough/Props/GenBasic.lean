import Rough.Bridge.Basic
/-
  Property theorems stated directly about the Lean code REGENERATED FROM /repo's RUST SOURCE on every run
  (`Gen.*`, Rough/Generated/Src/*.lean), obtained by composing a bridge theorem of Rough/Bridge/*.lean (generated
  function = model function up to `≃ᵣ`) with a model-level property theorem of Rough/Props/Cxx.lean.  Nothing new is
  proved about the model here: every theorem is "bridge ∘ property", so it re-checks on every run against what the
  code says now.  (Same pattern as Props/GenLoop.lean, for the codec, the request classifier, the Merkle tree, the
  signed midpoint, the incremental signer / verifier, the seed envelope, the client validation path and the
  per-client statistics.)
-/
namespace Rough.Props.GenCore
open Rough

/-! ### `≃ᵣ` helpers -/

/-- a computation that simulates a successful one returns the same value -/
theorem eq_ok_of_sim {α} {r : Res α} {a : α} (h : r ≃ᵣ .ok a) : r = .ok a :=
  (Res.Sim.ok_iff h a).mpr rfl

/-- if `r` simulates the `f`-image of `s` and `s` returns `a`, then `r` returns `f a` -/
theorem eq_ok_of_sim_map {α β} {r : Res α} {s : Res β} {f : β → α} {b : β} (h : r ≃ᵣ s.map f) (hs : s = .ok b) :
    r = .ok (f b) := by
  rw [hs] at h
  exact eq_ok_of_sim h

/-- if `r` simulates the `f`-image of `s` and `r` returns `a`, then `s` returns some `b` with `a = f b` -/
theorem ok_of_sim_map {α β} {r : Res α} {s : Res β} {f : β → α} {a : α} (h : r ≃ᵣ s.map f) (hr : r = .ok a) :
    ∃ b, s = .ok b ∧ a = f b := by
  rw [hr] at h
  cases s with
  | ok b => exact ⟨b, rfl, h⟩
  | err => exact False.elim h
  | panic p => exact False.elim h


end Rough.Props.GenCore

import Rough.Bridge.ConfigLoaders
import Rough.Bridge.Config
import Rough.Props.C16
/-
  C16 stated directly about the Lean code REGENERATED FROM /repo's RUST SOURCE on every run: the two configuration
  loaders (`Gen.FileConfig.new`, `Gen.EnvironmentConfig.new`), the `ServerConfig` getters of both structs and the
  validator (`Gen.is_valid_config`), composed the way `main` composes them (load; refuse on Err / panic; validate; refuse
  on false / panic) — obtained from the bridge theorems and the model-level theorems of Props/C16.lean.
  (`main`'s own wiring is exercised by the real-binary stage of the C16 check, not translated.)
-/
namespace Rough.Props.GenConfig
open Rough Rough.Bridge Rough.Config

/-- the `Box<dyn ServerConfig>` view of a loaded `FileConfig`: every getter of the trait, as translated from file.rs -/
theorem file_getters (g : Gen.FileConfig) :
    Gen.FileConfig.port_fn g = .ok (cfgOfFile g).port ∧ Gen.FileConfig.interface_fn g = .ok (cfgOfFile g).interface ∧
    Gen.FileConfig.seed_fn g = .ok (cfgOfFile g).seed ∧ Gen.FileConfig.batch_size_fn g = .ok (cfgOfFile g).batchSize ∧
    (Gen.FileConfig.status_interval_fn g).map (·.secs) = .ok (cfgOfFile g).statusInterval ∧
    Gen.FileConfig.kms_protection_fn g = .ok (cfgOfFile g).kmsPlain ∧
    Gen.FileConfig.health_check_port_fn g = .ok (cfgOfFile g).hcPort ∧
    Gen.FileConfig.client_stats_enabled g = .ok (cfgOfFile g).clientStats ∧
    Gen.FileConfig.persistence_directory g = .ok (cfgOfFile g).persistDir ∧
    Gen.FileConfig.fault_percentage_fn g = .ok (cfgOfFile g).faultPct ∧
    Gen.FileConfig.num_workers_fn g = .ok (cfgOfFile g).numWorkers := by
  refine ⟨rfl, rfl, rfl, rfl, rfl, rfl, rfl, rfl, rfl, rfl, rfl⟩

/-- … and of a loaded `EnvironmentConfig` -/
theorem env_getters (g : Gen.EnvironmentConfig) :
    Gen.EnvironmentConfig.port_fn g = .ok (cfgOfEnv g).port ∧ Gen.EnvironmentConfig.interface_fn g = .ok (cfgOfEnv g).interface ∧
    Gen.EnvironmentConfig.seed_fn g = .ok (cfgOfEnv g).seed ∧ Gen.EnvironmentConfig.batch_size_fn g = .ok (cfgOfEnv g).batchSize ∧
    (Gen.EnvironmentConfig.status_interval_fn g).map (·.secs) = .ok (cfgOfEnv g).statusInterval ∧
    Gen.EnvironmentConfig.kms_protection_fn g = .ok (cfgOfEnv g).kmsPlain ∧
    Gen.EnvironmentConfig.health_check_port_fn g = .ok (cfgOfEnv g).hcPort ∧
    Gen.EnvironmentConfig.client_stats_enabled g = .ok (cfgOfEnv g).clientStats ∧
    Gen.EnvironmentConfig.persistence_directory g = .ok (cfgOfEnv g).persistDir ∧
    Gen.EnvironmentConfig.fault_percentage_fn g = .ok (cfgOfEnv g).faultPct ∧
    Gen.EnvironmentConfig.num_workers_fn g = .ok (cfgOfEnv g).numWorkers := by
  refine ⟨rfl, rfl, rfl, rfl, rfl, rfl, rfl, rfl, rfl, rfl, rfl⟩

/-- start-up from a YAML file as the translated code performs it: `FileConfig::new`, then `is_valid_config` on the
    loaded configuration; `none` = refused (Err, panic, or validation false) -/
def genStartFile (fs : Gen.Fs) (doc : List (String × String)) (ncpu : Nat) (path : String) : Option Cfg :=
  match Gen.FileConfig.new [doc] ncpu path with
  | .ok g => if Gen.is_valid_config fs (cfgOfFile g) = .ok true then some (cfgOfFile g) else none
  | _ => none

/-- start-up from the process environment as the translated code performs it -/
def genStartEnv (fs : Gen.Fs) (env : List (String × String)) (ncpu : Nat) : Option Cfg :=
  match Gen.EnvironmentConfig.new env ncpu with
  | .ok g => if Gen.is_valid_config fs (cfgOfEnv g) = .ok true then some (cfgOfEnv g) else none
  | _ => none

/-- the validator does not look at the `kms` text -/
theorem isValid_eraseKms (fs : FsFacts) (c : Cfg) : isValid fs (eraseKms c) = isValid fs c := rfl

/-- nor do the integer settings -/
theorem get_eraseKms (c : Cfg) (k : IntKey) : (eraseKms c).get k = c.get k := by
  cases k <;> rfl

/-- load-then-validate in the translated code against the model's, from the loader's bridge equation; `x` is the
    outcome of the translated start-up, described by what it is when the loader returns `Ok` and when it does not -/
theorem start_aux {γ : Type} (fs : Gen.Fs) (r : Res γ) (o : Option Cfg) (f : γ → Cfg)
    (hb : r.toOption.map f = o.map eraseKms) (x : Option Cfg)
    (hok : ∀ g, r = .ok g → x = if Gen.is_valid_config fs (f g) = .ok true then some (f g) else none)
    (hno : r.toOption = none → x = none) :
    x = (o.bind fun c => if isValid (fsOf fs) c then some c else none).map eraseKms := by
  cases r with
  | ok g =>
    rw [hok g rfl]
    cases o with
    | none => cases hb
    | some c =>
      have hg : f g = eraseKms c := Option.some.inj hb
      simp only [Option.bind_some, hg, is_valid_config_true_iff, isValid_eraseKms]
      cases isValid (fsOf fs) c <;> rfl
  | err =>
    rw [hno rfl]
    cases o with
    | none => rfl
    | some c => cases hb
  | panic s =>
    rw [hno rfl]
    cases o with
    | none => rfl
    | some c => cases hb

/-- the keys of the settings present in an environment are pairwise distinct -/
theorem entriesOfEnv_keys_nodup (env : List (String × String)) : ((entriesOfEnv env).map (·.1)).Nodup := by
  have hsub : ((entriesOfEnv env).map (·.1)).Sublist (envKeys.map (·.1)) := by
    unfold entriesOfEnv
    generalize envKeys = l
    induction l with
    | nil => exact List.Sublist.refl _
    | cons kn l ih =>
      rw [List.filterMap_cons]
      cases env.find? (fun kv => kv.1 == kn.2) with
      | none => exact List.Sublist.cons _ ih
      | some kv => exact List.Sublist.cons_cons _ ih
  exact List.Nodup.sublist hsub (by decide)


/-- the translated file start-up IS the model's `start … .file` (keys plain words, at least one entry) -/
theorem GEN_start_file (fs : Gen.Fs) (doc : List (String × String)) (ncpu : Nat) (path : String) (hne : doc ≠ [])
    (hkeys : ∀ kv ∈ doc, yamlStr kv.1 = some kv.1) :
    genStartFile fs doc ncpu path = (start (fsOf fs) { numWorkers := ncpu } .file doc).map eraseKms := by
  have hb := file_config_new_eq doc ncpu path hne hkeys
  refine start_aux fs _ _ cfgOfFile hb _ ?_ ?_
  · intro g hg
    unfold genStartFile
    rw [hg]
  · intro hn
    unfold genStartFile
    cases hr : Gen.FileConfig.new [doc] ncpu path with
    | ok g => rw [hr] at hn; cases hn
    | err => rfl
    | panic s => rfl

/-- `GEN_start_file` without the plain-word hypothesis: with key scalars that resolve to YAML strings in any spelling
    (quoted or plain), the translated file start-up is the model's start-up on the entries under their resolved keys -/
theorem GEN_start_file_resolved (fs : Gen.Fs) (doc : List (String × String)) (ncpu : Nat) (path : String) (hne : doc ≠ [])
    (rk : String → String) (hkeys : ∀ kv ∈ doc, yamlStr kv.1 = some (rk kv.1)) :
    genStartFile fs doc ncpu path =
      (start (fsOf fs) { numWorkers := ncpu } .file (doc.map fun kv => (rk kv.1, kv.2))).map eraseKms := by
  have hb := file_config_new_eq_resolved doc ncpu path hne rk hkeys
  refine start_aux fs _ _ cfgOfFile hb _ ?_ ?_
  · intro g hg
    unfold genStartFile
    rw [hg]
  · intro hn
    unfold genStartFile
    cases hr : Gen.FileConfig.new [doc] ncpu path with
    | ok g => rw [hr] at hn; cases hn
    | err => rfl
    | panic s => rfl

/-- the translated environment start-up IS the model's `start … .env` on the settings present (values the harness's
    un-quoting leaves alone) -/
theorem GEN_start_env (fs : Gen.Fs) (env : List (String × String)) (ncpu : Nat)
    (hq : ∀ kv ∈ entriesOfEnv env, unquote kv.2 = kv.2) :
    genStartEnv fs env ncpu = (start (fsOf fs) { numWorkers := ncpu } .env (entriesOfEnv env)).map eraseKms := by
  have hb := env_config_new_eq env ncpu
  rw [← loadEnv_raw _ _ hq] at hb
  refine start_aux fs _ _ cfgOfEnv hb _ ?_ ?_
  · intro g hg
    unfold genStartEnv
    rw [hg]
  · intro hn
    unfold genStartEnv
    cases hr : Gen.EnvironmentConfig.new env ncpu with
    | ok g => rw [hr] at hn; cases hn
    | err => rfl
    | panic s => rfl

/-- C16 "never silently replaced", for the translated file loader + validator: if start-up succeeds from a file in which
    an integer setting is written once (decimal) with value v, the value the server runs with IS v -/
theorem GEN_file_effective_is_written (fs : Gen.Fs) (doc : List (String × String)) (ncpu : Nat) (path : String)
    (hkeys : ∀ kv ∈ doc, yamlStr kv.1 = some kv.1) (hnd : (doc.map (·.1)).Nodup) (k : IntKey) (v : Int)
    (hmem : (k.name, showInt v) ∈ doc) (c : Cfg) (h : genStartFile fs doc ncpu path = some c) :
    c.get k = some v.toNat ∧ 0 ≤ v := by
  have hne : doc ≠ [] := List.ne_nil_of_mem hmem
  rw [GEN_start_file fs doc ncpu path hne hkeys] at h
  obtain ⟨c', hc', rfl⟩ := Option.map_eq_some_iff.mp h
  rw [get_eraseKms]
  exact C16.C16_effective_is_written _ _ _ doc hnd k v hmem c' hc'

/-- C16 "out of range ⇒ start-up fails", for the translated file loader + validator -/
theorem GEN_file_out_of_range_refused (fs : Gen.Fs) (doc : List (String × String)) (ncpu : Nat) (path : String)
    (hkeys : ∀ kv ∈ doc, yamlStr kv.1 = some kv.1) (hnd : (doc.map (·.1)).Nodup) (k : IntKey) (v : Int)
    (hmem : (k.name, showInt v) ∈ doc) (hout : ¬ k.documented v) :
    genStartFile fs doc ncpu path = none := by
  have hne : doc ≠ [] := List.ne_nil_of_mem hmem
  rw [GEN_start_file fs doc ncpu path hne hkeys,
    C16.C16_out_of_range_refused _ _ _ doc hnd k v hmem hout]
  rfl

/-- `GEN_file_effective_is_written` for key scalars in any string spelling: the setting is written once under a key
    scalar `kq` that RESOLVES to the setting's name (so `"batch_size": 7` counts), no two entries resolve to one key -/
theorem GEN_file_effective_is_written_resolved (fs : Gen.Fs) (doc : List (String × String)) (ncpu : Nat) (path : String)
    (rk : String → String) (hkeys : ∀ kv ∈ doc, yamlStr kv.1 = some (rk kv.1))
    (hnd : (doc.map fun kv => rk kv.1).Nodup) (k : IntKey) (v : Int) (kq : String) (hkq : rk kq = k.name)
    (hmem : (kq, showInt v) ∈ doc) (c : Cfg) (h : genStartFile fs doc ncpu path = some c) :
    c.get k = some v.toNat ∧ 0 ≤ v := by
  have hne : doc ≠ [] := List.ne_nil_of_mem hmem
  rw [GEN_start_file_resolved fs doc ncpu path hne rk hkeys] at h
  obtain ⟨c', hc', rfl⟩ := Option.map_eq_some_iff.mp h
  rw [get_eraseKms]
  have hnd' : ((doc.map fun kv => (rk kv.1, kv.2)).map (·.1)).Nodup := by
    rw [List.map_map]; exact hnd
  have hmem' : (k.name, showInt v) ∈ doc.map fun kv => (rk kv.1, kv.2) :=
    List.mem_map.mpr ⟨(kq, showInt v), hmem, by simp only [hkq]⟩
  exact C16.C16_effective_is_written _ _ _ _ hnd' k v hmem' c' hc'

/-- `GEN_file_out_of_range_refused` for key scalars in any string spelling -/
theorem GEN_file_out_of_range_refused_resolved (fs : Gen.Fs) (doc : List (String × String)) (ncpu : Nat) (path : String)
    (rk : String → String) (hkeys : ∀ kv ∈ doc, yamlStr kv.1 = some (rk kv.1))
    (hnd : (doc.map fun kv => rk kv.1).Nodup) (k : IntKey) (v : Int) (kq : String) (hkq : rk kq = k.name)
    (hmem : (kq, showInt v) ∈ doc) (hout : ¬ k.documented v) :
    genStartFile fs doc ncpu path = none := by
  have hne : doc ≠ [] := List.ne_nil_of_mem hmem
  have hnd' : ((doc.map fun kv => (rk kv.1, kv.2)).map (·.1)).Nodup := by
    rw [List.map_map]; exact hnd
  have hmem' : (k.name, showInt v) ∈ doc.map fun kv => (rk kv.1, kv.2) :=
    List.mem_map.mpr ⟨(kq, showInt v), hmem, by simp only [hkq]⟩
  rw [GEN_start_file_resolved fs doc ncpu path hne rk hkeys,
    C16.C16_out_of_range_refused _ _ _ _ hnd' k v hmem' hout]
  rfl

/-- non-vacuity of the resolved form: a quoted `"batch_size"` key with the out-of-range value 0 -/
example (fs : Gen.Fs) : genStartFile fs [("\"batch_size\"", showInt 0)] 1 "" = none :=
  GEN_file_out_of_range_refused_resolved fs _ 1 "" (fun _ => "batch_size")
    (by intro kv h; rw [List.mem_singleton.mp h]; decide) (by simp) .batchSize 0 "\"batch_size\"" rfl
    (List.mem_singleton.mpr rfl) (by simp [IntKey.documented])

/-- C16 "a missing required setting ⇒ start-up fails", for the translated environment loader + validator -/
theorem GEN_env_missing_required (fs : Gen.Fs) (env : List (String × String)) (ncpu : Nat)
    (hq : ∀ kv ∈ entriesOfEnv env, unquote kv.2 = kv.2)
    (req : String) (hreq : req = "port" ∨ req = "interface" ∨ req = "seed")
    (hmiss : ∀ kv ∈ entriesOfEnv env, kv.1 ≠ req) :
    genStartEnv fs env ncpu = none := by
  rw [GEN_start_env fs env ncpu hq, C16.C16_missing_required _ _ _ req hreq hmiss ncpu]
  rfl

/-- C16 "out of range ⇒ start-up fails", for the translated environment loader + validator -/
theorem GEN_env_out_of_range_refused (fs : Gen.Fs) (env : List (String × String)) (ncpu : Nat)
    (hq : ∀ kv ∈ entriesOfEnv env, unquote kv.2 = kv.2) (k : IntKey) (v : Int)
    (hmem : (k.name, showInt v) ∈ entriesOfEnv env) (hout : ¬ k.documented v) :
    genStartEnv fs env ncpu = none := by
  rw [GEN_start_env fs env ncpu hq,
    C16.C16_out_of_range_refused _ _ _ _ (entriesOfEnv_keys_nodup env) k v hmem hout]
  rfl

end Rough.Props.GenConfig

import Rough.Lemmas.Client
/-
  C03 — the project's own client accepts every honest response and prints its midpoint.
-/
namespace Rough.Props.C03
open Rough Rough.Spec Rough.ServerSpec

/-- the requests the client generates are 1024 bytes (classic) / 1024 + 12 bytes of RFC frame
    (draft-13), hence inside the server's 1024..1500 window, and are classified `must` by the
    reference classification of a server whose key is the pinned one (or any server if no key) -/
theorem C03_request_wellformed (H : Bytes → Bytes) (hH : ∀ x, (H x).length = 64) (ver : Version)
    (nonce : Bytes) (hn : nonce.length = ver.nonceLen) (pk? : Option Bytes)
    (hpk : ∀ pk, pk? = some pk → pk.length = 32) (srv : Bytes)
    (hsrv : ∀ pk, pk? = some pk → srv = (H ((0xff : UInt8) :: pk)).take 32) :
    ∃ req, Client.makeRequest H ver nonce pk? = .ok req ∧
      req.length = (match ver with | .google => 1024 | .ietf => 1036) ∧
      RT.classifyRequest (protoOfVer ver) srv req = .must nonce ∧ RT.protoOf req = protoOfVer ver :=
  Lemmas.Client.request_wellformed H hH ver nonce hn pk? hpk srv hsrv

/-- Completeness: the reference responder's reply for ANY batch (1..2^32 leaves) in which the
    client's request sits at ANY position i is accepted, with or without the pinned key; the outcome
    is exactly (signed midpoint, signed radius, verified = key supplied, index = i). -/
theorem C03_accept (S : SigScheme) (hS : S.Correct) (hv : ∀ seed, S.pkValid (S.pk seed) = true)
    (H : Bytes → Bytes) (hH : ∀ x, (H x).length = 64)
    (hsig : ∀ seed m, (S.sign seed m).length = 64) (hpk : ∀ seed, (S.pk seed).length = 32)
    (ver : Version) (ltSeed onlSeed : Bytes) (hlt : ltSeed.length = 32) (hon : onlSeed.length = 32)
    (midp radi : Nat) (hm : midp < 2 ^ 64) (hr : radi < 2 ^ 32)
    (leaves : List Bytes) (i : Nat) (hi : i < leaves.length) (hn : leaves.length ≤ 2 ^ 32)
    (request nonce : Bytes) (hnl : nonce.length = ver.nonceLen)
    (hleaf : leaves[i] = (match ver with | .google => nonce | .ietf => request))
    (pk? : Option Bytes) (hk : pk? = none ∨ pk? = some (S.pk ltSeed)) :
    Client.handleResponse S H ver pk? nonce request
      (RT.respond S H (protoOfVer ver) ltSeed onlSeed midp radi 0 (2 ^ 64 - 1) leaves i nonce)
      = .ok ⟨midp, radi, pk?.isSome, i⟩ :=
  Lemmas.Client.accept S hS hv H hH hsig hpk ver ltSeed onlSeed hlt hon midp radi hm hr leaves i hi hn
    request nonce hnl hleaf pk? hk

/-- the printed time is exactly the signed midpoint converted from the protocol's unit -/
theorem C03_time (m : Nat) :
    Client.printedTime .google m = (m / 1000000, (m % 1000000) * 1000) ∧
    Client.printedTime .ietf m = (m, 0) :=
  Lemmas.Client.time m

end Rough.Props.C03

import Rough.Lemmas.Runtime
import Rough.Props.C02
/-
  C19 — SIGINT or SIGTERM at any moment stops the server cleanly and promptly (partial).
  Theorem part: the polling-loop logic against an ADVERSARIAL arrival process (any number of
  datagrams may arrive at any time, forever). What the model cannot exhibit: `ctrlc`'s signal thread
  actually setting the flag, wall-clock latency, the exit status of a process whose worker panicked —
  covered by the process-level signal sweeps (idle / closed-loop load / open-loop flood).
-/
namespace Rough.Props.C19
open Rough Rough.Shutdown

/-- every call of process_events returns after at most M batches, whatever arrives -/
theorem C19_call_bounded (B M q : Nat) (arr : Nat → Nat) : (serviceCall B M q arr).1 ≤ M :=
  Lemmas.Runtime.call_bounded B M q arr

/-- For EVERY arrival process — including a flood that keeps the queue non-empty for ever — a worker
    returns right after the first call that ends once the flag is set: at most one call (≤ M batches of
    ≤ B datagrams, plus one ≤100 ms poll) after the signal. -/
theorem C19_worker_exits (B M flagAt : Nat) (arr : Nat → Nat → Nat) (q0 : Nat) (fuel : Nat) (hf : flagAt < fuel) :
    workerLoop B M flagAt arr fuel 0 q0 = some flagAt :=
  Lemmas.Runtime.worker_exits B M flagAt arr q0 fuel hf

/-- the reporter thread leaves its loop at the first check after the flag (it checks once per second) -/
theorem C19_reporter_exits (flagAt fuel : Nat) (hf : flagAt < fuel) : reporterLoop flagAt fuel 0 = some flagAt :=
  Lemmas.Runtime.reporter_exits flagAt fuel hf

/-- The unrepaired loop: there is an arrival process (one full batch arriving per batch served)
    under which a call never returns, no matter how long one watches — the finding F9. -/
theorem C19_flood_starves_unfixed (B : Nat) (hB : 0 < B) (q : Nat) (hq : B ≤ q) (fuel : Nat) :
    serviceUnbounded B fuel q (fun _ => B) = none :=
  Lemmas.Runtime.flood_starves B hB q hq fuel

/-- responses are complete: exit happens only BETWEEN calls, and every datagram a call sends is a
    complete valid response (C02_honest applies to every pass of every call). -/
theorem C19_replies_complete (E : Env) (hE : ServerSpec.EnvOK E) (hS : E.S.Correct) (K : ServerSpec.Keys) (hK : K.OK)
    (debug : Bool) (s : Server) (hs : ServerSpec.Inv E K s) (hb : s.batchSize ≤ 2 ^ 32) (p : Server.Pass)
    (hp : ServerSpec.PassOK p) :
    ∃ s' sent ev, Server.pass E debug s p = .ok (s', sent, ev) ∧
      ∀ ver, ∀ i (h : i < (ServerSpec.accepted s.srv ver (p.chunk.take s.batchSize)).length),
        let reqs := ServerSpec.accepted s.srv ver (p.chunk.take s.batchSize)
        let now := match ver with | .ietf => p.nowIetf | .google => p.nowClassic
        ∃ x ∈ sent, x.dst = reqs[i].1.src ∧
          Spec.RT.verifyResponse E.S E.H (ServerSpec.protoOfVer ver) (E.S.pk K.seed) reqs[i].1.bytes reqs[i].2 x.bytes
            = .ok (ServerSpec.midpVal ver now, radiOf ver) :=
  Rough.Props.C02.C02_honest E hE hS K hK debug s hs hb p hp

end Rough.Props.C19

import Rough.Props.GenBasic
import Rough.Bridge.Stats
import Rough.Props.C17
/-
  Property theorems stated directly about the Lean code REGENERATED FROM /repo's RUST SOURCE on every run
  (`Gen.*`, Rough/Generated/Src/*.lean), obtained by composing a bridge theorem of Rough/Bridge/*.lean (generated
  function = model function up to `≃ᵣ`) with a model-level property theorem of Rough/Props/Cxx.lean.  Nothing new is
  proved about the model here: every theorem is "bridge ∘ property", so it re-checks on every run against what the
  code says now.  (Same pattern as Props/GenLoop.lean, for the codec, the request classifier, the Merkle tree, the
  signed midpoint, the incremental signer / verifier, the seed envelope, the client validation path and the
  per-client statistics.)
-/
namespace Rough.Props.GenCore
open Rough Rough.Bridge

/-! ### C17 — the per-client statistics recorder `PerClientStats` as generated -/

/-- record a history of events on one generated per-client recorder, each through the trait method the server calls
    for an event of its kind (`genRecordPer`, Bridge/Stats.lean) -/
def genRunPer (g : Gen.PerClientStats) (h : List Stats.Event) : Res Gen.PerClientStats :=
  h.foldl (fun r e => r.bind fun g => genRecordPer g e) (.ok g)

/-- a history recorded on the generated per-client recorder never fails and yields the image of the model's state (bridge
    `per_client_record_eq` iterated; the no-duplicate-address invariant is kept by `uniq_record`) -/
theorem genRunPer_eq (h : List Stats.Event) : ∀ s : Stats.PerClient, UniqKeys s →
    genRunPer (toGenPer s) h = .ok (toGenPer (Stats.PerClient.run s h)) := by
  induction h with
  | nil => intro s _; rfl
  | cons e es ih =>
    intro s hu
    have := ih (s.record e) (uniq_record s e hu)
    unfold genRunPer at this ⊢
    simp only [List.foldl_cons, Res.bind_ok, per_client_record_eq s e hu, Stats.PerClient.run]
    exact this

/-- C17 (conservation, boundedness) for the translated code: for every limit and every history of events recorded on
    a generated `PerClientStats` that starts empty, every `add_*` call returns normally, and the resulting object is
    the image (`toGenPer`: same map entries, same overflow count, same limit) of a recorder state `s` in which no
    counter exceeds the number of events of exactly its kind for exactly its address, the counters plus the overflow
    count add up to the number of events (each event is reflected exactly once), at most `limit` addresses are
    tracked and none twice; the generated getters `total_unique_clients` and `num_overflows` report that number of
    addresses and that overflow count. -/
theorem GEN_stats_conservation (limit : Nat) (h : List Stats.Event) :
    ∃ s : Stats.PerClient, genRunPer ⟨[], 0, limit⟩ h = .ok (toGenPer s) ∧
      (∀ a k, s.get a k ≤ Stats.count h a k) ∧
      Props.C17.PerClient.grandTotal s + s.overflows = h.length ∧
      s.clients.length ≤ limit ∧ (s.clients.map (·.1)).Nodup ∧
      Gen.PerClientStats.total_unique_clients (toGenPer s) = .ok s.clients.length ∧
      Gen.PerClientStats.num_overflows_fn (toGenPer s) = .ok s.overflows := by
  obtain ⟨h1, h2⟩ := Props.C17.C17_conservation limit h
  obtain ⟨h3, h4⟩ := Props.C17.C17_bounded limit h
  obtain ⟨_, _, _, _, _, _, h5, h6⟩ := per_client_totals_eq (Stats.PerClient.run (Stats.PerClient.init limit) h)
  exact ⟨Stats.PerClient.run (Stats.PerClient.init limit) h,
    genRunPer_eq h (Stats.PerClient.init limit) (uniq_init limit), h1, h2, h3, h4, h5, h6⟩


end Rough.Props.GenCore

import Rough.Props.GenBasic
import Rough.Bridge.RequestLemmas
import Rough.Bridge.Merkle
import Rough.Props.C04
/-
  Property theorems stated directly about the Lean code REGENERATED FROM /repo's RUST SOURCE on every run
  (`Gen.*`, Rough/Generated/Src/*.lean), obtained by composing a bridge theorem of Rough/Bridge/*.lean (generated
  function = model function up to `≃ᵣ`) with a model-level property theorem of Rough/Props/Cxx.lean.  Nothing new is
  proved about the model here: every theorem is "bridge ∘ property", so it re-checks on every run against what the
  code says now.  (Same pattern as Props/GenLoop.lean, for the codec, the request classifier, the Merkle tree, the
  signed midpoint, the incremental signer / verifier, the seed envelope, the client validation path and the
  per-client statistics.)
-/
namespace Rough.Props.GenCore
open Rough Rough.Bridge

/-! ### C04 — Merkle tree: `reset`, `push_leaf`, `compute_root`, `get_paths`, `root_from_paths` as generated -/

/-- `push_leaf` for every leaf of a batch, in order, with the generated function -/
def genPushAll (H : Bytes → Bytes) (g : Gen.MerkleTree) (leaves : List Bytes) : Res Gen.MerkleTree :=
  leaves.foldl (fun r d => r.bind fun g => Gen.MerkleTree.push_leaf H g d) (.ok g)

/-- what the responder does per batch with its long-lived tree, with the generated functions: `reset`, `push_leaf`
    for every leaf, `compute_root` (which returns the root and the tree object afterwards) -/
def genRunBatch (H : Bytes → Bytes) (g : Gen.MerkleTree) (leaves : List Bytes) : Res (Bytes × Gen.MerkleTree) :=
  (Gen.MerkleTree.reset H g).bind fun g1 => (genPushAll H g1 leaves).bind fun g2 => Gen.MerkleTree.compute_root H g2

/-- pushing a batch leaf by leaf with the generated `push_leaf` simulates the model's fold of `pushLeaf`, from any pair of
    related intermediate results (bridge `push_leaf_sim` iterated) -/
theorem genPushAll_sim_aux (H : Bytes → Bytes) (hH : ∀ x, (H x).length = 64) (v : Version) (leaves : List Bytes) :
    ∀ (rg : Res Gen.MerkleTree) (rm : Res Tree), rg ≃ᵣ rm.map (toGenTree v) →
      leaves.foldl (fun r d => r.bind fun g => Gen.MerkleTree.push_leaf H g d) rg ≃ᵣ
        (leaves.foldl (fun r d => r.bind fun t => Merkle.pushLeaf (cfgOf H v) t d) rm).map (toGenTree v) := by
  induction leaves with
  | nil => intro rg rm h; exact h
  | cons d ds ih =>
    intro rg rm h
    simp only [List.foldl_cons]
    apply ih
    rw [map_bind]
    exact Sim.bind_map h fun t => push_leaf_sim H hH v t d

/-- the generated per-batch sequence simulates the model's `runBatch` -/
theorem genRunBatch_sim (H : Bytes → Bytes) (hH : ∀ x, (H x).length = 64) (v : Version) (t : Tree)
    (leaves : List Bytes) :
    genRunBatch H (toGenTree v t) leaves ≃ᵣ
      (Merkle.runBatch (cfgOf H v) v.isIetf t leaves).map (fun p => (p.2, toGenTree v p.1)) := by
  unfold genRunBatch Merkle.runBatch genPushAll Merkle.pushAll
  rw [reset_eq, Res.bind_ok, map_bind]
  refine Sim.bind_map (genPushAll_sim_aux H hH v leaves (.ok (toGenTree v (Merkle.reset t))) (.ok (Merkle.reset t))
    (Res.Sim.of_eq rfl)) fun t' => ?_
  exact compute_root_sim H hH v t'

/-- the node hash the bridge uses (first `nodeLen v` bytes of a 64-byte `H`) has the node width: hypothesis `HashLen` of C04 -/
theorem hashLen_cfgOf (H : Bytes → Bytes) (hH : ∀ x, (H x).length = 64) (v : Version) : Merkle.HashLen (cfgOf H v) := by
  intro x
  have := nodeLen_le v
  simp only [cfgOf, List.length_take, hH]
  omega

/-- the node width is positive, and 32 for IETF: hypothesis `WidthOK` of C04 -/
theorem widthOK_cfgOf (H : Bytes → Bytes) (v : Version) : Merkle.WidthOK (cfgOf H v) v.isIetf := by
  cases v <;> simp [Merkle.WidthOK, cfgOf, nodeLen, Version.isIetf]

/-- C04 (completeness, totality, reuse) for the translated code, with SHA-512 as the parameter `H` (64-byte
    outputs): on ANY generated tree object `g` whose level vector is non-empty (fresh, or left behind by earlier
    batches), for either protocol version, `reset` + `push_leaf` of a non-empty batch of at most 2^32 leaves +
    `compute_root` returns normally; the root is the hash of the abstract tree of the batch; the tree object is again
    usable; and for every position `i` the generated `get_paths` on the resulting tree object returns the abstract
    sibling list, from which the generated verifier `root_from_paths` recomputes exactly that root for leaf `i`. -/
theorem GEN_merkle_complete (H : Bytes → Bytes) (hH : ∀ x, (H x).length = 64) (g : Gen.MerkleTree)
    (hg : g.levels ≠ []) (leaves : List Bytes) (hne : leaves ≠ []) (hsz : leaves.length ≤ 2 ^ 32) :
    ∃ g' r, genRunBatch H g leaves = .ok (r, g') ∧ g'.levels ≠ [] ∧ g'.version = g.version ∧
      r = Spec.MT.T.hash (cfgOf H g.version) (Spec.MT.treeOf leaves) ∧
      ∀ i (hi : i < leaves.length),
        Gen.MerkleTree.get_paths H g' i = .ok (Spec.MT.pathOf (cfgOf H g.version) leaves i).flatten ∧
        Gen.MerkleTree.root_from_paths H g' i leaves[i] (Spec.MT.pathOf (cfgOf H g.version) leaves i).flatten
          = .ok r := by
  obtain ⟨ls, v⟩ := g
  obtain ⟨t', r, hrun, ht', hr, hpaths⟩ := Props.C04.C04_complete (cfgOf H v) v.isIetf (hashLen_cfgOf H hH v)
    (widthOK_cfgOf H v) ⟨ls⟩ hg leaves hne hsz
  refine ⟨toGenTree v t', r, ?_, ht', rfl, hr, fun i hi => ?_⟩
  · rw [toGenTree_mk]
    have := genRunBatch_sim H hH v ⟨ls⟩ leaves
    rw [hrun] at this
    exact eq_ok_of_sim this
  · obtain ⟨h1, h2⟩ := hpaths i hi
    refine ⟨?_, ?_⟩
    · have := get_paths_sim H v t' i
      rw [h1] at this
      exact eq_ok_of_sim this
    · have := root_from_paths_sim H hH v t' i leaves[i] (Spec.MT.pathOf (cfgOf H v) leaves i).flatten
      rw [h2] at this
      exact eq_ok_of_sim this

/-- C04 (binding) for the translated verifier: if the generated `root_from_paths` (on any tree object of version `v`
    — it only reads the version) recomputes the root of a non-empty batch from an in-range index, a leaf and a path,
    then either the node hash is broken (explicit collision or preimage of the zero pad node) or the leaf is the
    batch's leaf at that index and the path is exactly the issued one. -/
theorem GEN_merkle_binding (H : Bytes → Bytes) (hH : ∀ x, (H x).length = 64) (g : Gen.MerkleTree)
    (leaves : List Bytes) (hne : leaves ≠ []) (i' : Nat) (hi : i' < leaves.length) (d' p' : Bytes)
    (h : Gen.MerkleTree.root_from_paths H g i' d' p' =
      .ok (Spec.MT.T.hash (cfgOf H g.version) (Spec.MT.treeOf leaves))) :
    Spec.MT.Broken (cfgOf H g.version) ∨
      (d' = leaves[i'] ∧ p' = (Spec.MT.pathOf (cfgOf H g.version) leaves i').flatten) := by
  obtain ⟨ls, v⟩ := g
  rw [toGenTree_mk] at h
  have hm := (Res.Sim.ok_iff (root_from_paths_sim H hH v ⟨ls⟩ i' d' p') _).mp h
  exact Props.C04.C04_binding (cfgOf H v) v.isIetf (hashLen_cfgOf H hH v) (widthOK_cfgOf H v) leaves hne i' hi d' p' hm


end Rough.Props.GenCore

import Rough.Lemmas.Codec
/-
  C05 — wire codec round-trips, is canonical, and agrees with a reference codec.
  Only statements and their (short) proofs from Lemmas/Codec live here.
-/
namespace Rough.Props.C05
open Rough

/-- Enum order (what the Rust `PartialOrd` compares, hence what `add_field` and the decoder enforce)
    is exactly ascending numeric order of the little-endian wire value. -/
theorem C05_tag_order (a b : Tag) : a.idx < b.idx ↔ Spec.tagNum a < Spec.tagNum b :=
  Lemmas.tag_order a b

/-- `from_wire ∘ wire_value = id`, and `from_wire` returns only the tag with exactly those bytes. -/
theorem C05_tag_wire (t : Tag) (w : Bytes) :
    Tag.ofWire t.wire = some t ∧ (Tag.ofWire w = some t → t.wire = w) :=
  Lemmas.tag_wire t w

/-- decode ∘ encode = id for every message built through the API (strictly increasing tags) from
    4-byte-aligned values — any number of fields 0..18, any lengths below the u32 limit. -/
theorem C05_decode_encode (m : Msg) (hs : m.Sorted) (ha : m.Aligned) (hsz : encodedSize m < 2 ^ 32) :
    fromBytes (encode m) = .ok m :=
  Lemmas.decode_encode m hs ha hsz

/-- every accepted non-empty message re-encodes to the identical bytes (canonical encoding). -/
theorem C05_encode_decode (b : Bytes) (m : Msg) (h : fromBytes b = .ok m) (hne : m.fields ≠ [])
    (hlen : b.length < 2 ^ 32) : encode m = b :=
  Lemmas.encode_decode b m h hne hlen

/-- the implementation model accepts exactly what the independent reference decoder accepts, with
    identical content. -/
theorem C05_ref (b : Bytes) (m : Msg) (hlen : b.length < 2 ^ 32) :
    fromBytes b = .ok m ↔ Spec.decode b = some m :=
  Lemmas.ref_agree b m hlen

/-- RFC framing adds exactly the 8-byte magic and the little-endian payload length. -/
theorem C05_framed (m : Msg) :
    encodeFramed m = Rough.strBytes "ROUGHTIM" ++ le32 (encode m).length ++ encode m ∧
    (encodeFramed m).length = 12 + (encode m).length :=
  Lemmas.framed m

/-- the size `encode` asserts on (`assert_eq!(out.len(), self.encoded_size())`) always holds -/
theorem C05_encoded_size (m : Msg) : (encode m).length = encodedSize m :=
  Lemmas.encode_length m

/-- non-vacuity: a concrete 3-field message meets the hypotheses of `C05_decode_encode`. -/
example : let m : Msg := ⟨[(Tag.SIG, [1,2,3,4]), (Tag.NONC, []), (Tag.PAD, [0,0,0,0,9,9,9,9])]⟩
    m.Sorted ∧ m.Aligned ∧ encodedSize m < 2 ^ 32 := by
  refine ⟨?_, ?_, ?_⟩
  · simp [Msg.Sorted, Msg.tags, Tag.idx]
  · simp [Msg.Aligned, Msg.values]
  · decide

end Rough.Props.C05

import Rough.Lemmas.Loop
/-
  Event-loop theorems: `Server::process_events` as a whole (Model/EventLoop.lean). They carry the
  per-pass theorems of C02/C07/C08/C09 to the real call structure (poll, three event arms, backlog flag,
  at most 16 batches per call) and add what only the loop can say: nothing queued is ever forgotten
  (C08 "wedge", C18), every call is bounded (C19), every pending health-check connection is answered
  exactly once (C15), the recorder sees exactly the events of the call (C17).
  Attributed to their properties in checklib/props.py.
-/
namespace Rough.Props.Loop
open Rough Rough.EventLoop Rough.LoopSpec Rough.ServerSpec Rough.Stats

/-- Refinement: a socket service IS `Server.run` on the batches of the plan, plus queue / flag /
    recorder bookkeeping — an equation that holds for every state, every input and every outcome
    (including the panic outcomes). Every theorem about `Server.run` on arbitrary pass lists therefore
    applies to the real call structure. -/
theorem LOOP_service_refines (E : Env) (debug : Bool) (M : Nat) (st : Loop) (ins : Nat → PassIn) :
    serviceSocket E debug M st ins =
      (Server.run E debug st.srv (plan st.srv.batchSize M st.sockQ ins).passes).bind fun (srv', sent, ev) =>
        .ok ({ st with srv := srv', sockQ := (plan st.srv.batchSize M st.sockQ ins).rest,
                       sockEdge := st.sockEdge || (plan st.srv.batchSize M st.sockQ ins).arrived,
                       backlog := (plan st.srv.batchSize M st.sockQ ins).full,
                       recd := st.recd.recordAll ev },
             ⟨sent, ev, [], (plan st.srv.batchSize M st.sockQ ins).passes.length⟩) :=
  Lemmas.Loop.service_refines E debug M st ins

/-- FIFO conservation: the batches read, in order, followed by what stays queued, are exactly the
    queue followed by what arrived during the batches that ran — nothing lost, duplicated or reordered. -/
theorem LOOP_plan_conserves (B M : Nat) (q : List Datagram) (ins : Nat → PassIn) :
    (plan B M q ins).passes.flatMap (·.chunk) ++ (plan B M q ins).rest =
      q ++ (List.range (plan B M q ins).passes.length).flatMap (fun i => (ins i).arrivals) :=
  Lemmas.Loop.plan_conserves B M q ins

/-- C19: a service runs at most `M` batches of at most `B` datagrams whatever arrives meanwhile; it
    stops early only because the socket ran dry, and then nothing is left queued. -/
theorem LOOP_plan_bounded (B M : Nat) (q : List Datagram) (ins : Nat → PassIn) :
    (plan B M q ins).passes.length ≤ M ∧ (∀ p ∈ (plan B M q ins).passes, p.chunk.length ≤ B) ∧
    ((plan B M q ins).full = true → (plan B M q ins).passes.length = M) ∧
    ((plan B M q ins).full = false → (plan B M q ins).rest = []) :=
  Lemmas.Loop.plan_bounded B M q ins

/-- C08 at the level of the call: for every reachable server state, ANY list of events (in any order,
    even repeated), any datagrams queued or arriving, any log level and any drawable fault injection,
    `process_events` returns normally and keeps the server invariant. -/
theorem LOOP_call_safe (E : Env) (hE : EnvOK E) (K : Keys) (hK : K.OK) (debug : Bool) (st : Loop)
    (hs : Inv E K st.srv) (hb : st.srv.batchSize ≤ 2 ^ 32) (c : CallIn) (hi : InsSafe c.passes)
    (hh : Token.healthCheck ∈ c.events → st.hcListener = true) :
    ∃ st' out, processEvents E debug st c = .ok (st', out) ∧ Inv E K st'.srv ∧
      st'.srv.batchSize = st.srv.batchSize ∧ st'.hcListener = st.hcListener :=
  Lemmas.Loop.call_safe E hE K hK debug st hs hb c hi hh

/-- … and so does every history of environment steps and calls. -/
theorem LOOP_run_safe (E : Env) (hE : EnvOK E) (K : Keys) (hK : K.OK) (debug : Bool) (st : Loop)
    (hs : Inv E K st.srv) (hb : st.srv.batchSize ≤ 2 ^ 32) (steps : List Step)
    (hi : ∀ c, Step.call c ∈ steps → InsSafe c.passes ∧ (Token.healthCheck ∈ c.events → st.hcListener = true)) :
    ∃ st' outs, run E debug st steps = .ok (st', outs) ∧ Inv E K st'.srv :=
  Lemmas.Loop.run_safe E hE K hK debug st hs hb steps hi

/-- Liveness invariant, established by `Server::new` … -/
theorem LOOP_live_new (srv : Server) (hc pc : Bool) (limit : Nat) : Live (EventLoop.new srv hc pc limit) :=
  Lemmas.Loop.live_new srv hc pc limit

/-- … kept by everything the environment does … -/
theorem LOOP_live_env (st : Loop) (h : Live st) (e : EnvStep) : Live (envStep st e) :=
  Lemmas.Loop.live_env st h e

/-- … and by every call whose events are what `poll` returns: after a call, a non-empty socket queue
    always has a pending readiness event or the backlog flag, so the next call services it without
    waiting for an unrelated arrival; and no connection is left pending without an event. -/
theorem LOOP_live_call (E : Env) (debug : Bool) (st : Loop) (c : CallIn) (h : Live st) (he : EventsOK st c)
    (st' : Loop) (out : Out) (hr : processEvents E debug st c = .ok (st', out)) : Live st' :=
  Lemmas.Loop.live_call E debug st c h he st' out hr

/-- Progress of one call (nothing arriving meanwhile): it answers exactly the first 16·batch_size queued
    datagrams — the replies are the reference responder's, batch by batch — and leaves the others queued. -/
theorem LOOP_call_progress (E : Env) (hE : EnvOK E) (K : Keys) (hK : K.OK) (debug : Bool) (st : Loop)
    (hs : Inv E K st.srv) (hb : st.srv.batchSize ≤ 2 ^ 32) (hl : Live st) (c : CallIn) (he : EventsOK st c)
    (hi : InsOK c.passes) (hq : Quiet c.passes) :
    ∃ st' out, processEvents E debug st c = .ok (st', out) ∧
      out.sent = (plan st.srv.batchSize 16 st.sockQ c.passes).passes.flatMap (expectedSent E K st.srv) ∧
      (plan st.srv.batchSize 16 st.sockQ c.passes).passes.flatMap (·.chunk) = st.sockQ.take (16 * st.srv.batchSize) ∧
      st'.sockQ = st.sockQ.drop (16 * st.srv.batchSize) ∧
      Inv E K st'.srv ∧ st'.srv.batchSize = st.srv.batchSize ∧ st'.srv.srv = st.srv.srv :=
  Lemmas.Loop.call_progress E hE K hK debug st hs hb hl c he hi hq

/-- Drain: from any live state, `n` calls with nothing happening in between empty a queue shorter than
    n·16·batch_size; across those calls every queued datagram is read exactly once, in order, in batches of
    at most batch_size, and the number of datagrams sent is exactly the number of accepted requests that
    were queued (one reply each); the backlog flag ends cleared. -/
theorem LOOP_drains (E : Env) (hE : EnvOK E) (K : Keys) (hK : K.OK) (debug : Bool) (st : Loop)
    (hs : Inv E K st.srv) (hb : st.srv.batchSize ≤ 2 ^ 32) (hB : 0 < st.srv.batchSize) (hl : Live st)
    (ins : Nat → Nat → PassIn) (hi : ∀ k, InsOK (ins k)) (hq : ∀ k, Quiet (ins k))
    (n : Nat) (hn : st.sockQ.length < n * (16 * st.srv.batchSize)) :
    ∃ (st' : Loop) (outs : List Out) (passes : List Server.Pass), idleCalls E debug ins n st = .ok (st', outs) ∧ st'.sockQ = [] ∧ st'.backlog = false ∧
      passes.flatMap (·.chunk) = st.sockQ ∧ (∀ p ∈ passes, p.chunk.length ≤ st.srv.batchSize) ∧
      outs.flatMap (·.sent) = passes.flatMap (expectedSent E K st.srv) ∧
      (outs.flatMap (·.sent)).length =
        (accepted st.srv.srv .ietf st.sockQ).length + (accepted st.srv.srv .google st.sockQ).length :=
  Lemmas.Loop.drains E hE K hK debug st hs hb hB hl ins hi hq n hn

/-- C15: every connection pending on the health-check listener when a call starts is answered in that
    call, exactly once, in order; none stays pending. -/
theorem LOOP_hc_exactly_once (E : Env) (debug : Bool) (st : Loop) (c : CallIn) (hl : Live st) (he : EventsOK st c)
    (st' : Loop) (out : Out) (hr : processEvents E debug st c = .ok (st', out)) :
    out.hcAnswered = st.hcQ ∧ st'.hcQ = [] :=
  Lemmas.Loop.hc_exactly_once E debug st c hl he st' out hr

/-- C17 wiring: between two statistics publications the recorder is exactly the fold of the events of
    the call, in order; nothing is published unless the timer fired. -/
theorem LOOP_recorder (E : Env) (debug : Bool) (st : Loop) (c : CallIn) (st' : Loop) (out : Out)
    (hr : processEvents E debug st c = .ok (st', out)) (hn : Token.statusUpdate ∉ c.events) :
    st'.recd = st.recd.recordAll out.events ∧ st'.published = st.published :=
  Lemmas.Loop.recorder E debug st c st' out hr hn

/-- Witness (the shape of seeded change C18-r2): a service that never sets the backlog flag leaves
    datagrams queued with neither flag nor event … -/
theorem LOOP_noflag_strands (E : Env) (hE : EnvOK E) (K : Keys) (hK : K.OK) (debug : Bool) (st : Loop)
    (hs : Inv E K st.srv) (hb : st.srv.batchSize ≤ 2 ^ 32) (M : Nat) (ins : Nat → PassIn) (hi : InsOK ins)
    (hq : Quiet ins) (hlen : M * st.srv.batchSize < st.sockQ.length) :
    ∃ st' out, serviceSocketNoFlag E debug M st ins = .ok (st', out) ∧ st'.sockQ ≠ [] ∧
      st'.backlog = st.backlog ∧ st'.sockEdge = st.sockEdge :=
  Lemmas.Loop.noflag_strands E hE K hK debug st hs hb M ins hi hq hlen

/-- … and in such a state every further call (poll has nothing to return) does nothing at all: the
    queued requests wait until an unrelated datagram arrives. -/
theorem LOOP_stuck (E : Env) (debug : Bool) (st : Loop) (h1 : st.sockEdge = false) (h2 : st.backlog = false)
    (h3 : st.hcEdge = false) (h4 : st.timerDue = false) (c : CallIn) (he : EventsOK st c) :
    processEvents E debug st c = .ok (st, {}) :=
  Lemmas.Loop.stuck E debug st h1 h2 h3 h4 c he

/-- Witness of finding F10: one `accept` per readiness event leaves the second connection pending with
    no event to come. -/
theorem LOOP_hc_once_strands (st : Loop) (hL : st.hcListener = true) (a b : Addr) (rest : List Addr)
    (hq : st.hcQ = a :: b :: rest) (he : st.hcEdge = false) :
    ∃ st' out, handleHealthCheckOnce st = .ok (st', out) ∧ out.hcAnswered = [a] ∧ st'.hcQ = b :: rest ∧
      st'.hcEdge = false :=
  Lemmas.Loop.hc_once_strands st hL a b rest hq he

end Rough.Props.Loop

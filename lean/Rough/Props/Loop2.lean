import Rough.Lemmas.Loop2
/-
  Event-loop theorems, second batch: the bound on the work of one call in the real call structure, the
  worker's polling loop with the shutdown flag (C19 on the concrete loop model rather than on counters), and
  independence of the kernel's distribution of datagrams over the workers' sockets (C18).
-/
namespace Rough.Props.Loop2
open Rough Rough.EventLoop Rough.LoopSpec Rough.ServerSpec Rough.Stats

/-- C19: a `process_events` call whose events are what `poll` returns runs at most 16 batches — whatever is
    queued, whatever arrives while it runs, in whatever state the worker is (no invariant needed). -/
theorem LOOP_call_batches_bounded (E : Env) (debug : Bool) (st : Loop) (c : CallIn) (he : EventsOK st c)
    (st' : Loop) (out : Out) (hr : processEvents E debug st c = .ok (st', out)) :
    out.batches ≤ 16 ∧ out.sent.length ≤ 16 * st.srv.batchSize :=
  Lemmas.Loop2.call_batches_bounded E debug st c he st' out hr

/-- C19 on the concrete loop: whatever arrives and whatever events fire, for ever, the worker returns right
    after the first call that ends once the flag is set — call number `flagAt` — having run every call
    normally (each at most 16 batches by the previous theorem); nothing sent in those calls is lost or cut
    short (the outputs are exactly those of calls 0..flagAt). -/
theorem LOOP_polling_exits (E : Env) (hE : EnvOK E) (K : Keys) (hK : K.OK) (debug : Bool) (st : Loop)
    (hs : Inv E K st.srv) (hb : st.srv.batchSize ≤ 2 ^ 32) (flagAt : Nat) (calls : Nat → CallIn)
    (hi : ∀ k, InsSafe (calls k).passes ∧ (Token.healthCheck ∈ (calls k).events → st.hcListener = true))
    (fuel : Nat) (hf : flagAt < fuel) :
    ∃ st' outs, pollingLoop E debug flagAt calls fuel 0 st = .ok (some flagAt, st', outs) ∧
      outs.length = flagAt + 1 ∧ Inv E K st'.srv :=
  Lemmas.Loop2.polling_exits E hE K hK debug st hs hb flagAt calls hi fuel hf

/-- C18: how the kernel distributes the datagrams over the workers' sockets is irrelevant for how many are
    answered: for ANY split of the datagrams `all` into per-worker queues (any permutation, any sizes, empty
    queues allowed), the per-worker numbers of accepted requests — which by `LOOP_drains` are the numbers of
    replies each worker sends — add up to the number of accepted requests in `all`. (All workers share `srv`,
    the commitment to the one long-term key: `Inv.srv`.) -/
theorem LOOP_distribution_independent (srv : Bytes) (ver : Version) (queues : List (List Datagram))
    (all : List Datagram) (hperm : queues.flatten.Perm all) :
    (queues.map fun q => (accepted srv ver q).length).sum = (accepted srv ver all).length :=
  Lemmas.Loop2.distribution_independent srv ver queues all hperm

end Rough.Props.Loop2

import Rough.Props.GenBasic
import Rough.Bridge.Envelope
import Rough.Props.C14
/-
  Property theorems stated directly about the Lean code REGENERATED FROM /repo's RUST SOURCE on every run
  (`Gen.*`, Rough/Generated/Src/*.lean), obtained by composing a bridge theorem of Rough/Bridge/*.lean (generated
  function = model function up to `≃ᵣ`) with a model-level property theorem of Rough/Props/Cxx.lean.  Nothing new is
  proved about the model here: every theorem is "bridge ∘ property", so it re-checks on every run against what the
  code says now.  (Same pattern as Props/GenLoop.lean, for the codec, the request classifier, the Merkle tree, the
  signed midpoint, the incremental signer / verifier, the seed envelope, the client validation path and the
  per-client statistics.)
-/
namespace Rough.Props.GenCore
open Rough Rough.Bridge

/-! ### C14 — the envelope-encrypted seed: `EnvelopeEncryption::decrypt_seed` as generated -/

/-- C14 (totality) for the translated code: for every AEAD, every key provider (both may fail) and every blob, the
    generated `decrypt_seed` returns a seed or an error — it never panics. -/
theorem GEN_decrypt_seed_total (A : Envelope.Aead) (K : Envelope.Kms) (blob : Bytes) (s : String) :
    Gen.EnvelopeEncryption.decrypt_seed A K blob ≠ .panic s := by
  intro h
  have := decrypt_seed_no_panic A K blob
  rw [h] at this
  cases this

/-- C14 (round trip) for the translated code: the generated `decrypt_seed` recovers every seed of at least 32 bytes
    from the blob the model's `encrypt` lays out for it, for every correct AEAD with 16-byte tags and every provider
    whose unwrap inverts its wrap on this 32-byte data key (wrapped-key length below 2^16). -/
theorem GEN_decrypt_round_trip (K : Envelope.Kms) (A : Envelope.Aead) (hA : A.Correct)
    (hlen : ∀ k n ad pt ct, A.sealF k n ad pt = some ct → ct.length = pt.length + 16)
    (dek nonce seed w : Bytes) (hd : dek.length = 32) (hn : nonce.length = 12)
    (hw : K.wrap dek = some w) (hu : K.unwrap w = some dek) (hwl : w.length < 2 ^ 16) (hs : 32 ≤ seed.length) :
    ∃ blob, Envelope.encrypt K A dek nonce seed = .ok blob ∧
      Gen.EnvelopeEncryption.decrypt_seed A K blob = .ok seed := by
  obtain ⟨blob, he, hdec⟩ := Props.C14.C14_round_trip K A hA hlen dek nonce seed w hd hn hw hu hwl hs
  exact ⟨blob, he, (Res.Sim.ok_iff (decrypt_seed_sim A K blob) seed).mpr hdec⟩

/-- C14 (tamper evidence, as a reduction) for the translated code: if the generated `decrypt_seed` returns a value on
    ANY blob different from the honest one (wrapped key `w`, 12-byte nonce, ciphertext `ct`), then that blob parses
    into a (wrapped key, nonce, ciphertext) triple different from the honest triple, the provider unwrapped that
    wrapped key to a 32-byte key, and the AEAD opened that ciphertext under that key and nonce to the returned value
    — i.e. the attacker holds an AEAD forgery or the provider is malleable. -/
theorem GEN_decrypt_tamper (K : Envelope.Kms) (A : Envelope.Aead) (w nonce ct : Bytes) (hn : nonce.length = 12)
    (hwl : w.length < 2 ^ 16) (hmin : Envelope.MIN_PAYLOAD_SIZE ≤ 4 + w.length + 12 + ct.length)
    (blob' p' : Bytes) (hne : blob' ≠ Envelope.layout w nonce ct)
    (hdec : Gen.EnvelopeEncryption.decrypt_seed A K blob' = .ok p') :
    ∃ w' n' c' dek', Envelope.parse blob' = some (w', n', c') ∧ (w', n', c') ≠ (w, nonce, ct) ∧
      K.unwrap w' = some dek' ∧ dek'.length = 32 ∧ A.openF dek' n' Envelope.AD c' = some p' :=
  Props.C14.C14_tamper K A w nonce ct hn hwl hmin blob' p' hne
    ((Res.Sim.ok_iff (decrypt_seed_sim A K blob') p').mp hdec)

/-- C14 (wrong key) for the translated code: with a provider that returns a different data key for the honest blob,
    the generated `decrypt_seed` fails with an error when that key is not 32 bytes long, and any value it returns is
    an AEAD opening of the honest ciphertext under that other key (a forgery). -/
theorem GEN_decrypt_wrong_key (K' : Envelope.Kms) (A : Envelope.Aead) (w nonce ct dek' : Bytes)
    (hn : nonce.length = 12) (hwl : w.length < 2 ^ 16)
    (hmin : Envelope.MIN_PAYLOAD_SIZE ≤ 4 + w.length + 12 + ct.length) (hu : K'.unwrap w = some dek') :
    (dek'.length ≠ 32 → Gen.EnvelopeEncryption.decrypt_seed A K' (Envelope.layout w nonce ct) = .err) ∧
    (∀ p, Gen.EnvelopeEncryption.decrypt_seed A K' (Envelope.layout w nonce ct) = .ok p →
      A.openF dek' nonce Envelope.AD ct = some p) := by
  obtain ⟨h1, h2⟩ := Props.C14.C14_wrong_key K' A w nonce ct dek' hn hwl hmin hu
  have hsim := decrypt_seed_sim A K' (Envelope.layout w nonce ct)
  exact ⟨fun hl => (Res.Sim.err_iff hsim).mpr (h1 hl), fun p hp => h2 p ((Res.Sim.ok_iff hsim p).mp hp)⟩


end Rough.Props.GenCore

import Rough.Props.GenBasic
import Rough.Props.GenSecrets
import Rough.Props.C09
import Rough.Props.C10
import Rough.Props.C18
/-
  C18 (key-material part) stated about the constructors as REGENERATED from /repo's Rust source: every worker of a
  multi-worker server is created from the ONE long-term seed, with its own online seeds; the two responders the
  generated `LongTermKey::new` + `Responder::new` (IETF) + `Responder::new` (classic) create for a worker are the
  generated images of the responders of the model server `Server.new`, which satisfies the model invariant `Inv`
  (hypothesis `hinv` of `C18_workers`), and both certificates are certificates of the same long-term key `E.S.pk seed`.
  Composition of `server_responders_sim` (bridge) with `C09_new` and `C10_cert_valid` (model); nothing new is proved
  about the model here.
-/
namespace Rough.Props.GenCore
open Rough Rough.Bridge Rough.ServerSpec

/-- C18: what one worker is created from besides the shared long-term seed — its own two online seeds (drawn by
    `MsgSigner::new` / `OnlineKey::new` from the system random source), its own fault-injection decision lists and its
    configuration record -/
structure Worker where
  onlI : Bytes
  onlC : Bytes
  gqI : List Grease
  gqC : List Grease
  cfg : Config.Cfg

/-- C18 (bridge step): the responders the generated constructors create (`genResponders`) are the generated images of
    the two responders of the model's `Server.new` (`server_responders_sim` without the returned long-term key) -/
theorem genResponders_sim (E : Env) (seed onlI onlC : Bytes) (b : Nat) (gqI gqC : List Grease) (cfg : Config.Cfg) :
    genResponders E seed onlI onlC gqI gqC cfg ≃ᵣ
      (Server.new E seed onlI onlC b).map fun s =>
        (toGenResponder s.ietf ⟨gqI, Grease.none⟩, toGenResponder s.classic ⟨gqC, Grease.none⟩) := by
  have h := server_responders_sim E seed onlI onlC b gqI gqC cfg
  unfold genResponders
  revert h
  cases h0 : Gen.LongTermKey.new E.S E.H seed with
  | ok ltk =>
    simp only [Res.bind_ok]
    cases h1 : Gen.Responder.new E.S E.H onlI gqI Version.ietf cfg ltk with
    | ok r1 =>
      simp only [Res.bind_ok]
      cases h2 : Gen.Responder.new E.S E.H onlC gqC Version.google cfg r1.2 with
      | ok r2 =>
        simp only [Res.bind_ok]
        cases hs : Server.new E seed onlI onlC b <;> simp [Res.Sim, Res.map]
        intro a b c; exact ⟨a, b⟩
      | err => simp only [Res.bind_err]; cases hs : Server.new E seed onlI onlC b <;> simp [Res.Sim, Res.map]
      | panic p => simp only [Res.bind_panic]; cases hs : Server.new E seed onlI onlC b <;> simp [Res.Sim, Res.map]
    | err => simp only [Res.bind_err]; cases hs : Server.new E seed onlI onlC b <;> simp [Res.Sim, Res.map]
    | panic p => simp only [Res.bind_panic]; cases hs : Server.new E seed onlI onlC b <;> simp [Res.Sim, Res.map]
  | err => simp only [Res.bind_err]; cases hs : Server.new E seed onlI onlC b <;> simp [Res.Sim, Res.map]
  | panic p => simp only [Res.bind_panic]; cases hs : Server.new E seed onlI onlC b <;> simp [Res.Sim, Res.map]

/-- C18 (key material of the workers), for the translated constructors: for ONE 32-byte long-term seed and ANY list of
    workers, each with its own pair of 32-byte online seeds (and its own fault-injection lists and configuration
    record), the generated `LongTermKey::new seed` followed by the generated `Responder::new` for IETF and then for
    classic (`genResponders`) returns normally a pair of responders `(rI, rC)`; these are exactly the generated images
    of the IETF / classic responders of the model server `s = Server.new E seed onlI onlC b`, which satisfies the model
    invariant `Inv E ⟨seed, onlI, onlC⟩ s` (the hypothesis `hinv` of `C18_workers`, with `K.seed = seed`) and announces
    the public key `E.S.pk seed` and the SRV value `H(0xff ‖ pk)[0..32]` — the same for every worker; and each of the
    two generated responders carries `cert_bytes` that the reference decoder reads as a CERT with fields SIG and DELE
    where SIG verifies under the SAME long-term public key `E.S.pk seed` over
    `delegation context of the responder's version ‖ DELE bytes`, and DELE carries that responder's own online public
    key, MINT = 0 and MAXT = 2^64 − 1; the versions are IETF and classic, the online seeds are the worker's own, and
    the online signers' buffers are empty. -/
theorem GEN_workers_one_identity (E : Env) (hE : EnvOK E) (hS : E.S.Correct) (seed : Bytes) (hseed : seed.length = 32)
    (b : Nat) (workers : List Worker) (hw : ∀ w ∈ workers, w.onlI.length = 32 ∧ w.onlC.length = 32) :
    ∀ w ∈ workers, ∃ (s : Server) (rI rC : Gen.Responder),
      genResponders E seed w.onlI w.onlC w.gqI w.gqC w.cfg = .ok (rI, rC) ∧
      Server.new E seed w.onlI w.onlC b = .ok s ∧
      rI = toGenResponder s.ietf ⟨w.gqI, Grease.none⟩ ∧
      rC = toGenResponder s.classic ⟨w.gqC, Grease.none⟩ ∧
      Inv E ⟨seed, w.onlI, w.onlC⟩ s ∧ s.batchSize = b ∧
      s.ltPub = E.S.pk seed ∧ s.srv = (E.H ((0xff : UInt8) :: E.S.pk seed)).take 32 ∧
      rI.version = Version.ietf ∧ rC.version = Version.google ∧
      rI.online_key.signer = ⟨w.onlI, []⟩ ∧ rC.online_key.signer = ⟨w.onlC, []⟩ ∧
      ∀ r ∈ [rI, rC], ∃ cert sig dele deleM,
        Spec.decode r.cert_bytes = some cert ∧ cert.get Tag.SIG = some sig ∧ cert.get Tag.DELE = some dele ∧
        E.S.verify (E.S.pk seed) (r.version.delePrefix ++ dele) sig = true ∧
        Spec.decode dele = some deleM ∧ deleM.get Tag.PUBK = some (E.S.pk r.online_key.signer.seed) ∧
        deleM.get Tag.MINT = some (le64 0) ∧ deleM.get Tag.MAXT = some (le64 (2 ^ 64 - 1)) := by
  intro w hmem
  obtain ⟨hI, hC⟩ := hw w hmem
  obtain ⟨s, hnew, hinv, hb⟩ := Props.C09.C09_new E hE ⟨seed, w.onlI, w.onlC⟩ ⟨hseed, hI, hC⟩ b
  obtain ⟨s', hnew', hpub, hsrv, hcert⟩ := Props.C10.C10_cert_valid E hS hE seed w.onlI w.onlC b hseed hI hC
  have hss : s' = s := by
    have := hnew'.symm.trans hnew
    cases this; rfl
  subst hss
  have hgen := eq_ok_of_sim_map (genResponders_sim E seed w.onlI w.onlC b w.gqI w.gqC w.cfg) hnew
  refine ⟨s', _, _, hgen, hnew, rfl, rfl, hinv, hb, hpub, hsrv, hinv.verI, hinv.verC, hinv.onlI, hinv.onlC, ?_⟩
  intro r hr
  simp only [List.mem_cons, List.mem_nil_iff, or_false] at hr
  rcases hr with rfl | rfl
  · obtain ⟨cert, sig, dele, deleM, h1, h2, h3, h4, h5, h6, h7, h8, _⟩ := hcert s'.ietf (by simp)
    exact ⟨cert, sig, dele, deleM, h1, h2, h3, h4, h5, h6, h7, h8⟩
  · obtain ⟨cert, sig, dele, deleM, h1, h2, h3, h4, h5, h6, h7, h8, _⟩ := hcert s'.classic (by simp)
    exact ⟨cert, sig, dele, deleM, h1, h2, h3, h4, h5, h6, h7, h8⟩

/-- C18 (one identity across workers): any two workers of the list hold certificates signed by the same long-term key
    and announce the same public key and SRV value — the model servers of any two workers created from the one seed
    (whose generated images the workers' responders are, `GEN_workers_one_identity`) agree on `ltPub` and `srv`, and
    the generated responders of both exist. -/
theorem GEN_workers_same_identity (E : Env) (hE : EnvOK E) (hS : E.S.Correct) (seed : Bytes)
    (hseed : seed.length = 32) (b : Nat) (workers : List Worker)
    (hw : ∀ w ∈ workers, w.onlI.length = 32 ∧ w.onlC.length = 32) :
    ∀ w ∈ workers, ∀ w' ∈ workers, ∃ (s s' : Server),
      genResponders E seed w.onlI w.onlC w.gqI w.gqC w.cfg =
        .ok (toGenResponder s.ietf ⟨w.gqI, Grease.none⟩, toGenResponder s.classic ⟨w.gqC, Grease.none⟩) ∧
      genResponders E seed w'.onlI w'.onlC w'.gqI w'.gqC w'.cfg =
        .ok (toGenResponder s'.ietf ⟨w'.gqI, Grease.none⟩, toGenResponder s'.classic ⟨w'.gqC, Grease.none⟩) ∧
      s.ltPub = E.S.pk seed ∧ s'.ltPub = E.S.pk seed ∧ s.srv = s'.srv := by
  intro w hmem w' hmem'
  obtain ⟨s, rI, rC, hg, _, rfl, rfl, _, _, hp, hsrv, _⟩ :=
    GEN_workers_one_identity E hE hS seed hseed b workers hw w hmem
  obtain ⟨s', rI', rC', hg', _, rfl, rfl, _, _, hp', hsrv', _⟩ :=
    GEN_workers_one_identity E hE hS seed hseed b workers hw w' hmem'
  exact ⟨s, s', hg, hg', hp, hp', hsrv.trans hsrv'.symm⟩

end Rough.Props.GenCore

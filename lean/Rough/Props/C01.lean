import Rough.Lemmas.Client
/-
  C01 — the client never reports an unauthentic response as verified.
  `Client.handleResponse` models everything the client does with a received datagram; `.ok o` means
  "prints the time, exit status 0", a panic means "non-zero exit, no time printed".
  `Spec.RT.authentic` is the property's own list of conditions, written independently.
-/
namespace Rough.Props.C01
open Rough Rough.Spec Rough.ServerSpec

/-- Soundness / fail-closed: with a pinned key, the client accepts a datagram only if it is
    authentic under that key for the client's own request — signature chain under the protocol's
    context strings, midpoint inside the delegation window, Merkle proof binding this request to the
    signed root — and then reports verified = true and exactly the signed midpoint and radius.
    Contrapositive: any datagram failing one of the conditions makes the client fail. -/
theorem C01_sound (S : SigScheme) (H : Bytes → Bytes) (ver : Version) (pk nonce request dg : Bytes)
    (hdg : dg.length ≤ 4096) (o : Client.Outcome)
    (h : Client.handleResponse S H ver (some pk) nonce request dg = .ok o) :
    o.verified = true ∧
    RT.authentic S H (protoOfVer ver) pk request nonce dg = some (o.midpoint, o.radius) :=
  Lemmas.Client.sound S H ver pk nonce request dg hdg o h

/-- No replay: a genuine response that was produced for a batch not containing this request's leaf
    (an earlier request of this run or of a previous run — nonces differ) is accepted for this
    request only if SHA-512 is broken (explicit collision / zero preimage). That each request carries
    a fresh nonce is a property of the OS random generator, outside the model (measured by the harness). -/
theorem C01_no_replay (S : SigScheme) (H : Bytes → Bytes) (hH : ∀ x, (H x).length = 64)
    (hsig : ∀ seed m, (S.sign seed m).length = 64) (hpk : ∀ seed, (S.pk seed).length = 32)
    (p : RT.Proto) (pk ltSeed onlSeed : Bytes) (midp radi mint maxt : Nat)
    (hm : midp < 2 ^ 64) (hr : radi < 2 ^ 32) (hmi : mint < 2 ^ 64) (hma : maxt < 2 ^ 64)
    (leaves : List Bytes) (i : Nat) (hi : i < leaves.length) (hn : leaves.length ≤ 2 ^ 32)
    (oldNonce : Bytes) (hon : oldNonce.length % 4 = 0) (honl : oldNonce.length < 2 ^ 16)
    (request nonce : Bytes)
    (hfresh : (match p with | .classic => nonce | .draft13 => request) ∉ leaves)
    (res : Nat × Nat)
    (hacc : RT.authentic S H p pk request nonce
      (RT.respond S H p ltSeed onlSeed midp radi mint maxt leaves i oldNonce) = some res) :
    MT.Broken (RT.mcfg H p) :=
  Lemmas.Client.no_replay S H hH hsig hpk p pk ltSeed onlSeed midp radi mint maxt hm hr hmi hma leaves i hi hn
    oldNonce hon honl request nonce hfresh res hacc

end Rough.Props.C01

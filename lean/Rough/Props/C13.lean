import Rough.Lemmas.Sign
/-
  C13 — incremental signer/verifier equal one-shot signing/verification, no carry-over.
  `S : SigScheme` is arbitrary (the concrete RFC 8032 transcription is plugged in by the driver and
  compared with ed25519-dalek on every run), so these are statements about the buffering logic of
  MsgSigner / MsgVerifier for every history.
-/
namespace Rough.Props.C13
open Rough

/-- messages signed by a history: for every `sign`, the concatenation of the chunks fed since the
    previous `sign` (or since creation) -/
def segments : List SignerOp → List Bytes :=
  let rec go (cur : Bytes) : List SignerOp → List Bytes
    | [] => []
    | .update d :: ops => go (cur ++ d) ops
    | .sign :: ops => cur :: go [] ops
  go []

/-- For every seed and every history of updates and signs on one signer object, the k-th signature
    is the one-shot signature of the concatenated chunks of the k-th message alone. -/
theorem C13_signer (S : SigScheme) (seed : Bytes) (ops : List SignerOp) :
    runSigner S ⟨seed, []⟩ ops = (segments ops).map (S.sign seed) :=
  Lemmas.Sign.signer S seed ops

/-- no carry-over: after a `sign` the signer object is indistinguishable from a new one -/
theorem C13_no_carry_over (S : SigScheme) (s : Signer) : (s.sign S).2 = ⟨s.seed, []⟩ :=
  Lemmas.Sign.no_carry_over S s

/-- independence of chunking: two chunkings of the same message give the same signature -/
theorem C13_chunking (S : SigScheme) (seed : Bytes) (c1 c2 : List Bytes) (h : c1.flatten = c2.flatten) :
    runSigner S ⟨seed, []⟩ (c1.map .update ++ [.sign]) = runSigner S ⟨seed, []⟩ (c2.map .update ++ [.sign]) :=
  Lemmas.Sign.chunking S seed c1 c2 h

/-- the verifier, fed a message in arbitrary chunks, accepts exactly when one-shot verification of
    the concatenation does (for a parsable key and a 64-byte signature; otherwise it panics, which
    callers treat as rejection). -/
theorem C13_verifier (S : SigScheme) (pk : Bytes) (chunks : List Bytes) (sig : Bytes)
    (hpk : pk.length = 32) (hv : S.pkValid pk = true) (hs : sig.length = 64) :
    (Verifier.new S pk).bind (fun v => (chunks.foldl Verifier.update v).verify S sig)
      = .ok (S.verify pk chunks.flatten sig) :=
  Lemmas.Sign.verifier S pk chunks sig hpk hv hs

example : segments [.update [1], .update [2], .sign, .sign, .update [3], .sign] = [[1, 2], [], [3]] := by
  decide

end Rough.Props.C13

import Rough.Lemmas.ServerAssembly
/-
  C18 — under concurrent multi-worker load every request is answered once, validly (partial).
  Workers share no mutable state except the push-only statistics queue, so "every schedule and every
  kernel distribution of datagrams" reduces to: every worker w processes SOME list of passes
  `work[w]` (whatever the kernel delivered to its socket, in whatever chunks). The theorem holds for
  every such assignment. What the model cannot exhibit: that the kernel delivers each datagram to
  exactly one socket, data-race freedom of crossbeam/mio (safe Rust), thread starvation.
-/
namespace Rough.Props.C18
open Rough Rough.ServerSpec Rough.Spec

/-- n workers created from ONE long-term seed (each with its own online keys), each processing an
    arbitrary list of passes: no worker dies; each worker sends exactly one reference reply per
    request it accepted, to that request's source; and every datagram any worker sends verifies for
    its request under the single long-term key of the seed. -/
theorem C18_workers (E : Env) (hE : EnvOK E) (hS : E.S.Correct) (seed : Bytes) (debug : Bool)
    (Ks : List Keys) (hKs : ∀ K ∈ Ks, K.OK ∧ K.seed = seed)
    (servers : List Server) (work : List (List Server.Pass))
    (hl1 : servers.length = Ks.length) (hl2 : work.length = Ks.length)
    (hinv : ∀ w (h : w < Ks.length), Inv E Ks[w] (servers[w]'(by omega)) ∧ (servers[w]'(by omega)).batchSize ≤ 255)
    (hwork : ∀ ps ∈ work, ∀ p ∈ ps, PassOK p) :
    ∀ w (h : w < Ks.length),
      let s := servers[w]'(by omega)
      let ps := work[w]'(by omega)
      ∃ s', Server.run E debug s ps = .ok (s', ps.flatMap (expectedSent E Ks[w] s), ps.flatMap (expectedEvents E Ks[w] s)) ∧
        Inv E Ks[w] s' ∧
        ∀ p ∈ ps, ∀ ver, ∀ i (hi : i < (accepted s.srv ver (p.chunk.take s.batchSize)).length),
          let reqs := accepted s.srv ver (p.chunk.take s.batchSize)
          let now := match ver with | .ietf => p.nowIetf | .google => p.nowClassic
          ∃ x ∈ expectedSent E Ks[w] s p, x.dst = reqs[i].1.src ∧
            x.bytes.length ≤ reqs[i].1.bytes.length ∧
            RT.verifyResponse E.S E.H (protoOfVer ver) (E.S.pk seed) reqs[i].1.bytes reqs[i].2 x.bytes
              = .ok (midpVal ver now, radiOf ver) :=
  Lemmas.ServerAssembly.workers E hE hS seed debug Ks hKs servers work hl1 hl2 hinv hwork

end Rough.Props.C18

import Rough.Lemmas.Merkle
/-
  C04 — Merkle inclusion proofs are complete and binding for every batch shape.
  `c : MerkleCfg` is an arbitrary node hash of fixed output width; nothing is assumed about its
  security: binding is a reduction (either the claimed leaf/path are the genuine ones or an explicit
  collision / zero-preimage exists).
-/
namespace Rough.Props.C04
open Rough Rough.Merkle Rough.Spec.MT

/-- Completeness, totality and reuse in one statement: on ANY tree object whose level vector is
    non-empty (fresh, or left behind by any earlier batches), resetting, pushing a non-empty batch
    and computing the root never panics; the root is the hash of the abstract tree of the batch;
    for every position the issued path is the abstract sibling list and recomputes exactly that
    root; and the tree object is again usable. No bound on the batch size other than 2^32
    (the `assert!(level <= 32)` of get_paths). -/
theorem C04_complete (c : MerkleCfg) (ietf : Bool) (hl : HashLen c) (hw : WidthOK c ietf)
    (t : Tree) (ht : t.levels ≠ []) (leaves : List Bytes) (hne : leaves ≠ [])
    (hsz : leaves.length ≤ 2 ^ 32) :
    ∃ t' r, runBatch c ietf t leaves = .ok (t', r) ∧ t'.levels ≠ [] ∧
      r = T.hash c (treeOf leaves) ∧
      ∀ i (hi : i < leaves.length),
        getPaths t' i = .ok (pathOf c leaves i).flatten ∧
        rootFromPaths c ietf i leaves[i] (pathOf c leaves i).flatten = .ok r :=
  Lemmas.Merkle.complete c ietf hl hw t ht leaves hne hsz

/-- Reuse: the outputs (root and every path) of a batch on a reused tree object equal those on a
    fresh tree, whatever batches — of any sizes, in any order — were processed before. -/
theorem C04_reuse (c : MerkleCfg) (ietf : Bool) (hl : HashLen c) (hw : WidthOK c ietf)
    (history : List (List Bytes)) (hh : ∀ b ∈ history, b ≠ [] ∧ b.length ≤ 2 ^ 32)
    (leaves : List Bytes) (hne : leaves ≠ []) (hsz : leaves.length ≤ 2 ^ 32) :
    ∃ tOld tNew tFresh r,
      history.foldl (fun (rt : Res Tree) b => rt.bind fun t => (runBatch c ietf t b).bind fun x => .ok x.1)
        (.ok Merkle.new) = .ok tOld ∧
      runBatch c ietf tOld leaves = .ok (tNew, r) ∧
      runBatch c ietf Merkle.new leaves = .ok (tFresh, r) ∧
      ∀ i, i < leaves.length → getPaths tNew i = getPaths tFresh i :=
  Lemmas.Merkle.reuse c ietf hl hw history hh leaves hne hsz

/-- Binding: if the verifier recomputes the root of a batch from (index, leaf, path) with an
    in-range index, then either the hash is broken (explicit collision or preimage of the zero pad
    node) or the leaf is the batch's leaf at that index and the path is exactly the issued one —
    so no changed, added or removed path element, and no other leaf, can pass. -/
theorem C04_binding (c : MerkleCfg) (ietf : Bool) (hl : HashLen c) (hw : WidthOK c ietf)
    (leaves : List Bytes) (hne : leaves ≠ []) (i' : Nat) (hi : i' < leaves.length)
    (d' p' : Bytes)
    (h : rootFromPaths c ietf i' d' p' = .ok (T.hash c (treeOf leaves))) :
    Broken c ∨ (d' = leaves[i'] ∧ p' = (pathOf c leaves i').flatten) :=
  Lemmas.Merkle.binding c ietf hl hw leaves hne i' hi d' p' h

/-- with pairwise distinct leaves, the leaf and path of position i do not verify at any other
    in-range index. -/
theorem C04_other_index (c : MerkleCfg) (ietf : Bool) (hl : HashLen c) (hw : WidthOK c ietf)
    (leaves : List Bytes) (hnd : leaves.Nodup) (i j : Nat) (hi : i < leaves.length)
    (hj : j < leaves.length) (hij : i ≠ j) (p' : Bytes)
    (h : rootFromPaths c ietf j leaves[i] p' = .ok (T.hash c (treeOf leaves))) :
    Broken c :=
  Lemmas.Merkle.other_index c ietf hl hw leaves hnd i j hi hj hij p' h

/-- `compute_root` on a tree without leaves panics (as the repository's tests expect). -/
theorem C04_empty_panics (c : MerkleCfg) (ietf : Bool) :
    ∃ s, computeRoot c ietf Merkle.new = .panic s :=
  Lemmas.Merkle.empty_panics c ietf

/-- non-vacuity: a concrete 4-byte "hash" satisfies HashLen/WidthOK, so the hypotheses are satisfiable -/
example : let c : MerkleCfg := ⟨fun x => (x ++ zeros 4).take 4, 4⟩
    HashLen c ∧ WidthOK c false := by
  refine ⟨?_, ?_, ?_⟩
  · intro x; simp [zeros]
  · decide
  · intro h; cases h

end Rough.Props.C04
